(* Facts about Model/Handshake.v: the local handshake driver of the client (client/handshake.rs).

   1. The request-line scanner (httparse as `recognize` observes it) is prefix-monotone: once it has decided
      (method and path set, or an error), more bytes never change what it decided          [request_line_*_app]
      and it is sound and complete for "empty lines, method SP uri SP"                     [request_line_done_inv, _complete_blank]
   2. recognize_step never depends on where the segments were cut                          [recognize_prefix_stable]
      what happens when the request line does not fit the 1024-byte window                 [recognize_full_window_*]
      and a target only ever comes from a complete request line                            [recognize_target_sound]
   3. consume_head_step: leading CR / LF bytes are skipped, the first CRLFCRLF behind them does not move
                                                                                            [consume_step_stable, consume_step_exact]
   4. the loops and the driver over an arrival history
      exact targets, answers and consumed counts for well-formed requests                  [plain_http_forwarded_untouched,
                                                                                             connect_yields_exact_target, consume_head_exact]
      refusals and their converse                                                          [bad_target_refused, long_request_line_refused,
                                                                                             refused_opens_no_tunnel, http_tunnel_sound]
   5. SOCKS5 (read_message: one byte at a time): exact target, replies and consumed count under every history,
      whatever follows the request                                                         [socks5_handshake_exact, socks5_connect_exact]
      EVERY stream, EVERY history: the outcome is that of everything arriving at once      [handshake_segmentation_independent]
   6. regression sensitivity: the behaviour before the repairs fad5d1a / 32d4108            [v0_socks5_early_data_lost,
                                                                                             v0_connect_after_empty_lines_forwarded]
   7. concrete requests (vm_compute) *)
From Coq Require Import NArith List Bool Lia Arith ZArith ZifyBool ZifyN ZifyNat.
From Coq Require String.
From Octo Require Import Base.Bytes Model.Utf8 Model.Address Model.Socks5 Model.Http Model.Handshake
  Proofs.AddressFacts Proofs.CodecLemmas Proofs.Socks5Facts Proofs.HttpFacts.
Import ListNotations.
Open Scope N_scope.

(* ------------------------------------------------------------------------------------------ *)
(* 1. the scanners are prefix-monotone                                                         *)
(* ------------------------------------------------------------------------------------------ *)
Lemma list_len_ind {A} (P : list A -> Prop) :
  (forall l, (forall l', (length l' < length l)%nat -> P l') -> P l) -> forall l, P l.
Proof.
  intros H l. remember (length l) as n eqn:E. revert l E.
  induction n as [n IH] using lt_wf_ind. intros l ->. apply H. intros l' Hl. exact (IH _ Hl l' eq_refl).
Qed.

Lemma skip_empty_lines_done_app p q r : skip_empty_lines p = SDone tt r -> skip_empty_lines (p ++ q) = SDone tt (r ++ q).
Proof.
  revert r. induction p as [p IH] using list_len_ind. intros r H.
  destruct p as [|x t]; cbn [skip_empty_lines app] in *; [discriminate H|].
  destruct (x =? ch_cr).
  - destruct t as [|y t']; [discriminate H|]. cbn [app]. destruct (y =? ch_lf); [|discriminate H].
    apply IH; [cbn [length]; lia|exact H].
  - destruct (x =? ch_lf).
    + apply IH; [cbn [length]; lia|exact H].
    + injection H as <-. reflexivity.
Qed.
Lemma skip_empty_lines_err_app p q : skip_empty_lines p = SErr -> skip_empty_lines (p ++ q) = SErr.
Proof.
  induction p as [p IH] using list_len_ind. intros H.
  destruct p as [|x t]; cbn [skip_empty_lines app] in *; [discriminate H|].
  destruct (x =? ch_cr).
  - destruct t as [|y t']; [discriminate H|]. cbn [app]. destruct (y =? ch_lf); [|reflexivity].
    apply IH; [cbn [length]; lia|exact H].
  - destruct (x =? ch_lf).
    + apply IH; [cbn [length]; lia|exact H].
    + discriminate H.
Qed.
(* what skip_empty_lines skipped *)
Fixpoint blank_lines (b : bytes) : Prop :=
  match b with
  | [] => True
  | x :: t => (x = ch_lf /\ blank_lines t) \/ (x = ch_cr /\ match t with y :: t' => y = ch_lf /\ blank_lines t' | [] => False end)
  end.
Lemma skip_empty_lines_done_inv p r : skip_empty_lines p = SDone tt r ->
  exists bl, p = bl ++ r /\ blank_lines bl /\ (exists x t, r = x :: t /\ x <> ch_cr /\ x <> ch_lf).
Proof.
  revert r. induction p as [p IH] using list_len_ind. intros r H.
  destruct p as [|x t]; cbn [skip_empty_lines] in H; [discriminate H|].
  destruct (N.eqb_spec x ch_cr) as [Ex|Ex].
  - destruct t as [|y t']; [discriminate H|]. destruct (N.eqb_spec y ch_lf) as [Ey|Ey]; [|discriminate H].
    destruct (IH t' ltac:(cbn [length]; lia) r H) as (bl & -> & Hb & Hr).
    exists (x :: y :: bl). split; [reflexivity|]. split; [|exact Hr].
    cbn [blank_lines]. right. split; [exact Ex|]. split; [exact Ey|exact Hb].
  - destruct (N.eqb_spec x ch_lf) as [El|El].
    + destruct (IH t ltac:(cbn [length]; lia) r H) as (bl & -> & Hb & Hr).
      exists (x :: bl). split; [reflexivity|]. split; [|exact Hr]. cbn [blank_lines]. left. split; assumption.
    + injection H as <-. exists []. split; [reflexivity|]. split; [exact I|]. exists x, t. repeat split; assumption.
Qed.

Lemma token_tail_done_app p q m r : token_tail p = SDone m r -> token_tail (p ++ q) = SDone m (r ++ q).
Proof.
  revert m r. induction p as [|x t IH]; intros m r H; cbn [token_tail app] in *; [discriminate H|].
  destruct (x =? ch_sp); [injection H as <- <-; reflexivity|].
  destruct (is_token x); [|discriminate H].
  destruct (token_tail t) as [m' r'| |] eqn:E; try discriminate H. injection H as <- <-.
  rewrite (IH m' r' eq_refl). reflexivity.
Qed.
Lemma token_tail_err_app p q : token_tail p = SErr -> token_tail (p ++ q) = SErr.
Proof.
  induction p as [|x t IH]; intros H; cbn [token_tail app] in *; [discriminate H|].
  destruct (x =? ch_sp); [discriminate H|].
  destruct (is_token x); [|reflexivity].
  destruct (token_tail t) as [m' r'| |] eqn:E; try discriminate H. rewrite (IH eq_refl). reflexivity.
Qed.
Lemma token_tail_done_inv p m r : token_tail p = SDone m r ->
  p = m ++ [ch_sp] ++ r /\ forallb is_token m = true.
Proof.
  revert m r. induction p as [|x t IH]; intros m r H; cbn [token_tail] in H; [discriminate H|].
  destruct (N.eqb_spec x ch_sp) as [E|E]; [injection H as <- <-; subst x; split; reflexivity|].
  destruct (is_token x) eqn:Tx; [|discriminate H].
  destruct (token_tail t) as [m' r'| |] eqn:E'; try discriminate H. injection H as <- <-.
  destruct (IH m' r' eq_refl) as [-> Hm]. split; [reflexivity|]. cbn [forallb]. rewrite Tx, Hm. reflexivity.
Qed.
Lemma token_tail_complete m r : forallb is_token m = true -> token_tail (m ++ [ch_sp] ++ r) = SDone m r.
Proof.
  induction m as [|x t IH]; intros H; cbn [token_tail app forallb] in *; [reflexivity|].
  apply andb_true_iff in H. destruct H as [Hx Ht].
  destruct (N.eqb_spec x ch_sp) as [E|E]; [subst x; discriminate Hx|].
  rewrite Hx. cbn [app] in IH. rewrite (IH Ht). reflexivity.
Qed.

Lemma parse_token_done_app p q m r : parse_token p = SDone m r -> parse_token (p ++ q) = SDone m (r ++ q).
Proof.
  intros H. destruct p as [|x t]; cbn [parse_token app] in *; [discriminate H|].
  destruct (is_token x); [|discriminate H].
  destruct (token_tail t) as [m' r'| |] eqn:E; try discriminate H. injection H as <- <-.
  rewrite (token_tail_done_app t q m' r' E). reflexivity.
Qed.
Lemma parse_token_err_app p q : parse_token p = SErr -> parse_token (p ++ q) = SErr.
Proof.
  intros H. destruct p as [|x t]; cbn [parse_token app] in *; [discriminate H|].
  destruct (is_token x); [|reflexivity].
  destruct (token_tail t) as [m' r'| |] eqn:E; try discriminate H. rewrite (token_tail_err_app t q E). reflexivity.
Qed.
Lemma parse_token_done_inv p m r : parse_token p = SDone m r ->
  p = m ++ [ch_sp] ++ r /\ m <> [] /\ forallb is_token m = true.
Proof.
  intros H. destruct p as [|x t]; cbn [parse_token] in H; [discriminate H|].
  destruct (is_token x) eqn:Tx; [|discriminate H].
  destruct (token_tail t) as [m' r'| |] eqn:E; try discriminate H. injection H as <- <-.
  destruct (token_tail_done_inv t m' r' E) as [-> Hm]. split; [reflexivity|]. split; [discriminate|].
  cbn [forallb]. rewrite Tx, Hm. reflexivity.
Qed.
Lemma parse_token_complete m r : m <> [] -> forallb is_token m = true -> parse_token (m ++ [ch_sp] ++ r) = SDone m r.
Proof.
  intros Hn H. destruct m as [|x t]; [contradiction|]. cbn [forallb] in H. apply andb_true_iff in H. destruct H as [Hx Ht].
  cbn [parse_token app]. rewrite Hx. pose proof (token_tail_complete t r Ht) as E. cbn [app] in E. rewrite E. reflexivity.
Qed.

(* the fast paths of parse_method agree with parse_token *)
Lemma parse_method_is_parse_token b : parse_method b = parse_token b.
Proof.
  unfold parse_method. destruct (starts_with GET_SP b) eqn:G.
  - destruct (starts_with_true_inv _ _ G) as [r ->]. reflexivity.
  - destruct (starts_with POST_SP b) eqn:P; [|reflexivity].
    destruct (starts_with_true_inv _ _ P) as [r ->]. reflexivity.
Qed.

Lemma uri_span_app_stop p q u x t : uri_span p = (u, x :: t) -> uri_span (p ++ q) = (u, x :: t ++ q).
Proof.
  revert u. induction p as [|y p IH]; intros u H; cbn [uri_span app] in *; [discriminate H|].
  destruct (is_uri_token y) eqn:Ty.
  - destruct (uri_span p) as [u' r'] eqn:E. injection H as <- ->. rewrite (IH u' eq_refl). reflexivity.
  - injection H as E1 E2 E3. subst. reflexivity.
Qed.
Lemma uri_span_inv p u r : uri_span p = (u, r) -> p = u ++ r /\ forallb is_uri_token u = true /\
  match r with x :: _ => is_uri_token x = false | [] => True end.
Proof.
  revert u r. induction p as [|y p IH]; intros u r H; cbn [uri_span] in H.
  - injection H as <- <-. repeat split.
  - destruct (is_uri_token y) eqn:Ty.
    + destruct (uri_span p) as [u' r'] eqn:E. injection H as <- <-. destruct (IH u' r' eq_refl) as (-> & Hu & Hr).
      split; [reflexivity|]. split; [cbn [forallb]; rewrite Ty, Hu; reflexivity|exact Hr].
    + injection H as <- <-. split; [reflexivity|]. split; [reflexivity|exact Ty].
Qed.
Lemma uri_span_complete u x t : forallb is_uri_token u = true -> is_uri_token x = false -> uri_span (u ++ x :: t) = (u, x :: t).
Proof.
  intros Hu Hx. induction u as [|y u IH]; cbn [uri_span app forallb] in *; [rewrite Hx; reflexivity|].
  apply andb_true_iff in Hu. destruct Hu as [Hy Hu]. rewrite Hy, (IH Hu). reflexivity.
Qed.

Lemma parse_uri_done_app p q u r : parse_uri p = SDone u r -> parse_uri (p ++ q) = SDone u (r ++ q).
Proof.
  unfold parse_uri. destruct (uri_span p) as [u' r'] eqn:E. destruct r' as [|x t]; [discriminate|].
  rewrite (uri_span_app_stop p q u' x t E). destruct (x =? ch_sp); [|discriminate].
  destruct u' as [|c u']; [discriminate|]. destruct (utf8_valid (c :: u')); [|discriminate].
  intros [= <- <-]. reflexivity.
Qed.
Lemma parse_uri_err_app p q : parse_uri p = SErr -> parse_uri (p ++ q) = SErr.
Proof.
  unfold parse_uri. destruct (uri_span p) as [u' r'] eqn:E. destruct r' as [|x t]; [discriminate|].
  rewrite (uri_span_app_stop p q u' x t E). destruct (x =? ch_sp); [|reflexivity].
  destruct u' as [|c u']; [reflexivity|]. destruct (utf8_valid (c :: u')); [discriminate|reflexivity].
Qed.
Lemma parse_uri_done_inv p u r : parse_uri p = SDone u r ->
  p = u ++ [ch_sp] ++ r /\ u <> [] /\ forallb is_uri_token u = true /\ utf8_valid u = true.
Proof.
  unfold parse_uri. destruct (uri_span p) as [u' r'] eqn:E. destruct r' as [|x t]; [discriminate|].
  destruct (N.eqb_spec x ch_sp) as [Ex|Ex]; [|discriminate].
  destruct u' as [|c u']; [discriminate|]. destruct (utf8_valid (c :: u')) eqn:V; [|discriminate].
  intros [= <- <-]. destruct (uri_span_inv p _ _ E) as (-> & Hu & _). subst x.
  split; [reflexivity|]. split; [discriminate|]. split; assumption.
Qed.
Lemma parse_uri_complete u r : u <> [] -> forallb is_uri_token u = true -> utf8_valid u = true ->
  parse_uri (u ++ [ch_sp] ++ r) = SDone u r.
Proof.
  intros Hn Hu Hv. unfold parse_uri. cbn [app]. rewrite (uri_span_complete u ch_sp r Hu eq_refl).
  rewrite N.eqb_refl. destruct u; [contradiction|]. rewrite Hv. reflexivity.
Qed.

(* ---- the request line as a whole ---- *)
Theorem request_line_done_app p q m u r : request_line p = LDone m u r -> request_line (p ++ q) = LDone m u (r ++ q).
Proof.
  unfold request_line. destruct (skip_empty_lines p) as [[] b1| |] eqn:E1; try discriminate.
  rewrite (skip_empty_lines_done_app p q b1 E1). rewrite !parse_method_is_parse_token.
  destruct (parse_token b1) as [m' b2| |] eqn:E2; try discriminate.
  rewrite (parse_token_done_app b1 q m' b2 E2).
  destruct (parse_uri b2) as [u' b3| |] eqn:E3; try discriminate.
  rewrite (parse_uri_done_app b2 q u' b3 E3). intros [= <- <- <-]. reflexivity.
Qed.
Theorem request_line_err_app p q mo : request_line p = LErr mo -> request_line (p ++ q) = LErr mo.
Proof.
  unfold request_line. destruct (skip_empty_lines p) as [[] b1| |] eqn:E1; try discriminate.
  - rewrite (skip_empty_lines_done_app p q b1 E1). rewrite !parse_method_is_parse_token.
    destruct (parse_token b1) as [m' b2| |] eqn:E2; try discriminate.
    + rewrite (parse_token_done_app b1 q m' b2 E2).
      destruct (parse_uri b2) as [u' b3| |] eqn:E3; try discriminate.
      rewrite (parse_uri_err_app b2 q E3). intros H; exact H.
    + rewrite (parse_token_err_app b1 q E2). intros H; exact H.
  - rewrite (skip_empty_lines_err_app p q E1). intros H; exact H.
Qed.

(* soundness: method and path are only ever set from a complete "method SP uri SP" at the head of the stream
   (after empty lines), the method made of token bytes, the path of URI bytes and valid UTF-8 *)
Theorem request_line_done_inv p m u r : request_line p = LDone m u r ->
  exists bl, p = bl ++ m ++ [ch_sp] ++ u ++ [ch_sp] ++ r /\ blank_lines bl /\
             m <> [] /\ forallb is_token m = true /\ u <> [] /\ forallb is_uri_token u = true /\ utf8_valid u = true.
Proof.
  unfold request_line. destruct (skip_empty_lines p) as [[] b1| |] eqn:E1; try discriminate.
  rewrite parse_method_is_parse_token.
  destruct (parse_token b1) as [m' b2| |] eqn:E2; try discriminate.
  destruct (parse_uri b2) as [u' b3| |] eqn:E3; try discriminate. intros [= <- <- <-].
  destruct (skip_empty_lines_done_inv p b1 E1) as (bl & -> & Hb & _).
  destruct (parse_token_done_inv b1 m' b2 E2) as (-> & Hm1 & Hm2).
  destruct (parse_uri_done_inv b2 u' b3 E3) as (-> & Hu1 & Hu2 & Hu3).
  exists bl. repeat split; assumption.
Qed.

(* completeness on a well-formed request line (no empty line before it) *)
Definition method_form (m : bytes) : Prop := m <> [] /\ forallb is_token m = true.
Definition target_form (u : bytes) : Prop := u <> [] /\ forallb is_uri_token u = true /\ utf8_valid u = true.

Lemma is_token_not_blank x : is_token x = true -> (x =? ch_cr) = false /\ (x =? ch_lf) = false.
Proof.
  intros H. split.
  - destruct (N.eqb_spec x ch_cr) as [->|]; [discriminate H|reflexivity].
  - destruct (N.eqb_spec x ch_lf) as [->|]; [discriminate H|reflexivity].
Qed.
Theorem request_line_complete m u r : method_form m -> target_form u ->
  request_line (m ++ [ch_sp] ++ u ++ [ch_sp] ++ r) = LDone m u r.
Proof.
  intros [Hm1 Hm2] (Hu1 & Hu2 & Hu3). unfold request_line.
  assert (E1 : skip_empty_lines (m ++ [ch_sp] ++ u ++ [ch_sp] ++ r) = SDone tt (m ++ [ch_sp] ++ u ++ [ch_sp] ++ r)).
  { destruct m as [|x t]; [contradiction|]. cbn [forallb] in Hm2. apply andb_true_iff in Hm2. destruct Hm2 as [Hx _].
    destruct (is_token_not_blank x Hx) as [A B]. cbn [app skip_empty_lines]. rewrite A, B. reflexivity. }
  rewrite E1, parse_method_is_parse_token, (parse_token_complete m _ Hm1 Hm2), (parse_uri_complete u r Hu1 Hu2 Hu3).
  reflexivity.
Qed.
(* ... and behind any number of empty lines *)
Lemma skip_empty_lines_blank bl b : blank_lines bl -> skip_empty_lines (bl ++ b) = skip_empty_lines b.
Proof.
  induction bl as [bl IH] using list_len_ind. intros H. destruct bl as [|x t]; [reflexivity|].
  cbn [blank_lines] in H. destruct H as [[-> Ht]|[-> Ht]].
  - cbn [app skip_empty_lines]. change (ch_lf =? ch_cr) with false. change (ch_lf =? ch_lf) with true. cbv iota.
    apply IH; [cbn [length]; lia|exact Ht].
  - destruct t as [|y t']; [contradiction|]. destruct Ht as [-> Ht].
    cbn [app skip_empty_lines]. change (ch_cr =? ch_cr) with true. change (ch_lf =? ch_lf) with true. cbv iota.
    apply IH; [cbn [length]; lia|exact Ht].
Qed.
Theorem request_line_complete_blank bl m u r : blank_lines bl -> method_form m -> target_form u ->
  request_line (bl ++ m ++ [ch_sp] ++ u ++ [ch_sp] ++ r) = LDone m u r.
Proof.
  intros Hb Hm Hu. pose proof (request_line_complete m u r Hm Hu) as H. unfold request_line in *.
  rewrite (skip_empty_lines_blank bl _ Hb). exact H.
Qed.

(* ------------------------------------------------------------------------------------------ *)
(* 2. recognize_step                                                                            *)
(* ------------------------------------------------------------------------------------------ *)
Definition decision_of (r : res proxy) : decision :=
  match r with Ok (PHttp a) => DHttp a | Ok (PHttps a) => DHttps a | Err _ => DError | Panic => DPanic end.
Definition refusal_of (mo : option bytes) : decision := match mo with Some _ => DTooLong | None => DUnknown end.

(* recognize_step only looks at the request line: the status behind the path never matters *)
Lemma recognize_step_line w : recognize_step w =
  if is_socks5 w then DSocks5 else
  match request_line w with
  | LDone m p _ => decision_of (recognize_http m p)
  | LPartial mo => if (0 <? lenN w) && (lenN w <? RECOGNIZE_WINDOW) then DWait else refusal_of mo
  | LErr mo => refusal_of mo
  end.
Proof.
  unfold recognize_step, request_parse. destruct (is_socks5 w); [reflexivity|].
  destruct (request_line w) as [m p r|[m|]|[m|]]; reflexivity.
Qed.

Lemma is_socks5_app w q : w <> [] -> is_socks5 (w ++ q) = is_socks5 w.
Proof. destruct w; [contradiction|reflexivity]. Qed.
Lemma lenN_pos (w : bytes) : w <> [] -> 0 < lenN w.
Proof. destruct w; [contradiction|]. rewrite lenN_cons. lia. Qed.

(* THE segmentation fact about `recognize`: a decision taken on what has arrived so far is the decision taken
   on any longer arrival.  Side conditions: something has arrived (peek returns 0 only at EOF) and the longer
   arrival still fits the 1024-byte peek buffer. *)
Theorem recognize_prefix_stable w q :
  w <> [] -> lenN (w ++ q) <= RECOGNIZE_WINDOW -> recognize_step w <> DWait -> recognize_step (w ++ q) = recognize_step w.
Proof.
  intros Hw Hl Hd. rewrite !recognize_step_line in *. rewrite (is_socks5_app w q Hw).
  destruct (is_socks5 w); [reflexivity|].
  destruct (request_line w) as [m p r|mo|mo] eqn:E.
  - rewrite (request_line_done_app w q m p r E). reflexivity.
  - pose proof (lenN_pos w Hw) as Hp. rewrite lenN_app in Hl.
    destruct (N.ltb_spec 0 (lenN w)) as [_|]; [|lia].
    destruct (N.ltb_spec (lenN w) RECOGNIZE_WINDOW) as [|Hge]; [exfalso; apply Hd; reflexivity|].
    assert (q = []) as -> by (apply lenN_0_nil; lia). rewrite app_nil_r, E.
    destruct (N.ltb_spec 0 (lenN w)) as [_|]; [|lia].
    destruct (N.ltb_spec (lenN w) RECOGNIZE_WINDOW) as [|_]; [lia|]. reflexivity.
  - rewrite (request_line_err_app w q mo E). reflexivity.
Qed.

(* a window that is still undecided waits -- unless it is empty (EOF) or full *)
Theorem recognize_wait_iff w : recognize_step w = DWait <->
  is_socks5 w = false /\ (exists mo, request_line w = LPartial mo) /\ 0 < lenN w < RECOGNIZE_WINDOW.
Proof.
  rewrite recognize_step_line. destruct (is_socks5 w); [split; [discriminate|intros [H _]; discriminate H]|].
  destruct (request_line w) as [m p r|mo|mo] eqn:E.
  - split; [|intros (_ & [mo H] & _); discriminate H].
    destruct (recognize_http m p) as [[a|a]|e|]; discriminate.
  - destruct (N.ltb_spec 0 (lenN w)) as [A|A]; destruct (N.ltb_spec (lenN w) RECOGNIZE_WINDOW) as [B|B]; cbn [andb];
      (split; [intros H|intros (_ & _ & H)]);
      first [ reflexivity | lia | (destruct mo; discriminate H) | idtac ].
    split; [reflexivity|]. split; [exists mo; reflexivity|lia].
  - split; [destruct mo; discriminate|intros (_ & [mo' H] & _); discriminate H].
Qed.

Theorem recognize_never_panics w : recognize_step w <> DPanic.
Proof.
  rewrite recognize_step_line. destruct (is_socks5 w); [discriminate|].
  destruct (request_line w) as [m p r|mo|mo].
  - pose proof (never_panic m p) as H. destruct (recognize_http m p) as [[a|a]|e|]; try discriminate. contradiction.
  - destruct ((0 <? lenN w) && (lenN w <? RECOGNIZE_WINDOW)); [discriminate|destruct mo; discriminate].
  - destruct mo; discriminate.
Qed.

Lemma recognize_socks5_iff w : recognize_step w = DSocks5 <-> is_socks5 w = true.
Proof.
  rewrite recognize_step_line. destruct (is_socks5 w); [split; reflexivity|].
  split; [|discriminate]. destruct (request_line w) as [m p r|mo|mo].
  - destruct (recognize_http m p) as [[a|a]|e|]; discriminate.
  - destruct ((0 <? lenN w) && (lenN w <? RECOGNIZE_WINDOW)); [discriminate|destruct mo; discriminate].
  - destruct mo; discriminate.
Qed.

(* never a wrong target: a target only ever comes out of recognize_http applied to the method and the URI of a
   complete request line "method SP uri SP" standing at the head of the stream (after empty lines) *)
Theorem recognize_target_sound w p :
  recognize_step w = decision_of (Ok p) ->
  exists bl m u r, w = bl ++ m ++ [ch_sp] ++ u ++ [ch_sp] ++ r /\ blank_lines bl /\
                   m <> [] /\ forallb is_token m = true /\ u <> [] /\ forallb is_uri_token u = true /\ utf8_valid u = true /\
                   recognize_http m u = Ok p.
Proof.
  rewrite recognize_step_line. destruct (is_socks5 w); [destruct p; discriminate|].
  destruct (request_line w) as [m u r|mo|mo] eqn:E.
  - intros H. destruct (request_line_done_inv w m u r E) as (bl & Hw & Hb & H1 & H2 & H3 & H4 & H5).
    exists bl, m, u, r. repeat (split; [assumption|]).
    destruct (recognize_http m u) as [[a|a]|e|]; destruct p; cbn [decision_of] in H; try discriminate H; injection H as <-; reflexivity.
  - destruct ((0 <? lenN w) && (lenN w <? RECOGNIZE_WINDOW)); [destruct p; discriminate|destruct mo, p; discriminate].
  - destruct mo, p; discriminate.
Qed.

Lemma is_socks5_line bl m rest : blank_lines bl -> m <> [] -> forallb is_token m = true -> is_socks5 (bl ++ m ++ rest) = false.
Proof.
  intros Hb Hn Hm. destruct bl as [|x t].
  - destruct m as [|c m]; [contradiction|]. cbn [forallb] in Hm. apply andb_true_iff in Hm. destruct Hm as [Hc _].
    cbn [app is_socks5]. destruct (N.eqb_spec c S5_VERSION) as [->|]; [discriminate Hc|reflexivity].
  - cbn [blank_lines] in Hb. destruct Hb as [[-> _]|[-> _]]; reflexivity.
Qed.

(* exactness on a well-formed request line, whatever follows it *)
Theorem recognize_complete bl m u r : blank_lines bl -> method_form m -> target_form u ->
  recognize_step (bl ++ m ++ [ch_sp] ++ u ++ [ch_sp] ++ r) = decision_of (recognize_http m u).
Proof.
  intros Hb Hm Hu. rewrite recognize_step_line, (is_socks5_line bl m _ Hb (proj1 Hm) (proj2 Hm)).
  rewrite (request_line_complete_blank bl m u r Hb Hm Hu). reflexivity.
Qed.

(* a proper prefix of a well-formed request line is undecided: it waits while the window is not full, and is
   refused (414 once the method is known, Unknown before) when 1024 bytes did not reach the end of the URI *)
Lemma request_line_prefix_partial bl m u w q : blank_lines bl -> method_form m -> target_form u ->
  w ++ q = bl ++ m ++ [ch_sp] ++ u ++ [ch_sp] -> q <> [] -> exists mo, request_line w = LPartial mo.
Proof.
  intros Hb Hm Hu E Hq. pose proof (request_line_complete_blank bl m u [] Hb Hm Hu) as C.
  rewrite app_nil_r in C. rewrite <- E in C. destruct (request_line w) as [m' u' r'|mo|mo] eqn:R.
  - rewrite (request_line_done_app w q m' u' r' R) in C. injection C as _ _ C.
    apply app_eq_nil in C. destruct C as [_ C]. contradiction.
  - exists mo. reflexivity.
  - rewrite (request_line_err_app w q mo R) in C. discriminate C.
Qed.
Lemma is_socks5_prefix w q : w <> [] -> is_socks5 (w ++ q) = false -> is_socks5 w = false.
Proof. intros Hw. rewrite (is_socks5_app w q Hw). intros H; exact H. Qed.

Theorem recognize_waits_on_prefix bl m u w q : blank_lines bl -> method_form m -> target_form u ->
  w ++ q = bl ++ m ++ [ch_sp] ++ u ++ [ch_sp] -> q <> [] -> w <> [] -> lenN w < RECOGNIZE_WINDOW -> recognize_step w = DWait.
Proof.
  intros Hb Hm Hu E Hq Hw Hl. apply recognize_wait_iff. split; [|split].
  - apply (is_socks5_prefix w q Hw). rewrite E. apply (is_socks5_line bl m _ Hb (proj1 Hm) (proj2 Hm)).
  - exact (request_line_prefix_partial bl m u w q Hb Hm Hu E Hq).
  - pose proof (lenN_pos w Hw). lia.
Qed.
Theorem recognize_full_window_refuses bl m u w q : blank_lines bl -> method_form m -> target_form u ->
  w ++ q = bl ++ m ++ [ch_sp] ++ u ++ [ch_sp] -> q <> [] -> lenN w = RECOGNIZE_WINDOW ->
  recognize_step w = DTooLong \/ recognize_step w = DUnknown.
Proof.
  intros Hb Hm Hu E Hq Hl. assert (Hw : w <> []) by (intros ->; discriminate Hl).
  rewrite recognize_step_line.
  rewrite (is_socks5_prefix w q Hw) by (rewrite E; apply (is_socks5_line bl m _ Hb (proj1 Hm) (proj2 Hm))).
  destruct (request_line_prefix_partial bl m u w q Hb Hm Hu E Hq) as [mo ->].
  rewrite Hl. rewrite N.ltb_irrefl, andb_false_r. destruct mo; [left|right]; reflexivity.
Qed.
(* ... and for ANY full window whose request line is not complete: 414 or Unknown, never a target *)
Theorem recognize_full_window_undecided_refuses w :
  lenN w = RECOGNIZE_WINDOW -> (forall m u r, request_line w <> LDone m u r) ->
  recognize_step w = DSocks5 \/ recognize_step w = DTooLong \/ recognize_step w = DUnknown.
Proof.
  intros Hl Hn. rewrite recognize_step_line. destruct (is_socks5 w); [left; reflexivity|]. right.
  destruct (request_line w) as [m u r|mo|mo]; [exfalso; exact (Hn m u r eq_refl)| |].
  - rewrite Hl, N.ltb_irrefl, andb_false_r. destruct mo; [left|right]; reflexivity.
  - destruct mo; [left|right]; reflexivity.
Qed.

(* ------------------------------------------------------------------------------------------ *)
(* 3. consume_head_step                                                                        *)
(* ------------------------------------------------------------------------------------------ *)
Lemma starts_with_app_long p a b : (length p <= length a)%nat -> starts_with p (a ++ b) = starts_with p a.
Proof.
  revert a. induction p as [|c p IH]; intros a H; [reflexivity|].
  destruct a as [|x a]; [cbn [length] in H; lia|]. cbn [starts_with app]. rewrite IH; [reflexivity|cbn [length] in H; lia].
Qed.
Lemma find_sub_some_len p a e : find_sub p a = Some e -> (e + length p <= length a)%nat.
Proof.
  revert e. induction a as [|x t IH]; intros e H; rewrite find_sub_unfold in H.
  - destruct (starts_with p []) eqn:S; [|discriminate H]. injection H as <-.
    destruct (starts_with_true_inv p [] S) as [r E]. rewrite E, app_length. lia.
  - destruct (starts_with p (x :: t)) eqn:S.
    + injection H as <-. destruct (starts_with_true_inv p _ S) as [r E]. rewrite E, app_length. lia.
    + destruct (find_sub p t) as [e'|] eqn:F; [|discriminate H]. injection H as <-.
      specialize (IH e' eq_refl). cbn [length]. lia.
Qed.
(* the FIRST occurrence does not move when more bytes arrive *)
Lemma find_sub_some_app p a b e : find_sub p a = Some e -> find_sub p (a ++ b) = Some e.
Proof.
  revert e. induction a as [|x t IH]; intros e H; rewrite find_sub_unfold in H; rewrite find_sub_unfold.
  - destruct (starts_with p []) eqn:S; [|discriminate H]. rewrite (starts_with_app_r p [] b S). exact H.
  - destruct (starts_with p (x :: t)) eqn:S.
    + rewrite (starts_with_app_r p (x :: t) b S). exact H.
    + destruct (find_sub p t) as [e'|] eqn:F; [|discriminate H]. injection H as <-.
      pose proof (find_sub_some_len p t e' F) as L.
      rewrite starts_with_app_long by (cbn [length]; lia). rewrite S. cbn [app].
      rewrite (IH e' eq_refl). reflexivity.
Qed.

(* `span is_crlf w` = the window from `start` on *)
Definition starts_nonblank (b : bytes) : Prop := match b with x :: _ => is_crlf x = false | [] => False end.
Lemma span_inv f w : exists pre, w = pre ++ span f w /\ forallb f pre = true /\
  match span f w with x :: _ => f x = false | [] => True end.
Proof.
  induction w as [|x t IH]; cbn [span].
  - exists []. repeat split.
  - destruct (f x) eqn:Fx.
    + destruct IH as (pre & E & Hp & Hs). exists (x :: pre). split; [cbn [app]; rewrite <- E; reflexivity|].
      split; [cbn [forallb]; rewrite Fx, Hp; reflexivity|exact Hs].
    + exists []. repeat split. exact Fx.
Qed.
Lemma span_app_all f pre b : forallb f pre = true -> span f (pre ++ b) = span f b.
Proof.
  induction pre as [|x t IH]; intros H; [reflexivity|]. cbn [forallb] in H. apply andb_true_iff in H. destruct H as [Hx Ht].
  cbn [app span]. rewrite Hx. exact (IH Ht).
Qed.
Lemma span_stop f b : match b with x :: _ => f x = false | [] => True end -> span f b = b.
Proof. destruct b as [|x t]; [reflexivity|]. intros H. cbn [span]. rewrite H. reflexivity. Qed.
Lemma span_blank bl b : forallb is_crlf bl = true -> starts_nonblank b -> span is_crlf (bl ++ b) = b.
Proof. intros Hb Hn. rewrite (span_app_all _ bl b Hb). apply span_stop. destruct b; [contradiction|exact Hn]. Qed.
Lemma starts_nonblank_app h r : starts_nonblank h -> starts_nonblank (h ++ r).
Proof. destruct h; [contradiction|intros H; exact H]. Qed.
Lemma span_app_stop f w q x t : span f w = x :: t -> span f (w ++ q) = (x :: t) ++ q.
Proof.
  intros H. destruct (span_inv f w) as (pre & E & Hp & Hs). rewrite H in E, Hs. rewrite E at 1.
  rewrite <- app_assoc, (span_app_all f pre _ Hp). apply span_stop. exact Hs.
Qed.
Lemma span_len f w : lenN (span f w) <= lenN w.
Proof. destruct (span_inv f w) as (pre & E & _). rewrite E at 2. rewrite lenN_app. lia. Qed.
Lemma find_sub_CRLFCRLF_nil : find_sub CRLFCRLF [] = None.
Proof. reflexivity. Qed.

Theorem consume_step_stable w q n : consume_head_step w = CConsume n -> consume_head_step (w ++ q) = CConsume n.
Proof.
  unfold consume_head_step. destruct (span is_crlf w) as [|x t] eqn:S.
  - rewrite find_sub_CRLFCRLF_nil. destruct ((lenN w =? 0) || (lenN w =? HEAD_WINDOW)); discriminate.
  - destruct (find_sub CRLFCRLF (x :: t)) as [e|] eqn:F.
    + rewrite (span_app_stop _ w q x t S), (find_sub_some_app _ _ q e F). intros [= <-].
      pose proof (span_len is_crlf w) as L. rewrite S in L. rewrite !lenN_app. f_equal. lia.
    + destruct ((lenN w =? 0) || (lenN w =? HEAD_WINDOW)); discriminate.
Qed.
Theorem consume_step_fail_inv w : consume_head_step w = CFail -> w = [] \/ lenN w = HEAD_WINDOW.
Proof.
  unfold consume_head_step. destruct (find_sub CRLFCRLF (span is_crlf w)); [discriminate|].
  destruct (N.eqb_spec (lenN w) 0) as [E|_]; [intros _; left; apply lenN_0_nil; exact E|].
  destruct (N.eqb_spec (lenN w) HEAD_WINDOW) as [E|_]; [intros _; right; exact E|discriminate].
Qed.

(* "no CRLFCRLF before the one that ends the head": the first three bytes of the terminator do not complete
   an earlier occurrence *)
Definition head_form (head : bytes) : Prop := find_sub CRLFCRLF (head ++ [13; 10; 13]) = None.

Lemma find_sub_head head rest : head_form head -> find_sub CRLFCRLF (head ++ CRLFCRLF ++ rest) = Some (length head).
Proof.
  unfold head_form. induction head as [|x h IH]; intros H; [reflexivity|].
  rewrite find_sub_unfold in H. rewrite find_sub_unfold.
  destruct (starts_with CRLFCRLF ((x :: h) ++ [13; 10; 13])) eqn:S; [discriminate H|].
  cbn [app] in H. destruct (find_sub CRLFCRLF (h ++ [13; 10; 13])) eqn:F; [discriminate H|].
  replace ((x :: h) ++ CRLFCRLF ++ rest) with (((x :: h) ++ [13; 10; 13]) ++ (10 :: rest))
    by (rewrite <- app_assoc; reflexivity).
  rewrite starts_with_app_long by (rewrite app_length; cbn [length CRLFCRLF]; lia). rewrite S.
  rewrite <- app_assoc. cbn [app]. change (13 :: 10 :: 13 :: 10 :: rest) with (CRLFCRLF ++ rest).
  rewrite (IH eq_refl). reflexivity.
Qed.

(* CR / LF bytes in front (the empty lines httparse skips, or any other mix of them), then a head that starts
   with another byte: exactly the leading bytes, the head and its empty line *)
Theorem consume_step_exact bl head rest : forallb is_crlf bl = true -> starts_nonblank head -> head_form head ->
  consume_head_step (bl ++ head ++ CRLFCRLF ++ rest) = CConsume (lenN bl + lenN head + 4).
Proof.
  intros Hb Hn H. unfold consume_head_step.
  rewrite (span_blank bl _ Hb (starts_nonblank_app head _ Hn)).
  rewrite (find_sub_head head rest H), <- lenN_spec, !lenN_app. f_equal. lia.
Qed.
(* before the terminator is complete the step waits (while the window is neither empty nor full) *)
Theorem consume_step_waits bl head w q : forallb is_crlf bl = true -> starts_nonblank head -> head_form head ->
  w ++ q = bl ++ head ++ CRLFCRLF -> q <> [] -> w <> [] -> lenN w < HEAD_WINDOW -> consume_head_step w = CWait.
Proof.
  intros Hb Hn H E Hq Hw Hl. unfold consume_head_step.
  assert (F : find_sub CRLFCRLF (span is_crlf w) = None).
  { destruct (N.le_gt_cases (lenN bl) (lenN w)) as [Hc|Hc].
    - destruct (app_split_len bl (head ++ CRLFCRLF) w q E Hc) as (w' & -> & E').
      destruct w' as [|x w'].
      + rewrite app_nil_r. destruct (span_inv is_crlf bl) as (pre & Eb & _ & Hs).
        destruct (span is_crlf bl) as [|y t] eqn:S; [reflexivity|]. exfalso.
        assert (In y bl) by (rewrite Eb; apply in_or_app; right; left; reflexivity).
        rewrite forallb_forall in Hb. rewrite (Hb y H0) in Hs. discriminate Hs.
      + assert (Hx : starts_nonblank (x :: w')).
        { destruct head as [|h0 ht]; [contradiction|]. cbn [app] in E'. injection E' as <- _. exact Hn. }
        rewrite span_blank by assumption.
        destruct (snoc_cases q) as [->|(q' & c & ->)]; [contradiction|].
        assert (E2 : (x :: w') ++ q' = head ++ [13; 10; 13]).
        { change CRLFCRLF with ([13; 10; 13] ++ [10]) in E'. rewrite !app_assoc in E'. symmetry in E'. apply app_inj_tail in E'. exact (proj1 E'). }
        apply (find_sub_none_prefix CRLFCRLF _ q'). rewrite E2. exact H.
    - (* the window ends inside the leading CR / LF bytes *)
      assert (Hall : forallb is_crlf w = true).
      { symmetry in E. destruct (app_split_len w q bl (head ++ CRLFCRLF) E ltac:(lia)) as (m & Eb & _).
        rewrite Eb, forallb_app in Hb. apply andb_true_iff in Hb. exact (proj1 Hb). }
      rewrite <- (app_nil_r w), (span_app_all _ w [] Hall). reflexivity. }
  rewrite F. pose proof (lenN_pos w Hw).
  destruct (N.eqb_spec (lenN w) 0); [lia|]. destruct (N.eqb_spec (lenN w) HEAD_WINDOW); [lia|]. reflexivity.
Qed.

(* ------------------------------------------------------------------------------------------ *)
(* 4. the loops over an arrival history                                                        *)
(* ------------------------------------------------------------------------------------------ *)
Definition arrivals_ok (s : bytes) (pre : list N) : Prop := Forall (fun a => 0 < a <= lenN s) pre.

Lemma observed_shape s hist : exists pre, observed s hist = pre ++ [lenN s] /\ arrivals_ok s pre.
Proof.
  unfold observed. eexists. split; [reflexivity|]. apply Forall_forall. intros a Ha.
  apply filter_In in Ha. destruct Ha as [Ha Hp]. apply in_map_iff in Ha. destruct Ha as (a0 & <- & _). lia.
Qed.
Lemma observed_nil s : observed s [] = [lenN s].
Proof. reflexivity. Qed.

Lemma window_prefix cap s a b : a <= b -> exists q, window cap s b = window cap s a ++ q.
Proof.
  intros H. unfold window, takeN. set (n := N.to_nat (N.min a cap)). set (k := N.to_nat (N.min b cap)).
  assert (Hnk : (n <= k)%nat) by (subst n k; lia).
  exists (skipn n (firstn k s)). rewrite <- (firstn_skipn n (firstn k s)) at 1. rewrite firstn_firstn.
  replace (Nat.min n k) with n by lia. reflexivity.
Qed.
Lemma window_len cap s a : a <= lenN s -> lenN (window cap s a) = N.min a cap.
Proof. intros H. unfold window. apply lenN_takeN. lia. Qed.
Lemma window_is_prefix cap s a : exists q, s = window cap s a ++ q.
Proof. exists (dropN (N.min a cap) s). unfold window. symmetry. apply take_drop. Qed.
Lemma window_nonempty cap s a : 0 < a <= lenN s -> 0 < cap -> window cap s a <> [].
Proof. intros Ha Hc E. pose proof (window_len cap s a ltac:(lia)) as L. rewrite E in L. cbn in L. lia. Qed.

Definition is_wait (d : decision) : bool := match d with DWait => true | _ => false end.
Lemma recognize_loop_cons s a t : recognize_loop s (a :: t) =
  if is_wait (recognize_step (window RECOGNIZE_WINDOW s a)) then recognize_loop s t
  else (recognize_step (window RECOGNIZE_WINDOW s a), a :: t).
Proof. cbn [recognize_loop]. destruct (recognize_step (window RECOGNIZE_WINDOW s a)); reflexivity. Qed.
Lemma is_wait_false d : is_wait d = false -> d <> DWait.
Proof. intros H ->. discriminate H. Qed.
Lemma is_wait_true d : is_wait d = true -> d = DWait.
Proof. destruct d; try discriminate. reflexivity. Qed.

(* whatever the history: `recognize` ends with the decision it takes on everything that fits the window,
   and hands the rest of the history (a history again) to what follows *)
Lemma recognize_loop_spec s pre : arrivals_ok s pre ->
  let d := recognize_step (window RECOGNIZE_WINDOW s (lenN s)) in
  (d = DWait /\ recognize_loop s (pre ++ [lenN s]) = (DWait, [])) \/
  (d <> DWait /\ exists suf, arrivals_ok s suf /\ recognize_loop s (pre ++ [lenN s]) = (d, suf ++ [lenN s])).
Proof.
  intros H d. induction pre as [|a pre IH].
  - cbn [app]. rewrite recognize_loop_cons. fold d. destruct (is_wait d) eqn:W.
    + left. split; [exact (is_wait_true d W)|reflexivity].
    + right. split; [exact (is_wait_false d W)|]. exists []. split; [constructor|reflexivity].
  - inversion H as [|a' pre' Ha Hpre]; subst. cbn [app]. rewrite recognize_loop_cons.
    destruct (is_wait (recognize_step (window RECOGNIZE_WINDOW s a))) eqn:W; [exact (IH Hpre)|].
    right. destruct (window_prefix RECOGNIZE_WINDOW s a (lenN s) ltac:(lia)) as [q Eq].
    assert (Ed : d = recognize_step (window RECOGNIZE_WINDOW s a)).
    { unfold d. rewrite Eq. apply recognize_prefix_stable.
      - apply window_nonempty; [exact Ha|reflexivity].
      - rewrite <- Eq, window_len by lia. lia.
      - exact (is_wait_false _ W). }
    split; [rewrite Ed; exact (is_wait_false _ W)|]. exists (a :: pre). split; [exact H|]. rewrite Ed. reflexivity.
Qed.

Definition is_cwait (c : consume) : bool := match c with CWait => true | _ => false end.
Lemma consume_loop_cons s a t : consume_loop s (a :: t) =
  if is_cwait (consume_head_step (window HEAD_WINDOW s a)) then consume_loop s t
  else consume_head_step (window HEAD_WINDOW s a).
Proof. cbn [consume_loop]. destruct (consume_head_step (window HEAD_WINDOW s a)); reflexivity. Qed.

Lemma consume_loop_spec s pre : arrivals_ok s pre ->
  consume_loop s (pre ++ [lenN s]) = consume_head_step (window HEAD_WINDOW s (lenN s)).
Proof.
  intros H. induction pre as [|a pre IH].
  - cbn [app]. rewrite consume_loop_cons. destruct (consume_head_step (window HEAD_WINDOW s (lenN s))); reflexivity.
  - inversion H as [|a' pre' Ha Hpre]; subst. cbn [app]. rewrite consume_loop_cons.
    destruct (consume_head_step (window HEAD_WINDOW s a)) as [n| |] eqn:C; cbn [is_cwait]; [|exact (IH Hpre)|].
    + destruct (window_prefix HEAD_WINDOW s a (lenN s) ltac:(lia)) as [q ->]. symmetry. apply consume_step_stable. exact C.
    + destruct (consume_step_fail_inv _ C) as [E|E].
      * exfalso. exact (window_nonempty HEAD_WINDOW s a Ha eq_refl E).
      * rewrite window_len in E by lia. unfold window in *.
        replace (N.min (lenN s) HEAD_WINDOW) with (N.min a HEAD_WINDOW) by lia. symmetry. exact C.
Qed.

(* the outcome when everything has arrived before the client looks at the socket *)
Definition http_outcome (s : bytes) : outcome :=
  match recognize_step (window RECOGNIZE_WINDOW s (lenN s)) with
  | DHttp a => Tunnel KHttp a [] 0
  | DHttps a =>
    match consume_head_step (window HEAD_WINDOW s (lenN s)) with
    | CConsume n => Tunnel KHttps a REPLY_200 n
    | CWait => Refused RTimeout []
    | CFail => Refused RHead []
    end
  | DWait => Refused RTimeout []
  | DTooLong => Refused RTooLong REPLY_414
  | DUnknown => Refused RUnknown []
  | DError => Refused RBadTarget []
  | DSocks5 | DPanic => Crashed
  end.

Lemma is_socks5_window cap s a : is_socks5 (window cap s a) = true -> is_socks5 s = true.
Proof. destruct (window_is_prefix cap s a) as [q E]. rewrite E at 2. destruct (window cap s a); [discriminate|intros H; exact H]. Qed.

Theorem handshake_http_outcome s local hist : is_socks5 s = false -> handshake s local hist = http_outcome s.
Proof.
  intros Hs. unfold handshake, http_outcome. destruct (observed_shape s hist) as (pre & -> & Hpre).
  assert (Hns : recognize_step (window RECOGNIZE_WINDOW s (lenN s)) <> DSocks5).
  { intros E. apply recognize_socks5_iff, is_socks5_window in E. rewrite E in Hs. discriminate Hs. }
  pose proof (recognize_never_panics (window RECOGNIZE_WINDOW s (lenN s))) as Hnp.
  destruct (recognize_loop_spec s pre Hpre) as [[Ed ->]|(Hd & suf & Hsuf & ->)].
  - rewrite Ed. reflexivity.
  - destruct (recognize_step (window RECOGNIZE_WINDOW s (lenN s))); try reflexivity; try contradiction.
    rewrite (consume_loop_spec s suf Hsuf). reflexivity.
Qed.

(* HTTP and CONNECT: the outcome does not depend on how the stream was cut into segments, nor on when they
   arrived *)
Lemma handshake_http_segmentation_independent s local hist :
  is_socks5 s = false -> handshake s local hist = handshake s local [].
Proof. intros Hs. rewrite !(handshake_http_outcome s local _ Hs). reflexivity. Qed.

(* ------------------------------------------------------------------------------------------ *)
(* 4b. well-formed plain HTTP and CONNECT requests, end to end                                 *)
(* ------------------------------------------------------------------------------------------ *)
(* empty lines, method SP request-target SP: what `recognize` needs to see inside its 1024-byte window *)
Definition request_line_bytes (bl m u : bytes) : bytes := bl ++ m ++ [ch_sp] ++ u ++ [ch_sp].
Lemma request_line_bytes_app bl m u r : request_line_bytes bl m u ++ r = bl ++ m ++ [ch_sp] ++ u ++ [ch_sp] ++ r.
Proof. unfold request_line_bytes. rewrite <- !app_assoc. reflexivity. Qed.

Lemma takeN_app_ge n (a b : bytes) : lenN a <= n -> takeN n (a ++ b) = a ++ takeN (n - lenN a) b.
Proof.
  intros H. unfold takeN. rewrite lenN_spec in *. rewrite firstn_app, firstn_all2 by lia.
  replace (N.to_nat n - length a)%nat with (N.to_nat (n - N.of_nat (length a))) by lia. reflexivity.
Qed.
Lemma window_fits cap x y : lenN x <= cap -> exists y', window cap (x ++ y) (lenN (x ++ y)) = x ++ y'.
Proof.
  intros H. unfold window. eexists. apply takeN_app_ge. rewrite lenN_app. lia.
Qed.
Lemma window_all_short cap s : lenN s <= cap -> window cap s (lenN s) = s.
Proof. intros H. unfold window. apply takeN_all. lia. Qed.
Lemma window_cut cap x : cap <= lenN x -> forall y, window cap (x ++ y) (lenN (x ++ y)) = takeN cap x.
Proof.
  intros H y. unfold window. rewrite lenN_app. replace (N.min (lenN x + lenN y) cap) with cap by lia.
  apply takeN_app_le. exact H.
Qed.

Lemma is_socks5_request bl m u rest : blank_lines bl -> method_form m -> is_socks5 (request_line_bytes bl m u ++ rest) = false.
Proof. intros Hb [Hm1 Hm2]. rewrite request_line_bytes_app. apply is_socks5_line; assumption. Qed.

Lemma recognize_request bl m u rest : blank_lines bl -> method_form m -> target_form u ->
  lenN (request_line_bytes bl m u) <= RECOGNIZE_WINDOW ->
  let s := request_line_bytes bl m u ++ rest in
  recognize_step (window RECOGNIZE_WINDOW s (lenN s)) = decision_of (recognize_http m u).
Proof.
  intros Hb Hm Hu Hl s. subst s. destruct (window_fits RECOGNIZE_WINDOW (request_line_bytes bl m u) rest Hl) as [y' ->].
  rewrite request_line_bytes_app. apply recognize_complete; assumption.
Qed.

(* plain HTTP: the target named by the absolute-form request target; nothing is answered and NOTHING is
   consumed -- the whole request, request line included, is forwarded to the tunnel *)
Theorem plain_http_forwarded_untouched bl m u rest a local hist :
  blank_lines bl -> method_form m -> target_form u -> lenN (request_line_bytes bl m u) <= RECOGNIZE_WINDOW ->
  recognize_http m u = Ok (PHttp a) ->
  handshake (request_line_bytes bl m u ++ rest) local hist = Tunnel KHttp a [] 0.
Proof.
  intros Hb Hm Hu Hl Hr. rewrite handshake_http_outcome by (apply is_socks5_request; assumption).
  unfold http_outcome. rewrite (recognize_request bl m u rest Hb Hm Hu Hl), Hr. reflexivity.
Qed.

(* consume_request_head, under every arrival history: exactly the leading CR / LF bytes, the head and its
   empty line *)
Theorem consume_head_exact bl head rest pre : forallb is_crlf bl = true -> starts_nonblank head -> head_form head ->
  lenN bl + lenN head + 4 <= HEAD_WINDOW ->
  let s := bl ++ head ++ CRLFCRLF ++ rest in
  arrivals_ok s pre -> consume_loop s (pre ++ [lenN s]) = CConsume (lenN bl + lenN head + 4).
Proof.
  intros Hb Hn Hh Hl s Hpre. rewrite (consume_loop_spec s pre Hpre). unfold s.
  replace (bl ++ head ++ CRLFCRLF ++ rest) with ((bl ++ head ++ CRLFCRLF) ++ rest) by (rewrite <- !app_assoc; reflexivity).
  destruct (window_fits HEAD_WINDOW (bl ++ head ++ CRLFCRLF) rest) as [y' ->].
  - rewrite !lenN_app. change (lenN CRLFCRLF) with 4. lia.
  - rewrite <- !app_assoc. apply consume_step_exact; assumption.
Qed.

Lemma blank_lines_crlf bl : blank_lines bl -> forallb is_crlf bl = true.
Proof.
  induction bl as [bl IH] using list_len_ind. intros H. destruct bl as [|x t]; [reflexivity|].
  cbn [blank_lines] in H. destruct H as [[-> Ht]|[-> Ht]].
  - cbn [forallb]. rewrite IH; [reflexivity|cbn [length]; lia|exact Ht].
  - destruct t as [|y t']; [contradiction|]. destruct Ht as [-> Ht].
    cbn [forallb]. rewrite IH; [reflexivity|cbn [length]; lia|exact Ht].
Qed.
Lemma method_starts_nonblank m r : method_form m -> starts_nonblank (m ++ r).
Proof.
  intros [Hn Hm]. destruct m as [|x t]; [contradiction|]. cbn [forallb] in Hm. apply andb_true_iff in Hm.
  destruct (is_token_not_blank x (proj1 Hm)) as [A B]. cbn [app starts_nonblank]. unfold is_crlf. rewrite A, B. reflexivity.
Qed.

(* CONNECT behind ANY number of empty lines: the target named by the authority, the 200 answer, and exactly
   the empty lines and the request head consumed: what the application sent behind the head's empty line stays
   in the stream for the tunnel *)
Theorem connect_yields_exact_target bl m u h2 rest a local hist :
  blank_lines bl -> method_form m -> target_form u -> lenN (request_line_bytes bl m u) <= RECOGNIZE_WINDOW ->
  recognize_http m u = Ok (PHttps a) ->
  let head := request_line_bytes [] m u ++ h2 in
  head_form head -> lenN bl + lenN head + 4 <= HEAD_WINDOW ->
  handshake (bl ++ head ++ CRLFCRLF ++ rest) local hist = Tunnel KHttps a REPLY_200 (lenN bl + lenN head + 4).
Proof.
  intros Hb Hm Hu Hl Hr head Hh Hhl.
  assert (Es : bl ++ head ++ CRLFCRLF ++ rest = request_line_bytes bl m u ++ h2 ++ CRLFCRLF ++ rest).
  { unfold head, request_line_bytes. cbn [app]. rewrite <- !app_assoc. reflexivity. }
  assert (Hs : is_socks5 (bl ++ head ++ CRLFCRLF ++ rest) = false) by (rewrite Es; apply is_socks5_request; assumption).
  rewrite (handshake_http_outcome _ local hist Hs). unfold http_outcome.
  assert (R : recognize_step (window RECOGNIZE_WINDOW (bl ++ head ++ CRLFCRLF ++ rest) (lenN (bl ++ head ++ CRLFCRLF ++ rest))) = DHttps a).
  { rewrite Es. rewrite (recognize_request bl m u _ Hb Hm Hu Hl), Hr. reflexivity. }
  rewrite R.
  assert (Hn : starts_nonblank head).
  { unfold head, request_line_bytes. cbn [app]. rewrite <- app_assoc. apply method_starts_nonblank. exact Hm. }
  pose proof (consume_head_exact bl head rest [] (blank_lines_crlf bl Hb) Hn Hh Hhl (Forall_nil _)) as C. cbn [app consume_loop] in C.
  destruct (consume_head_step (window HEAD_WINDOW (bl ++ head ++ CRLFCRLF ++ rest) (lenN (bl ++ head ++ CRLFCRLF ++ rest)))) as [n| |];
    try discriminate C. injection C as ->. reflexivity.
Qed.

(* ---- refusals ---- *)
(* a complete request line whose target recognize_http refuses (origin-form, no scheme, bad port, ...) *)
Theorem bad_target_refused bl m u rest e local hist :
  blank_lines bl -> method_form m -> target_form u -> lenN (request_line_bytes bl m u) <= RECOGNIZE_WINDOW ->
  recognize_http m u = Err e ->
  handshake (request_line_bytes bl m u ++ rest) local hist = Refused RBadTarget [].
Proof.
  intros Hb Hm Hu Hl Hr. rewrite handshake_http_outcome by (apply is_socks5_request; assumption).
  unfold http_outcome. rewrite (recognize_request bl m u rest Hb Hm Hu Hl), Hr. reflexivity.
Qed.
(* outside the side condition of the exactness theorems: a request line that does not fit the window is
   refused (414 when the method has been read, Unknown otherwise) under every history -- never tunnelled *)
Theorem long_request_line_refused bl m u rest local hist :
  blank_lines bl -> method_form m -> target_form u -> RECOGNIZE_WINDOW < lenN (request_line_bytes bl m u) ->
  handshake (request_line_bytes bl m u ++ rest) local hist = Refused RTooLong REPLY_414 \/
  handshake (request_line_bytes bl m u ++ rest) local hist = Refused RUnknown [].
Proof.
  intros Hb Hm Hu Hl. rewrite handshake_http_outcome by (apply is_socks5_request; assumption).
  unfold http_outcome. rewrite window_cut by lia.
  destruct (recognize_full_window_refuses bl m u (takeN RECOGNIZE_WINDOW (request_line_bytes bl m u))
              (dropN RECOGNIZE_WINDOW (request_line_bytes bl m u)) Hb Hm Hu) as [-> | ->].
  - apply take_drop.
  - intros E. pose proof (lenN_dropN RECOGNIZE_WINDOW (request_line_bytes bl m u)) as L. rewrite E in L. cbn in L. lia.
  - apply lenN_takeN. lia.
  - left. reflexivity.
  - right. reflexivity.
Qed.
(* the application stops (or closes) in the middle of the request line: the handshake times out *)
Theorem incomplete_request_times_out bl m u s q local hist :
  blank_lines bl -> method_form m -> target_form u ->
  s ++ q = request_line_bytes bl m u -> q <> [] -> s <> [] -> lenN s < RECOGNIZE_WINDOW ->
  handshake s local hist = Refused RTimeout [].
Proof.
  intros Hb Hm Hu E Hq Hs Hl.
  assert (Hn : is_socks5 s = false).
  { apply (is_socks5_prefix s q Hs). rewrite E. rewrite <- (app_nil_r (request_line_bytes bl m u)). apply is_socks5_request; assumption. }
  rewrite (handshake_http_outcome s local hist Hn). unfold http_outcome. rewrite window_all_short by lia.
  rewrite (recognize_waits_on_prefix bl m u s q Hb Hm Hu E Hq Hs Hl). reflexivity.
Qed.

(* what is refused in general: whenever the first 1024 bytes hold no complete request line, or hold one whose
   target recognize_http refuses, no tunnel is opened, under any history *)
Theorem refused_opens_no_tunnel s local hist :
  is_socks5 s = false ->
  (forall m u r, request_line (window RECOGNIZE_WINDOW s (lenN s)) = LDone m u r -> exists e, recognize_http m u = Err e) ->
  exists why reply, handshake s local hist = Refused why reply.
Proof.
  intros Hs H. rewrite (handshake_http_outcome s local hist Hs). unfold http_outcome.
  rewrite recognize_step_line.
  destruct (is_socks5 (window RECOGNIZE_WINDOW s (lenN s))) eqn:S; [apply is_socks5_window in S; rewrite S in Hs; discriminate Hs|].
  destruct (request_line (window RECOGNIZE_WINDOW s (lenN s))) as [m u r|mo|mo].
  - destruct (H m u r eq_refl) as [e ->]. cbn [decision_of]. eexists; eexists; reflexivity.
  - destruct ((0 <? lenN (window RECOGNIZE_WINDOW s (lenN s))) && (lenN (window RECOGNIZE_WINDOW s (lenN s)) <? RECOGNIZE_WINDOW));
      [|destruct mo]; eexists; eexists; reflexivity.
  - destruct mo; eexists; eexists; reflexivity.
Qed.

(* the converse, as strong as it gets: a tunnel opened by the HTTP branch names the target of a complete
   request line at the head of the stream; plain HTTP consumes nothing; CONNECT answers 200 and consumes
   exactly up to the first empty line behind the leading CR / LF bytes *)
Lemma find_sub_some_head t : forall h, find_sub CRLFCRLF (h ++ CRLFCRLF ++ t) = Some (length h) -> head_form h.
Proof.
  unfold head_form. induction h as [|x h IH]; intros H; [reflexivity|].
  rewrite find_sub_unfold in H. rewrite find_sub_unfold.
  replace ((x :: h) ++ CRLFCRLF ++ t) with (((x :: h) ++ [13; 10; 13]) ++ (10 :: t)) in H by (rewrite <- app_assoc; reflexivity).
  rewrite starts_with_app_long in H by (rewrite app_length; cbn [length CRLFCRLF]; lia).
  destruct (starts_with CRLFCRLF ((x :: h) ++ [13; 10; 13])); [discriminate H|].
  rewrite <- app_assoc in H. cbn [app] in H. change (13 :: 10 :: 13 :: 10 :: t) with (CRLFCRLF ++ t) in H.
  destruct (find_sub CRLFCRLF (h ++ CRLFCRLF ++ t)) as [e|] eqn:F; [|discriminate H]. injection H as ->.
  cbn [app]. rewrite (IH eq_refl). reflexivity.
Qed.
Lemma find_sub_some_split p a e : find_sub p a = Some e -> exists h t, a = h ++ p ++ t /\ length h = e.
Proof.
  revert e. induction a as [|x a IH]; intros e H; rewrite find_sub_unfold in H.
  - destruct (starts_with p []) eqn:S; [|discriminate H]. injection H as <-.
    destruct (starts_with_true_inv p [] S) as [r E]. exists [], r. split; [exact E|reflexivity].
  - destruct (starts_with p (x :: a)) eqn:S.
    + injection H as <-. destruct (starts_with_true_inv p _ S) as [r E]. exists [], r. split; [exact E|reflexivity].
    + destruct (find_sub p a) as [e'|] eqn:F; [|discriminate H]. injection H as <-.
      destruct (IH e' eq_refl) as (h & t & -> & <-). exists (x :: h), t. split; reflexivity.
Qed.
Lemma consume_step_inv w n : consume_head_step w = CConsume n ->
  exists bl head t, w = bl ++ head ++ CRLFCRLF ++ t /\ forallb is_crlf bl = true /\ starts_nonblank head /\
                    head_form head /\ n = lenN bl + lenN head + 4.
Proof.
  unfold consume_head_step. destruct (span_inv is_crlf w) as (bl & Ew & Hb & Hs).
  destruct (find_sub CRLFCRLF (span is_crlf w)) as [e|] eqn:F.
  - intros [= <-]. destruct (find_sub_some_split _ _ _ F) as (h & t & Eb & <-). exists bl, h, t.
    rewrite Eb in Ew, Hs, F.
    split; [exact Ew|]. split; [exact Hb|]. split; [|split; [exact (find_sub_some_head t h F)|]].
    + destruct h as [|x h']; [discriminate Hs|exact Hs].
    + rewrite Ew at 1. rewrite Eb, <- lenN_spec, !lenN_app. lia.
  - destruct ((lenN w =? 0) || (lenN w =? HEAD_WINDOW)); discriminate.
Qed.

Theorem http_tunnel_sound s local hist k a reply n :
  is_socks5 s = false -> handshake s local hist = Tunnel k a reply n ->
  exists bl m u r, s = request_line_bytes bl m u ++ r /\ blank_lines bl /\ method_form m /\ target_form u /\
                   lenN (request_line_bytes bl m u) <= RECOGNIZE_WINDOW /\
    ((k = KHttp /\ recognize_http m u = Ok (PHttp a) /\ reply = [] /\ n = 0) \/
     (k = KHttps /\ recognize_http m u = Ok (PHttps a) /\ reply = REPLY_200 /\
      exists bl' head tl, s = bl' ++ head ++ CRLFCRLF ++ tl /\ forallb is_crlf bl' = true /\ starts_nonblank head /\
                          head_form head /\ n = lenN bl' + lenN head + 4 /\ n <= HEAD_WINDOW)).
Proof.
  intros Hs. rewrite (handshake_http_outcome s local hist Hs). unfold http_outcome. intros H.
  set (w := window RECOGNIZE_WINDOW s (lenN s)) in *.
  assert (T : forall p, recognize_step w = decision_of (Ok p) ->
              exists bl m u r, s = request_line_bytes bl m u ++ r /\ blank_lines bl /\ method_form m /\ target_form u /\
                               lenN (request_line_bytes bl m u) <= RECOGNIZE_WINDOW /\ recognize_http m u = Ok p).
  { intros p Hp. destruct (recognize_target_sound w p Hp) as (bl & m & u & r & Ew & Hb & H1 & H2 & H3 & H4 & H5 & H6).
    destruct (window_is_prefix RECOGNIZE_WINDOW s (lenN s)) as [q Eq]. fold w in Eq.
    exists bl, m, u, (r ++ q). split; [rewrite Eq, Ew, request_line_bytes_app, <- !app_assoc; reflexivity|].
    split; [exact Hb|]. split; [split; assumption|]. split; [repeat split; assumption|]. split; [|exact H6].
    assert (L : lenN w <= RECOGNIZE_WINDOW) by (unfold w; rewrite window_len by lia; lia).
    rewrite <- request_line_bytes_app in Ew. rewrite Ew, lenN_app in L. lia. }
  destruct (recognize_step w) as [ |a'|a'| | | | | ] eqn:R; try discriminate H.
  - injection H as <- <- <- <-. destruct (T (PHttp a') eq_refl) as (bl & m & u & r & E & Hb & Hm & Hu & Hl & Hr).
    exists bl, m, u, r. repeat (split; [assumption|]). left. repeat split. exact Hr.
  - destruct (T (PHttps a') eq_refl) as (bl & m & u & r & E & Hb & Hm & Hu & Hl & Hr).
    destruct (consume_head_step (window HEAD_WINDOW s (lenN s))) as [n'| |] eqn:C; try discriminate H.
    injection H as <- <- <- <-.
    exists bl, m, u, r. repeat (split; [assumption|]). right. repeat (split; [reflexivity || assumption|]).
    destruct (consume_step_inv _ _ C) as (bl' & head & t & Ew & Hb' & Hn' & Hh & ->).
    destruct (window_is_prefix HEAD_WINDOW s (lenN s)) as [q Eq].
    exists bl', head, (t ++ q). split; [rewrite Eq, Ew, <- !app_assoc; reflexivity|].
    split; [exact Hb'|]. split; [exact Hn'|]. split; [exact Hh|]. split; [reflexivity|].
    assert (L : lenN (window HEAD_WINDOW s (lenN s)) <= HEAD_WINDOW) by (rewrite window_len by lia; lia).
    rewrite Ew, !lenN_app in L. change (lenN CRLFCRLF) with 4 in L. lia.
Qed.

(* ------------------------------------------------------------------------------------------ *)
(* 5. SOCKS5: read_message takes one byte at a time                                            *)
(* ------------------------------------------------------------------------------------------ *)
Section ReadMessage.
  Variable A : Type.
  Variable dec : bytes -> res (bytes * option A).

  Lemma s5_read_message_unfold buf unread : s5_read_message dec buf unread =
    match dec buf with
    | Ok (buf', Some item) => MItem item buf' unread
    | Ok (buf', None) => match unread with [] => MEof | x :: t => s5_read_message dec (buf' ++ [x]) t end
    | Err _ => MErr
    | Panic => MPanic
    end.
  Proof. destruct unread; reflexivity. Qed.

  (* a decoder that waits on every proper prefix of `msg` and decodes `msg` itself: read_message takes exactly
     `msg` from the stream, whatever follows it *)
  Lemma s5_read_message_exact msg item :
    (forall p q, p ++ q = msg -> q <> [] -> dec p = Ok (p, None)) -> dec msg = Ok ([], Some item) ->
    forall post pre tail, pre ++ post = msg -> s5_read_message dec pre (post ++ tail) = MItem item [] tail.
  Proof.
    intros Hw Hd. induction post as [|x post IH]; intros pre tail E.
    - rewrite app_nil_r in E. subst pre. rewrite s5_read_message_unfold, Hd. reflexivity.
    - rewrite s5_read_message_unfold, (Hw pre (x :: post) E ltac:(discriminate)). cbn [app]. apply IH.
      rewrite <- app_assoc. exact E.
  Qed.

  (* conversely: an item comes from decoding the buffer extended by exactly the bytes taken *)
  Hypothesis Hnone : forall b b', dec b = Ok (b', None) -> b' = b.
  Lemma s5_read_message_item_inv : forall unread buf item buf' unread',
    s5_read_message dec buf unread = MItem item buf' unread' ->
    exists taken, unread = taken ++ unread' /\ dec (buf ++ taken) = Ok (buf', Some item).
  Proof.
    induction unread as [|x t IH]; intros buf item buf' unread'; rewrite s5_read_message_unfold;
      destruct (dec buf) as [[b' [it|]]|e|] eqn:D; try discriminate.
    - intros [= <- <- <-]. exists []. rewrite !app_nil_r. split; [reflexivity|exact D].
    - intros [= <- <- <-]. exists []. rewrite !app_nil_r. split; [reflexivity|exact D].
    - rewrite (Hnone _ _ D). intros H. destruct (IH _ _ _ _ H) as (taken & -> & Hd). exists (x :: taken).
      split; [reflexivity|]. rewrite <- app_assoc in Hd. exact Hd.
  Qed.
End ReadMessage.

Lemma s5_initial_request_cons2 v cnt t : s5_initial_request (v :: cnt :: t) =
  if negb (v =? S5_VERSION) then Err EBadVersion
  else if lenN t <? cnt then Ok (v :: cnt :: t, None)
  else if forallb auth_method_ok (takeN cnt t) then Ok (dropN cnt t, Some (takeN cnt t)) else Err EBadAuth.
Proof.
  unfold s5_initial_request. destruct (N.ltb_spec (lenN (v :: cnt :: t)) 2) as [H|_]; [rewrite !lenN_cons in H; lia|].
  rewrite index_0. cbn [bind]. destruct (negb (v =? S5_VERSION)); [reflexivity|]. rewrite index_1. cbn [bind].
  rewrite !lenN_cons. destruct (N.ltb_spec (1 + (1 + lenN t)) (2 + cnt)); destruct (N.ltb_spec (lenN t) cnt); try lia; [reflexivity|].
  rewrite advance_2_cons. cbn [bind]. rewrite split_to_ok by lia. reflexivity.
Qed.
Lemma s5_initial_request_none b b' : s5_initial_request b = Ok (b', None) -> b' = b.
Proof.
  destruct b as [|v [|cnt t]]; [cbv; intros [= <-]; reflexivity|cbv; intros [= <-]; reflexivity|].
  rewrite s5_initial_request_cons2. destruct (negb (v =? S5_VERSION)); [discriminate|].
  destruct (lenN t <? cnt); [intros [= <-]; reflexivity|]. destruct (forallb auth_method_ok (takeN cnt t)); discriminate.
Qed.
Lemma s5_command_request_none b b' : s5_command_request b = Ok (b', None) -> b' = b.
Proof.
  rewrite command_request_generic. unfold cmd_generic.
  destruct (lenN b <? 4); [intros [= <-]; reflexivity|].
  destruct (index b 0) as [v| |]; cbn [bind]; try discriminate. destruct (negb (v =? S5_VERSION)); [discriminate|].
  destruct (index b 1) as [c| |]; cbn [bind]; try discriminate. destruct (negb (command_ok c)); [discriminate|].
  destruct (s5_try_decode_at b 3) as [[al|]| |]; cbn [bind]; try discriminate; [|intros [= <-]; reflexivity].
  destruct (lenN b <? 3 + al); [intros [= <-]; reflexivity|].
  destruct (advance 3 b) as [r| |]; cbn [bind]; try discriminate.
  destruct (s5_decode r) as [[ad r']| |]; cbn [bind]; discriminate.
Qed.

(* the SOCKS5 branch does not look at the arrival history at all *)
Lemma handshake_socks5 s local hist : is_socks5 s = true -> handshake s local hist = s5_handshake s local.
Proof.
  intros Hs. unfold handshake. destruct (observed_shape s hist) as (pre & -> & Hpre).
  assert (Ed : recognize_step (window RECOGNIZE_WINDOW s (lenN s)) = DSocks5).
  { apply recognize_socks5_iff. destruct (window_is_prefix RECOGNIZE_WINDOW s (lenN s)) as [q Eq].
    destruct s as [|v s']; [discriminate Hs|].
    pose proof (window_nonempty RECOGNIZE_WINDOW (v :: s') (lenN (v :: s')) ltac:(rewrite lenN_cons; lia) eq_refl) as Hn.
    rewrite Eq in Hs. rewrite is_socks5_app in Hs by exact Hn. exact Hs. }
  destruct (recognize_loop_spec s pre Hpre) as [[Ew _]|(_ & suf & Hsuf & ->)].
  - rewrite Ed in Ew. discriminate Ew.
  - rewrite Ed. reflexivity.
Qed.

(* EVERY stream, SOCKS5 included, EVERY history: the whole outcome -- kind, target, bytes answered and the number
   of bytes taken off the stream -- is the outcome of everything arriving at once *)
Theorem handshake_segmentation_independent s local hist : handshake s local hist = handshake s local [].
Proof.
  destruct (is_socks5 s) eqn:Hs.
  - rewrite !(handshake_socks5 s local _ Hs). reflexivity.
  - apply handshake_http_segmentation_independent. exact Hs.
Qed.

(* a well-formed SOCKS5 exchange (greeting offering any methods, request with any of the three commands), with
   ANYTHING the application may have sent behind it (it need not wait for the reply): under every arrival
   history the handshake ends as s5_finish says for the command and the address of the request, and exactly
   the two messages have left the stream: the early data stays for the tunnel *)
Theorem socks5_handshake_exact ms c rsv a tail local hist :
  forallb auth_method_ok ms = true -> command_ok c = true -> addr_wf a -> representable a ->
  let hs := ([5; lenN ms] ++ ms) ++ [5; c; rsv] ++ s5_encode a in
  handshake (hs ++ tail) local hist = s5_finish local c a (lenN hs).
Proof.
  intros Hms Hc Hwf Hrep hs. rewrite handshake_socks5 by reflexivity. unfold s5_handshake, hs.
  set (G := [5; lenN ms] ++ ms). set (R := [5; c; rsv] ++ s5_encode a).
  replace ((G ++ R) ++ tail) with (G ++ (R ++ tail)) by (rewrite app_assoc; reflexivity).
  assert (EG : s5_read_message s5_initial_request [] (G ++ (R ++ tail)) = MItem ms [] (R ++ tail)).
  { apply (s5_read_message_exact _ s5_initial_request G ms).
    - intros p q E Hq. exact (s5_initial_request_waits ms p q E Hq).
    - pose proof (s5_initial_request_roundtrip ms [] Hms) as H. rewrite app_nil_r in H. exact H.
    - reflexivity. }
  rewrite EG.
  assert (ER : s5_read_message s5_command_request [] (R ++ tail) = MItem (c, a) [] tail).
  { apply (s5_read_message_exact _ s5_command_request R (c, a)).
    - intros p q E Hq. exact (s5_command_request_waits c rsv a p q Hc Hwf Hrep E Hq).
    - pose proof (s5_command_request_roundtrip c rsv a [] Hc Hwf Hrep) as H. rewrite app_nil_r in H. exact H.
    - reflexivity. }
  rewrite ER. f_equal. rewrite !lenN_app. lia.
Qed.

Lemma s5_finish_connect local a n : representable a ->
  s5_finish local 1 a n = Tunnel KSocks5 a (S5_METHOD_REPLY ++ s5_command_reply 0 local) n.
Proof.
  intros H. unfold s5_finish. destruct a as [ip p|ip p|h p]; cbn [representable] in H; try reflexivity.
  change (negb (1 =? 1)) with false. cbn [orb]. destruct (N.eqb_spec (lenN h) 0); [lia|].
  unfold host_ok. destruct (N.leb_spec 1 (lenN h)); [|lia]. destruct (N.leb_spec (lenN h) 255); [|lia]. reflexivity.
Qed.

(* SOCKS5 CONNECT: exactly the requested target; the method selection 05 00 and the success reply carrying the
   local address; exactly the handshake bytes consumed, whatever follows them *)
Theorem socks5_connect_exact ms rsv a tail local hist :
  forallb auth_method_ok ms = true -> addr_wf a -> representable a ->
  let hs := ([5; lenN ms] ++ ms) ++ [5; 1; rsv] ++ s5_encode a in
  handshake (hs ++ tail) local hist = Tunnel KSocks5 a ([5; 0] ++ [5; 0; 0] ++ s5_encode local) (lenN hs).
Proof.
  intros Hms Hwf Hrep hs. unfold hs. rewrite (socks5_handshake_exact ms 1 rsv a tail local hist Hms eq_refl Hwf Hrep).
  apply s5_finish_connect. exact Hrep.
Qed.
(* BIND and UDP ASSOCIATE are answered with a failure reply: no tunnel *)
Theorem socks5_unsupported_refused ms c rsv a tail local hist :
  forallb auth_method_ok ms = true -> addr_wf a -> representable a -> c = 2 \/ c = 3 ->
  handshake ((([5; lenN ms] ++ ms) ++ [5; c; rsv] ++ s5_encode a) ++ tail) local hist
  = Refused RSocks ([5; 0] ++ [5; 1; 0] ++ s5_encode local).
Proof.
  intros Hms Hwf Hrep Hc.
  assert (Hok : command_ok c = true) by (destruct Hc as [-> | ->]; reflexivity).
  rewrite (socks5_handshake_exact ms c rsv a tail local hist Hms Hok Hwf Hrep).
  unfold s5_finish. destruct Hc as [-> | ->]; reflexivity.
Qed.

(* whatever the stream: a tunnel opened by the SOCKS5 branch goes to the address of a CONNECT request that stands
   in the stream right behind a greeting; both replies were written; exactly those two messages were consumed *)
Lemma s5_finish_tunnel_inv local cmd dst r k a reply n : s5_finish local cmd dst r = Tunnel k a reply n ->
  k = KSocks5 /\ a = dst /\ cmd = 1 /\ reply = S5_METHOD_REPLY ++ s5_command_reply 0 local /\ n = r.
Proof.
  unfold s5_finish. destruct (N.eqb_spec cmd 1) as [->|]; cbn [negb orb]; [|discriminate].
  destruct dst as [ip p|ip p|h p].
  - intros [= <- <- <- <-]. repeat split.
  - intros [= <- <- <- <-]. repeat split.
  - destruct (lenN h =? 0); [discriminate|]. destruct (host_ok h); [|discriminate].
    intros [= <- <- <- <-]. repeat split.
Qed.
Theorem socks5_tunnel_sound s local hist k a reply n :
  is_socks5 s = true -> handshake s local hist = Tunnel k a reply n ->
  k = KSocks5 /\ reply = [5; 0] ++ [5; 0; 0] ++ s5_encode local /\
  exists g bg ms r br tl, s = g ++ r ++ tl /\ s5_initial_request g = Ok (bg, Some ms) /\
                          s5_command_request (bg ++ r) = Ok (br, Some (1, a)) /\ n = lenN g + lenN r.
Proof.
  intros Hs. rewrite (handshake_socks5 s local hist Hs). unfold s5_handshake.
  destruct (s5_read_message s5_initial_request [] s) as [ms bg un| | |] eqn:EG; try discriminate.
  destruct (s5_read_message s5_command_request bg un) as [[cmd dst] br un'| | |] eqn:ER; try discriminate.
  intros H. destruct (s5_finish_tunnel_inv _ _ _ _ _ _ _ _ H) as (-> & -> & -> & -> & ->).
  destruct (s5_read_message_item_inv _ _ s5_initial_request_none _ _ _ _ _ EG) as (g & Es & Hg).
  destruct (s5_read_message_item_inv _ _ s5_command_request_none _ _ _ _ _ ER) as (r & Eu & Hr).
  split; [reflexivity|]. split; [reflexivity|]. exists g, bg, ms, r, br, un'. cbn [app] in Hg.
  split; [rewrite Es, Eu; reflexivity|]. split; [exact Hg|]. split; [exact Hr|]. rewrite Es, Eu, !lenN_app. lia.
Qed.

(* ------------------------------------------------------------------------------------------ *)
(* 6. regression sensitivity: the behaviour before the repairs fad5d1a / 32d4108 (handshake_v0) *)
(* ------------------------------------------------------------------------------------------ *)
(* Stream: 05 01 00 | 05 01 00 03 03 'a' '.' 'b' 00 50 | "hello" (data sent before the reply has been read).
   Over FramedRead the consumed count depended on the arrival history and "hello" was lost when it arrived with
   the request; now exactly 13 bytes are consumed under every history. *)
Definition s5_early_stream : bytes := [5; 1; 0] ++ [5; 1; 0; 3; 3; 97; 46; 98; 0; 80] ++ [104; 101; 108; 108; 111].
Theorem v0_socks5_early_data_lost :
  let local := AV4 [127; 0; 0; 1] 1080 in
  let reply := [5; 0; 5; 0; 0; 1; 127; 0; 0; 1; 4; 56] in
  handshake_v0 s5_early_stream local [] = Tunnel KSocks5 (ADom [97; 46; 98] 80) reply 18 /\
  handshake_v0 s5_early_stream local [13] = Tunnel KSocks5 (ADom [97; 46; 98] 80) reply 13 /\
  forall hist, handshake s5_early_stream local hist = Tunnel KSocks5 (ADom [97; 46; 98] 80) reply 13.
Proof.
  cbv zeta. split; [vm_compute; reflexivity|]. split; [vm_compute; reflexivity|].
  intros hist. rewrite handshake_segmentation_independent. vm_compute. reflexivity.
Qed.
(* Two empty lines in front of "CONNECT a.b:443 HTTP/1.1\r\n\r\n" + "hello": consume_request_head stopped at the
   empty lines (4 bytes) and the CONNECT request itself was forwarded into the tunnel; now the empty lines and
   the head (4 + 24 + 4 bytes) are consumed and "hello" is what the tunnel gets. *)
Definition blank_connect_stream : bytes :=
  [13; 10; 13; 10] ++ [67; 79; 78; 78; 69; 67; 84; 32; 97; 46; 98; 58; 52; 52; 51; 32; 72; 84; 84; 80; 47; 49; 46; 49; 13; 10; 13; 10]
  ++ [104; 101; 108; 108; 111].
Theorem v0_connect_after_empty_lines_forwarded : forall local,
  handshake_v0 blank_connect_stream local [] = Tunnel KHttps (ADom [97; 46; 98] 443) REPLY_200 4 /\
  forall hist, handshake blank_connect_stream local hist = Tunnel KHttps (ADom [97; 46; 98] 443) REPLY_200 32.
Proof.
  intros local. split; [vm_compute; reflexivity|].
  intros hist. rewrite handshake_segmentation_independent. vm_compute. reflexivity.
Qed.

(* ------------------------------------------------------------------------------------------ *)
(* 7. non-vacuity: concrete requests                                                           *)
(* ------------------------------------------------------------------------------------------ *)
Import String.   (* string literals; placed here because String.length / String.append shadow the list ones *)
Definition CRLF : bytes := [13; 10].
Definition LOCAL : addr := AV4 [127; 0; 0; 1] 1080.

Theorem connect_reply_exact : REPLY_200 = bs "HTTP/1.1 200 Connection established" ++ CRLFCRLF
                              /\ REPLY_414 = bs "HTTP/1.1 414 URI Too Long" ++ CRLFCRLF.
Proof. split; reflexivity. Qed.

Example ex_forms : method_form (bs "GET") /\ method_form CONNECT /\ target_form (bs "http://example.com:8080/a?b=c")
                   /\ target_form (bs "example.com:443") /\ blank_lines CRLF /\ blank_lines [].
Proof. vm_compute. repeat split; try discriminate; try reflexivity. right. repeat split. Qed.

(* httparse, cut inside the method / inside the URI / inside the version / behind the request line *)
Example ex_parse_cut_method : request_parse (bs "CONN") = (HPartial, None, None).
Proof. reflexivity. Qed.
Example ex_parse_cut_uri : request_parse (bs "CONNECT example.com:4") = (HPartial, Some CONNECT, None).
Proof. reflexivity. Qed.
Example ex_parse_cut_version : request_parse (bs "CONNECT example.com:443 HTT") = (HPartial, Some CONNECT, Some (bs "example.com:443")).
Proof. reflexivity. Qed.
Example ex_parse_header_no_slot :
  request_parse (bs "CONNECT example.com:443 HTTP/1.1" ++ CRLF ++ bs "Host: example.com:443" ++ CRLF ++ CRLF)
  = (HError, Some CONNECT, Some (bs "example.com:443")).      (* Err(TooManyHeaders), method and path set *)
Proof. reflexivity. Qed.
Example ex_parse_no_header : request_parse (bs "GET http://a/ HTTP/1.0" ++ CRLF ++ CRLF) = (HComplete, Some (bs "GET"), Some (bs "http://a/")).
Proof. reflexivity. Qed.
Example ex_parse_bad_version : request_parse (bs "GET http://a/ HTTP/2.0" ++ CRLF) = (HError, Some (bs "GET"), Some (bs "http://a/")).
Proof. reflexivity. Qed.
Example ex_parse_double_space : request_parse (bs "GET  http://a/ HTTP/1.1") = (HError, Some (bs "GET"), None).
Proof. reflexivity. Qed.
Example ex_parse_bad_utf8 : request_parse (bs "GET http://a/" ++ [255; 32]) = (HError, Some (bs "GET"), None).
Proof. reflexivity. Qed.

Example ex_step_wait : recognize_step (bs "GET http://example.com/") = DWait.
Proof. reflexivity. Qed.
Example ex_step_http : recognize_step (bs "GET http://example.com/ H") = DHttp (ADom (bs "example.com") 80).
Proof. reflexivity. Qed.
Example ex_step_https : recognize_step (bs "CONNECT example.com:443 ") = DHttps (ADom (bs "example.com") 443).
Proof. reflexivity. Qed.
Example ex_step_socks5 : recognize_step [5] = DSocks5.
Proof. reflexivity. Qed.
Example ex_step_socks4 : recognize_step [4; 1; 0; 80] = DUnknown.
Proof. reflexivity. Qed.
Example ex_step_origin_form : recognize_step (bs "GET /index.html HTTP/1.1") = DError.
Proof. reflexivity. Qed.
Example ex_step_414_ctl : recognize_step (bs "GET http://a/" ++ [9] ++ bs "b HTTP/1.1") = DTooLong.   (* a control byte in the URI *)
Proof. reflexivity. Qed.
Example ex_step_414_full : recognize_step (bs "GET http://a/" ++ repeat 97 (N.to_nat 1011)) = DTooLong /\ lenN (bs "GET http://a/" ++ repeat 97 (N.to_nat 1011)) = 1024.
Proof. vm_compute. split; reflexivity. Qed.
Example ex_step_unknown_full : recognize_step (repeat 97 (N.to_nat 1024)) = DUnknown.                           (* 1024 bytes of method *)
Proof. vm_compute. reflexivity. Qed.

Example ex_consume_wait : consume_head_step (bs "CONNECT a:1 HTTP/1.1" ++ CRLF ++ [13]) = CWait.
Proof. reflexivity. Qed.
Example ex_consume_done : consume_head_step (bs "CONNECT a:1 HTTP/1.1" ++ CRLF ++ CRLF ++ bs "payload") = CConsume 24.
Proof. reflexivity. Qed.
Example ex_consume_full : consume_head_step (repeat 97 (N.to_nat 8192)) = CFail.
Proof. vm_compute. reflexivity. Qed.
Example ex_head_form : head_form (bs "CONNECT example.com:443 HTTP/1.1" ++ CRLF ++ bs "Host: example.com:443").
Proof. vm_compute. reflexivity. Qed.

(* the driver: one byte at a time, in two segments cut inside the URI, everything at once *)
Definition ex_connect : bytes :=
  bs "CONNECT example.com:443 HTTP/1.1" ++ CRLF ++ bs "Host: example.com:443" ++ CRLF ++ CRLF ++ [22; 3; 1; 2; 0].
Example ex_drive_connect :
  List.map (handshake ex_connect LOCAL) [[]; [10; 70]; List.map N.of_nat (seq 1 70)]
  = repeat (Tunnel KHttps (ADom (bs "example.com") 443) REPLY_200 59) 3.
Proof. vm_compute. reflexivity. Qed.
Definition ex_get : bytes :=
  bs "GET http://example.com:8080/a?b=c HTTP/1.1" ++ CRLF ++ bs "Host: example.com:8080" ++ CRLF ++ CRLF.
Example ex_drive_get :
  List.map (handshake ex_get LOCAL) [[]; [10; 70]; List.map N.of_nat (seq 1 70)]
  = repeat (Tunnel KHttp (ADom (bs "example.com") 8080) [] 0) 3.
Proof. vm_compute. reflexivity. Qed.
Example ex_drive_get_default_port :
  handshake (bs "GET http://example.com/ HTTP/1.1" ++ CRLF ++ CRLF) LOCAL [3; 9] = Tunnel KHttp (ADom (bs "example.com") 80) [] 0.
Proof. vm_compute. reflexivity. Qed.
Definition ex_socks : bytes := [5; 1; 0] ++ [5; 1; 0; 3; 11] ++ bs "example.com" ++ [1; 187].
Example ex_drive_socks :
  List.map (handshake ex_socks LOCAL) [[]; [1; 2; 3; 7]; List.map N.of_nat (seq 1 21)]
  = repeat (Tunnel KSocks5 (ADom (bs "example.com") 443) [5; 0; 5; 0; 0; 1; 127; 0; 0; 1; 4; 56] 21) 3.
Proof. vm_compute. reflexivity. Qed.
Example ex_drive_socks_bind :
  handshake ([5; 1; 0] ++ [5; 2; 0; 1; 10; 0; 0; 1; 0; 80]) LOCAL [3] = Refused RSocks [5; 0; 5; 1; 0; 1; 127; 0; 0; 1; 4; 56].
Proof. vm_compute. reflexivity. Qed.
Example ex_drive_refusals :
  handshake (bs "GET /index.html HTTP/1.1" ++ CRLF ++ CRLF) LOCAL [5] = Refused RBadTarget [] /\
  handshake (bs "GET http://a/" ++ repeat 97 (N.to_nat 2000)) LOCAL [100] = Refused RTooLong REPLY_414 /\
  handshake (bs "GET http://exam") LOCAL [4] = Refused RTimeout [] /\
  handshake [] LOCAL [] = Refused RUnknown [] /\
  handshake [22; 3; 1] LOCAL [] = Refused RUnknown [] /\
  handshake (bs "CONNECT a:1 HTTP/1.1" ++ CRLF) LOCAL [] = Refused RTimeout [] /\
  handshake (bs "CONNECT a:1 HTTP/1.1" ++ CRLF ++ repeat 97 (N.to_nat 9000)) LOCAL [] = Refused RHead [].
Proof. vm_compute. repeat split. Qed.

(* the theorems apply to the examples *)
Example ex_connect_by_theorem : forall hist,
  handshake (CRLF ++ CRLF ++ CRLF ++ ex_connect) LOCAL hist = Tunnel KHttps (ADom (bs "example.com") 443) REPLY_200 65.
Proof.
  intros hist.
  pose proof (connect_yields_exact_target (CRLF ++ CRLF ++ CRLF) CONNECT (bs "example.com:443")
           (bs "HTTP/1.1" ++ CRLF ++ bs "Host: example.com:443") [22; 3; 1; 2; 0] (ADom (bs "example.com") 443) LOCAL hist) as T.
  cbv zeta in T.
  replace (CRLF ++ CRLF ++ CRLF ++ ex_connect)
    with ((CRLF ++ CRLF ++ CRLF) ++ (request_line_bytes [] CONNECT (bs "example.com:443") ++ bs "HTTP/1.1" ++ CRLF ++ bs "Host: example.com:443")
          ++ CRLFCRLF ++ [22; 3; 1; 2; 0]) by (vm_compute; reflexivity).
  rewrite T.
  - f_equal.
  - vm_compute. right. repeat split; right; repeat split; right; repeat split.
  - split; [discriminate|reflexivity].
  - split; [discriminate|split; reflexivity].
  - vm_compute. discriminate.
  - reflexivity.
  - vm_compute. reflexivity.
  - vm_compute. discriminate.
Qed.
(* early data behind a SOCKS5 request stays in the stream: 21 bytes consumed, whatever the history *)
Example ex_drive_socks_early_data :
  List.map (handshake (ex_socks ++ bs "GET / HTTP/1.0") LOCAL) [[]; [1; 2; 3; 7]; [21]; [21; 35]]
  = repeat (Tunnel KSocks5 (ADom (bs "example.com") 443) [5; 0; 5; 0; 0; 1; 127; 0; 0; 1; 4; 56] 21) 4.
Proof. vm_compute. reflexivity. Qed.
