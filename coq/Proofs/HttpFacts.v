(* Facts about Model/Http.v::recognize_http : exactness on the target grammar (absolute-form with and
   without port, CONNECT authority-form), and refusal facts: origin-form targets, targets without "://"
   (non-CONNECT), CONNECT targets with a '/' outside an absolute-form. *)
From Coq Require Import NArith List Bool Lia ZArith ZifyBool ZifyN ZifyNat.
From Coq Require String Ascii.
From Octo Require Import Base.Bytes Model.Address Model.Http.
Import ListNotations.
Open Scope N_scope.

(* ------------------------------------------------------------------------------------------ *)
(* The function as a pipeline of named steps                                                   *)
(* ------------------------------------------------------------------------------------------ *)
Definition strip_query (t : bytes) : bytes :=
  match find_byte ch_qmark t with Some i => firstn i t | None => t end.
Definition strip_slash (s : bytes) : bytes :=
  match rev s with c :: r => if c =? ch_slash then rev r else s | [] => s end.
Definition has_slash (s : bytes) : bool := existsb (N.eqb ch_slash) s.
(* the authority after the first "://", unless a '/' precedes it *)
Definition cut (s : bytes) : option bytes :=
  match find_sub SEP s with
  | Some i0 =>
    if has_slash (firstn i0 s) then None
    else let rest := skipn (i0 + 3) s in
         Some (match find_byte ch_slash rest with Some j => firstn j rest | None => rest end)
  | None => None
  end.
Definition cut_authority (m s : bytes) : res bytes :=
  match cut s with
  | Some a => Ok a
  | None => if bytes_eqb m CONNECT && negb (has_slash s) then Ok s else Err EOther
  end.
Definition authority_of (m t : bytes) : res bytes := cut_authority m (strip_slash (strip_query t)).

Definition parse_at (path : bytes) : option nat :=
  match rfind_byte ch_colon path, rfind_byte ch_rbracket path with
  | None, _ => None
  | Some h_end, None => Some h_end
  | Some h_end, Some v6_end => if Nat.ltb h_end v6_end then None else Some h_end
  end.

Definition finish (method path : bytes) : res proxy :=
  if bytes_eqb method CONNECT then
    match rfind_byte ch_colon path with
    | None => Err EOther
    | Some h_end =>
      match parse_u16 (skipn (S h_end) path) with
      | None => Err EOther
      | Some port => if host_ok (firstn h_end path) then Ok (PHttps (ADom (firstn h_end path) port)) else Err EBadLen
      end
    end
  else
    match parse_at path with
    | Some idx =>
      match parse_u16 (skipn (S idx) path) with
      | None => Err EOther
      | Some port => if host_ok (firstn idx path) then Ok (PHttp (ADom (firstn idx path) port)) else Err EBadLen
      end
    | None => if host_ok path then Ok (PHttp (ADom path 80)) else Err EBadLen
    end.

Lemma recognize_http_eq m t : recognize_http m t = bind (authority_of m t) (finish m).
Proof. reflexivity. Qed.

(* ------------------------------------------------------------------------------------------ *)
(* none_of                                                                                     *)
(* ------------------------------------------------------------------------------------------ *)
Lemma none_of_notin bad s c : none_of bad s -> In c bad -> ~ In c s.
Proof. intros H Hb Hs. exact (H c Hs Hb). Qed.
Lemma none_of_nil bad : none_of bad [].
Proof. intros c H. destruct H. Qed.
Lemma none_of_app bad a b : none_of bad a -> none_of bad b -> none_of bad (a ++ b).
Proof. intros Ha Hb c H. apply in_app_or in H. destruct H as [H|H]; [exact (Ha c H)|exact (Hb c H)]. Qed.
Lemma none_of_app_l bad a b : none_of bad (a ++ b) -> none_of bad a.
Proof. intros H c Hc. apply H. apply in_or_app. left. exact Hc. Qed.
Lemma none_of_app_r bad a b : none_of bad (a ++ b) -> none_of bad b.
Proof. intros H c Hc. apply H. apply in_or_app. right. exact Hc. Qed.
Lemma none_of_cons_inv bad x s : none_of bad (x :: s) -> ~ In x bad /\ none_of bad s.
Proof. intros H. split; [apply H; left; reflexivity|]. intros c Hc. apply H. right. exact Hc. Qed.
Lemma none_of_weaken bad bad' s : incl bad' bad -> none_of bad s -> none_of bad' s.
Proof. intros Hi H c Hc Hb. exact (H c Hc (Hi c Hb)). Qed.
Lemma none_of_sub bad s s' : (forall c, In c s' -> In c s) -> none_of bad s -> none_of bad s'.
Proof. intros Hi H c Hc. apply H. apply Hi. exact Hc. Qed.

Ltac weaken H := eapply none_of_weaken; [|exact H]; let c := fresh "c" in let Hc := fresh "Hc" in
                 intros c Hc; cbn [In] in *; tauto.

(* a decision procedure, for the examples *)
Definition none_ofb (bad : list N) (s : bytes) : bool :=
  forallb (fun c => negb (existsb (N.eqb c) bad)) s.
Lemma none_ofb_sound bad s : none_ofb bad s = true -> none_of bad s.
Proof.
  unfold none_ofb. intros H c Hc Hb. rewrite forallb_forall in H. specialize (H c Hc).
  apply negb_true_iff in H. assert (E : existsb (N.eqb c) bad = true).
  { apply existsb_exists. exists c. split; [exact Hb|apply N.eqb_refl]. }
  rewrite E in H. discriminate H.
Qed.

(* ------------------------------------------------------------------------------------------ *)
(* find_byte / rfind_byte                                                                      *)
(* ------------------------------------------------------------------------------------------ *)
Lemma find_byte_none c s : ~ In c s -> find_byte c s = None.
Proof.
  induction s as [|x t IH]; intros H; cbn [find_byte]; [reflexivity|].
  destruct (N.eqb_spec x c) as [E|E]; [exfalso; apply H; left; exact E|].
  rewrite IH; [reflexivity|]. intros Hi. apply H. right. exact Hi.
Qed.
Lemma find_byte_app_notin c a b : ~ In c a -> find_byte c (a ++ c :: b) = Some (length a).
Proof.
  induction a as [|x t IH]; intros H; cbn [find_byte app length].
  - rewrite N.eqb_refl. reflexivity.
  - destruct (N.eqb_spec x c) as [E|E]; [exfalso; apply H; left; exact E|].
    rewrite IH; [reflexivity|]. intros Hi. apply H. right. exact Hi.
Qed.
Lemma rfind_byte_none c s : ~ In c s -> rfind_byte c s = None.
Proof.
  induction s as [|x t IH]; intros H; cbn [rfind_byte]; [reflexivity|].
  rewrite IH by (intros Hi; apply H; right; exact Hi).
  destruct (N.eqb_spec x c) as [E|E]; [exfalso; apply H; left; exact E|reflexivity].
Qed.
Lemma rfind_byte_app_notin c a b : ~ In c b -> rfind_byte c (a ++ c :: b) = Some (length a).
Proof.
  intros H. induction a as [|x t IH]; cbn [rfind_byte app length].
  - rewrite (rfind_byte_none c b H). rewrite N.eqb_refl. reflexivity.
  - rewrite IH. reflexivity.
Qed.
Lemma rfind_byte_app_r_notin c a b : ~ In c b -> rfind_byte c (a ++ b) = rfind_byte c a.
Proof.
  intros H. induction a as [|x t IH]; cbn [rfind_byte app].
  - apply rfind_byte_none. exact H.
  - rewrite IH. reflexivity.
Qed.
Lemma rfind_byte_lt c s i : rfind_byte c s = Some i -> (i < length s)%nat.
Proof.
  revert i. induction s as [|x t IH]; intros i H; cbn [rfind_byte length] in *; [discriminate H|].
  destruct (rfind_byte c t) as [j|] eqn:E.
  - injection H as <-. specialize (IH j eq_refl). lia.
  - destruct (x =? c); [injection H as <-; lia|discriminate H].
Qed.
Lemma rfind_byte_some_in c s i : rfind_byte c s = Some i -> In c s.
Proof.
  intros H. destruct (in_dec N.eq_dec c s) as [Hi|Hn]; [exact Hi|].
  rewrite (rfind_byte_none c s Hn) in H. discriminate H.
Qed.

(* ------------------------------------------------------------------------------------------ *)
(* starts_with / find_sub                                                                      *)
(* ------------------------------------------------------------------------------------------ *)
Lemma starts_with_true_inv p s : starts_with p s = true -> exists r, s = p ++ r.
Proof.
  revert s. induction p as [|a p IH]; intros s H.
  - exists s. reflexivity.
  - destruct s as [|b s]; cbn [starts_with] in H; [discriminate H|].
    apply andb_true_iff in H. destruct H as [H1 H2]. apply N.eqb_eq in H1. subst b.
    destruct (IH s H2) as [r ->]. exists r. reflexivity.
Qed.
Lemma starts_with_app p r : starts_with p (p ++ r) = true.
Proof. induction p as [|a p IH]; cbn [starts_with app]; [reflexivity|]. rewrite N.eqb_refl, IH. reflexivity. Qed.
Lemma starts_with_app_r p a b : starts_with p a = true -> starts_with p (a ++ b) = true.
Proof. intros H. destruct (starts_with_true_inv p a H) as [r ->]. rewrite <- app_assoc. apply starts_with_app. Qed.

Lemma find_sub_unfold p s :
  find_sub p s = if starts_with p s then Some O else match s with [] => None | _ :: t => option_map S (find_sub p t) end.
Proof. destruct s; reflexivity. Qed.

Lemma find_sub_SEP_none s : ~ In ch_slash s -> find_sub SEP s = None.
Proof.
  induction s as [|x t IH]; intros H; rewrite find_sub_unfold.
  - reflexivity.
  - destruct (starts_with SEP (x :: t)) eqn:E.
    + exfalso. apply starts_with_true_inv in E. destruct E as [r E]. apply H. rewrite E. cbn. right. left. reflexivity.
    + rewrite IH; [reflexivity|]. intros Hi. apply H. right. exact Hi.
Qed.
Lemma find_sub_SEP_nocolon s : ~ In ch_colon s -> find_sub SEP s = None.
Proof.
  induction s as [|x t IH]; intros H; rewrite find_sub_unfold.
  - reflexivity.
  - destruct (starts_with SEP (x :: t)) eqn:E.
    + exfalso. apply starts_with_true_inv in E. destruct E as [r E]. apply H. rewrite E. cbn. left. reflexivity.
    + rewrite IH; [reflexivity|]. intros Hi. apply H. right. exact Hi.
Qed.
Lemma find_sub_SEP_app sc rest : ~ In ch_colon sc -> find_sub SEP (sc ++ SEP ++ rest) = Some (length sc).
Proof.
  induction sc as [|x t IH]; intros H; rewrite find_sub_unfold.
  - cbn [app length]. rewrite starts_with_app. reflexivity.
  - cbn [app length]. destruct (starts_with SEP (x :: t ++ SEP ++ rest)) eqn:E.
    + exfalso. apply starts_with_true_inv in E. destruct E as [r E]. apply H. left.
      cbn in E. injection E as E _. exact E.
    + rewrite IH; [reflexivity|]. intros Hi. apply H. right. exact Hi.
Qed.
Lemma find_sub_none_prefix p a b : find_sub p (a ++ b) = None -> find_sub p a = None.
Proof.
  induction a as [|x t IH]; intros H; rewrite find_sub_unfold; rewrite find_sub_unfold in H.
  - destruct (starts_with p []) eqn:E; [|reflexivity].
    rewrite (starts_with_app_r p [] b E) in H. discriminate H.
  - destruct (starts_with p (x :: t)) eqn:E.
    + rewrite (starts_with_app_r p (x :: t) b E) in H. discriminate H.
    + cbn [app] in H. destruct (starts_with p (x :: t ++ b)); [discriminate H|].
      destruct (find_sub p (t ++ b)) eqn:F; [discriminate H|]. rewrite IH; reflexivity.
Qed.

(* ------------------------------------------------------------------------------------------ *)
(* firstn / skipn / In                                                                         *)
(* ------------------------------------------------------------------------------------------ *)
Lemma firstn_len_app (a b : bytes) : firstn (length a) (a ++ b) = a.
Proof. rewrite firstn_app, Nat.sub_diag, firstn_all. cbn. apply app_nil_r. Qed.
Lemma skipn_len_app (a b : bytes) : skipn (length a) (a ++ b) = b.
Proof. rewrite skipn_app, Nat.sub_diag, skipn_all. reflexivity. Qed.
Lemma skipn_S_len_app (a : bytes) c b : skipn (S (length a)) (a ++ c :: b) = b.
Proof. replace (S (length a)) with (length (a ++ [c])) by (rewrite app_length; cbn; lia).
       replace (a ++ c :: b) with ((a ++ [c]) ++ b) by (rewrite <- app_assoc; reflexivity). apply skipn_len_app. Qed.
Lemma in_firstn (x : N) n l : In x (firstn n l) -> In x l.
Proof. intros H. rewrite <- (firstn_skipn n l). apply in_or_app. left. exact H. Qed.
Lemma in_skipn (x : N) n l : In x (skipn n l) -> In x l.
Proof. intros H. rewrite <- (firstn_skipn n l). apply in_or_app. right. exact H. Qed.

Lemma snoc_cases (l : bytes) : l = [] \/ exists l' c, l = l' ++ [c].
Proof.
  destruct l as [|x t]; [left; reflexivity|right].
  destruct (@exists_last N (x :: t)) as [l' [c E]]; [discriminate|]. exists l', c. exact E.
Qed.

(* ------------------------------------------------------------------------------------------ *)
(* the three preprocessing steps                                                               *)
(* ------------------------------------------------------------------------------------------ *)
Lemma strip_query_app a q : ~ In ch_qmark a -> query_form q -> strip_query (a ++ q) = a.
Proof.
  intros Ha [->|[r ->]]; unfold strip_query.
  - rewrite app_nil_r. rewrite find_byte_none by exact Ha. reflexivity.
  - rewrite find_byte_app_notin by exact Ha. apply firstn_len_app.
Qed.
Lemma strip_query_in x t : In x (strip_query t) -> In x t.
Proof. unfold strip_query. destruct (find_byte ch_qmark t); [apply in_firstn|trivial]. Qed.

Lemma strip_slash_nil : strip_slash [] = [].
Proof. reflexivity. Qed.
Lemma strip_slash_snoc a c : strip_slash (a ++ [c]) = if c =? ch_slash then a else a ++ [c].
Proof. unfold strip_slash. rewrite rev_unit. rewrite rev_involutive. reflexivity. Qed.
Lemma strip_slash_in x s : In x (strip_slash s) -> In x s.
Proof.
  destruct (snoc_cases s) as [->|[a [c ->]]]; [trivial|]. rewrite strip_slash_snoc.
  destruct (c =? ch_slash); [|trivial]. intros H. apply in_or_app. left. exact H.
Qed.
Lemma strip_slash_prefix s : exists r, s = strip_slash s ++ r.
Proof.
  destruct (snoc_cases s) as [->|[a [c ->]]]; [exists []; reflexivity|]. rewrite strip_slash_snoc.
  destruct (c =? ch_slash); [exists [c]; reflexivity|exists []; rewrite app_nil_r; reflexivity].
Qed.
(* nothing is stripped from a non-empty string that is free of '/' *)
Lemma strip_slash_noslash s : ~ In ch_slash s -> strip_slash s = s.
Proof.
  destruct (snoc_cases s) as [->|[a [c ->]]]; [reflexivity|]. intros H. rewrite strip_slash_snoc.
  destruct (N.eqb_spec c ch_slash) as [E|E]; [|reflexivity].
  exfalso. apply H. apply in_or_app. right. left. exact E.
Qed.
(* stripping after a '/'-free, non-empty prefix only touches the path, which stays empty-or-'/'-led *)
Lemma strip_slash_path pre p :
  pre <> [] -> ~ In ch_slash pre -> (p = [] \/ exists r, p = ch_slash :: r) ->
  exists p', (p' = [] \/ exists r', p' = ch_slash :: r') /\ strip_slash (pre ++ p) = pre ++ p'.
Proof.
  intros Hne Hns Hp. destruct (snoc_cases p) as [->|[l [c ->]]].
  - exists []. split; [left; reflexivity|]. rewrite app_nil_r. apply strip_slash_noslash. exact Hns.
  - rewrite app_assoc, strip_slash_snoc. destruct (c =? ch_slash).
    + exists l. split; [|reflexivity]. destruct l as [|y l]; [left; reflexivity|right].
      destruct Hp as [Hp|[r Hp]]; [discriminate Hp|]. cbn [app] in Hp. injection Hp as -> _. exists l. reflexivity.
    + exists (l ++ [c]). split; [|rewrite app_assoc; reflexivity].
      destruct Hp as [Hp|Hp]; [left; exact Hp|right; exact Hp].
Qed.

Lemma has_slash_false s : ~ In ch_slash s -> has_slash s = false.
Proof.
  intros H. unfold has_slash. destruct (existsb (N.eqb ch_slash) s) eqn:E; [|reflexivity].
  apply existsb_exists in E. destruct E as [x [Hx E]]. apply N.eqb_eq in E. subst x. contradiction (H Hx).
Qed.
Lemma has_slash_true s : In ch_slash s -> has_slash s = true.
Proof. intros H. unfold has_slash. apply existsb_exists. exists ch_slash. split; [exact H|apply N.eqb_refl]. Qed.

Lemma cut_in s a x : cut s = Some a -> In x a -> In x s.
Proof.
  unfold cut. destruct (find_sub SEP s) as [i0|]; [|discriminate].
  destruct (has_slash (firstn i0 s)); [discriminate|]. cbv zeta.
  destruct (find_byte ch_slash (skipn (i0 + 3) s)); intros [= <-] H.
  - apply in_firstn in H. apply in_skipn in H. exact H.
  - apply in_skipn in H. exact H.
Qed.
Lemma cut_authority_cases m s :
  (exists e, cut_authority m s = Err e) \/ (exists a, cut_authority m s = Ok a /\ forall x, In x a -> In x s).
Proof.
  unfold cut_authority. destruct (cut s) as [a|] eqn:E.
  - right. exists a. split; [reflexivity|]. intros x. exact (cut_in s a x E).
  - destruct (bytes_eqb m CONNECT && negb (has_slash s)); [right; exists s; split; [reflexivity|trivial]|left; eexists; reflexivity].
Qed.
Lemma cut_scheme sc au p :
  ~ In ch_colon sc -> ~ In ch_slash sc -> ~ In ch_slash au -> (p = [] \/ exists r, p = ch_slash :: r) ->
  cut (sc ++ SEP ++ au ++ p) = Some au.
Proof.
  intros Hsc Hss Hau Hp. unfold cut. rewrite find_sub_SEP_app by exact Hsc.
  rewrite firstn_len_app, (has_slash_false sc Hss). cbv zeta.
  replace (length sc + 3)%nat with (length (sc ++ SEP)) by (rewrite app_length; reflexivity).
  rewrite (app_assoc sc SEP), skipn_len_app.
  destruct Hp as [->|[r ->]].
  - rewrite app_nil_r. rewrite find_byte_none by exact Hau. reflexivity.
  - rewrite find_byte_app_notin by exact Hau. rewrite firstn_len_app. reflexivity.
Qed.
Lemma cut_authority_scheme m sc au p :
  ~ In ch_colon sc -> ~ In ch_slash sc -> ~ In ch_slash au -> (p = [] \/ exists r, p = ch_slash :: r) ->
  cut_authority m (sc ++ SEP ++ au ++ p) = Ok au.
Proof. intros Hsc Hss Hau Hp. unfold cut_authority. rewrite cut_scheme by assumption. reflexivity. Qed.
Lemma cut_nosep s : find_sub SEP s = None -> cut s = None.
Proof. intros H. unfold cut. rewrite H. reflexivity. Qed.
(* a '/'-led string has no admissible "://" *)
Lemma cut_slash_led r : cut (ch_slash :: r) = None.
Proof.
  unfold cut. destruct (find_sub SEP (ch_slash :: r)) as [i0|] eqn:E; [|reflexivity].
  destruct i0 as [|k].
  - rewrite find_sub_unfold in E. cbn [SEP starts_with] in E. replace (ch_colon =? ch_slash) with false in E by reflexivity.
    cbn [andb] in E. destruct (find_sub SEP r); discriminate E.
  - cbn [firstn]. rewrite has_slash_true by (left; reflexivity). reflexivity.
Qed.

Lemma authority_of_cases m t :
  (exists e, authority_of m t = Err e) \/ (exists a, authority_of m t = Ok a /\ forall x, In x a -> In x t).
Proof.
  unfold authority_of. destruct (cut_authority_cases m (strip_slash (strip_query t))) as [H|[a [H Hi]]]; [left; exact H|].
  right. exists a. split; [exact H|]. intros x Hx. apply strip_query_in, strip_slash_in, Hi. exact Hx.
Qed.

(* absolute-form: scheme "://" authority path query *)
Lemma authority_of_absolute m sc au p q :
  scheme_form sc -> au <> [] -> none_of [ch_slash; ch_qmark] au -> path_form p -> query_form q ->
  authority_of m (sc ++ SEP ++ au ++ p ++ q) = Ok au.
Proof.
  intros Hsc Hne Hau [Hp Hpq] Hq. unfold authority_of.
  assert (Hss : ~ In ch_slash sc) by (apply (none_of_notin _ _ _ Hsc); cbn; tauto).
  assert (Hsl : ~ In ch_slash au) by (apply (none_of_notin _ _ _ Hau); cbn; tauto).
  assert (Hqm : ~ In ch_qmark au) by (apply (none_of_notin _ _ _ Hau); cbn; tauto).
  assert (Hcol : ~ In ch_colon sc) by (apply (none_of_notin _ _ _ Hsc); cbn; tauto).
  replace (sc ++ SEP ++ au ++ p ++ q) with ((sc ++ SEP ++ au ++ p) ++ q) by (rewrite <- !app_assoc; reflexivity).
  rewrite strip_query_app; [|intros Hi|exact Hq].
  2:{ apply in_app_or in Hi. destruct Hi as [Hi|Hi]; [exact (Hsc _ Hi ltac:(cbn; tauto))|].
      apply in_app_or in Hi. destruct Hi as [Hi|Hi]; [cbn in Hi; intuition discriminate|].
      apply in_app_or in Hi. destruct Hi as [Hi|Hi]; [exact (Hqm Hi)|exact (Hpq _ Hi ltac:(cbn; tauto))]. }
  (* the trailing-'/' step: the last byte belongs to the path or, for an empty path, to the authority *)
  destruct (snoc_cases p) as [->|[l [c Ep]]].
  - rewrite app_nil_r. destruct (snoc_cases au) as [->|[a' [c' ->]]]; [contradiction Hne; reflexivity|].
    replace (sc ++ SEP ++ a' ++ [c']) with ((sc ++ SEP ++ a') ++ [c']) by (rewrite <- !app_assoc; reflexivity).
    rewrite strip_slash_snoc. destruct (N.eqb_spec c' ch_slash) as [E|E].
    + exfalso. apply Hsl. apply in_or_app. right. left. exact E.
    + replace ((sc ++ SEP ++ a') ++ [c']) with (sc ++ SEP ++ (a' ++ [c']) ++ []) by (rewrite app_nil_r, <- !app_assoc; reflexivity).
      apply cut_authority_scheme; [exact Hcol|exact Hss|exact Hsl|left; reflexivity].
  - subst p. replace (sc ++ SEP ++ au ++ l ++ [c]) with ((sc ++ SEP ++ au ++ l) ++ [c]) by (rewrite <- !app_assoc; reflexivity).
    rewrite strip_slash_snoc. destruct (c =? ch_slash).
    + apply cut_authority_scheme; [exact Hcol|exact Hss|exact Hsl|].
      destruct l as [|y l]; [left; reflexivity|right].
      destruct Hp as [Hp|[r Hp]]; [discriminate Hp|]. cbn [app] in Hp. injection Hp as -> _. exists l. reflexivity.
    + replace ((sc ++ SEP ++ au ++ l) ++ [c]) with (sc ++ SEP ++ au ++ (l ++ [c])) by (rewrite <- !app_assoc; reflexivity).
      apply cut_authority_scheme; [exact Hcol|exact Hss|exact Hsl|exact Hp].
Qed.

(* no "://" before the query: only CONNECT goes on, and only when no '/' is left after the trailing-'/' step *)
Lemma authority_of_noscheme m a q :
  ~ In ch_qmark a -> query_form q -> find_sub SEP a = None ->
  authority_of m (a ++ q) =
  if bytes_eqb m CONNECT && negb (has_slash (strip_slash a)) then Ok (strip_slash a) else Err EOther.
Proof.
  intros Ha Hq Hs. unfold authority_of. rewrite strip_query_app by assumption.
  unfold cut_authority. destruct (strip_slash_prefix a) as [r E].
  rewrite E in Hs. apply find_sub_none_prefix in Hs. rewrite (cut_nosep _ Hs). reflexivity.
Qed.
Lemma authority_of_connect_noslash a q :
  ~ In ch_qmark a -> query_form q -> ~ In ch_slash a -> authority_of CONNECT (a ++ q) = Ok a.
Proof.
  intros Ha Hq Hs. rewrite authority_of_noscheme; [|exact Ha|exact Hq|apply find_sub_SEP_none; exact Hs].
  rewrite strip_slash_noslash by exact Hs. rewrite (has_slash_false a Hs). reflexivity.
Qed.

(* ------------------------------------------------------------------------------------------ *)
(* digits / parse_u16 / host_ok                                                                *)
(* ------------------------------------------------------------------------------------------ *)
Lemma digits_val_all_digits ds acc v : digits_val ds acc = Some v -> forall c, In c ds -> is_digit c = true.
Proof.
  revert acc. induction ds as [|x t IH]; intros acc H c Hc; [destruct Hc|].
  cbn [digits_val] in H. destruct (is_digit x) eqn:E; [|discriminate H].
  destruct Hc as [<-|Hc]; [exact E|exact (IH _ H c Hc)].
Qed.
Lemma is_digit_range c : is_digit c = true -> 48 <= c <= 57.
Proof. unfold is_digit. lia. Qed.
Lemma port_form_digits ds v : port_form ds v -> forall c, In c ds -> 48 <= c <= 57.
Proof. intros [_ [H _]] c Hc. apply is_digit_range. exact (digits_val_all_digits _ _ _ H c Hc). Qed.
Lemma port_form_none_of ds v :
  port_form ds v -> none_of [ch_colon; ch_slash; ch_qmark; ch_rbracket; ch_plus] ds.
Proof.
  intros H c Hc Hb. pose proof (port_form_digits ds v H c Hc) as R.
  unfold ch_colon, ch_slash, ch_qmark, ch_rbracket, ch_plus in Hb. cbn [In] in Hb.
  destruct Hb as [E|[E|[E|[E|[E|[]]]]]]; subst c; lia.
Qed.
Lemma port_form_parse ds v : port_form ds v -> parse_u16 ds = Some v.
Proof.
  intros H. pose proof (port_form_digits ds v H) as Hd. destruct H as [Hne [Hv Hlt]].
  destruct ds as [|c t]; [contradiction Hne; reflexivity|]. unfold parse_u16.
  destruct (N.eqb_spec c ch_plus) as [E|E].
  - specialize (Hd c (or_introl eq_refl)). unfold ch_plus in E. lia.
  - rewrite Hv. destruct (N.ltb_spec v 65536); [reflexivity|lia].
Qed.
Lemma parse_u16_lt s v : parse_u16 s = Some v -> v < 65536.
Proof.
  unfold parse_u16. set (s' := match s with [] => s | c :: t => if c =? ch_plus then t else s end).
  destruct s' as [|x t]; [discriminate|]. destruct (digits_val (x :: t) 0) as [w|]; [|discriminate].
  destruct (N.ltb_spec w 65536); [|discriminate]. intros [= <-]. assumption.
Qed.
Lemma host_ok_range h : host_ok h = true -> 1 <= lenN h <= 255.
Proof. unfold host_ok. lia. Qed.
Lemma host_ok_nonempty h : host_ok h = true -> h <> [].
Proof. intros H ->. discriminate H. Qed.

(* ------------------------------------------------------------------------------------------ *)
(* host_form                                                                                   *)
(* ------------------------------------------------------------------------------------------ *)
Lemma host_form_nonempty h : host_form h -> h <> [].
Proof. intros [h' Hne _|b _]; [exact Hne|discriminate]. Qed.
Lemma host_form_none_of h : host_form h -> none_of [ch_slash; ch_qmark] h.
Proof.
  intros [h' _ Hn|b Hn].
  - weaken Hn.
  - apply none_of_app; [intros c Hc Hb; cbn in Hc, Hb; intuition (subst; discriminate)|].
    apply none_of_app; [weaken Hn|].
    intros c Hc Hb; cbn in Hc, Hb; intuition (subst; discriminate).
Qed.
(* no port follows: the port position is not selected *)
Lemma host_form_parse_at h : host_form h -> parse_at h = None.
Proof.
  intros [h' _ Hn|b Hn]; unfold parse_at.
  - rewrite rfind_byte_none; [reflexivity|]. apply (none_of_notin _ _ _ Hn). cbn; tauto.
  - assert (Hb : ~ In ch_rbracket b) by (apply (none_of_notin _ _ _ Hn); cbn; tauto).
    replace ([ch_lbracket] ++ b ++ [ch_rbracket]) with ((ch_lbracket :: b) ++ ch_rbracket :: []) by reflexivity.
    rewrite (rfind_byte_app_notin ch_rbracket) by (intros []).
    rewrite (rfind_byte_app_r_notin ch_colon) by (cbn; intuition discriminate).
    destruct (rfind_byte ch_colon (ch_lbracket :: b)) as [i|] eqn:E; [|reflexivity].
    apply rfind_byte_lt in E. destruct (Nat.ltb_spec i (length (ch_lbracket :: b))); [reflexivity|lia].
Qed.
(* a port follows: the ':' before it is selected *)
Lemma host_form_port_parse_at h ds :
  host_form h -> ~ In ch_colon ds -> ~ In ch_rbracket ds -> parse_at (h ++ ch_colon :: ds) = Some (length h).
Proof.
  intros Hh Hc Hr. unfold parse_at. rewrite rfind_byte_app_notin by exact Hc.
  destruct Hh as [h' _ Hn|b Hn].
  - rewrite rfind_byte_none; [reflexivity|]. intros Hi. apply in_app_or in Hi. destruct Hi as [Hi|[Hi|Hi]].
    + exact (Hn _ Hi ltac:(cbn; tauto)).
    + discriminate Hi.
    + exact (Hr Hi).
  - replace (([ch_lbracket] ++ b ++ [ch_rbracket]) ++ ch_colon :: ds)
      with ((ch_lbracket :: b) ++ ch_rbracket :: (ch_colon :: ds)) by (cbn; rewrite <- app_assoc; reflexivity).
    rewrite rfind_byte_app_notin by (intros [Hi|Hi]; [discriminate Hi|exact (Hr Hi)]).
    rewrite !app_length. cbn [length].
    destruct (Nat.ltb_spec (1 + (length b + 1)) (S (length b))); [lia|reflexivity].
Qed.

(* ------------------------------------------------------------------------------------------ *)
(* the last step on an authority                                                               *)
(* ------------------------------------------------------------------------------------------ *)
Lemma finish_noport m h :
  bytes_eqb m CONNECT = false -> host_form h -> host_ok h = true -> finish m h = Ok (PHttp (ADom h 80)).
Proof. intros Hm Hh Hok. unfold finish. rewrite Hm, (host_form_parse_at h Hh), Hok. reflexivity. Qed.

Lemma finish_port m h ds v :
  bytes_eqb m CONNECT = false -> host_form h -> host_ok h = true -> port_form ds v ->
  finish m (h ++ ch_colon :: ds) = Ok (PHttp (ADom h v)).
Proof.
  intros Hm Hh Hok Hp. pose proof (port_form_none_of ds v Hp) as Hn. unfold finish. rewrite Hm.
  rewrite host_form_port_parse_at; [|exact Hh|apply (none_of_notin _ _ _ Hn); cbn; tauto|apply (none_of_notin _ _ _ Hn); cbn; tauto].
  rewrite skipn_S_len_app, firstn_len_app, (port_form_parse ds v Hp), Hok. reflexivity.
Qed.

(* CONNECT splits at the last ':' whatever the host looks like *)
Lemma finish_connect h ds v :
  host_ok h = true -> port_form ds v -> finish CONNECT (h ++ ch_colon :: ds) = Ok (PHttps (ADom h v)).
Proof.
  intros Hok Hp. pose proof (port_form_none_of ds v Hp) as Hn. unfold finish.
  replace (bytes_eqb CONNECT CONNECT) with true by reflexivity.
  rewrite rfind_byte_app_notin by (apply (none_of_notin _ _ _ Hn); cbn; tauto).
  rewrite skipn_S_len_app, firstn_len_app, (port_form_parse ds v Hp), Hok. reflexivity.
Qed.

(* ========================================================================================== *)
(* 1. absolute-form without port                                                               *)
(* ========================================================================================== *)
Theorem authority_exact_noport m sc h p q :
  bytes_eqb m CONNECT = false -> scheme_form sc -> host_form h -> host_ok h = true ->
  path_form p -> query_form q ->
  recognize_http m (sc ++ SEP ++ h ++ p ++ q) = Ok (PHttp (ADom h 80)).
Proof.
  intros Hm Hsc Hh Hok Hp Hq. rewrite recognize_http_eq.
  rewrite authority_of_absolute; [|exact Hsc|exact (host_form_nonempty h Hh)|exact (host_form_none_of h Hh)|exact Hp|exact Hq].
  cbn [bind]. apply finish_noport; assumption.
Qed.
Print Assumptions authority_exact_noport.

(* ========================================================================================== *)
(* 2. absolute-form with port                                                                  *)
(* ========================================================================================== *)
Lemma authority_with_port_ok h ds v :
  host_form h -> port_form ds v ->
  h ++ [ch_colon] ++ ds <> [] /\ none_of [ch_slash; ch_qmark] (h ++ [ch_colon] ++ ds).
Proof.
  intros Hh Hp. split; [intros E; apply app_eq_nil in E; destruct E as [E _]; exact (host_form_nonempty h Hh E)|].
  apply none_of_app; [exact (host_form_none_of h Hh)|]. apply none_of_app.
  - intros c Hc Hb; cbn in Hc, Hb; intuition (subst; discriminate).
  - weaken (port_form_none_of ds v Hp).
Qed.

Theorem authority_exact_port m sc h ds v p q :
  bytes_eqb m CONNECT = false -> scheme_form sc -> host_form h -> host_ok h = true ->
  port_form ds v -> path_form p -> query_form q ->
  recognize_http m (sc ++ SEP ++ h ++ [ch_colon] ++ ds ++ p ++ q) = Ok (PHttp (ADom h v)).
Proof.
  intros Hm Hsc Hh Hok Hpt Hp Hq. rewrite recognize_http_eq.
  destruct (authority_with_port_ok h ds v Hh Hpt) as [Hne Hn].
  replace (sc ++ SEP ++ h ++ [ch_colon] ++ ds ++ p ++ q) with (sc ++ SEP ++ (h ++ [ch_colon] ++ ds) ++ p ++ q)
    by (rewrite <- !app_assoc; reflexivity).
  rewrite authority_of_absolute; [|exact Hsc|exact Hne|exact Hn|exact Hp|exact Hq].
  cbn [bind]. apply finish_port; assumption.
Qed.
Print Assumptions authority_exact_port.

(* ========================================================================================== *)
(* 3. CONNECT                                                                                  *)
(* ========================================================================================== *)
Theorem connect_exact h ds v :
  host_form h -> host_ok h = true -> port_form ds v ->
  recognize_http CONNECT (h ++ [ch_colon] ++ ds) = Ok (PHttps (ADom h v)).
Proof.
  intros Hh Hok Hpt. rewrite recognize_http_eq.
  destruct (authority_with_port_ok h ds v Hh Hpt) as [_ Hn].
  assert (Hsl : ~ In ch_slash (h ++ [ch_colon] ++ ds)) by (apply (none_of_notin _ _ _ Hn); cbn; tauto).
  assert (Hqm : ~ In ch_qmark (h ++ [ch_colon] ++ ds)) by (apply (none_of_notin _ _ _ Hn); cbn; tauto).
  rewrite <- (app_nil_r (h ++ [ch_colon] ++ ds)).
  rewrite authority_of_connect_noslash; [|exact Hqm|left; reflexivity|exact Hsl].
  cbn [bind]. apply finish_connect; assumption.
Qed.
Print Assumptions connect_exact.

(* CONNECT with an optional query after the authority-form target *)
Theorem connect_exact_query h ds v q :
  host_form h -> host_ok h = true -> port_form ds v -> query_form q ->
  recognize_http CONNECT (h ++ [ch_colon] ++ ds ++ q) = Ok (PHttps (ADom h v)).
Proof.
  intros Hh Hok Hpt Hq. rewrite recognize_http_eq.
  destruct (authority_with_port_ok h ds v Hh Hpt) as [_ Hn].
  assert (Hsl : ~ In ch_slash (h ++ [ch_colon] ++ ds)) by (apply (none_of_notin _ _ _ Hn); cbn; tauto).
  assert (Hqm : ~ In ch_qmark (h ++ [ch_colon] ++ ds)) by (apply (none_of_notin _ _ _ Hn); cbn; tauto).
  replace (h ++ [ch_colon] ++ ds ++ q) with ((h ++ [ch_colon] ++ ds) ++ q) by (rewrite <- !app_assoc; reflexivity).
  rewrite authority_of_connect_noslash; [|exact Hqm|exact Hq|exact Hsl].
  cbn [bind]. apply finish_connect; assumption.
Qed.
Print Assumptions connect_exact_query.

(* CONNECT with scheme, path and query (absolute-form) *)
Theorem connect_exact_absolute sc h ds v p q :
  scheme_form sc -> host_form h -> host_ok h = true -> port_form ds v -> path_form p -> query_form q ->
  recognize_http CONNECT (sc ++ SEP ++ h ++ [ch_colon] ++ ds ++ p ++ q) = Ok (PHttps (ADom h v)).
Proof.
  intros Hsc Hh Hok Hpt Hp Hq. rewrite recognize_http_eq.
  destruct (authority_with_port_ok h ds v Hh Hpt) as [Hne Hn].
  replace (sc ++ SEP ++ h ++ [ch_colon] ++ ds ++ p ++ q) with (sc ++ SEP ++ (h ++ [ch_colon] ++ ds) ++ p ++ q)
    by (rewrite <- !app_assoc; reflexivity).
  rewrite authority_of_absolute; [|exact Hsc|exact Hne|exact Hn|exact Hp|exact Hq].
  cbn [bind]. apply finish_connect; assumption.
Qed.
Print Assumptions connect_exact_absolute.

(* ========================================================================================== *)
(* 4. refusal facts                                                                            *)
(* ========================================================================================== *)
(* shape of every result of the last step: an error, or a domain address whose host is a prefix
   of the authority, of length 1..255, with a 16-bit port; PHttps exactly for CONNECT *)
Lemma finish_cases m s :
  (exists e, finish m s = Err e) \/
  (exists n v, finish m s = Ok ((if bytes_eqb m CONNECT then PHttps else PHttp) (ADom (firstn n s) v))
               /\ host_ok (firstn n s) = true /\ v < 65536).
Proof.
  unfold finish. destruct (bytes_eqb m CONNECT).
  - destruct (rfind_byte ch_colon s) as [i|]; [|left; eexists; reflexivity].
    destruct (parse_u16 (skipn (S i) s)) as [v|] eqn:Ev; [|left; eexists; reflexivity].
    destruct (host_ok (firstn i s)) eqn:Eh; [|left; eexists; reflexivity].
    right. exists i, v. split; [reflexivity|]. split; [exact Eh|exact (parse_u16_lt _ _ Ev)].
  - destruct (parse_at s) as [i|].
    + destruct (parse_u16 (skipn (S i) s)) as [v|] eqn:Ev; [|left; eexists; reflexivity].
      destruct (host_ok (firstn i s)) eqn:Eh; [|left; eexists; reflexivity].
      right. exists i, v. split; [reflexivity|]. split; [exact Eh|exact (parse_u16_lt _ _ Ev)].
    + destruct (host_ok s) eqn:Eh; [|left; eexists; reflexivity].
      right. exists (length s), 80. rewrite firstn_all. split; [reflexivity|]. split; [exact Eh|reflexivity].
Qed.

(* (a) whatever the method and the target: never a panic, never a non-domain address, and an accepted
   host has 1..255 bytes (all of them bytes of the target) and the port is a u16 *)
Theorem recognize_http_cases m t :
  (exists e, recognize_http m t = Err e) \/
  (exists h v, recognize_http m t = Ok ((if bytes_eqb m CONNECT then PHttps else PHttp) (ADom h v))
               /\ 1 <= lenN h <= 255 /\ v < 65536 /\ (forall x, In x h -> In x t)).
Proof.
  rewrite recognize_http_eq. destruct (authority_of_cases m t) as [[e E]|[a [E Hi]]]; rewrite E; cbn [bind]; [left; exists e; reflexivity|].
  destruct (finish_cases m a) as [H|[n [v [H [Hok Hv]]]]]; [left; exact H|].
  right. exists (firstn n a), v. split; [exact H|]. split; [exact (host_ok_range _ Hok)|].
  split; [exact Hv|]. intros x Hx. apply Hi. exact (in_firstn x n _ Hx).
Qed.
Print Assumptions recognize_http_cases.

Theorem malformed_refused_a m t h p :
  recognize_http m t = Ok (PHttp (ADom h p)) \/ recognize_http m t = Ok (PHttps (ADom h p)) ->
  1 <= lenN h <= 255 /\ p < 65536.
Proof.
  intros H. destruct (recognize_http_cases m t) as [[e E]|[h' [v [E [Hl [Hv _]]]]]]; rewrite E in H.
  - destruct H as [H|H]; discriminate H.
  - destruct (bytes_eqb m CONNECT); destruct H as [H|H]; try discriminate H; injection H as <- <-; split; assumption.
Qed.
Print Assumptions malformed_refused_a.

Theorem never_panic m t : recognize_http m t <> Panic.
Proof. destruct (recognize_http_cases m t) as [[e E]|[h [v [E _]]]]; rewrite E; discriminate. Qed.

Theorem only_domain m t a :
  recognize_http m t = Ok (PHttp a) \/ recognize_http m t = Ok (PHttps a) -> exists h p, a = ADom h p.
Proof.
  intros H. destruct (recognize_http_cases m t) as [[e E]|[h [v [E _]]]]; rewrite E in H.
  - destruct H as [H|H]; discriminate H.
  - exists h, v. destruct (bytes_eqb m CONNECT); destruct H as [H|H]; try discriminate H; injection H as <-; reflexivity.
Qed.

(* PHttps is answered exactly for CONNECT *)
Theorem https_iff_connect m t a :
  (recognize_http m t = Ok (PHttps a) -> bytes_eqb m CONNECT = true) /\
  (recognize_http m t = Ok (PHttp a) -> bytes_eqb m CONNECT = false).
Proof.
  destruct (recognize_http_cases m t) as [[e E]|[h [v [E _]]]]; rewrite E; [split; discriminate|].
  destruct (bytes_eqb m CONNECT); split; try discriminate; reflexivity.
Qed.
Print Assumptions never_panic. Print Assumptions only_domain. Print Assumptions https_iff_connect.

(* (b) CONNECT without a ':' anywhere in the target is refused *)
Theorem connect_no_colon_refused t : ~ In ch_colon t -> recognize_http CONNECT t = Err EOther.
Proof.
  intros H. rewrite recognize_http_eq. unfold authority_of, cut_authority.
  rewrite cut_nosep by (apply find_sub_SEP_nocolon; intros Hi; apply H; apply strip_query_in, strip_slash_in; exact Hi).
  destruct (bytes_eqb CONNECT CONNECT && negb (has_slash (strip_slash (strip_query t)))); [|reflexivity].
  cbn [bind]. unfold finish. replace (bytes_eqb CONNECT CONNECT) with true by reflexivity.
  rewrite rfind_byte_none; [reflexivity|]. intros Hi. apply H. apply strip_query_in, strip_slash_in. exact Hi.
Qed.
Print Assumptions connect_no_colon_refused.

(* CONNECT : whatever follows the last ':' of the authority must parse as a u16 *)
Theorem connect_bad_port_refused a x :
  ~ In ch_colon x -> parse_u16 x = None -> ~ In ch_slash (a ++ ch_colon :: x) -> ~ In ch_qmark (a ++ ch_colon :: x) ->
  recognize_http CONNECT (a ++ ch_colon :: x) = Err EOther.
Proof.
  intros Hx Hp Hsl Hqm. rewrite recognize_http_eq. rewrite <- (app_nil_r (a ++ ch_colon :: x)).
  rewrite authority_of_connect_noslash; [|exact Hqm|left; reflexivity|exact Hsl].
  cbn [bind]. unfold finish. replace (bytes_eqb CONNECT CONNECT) with true by reflexivity.
  rewrite rfind_byte_app_notin by exact Hx. rewrite skipn_S_len_app, Hp. reflexivity.
Qed.
Print Assumptions connect_bad_port_refused.

Lemma strip_slash_led r : strip_slash (ch_slash :: r) = [] \/ exists r', strip_slash (ch_slash :: r) = ch_slash :: r'.
Proof.
  destruct (snoc_cases (ch_slash :: r)) as [E|[l [c E]]]; [discriminate E|]. rewrite E, strip_slash_snoc.
  destruct (c =? ch_slash).
  - destruct l as [|y l]; [left; reflexivity|right]. cbn [app] in E. injection E as <- _. exists l. reflexivity.
  - right. exists r. symmetry. exact E.
Qed.

(* (c) origin-form targets are refused, for every path (empty, "/", with or without "://" inside) and query *)
Theorem origin_form_refused_eother m p q :
  bytes_eqb m CONNECT = false -> path_form p -> query_form q -> recognize_http m (p ++ q) = Err EOther.
Proof.
  intros Hm [Hp Hpq] Hq. rewrite recognize_http_eq. unfold authority_of.
  rewrite strip_query_app; [| |exact Hq]. 2:{ apply (none_of_notin _ _ _ Hpq). cbn; tauto. }
  assert (Hc : cut (strip_slash p) = None).
  { destruct Hp as [->|[r ->]]; [reflexivity|].
    destruct (strip_slash_led r) as [E|[r' E]]; rewrite E; [reflexivity|apply cut_slash_led]. }
  unfold cut_authority. rewrite Hc, Hm. reflexivity.
Qed.
Theorem origin_form_refused m p q :
  bytes_eqb m CONNECT = false -> path_form p -> query_form q -> exists e, recognize_http m (p ++ q) = Err e.
Proof. intros Hm Hp Hq. exists EOther. apply origin_form_refused_eother; assumption. Qed.
Print Assumptions origin_form_refused.

(* the same for CONNECT, except that the empty path leaves an empty authority (refused all the same) *)
Theorem origin_form_refused_connect p q :
  path_form p -> query_form q -> recognize_http CONNECT (p ++ q) = Err EOther.
Proof.
  intros [Hp Hpq] Hq. rewrite recognize_http_eq. unfold authority_of.
  rewrite strip_query_app; [| |exact Hq]. 2:{ apply (none_of_notin _ _ _ Hpq). cbn; tauto. }
  destruct Hp as [->|[r ->]]; [reflexivity|].
  destruct (strip_slash_led r) as [E|[r' E]]; rewrite E; [reflexivity|].
  unfold cut_authority. rewrite cut_slash_led. rewrite has_slash_true by (left; reflexivity).
  rewrite andb_false_r. reflexivity.
Qed.
Print Assumptions origin_form_refused_connect.

(* any non-CONNECT target without "://" (after the query and one trailing '/' were removed) is refused:
   OPTIONS *, GET example.com:81, GET example.com, GET /index.html ... *)
Theorem no_scheme_refused m t :
  bytes_eqb m CONNECT = false -> find_sub SEP (strip_slash (strip_query t)) = None ->
  exists e, recognize_http m t = Err e.
Proof.
  intros Hm H. exists EOther. rewrite recognize_http_eq. unfold authority_of, cut_authority.
  rewrite (cut_nosep _ H), Hm. reflexivity.
Qed.
Print Assumptions no_scheme_refused.

(* any target, for any method, whose first "://" is preceded by a '/' is refused
   (for CONNECT too: the '/' before "://" is a '/' of the stripped target) *)
Theorem slash_before_sep_refused m t i0 :
  find_sub SEP (strip_slash (strip_query t)) = Some i0 ->
  In ch_slash (firstn i0 (strip_slash (strip_query t))) ->
  recognize_http m t = Err EOther.
Proof.
  intros H Hi. rewrite recognize_http_eq. unfold authority_of, cut_authority, cut. rewrite H.
  rewrite (has_slash_true _ Hi). rewrite (has_slash_true (strip_slash (strip_query t))) by (exact (in_firstn _ _ _ Hi)).
  rewrite andb_false_r. reflexivity.
Qed.
Print Assumptions slash_before_sep_refused.

(* a CONNECT target without "://" that still contains a '/' after stripping is refused *)
Theorem connect_slash_refused t :
  find_sub SEP (strip_slash (strip_query t)) = None -> In ch_slash (strip_slash (strip_query t)) ->
  recognize_http CONNECT t = Err EOther.
Proof.
  intros H Hi. rewrite recognize_http_eq. unfold authority_of, cut_authority.
  rewrite (cut_nosep _ H), (has_slash_true _ Hi). rewrite andb_false_r. reflexivity.
Qed.
Print Assumptions connect_slash_refused.

(* conversely, what an accepted non-CONNECT target looks like: it contains "://", no '/' precedes the first one *)
Theorem accepted_has_scheme m t a :
  bytes_eqb m CONNECT = false -> recognize_http m t = Ok a ->
  exists i0, find_sub SEP (strip_slash (strip_query t)) = Some i0 /\ ~ In ch_slash (firstn i0 (strip_slash (strip_query t))).
Proof.
  intros Hm H. destruct (find_sub SEP (strip_slash (strip_query t))) as [i0|] eqn:E.
  - exists i0. split; [reflexivity|]. intros Hi. rewrite (slash_before_sep_refused m t i0 E Hi) in H. discriminate H.
  - destruct (no_scheme_refused m t Hm E) as [e He]. rewrite He in H. discriminate H.
Qed.
Print Assumptions accepted_has_scheme.

(* ========================================================================================== *)
(* 6. non-vacuity: concrete instances of the hypotheses, and the model's answers on them       *)
(* ========================================================================================== *)
Import String.   (* string literals; placed here because String.length / String.append shadow the list ones *)
Definition bs (s : String.string) : bytes := List.map Ascii.N_of_ascii (String.list_ascii_of_string s).
Definition GET : bytes := bs "GET".

Ltac nof := apply none_ofb_sound; vm_compute; reflexivity.
Ltac led := right; eexists; vm_compute; reflexivity.

Example ex_scheme : scheme_form (bs "http").
Proof. unfold scheme_form. nof. Qed.
Example ex_host_reg : host_form (bs "www.example.com") /\ host_ok (bs "www.example.com") = true.
Proof. split; [apply HReg; [intros E; vm_compute in E; discriminate E|nof]|vm_compute; reflexivity]. Qed.
Example ex_host_v6 : host_form (bs "[::1]") /\ host_ok (bs "[::1]") = true.
Proof. split; [change (bs "[::1]") with ([ch_lbracket] ++ bs "::1" ++ [ch_rbracket]); apply HV6; nof|vm_compute; reflexivity]. Qed.
Example ex_port : port_form (bs "8080") 8080.
Proof. split; [intros E; vm_compute in E; discriminate E|split; [vm_compute; reflexivity|reflexivity]]. Qed.
Example ex_path : path_form (bs "/a/b") /\ path_form (bs "/") /\ path_form [].
Proof. repeat split; try nof; try led. left; reflexivity. Qed.
Example ex_query : query_form (bs "?x=1?y=2://z") /\ query_form [].
Proof. split; [led|left; reflexivity]. Qed.
Example ex_get_not_connect : bytes_eqb GET CONNECT = false.
Proof. vm_compute. reflexivity. Qed.

(* the theorems applied to the two targets named in the task *)
Example ex_target_1 :
  recognize_http GET (bs "http://www.example.com:8080/a/b?x=1?y=2://z") = Ok (PHttp (ADom (bs "www.example.com") 8080)).
Proof.
  change (bs "http://www.example.com:8080/a/b?x=1?y=2://z")
    with (bs "http" ++ SEP ++ bs "www.example.com" ++ [ch_colon] ++ bs "8080" ++ bs "/a/b" ++ bs "?x=1?y=2://z").
  apply authority_exact_port;
    [exact ex_get_not_connect|exact ex_scheme|apply ex_host_reg|apply ex_host_reg|exact ex_port|apply ex_path|apply ex_query].
Qed.
Example ex_target_2 : recognize_http GET (bs "http://[::1]/") = Ok (PHttp (ADom (bs "[::1]") 80)).
Proof.
  change (bs "http://[::1]/") with (bs "http" ++ SEP ++ bs "[::1]" ++ bs "/" ++ []).
  apply authority_exact_noport;
    [exact ex_get_not_connect|exact ex_scheme|apply ex_host_v6|apply ex_host_v6|apply ex_path|apply ex_query].
Qed.
Example ex_target_3 : recognize_http GET (bs "http://[::1]:8080") = Ok (PHttp (ADom (bs "[::1]") 8080)).
Proof.
  change (bs "http://[::1]:8080") with (bs "http" ++ SEP ++ bs "[::1]" ++ [ch_colon] ++ bs "8080" ++ [] ++ []).
  apply authority_exact_port;
    [exact ex_get_not_connect|exact ex_scheme|apply ex_host_v6|apply ex_host_v6|exact ex_port|apply ex_path|apply ex_query].
Qed.
Example ex_connect : recognize_http CONNECT (bs "www.example.com:8080") = Ok (PHttps (ADom (bs "www.example.com") 8080)).
Proof.
  change (bs "www.example.com:8080") with (bs "www.example.com" ++ [ch_colon] ++ bs "8080").
  apply connect_exact; [apply ex_host_reg|apply ex_host_reg|exact ex_port].
Qed.
Example ex_connect_v6 : recognize_http CONNECT (bs "[::1]:8080") = Ok (PHttps (ADom (bs "[::1]") 8080)).
Proof.
  change (bs "[::1]:8080") with (bs "[::1]" ++ [ch_colon] ++ bs "8080").
  apply connect_exact; [apply ex_host_v6|apply ex_host_v6|exact ex_port].
Qed.
Print Assumptions ex_target_1. Print Assumptions ex_target_2. Print Assumptions ex_connect_v6.
(* cross-check of the same answers by computation alone *)
Example ex_target_1_vm :
  recognize_http GET (bs "http://www.example.com:8080/a/b?x=1?y=2://z") = Ok (PHttp (ADom (bs "www.example.com") 8080)).
Proof. vm_compute. reflexivity. Qed.

(* origin-form and scheme-less targets: instances of the refusal theorems *)
Example ref_origin_1 : exists e, recognize_http GET (bs "/index.html") = Err e.
Proof.
  change (bs "/index.html") with (bs "/index.html" ++ []).
  apply origin_form_refused; [exact ex_get_not_connect|split; [led|nof]|left; reflexivity].
Qed.
Example ref_origin_2 : exists e, recognize_http GET (bs "/a://b/c?x=1") = Err e.
Proof.
  change (bs "/a://b/c?x=1") with (bs "/a://b/c" ++ bs "?x=1").
  apply origin_form_refused; [exact ex_get_not_connect|split; [led|nof]|led].
Qed.
Example ref_noscheme_1 : exists e, recognize_http (bs "OPTIONS") (bs "*") = Err e.
Proof. apply no_scheme_refused; vm_compute; reflexivity. Qed.
Example ref_noscheme_2 : exists e, recognize_http GET (bs "example.com:81") = Err e.
Proof. apply no_scheme_refused; vm_compute; reflexivity. Qed.
Example ref_connect_slash : recognize_http CONNECT (bs "/a:80") = Err EOther.
Proof. apply connect_slash_refused; [vm_compute; reflexivity|vm_compute; tauto]. Qed.
(* ... and by computation *)
Example ref_list_get :
  List.map (fun t => recognize_http GET (bs t))
    ["/"; "/index.html"; "/a:80"; "/a://b/c"; "/index.html?x=1"; "/dir/"; "//"; "*"; ""; "?x"; "example.com";
     "example.com:81"; "a/b://host/"; "?://host"; "http://"; "http://example.com:/"; "http://example.com:65536/";
     "http://user:pw@example.com/"]%string
  = List.repeat (Err EOther) 18.
Proof. vm_compute. reflexivity. Qed.
Example ref_list_get_len : List.map (fun t => recognize_http GET (bs t)) ["http:///"; "http:///x"]%string = List.repeat (Err EBadLen) 2.
Proof. vm_compute. reflexivity. Qed.
Example ref_list_connect :
  List.map (fun t => recognize_http CONNECT (bs t))
    ["/a:80"; "example.com"; "[::1]"; "a/b:80"; "http://example.com/x"; "/a://b:80/c"; "example.com:"; "example.com:65536"]%string
  = List.repeat (Err EOther) 8.
Proof. vm_compute. reflexivity. Qed.
Example ref_connect_empty_host : recognize_http CONNECT (bs ":443") = Err EBadLen.
Proof. vm_compute. reflexivity. Qed.

(* odd inputs the model STILL ACCEPTS (outside the grammar; by computation) *)
Example acc_empty_scheme : recognize_http GET (bs "://example.com/") = Ok (PHttp (ADom (bs "example.com") 80)).
Proof. vm_compute. reflexivity. Qed.
Example acc_colon_scheme : recognize_http GET (bs "http:://host/") = Ok (PHttp (ADom (bs "host") 80)).
Proof. vm_compute. reflexivity. Qed.
Example acc_plus_port : recognize_http GET (bs "http://example.com:+80/") = Ok (PHttp (ADom (bs "example.com") 80)).
Proof. vm_compute. reflexivity. Qed.
Example acc_plus_port_connect : recognize_http CONNECT (bs "example.com:+443") = Ok (PHttps (ADom (bs "example.com") 443)).
Proof. vm_compute. reflexivity. Qed.
Example acc_userinfo : recognize_http GET (bs "http://user@example.com:80/") = Ok (PHttp (ADom (bs "user@example.com") 80)).
Proof. vm_compute. reflexivity. Qed.
Example acc_userinfo_connect : recognize_http CONNECT (bs "user@example.com:443") = Ok (PHttps (ADom (bs "user@example.com") 443)).
Proof. vm_compute. reflexivity. Qed.
Example acc_bracket_junk_1 : recognize_http GET (bs "http://a]:80/") = Ok (PHttp (ADom (bs "a]") 80)).
Proof. vm_compute. reflexivity. Qed.
Example acc_bracket_junk_2 : recognize_http GET (bs "http://[::1]x/") = Ok (PHttp (ADom (bs "[::1]x") 80)).
Proof. vm_compute. reflexivity. Qed.
Example acc_bracket_junk_3 : recognize_http GET (bs "http://[/") = Ok (PHttp (ADom (bs "[") 80)).
Proof. vm_compute. reflexivity. Qed.
Example acc_space : recognize_http GET (bs "http://ex ample.com/") = Ok (PHttp (ADom (bs "ex ample.com") 80)).
Proof. vm_compute. reflexivity. Qed.
Example acc_asterisk_host : recognize_http GET (bs "http://*/") = Ok (PHttp (ADom (bs "*") 80)).
Proof. vm_compute. reflexivity. Qed.
Example acc_connect_colons : recognize_http CONNECT (bs "x:y:443") = Ok (PHttps (ADom (bs "x:y") 443)).
Proof. vm_compute. reflexivity. Qed.
Example acc_connect_trailing_slash : recognize_http CONNECT (bs "example.com:443/") = Ok (PHttps (ADom (bs "example.com") 443)).
Proof. vm_compute. reflexivity. Qed.
Example acc_connect_empty_scheme : recognize_http CONNECT (bs "://example.com:443") = Ok (PHttps (ADom (bs "example.com") 443)).
Proof. vm_compute. reflexivity. Qed.
