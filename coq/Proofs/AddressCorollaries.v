(* Corollaries of the address round trips in the words of property C14: an encoded address is never re-interpreted as a different
   address plus payload -- the encodings are prefix-free on the representable addresses. *)
From Coq Require Import NArith List Bool.
From Octo Require Import Base.Bytes Model.Utf8 Model.Address Proofs.AddressFacts.
Import ListNotations.
Open Scope N_scope.

Theorem s5_prefix_free a b t1 t2 : addr_wf a -> representable a -> addr_wf b -> representable b ->
  s5_encode a ++ t1 = s5_encode b ++ t2 -> a = b /\ t1 = t2.
Proof.
  intros Ha Ra Hb Rb E.
  pose proof (s5_roundtrip a t1 Ha Ra) as H1. pose proof (s5_roundtrip b t2 Hb Rb) as H2.
  rewrite E, H2 in H1. injection H1 as -> ->. split; reflexivity.
Qed.

Theorem vm_prefix_free a b wa wb t1 t2 : addr_wf a -> representable a -> addr_wf b -> representable b ->
  vm_write a = Ok wa -> vm_write b = Ok wb -> wa ++ t1 = wb ++ t2 -> a = b /\ t1 = t2.
Proof.
  intros Ha Ra Hb Rb Wa Wb E.
  destruct (vm_roundtrip (fun _ => true) a t1 Ha Ra (fun _ _ _ => eq_refl)) as (w1 & W1 & H1).
  destruct (vm_roundtrip (fun _ => true) b t2 Hb Rb (fun _ _ _ => eq_refl)) as (w2 & W2 & H2).
  rewrite Wa in W1. injection W1 as <-. rewrite Wb in W2. injection W2 as <-.
  rewrite E, H2 in H1. injection H1 as -> ->. split; reflexivity.
Qed.
