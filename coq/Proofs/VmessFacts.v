(* VMess AEAD (Model/Vmess.v): credential and freshness, response binding, body round trip, segmentation
   independence under FramedRead, nonce discipline.  Companion of Proofs/VmessSafety.v (no-panic, error classes,
   the toy primitives ToyVmess.toyV).  Nothing here is `_partial`; premises on the primitives are explicit
   hypotheses (never axioms) and are jointly satisfiable (Module ToyFacts instantiates every theorem).

   1. Credential / freshness / response binding (Section VmessCredential, no premise unless stated)
      vmess_requires_user        server_vdecode P now keys SInit src = Ok (st', r, Some it) ->
                                 exists key hb rest h s, In key keys /\ auth_id_match1 P now (takeN 16 src) key = true /\
                                   open_header P key src = Ok (Some (hb, rest)) /\ parse_header hb = Ok (h, s) /\
                                   exists b', st' = SReady h s b'
      vmess_ready_requires_user  the same for every transition SInit -> SReady (also without an item)
      open_header_opened         open_header Ok (Some ..) = both p_open calls succeeded under kdf(key, authid, cnonce)
      vmess_no_user_no_service   with keys = [] the server only waits or answers EBadUser
      auth_window_exact          auth_id_match1 now authid key = true <->
                                   CRC field matches /\ |signed64(be first 8 bytes) - now| <= 120   (after AES-decrypt)
      auth_id_created_match      [aes_dec (aes_enc b) = b, crc32 < 2^32, lenN rnd4 = 4, ts < 2^63]
                                 auth_id_match1 P now (auth_id_create P key ts rnd4) key = (|ts - now| <=? 120)
      auth_window_accept_120_late/early, auth_window_reject_121_late/early, auth_window_iff, stale_auth_id_refused
      response_bound_to_request  client_vdecode P h s None src = Ok (Some b, r, it) -> both response-header p_open calls
                                 succeeded under kdf(resp_key s)/kdf(resp_iv s) and the opened header starts with vs_v s
      response_wrong_byte_refused  an opened response header with another first byte (or empty) -> Err EBadAuth
      resp_keys_of_request       resp_key / resp_iv depend on the request key / iv only
   2. Generic FramedRead-vs-unit-machine theory (Section FramedCanon): seg_independent, seg_two_segmentations,
      seg_no_livelock_no_panic from ONE hypothesis (one poll = one run of the unit machine).
   3. The VMess body decoder against its unit machine (Section VmessCanon; premise vm_lens P only)
      unit = size field (2 or 18 bytes) | `len` bytes; `norm` = draw the padding of a BPadding state (a state
      transition without input); wf = BBody lengths are > 0 (true of every reachable state; every BPadding state
      and so every body_new is wf)
      decode_payload_v_is_canon            decode_payload_v = the unit machine from the normalised state
      vmess_body_segmentation_independent  (stream) same plaintext, same leftover, same final state up to `norm`
                                           (packet mode draws the padding lazily, stream mode eagerly; two runs can
                                           only differ in whether the draw has been made), = the unit machine;
                                           failures: all fail with EAead, released plaintext is a prefix of what
                                           precedes the failing chunk; never Livelock / Panicked; no stall
                                           (Framed.feed .. [] after Waiting yields nothing and keeps the buffer)
      vmess_body_two_segmentations, vmess_body_no_livelock_no_panic
      vmess_packet_segmentation_independent (packet) the same with LISTS of datagrams (items1 = items2 = o3)
      vmess_packet_two_segmentations, vmess_packet_no_livelock_no_panic
      server_ready_tcp/udp, client_ready_tcp/udp   the established codec phases ARE vbody_dec / vpkt_dec
   4. Body round trip (Section VmessRoundtrip; premises prim_laws P, lenN (shake128 seed n) = n, wf_bytes (shake128 ..))
      body_roundtrip_stream_tail / body_roundtrip_stream / body_new_roundtrip_stream
      body_roundtrip_packet_tail / body_roundtrip_packet / body_new_roundtrip_packet, encode_packet_v_too_big
      (full statements in the comments in front of the theorems), norm_fields
   5. Nonce discipline (Section VmessNonces, no premise)
      encode_chunk_seals / encode_chunk_fields   the p_seal calls of one chunk and how the generators advance
      pay_trace_nth, size_trace_nth               i-th seal uses vnonce (counting_next^i count) iv
      pay_nonces_distinct, size_nonces_distinct, body_new_pay_nonces_distinct   first 65536 seals: distinct nonces
      pay_nonce_wraps                             seal 65536 reuses the nonce of seal 0 (same key)
      auth_len_key_nonce_shared, auth_len_first_chunks_collide   KNOWN FINDING, stated exactly, with witnesses
   6. Module ToyFacts: instantiations and concrete exchanges (vm_compute). *)
From Coq Require Import List NArith ZArith Lia Bool Arith ZifyBool ZifyN ZifyNat.
From Octo Require Import Base.Bytes Crypto.Prims Model.NonceGen Model.Utf8 Model.Address Model.SsTcp Model.Vmess
                         Lib.Framed Lib.Canon Proofs.NonceFacts Proofs.AddressFacts Proofs.VmessSafety.
Import ListNotations.
Open Scope N_scope.
Ltac Zify.zify_post_hook ::= Z.div_mod_to_equations.
Set Warnings "-abstract-large-number".

(* ====================================================================================================== *)
(* 1. Credential, freshness window, response binding                                                      *)
(* ====================================================================================================== *)
Section VmessCredential.
  Variable P : prims.

  (* what a successful open_header means: both AEAD openings succeeded under keys derived from [key] *)
  Lemma open_header_opened : forall key src hb rest, open_header P key src = Ok (Some (hb, rest)) ->
    let authid := takeN 16 src in let cnonce := takeN 8 (dropN 34 src) in
    exists lb,
      p_open P 0 (kdf16 P key [str_len_key; authid; cnonce]) (kdf12 P key [str_len_iv; authid; cnonce]) authid
             (takeN 18 (dropN 16 src)) = Some lb /\
      p_open P 0 (kdf16 P key [str_pay_key; authid; cnonce]) (kdf12 P key [str_pay_iv; authid; cnonce]) authid
             (takeN (be lb + 16) (dropN 42 src)) = Some hb /\
      rest = dropN (be lb + 16) (dropN 42 src) /\ 58 <= lenN src.
  Proof.
    intros key src hb rest. unfold open_header.
    destruct (N.ltb_spec (lenN src) (16 + 18 + 8 + 16)) as [|Hs]; [discriminate|].
    destruct (p_open P 0 _ _ _ (takeN 18 (dropN 16 src))) as [lb|] eqn:E1; [|discriminate].
    destruct (negb (lenN lb =? 2)); [discriminate|].
    destruct (lenN (dropN 42 src) <? be lb + 16); [discriminate|].
    destruct (p_open P 0 _ _ _ (takeN (be lb + 16) (dropN 42 src))) as [h|] eqn:E2; [|discriminate].
    intros H. assert (Hh : h = hb /\ dropN (be lb + 16) (dropN 42 src) = rest).
    { apply pair_equal_spec. congruence. }
    destruct Hh as [-> <-]. cbn zeta. exists lb. repeat split; try assumption; lia.
  Qed.

  (* "no relaying without the credential": the first item is only ever released after
     (1) the 16-byte auth id matched one of the configured user keys within the time window, and
     (2) the header was opened (both AEAD layers) under keys derived from THAT user key, and parsed *)
  Theorem vmess_requires_user : forall now keys src st' r it,
    server_vdecode P now keys SInit src = Ok (st', r, Some it) ->
    exists key hb rest h s,
      In key keys /\ auth_id_match1 P now (takeN 16 src) key = true /\
      open_header P key src = Ok (Some (hb, rest)) /\ parse_header hb = Ok (h, s) /\
      (exists b', st' = SReady h s b').
  Proof.
    intros now keys src st' r it. unfold server_vdecode.
    destruct (lenN src <? 16); [discriminate|].
    destruct (auth_id_matching P now (takeN 16 src) keys) as [key|] eqn:EM; [|discriminate].
    unfold auth_id_matching in EM. apply find_some in EM. destruct EM as [Hin Hm].
    destruct (open_header P key src) as [[[hb rest]|]|e|] eqn:EO; cbn [bind]; try discriminate.
    destruct (parse_header hb) as [[h s]|e|] eqn:EP; cbn [bind]; try discriminate.
    intros H. exists key, hb, rest, h, s. repeat split; try assumption.
    destruct (rh_cmd h).
    - destruct (decode_payload_v P _ rest) as [[[b' r'] it']|e|]; cbn [bind] in H; try discriminate.
      exists b'. congruence.
    - destruct (decode_packet_v P _ rest) as [[[b' r'] it']|e|]; cbn [bind] in H; try discriminate.
      exists b'. congruence.
  Qed.

  (* the same for ANY progress out of SInit (also when the first call releases no item) *)
  Theorem vmess_ready_requires_user : forall now keys src h s b r it,
    server_vdecode P now keys SInit src = Ok (SReady h s b, r, it) ->
    exists key hb rest, In key keys /\ auth_id_match1 P now (takeN 16 src) key = true /\
      open_header P key src = Ok (Some (hb, rest)) /\ parse_header hb = Ok (h, s).
  Proof.
    intros now keys src h s b r it. unfold server_vdecode.
    destruct (lenN src <? 16); [discriminate|].
    destruct (auth_id_matching P now (takeN 16 src) keys) as [key|] eqn:EM; [|discriminate].
    unfold auth_id_matching in EM. apply find_some in EM. destruct EM as [Hin Hm].
    destruct (open_header P key src) as [[[hb rest]|]|e|] eqn:EO; cbn [bind]; try discriminate.
    destruct (parse_header hb) as [[h' s']|e|] eqn:EP; cbn [bind]; try discriminate.
    intros H. exists key, hb, rest.
    assert (h' = h /\ s' = s) as [-> ->].
    { destruct (rh_cmd h').
      - destruct (decode_payload_v P _ rest) as [[[b' r'] it']|e|]; cbn [bind] in H; try discriminate.
        split; congruence.
      - destruct (decode_packet_v P _ rest) as [[[b' r'] it']|e|]; cbn [bind] in H; try discriminate.
        split; congruence. }
    repeat split; assumption.
  Qed.

  (* no configured user -> nothing but waiting or EBadUser *)
  Theorem vmess_no_user_no_service : forall now src,
    server_vdecode P now [] SInit src = Ok (SInit, src, None) \/ server_vdecode P now [] SInit src = Err EBadUser.
  Proof. intros now src. unfold server_vdecode. destruct (lenN src <? 16); auto. Qed.

  (* ---- the 120 s window ---- *)
  Theorem auth_window_exact : forall now authid key,
    auth_id_match1 P now authid key = true <->
    let cur := p_aes_dec P (kdf16 P key [str_authid]) authid in
    be (dropN 12 cur) = p_crc32 P (takeN 12 cur) /\
    (Z.abs (signed64 (be (takeN 8 cur)) - Z.of_N now) <= 120)%Z.
  Proof.
    intros now authid key. unfold auth_id_match1. cbn zeta.
    rewrite andb_true_iff, N.eqb_eq, Z.leb_le. reflexivity.
  Qed.

  Lemma lenN_put_u64 v : lenN (put_u64 v) = 8. Proof. apply lenN_put_be. Qed.
  Lemma lenN_put_u32 v : lenN (put_u32 v) = 4. Proof. apply lenN_put_be. Qed.

  Section Created.
    Hypothesis aes_dec_enc : forall k b, p_aes_dec P k (p_aes_enc P k b) = b.
    Hypothesis crc_lt : forall b, p_crc32 P b < 2 ^ 32.

    (* an auth id created at time ts is matched at time now iff |ts - now| <= 120 *)
    Theorem auth_id_created_match : forall key ts rnd4 now, lenN rnd4 = 4 -> ts < 2 ^ 63 ->
      auth_id_match1 P now (auth_id_create P key ts rnd4) key = (Z.abs (Z.of_N ts - Z.of_N now) <=? 120)%Z.
    Proof.
      intros key ts rnd4 now Hr Hts. unfold auth_id_match1, auth_id_create. cbn zeta.
      rewrite aes_dec_enc.
      set (b := put_u64 ts ++ rnd4).
      assert (Hb : lenN b = 12) by (subst b; rewrite lenN_app, lenN_put_u64, Hr; reflexivity).
      rewrite <- Hb at 1 2. rewrite dropN_app_exact, takeN_app_exact.
      unfold put_u32 at 1. rewrite be_put_be by (change (256 ^ 4) with (2 ^ 32); apply crc_lt).
      rewrite N.eqb_refl. cbn [andb].
      subst b. rewrite <- app_assoc. rewrite <- (lenN_put_u64 ts) at 1. rewrite takeN_app_exact.
      unfold put_u64. rewrite be_put_be by (change (256 ^ 8) with (2 ^ 64); lia).
      unfold signed64. destruct (N.ltb_spec ts (2 ^ 63)) as [_|Hc]; [|lia].
      reflexivity.
    Qed.

    (* accepted at exactly 120 s of skew in either direction, refused at 121 s *)
    Corollary auth_window_accept_120_late : forall key ts rnd4, lenN rnd4 = 4 -> ts < 2 ^ 63 ->
      auth_id_match1 P (ts + 120) (auth_id_create P key ts rnd4) key = true.
    Proof. intros key ts rnd4 Hr Hts. rewrite auth_id_created_match by assumption. lia. Qed.
    Corollary auth_window_reject_121_late : forall key ts rnd4, lenN rnd4 = 4 -> ts < 2 ^ 63 ->
      auth_id_match1 P (ts + 121) (auth_id_create P key ts rnd4) key = false.
    Proof. intros key ts rnd4 Hr Hts. rewrite auth_id_created_match by assumption. lia. Qed.
    Corollary auth_window_accept_120_early : forall key now rnd4, lenN rnd4 = 4 -> now + 120 < 2 ^ 63 ->
      auth_id_match1 P now (auth_id_create P key (now + 120) rnd4) key = true.
    Proof. intros key now rnd4 Hr Hts. rewrite auth_id_created_match by assumption. lia. Qed.
    Corollary auth_window_reject_121_early : forall key now rnd4, lenN rnd4 = 4 -> now + 121 < 2 ^ 63 ->
      auth_id_match1 P now (auth_id_create P key (now + 121) rnd4) key = false.
    Proof. intros key now rnd4 Hr Hts. rewrite auth_id_created_match by assumption. lia. Qed.

    (* matched iff the absolute difference is at most VMESS_AUTH_WINDOW *)
    Corollary auth_window_iff : forall key ts rnd4 now, lenN rnd4 = 4 -> ts < 2 ^ 63 ->
      auth_id_match1 P now (auth_id_create P key ts rnd4) key = true <->
      (ts <= now + VMESS_AUTH_WINDOW /\ now <= ts + VMESS_AUTH_WINDOW).
    Proof. intros key ts rnd4 now Hr Hts. rewrite auth_id_created_match by assumption. unfold VMESS_AUTH_WINDOW. lia. Qed.

    (* consequence for the server: outside the window the request of a genuine user is refused with EBadUser
       (when no OTHER configured key happens to match the same 16 bytes) *)
    Corollary stale_auth_id_refused : forall key ts rnd4 now rest, lenN rnd4 = 4 -> ts < 2 ^ 63 ->
      lenN (auth_id_create P key ts rnd4) = 16 ->
      (now + 120 < ts \/ ts + 120 < now) ->
      server_vdecode P now [key] SInit (auth_id_create P key ts rnd4 ++ rest) = Err EBadUser.
    Proof.
      intros key ts rnd4 now rest Hr Hts Hl Hout. unfold server_vdecode.
      rewrite lenN_app, Hl. destruct (N.ltb_spec (16 + lenN rest) 16) as [|_]; [lia|].
      rewrite <- Hl at 1. rewrite takeN_app_exact. unfold auth_id_matching. cbn [find].
      rewrite auth_id_created_match by assumption.
      destruct (Z.leb_spec (Z.abs (Z.of_N ts - Z.of_N now)) 120) as [Hc|_]; [lia|]. reflexivity.
    Qed.
  End Created.

  (* ---- response binding ---- *)
  (* the client creates the body decoder of the response only after opening (both AEAD layers, under keys
     derived from resp_key s / resp_iv s = SHA-256 of the request key / iv) a response header whose first byte
     equals the response-authentication byte vs_v s of the request *)
  Theorem response_bound_to_request : forall h s src b r it,
    client_vdecode P h s None src = Ok (Some b, r, it) ->
    exists lb hb,
      p_open P 0 (kdf16 P (resp_key P s) [str_resp_len_key]) (kdf12 P (resp_iv P s) [str_resp_len_iv]) [] (takeN 18 src) = Some lb /\
      p_open P 0 (kdf16 P (resp_key P s) [str_resp_pay_key]) (kdf12 P (resp_iv P s) [str_resp_pay_iv]) []
             (takeN (be (takeN 2 lb) + 16) (dropN 18 src)) = Some hb /\
      2 <= lenN lb /\ (exists t, hb = vs_v s :: t).
  Proof.
    intros h s src b r it. unfold client_vdecode. destruct src as [|x t]; [discriminate|]. set (src := x :: t).
    destruct (lenN src <? 2 + 16); [discriminate|].
    destruct (p_open P 0 _ _ [] (takeN 18 src)) as [lb|] eqn:E1; [|discriminate].
    unfold get_u16, get_be, split_to. destruct (N.leb_spec 2 (lenN lb)) as [Hlb|]; [|discriminate]. cbn [bind].
    destruct (lenN (dropN 18 src) <? be (takeN 2 lb) + 16); [discriminate|].
    destruct (p_open P 0 _ _ [] (takeN (be (takeN 2 lb) + 16) (dropN 18 src))) as [hb|] eqn:E2; [|discriminate].
    destruct hb as [|v hb']; [discriminate|].
    destruct (N.eqb_spec v (vs_v s)) as [->|]; [|discriminate].
    intros _. exists lb, (vs_v s :: hb'). repeat split; try assumption. exists hb'. reflexivity.
  Qed.

  (* a response header that opens but carries another byte is refused *)
  Theorem response_wrong_byte_refused : forall h s src lb hb,
    18 <= lenN src ->
    p_open P 0 (kdf16 P (resp_key P s) [str_resp_len_key]) (kdf12 P (resp_iv P s) [str_resp_len_iv]) [] (takeN 18 src) = Some lb ->
    2 <= lenN lb -> be (takeN 2 lb) + 16 <= lenN (dropN 18 src) ->
    p_open P 0 (kdf16 P (resp_key P s) [str_resp_pay_key]) (kdf12 P (resp_iv P s) [str_resp_pay_iv]) []
           (takeN (be (takeN 2 lb) + 16) (dropN 18 src)) = Some hb ->
    (forall t, hb <> vs_v s :: t) ->
    client_vdecode P h s None src = Err EBadAuth.
  Proof.
    intros h s src lb hb Hs E1 Hlb Hr E2 Hv. unfold client_vdecode.
    destruct src as [|x t]; [rewrite lenN_nil in Hs; lia|]. set (src := x :: t) in *.
    destruct (N.ltb_spec (lenN src) (2 + 16)) as [|_]; [lia|].
    rewrite E1. unfold get_u16. rewrite get_be_ok by exact Hlb. cbn [bind].
    destruct (N.ltb_spec (lenN (dropN 18 src)) (be (takeN 2 lb) + 16)) as [|_]; [lia|].
    rewrite E2. destruct hb as [|v hb']; [reflexivity|].
    destruct (N.eqb_spec v (vs_v s)) as [->|]; [|reflexivity]. exfalso. apply (Hv hb'). reflexivity.
  Qed.

  (* the response keys are functions of the request key / iv only *)
  Lemma resp_keys_of_request : forall s s', vs_key s = vs_key s' -> vs_iv s = vs_iv s' ->
    resp_key P s = resp_key P s' /\ resp_iv P s = resp_iv P s'.
  Proof. intros s s' Hk Hi. unfold resp_key, resp_iv. rewrite Hk, Hi. auto. Qed.
End VmessCredential.

Print Assumptions open_header_opened.
Print Assumptions vmess_requires_user.
Print Assumptions vmess_ready_requires_user.
Print Assumptions vmess_no_user_no_service.
Print Assumptions auth_window_exact.
Print Assumptions auth_id_created_match.
Print Assumptions auth_window_accept_120_late.
Print Assumptions auth_window_reject_121_late.
Print Assumptions auth_window_accept_120_early.
Print Assumptions auth_window_reject_121_early.
Print Assumptions auth_window_iff.
Print Assumptions stale_auth_id_refused.
Print Assumptions response_bound_to_request.
Print Assumptions response_wrong_byte_refused.

(* ====================================================================================================== *)
(* 2. A decoder under FramedRead against its unit machine: generic part                                   *)
(* ====================================================================================================== *)
Definition lprefix {A} (a b : list A) : Prop := exists t, b = a ++ t.

Section FramedCanon.
  Variables (St A Item : Type).
  Variable dec : St -> bytes -> res (St * bytes * option Item).
  Variable need : St -> bytes -> option nat.
  Variable step : St -> bytes -> option (St * list A).
  Hypothesis need_pos : forall s c n, need s c = Some n -> (0 < n)%nat.
  Hypothesis need_mono : forall s c b n, need s c = Some n -> need s (c ++ b) = Some n.
  Variable norm : St -> St.          (* decoder state -> state of the unit machine *)
  Variable wf : St -> Prop.
  Variable flat : list Item -> list A.
  Hypothesis flat_app : forall a b, flat (a ++ b) = flat a ++ flat b.
  Hypothesis flat_nil : flat [] = [].

  Definition gcrun : St -> bytes -> result St (list A) := Canon.run St (list A) (@app A) [] need step.
  Definition gcrun_segs : St -> bytes -> list bytes -> list A -> result St (list A) :=
    Canon.run_segs St (list A) (@app A) [] need step.

  (* one poll of FramedRead = one run of the unit machine *)
  Hypothesis feed_canon : forall s buf seg, wf s ->
    match gcrun (norm s) (buf ++ seg) with
    | Stop s2 r2 o2 => exists s2' items, Framed.feed _ _ dec s buf seg = (s2', r2, items, Waiting) /\
                                         norm s2' = s2 /\ wf s2' /\ flat items = o2 /\ (o2 = [] -> items = [])
    | Fail o2 => exists s' b' items, Framed.feed _ _ dec s buf seg = (s', b', items, Failed EAead) /\ lprefix (flat items) o2
    end.

  Lemma gcrun_stable s c s' r o : gcrun s c = Stop s' r o -> gcrun s' r = Stop s' r [].
  Proof using need_pos. apply (Canon.run_no_whole_unit St (list A) (@app A) [] need step need_pos). Qed.

  Lemma gcrun_segs_concat segs s : gcrun_segs s [] segs [] = gcrun s (concat segs).
  Proof using need_pos need_mono.
    apply (Canon.run_segs_concat St (list A) (@app A) [] (@app_assoc A) (@app_nil_l A) (@app_nil_r A)
             need step need_pos need_mono).
  Qed.

  Lemma frun_canon : forall segs s buf acc oacc, flat acc = oacc -> wf s ->
    match gcrun_segs (norm s) buf segs oacc with
    | Stop s2 r2 o2 =>
        exists s2' items, Framed.run _ _ dec s buf segs acc = (s2', r2, items, Waiting) /\
                          norm s2' = s2 /\ flat items = o2 /\ wf s2'
    | Fail o2 =>
        exists s' b' items, Framed.run _ _ dec s buf segs acc = (s', b', items, Failed EAead) /\ lprefix (flat items) o2
    end.
  Proof using flat_app feed_canon.
    induction segs as [|seg t IH]; intros s buf acc oacc Hacc Hwf.
    - unfold gcrun_segs. cbn [Canon.run_segs Framed.run]. exists s, acc. auto.
    - unfold gcrun_segs. cbn [Canon.run_segs Framed.run]. fold (gcrun (norm s) (buf ++ seg)).
      pose proof (feed_canon s buf seg Hwf) as HF.
      destruct (gcrun (norm s) (buf ++ seg)) as [s2 r2 o2|o2].
      + destruct HF as (s2' & items & HF & Hn & Hwf2 & Hfl & _). rewrite HF. rewrite <- Hn.
        apply (IH s2' r2 (acc ++ items) (oacc ++ o2)); [|exact Hwf2].
        rewrite flat_app, Hacc, Hfl. reflexivity.
      + destruct HF as (s' & b' & items & HF & Hp). rewrite HF. exists s', b', (acc ++ items). split; [reflexivity|].
        destruct Hp as [u Hu]. exists u. rewrite flat_app, Hacc, Hu. apply app_assoc.
  Qed.

  (* ---- segmentation independence, failure agreement, no Livelock / Panic, no stall ---- *)
  Theorem seg_independent : forall s segs, wf s ->
    match Framed.run _ _ dec s [] segs [], Framed.run _ _ dec s [] [concat segs] [], gcrun (norm s) (concat segs) with
    | (s1, buf1, items1, Waiting), (s2, buf2, items2, Waiting), Stop s3 r3 o3 =>
        norm s1 = s3 /\ norm s2 = s3 /\ buf1 = r3 /\ buf2 = r3 /\ flat items1 = o3 /\ flat items2 = o3 /\ wf s1 /\
        (* no stall: polling again without new bytes releases nothing and leaves the buffer alone *)
        exists s1', Framed.feed _ _ dec s1 buf1 [] = (s1', buf1, [], Waiting) /\ norm s1' = norm s1
    | (_, _, items1, Failed EAead), (_, _, items2, Failed EAead), Fail o3 =>
        lprefix (flat items1) o3 /\ lprefix (flat items2) o3
    | _, _, _ => False
    end.
  Proof using flat_app flat_nil feed_canon need_pos need_mono.
    intros s segs Hwf.
    pose proof (frun_canon segs s [] [] [] flat_nil Hwf) as H1.
    rewrite gcrun_segs_concat in H1.
    pose proof (frun_canon [concat segs] s [] [] [] flat_nil Hwf) as H2.
    unfold gcrun_segs in H2. cbn [Canon.run_segs app] in H2. fold (gcrun (norm s) (concat segs)) in H2.
    destruct (gcrun (norm s) (concat segs)) as [s3 r3 o3|o3] eqn:E.
    - destruct H1 as (s1 & items1 & -> & Hn1 & Hf1 & Hw1).
      destruct H2 as (s2 & items2 & -> & Hn2 & Hf2 & Hw2).
      repeat split; auto.
      pose proof (feed_canon s1 r3 [] Hw1) as H3. rewrite app_nil_r, Hn1 in H3.
      rewrite (gcrun_stable _ _ _ _ _ E) in H3.
      destruct H3 as (s1' & items & H3 & Hn & _ & _ & Hnil). rewrite (Hnil eq_refl) in H3.
      exists s1'. split; [exact H3|]. rewrite Hn1. exact Hn.
    - destruct H1 as (s1 & b1 & items1 & -> & Hp1).
      destruct H2 as (s2 & b2 & items2 & -> & Hp2). auto.
  Qed.

  Corollary seg_two_segmentations : forall s segs segs', wf s -> concat segs = concat segs' ->
    match Framed.run _ _ dec s [] segs [], Framed.run _ _ dec s [] segs' [] with
    | (s1, buf1, items1, Waiting), (s2, buf2, items2, Waiting) =>
        norm s1 = norm s2 /\ buf1 = buf2 /\ flat items1 = flat items2
    | (_, _, _, Failed EAead), (_, _, _, Failed EAead) => True
    | _, _ => False
    end.
  Proof using flat_app flat_nil feed_canon need_pos need_mono.
    intros s segs segs' Hwf Hc.
    pose proof (seg_independent s segs Hwf) as H. pose proof (seg_independent s segs' Hwf) as H'.
    rewrite <- Hc in H'.
    destruct (Framed.run _ _ dec s [] segs []) as [[[s1 buf1] items1] st1].
    destruct (Framed.run _ _ dec s [] segs' []) as [[[s1' buf1'] items1'] st1'].
    destruct (Framed.run _ _ dec s [] [concat segs] []) as [[[s2 buf2] items2] st2].
    destruct (gcrun (norm s) (concat segs)) as [s3 r3 o3|o3];
      destruct st1 as [|[]| |]; try solve [exfalso; exact H];
      destruct st1' as [|[]| |]; try solve [exfalso; exact H'];
      destruct st2 as [|[]| |]; try solve [exfalso; exact H]; try solve [exfalso; exact H'].
    - destruct H as (E1 & _ & E2 & _ & E3 & _). destruct H' as (E1' & _ & E2' & _ & E3' & _).
      subst. rewrite E1', E3'. auto.
    - exact I.
  Qed.

  (* from any buffer and accumulator, with any segments *)
  Theorem seg_no_livelock_no_panic : forall s buf segs acc, wf s ->
    let '(_, _, _, st) := Framed.run _ _ dec s buf segs acc in st = Waiting \/ st = Failed EAead.
  Proof using flat_app feed_canon.
    intros s buf segs acc Hwf.
    pose proof (frun_canon segs s buf acc (flat acc) eq_refl Hwf) as H.
    destruct (gcrun_segs (norm s) buf segs (flat acc)) as [s2 r2 o2|o2].
    - destruct H as (s2' & items & E & _). rewrite E. left. reflexivity.
    - destruct H as (s' & b' & items & E & _). rewrite E. right. reflexivity.
  Qed.
End FramedCanon.

(* ====================================================================================================== *)
(* 3. The VMess body decoder against its unit machine; segmentation independence (stream and packet mode)  *)
(* ====================================================================================================== *)
Lemma takeN_firstn_le n m (l : bytes) : n <= m -> takeN n (firstn (N.to_nat m) l) = takeN n l.
Proof. intros H. unfold takeN. rewrite firstn_firstn. f_equal. lia. Qed.

Lemma set_state_same b : set_state b (b_state b) = b.
Proof. destruct b; reflexivity. Qed.
Lemma size_bytes_ge b : 2 <= size_bytes b.
Proof. unfold size_bytes, TAG. destruct (b_size b); lia. Qed.

Section VmessCanon.
  Variable P : prims.

  (* a body in state BPadding is equivalent to the one after drawing the padding *)
  Definition norm (b : body) : body :=
    match b_state b with
    | BPadding => set_state (snd (next_padding P b)) (BLength (fst (next_padding P b)))
    | _ => b
    end.
  Definition normal (b : body) : Prop := b_state b <> BPadding.
  (* payload lengths of reachable BBody states are > 0 (a size field of 0 fails at once) *)
  Definition wf (s : body) : Prop := match b_state s with BBody _ len => 0 < len | _ => True end.
  Definition mu (b : body) : nat := match b_state b with BPadding => 3 | BLength _ => 2 | BBody _ _ => 1 end.

  Lemma norm_normal b : normal b -> norm b = b.
  Proof. unfold normal, norm. destruct (b_state b); [intros H; contradiction H; reflexivity|reflexivity|reflexivity]. Qed.
  Lemma norm_is_normal b : normal (norm b).
  Proof. unfold normal, norm. destruct (b_state b) eqn:E; cbn [set_state b_state]; rewrite ?E; discriminate. Qed.
  Lemma norm_idem b : norm (norm b) = norm b.
  Proof. apply norm_normal, norm_is_normal. Qed.
  Lemma wf_norm b : wf b -> wf (norm b).
  Proof. unfold wf, norm. destruct (b_state b) eqn:E; cbn [set_state b_state]; rewrite ?E; auto. Qed.
  Lemma wf_padding b : b_state b = BPadding -> wf b.
  Proof. unfold wf. intros ->. exact I. Qed.

  (* ---- the unit machine: a unit = size field (2 or 18 bytes), then `len` bytes.  Generic in the way a
          decoded payload is turned into output (stream: its bytes; packet: one datagram) ---- *)
  Section Machine.
    Variable A : Type.
    Variable wrap : bytes -> list A.

    Definition need (s : body) (c : bytes) : option nat :=
      match b_state s with
      | BPadding => None
      | BLength _ => Some (N.to_nat (size_bytes s))
      | BBody _ len => if len =? 0 then None else Some (N.to_nat len)
      end.
    Definition step (s : body) (u : bytes) : option (body * list A) :=
      match b_state s with
      | BPadding => None
      | BLength p =>
        match decode_size P s u with
        | Ok (len, b') => if len =? 0 then None else Some (set_state b' (BBody p len), [])
        | _ => None
        end
      | BBody p len =>
        if len <? p + TAG then None else
        match body_open P s (takeN (len - p) u) with
        | (None, _) => None
        | (Some pl, b') => Some (norm (set_state b' BPadding), wrap pl)
        end
      end.

    Lemma need_pos s c n : need s c = Some n -> (0 < n)%nat.
    Proof.
      unfold need. pose proof (size_bytes_ge s) as Hs. destruct (b_state s) as [|p|p len]; [discriminate|intros [= <-]; lia|].
      destruct (N.eqb_spec len 0) as [He|He]; [discriminate|intros [= <-]; lia].
    Qed.
    Lemma need_mono s c b n : need s c = Some n -> need s (c ++ b) = Some n.
    Proof. unfold need. auto. Qed.

    Definition crun : body -> bytes -> result body (list A) := gcrun body A need step.

    Lemma crun_unfold s c :
      crun s c =
      match need s c with
      | Some n =>
        if (n <=? length c)%nat then
          match step s (firstn n c) with
          | Some (s', o) =>
            match crun s' (skipn n c) with
            | Stop s2 r o2 => Stop s2 r (o ++ o2)
            | Fail o2 => Fail (o ++ o2)
            end
          | None => Fail []
          end
        else Stop s c []
      | None => Stop s c []
      end.
    Proof.
      unfold crun, gcrun, Canon.run. cbn [canon].
      destruct (need s c) as [n|] eqn:Hn; [|reflexivity].
      destruct (Nat.leb_spec n (length c)) as [Hle|]; [|reflexivity].
      pose proof (need_pos _ _ _ Hn) as Hp.
      destruct (step s (firstn n c)) as [[s' o]|]; [|reflexivity].
      rewrite (Canon.canon_fuel body (list A) (@app A) [] need step need_pos (length c) (S (length (skipn n c))));
        [reflexivity| |]; rewrite skipn_length; lia.
    Qed.
    Lemma crun_nil s : crun s [] = Stop s [] [].
    Proof. apply (Canon.run_nil body (list A) (@app A) [] need step need_pos). Qed.
    Lemma crun_stable s c s' r o : crun s c = Stop s' r o -> crun s' r = Stop s' r [].
    Proof. apply (gcrun_stable body A need step need_pos). Qed.

    (* the three ways one unit is processed, as rewriting rules *)
    Lemma crun_short_len s p c : b_state s = BLength p -> lenN c < size_bytes s -> crun s c = Stop s c [].
    Proof.
      intros Hs Hc. rewrite crun_unfold. unfold need. rewrite Hs.
      destruct (Nat.leb_spec (N.to_nat (size_bytes s)) (length c)) as [Hle|]; [|reflexivity].
      rewrite lenN_spec in Hc. lia.
    Qed.
    Lemma crun_short_body s p len c : b_state s = BBody p len -> lenN c < len -> crun s c = Stop s c [].
    Proof.
      intros Hs Hc. rewrite crun_unfold. unfold need. rewrite Hs.
      destruct (N.eqb_spec len 0); [reflexivity|].
      destruct (Nat.leb_spec (N.to_nat len) (length c)) as [Hle|]; [|reflexivity].
      rewrite lenN_spec in Hc. lia.
    Qed.
    Lemma crun_len s p c : b_state s = BLength p -> size_bytes s <= lenN c ->
      crun s c = match decode_size P s (takeN (size_bytes s) c) with
                 | Ok (len, b') => if len =? 0 then Fail [] else crun (set_state b' (BBody p len)) (dropN (size_bytes s) c)
                 | _ => Fail []
                 end.
    Proof.
      intros Hs Hc. rewrite crun_unfold. unfold need. rewrite Hs.
      assert ((N.to_nat (size_bytes s) <=? length c)%nat = true) as ->
        by (apply Nat.leb_le; rewrite lenN_spec in Hc; lia).
      unfold step. rewrite Hs. fold (takeN (size_bytes s) c). fold (dropN (size_bytes s) c).
      destruct (decode_size P s (takeN (size_bytes s) c)) as [[len b']|e|]; try reflexivity.
      destruct (len =? 0); [reflexivity|].
      destruct (crun (set_state b' (BBody p len)) (dropN (size_bytes s) c)); reflexivity.
    Qed.
    Lemma crun_body s p len c : b_state s = BBody p len -> 0 < len -> len <= lenN c ->
      crun s c = if len <? p + TAG then Fail [] else
                 match body_open P s (takeN (len - p) c) with
                 | (None, _) => Fail []
                 | (Some pl, b') =>
                   match crun (norm (set_state b' BPadding)) (dropN len c) with
                   | Stop s2 r o2 => Stop s2 r (wrap pl ++ o2)
                   | Fail o2 => Fail (wrap pl ++ o2)
                   end
                 end.
    Proof.
      intros Hs Hl Hc. rewrite crun_unfold. unfold need. rewrite Hs.
      destruct (N.eqb_spec len 0) as [|_]; [lia|].
      assert ((N.to_nat len <=? length c)%nat = true) as ->
        by (apply Nat.leb_le; rewrite lenN_spec in Hc; lia).
      unfold step. rewrite Hs. destruct (N.ltb_spec len (p + TAG)) as [|Hlp]; [reflexivity|].
      rewrite takeN_firstn_le by lia. fold (dropN len c).
      destruct (body_open P s (takeN (len - p) c)) as [[pl|] b']; reflexivity.
    Qed.
  End Machine.

  Definition crunS := crun N (fun pl => pl).           (* stream: output = plaintext bytes *)
  Definition crunP := crun bytes (fun pl => [pl]).     (* packet: output = list of datagrams *)

  (* ---- the decode loop in stream mode is the unit machine ---- *)
  Lemma loop_is_canon : vm_lens P -> forall fuel b src dst, wf b -> (3 * length src + mu b <= fuel)%nat ->
    match vdec_loop P fuel false b src dst, crunS (norm b) src with
    | Ok (b1, r1, d1, g), Stop s2 r2 o2 => b1 = s2 /\ r1 = r2 /\ d1 = dst ++ o2 /\ g = false /\ wf b1 /\ normal b1
    | Err e, Fail _ => e = EAead
    | _, _ => False
    end.
  Proof.
    intros HL. induction fuel as [|f IH]; intros b src dst Hwf Hfuel.
    { exfalso. unfold mu in Hfuel. destruct (b_state b); lia. }
    cbn [vdec_loop]. unfold mu in Hfuel. pose proof Hwf as Hwf0. unfold wf in Hwf. destruct (b_state b) as [|p|p len] eqn:ES.
    - (* BPadding: a state transition without input *)
      assert (Hn : norm b = set_state (snd (next_padding P b)) (BLength (fst (next_padding P b)))).
      { unfold norm. rewrite ES. reflexivity. }
      destruct (next_padding P b) as [p b'] eqn:EN. cbn [fst snd] in Hn. rewrite Hn.
      specialize (IH (set_state b' (BLength p)) src dst I).
      rewrite (norm_normal (set_state b' (BLength p))) in IH by (unfold normal; cbn [set_state b_state]; discriminate).
      apply IH. unfold mu. cbn [set_state b_state]. lia.
    - assert (Hnb : normal b) by (unfold normal; rewrite ES; discriminate).
      rewrite (norm_normal b Hnb). unfold crunS.
      pose proof (size_bytes_ge b) as Hsb.
      destruct (N.ltb_spec (lenN src) (size_bytes b)) as [Hs|Hs].
      + rewrite (crun_short_len _ _ b p src ES Hs). rewrite app_nil_r. auto 10.
      + rewrite (crun_len _ _ b p src ES Hs).
        pose proof (decode_size_cases P HL b (takeN (size_bytes b) src) (lenN_takeN _ _ Hs)) as HD.
        destruct (decode_size P b (takeN (size_bytes b) src)) as [[len b']|e|]; cbn [bind]; [|exact HD|exact HD].
        destruct (N.eqb_spec len 0) as [->|Hlen].
        * destruct f as [|f]; [lia|]. cbn [vdec_loop set_state b_state].
          destruct (N.ltb_spec (lenN (dropN (size_bytes b) src)) 0) as [|_]; [lia|].
          destruct (N.ltb_spec 0 (p + TAG)) as [_|Hc]; [reflexivity|unfold TAG in Hc; lia].
        * assert (Hn' : normal (set_state b' (BBody p len))) by (unfold normal; cbn [set_state b_state]; discriminate).
          specialize (IH (set_state b' (BBody p len)) (dropN (size_bytes b) src) dst).
          rewrite (norm_normal _ Hn') in IH.
          assert (Hw : wf (set_state b' (BBody p len))) by (unfold wf; cbn [set_state b_state]; lia).
          assert (Hf : (3 * length (dropN (size_bytes b) src) + mu (set_state b' (BBody p len)) <= f)%nat).
          { unfold mu, dropN. cbn [set_state b_state]. rewrite skipn_length. rewrite lenN_spec in Hs. lia. }
          exact (IH Hw Hf).
    - assert (Hnb : normal b) by (unfold normal; rewrite ES; discriminate).
      rewrite (norm_normal b Hnb). unfold crunS.
      destruct (N.ltb_spec (lenN src) len) as [Hs|Hs].
      + rewrite (crun_short_body _ _ b p len src ES Hs). rewrite app_nil_r. auto 10.
      + rewrite (crun_body _ _ b p len src ES Hwf Hs).
        destruct (N.ltb_spec len (p + TAG)) as [|Hlp]; [reflexivity|].
        destruct (body_open P b (takeN (len - p) src)) as [[pl|] b']; [|reflexivity].
        specialize (IH (set_state b' BPadding) (dropN len src) (dst ++ pl) (wf_padding (set_state b' BPadding) eq_refl)).
        assert (Hf : (3 * length (dropN len src) + mu (set_state b' BPadding) <= f)%nat).
        { unfold mu, dropN. cbn [set_state b_state]. rewrite skipn_length. rewrite lenN_spec in Hs. lia. }
        specialize (IH Hf). fold crunS.
        destruct (vdec_loop P f false (set_state b' BPadding) (dropN len src) (dst ++ pl)) as [[[[b1 r1] d1] g]|e|];
        destruct (crunS (norm (set_state b' BPadding)) (dropN len src)) as [s2 r2 o2|o2];
        try contradiction; try exact IH.
        destruct IH as (I1 & I2 & I3 & I4). subst. rewrite <- app_assoc. auto.
  Qed.

  (* decode_payload_v = the unit machine (from the normalised state) *)
  Theorem decode_payload_v_is_canon : vm_lens P -> forall b src, wf b ->
    match decode_payload_v P b src, crunS (norm b) src with
    | Ok (b1, r1, it), Stop s2 r2 o2 => b1 = s2 /\ r1 = r2 /\ it = match o2 with [] => None | _ => Some o2 end /\ wf b1 /\ normal b1
    | Err e, Fail _ => e = EAead
    | _, _ => False
    end.
  Proof.
    intros HL b src Hwf. unfold decode_payload_v.
    assert (Hf : (3 * length src + mu b <= 3 * S (length src))%nat) by (unfold mu; destruct (b_state b); lia).
    pose proof (loop_is_canon HL (3 * S (length src)) b src [] Hwf Hf) as H.
    destruct (vdec_loop P (3 * S (length src)) false b src []) as [[[[b1 r1] d1] g]|e|];
    destruct (crunS (norm b) src) as [s2 r2 o2|o2]; try contradiction; cbn [bind]; [|exact H].
    destruct H as (H1 & H2 & H3 & H4 & H5 & H6). cbn [app] in H3. subst. auto.
  Qed.

  (* ---- the decode loop in packet mode: one call = the units up to and including the next datagram ---- *)
  Lemma pkt_loop_canon : vm_lens P -> forall fuel b src dst, wf b -> (3 * length src + mu b <= fuel)%nat ->
    match vdec_loop P fuel true b src dst with
    | Ok (b1, r1, d1, true) =>
        b_state b1 = BPadding /\ (length r1 < length src)%nat /\
        crunP (norm b) src = match crunP (norm b1) r1 with
                             | Stop s2 r o2 => Stop s2 r (d1 :: o2)
                             | Fail o2 => Fail (d1 :: o2)
                             end
    | Ok (b1, r1, d1, false) => crunP (norm b) src = Stop b1 r1 [] /\ wf b1 /\ normal b1
    | Err e => e = EAead /\ crunP (norm b) src = Fail []
    | Panic => False
    end.
  Proof.
    intros HL. induction fuel as [|f IH]; intros b src dst Hwf Hfuel.
    { exfalso. unfold mu in Hfuel. destruct (b_state b); lia. }
    cbn [vdec_loop]. unfold mu in Hfuel. pose proof Hwf as Hwf0. unfold wf in Hwf. destruct (b_state b) as [|p|p len] eqn:ES.
    - assert (Hn : norm b = set_state (snd (next_padding P b)) (BLength (fst (next_padding P b)))).
      { unfold norm. rewrite ES. reflexivity. }
      destruct (next_padding P b) as [p b'] eqn:EN. cbn [fst snd] in Hn. rewrite Hn.
      specialize (IH (set_state b' (BLength p)) src dst I).
      rewrite (norm_normal (set_state b' (BLength p))) in IH by (unfold normal; cbn [set_state b_state]; discriminate).
      apply IH. unfold mu. cbn [set_state b_state]. lia.
    - assert (Hnb : normal b) by (unfold normal; rewrite ES; discriminate).
      rewrite (norm_normal b Hnb). unfold crunP.
      pose proof (size_bytes_ge b) as Hsb.
      destruct (N.ltb_spec (lenN src) (size_bytes b)) as [Hs|Hs].
      + rewrite (crun_short_len _ _ b p src ES Hs). auto.
      + rewrite (crun_len _ _ b p src ES Hs).
        pose proof (decode_size_cases P HL b (takeN (size_bytes b) src) (lenN_takeN _ _ Hs)) as HD.
        destruct (decode_size P b (takeN (size_bytes b) src)) as [[len b']|e|]; cbn [bind]; [|auto|exact HD].
        destruct (N.eqb_spec len 0) as [->|Hlen].
        * destruct f as [|f]; [lia|]. cbn [vdec_loop set_state b_state].
          destruct (N.ltb_spec (lenN (dropN (size_bytes b) src)) 0) as [|_]; [lia|].
          destruct (N.ltb_spec 0 (p + TAG)) as [_|Hc]; [auto|unfold TAG in Hc; lia].
        * assert (Hn' : normal (set_state b' (BBody p len))) by (unfold normal; cbn [set_state b_state]; discriminate).
          specialize (IH (set_state b' (BBody p len)) (dropN (size_bytes b) src) dst).
          rewrite (norm_normal _ Hn') in IH.
          assert (Hw : wf (set_state b' (BBody p len))) by (unfold wf; cbn [set_state b_state]; lia).
          assert (Hf : (3 * length (dropN (size_bytes b) src) + mu (set_state b' (BBody p len)) <= f)%nat).
          { unfold mu, dropN. cbn [set_state b_state]. rewrite skipn_length. rewrite lenN_spec in Hs. lia. }
          specialize (IH Hw Hf). fold crunP. unfold crunP in IH at 1 3 4. 
          destruct (vdec_loop P f true (set_state b' (BBody p len)) (dropN (size_bytes b) src) dst) as [[[[b1 r1] d1] [|]]|e|];
            [| exact IH | exact IH |contradiction].
          destruct IH as (I1 & I2 & I3). split; [exact I1|]. split; [|exact I3].
          unfold dropN in I2. rewrite skipn_length in I2. lia.
    - assert (Hnb : normal b) by (unfold normal; rewrite ES; discriminate).
      rewrite (norm_normal b Hnb). unfold crunP.
      destruct (N.ltb_spec (lenN src) len) as [Hs|Hs].
      + rewrite (crun_short_body _ _ b p len src ES Hs). auto.
      + rewrite (crun_body _ _ b p len src ES Hwf Hs).
        destruct (N.ltb_spec len (p + TAG)) as [|Hlp]; [auto|].
        destruct (body_open P b (takeN (len - p) src)) as [[pl|] b']; [|auto].
        split; [reflexivity|]. split; [|reflexivity].
        unfold dropN. rewrite skipn_length. rewrite lenN_spec in Hs. lia.
  Qed.

  (* ====================== FramedRead level ====================== *)
  (* the decoders as FramedRead sees them: the codecs return at once (no item, state untouched) on an empty buffer *)
  Definition vbody_dec (b : body) (src : bytes) : res (body * bytes * option bytes) :=
    match src with [] => Ok (b, src, None) | _ => decode_payload_v P b src end.
  Definition vpkt_dec (b : body) (src : bytes) : res (body * bytes * option bytes) :=
    match src with [] => Ok (b, src, None) | _ => decode_packet_v P b src end.

  Definition item_of (o : bytes) : option bytes := match o with [] => None | _ => Some o end.
  Definition items_of (o : bytes) : list bytes := match o with [] => [] | _ => [o] end.
  Lemma concat_items_of o : concat (items_of o) = o.
  Proof. destruct o as [|x t]; [reflexivity|]. unfold items_of. cbn [concat]. apply app_nil_r. Qed.

  (* ---- stream ---- *)
  Lemma vbody_dec_canon : vm_lens P -> forall s buf, wf s ->
    match crunS (norm s) buf with
    | Stop s2 r2 o2 => exists s2', vbody_dec s buf = Ok (s2', r2, item_of o2) /\ norm s2' = s2 /\ wf s2'
    | Fail _ => vbody_dec s buf = Err EAead
    end.
  Proof.
    intros HL s buf Hwf. destruct buf as [|x xs].
    - unfold crunS. rewrite crun_nil. exists s. auto.
    - unfold vbody_dec. set (b := x :: xs).
      pose proof (decode_payload_v_is_canon HL s b Hwf) as H.
      destruct (decode_payload_v P s b) as [[[b1 r1] it]|e|];
      destruct (crunS (norm s) b) as [s2 r2 o2|o2]; try contradiction.
      + destruct H as (H1 & H2 & H3 & H4 & H5). subst. exists s2. split; [reflexivity|].
        split; [apply norm_normal; exact H5|exact H4].
      + subst e. reflexivity.
  Qed.

  Lemma feed_canonS : vm_lens P -> forall s buf seg, wf s ->
    match crunS (norm s) (buf ++ seg) with
    | Stop s2 r2 o2 => exists s2' items, Framed.feed _ _ vbody_dec s buf seg = (s2', r2, items, Waiting) /\
                                         norm s2' = s2 /\ wf s2' /\ concat items = o2 /\ (o2 = [] -> items = [])
    | Fail o2 => exists s' b' items, Framed.feed _ _ vbody_dec s buf seg = (s', b', items, Failed EAead) /\
                                     lprefix (concat items) o2
    end.
  Proof.
    intros HL s buf seg Hwf. unfold Framed.feed. cbn [Nat.add]. cbn [Framed.drain].
    pose proof (vbody_dec_canon HL s (buf ++ seg) Hwf) as H.
    destruct (crunS (norm s) (buf ++ seg)) as [s2 r2 o2|o2] eqn:E.
    - destruct H as (s2' & H & Hn & Hw). rewrite H.
      destruct o2 as [|y ys]; cbn [item_of].
      + exists s2', []. auto.
      + pose proof (vbody_dec_canon HL s2' r2 Hw) as H2. rewrite Hn in H2.
        unfold crunS in E, H2. rewrite (crun_stable _ _ _ _ _ _ _ E) in H2.
        destruct H2 as (s2'' & H2 & Hn2 & Hw2). rewrite H2. cbn [item_of app].
        exists s2'', [y :: ys]. repeat split; auto.
        * cbn [concat]. apply app_nil_r.
        * discriminate.
    - rewrite H. exists s, (buf ++ seg), []. split; [reflexivity|]. exists o2. reflexivity.
  Qed.

  (* the established VMess body stream (TCP): same plaintext, same final state (up to the eager/lazy padding
     draw: compared through `norm`), same leftover for every segmentation; failures agree (EAead, released
     plaintext is a prefix of what precedes the failing chunk); never Livelock/Panic; no stall *)
  Theorem vmess_body_segmentation_independent : vm_lens P -> forall s segs, wf s ->
    match Framed.run _ _ vbody_dec s [] segs [], Framed.run _ _ vbody_dec s [] [concat segs] [], crunS (norm s) (concat segs) with
    | (s1, buf1, items1, Waiting), (s2, buf2, items2, Waiting), Stop s3 r3 o3 =>
        norm s1 = s3 /\ norm s2 = s3 /\ buf1 = r3 /\ buf2 = r3 /\ concat items1 = o3 /\ concat items2 = o3 /\ wf s1 /\
        exists s1', Framed.feed _ _ vbody_dec s1 buf1 [] = (s1', buf1, [], Waiting) /\ norm s1' = norm s1
    | (_, _, items1, Failed EAead), (_, _, items2, Failed EAead), Fail o3 =>
        lprefix (concat items1) o3 /\ lprefix (concat items2) o3
    | _, _, _ => False
    end.
  Proof.
    intros HL.
    exact (seg_independent body N bytes vbody_dec need (step N (fun pl => pl)) (need_pos N (fun pl => pl)) need_mono norm wf
                           (@concat N) (@concat_app N) eq_refl (feed_canonS HL)).
  Qed.

  Theorem vmess_body_two_segmentations : vm_lens P -> forall s segs segs', wf s -> concat segs = concat segs' ->
    match Framed.run _ _ vbody_dec s [] segs [], Framed.run _ _ vbody_dec s [] segs' [] with
    | (s1, buf1, items1, Waiting), (s2, buf2, items2, Waiting) =>
        norm s1 = norm s2 /\ buf1 = buf2 /\ concat items1 = concat items2
    | (_, _, _, Failed EAead), (_, _, _, Failed EAead) => True
    | _, _ => False
    end.
  Proof.
    intros HL.
    exact (seg_two_segmentations body N bytes vbody_dec need (step N (fun pl => pl)) (need_pos N (fun pl => pl)) need_mono norm wf
                                 (@concat N) (@concat_app N) eq_refl (feed_canonS HL)).
  Qed.

  Theorem vmess_body_no_livelock_no_panic : vm_lens P -> forall s buf segs acc, wf s ->
    let '(_, _, _, st) := Framed.run _ _ vbody_dec s buf segs acc in st = Waiting \/ st = Failed EAead.
  Proof.
    intros HL.
    exact (seg_no_livelock_no_panic body N bytes vbody_dec need (step N (fun pl => pl)) norm wf
                                    (@concat N) (@concat_app N) (feed_canonS HL)).
  Qed.

  (* ---- packet mode ---- *)
  Lemma pkt_drain_canon : vm_lens P -> forall n fuel s buf acc, (length buf <= n)%nat -> wf s -> (2 + length buf <= fuel)%nat ->
    match crunP (norm s) buf with
    | Stop s2 r2 o2 => exists s2', Framed.drain _ _ vpkt_dec fuel s buf acc = (s2', r2, acc ++ o2, Waiting) /\ norm s2' = s2 /\ wf s2'
    | Fail o2 => exists s' b' items, Framed.drain _ _ vpkt_dec fuel s buf acc = (s', b', acc ++ items, Failed EAead) /\ lprefix items o2
    end.
  Proof.
    intros HL. induction n as [|n IH]; intros fuel s buf acc Hn Hwf Hfuel.
    - destruct buf as [|x xs]; [|cbn [length] in Hn; lia].
      destruct fuel as [|fuel]; [lia|]. cbn [Framed.drain vpkt_dec].
      unfold crunP. rewrite crun_nil. exists s. rewrite app_nil_r. auto.
    - destruct fuel as [|fuel]; [lia|]. cbn [Framed.drain].
      destruct buf as [|x xs].
      { cbn [vpkt_dec]. unfold crunP. rewrite crun_nil. exists s. rewrite app_nil_r. auto. }
      change (vpkt_dec s (x :: xs)) with (decode_packet_v P s (x :: xs)). set (b := x :: xs) in *. unfold decode_packet_v.
      assert (Hf : (3 * length b + mu s <= 3 * S (length b))%nat) by (unfold mu; destruct (b_state s); lia).
      pose proof (pkt_loop_canon HL (3 * S (length b)) s b [] Hwf Hf) as H.
      destruct (vdec_loop P (3 * S (length b)) true s b []) as [[[[b1 r1] d1] [|]]|e|]; cbn [bind]; cbv beta iota; [| | |contradiction].
      + destruct H as (H1 & H2 & H3). rewrite H3.
        assert (Hn1 : (length r1 <= n)%nat) by lia.
        assert (Hf1 : (2 + length r1 <= fuel)%nat) by lia.
        specialize (IH fuel b1 r1 (acc ++ [d1]) Hn1 (wf_padding b1 H1) Hf1).
        destruct (crunP (norm b1) r1) as [s2 r2 o2|o2].
        * destruct IH as (s2' & IH & In & Iw). exists s2'. rewrite IH. rewrite <- app_assoc. auto.
        * destruct IH as (s' & b' & items & IH & [u Hu]). exists s', b', (d1 :: items). rewrite IH. rewrite <- app_assoc.
          split; [reflexivity|]. exists u. rewrite Hu. reflexivity.
      + destruct H as (H1 & H2 & H3). rewrite H1. exists b1. rewrite app_nil_r.
        split; [reflexivity|]. split; [apply norm_normal; exact H3|exact H2].
      + destruct H as (-> & H). rewrite H. exists s, b, []. rewrite app_nil_r. split; [reflexivity|]. exists []. reflexivity.
  Qed.

  Lemma feed_canonP : vm_lens P -> forall s buf seg, wf s ->
    match crunP (norm s) (buf ++ seg) with
    | Stop s2 r2 o2 => exists s2' items, Framed.feed _ _ vpkt_dec s buf seg = (s2', r2, items, Waiting) /\
                                         norm s2' = s2 /\ wf s2' /\ items = o2 /\ (o2 = [] -> items = [])
    | Fail o2 => exists s' b' items, Framed.feed _ _ vpkt_dec s buf seg = (s', b', items, Failed EAead) /\ lprefix items o2
    end.
  Proof.
    intros HL s buf seg Hwf. unfold Framed.feed.
    pose proof (pkt_drain_canon HL (length (buf ++ seg)) (2 + length (buf ++ seg)) s (buf ++ seg) [] (le_n _) Hwf (le_n _)) as H.
    destruct (crunP (norm s) (buf ++ seg)) as [s2 r2 o2|o2].
    - destruct H as (s2' & H & Hn & Hw). exists s2', o2. cbn [app] in H. auto.
    - destruct H as (s' & b' & items & H & Hp). exists s', b', items. cbn [app] in H. auto.
  Qed.

  (* the VMess datagram stream (UDP over the TCP tunnel): every segmentation yields the same LIST of datagrams *)
  Theorem vmess_packet_segmentation_independent : vm_lens P -> forall s segs, wf s ->
    match Framed.run _ _ vpkt_dec s [] segs [], Framed.run _ _ vpkt_dec s [] [concat segs] [], crunP (norm s) (concat segs) with
    | (s1, buf1, items1, Waiting), (s2, buf2, items2, Waiting), Stop s3 r3 o3 =>
        norm s1 = s3 /\ norm s2 = s3 /\ buf1 = r3 /\ buf2 = r3 /\ items1 = o3 /\ items2 = o3 /\ wf s1 /\
        exists s1', Framed.feed _ _ vpkt_dec s1 buf1 [] = (s1', buf1, [], Waiting) /\ norm s1' = norm s1
    | (_, _, items1, Failed EAead), (_, _, items2, Failed EAead), Fail o3 =>
        lprefix items1 o3 /\ lprefix items2 o3
    | _, _, _ => False
    end.
  Proof.
    intros HL.
    exact (seg_independent body bytes bytes vpkt_dec need (step bytes (fun pl => [pl])) (need_pos bytes (fun pl => [pl])) need_mono norm wf
                           (fun l => l) (fun a b => eq_refl) eq_refl (feed_canonP HL)).
  Qed.

  Theorem vmess_packet_two_segmentations : vm_lens P -> forall s segs segs', wf s -> concat segs = concat segs' ->
    match Framed.run _ _ vpkt_dec s [] segs [], Framed.run _ _ vpkt_dec s [] segs' [] with
    | (s1, buf1, items1, Waiting), (s2, buf2, items2, Waiting) =>
        norm s1 = norm s2 /\ buf1 = buf2 /\ items1 = items2
    | (_, _, _, Failed EAead), (_, _, _, Failed EAead) => True
    | _, _ => False
    end.
  Proof.
    intros HL.
    exact (seg_two_segmentations body bytes bytes vpkt_dec need (step bytes (fun pl => [pl])) (need_pos bytes (fun pl => [pl])) need_mono norm wf
                                 (fun l => l) (fun a b => eq_refl) eq_refl (feed_canonP HL)).
  Qed.

  Theorem vmess_packet_no_livelock_no_panic : vm_lens P -> forall s buf segs acc, wf s ->
    let '(_, _, _, st) := Framed.run _ _ vpkt_dec s buf segs acc in st = Waiting \/ st = Failed EAead.
  Proof.
    intros HL.
    exact (seg_no_livelock_no_panic body bytes bytes vpkt_dec need (step bytes (fun pl => [pl])) norm wf
                                    (fun l => l) (fun a b => eq_refl) (feed_canonP HL)).
  Qed.

  (* every body created by body_new (any option mask, any security) is a legal start state *)
  Lemma wf_body_new opt sec key iv rk ri : wf (body_new P opt sec key iv rk ri).
  Proof. apply wf_padding. reflexivity. Qed.
End VmessCanon.

(* the established phases of the server and client codecs ARE these FramedRead decoders (so the segmentation
   theorems above apply to server_vdecode from SReady and to client_vdecode from Some b) *)
Section VmessBridge.
  Variable P : prims.
  Lemma server_ready_tcp now keys h s b src : rh_cmd h = CmdTcp ->
    server_vdecode P now keys (SReady h s b) src =
    match vbody_dec P b src with
    | Ok (b', r, it) => Ok (SReady h s b', r, match it with Some d => Some (RelayTcp d) | None => None end)
    | Err e => Err e
    | Panic => Panic
    end.
  Proof.
    intros Hc. unfold server_vdecode, vbody_dec. rewrite Hc. destruct src as [|x t]; [reflexivity|].
    destruct (decode_payload_v P b (x :: t)) as [[[b' r] it]|e|]; reflexivity.
  Qed.
  Lemma server_ready_udp now keys h s b src : rh_cmd h = CmdUdp ->
    server_vdecode P now keys (SReady h s b) src =
    match vpkt_dec P b src with
    | Ok (b', r, it) => Ok (SReady h s b', r, match it with Some d => Some (RelayUdp d (rh_addr h)) | None => None end)
    | Err e => Err e
    | Panic => Panic
    end.
  Proof.
    intros Hc. unfold server_vdecode, vpkt_dec. rewrite Hc. destruct src as [|x t]; [reflexivity|].
    destruct (decode_packet_v P b (x :: t)) as [[[b' r] it]|e|]; reflexivity.
  Qed.
  Lemma client_ready_tcp h s b src : rh_cmd h = CmdTcp ->
    client_vdecode P h s (Some b) src =
    match vbody_dec P b src with Ok (b', r, it) => Ok (Some b', r, it) | Err e => Err e | Panic => Panic end.
  Proof.
    intros Hc. unfold client_vdecode, vbody_dec. rewrite Hc. destruct src as [|x t]; [reflexivity|].
    destruct (decode_payload_v P b (x :: t)) as [[[b' r] it]|e|]; reflexivity.
  Qed.
  Lemma client_ready_udp h s b src : rh_cmd h = CmdUdp ->
    client_vdecode P h s (Some b) src =
    match vpkt_dec P b src with Ok (b', r, it) => Ok (Some b', r, it) | Err e => Err e | Panic => Panic end.
  Proof.
    intros Hc. unfold client_vdecode, vpkt_dec. rewrite Hc. destruct src as [|x t]; [reflexivity|].
    destruct (decode_packet_v P b (x :: t)) as [[[b' r] it]|e|]; reflexivity.
  Qed.
End VmessBridge.

Print Assumptions seg_independent.
Print Assumptions decode_payload_v_is_canon.
Print Assumptions vmess_body_segmentation_independent.
Print Assumptions vmess_body_two_segmentations.
Print Assumptions vmess_body_no_livelock_no_panic.
Print Assumptions vmess_packet_segmentation_independent.
Print Assumptions vmess_packet_two_segmentations.
Print Assumptions vmess_packet_no_livelock_no_panic.

(* ====================================================================================================== *)
(* 4. Body round trip (stream and packet mode) under the AEAD laws                                         *)
(* ====================================================================================================== *)
Lemma lenN_repeat x n : lenN (repeat x n) = N.of_nat n.
Proof. rewrite lenN_spec, repeat_length. reflexivity. Qed.

Lemma be_lt : forall l, wf_bytes l -> be l < 256 ^ lenN l.
Proof.
  induction l as [|x l IH] using rev_ind; intros Hw.
  - cbn. lia.
  - apply Forall_app in Hw. destruct Hw as [Hl Hx]. inversion Hx as [|? ? Hx256 _]; subst.
    rewrite be_app, lenN_app. change (lenN [x]) with 1. change (be [x]) with (0 * 256 + x).
    specialize (IH Hl). rewrite N.pow_add_r. change (256 ^ 1) with 256. nia.
Qed.

Lemma wf_bytes_dropN n l : wf_bytes l -> wf_bytes (dropN n l).
Proof. intros H. rewrite <- (take_drop n l) in H. apply Forall_app in H. tauto. Qed.

Lemma lxor_lt_65536 a b : a < 65536 -> b < 65536 -> N.lxor a b < 65536.
Proof.
  intros Ha Hb. destruct (N.eq_dec (N.lxor a b) 0) as [->|Hn]; [lia|].
  change 65536 with (2 ^ 16). apply N.log2_lt_pow2; [lia|].
  pose proof (N.log2_lxor a b) as Hl.
  assert (La : N.log2 a < 16).
  { destruct (N.eq_dec a 0) as [->|Ha0]; [cbn; lia|]. apply N.log2_lt_pow2; [lia|exact Ha]. }
  assert (Lb : N.log2 b < 16).
  { destruct (N.eq_dec b 0) as [->|Hb0]; [cbn; lia|]. apply N.log2_lt_pow2; [lia|exact Hb]. }
  lia.
Qed.

Section VmessRoundtrip.
  Variable P : prims.

  (* ---- set_state commutes with everything the codec does ---- *)
  Lemma next_padding_set_state b st :
    next_padding P (set_state b st) = (fst (next_padding P b), set_state (snd (next_padding P b)) st).
  Proof. unfold next_padding, shake_next. cbn [set_state b_pad b_seed b_pos]. destruct (b_pad b); reflexivity. Qed.
  Lemma decode_size_set_state b st data :
    decode_size P (set_state b st) data =
    match decode_size P b data with Ok (v, b') => Ok (v, set_state b' st) | Err e => Err e | Panic => Panic end.
  Proof.
    unfold decode_size, shake_next. cbn [set_state b_size b_cipher b_civ b_seed b_pos].
    destruct (b_size b) as [| |k c]; try reflexivity.
    destruct (p_open P (b_cipher b) k (vnonce c (b_civ b)) [] data) as [pl|]; [|reflexivity].
    destruct (get_u16 pl) as [[v t]|e|]; reflexivity.
  Qed.
  Lemma body_open_set_state b st ct :
    body_open P (set_state b st) ct = (fst (body_open P b ct), set_state (snd (body_open P b ct)) st).
  Proof. reflexivity. Qed.

  Lemma size_bytes_next_padding b : size_bytes (snd (next_padding P b)) = size_bytes b.
  Proof. unfold next_padding, shake_next. destruct (b_pad b); reflexivity. Qed.
  Lemma size_bytes_encode_size b size : size_bytes (snd (encode_size P b size)) = size_bytes b.
  Proof. unfold encode_size, shake_next, size_bytes. destruct (b_size b) eqn:E; cbn [snd set_size b_size]; rewrite ?E; reflexivity. Qed.
  Lemma b_state_next_padding b : b_state (snd (next_padding P b)) = b_state b.
  Proof. unfold next_padding, shake_next. destruct (b_pad b); reflexivity. Qed.
  Lemma b_state_encode_size b size : b_state (snd (encode_size P b size)) = b_state b.
  Proof. unfold encode_size, shake_next. destruct (b_size b); reflexivity. Qed.
  Lemma next_padding_lt b : fst (next_padding P b) < 64.
  Proof. unfold next_padding. destruct (b_pad b); [|cbn; lia]. destruct (shake_next P b) as [v b']. cbn [fst]. lia. Qed.

  (* encode_chunk with its lets made explicit *)
  Definition ec_pad (b : body) : N := fst (next_padding P b).
  Definition ec_esize (b : body) (limit : N) (src : bytes) : N :=
    N.min (lenN src) (limit - TAG - size_bytes b - ec_pad b).
  Definition ec_size (b : body) (limit : N) (src : bytes) : N := ec_esize b limit src + ec_pad b + TAG.
  Definition ec_b2 (b : body) (limit : N) (src : bytes) : body :=
    snd (encode_size P (snd (next_padding P b)) (ec_size b limit src)).
  Lemma encode_chunk_eq b limit src padsrc :
    encode_chunk P b limit src padsrc =
    (fst (encode_size P (snd (next_padding P b)) (ec_size b limit src)) ++
     fst (body_seal P (ec_b2 b limit src) (takeN (ec_esize b limit src) src)) ++
     takeN (ec_pad b) (padsrc ++ repeat 0 (N.to_nat (ec_pad b))),
     snd (body_seal P (ec_b2 b limit src) (takeN (ec_esize b limit src) src)),
     dropN (ec_esize b limit src) src).
  Proof.
    unfold encode_chunk, ec_b2, ec_size, ec_esize, ec_pad.
    destruct (next_padding P b) as [padlen b1]. cbn [fst snd].
    destruct (encode_size P b1 _) as [szb b2]. cbn [fst snd].
    destruct (body_seal P b2 _) as [ct b3]. reflexivity.
  Qed.
  Lemma encode_chunk_state b limit src padsrc : b_state (snd (fst (encode_chunk P b limit src padsrc))) = b_state b.
  Proof.
    rewrite encode_chunk_eq. cbn [fst snd]. unfold body_seal, ec_b2. cbn [snd bump_count b_state].
    rewrite b_state_encode_size, b_state_next_padding. reflexivity.
  Qed.
  Lemma encode_chunk_size_bytes b limit src padsrc : size_bytes (snd (fst (encode_chunk P b limit src padsrc))) = size_bytes b.
  Proof.
    rewrite encode_chunk_eq. cbn [fst snd]. unfold body_seal, ec_b2. cbn [snd].
    change (size_bytes (bump_count ?x)) with (size_bytes x).
    rewrite size_bytes_encode_size, size_bytes_next_padding. reflexivity.
  Qed.

  Section Laws.
    Hypothesis HL : prim_laws P.
    Hypothesis shake_len : forall seed n, lenN (p_shake128 P seed n) = n.
    Hypothesis shake_wf : forall seed n, wf_bytes (p_shake128 P seed n).

    Lemma shake_mask_lt b : fst (shake_next P b) < 65536.
    Proof.
      unfold shake_next. cbn [fst].
      set (out := p_shake128 P (b_seed b) (2 * (b_pos b + 1))).
      pose proof (be_lt (dropN (2 * b_pos b) out) (wf_bytes_dropN _ _ (shake_wf _ _))) as H.
      rewrite lenN_dropN in H. subst out. rewrite shake_len in H.
      replace (2 * (b_pos b + 1) - 2 * b_pos b) with 2 in H by lia. exact H.
    Qed.

    (* the size field round trip, for the three size parsers *)
    Lemma dec_enc_size b size : TAG <= size -> size < 65536 ->
      decode_size P b (fst (encode_size P b size)) = Ok (size, snd (encode_size P b size)) /\
      lenN (fst (encode_size P b size)) = size_bytes b.
    Proof.
      intros H16 Hs. unfold decode_size, encode_size, size_bytes. destruct (b_size b) as [| |k c].
      - cbn [fst snd]. unfold put_u16. rewrite N.mod_small by lia. rewrite lenN_put_be.
        rewrite be_put_be by (change (256 ^ 2) with 65536; lia). auto.
      - pose proof (shake_mask_lt b) as Hm. destruct (shake_next P b) as [m b']. cbn [fst snd] in *.
        rewrite N.mod_small by lia. unfold put_u16. rewrite lenN_put_be.
        rewrite be_put_be by (change (256 ^ 2) with 65536; apply lxor_lt_65536; lia).
        rewrite <- N.lxor_assoc, N.lxor_nilpotent, N.lxor_0_l. auto.
      - cbn [fst snd]. rewrite (open_seal P HL). rewrite (seal_len P HL).
        unfold TAG in *. rewrite N.mod_small by lia.
        rewrite <- (app_nil_r (put_u16 (size - 16))). rewrite get_u16_put by lia. cbn [bind].
        rewrite app_nil_r, lenN_put_u16. replace (size - 16 + 16) with size by lia. auto.
    Qed.

    (* ---- the three decoder steps on what the encoder wrote ---- *)
    Lemma dec_step_pad f packet b src dst :
      vdec_loop P (S f) packet (set_state b BPadding) src dst =
      vdec_loop P f packet (set_state (snd (next_padding P b)) (BLength (fst (next_padding P b)))) src dst.
    Proof.
      cbn [vdec_loop]. change (b_state (set_state b BPadding)) with BPadding. cbv iota.
      rewrite next_padding_set_state. reflexivity.
    Qed.

    Lemma dec_step_len f packet b p size rest dst : TAG <= size -> size < 65536 ->
      vdec_loop P (S f) packet (set_state b (BLength p)) (fst (encode_size P b size) ++ rest) dst =
      vdec_loop P f packet (set_state (snd (encode_size P b size)) (BBody p size)) rest dst.
    Proof.
      intros H16 Hs. destruct (dec_enc_size b size H16 Hs) as [HD HLn].
      cbn [vdec_loop]. change (b_state (set_state b (BLength p))) with (BLength p). cbv iota.
      change (size_bytes (set_state b (BLength p))) with (size_bytes b).
      destruct (N.ltb_spec (lenN (fst (encode_size P b size) ++ rest)) (size_bytes b)) as [Hc|_].
      { rewrite lenN_app in Hc. lia. }
      rewrite <- HLn. rewrite takeN_app_exact, dropN_app_exact.
      rewrite decode_size_set_state, HD. cbn [bind]. reflexivity.
    Qed.

    Lemma dec_step_body f packet b p size pt padb rest dst : size = lenN pt + TAG + p -> lenN padb = p ->
      vdec_loop P (S f) packet (set_state b (BBody p size)) (fst (body_seal P b pt) ++ padb ++ rest) dst =
      if packet then Ok (set_state (snd (body_seal P b pt)) BPadding, rest, pt, true)
      else vdec_loop P f false (set_state (snd (body_seal P b pt)) BPadding) rest (dst ++ pt).
    Proof.
      intros Hsz Hp. cbn [vdec_loop]. change (b_state (set_state b (BBody p size))) with (BBody p size). cbv iota.
      set (ct := fst (body_seal P b pt)).
      assert (Hct : lenN ct = lenN pt + TAG) by (subst ct; unfold body_seal; cbn [fst]; apply (seal_len P HL)).
      destruct (N.ltb_spec (lenN (ct ++ padb ++ rest)) size) as [Hc|_].
      { rewrite !lenN_app in Hc. lia. }
      destruct (N.ltb_spec size (p + TAG)) as [Hc|_]; [lia|].
      replace (size - p) with (lenN ct) by lia. rewrite takeN_app_exact.
      rewrite body_open_set_state.
      assert (HO : body_open P b ct = (Some pt, snd (body_seal P b pt))).
      { subst ct. unfold body_open, body_seal. cbn [fst snd]. rewrite (open_seal P HL). reflexivity. }
      rewrite HO. cbn [fst snd].
      assert (HDr : dropN size (ct ++ padb ++ rest) = rest).
      { rewrite app_assoc. replace size with (lenN (ct ++ padb)) by (rewrite lenN_app; lia). apply dropN_app_exact. }
      rewrite HDr. destruct packet; reflexivity.
    Qed.

    (* one whole chunk *)
    Lemma dec_chunk f packet b limit src padsrc tail dst : ec_size b limit src < 65536 ->
      vdec_loop P (S (S (S f))) packet (set_state b BPadding) (fst (fst (encode_chunk P b limit src padsrc)) ++ tail) dst =
      if packet then Ok (set_state (snd (fst (encode_chunk P b limit src padsrc))) BPadding, tail,
                         takeN (ec_esize b limit src) src, true)
      else vdec_loop P f false (set_state (snd (fst (encode_chunk P b limit src padsrc))) BPadding) tail
                     (dst ++ takeN (ec_esize b limit src) src).
    Proof.
      intros Hs. rewrite encode_chunk_eq. cbn [fst snd]. rewrite <- !app_assoc.
      rewrite dec_step_pad. fold (ec_pad b).
      rewrite dec_step_len by (unfold ec_size, TAG in *; lia). fold (ec_b2 b limit src).
      assert (He : ec_esize b limit src <= lenN src) by (unfold ec_esize; lia).
      apply dec_step_body.
      - rewrite lenN_takeN by exact He. unfold ec_size. lia.
      - apply lenN_takeN. rewrite lenN_app, lenN_repeat. lia.
    Qed.

    Lemma dec_stop f b p tail dst : lenN tail < size_bytes b ->
      vdec_loop P (S f) false (set_state b (BLength p)) tail dst = Ok (set_state b (BLength p), tail, dst, false).
    Proof.
      intros Ht. cbn [vdec_loop]. change (b_state (set_state b (BLength p))) with (BLength p). cbv iota.
      change (size_bytes (set_state b (BLength p))) with (size_bytes b).
      destruct (N.ltb_spec (lenN tail) (size_bytes b)) as [_|Hc]; [reflexivity|lia].
    Qed.

    (* ---- stream mode: induction over the chunks ---- *)
    Lemma encode_payload_v_cons f b x t padsrc :
      encode_payload_v P (S f) b (x :: t) padsrc =
      (fst (fst (encode_chunk P b VMESS_PAYLOAD_LIMIT (x :: t) padsrc)) ++
       fst (encode_payload_v P f (snd (fst (encode_chunk P b VMESS_PAYLOAD_LIMIT (x :: t) padsrc)))
                             (snd (encode_chunk P b VMESS_PAYLOAD_LIMIT (x :: t) padsrc)) padsrc),
       snd (encode_payload_v P f (snd (fst (encode_chunk P b VMESS_PAYLOAD_LIMIT (x :: t) padsrc)))
                             (snd (encode_chunk P b VMESS_PAYLOAD_LIMIT (x :: t) padsrc)) padsrc)).
    Proof.
      cbn [encode_payload_v]. destruct (encode_chunk P b VMESS_PAYLOAD_LIMIT (x :: t) padsrc) as [[out b'] rest].
      cbn [fst snd]. destruct (encode_payload_v P f b' rest padsrc) as [out2 b'']. reflexivity.
    Qed.

    Lemma stream_esize b src : src <> [] ->
      1 <= ec_esize b VMESS_PAYLOAD_LIMIT src /\ ec_size b VMESS_PAYLOAD_LIMIT src < 65536.
    Proof.
      intros Hne. unfold ec_size, ec_esize, ec_pad, VMESS_PAYLOAD_LIMIT, TAG.
      pose proof (next_padding_lt b) as Hp. pose proof (size_bytes_le b) as Hsb.
      assert (1 <= lenN src) by (destruct src; [contradiction|rewrite lenN_cons; lia]). lia.
    Qed.

    Lemma dec_enc_stream : forall fe b src padsrc tail dst fd,
      (length src <= fe)%nat -> lenN tail < size_bytes b ->
      (3 * length (fst (encode_payload_v P fe b src padsrc)) + 2 <= fd)%nat ->
      vdec_loop P fd false (set_state b BPadding) (fst (encode_payload_v P fe b src padsrc) ++ tail) dst =
      Ok (norm P (set_state (snd (encode_payload_v P fe b src padsrc)) BPadding), tail, dst ++ src, false).
    Proof.
      assert (Hbase : forall b tail dst fd, lenN tail < size_bytes b -> (2 <= fd)%nat ->
                vdec_loop P fd false (set_state b BPadding) tail dst = Ok (norm P (set_state b BPadding), tail, dst, false)).
      { intros b tail dst fd Ht Hfd. destruct fd as [|[|fd]]; [lia|lia|].
        rewrite dec_step_pad. rewrite dec_stop by (rewrite size_bytes_next_padding; exact Ht).
        unfold norm. cbn [set_state b_state]. rewrite next_padding_set_state. reflexivity. }
      induction fe as [|f IH]; intros b src padsrc tail dst fd Hfe Ht Hfd.
      - destruct src as [|x t]; [|cbn [length] in Hfe; lia].
        cbn [encode_payload_v fst snd app] in *. rewrite app_nil_r. apply Hbase; [exact Ht|lia].
      - destruct src as [|x t].
        + cbn [encode_payload_v fst snd app] in *. rewrite app_nil_r. apply Hbase; [exact Ht|lia].
        + rewrite encode_payload_v_cons in *. cbn [fst snd] in *.
          destruct (stream_esize b (x :: t) ltac:(discriminate)) as [He1 Hsz].
          set (src := x :: t) in *.
          pose proof (encode_chunk_eq b VMESS_PAYLOAD_LIMIT src padsrc) as Heq.
          set (ec := encode_chunk P b VMESS_PAYLOAD_LIMIT src padsrc) in *.
          assert (Hrest : snd ec = dropN (ec_esize b VMESS_PAYLOAD_LIMIT src) src) by (rewrite Heq; reflexivity).
          assert (Hout : (1 <= length (fst (fst ec)))%nat).
          { rewrite Heq. cbn [fst]. rewrite !app_length.
            pose proof (proj2 (dec_enc_size (snd (next_padding P b)) (ec_size b VMESS_PAYLOAD_LIMIT src)
                                            ltac:(unfold ec_size, TAG; lia) Hsz)) as Hl.
            rewrite size_bytes_next_padding in Hl. pose proof (size_bytes_ge b) as Hge.
            rewrite lenN_spec in Hl. lia. }
          rewrite app_length in Hfd.
          destruct fd as [|[|[|fd]]]; [lia|lia|lia|].
          rewrite <- app_assoc. rewrite (dec_chunk fd false b VMESS_PAYLOAD_LIMIT src padsrc _ dst Hsz).
          fold ec. rewrite IH.
          * rewrite <- app_assoc. rewrite Hrest, take_drop. reflexivity.
          * rewrite Hrest. unfold dropN. rewrite skipn_length. subst src. cbn [length] in *. lia.
          * unfold ec. rewrite encode_chunk_size_bytes. exact Ht.
          * lia.
    Qed.

    Lemma encode_payload_v_state : forall fe b src padsrc, b_state (snd (encode_payload_v P fe b src padsrc)) = b_state b.
    Proof.
      induction fe as [|f IH]; intros b src padsrc; [reflexivity|].
      destruct src as [|x t]; [reflexivity|]. rewrite encode_payload_v_cons. cbn [snd].
      rewrite IH. apply encode_chunk_state.
    Qed.

    Lemma takeN_lenN (l : bytes) : takeN (lenN l) l = l.
    Proof. unfold takeN. rewrite lenN_spec, Nat2N.id. apply firstn_all. Qed.

    Lemma norm_of_padding b : b_state b = BPadding ->
      norm P b = set_state (snd (next_padding P b)) (BLength (fst (next_padding P b))).
    Proof. intros H. unfold norm. rewrite H. reflexivity. Qed.

    (* what `norm` (the eager padding draw of the decoder) changes: only the XOF position (when GlobalPadding
       is on) and the state tag; counters, keys, size parser are untouched *)
    Lemma norm_fields b : b_state b = BPadding ->
      b_cipher (norm P b) = b_cipher b /\ b_key (norm P b) = b_key b /\ b_iv (norm P b) = b_iv b /\
      b_count (norm P b) = b_count b /\ b_size (norm P b) = b_size b /\ b_civ (norm P b) = b_civ b /\
      b_pad (norm P b) = b_pad b /\ b_seed (norm P b) = b_seed b /\
      b_pos (norm P b) = (if b_pad b then b_pos b + 1 else b_pos b) /\
      b_state (norm P b) = BLength (fst (next_padding P b)).
    Proof.
      intros H. rewrite (norm_of_padding b H). unfold next_padding, shake_next.
      destruct (b_pad b) eqn:E; cbn [fst snd set_state b_cipher b_key b_iv b_count b_size b_civ b_pad b_seed b_pos b_state];
        rewrite ?E; repeat split; reflexivity.
    Qed.

    (* ---- stream mode ---- *)
    (* Full statement: for EVERY body b in state BPadding (in particular every body_new opt sec ..: all 32 option
       masks, both ciphers), every payload src and padding source padsrc, and every tail shorter than a size field:
       a decoder in the encoder's state (either b itself, or norm b = b after its eager padding draw) decodes
       encode_payload_v (S (length src)) b src padsrc ++ tail to exactly src (None when src = []), leaves exactly
       tail, and ends in norm b' where b' is the encoder's final body: same keys, ivs, payload counter and
       size-parser state (incl. the SAuth counter) as the encoder; the XOF position is the encoder's plus the one
       padding draw the decoder has already made for the next chunk (norm_fields); the encoder stays in BPadding. *)
    Theorem body_roundtrip_stream_tail : forall b src padsrc tail, b_state b = BPadding -> lenN tail < size_bytes b ->
      let (wire, b') := encode_payload_v P (S (length src)) b src padsrc in
      decode_payload_v P b (wire ++ tail) = Ok (norm P b', tail, item_of src) /\
      decode_payload_v P (norm P b) (wire ++ tail) = Ok (norm P b', tail, item_of src) /\
      b_state b' = BPadding.
    Proof.
      intros b src padsrc tail Hst Ht.
      pose proof (encode_payload_v_state (S (length src)) b src padsrc) as Hst'.
      pose proof (fun fd => dec_enc_stream (S (length src)) b src padsrc tail [] fd ltac:(lia) Ht) as H.
      destruct (encode_payload_v P (S (length src)) b src padsrc) as [wire b'] eqn:E. cbn [fst snd] in *.
      assert (Hb : set_state b BPadding = b) by (rewrite <- Hst; apply set_state_same).
      assert (Hb' : set_state b' BPadding = b') by (rewrite <- Hst, <- Hst'; apply set_state_same).
      rewrite Hb, Hb' in H. cbn [app] in H.
      split; [|split; [|congruence]].
      - unfold decode_payload_v. rewrite H by (rewrite app_length; lia). cbn [bind]. reflexivity.
      - unfold decode_payload_v. rewrite (norm_of_padding b Hst). rewrite <- dec_step_pad. rewrite Hb.
        rewrite H by (rewrite app_length; lia). cbn [bind]. reflexivity.
    Qed.

    Theorem body_roundtrip_stream : forall b src padsrc, b_state b = BPadding ->
      let (wire, b') := encode_payload_v P (S (length src)) b src padsrc in
      decode_payload_v P b wire = Ok (norm P b', [], item_of src) /\
      decode_payload_v P (norm P b) wire = Ok (norm P b', [], item_of src) /\
      b_state b' = BPadding.
    Proof.
      intros b src padsrc Hst.
      assert (Ht : lenN [] < size_bytes b) by (pose proof (size_bytes_ge b); rewrite lenN_nil; lia).
      pose proof (body_roundtrip_stream_tail b src padsrc [] Hst Ht) as H.
      destruct (encode_payload_v P (S (length src)) b src padsrc) as [wire b']. rewrite app_nil_r in H. exact H.
    Qed.

    (* every option mask (all 32 values of the five known bits, hence the 8 combinations of
       ChunkMasking / GlobalPadding / AuthenticatedLength), every security value, all keys and ivs *)
    Corollary body_new_roundtrip_stream : forall opt sec key iv rkey riv src padsrc,
      let b := body_new P opt sec key iv rkey riv in
      let (wire, b') := encode_payload_v P (S (length src)) b src padsrc in
      decode_payload_v P b wire = Ok (norm P b', [], item_of src).
    Proof.
      intros opt sec key iv rkey riv src padsrc b.
      pose proof (body_roundtrip_stream b src padsrc eq_refl) as H.
      destruct (encode_payload_v P (S (length src)) b src padsrc) as [wire b']. apply H.
    Qed.

    (* ---- packet mode ---- *)
    Lemma packet_esize b src : lenN src <= 65535 - TAG - VMESS_MAX_PADDING ->
      ec_esize b (65535 + size_bytes b) src = lenN src /\ ec_size b (65535 + size_bytes b) src < 65536.
    Proof.
      intros Hs. unfold ec_size, ec_esize, ec_pad, VMESS_MAX_PADDING, TAG in *.
      pose proof (next_padding_lt b) as Hp. pose proof (size_bytes_le b) as Hsb. lia.
    Qed.

    Lemma encode_packet_v_eq b src padsrc : lenN src <= 65535 - TAG - VMESS_MAX_PADDING ->
      encode_packet_v P b src padsrc =
      Ok (fst (fst (encode_chunk P b (65535 + size_bytes b) src padsrc)), snd (fst (encode_chunk P b (65535 + size_bytes b) src padsrc))).
    Proof.
      intros Hs. unfold encode_packet_v.
      destruct (N.ltb_spec (65535 - TAG - VMESS_MAX_PADDING) (lenN src)) as [Hc|_]; [lia|].
      destruct (encode_chunk P b (65535 + size_bytes b) src padsrc) as [[out b'] r]. reflexivity.
    Qed.

    (* whole datagram or error, never truncated *)
    Theorem encode_packet_v_too_big : forall b src padsrc, 65535 - TAG - VMESS_MAX_PADDING < lenN src ->
      encode_packet_v P b src padsrc = Err EAead.
    Proof.
      intros b src padsrc Hs. unfold encode_packet_v.
      destruct (N.ltb_spec (65535 - TAG - VMESS_MAX_PADDING) (lenN src)) as [_|Hc]; [reflexivity|lia].
    Qed.

    (* Full statement: for every body b in state BPadding, every datagram src of at most 65535-16-63 = 65456 bytes
       (also the empty one), every padding source and ANY tail (the following datagrams): the decoder (in state b
       or norm b) returns exactly Some src, leaves exactly the tail, and is in EXACTLY the encoder's final state b'
       (packet mode draws the next padding lazily). *)
    Theorem body_roundtrip_packet_tail : forall b src padsrc tail, b_state b = BPadding ->
      lenN src <= 65535 - TAG - VMESS_MAX_PADDING ->
      exists wire b', encode_packet_v P b src padsrc = Ok (wire, b') /\
        decode_packet_v P b (wire ++ tail) = Ok (b', tail, Some src) /\
        decode_packet_v P (norm P b) (wire ++ tail) = Ok (b', tail, Some src) /\
        b_state b' = BPadding.
    Proof.
      intros b src padsrc tail Hst Hs.
      destruct (packet_esize b src Hs) as [He Hsz].
      pose proof (encode_chunk_state b (65535 + size_bytes b) src padsrc) as Hst'.
      pose proof (fun f dst => dec_chunk f true b (65535 + size_bytes b) src padsrc tail dst Hsz) as H.
      rewrite (encode_packet_v_eq b src padsrc Hs).
      set (ec := encode_chunk P b (65535 + size_bytes b) src padsrc) in *.
      exists (fst (fst ec)), (snd (fst ec)). split; [reflexivity|].
      assert (Hb : set_state b BPadding = b) by (rewrite <- Hst; apply set_state_same).
      assert (Hb' : set_state (snd (fst ec)) BPadding = snd (fst ec)) by (rewrite <- Hst, <- Hst'; apply set_state_same).
      rewrite Hb, Hb', He, takeN_lenN in H.
      split; [|split; [|congruence]].
      - unfold decode_packet_v.
        replace (3 * S (length (fst (fst ec) ++ tail)))%nat with (S (S (S (3 * length (fst (fst ec) ++ tail)))))%nat by lia.
        rewrite H. reflexivity.
      - unfold decode_packet_v. rewrite (norm_of_padding b Hst). rewrite <- dec_step_pad. rewrite Hb.
        replace (S (3 * S (length (fst (fst ec) ++ tail))))%nat with (S (S (S (S (3 * length (fst (fst ec) ++ tail))))))%nat by lia.
        rewrite H. reflexivity.
    Qed.

    Theorem body_roundtrip_packet : forall b src padsrc, b_state b = BPadding ->
      lenN src <= 65535 - TAG - VMESS_MAX_PADDING ->
      exists wire b', encode_packet_v P b src padsrc = Ok (wire, b') /\
        decode_packet_v P b wire = Ok (b', [], Some src) /\ b_state b' = BPadding.
    Proof.
      intros b src padsrc Hst Hs.
      destruct (body_roundtrip_packet_tail b src padsrc [] Hst Hs) as (wire & b' & H1 & H2 & _ & H4).
      exists wire, b'. rewrite app_nil_r in H2. auto.
    Qed.

    Corollary body_new_roundtrip_packet : forall opt sec key iv rkey riv src padsrc,
      lenN src <= 65535 - 16 - 63 ->
      exists wire b', encode_packet_v P (body_new P opt sec key iv rkey riv) src padsrc = Ok (wire, b') /\
        decode_packet_v P (body_new P opt sec key iv rkey riv) wire = Ok (b', [], Some src).
    Proof.
      intros opt sec key iv rkey riv src padsrc Hs.
      destruct (body_roundtrip_packet (body_new P opt sec key iv rkey riv) src padsrc eq_refl Hs) as (wire & b' & H1 & H2 & _).
      exists wire, b'. auto.
    Qed.
  End Laws.
End VmessRoundtrip.

Print Assumptions dec_enc_size.
Print Assumptions dec_enc_stream.
Print Assumptions body_roundtrip_stream_tail.
Print Assumptions body_roundtrip_stream.
Print Assumptions body_new_roundtrip_stream.
Print Assumptions encode_packet_v_too_big.
Print Assumptions body_roundtrip_packet_tail.
Print Assumptions body_roundtrip_packet.
Print Assumptions body_new_roundtrip_packet.

(* ====================================================================================================== *)
(* 5. Nonce discipline                                                                                    *)
(* ====================================================================================================== *)
Lemma iter_shift' {A} (f : A -> A) n x : Nat.iter n f (f x) = f (Nat.iter n f x).
Proof. induction n as [|n IH]; [reflexivity|]. rewrite !iter_S, IH. reflexivity. Qed.
Lemma iter_plus' {A} (f : A -> A) n m x : Nat.iter (n + m) f x = Nat.iter n f (Nat.iter m f x).
Proof. induction n as [|n IH]; [reflexivity|]. cbn [Nat.add]. rewrite !iter_S, IH. reflexivity. Qed.

(* the nonce is injective in the 16-bit counter, whatever the iv *)
Lemma vnonce_inj c1 c2 iv : vnonce c1 iv = vnonce c2 iv -> c1 mod 65536 = c2 mod 65536.
Proof.
  intros E. apply (f_equal (takeN 2)) in E. unfold vnonce, counting_splice, takeN in E.
  rewrite !firstn_firstn in E. change (Nat.min (N.to_nat 2) (N.to_nat 12)) with (N.to_nat 2) in E.
  fold (takeN 2 (put_u16 (c1 mod 65536) ++ dropN 2 iv)) in E. fold (takeN 2 (put_u16 (c2 mod 65536) ++ dropN 2 iv)) in E.
  rewrite <- (lenN_put_u16 (c1 mod 65536)) in E at 1. rewrite takeN_app_exact in E.
  rewrite <- (lenN_put_u16 (c2 mod 65536)) in E at 1. rewrite takeN_app_exact in E.
  apply (f_equal be) in E. unfold put_u16 in E.
  rewrite !be_put_be in E by (change (256 ^ 2) with 65536; lia). exact E.
Qed.

Lemma vnonce_iter_inj i j iv : (i < 65536)%nat -> (j < 65536)%nat ->
  vnonce (Nat.iter i counting_next 0) iv = vnonce (Nat.iter j counting_next 0) iv -> i = j.
Proof.
  intros Hi Hj E. apply vnonce_inj in E. rewrite !counting_iter in E.
  apply lt65536 in Hi. apply lt65536 in Hj. lia.
Qed.

Definition kn := (bytes * bytes)%type.        (* (key, nonce) handed to the AEAD *)
(* what body_seal hands to p_seal, and what encode_size hands to p_seal (SAuth only) *)
Definition pay_seal (b : body) : kn := (b_key b, vnonce (b_count b) (b_iv b)).
Definition size_seal (b : body) : option kn :=
  match b_size b with SAuth k c => Some (k, vnonce c (b_civ b)) | _ => None end.
Definition next_size (s : size_parser) : size_parser :=
  match s with SAuth k c => SAuth k (counting_next c) | _ => s end.
Definition iter_size (i : nat) (s : size_parser) : size_parser :=
  match s with SAuth k c => SAuth k (Nat.iter i counting_next c) | _ => s end.

Section VmessNonces.
  Variable P : prims.

  (* soundness of the instrumentation: these ARE the (cipher, key, nonce, aad) of the two p_seal calls *)
  Lemma body_seal_uses b pt :
    fst (body_seal P b pt) = p_seal P (b_cipher b) (fst (pay_seal b)) (snd (pay_seal b)) [] pt.
  Proof. reflexivity. Qed.
  Lemma encode_size_uses b size :
    fst (encode_size P b size) =
    match size_seal b with
    | Some (k, n) => p_seal P (b_cipher b) k n [] (put_u16 ((size - TAG) mod 65536))
    | None => match b_size b with
              | SShake => put_u16 (N.lxor (fst (shake_next P b)) (size mod 65536))
              | _ => put_u16 (size mod 65536)
              end
    end.
  Proof. unfold encode_size, size_seal, shake_next. destruct (b_size b); reflexivity. Qed.

  (* one chunk: the ciphertexts in it, and how the generators advance *)
  Lemma encode_chunk_seals b limit src padsrc :
    fst (fst (encode_chunk P b limit src padsrc)) =
    fst (encode_size P (snd (next_padding P b)) (ec_size P b limit src)) ++
    p_seal P (b_cipher b) (fst (pay_seal b)) (snd (pay_seal b)) [] (takeN (ec_esize P b limit src) src) ++
    takeN (ec_pad P b) (padsrc ++ repeat 0 (N.to_nat (ec_pad P b)))
    /\ size_seal (snd (next_padding P b)) = size_seal b /\ b_cipher (snd (next_padding P b)) = b_cipher b.
  Proof.
    rewrite encode_chunk_eq. cbn [fst snd]. unfold ec_b2, body_seal, pay_seal. cbn [fst snd].
    assert (H : forall b0 size, b_cipher (snd (encode_size P b0 size)) = b_cipher b0 /\ b_key (snd (encode_size P b0 size)) = b_key b0 /\
                         b_count (snd (encode_size P b0 size)) = b_count b0 /\ b_iv (snd (encode_size P b0 size)) = b_iv b0).
    { intros b0 size. unfold encode_size, shake_next. destruct (b_size b0); cbn; auto. }
    destruct (H (snd (next_padding P b)) (ec_size P b limit src)) as (H1 & H2 & H3 & H4). rewrite H1, H2, H3, H4.
    unfold size_seal, next_padding, shake_next. destruct (b_pad b); cbn [fst snd b_cipher b_key b_count b_iv b_size b_civ]; auto.
  Qed.

  Lemma encode_chunk_fields b limit src padsrc :
    let b3 := snd (fst (encode_chunk P b limit src padsrc)) in
    b_cipher b3 = b_cipher b /\ b_key b3 = b_key b /\ b_iv b3 = b_iv b /\ b_civ b3 = b_civ b /\
    b_count b3 = counting_next (b_count b) /\ b_size b3 = next_size (b_size b).
  Proof.
    rewrite encode_chunk_eq. cbn [fst snd]. unfold ec_b2, body_seal. cbn [fst snd].
    unfold encode_size, next_padding, shake_next, next_size.
    destruct (b_pad b); cbn [fst snd b_cipher b_key b_count b_iv b_size b_civ set_size bump_count];
      destruct (b_size b) eqn:E; cbn [fst snd b_cipher b_key b_count b_iv b_size b_civ set_size bump_count]; rewrite ?E; auto 10.
  Qed.

  (* the bodies (and remaining payload) at the start of every chunk of one encode_payload_v call *)
  Fixpoint chunk_starts (fuel : nat) (b : body) (src padsrc : bytes) : list (body * bytes) :=
    match fuel with
    | O => []
    | S f => match src with
             | [] => []
             | _ => (b, src) :: chunk_starts f (snd (fst (encode_chunk P b VMESS_PAYLOAD_LIMIT src padsrc)))
                                             (snd (encode_chunk P b VMESS_PAYLOAD_LIMIT src padsrc)) padsrc
             end
    end.
  Definition pay_trace (fuel : nat) (b : body) (src padsrc : bytes) : list kn :=
    map (fun bs => pay_seal (fst bs)) (chunk_starts fuel b src padsrc).
  Definition size_trace (fuel : nat) (b : body) (src padsrc : bytes) : list (option kn) :=
    map (fun bs => size_seal (fst bs)) (chunk_starts fuel b src padsrc).

  (* the wire image is the concatenation of the chunks written from these bodies; the final body is the one
     after the last chunk *)
  Lemma encode_payload_v_chunks : forall fuel b src padsrc,
    fst (encode_payload_v P fuel b src padsrc) =
    concat (map (fun bs => fst (fst (encode_chunk P (fst bs) VMESS_PAYLOAD_LIMIT (snd bs) padsrc))) (chunk_starts fuel b src padsrc)).
  Proof.
    induction fuel as [|f IH]; intros b src padsrc; [reflexivity|].
    destruct src as [|x t]; [reflexivity|].
    cbn [chunk_starts map concat fst snd]. rewrite <- IH.
    cbn [encode_payload_v]. destruct (encode_chunk P b VMESS_PAYLOAD_LIMIT (x :: t) padsrc) as [[out b'] rest]. cbn [fst snd].
    destruct (encode_payload_v P f b' rest padsrc) as [out2 b'']. reflexivity.
  Qed.

  Lemma iter_size_S i s : iter_size (S i) s = iter_size i (next_size s).
  Proof. destruct s as [| |k c]; try reflexivity. unfold iter_size, next_size. rewrite iter_S, <- iter_shift'. reflexivity. Qed.

  (* the i-th chunk is written from a body with the same keys / ivs and the generators advanced i times *)
  Lemma chunk_starts_nth : forall fuel b src padsrc i bi si,
    nth_error (chunk_starts fuel b src padsrc) i = Some (bi, si) ->
    b_cipher bi = b_cipher b /\ b_key bi = b_key b /\ b_iv bi = b_iv b /\ b_civ bi = b_civ b /\
    b_count bi = Nat.iter i counting_next (b_count b) /\ b_size bi = iter_size i (b_size b).
  Proof.
    induction fuel as [|f IH]; intros b src padsrc i bi si H.
    - destruct i; discriminate H.
    - destruct src as [|x t]; [destruct i; discriminate H|].
      cbn [chunk_starts] in H. destruct i as [|i]; cbn [nth_error] in H.
      + injection H as <- <-. destruct (b_size b); cbn; auto 10.
      + apply IH in H. destruct (encode_chunk_fields b VMESS_PAYLOAD_LIMIT (x :: t) padsrc) as (F1 & F2 & F3 & F4 & F5 & F6).
        destruct H as (H1 & H2 & H3 & H4 & H5 & H6).
        rewrite H1, H2, H3, H4, H5, H6, F1, F2, F3, F4, F5, F6.
        rewrite iter_S, <- iter_shift', iter_size_S. auto 10.
  Qed.

  Lemma encode_payload_v_final : forall fuel b src padsrc,
    let b' := snd (encode_payload_v P fuel b src padsrc) in let n := length (chunk_starts fuel b src padsrc) in
    b_cipher b' = b_cipher b /\ b_key b' = b_key b /\ b_iv b' = b_iv b /\ b_civ b' = b_civ b /\
    b_count b' = Nat.iter n counting_next (b_count b) /\ b_size b' = iter_size n (b_size b).
  Proof.
    induction fuel as [|f IH]; intros b src padsrc.
    - cbn. destruct (b_size b); auto 10.
    - destruct src as [|x t]; [cbn; destruct (b_size b); auto 10|].
      cbn [chunk_starts length]. cbn [encode_payload_v].
      destruct (encode_chunk_fields b VMESS_PAYLOAD_LIMIT (x :: t) padsrc) as (F1 & F2 & F3 & F4 & F5 & F6).
      specialize (IH (snd (fst (encode_chunk P b VMESS_PAYLOAD_LIMIT (x :: t) padsrc)))
                     (snd (encode_chunk P b VMESS_PAYLOAD_LIMIT (x :: t) padsrc)) padsrc).
      destruct (encode_chunk P b VMESS_PAYLOAD_LIMIT (x :: t) padsrc) as [[out b1] rest]. cbn [fst snd] in *.
      destruct (encode_payload_v P f b1 rest padsrc) as [out2 b'']. cbn [fst snd] in *.
      destruct IH as (H1 & H2 & H3 & H4 & H5 & H6).
      rewrite H1, H2, H3, H4, H5, H6, F1, F2, F3, F4, F5, F6.
      rewrite iter_S, <- iter_shift', iter_size_S. auto 10.
  Qed.

  (* ---- lockstep: the i-th payload seal of a body uses (b_key, vnonce (next^i count) b_iv) ---- *)
  Theorem pay_trace_nth : forall fuel b src padsrc i k n,
    nth_error (pay_trace fuel b src padsrc) i = Some (k, n) ->
    k = b_key b /\ n = vnonce (Nat.iter i counting_next (b_count b)) (b_iv b).
  Proof.
    intros fuel b src padsrc i k n H. unfold pay_trace in H. rewrite nth_error_map in H.
    destruct (nth_error (chunk_starts fuel b src padsrc) i) as [[bi si]|] eqn:E; [|discriminate].
    cbn [option_map fst] in H. apply chunk_starts_nth in E. destruct E as (_ & E2 & E3 & _ & E5 & _).
    unfold pay_seal in H. rewrite E2, E3, E5 in H. apply pair_equal_spec. congruence.
  Qed.

  (* the i-th size seal (AuthenticatedLength) uses (k, vnonce (next^i c) b_civ) *)
  Theorem size_trace_nth : forall fuel b src padsrc i o,
    nth_error (size_trace fuel b src padsrc) i = Some o ->
    o = match b_size b with SAuth k c => Some (k, vnonce (Nat.iter i counting_next c) (b_civ b)) | _ => None end.
  Proof.
    intros fuel b src padsrc i o H. unfold size_trace in H. rewrite nth_error_map in H.
    destruct (nth_error (chunk_starts fuel b src padsrc) i) as [[bi si]|] eqn:E; [|discriminate].
    cbn [option_map fst] in H. apply chunk_starts_nth in E. destruct E as (_ & _ & _ & E4 & _ & E6).
    unfold size_seal in H. rewrite E4, E6 in H. injection H as <-. destruct (b_size b); reflexivity.
  Qed.

  (* ---- uniqueness: a payload counter that is m steps from 0 (m = number of seals made so far by this
     direction) and at most 65536 seals in total: all (key, nonce) pairs of this call are pairwise distinct,
     and distinct from the ones of the earlier calls (they have indices < m) ---- *)
  Theorem pay_nonces_distinct : forall fuel b src padsrc m, b_count b = Nat.iter m counting_next 0 ->
    (m + length (pay_trace fuel b src padsrc) <= 65536)%nat -> NoDup (pay_trace fuel b src padsrc).
  Proof.
    intros fuel b src padsrc m Hc Hb. apply NoDup_nth_error. intros i j Hi E.
    destruct (nth_error (pay_trace fuel b src padsrc) i) as [[k n]|] eqn:Ei.
    2:{ apply nth_error_None in Ei. lia. }
    symmetry in E.
    assert (Hj : (j < length (pay_trace fuel b src padsrc))%nat) by (apply nth_error_Some; rewrite E; discriminate).
    apply pay_trace_nth in Ei. apply pay_trace_nth in E. destruct Ei as [_ Ei]. destruct E as [_ E].
    rewrite Ei, Hc, <- !iter_plus' in E. apply vnonce_iter_inj in E; lia.
  Qed.

  Theorem size_nonces_distinct : forall fuel b src padsrc m k c, b_size b = SAuth k c -> c = Nat.iter m counting_next 0 ->
    (m + length (size_trace fuel b src padsrc) <= 65536)%nat -> NoDup (size_trace fuel b src padsrc).
  Proof.
    intros fuel b src padsrc m k c Hs Hc Hb. apply NoDup_nth_error. intros i j Hi E.
    destruct (nth_error (size_trace fuel b src padsrc) i) as [o|] eqn:Ei.
    2:{ apply nth_error_None in Ei. lia. }
    symmetry in E.
    assert (Hj : (j < length (size_trace fuel b src padsrc))%nat) by (apply nth_error_Some; rewrite E; discriminate).
    apply size_trace_nth in Ei. apply size_trace_nth in E. rewrite Hs in Ei, E. rewrite Ei in E.
    assert (E' : vnonce (Nat.iter i counting_next c) (b_civ b) = vnonce (Nat.iter j counting_next c) (b_civ b)) by congruence.
    rewrite Hc, <- !iter_plus' in E'. apply vnonce_iter_inj in E'; lia.
  Qed.

  (* a fresh direction (body_new): the first 65536 payload seals use pairwise distinct nonces under one key *)
  Corollary body_new_pay_nonces_distinct : forall opt sec key iv rkey riv fuel src padsrc,
    (length (pay_trace fuel (body_new P opt sec key iv rkey riv) src padsrc) <= 65536)%nat ->
    NoDup (pay_trace fuel (body_new P opt sec key iv rkey riv) src padsrc).
  Proof. intros. apply (pay_nonces_distinct _ _ _ _ 0%nat); [reflexivity|lia]. Qed.

  (* the counter wraps: seal 65536 (index from 0) reuses the nonce of seal 0 under the same key.
     (2^16 chunks of <= 2 KiB are 128 MiB of one TCP direction: reachable.) *)
  Theorem pay_nonce_wraps : forall c iv, vnonce (Nat.iter 65536 counting_next c) iv = vnonce c iv.
  Proof.
    intros c iv. assert (H : forall k c0, Nat.iter k counting_next c0 mod 65536 = (c0 + N.of_nat k) mod 65536).
    { induction k as [|k IH]; intros c0; [rewrite iter_O; f_equal; lia|].
      rewrite iter_S. unfold counting_next at 1. specialize (IH c0). lia. }
    unfold vnonce, counting_splice. rewrite H. rewrite nat65536.
    replace ((c + 65536) mod 65536) with (c mod 65536) by lia. reflexivity.
  Qed.

  (* ---- KNOWN FINDING (documented, not hidden): with AuthenticatedLength the size fields of BOTH directions
     are sealed under the same key and the same nonce sequence ---- *)
  Theorem auth_len_key_nonce_shared : forall opt sec s, has_opt opt 16 = true ->
    let bc := body_new P opt sec (vs_key s) (vs_iv s) (vs_key s) (vs_iv s) in             (* client -> server encoder *)
    let bs := body_new P opt sec (resp_key P s) (resp_iv P s) (vs_key s) (vs_iv s) in     (* server -> client encoder *)
    size_seal bc = Some (sec_key P sec (kdf16 P (vs_key s) [str_auth_len]), vnonce 0 (vs_iv s)) /\
    size_seal bs = size_seal bc /\ b_cipher bs = b_cipher bc /\
    (* witness on the wire: the same size value gives the very same 18 bytes in both directions *)
    (forall size, fst (encode_size P bc size) = fst (encode_size P bs size)) /\
    (* and not only for the first chunk: the i-th size seals of the two directions coincide for every i *)
    (forall fc srcc padc fs srcs pads i oc os,
       nth_error (size_trace fc bc srcc padc) i = Some oc -> nth_error (size_trace fs bs srcs pads) i = Some os ->
       oc = os /\ oc = Some (sec_key P sec (kdf16 P (vs_key s) [str_auth_len]), vnonce (Nat.iter i counting_next 0) (vs_iv s))).
  Proof.
    intros opt sec s Ho bc bs.
    assert (Hc : b_size bc = SAuth (sec_key P sec (kdf16 P (vs_key s) [str_auth_len])) 0)
      by (subst bc; unfold body_new; cbn [b_size]; rewrite Ho; reflexivity).
    assert (Hs : b_size bs = SAuth (sec_key P sec (kdf16 P (vs_key s) [str_auth_len])) 0)
      by (subst bs; unfold body_new; cbn [b_size]; rewrite Ho; reflexivity).
    split; [unfold size_seal; rewrite Hc; reflexivity|].
    split; [unfold size_seal; rewrite Hc, Hs; reflexivity|].
    split; [reflexivity|].
    split.
    - intros size. unfold encode_size. rewrite Hc, Hs. reflexivity.
    - intros fc srcc padc fs srcs pads i oc os H1 H2.
      apply size_trace_nth in H1. apply size_trace_nth in H2. rewrite Hc in H1. rewrite Hs in H2.
      subst oc os. split; reflexivity.
  Qed.

  (* the first chunk written by each direction: their size fields are p_seal under the same (cipher, key, nonce) *)
  Corollary auth_len_first_chunks_collide : forall opt sec s limc srcc padc lims srcs pads, has_opt opt 16 = true ->
    let bc := body_new P opt sec (vs_key s) (vs_iv s) (vs_key s) (vs_iv s) in
    let bs := body_new P opt sec (resp_key P s) (resp_iv P s) (vs_key s) (vs_iv s) in
    let k := sec_key P sec (kdf16 P (vs_key s) [str_auth_len]) in let n := vnonce 0 (vs_iv s) in
    exists restc rests,
      fst (fst (encode_chunk P bc limc srcc padc)) =
        p_seal P (sec_cipher sec) k n [] (put_u16 ((ec_size P bc limc srcc - TAG) mod 65536)) ++ restc /\
      fst (fst (encode_chunk P bs lims srcs pads)) =
        p_seal P (sec_cipher sec) k n [] (put_u16 ((ec_size P bs lims srcs - TAG) mod 65536)) ++ rests.
  Proof.
    intros opt sec s limc srcc padc lims srcs pads Ho bc bs k n.
    destruct (auth_len_key_nonce_shared opt sec s Ho) as (H1 & H2 & _). fold bc bs in H1, H2. rewrite H1 in H2.
    destruct (encode_chunk_seals bc limc srcc padc) as (Ec & Sc & Cc).
    destruct (encode_chunk_seals bs lims srcs pads) as (Es & Ss & Cs).
    rewrite encode_size_uses, Sc, H1, Cc in Ec. rewrite encode_size_uses, Ss, H2, Cs in Es.
    eexists; eexists. split; [exact Ec|exact Es].
  Qed.
End VmessNonces.

Print Assumptions pay_trace_nth.
Print Assumptions size_trace_nth.
Print Assumptions pay_nonces_distinct.
Print Assumptions size_nonces_distinct.
Print Assumptions body_new_pay_nonces_distinct.
Print Assumptions pay_nonce_wraps.
Print Assumptions auth_len_key_nonce_shared.
Print Assumptions auth_len_first_chunks_collide.

(* ====================================================================================================== *)
(* 6. Non-vacuity: the premises are jointly satisfiable (ToyVmess.toyV), and concrete exchanges            *)
(* ====================================================================================================== *)
Module ToyFacts.
  Import ToyVmess.

  (* the theorems instantiated with the toy primitives *)
  Definition toy_auth_id_created_match := auth_id_created_match toyV (aes_dec_enc toyV toy_laws) toy_crc_lt.
  Definition toy_body_roundtrip_stream := body_roundtrip_stream toyV toy_laws toy_shake_len toy_shake_wf.
  Definition toy_body_roundtrip_packet := body_roundtrip_packet toyV toy_laws toy_shake_len toy_shake_wf.
  Definition toy_stream_segmentation := vmess_body_segmentation_independent toyV toy_lens.
  Definition toy_packet_segmentation := vmess_packet_segmentation_independent toyV toy_lens.

  Definition hello : bytes := [104;101;108;108;111].
  Definition world : bytes := [119;111;114;108;100].
  Definition padsrc : bytes := [1;2;3;4;5;6;7;8;9;10;11;12;13;14;15;16;17;18;19;20;21;22;23;24;25;26;27;28;29;30;31;32;
                                33;34;35;36;37;38;39;40;41;42;43;44;45;46;47;48;49;50;51;52;53;54;55;56;57;58;59;60;61;62;63;64].
  (* ChunkStream | ChunkMasking | GlobalPadding | AuthenticatedLength, aes-128-gcm *)
  Definition hdr (opt sec : N) (cmd : command) : req_header := {| rh_opt := opt; rh_sec := sec; rh_cmd := cmd; rh_addr := target |}.

  (* a whole TCP exchange for several option masks and both ciphers: request (header + first payload) accepted by the
     server with the right target and payload; the server's decoder is the client's encoder after its eager padding
     draw; the response is accepted by the client; a second request write is decoded in lockstep *)
  Definition exchange_ok (opt sec : N) : Prop :=
    let h := hdr opt sec CmdTcp in
    match client_vencode toyV uid h sess None now0 rnd4 cnonce [9;9;9] hello padsrc with
    | Ok (bc, wire) =>
      match server_vdecode toyV (now0 + 100) [uid2; uid] SInit wire with
      | Ok (SReady h' s' bd, rest, Some (ConnectTcp d a)) =>
        h' = {| rh_opt := opt; rh_sec := sec; rh_cmd := CmdTcp; rh_addr := target |} /\ s' = sess /\
        rest = [] /\ d = hello /\ a = target /\ bd = norm toyV bc /\
        (* response *)
        match server_vencode toyV h' s' None world padsrc with
        | Ok (bs, rwire) =>
          match client_vdecode toyV h sess None rwire with
          | Ok (Some bcd, rrest, Some d') => rrest = [] /\ d' = world /\ bcd = norm toyV bs
          | _ => False
          end
        | _ => False
        end /\
        (* second request write *)
        match client_vencode toyV uid h sess (Some bc) now0 rnd4 cnonce [] world padsrc with
        | Ok (bc2, wire2) =>
          match server_vdecode toyV (now0 + 100) [uid2; uid] (SReady h' s' bd) wire2 with
          | Ok (SReady _ _ bd2, rest2, Some (RelayTcp d2)) => rest2 = [] /\ d2 = world /\ bd2 = norm toyV bc2
          | _ => False
          end
        | _ => False
        end
      | _ => False
      end
    | _ => False
    end.
  Example toy_exchange_all_options_aes : exchange_ok 29 3.
  Proof. vm_compute. repeat split. Qed.
  Example toy_exchange_all_options_chacha : exchange_ok 29 4.
  Proof. vm_compute. repeat split. Qed.
  Example toy_exchange_plain : exchange_ok 1 3.
  Proof. vm_compute. repeat split. Qed.
  Example toy_exchange_masking_padding : exchange_ok 13 3.
  Proof. vm_compute. repeat split. Qed.
  Example toy_exchange_authlen_only : exchange_ok 17 4.
  Proof. vm_compute. repeat split. Qed.

  (* outside the window the same request is refused *)
  Example toy_exchange_stale :
    match client_vencode toyV uid (hdr 29 3 CmdTcp) sess None now0 rnd4 cnonce [] hello padsrc with
    | Ok (_, wire) => server_vdecode toyV (now0 + 120) [uid] SInit wire <> Err EBadUser /\
                      server_vdecode toyV (now0 + 121) [uid] SInit wire = Err EBadUser /\
                      server_vdecode toyV (now0 - 121) [uid] SInit wire = Err EBadUser
    | _ => False
    end.
  Proof. vm_compute. repeat split; discriminate. Qed.

  (* a response sealed for another session (other response byte) is refused with EBadAuth *)
  Example toy_response_wrong_byte :
    match server_vencode toyV (hdr 29 3 CmdTcp) {| vs_iv := req_iv; vs_key := req_key; vs_v := 78 |} None world padsrc with
    | Ok (_, rwire) => client_vdecode toyV (hdr 29 3 CmdTcp) sess None rwire = Err EBadAuth
    | _ => False
    end.
  Proof. vm_compute. reflexivity. Qed.

  (* segmentation: the body stream of two writes cut at awkward places (inside the size field, inside the tag,
     empty segments) gives the same bytes, and the final state / leftover of the one-shot run *)
  Example toy_stream_segmented :
    let b := body_new toyV 29 3 req_key req_iv req_key req_iv in
    let '(w1, b1) := encode_payload_v toyV 6 b hello padsrc in
    let '(w2, b2) := encode_payload_v toyV 6 b1 world padsrc in
    let w := w1 ++ w2 in
    let segs := [firstn 1 w; []; firstn 16 (skipn 1 w); firstn 3 (skipn 17 w); firstn 30 (skipn 20 w); []; skipn 50 w] in
    concat segs = w /\
    match Framed.run _ _ (vbody_dec toyV) b [] segs [], Framed.run _ _ (vbody_dec toyV) b [] [w] [] with
    | (s1, buf1, items1, Waiting), (s2, buf2, items2, Waiting) =>
        s1 = s2 /\ s1 = norm toyV b2 /\ buf1 = [] /\ buf2 = [] /\ concat items1 = hello ++ world /\ items2 = [hello ++ world]
    | _, _ => False
    end.
  Proof. vm_compute. repeat split. Qed.

  (* UDP: two datagrams (one empty) in one buffer and cut in pieces: the same list of datagrams *)
  Example toy_packet_segmented :
    let b := body_new toyV 29 4 req_key req_iv req_key req_iv in
    match encode_packet_v toyV b hello padsrc with
    | Ok (w1, b1) =>
      match encode_packet_v toyV b1 [] padsrc with
      | Ok (w2, b2) =>
        match encode_packet_v toyV b2 world padsrc with
        | Ok (w3, b3) =>
          let w := w1 ++ w2 ++ w3 in
          let segs := [firstn 7 w; firstn 40 (skipn 7 w); []; skipn 47 w] in
          concat segs = w /\
          match Framed.run _ _ (vpkt_dec toyV) b [] segs [], Framed.run _ _ (vpkt_dec toyV) b [] [w] [] with
          | (s1, buf1, items1, Waiting), (s2, buf2, items2, Waiting) =>
              s1 = b3 /\ s2 = b3 /\ buf1 = [] /\ buf2 = [] /\ items1 = [hello; []; world] /\ items2 = [hello; []; world]
          | _, _ => False
          end
        | _ => False
        end
      | _ => False
      end
    | _ => False
    end.
  Proof. vm_compute. repeat split. Qed.

  (* a flipped tag byte in the second chunk: every segmentation fails with EAead; the first chunk may have been released *)
  Example toy_stream_tampered :
    let b := body_new toyV 17 3 req_key req_iv req_key req_iv in
    let '(w1, b1) := encode_payload_v toyV 6 b hello padsrc in
    let '(w2, _) := encode_payload_v toyV 6 b1 world padsrc in
    let w := w1 ++ firstn 30 w2 ++ [N.lxor 1 (nth 30 w2 0)] ++ skipn 31 w2 in
    match Framed.run _ _ (vbody_dec toyV) b [] [w1; skipn (length w1) w] [], Framed.run _ _ (vbody_dec toyV) b [] [w] [] with
    | (_, _, items1, Failed EAead), (_, _, items2, Failed EAead) => items1 = [hello] /\ items2 = []
    | _, _ => False
    end.
  Proof. vm_compute. repeat split. Qed.

  (* the known finding on concrete bytes: AuthenticatedLength, no padding; request and response both carry a 5-byte
     first chunk: the 18-byte sealed size fields of the two directions are IDENTICAL (same key, nonce, plaintext) *)
  Example toy_auth_len_collision :
    let bc := body_new toyV 17 3 req_key req_iv req_key req_iv in
    let bs := body_new toyV 17 3 (resp_key toyV sess) (resp_iv toyV sess) req_key req_iv in
    b_key bc <> b_key bs /\
    firstn 18 (fst (encode_payload_v toyV 6 bc hello padsrc)) = firstn 18 (fst (encode_payload_v toyV 6 bs world padsrc)).
  Proof. vm_compute. split; [discriminate|reflexivity]. Qed.
End ToyFacts.

Print Assumptions ToyFacts.toy_body_roundtrip_stream.
Print Assumptions ToyFacts.toy_stream_segmentation.
Print Assumptions ToyFacts.toy_exchange_all_options_aes.
Print Assumptions ToyFacts.toy_auth_len_collision.
