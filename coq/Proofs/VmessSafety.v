(* VMess AEAD (Model/Vmess.v): no network input can crash a task, and the error classes that can come out.

   Everything is proved for ALL inputs and ALL states.  The only premise on the primitives is a LENGTH law
   (a premise, never an axiom):
     vm_lens P := forall c k n a ct m, p_open P c k n a ct = Some m -> lenN ct = lenN m + TAG
   (field `open_len` of Crypto.Prims.prim_laws).  It is needed exactly where the model does `get_u16` on an
   opened 18-byte size field (decode_size/SAuth, client response header length); without it the model can
   Panic there (see `Example open_len_needed`).  `open_header` and `parse_header` need no premise at all.

   Statements (all proved, nothing `_partial`):
     vdec_loop_cases           vm_lens -> forall fuel packet b src dst, vdec_loop is Ok _ or Err EAead (never Panic)
     decode_payload_v_no_panic vm_lens -> forall b src, decode_payload_v P b src <> Panic
     decode_packet_v_no_panic  vm_lens -> forall b src, decode_packet_v P b src <> Panic
     decode_payload_v_errors / decode_packet_v_errors   ... = Err e -> e = EAead
     open_header_no_panic      forall key src, open_header P key src <> Panic                    (no premise)
     open_header_errors        open_header P key src = Err e -> e = EAead \/ e = EOther          (no premise)
     open_header_errors_lens   vm_lens -> open_header P key src = Err e -> e = EAead             (EOther unreachable)
     parse_header_no_panic     forall hb, parse_header hb <> Panic                               (no premise)
     parse_header_errors       parse_header hb = Err e -> e in {EShort, EBadCmd, EBadAddrType, EUtf8, EBadAuth}
     server_vdecode_no_panic   vm_lens -> forall now keys st src, server_vdecode P now keys st src <> Panic
     server_vdecode_errors     vm_lens -> server_vdecode ... = Err e ->
                                 e in {EBadUser, EAead, EShort, EBadCmd, EBadAddrType, EUtf8, EBadAuth}
                               (EOther -- "length plaintext is not 2 bytes" -- is unreachable under vm_lens:
                                open_header_errors_lens; open_header_errors shows it is the only further class
                                of open_header when nothing is assumed);
                               each of the seven classes IS reachable: Examples in Module ToyVmess (the reach_ examples).
     server_vdecode_ready_errors   from SReady the only error is EAead
     client_vdecode_no_panic   vm_lens -> forall h s dec src, client_vdecode P h s dec src <> Panic
     client_vdecode_errors     vm_lens -> client_vdecode ... = Err e -> e = EAead \/ e = EBadAuth
   Module ToyVmess: a toy record of primitives (tag-checking AEAD, involutive block cipher, checksums,
   a counter XOF) satisfying prim_laws, vm_lens and the XOF length/range laws, used for the non-vacuity
   Examples here and in Proofs/VmessFacts.v. *)
From Coq Require Import List NArith ZArith Lia Bool ZifyBool ZifyN ZifyNat.
From Octo Require Import Base.Bytes Crypto.Prims Model.NonceGen Model.Utf8 Model.Address Model.SsTcp Model.Vmess
                         Proofs.AddressFacts.
Import ListNotations.
Open Scope N_scope.
Ltac Zify.zify_post_hook ::= Z.div_mod_to_equations.

(* ---------------- cursor helpers ---------------- *)
Lemma get_u8_ok1 b : 1 <= lenN b -> exists x, get_u8 b = Ok (x, dropN 1 b).
Proof. destruct b as [|x t]; [rewrite lenN_nil; lia|]. intros _. exists x. reflexivity. Qed.

(* vm_read: never Panic, and the three error classes *)
Lemma vm_read_cases utf8_ok src :
  match vm_read utf8_ok src with
  | Ok _ => True
  | Err e => e = EShort \/ e = EUtf8 \/ e = EBadAddrType
  | Panic => False
  end.
Proof.
  unfold vm_read. destruct (N.ltb_spec (lenN src) 3) as [|H3]; [auto|].
  unfold get_u16. rewrite get_be_ok by lia. cbn [bind].
  destruct (dropN 2 src) as [|t r] eqn:Ed.
  { exfalso. assert (H : lenN (dropN 2 src) = 0) by (rewrite Ed; reflexivity). rewrite lenN_dropN in H. lia. }
  rewrite get_u8_cons. cbn [bind].
  destruct (t =? 1).
  { destruct (N.ltb_spec (lenN r) 4); [auto|]. rewrite split_to_ok by lia. exact I. }
  destruct (t =? 2).
  { destruct (N.ltb_spec (lenN r) 1); [auto|]. destruct r as [|l r']; [rewrite lenN_nil in *; lia|].
    rewrite get_u8_cons. cbn [bind]. destruct (N.ltb_spec (lenN r') l); [auto|]. rewrite split_to_ok by lia. cbn [bind].
    destruct (utf8_ok (takeN l r')); auto. }
  destruct (t =? 3); [|auto].
  destruct (N.ltb_spec (lenN r) 16); [auto|]. rewrite split_to_ok by lia. exact I.
Qed.

(* ---------------- parse_header (no primitive involved) ---------------- *)
Definition parse_header_err (e : err) : Prop :=
  e = EShort \/ e = EBadCmd \/ e = EBadAddrType \/ e = EUtf8 \/ e = EBadAuth.

Lemma parse_header_cases hb :
  match parse_header hb with Ok _ => True | Err e => parse_header_err e | Panic => False end.
Proof.
  unfold parse_header, parse_header_err.
  destruct (N.ltb_spec (lenN hb) (1 + 16 + 16 + 1 + 1 + 1 + 1 + 1 + 4)) as [|HL]; [auto|].
  destruct (get_u8_ok1 hb ltac:(lia)) as [x0 ->]. cbn [bind].
  pose proof (lenN_dropN 1 hb) as L1. set (r1 := dropN 1 hb) in *.
  rewrite (split_to_ok 16 r1) by lia. cbn [bind].
  pose proof (lenN_dropN 16 r1) as L2. set (r2 := dropN 16 r1) in *.
  rewrite (split_to_ok 16 r2) by lia. cbn [bind].
  pose proof (lenN_dropN 16 r2) as L3. set (r3 := dropN 16 r2) in *.
  destruct (get_u8_ok1 r3 ltac:(lia)) as [v ->]. cbn [bind].
  pose proof (lenN_dropN 1 r3) as L4. set (r4 := dropN 1 r3) in *.
  destruct (get_u8_ok1 r4 ltac:(lia)) as [opt ->]. cbn [bind].
  pose proof (lenN_dropN 1 r4) as L5. set (r5 := dropN 1 r4) in *.
  destruct (get_u8_ok1 r5 ltac:(lia)) as [sec ->]. cbn [bind].
  pose proof (lenN_dropN 1 r5) as L6. set (r6 := dropN 1 r5) in *.
  rewrite (advance_ok 1 r6) by lia. cbn [bind].
  pose proof (lenN_dropN 1 r6) as L7. set (r7 := dropN 1 r6) in *.
  destruct (get_u8_ok1 r7 ltac:(lia)) as [cmd ->]. cbn [bind].
  set (r8 := dropN 1 r7) in *.
  destruct (negb ((cmd =? 1) || (cmd =? 2))); [auto|].
  pose proof (vm_read_cases utf8_valid r8) as HV.
  destruct (vm_read utf8_valid r8) as [[ad r9]|e|]; cbn [bind]; [|tauto|contradiction].
  destruct (N.ltb_spec (lenN r9) (sec / 16 + 4)) as [|H9]; [auto|].
  rewrite advance_ok by lia. cbn [bind].
  unfold get_u32. rewrite get_be_ok by (rewrite lenN_dropN; lia). cbn [bind].
  destruct (negb (fnv1a32 (takeN (lenN hb - 4) hb) =? be (takeN 4 (dropN (sec / 16) r9)))); auto.
Qed.

Theorem parse_header_no_panic : forall hb, parse_header hb <> Panic.
Proof. intros hb E. pose proof (parse_header_cases hb) as H. rewrite E in H. exact H. Qed.

Theorem parse_header_errors : forall hb e, parse_header hb = Err e ->
  e = EShort \/ e = EBadCmd \/ e = EBadAddrType \/ e = EUtf8 \/ e = EBadAuth.
Proof. intros hb e E. pose proof (parse_header_cases hb) as H. rewrite E in H. exact H. Qed.

Section VmessSafety.
  Variable P : prims.

  (* the length premise (prim_laws.open_len) *)
  Record vm_lens : Prop := {
    vl_open_len : forall c k n a ct m, p_open P c k n a ct = Some m -> lenN ct = lenN m + TAG
  }.

  (* ---------------- body decoder ---------------- *)
  Lemma decode_size_cases : vm_lens -> forall b data, lenN data = size_bytes b ->
    match decode_size P b data with Ok _ => True | Err e => e = EAead | Panic => False end.
  Proof.
    intros HL b data Hd. unfold decode_size. unfold size_bytes in Hd.
    destruct (b_size b) as [| |k c].
    - exact I.
    - destruct (shake_next P b) as [m b']. exact I.
    - destruct (p_open P (b_cipher b) k (vnonce c (b_civ b)) [] data) as [pl|] eqn:EO; [|reflexivity].
      apply (vl_open_len HL) in EO. unfold TAG in *.
      unfold get_u16. rewrite get_be_ok by lia. cbn [bind]. exact I.
  Qed.

  Lemma size_bytes_le b : size_bytes b <= 18.
  Proof. unfold size_bytes, TAG. destruct (b_size b); lia. Qed.

  Theorem vdec_loop_cases : vm_lens -> forall fuel packet b src dst,
    match vdec_loop P fuel packet b src dst with Ok _ => True | Err e => e = EAead | Panic => False end.
  Proof.
    intros HL. induction fuel as [|f IH]; intros packet b src dst; cbn [vdec_loop]; [exact I|].
    destruct (b_state b) as [|p|p len].
    - destruct (next_padding P b) as [p b']. apply IH.
    - destruct (N.ltb_spec (lenN src) (size_bytes b)) as [|Hs]; [exact I|].
      pose proof (decode_size_cases HL b (takeN (size_bytes b) src) (lenN_takeN _ _ Hs)) as HD.
      destruct (decode_size P b (takeN (size_bytes b) src)) as [[len b']|e|]; cbn [bind]; [apply IH|exact HD|exact HD].
    - destruct (lenN src <? len); [exact I|].
      destruct (len <? p + TAG); [reflexivity|].
      destruct (body_open P b (takeN (len - p) src)) as [[pl|] b']; [|reflexivity].
      destruct packet; [exact I|apply IH].
  Qed.

  Lemma decode_payload_v_cases : vm_lens -> forall b src,
    match decode_payload_v P b src with Ok _ => True | Err e => e = EAead | Panic => False end.
  Proof.
    intros HL b src. unfold decode_payload_v.
    pose proof (vdec_loop_cases HL (3 * S (length src)) false b src []) as H.
    destruct (vdec_loop P (3 * S (length src)) false b src []) as [[[[b' s'] d] g]|e|]; cbn [bind]; exact H.
  Qed.
  Lemma decode_packet_v_cases : vm_lens -> forall b src,
    match decode_packet_v P b src with Ok _ => True | Err e => e = EAead | Panic => False end.
  Proof.
    intros HL b src. unfold decode_packet_v.
    pose proof (vdec_loop_cases HL (3 * S (length src)) true b src []) as H.
    destruct (vdec_loop P (3 * S (length src)) true b src []) as [[[[b' s'] d] g]|e|]; cbn [bind]; exact H.
  Qed.

  Theorem decode_payload_v_no_panic : vm_lens -> forall b src, decode_payload_v P b src <> Panic.
  Proof. intros HL b src E. pose proof (decode_payload_v_cases HL b src) as H. rewrite E in H. exact H. Qed.
  Theorem decode_packet_v_no_panic : vm_lens -> forall b src, decode_packet_v P b src <> Panic.
  Proof. intros HL b src E. pose proof (decode_packet_v_cases HL b src) as H. rewrite E in H. exact H. Qed.
  Theorem decode_payload_v_errors : vm_lens -> forall b src e, decode_payload_v P b src = Err e -> e = EAead.
  Proof. intros HL b src e E. pose proof (decode_payload_v_cases HL b src) as H. rewrite E in H. exact H. Qed.
  Theorem decode_packet_v_errors : vm_lens -> forall b src e, decode_packet_v P b src = Err e -> e = EAead.
  Proof. intros HL b src e E. pose proof (decode_packet_v_cases HL b src) as H. rewrite E in H. exact H. Qed.

  (* ---------------- open_header ---------------- *)
  Lemma open_header_cases key src :
    match open_header P key src with Ok _ => True | Err e => e = EAead \/ e = EOther | Panic => False end.
  Proof.
    unfold open_header. destruct (lenN src <? 16 + 18 + 8 + 16); [exact I|].
    destruct (p_open P 0 _ _ _ (takeN 18 (dropN 16 src))) as [lb|]; [|auto].
    destruct (negb (lenN lb =? 2)); [auto|].
    destruct (lenN (dropN 42 src) <? be lb + 16); [exact I|].
    destruct (p_open P 0 _ _ _ (takeN (be lb + 16) (dropN 42 src))) as [h|]; [exact I|auto].
  Qed.

  Theorem open_header_no_panic : forall key src, open_header P key src <> Panic.
  Proof. intros key src E. pose proof (open_header_cases key src) as H. rewrite E in H. exact H. Qed.
  Theorem open_header_errors : forall key src e, open_header P key src = Err e -> e = EAead \/ e = EOther.
  Proof. intros key src e E. pose proof (open_header_cases key src) as H. rewrite E in H. exact H. Qed.

  (* under the length law the "length plaintext is not 2 bytes" branch is dead *)
  Theorem open_header_errors_lens : vm_lens -> forall key src e, open_header P key src = Err e -> e = EAead.
  Proof.
    intros HL key src e. unfold open_header.
    destruct (N.ltb_spec (lenN src) (16 + 18 + 8 + 16)) as [|Hs]; [discriminate|].
    destruct (p_open P 0 _ _ _ (takeN 18 (dropN 16 src))) as [lb|] eqn:EO; [|congruence].
    apply (vl_open_len HL) in EO. rewrite lenN_takeN in EO by (rewrite lenN_dropN; lia). unfold TAG in EO.
    destruct (N.eqb_spec (lenN lb) 2) as [_|Hn]; [|lia]. cbn [negb].
    destruct (lenN (dropN 42 src) <? be lb + 16); [discriminate|].
    destruct (p_open P 0 _ _ _ (takeN (be lb + 16) (dropN 42 src))) as [h|]; [discriminate|congruence].
  Qed.

  (* ---------------- server ---------------- *)
  Definition server_err (e : err) : Prop :=
    e = EBadUser \/ e = EAead \/ e = EShort \/ e = EBadCmd \/ e = EBadAddrType \/ e = EUtf8 \/ e = EBadAuth.

  Lemma server_body_cases : vm_lens -> forall h s b src,
    match
      match rh_cmd h with
      | CmdTcp => let* (b', rest', it) := decode_payload_v P b src in
                  Ok (SReady h s b', rest', match it with Some d => Some (RelayTcp d) | None => None end)
      | CmdUdp => let* (b', rest', it) := decode_packet_v P b src in
                  Ok (SReady h s b', rest', match it with Some d => Some (RelayUdp d (rh_addr h)) | None => None end)
      end
    with Ok _ => True | Err e => e = EAead | Panic => False end.
  Proof.
    intros HL h s b src. destruct (rh_cmd h).
    - pose proof (decode_payload_v_cases HL b src) as H.
      destruct (decode_payload_v P b src) as [[[b' r'] it]|e|]; cbn [bind]; exact H.
    - pose proof (decode_packet_v_cases HL b src) as H.
      destruct (decode_packet_v P b src) as [[[b' r'] it]|e|]; cbn [bind]; exact H.
  Qed.

  (* the general form: [oe] says which errors open_header may give *)
  Lemma server_vdecode_cases_gen (oe : err -> Prop) : vm_lens ->
    (forall key src e, open_header P key src = Err e -> oe e) ->
    forall now keys st src,
    match server_vdecode P now keys st src with
    | Ok _ => True
    | Err e => match st with SInit => server_err e \/ oe e | SReady _ _ _ => e = EAead end
    | Panic => False
    end.
  Proof.
    intros HL Hoe now keys st src. unfold server_vdecode. destruct st as [|h s b].
    - destruct (lenN src <? 16); [exact I|].
      destruct (auth_id_matching P now (takeN 16 src) keys) as [key|]; [|left; unfold server_err; auto].
      pose proof (open_header_cases key src) as HO. pose proof (Hoe key src) as HO'.
      destruct (open_header P key src) as [[[hb rest]|]|e|]; cbn [bind]; [| exact I | right; apply HO'; reflexivity | exact HO].
      pose proof (parse_header_cases hb) as HP.
      destruct (parse_header hb) as [[h s]|e|]; cbn [bind];
        [| left; unfold server_err, parse_header_err in *; tauto | exact HP].
      destruct (rh_cmd h).
      + pose proof (decode_payload_v_cases HL (body_new P (rh_opt h) (rh_sec h) (vs_key s) (vs_iv s) (vs_key s) (vs_iv s)) rest) as H.
        destruct (decode_payload_v P _ rest) as [[[b' r'] it]|e|]; cbn [bind]; [exact I| |exact H].
        left. unfold server_err. auto.
      + pose proof (decode_packet_v_cases HL (body_new P (rh_opt h) (rh_sec h) (vs_key s) (vs_iv s) (vs_key s) (vs_iv s)) rest) as H.
        destruct (decode_packet_v P _ rest) as [[[b' r'] it]|e|]; cbn [bind]; [exact I| |exact H].
        left. unfold server_err. auto.
    - destruct src as [|x t]; [exact I|]. apply (server_body_cases HL h s b (x :: t)).
  Qed.

  Theorem server_vdecode_no_panic : vm_lens -> forall now keys st src, server_vdecode P now keys st src <> Panic.
  Proof.
    intros HL now keys st src E.
    pose proof (server_vdecode_cases_gen (fun _ => True) HL (fun _ _ _ _ => I) now keys st src) as H.
    rewrite E in H. exact H.
  Qed.

  (* exactly these seven classes (each one is reachable: Module ToyReach below) *)
  Theorem server_vdecode_errors : vm_lens -> forall now keys st src e, server_vdecode P now keys st src = Err e ->
    e = EBadUser \/ e = EAead \/ e = EShort \/ e = EBadCmd \/ e = EBadAddrType \/ e = EUtf8 \/ e = EBadAuth.
  Proof.
    intros HL now keys st src e E.
    pose proof (server_vdecode_cases_gen (fun e => e = EAead) HL (open_header_errors_lens HL) now keys st src) as H.
    rewrite E in H. destruct st; unfold server_err in H; [tauto|auto].
  Qed.

  Theorem server_vdecode_ready_errors : vm_lens -> forall now keys h s b src e,
    server_vdecode P now keys (SReady h s b) src = Err e -> e = EAead.
  Proof.
    intros HL now keys h s b src e E.
    pose proof (server_vdecode_cases_gen (fun _ => True) HL (fun _ _ _ _ => I) now keys (SReady h s b) src) as H.
    rewrite E in H. exact H.
  Qed.

  (* ---------------- client ---------------- *)
  Lemma client_body_cases : vm_lens -> forall h b src,
    match
      match rh_cmd h with
      | CmdTcp => let* (b', r, it) := decode_payload_v P b src in Ok (Some b', r, it)
      | CmdUdp => let* (b', r, it) := decode_packet_v P b src in Ok (Some b', r, it)
      end
    with Ok _ => True | Err e => e = EAead | Panic => False end.
  Proof.
    intros HL h b src. destruct (rh_cmd h).
    - pose proof (decode_payload_v_cases HL b src) as H.
      destruct (decode_payload_v P b src) as [[[b' r'] it]|e|]; cbn [bind]; exact H.
    - pose proof (decode_packet_v_cases HL b src) as H.
      destruct (decode_packet_v P b src) as [[[b' r'] it]|e|]; cbn [bind]; exact H.
  Qed.

  Lemma client_vdecode_cases : vm_lens -> forall h s dec src,
    match client_vdecode P h s dec src with Ok _ => True | Err e => e = EAead \/ e = EBadAuth | Panic => False end.
  Proof.
    intros HL h s dec src. unfold client_vdecode. destruct src as [|x t]; [exact I|]. set (src := x :: t).
    destruct dec as [b|].
    - pose proof (client_body_cases HL h b src) as H.
      destruct (rh_cmd h); match type of H with match ?X with _ => _ end => destruct X end; auto.
    - destruct (N.ltb_spec (lenN src) (2 + 16)) as [|Hs]; [exact I|].
      destruct (p_open P 0 _ _ [] (takeN 18 src)) as [lb|] eqn:EO; [|auto].
      apply (vl_open_len HL) in EO. rewrite lenN_takeN in EO by lia. unfold TAG in EO.
      unfold get_u16. rewrite get_be_ok by lia. cbn [bind].
      destruct (lenN (dropN 18 src) <? be (takeN 2 lb) + 16); [exact I|].
      destruct (p_open P 0 _ _ [] (takeN (be (takeN 2 lb) + 16) (dropN 18 src))) as [hb|]; [|auto].
      destruct hb as [|v hb']; [auto|].
      destruct (v =? vs_v s); [|auto].
      destruct (dropN (be (takeN 2 lb) + 16) (dropN 18 src)) as [|y r] eqn:ER; [exact I|].
      pose proof (client_body_cases HL h (body_new P (rh_opt h) (rh_sec h) (resp_key P s) (resp_iv P s) (vs_key s) (vs_iv s)) (y :: r)) as H.
      destruct (rh_cmd h); match type of H with match ?X with _ => _ end => destruct X end; auto.
  Qed.

  Theorem client_vdecode_no_panic : vm_lens -> forall h s dec src, client_vdecode P h s dec src <> Panic.
  Proof. intros HL h s dec src E. pose proof (client_vdecode_cases HL h s dec src) as H. rewrite E in H. exact H. Qed.
  Theorem client_vdecode_errors : vm_lens -> forall h s dec src e, client_vdecode P h s dec src = Err e ->
    e = EAead \/ e = EBadAuth.
  Proof. intros HL h s dec src e E. pose proof (client_vdecode_cases HL h s dec src) as H. rewrite E in H. exact H. Qed.
End VmessSafety.

Print Assumptions parse_header_no_panic.
Print Assumptions parse_header_errors.
Print Assumptions vdec_loop_cases.
Print Assumptions decode_payload_v_no_panic.
Print Assumptions decode_packet_v_no_panic.
Print Assumptions decode_payload_v_errors.
Print Assumptions decode_packet_v_errors.
Print Assumptions open_header_no_panic.
Print Assumptions open_header_errors.
Print Assumptions open_header_errors_lens.
Print Assumptions server_vdecode_no_panic.
Print Assumptions server_vdecode_errors.
Print Assumptions server_vdecode_ready_errors.
Print Assumptions client_vdecode_no_panic.
Print Assumptions client_vdecode_errors.

(* ---------------------------------------------------------------------------------------------- *)
(* the premise is needed: with an AEAD that opens an 18-byte unit to an empty plaintext the model   *)
(* reaches `get_u16 []`                                                                            *)
(* ---------------------------------------------------------------------------------------------- *)
Definition badP : prims :=
  {| p_seal := fun _ _ _ _ m => m; p_open := fun _ _ _ _ _ => Some []; p_hkdf_sha1 := fun _ _ _ _ => [];
     p_b3derive := fun _ m => m; p_b3hash := fun m => m; p_aes_enc := fun _ b => b; p_aes_dec := fun _ b => b;
     p_md5 := fun m => m; p_sha224 := fun m => m; p_sha256 := fun m => m; p_shake128 := fun _ _ => []; p_crc32 := fun _ => 0 |}.
Example open_len_needed : decode_payload_v badP (body_new badP 16 3 [] [] [] []) (repeat 0 18) = Panic.
Proof. vm_compute. reflexivity. Qed.

(* ---------------------------------------------------------------------------------------------- *)
(* Toy primitives                                                                                  *)
(* ---------------------------------------------------------------------------------------------- *)
Module ToyVmess.
  Definition toy_mix (m : bytes) : N := fold_left (fun h b => N.land (h * 1000003 + b + 1) 18446744073709551615) m 7.
  Definition toy_hash16 (m : bytes) : bytes := let h := put_be 8 (toy_mix m) in h ++ h.
  Definition toy_hash32 (m : bytes) : bytes := toy_hash16 m ++ toy_hash16 (m ++ [1]).
  Definition toy_tag (k n a : bytes) : bytes := toy_hash16 (n ++ k ++ a).
  Definition toy_seal (c : N) (k n a m : bytes) : bytes := m ++ toy_tag k n a.
  Definition toy_open (c : N) (k n a ct : bytes) : option bytes :=
    if (16 <=? lenN ct) && bytes_eqb (dropN (lenN ct - 16) ct) (toy_tag k n a)
    then Some (takeN (lenN ct - 16) ct) else None.
  (* an involutive "block cipher": xor with the key (zero-extended) *)
  Fixpoint toy_xor (k b : bytes) : bytes :=
    match b with
    | [] => []
    | x :: t => match k with [] => x :: toy_xor [] t | y :: k' => N.lxor x y :: toy_xor k' t end
    end.
  Definition toy_shake (seed : bytes) (n : N) : bytes :=
    map (fun i => (toy_mix seed + N.of_nat i * 37 + N.of_nat i * N.of_nat i) mod 256) (seq 0 (N.to_nat n)).

  Definition toyV : prims :=
    {| p_seal := toy_seal; p_open := toy_open;
       p_hkdf_sha1 := fun ikm salt info n => takeN n (salt ++ ikm ++ repeat 2 (N.to_nat n));
       p_b3derive := fun c m => takeN 32 (m ++ repeat 1 32);
       p_b3hash := fun m => takeN 32 (m ++ repeat 3 32);
       p_aes_enc := toy_xor; p_aes_dec := toy_xor;
       p_md5 := toy_hash16; p_sha224 := toy_hash32; p_sha256 := toy_hash32;
       p_shake128 := toy_shake; p_crc32 := fun m => toy_mix m mod 2 ^ 32 |}.

  Lemma bytes_eqb_refl a : bytes_eqb a a = true.
  Proof. unfold bytes_eqb. destruct (list_eq_dec N.eq_dec a a); [reflexivity|contradiction]. Qed.
  Lemma toy_tag_len k n a : lenN (toy_tag k n a) = 16.
  Proof. unfold toy_tag, toy_hash16. cbn zeta. rewrite lenN_app, lenN_put_be. reflexivity. Qed.
  Lemma toy_xor_invol : forall b k, toy_xor k (toy_xor k b) = b.
  Proof.
    induction b as [|x t IH]; intros k; [reflexivity|]. destruct k as [|y k']; cbn [toy_xor].
    - rewrite IH. reflexivity.
    - rewrite IH. rewrite N.lxor_assoc, N.lxor_nilpotent, N.lxor_0_r. reflexivity.
  Qed.

  Lemma toy_laws : prim_laws toyV.
  Proof.
    constructor; cbn [toyV p_seal p_open p_aes_enc p_aes_dec].
    - intros c k n a m. unfold toy_open, toy_seal.
      rewrite lenN_app, toy_tag_len. replace (lenN m + 16 - 16) with (lenN m) by lia.
      destruct (N.leb_spec 16 (lenN m + 16)); [|lia].
      rewrite dropN_app_exact, takeN_app_exact, bytes_eqb_refl. reflexivity.
    - intros c k n a m. unfold toy_seal. rewrite lenN_app, toy_tag_len. reflexivity.
    - intros c k n a ct m. unfold toy_open.
      destruct (N.leb_spec 16 (lenN ct)) as [Hle|]; [|discriminate].
      destruct (bytes_eqb _ _); [|discriminate]. cbn [andb]. intros [= <-].
      rewrite lenN_takeN by lia. unfold TAG. lia.
    - intros k b. apply toy_xor_invol.
    - intros k b. apply toy_xor_invol.
  Qed.
  Lemma toy_lens : vm_lens toyV.
  Proof. constructor. exact (open_len toyV toy_laws). Qed.
  Lemma toy_shake_len : forall seed n, lenN (p_shake128 toyV seed n) = n.
  Proof. intros seed n. cbn [toyV p_shake128]. unfold toy_shake. rewrite lenN_spec, map_length, seq_length. lia. Qed.
  Lemma toy_shake_wf : forall seed n, wf_bytes (p_shake128 toyV seed n).
  Proof.
    intros seed n. cbn [toyV p_shake128]. unfold toy_shake, wf_bytes. apply Forall_forall. intros x Hx.
    apply in_map_iff in Hx. destruct Hx as (i & <- & _). apply N.mod_lt. lia.
  Qed.
  Lemma toy_crc_lt : forall m, p_crc32 toyV m < 2 ^ 32.
  Proof. intros m. cbn [toyV p_crc32]. apply N.mod_lt. lia. Qed.

  (* the safety theorems instantiated: the premise is satisfiable *)
  Definition toy_server_vdecode_no_panic := server_vdecode_no_panic toyV toy_lens.
  Definition toy_server_vdecode_errors := server_vdecode_errors toyV toy_lens.
  Definition toy_client_vdecode_no_panic := client_vdecode_no_panic toyV toy_lens.

  (* ---- concrete requests ---- *)
  Definition uid : bytes := [1;2;3;4;5;6;7;8;9;10;11;12;13;14;15;16].
  Definition uid2 : bytes := [16;15;14;13;12;11;10;9;8;7;6;5;4;3;2;1].
  Definition req_iv : bytes := [21;22;23;24;25;26;27;28;29;30;31;32;33;34;35;36].
  Definition req_key : bytes := [41;42;43;44;45;46;47;48;49;50;51;52;53;54;55;56].
  Definition sess : vsession := {| vs_iv := req_iv; vs_key := req_key; vs_v := 77 |}.
  Definition target : addr := ADom [101;120;46;111;114;103] 443.      (* "ex.org":443 *)
  Definition rnd4 : bytes := [201;202;203;204].
  Definition cnonce : bytes := [211;212;213;214;215;216;217;218].
  Definition now0 : N := 1700000000.
  Definition mk_req (hb : bytes) : bytes := seal_header toyV uid (auth_id_create toyV uid now0 rnd4) cnonce hb.
  (* a raw request header: fixed part, then [tail] (address, padding, checksum) *)
  Definition raw_hdr (cmd : N) (tail : bytes) : bytes := [1] ++ req_iv ++ req_key ++ [77; 1; 3; 0; cmd] ++ tail.
  Definition with_sum (body : bytes) : bytes := body ++ put_u32 (fnv1a32 body).

  Example reach_EBadUser : server_vdecode toyV now0 [uid2] SInit (mk_req (repeat 0 50)) = Err EBadUser.
  Proof. vm_compute. reflexivity. Qed.
  Example reach_EAead : server_vdecode toyV now0 [uid2; uid] SInit (auth_id_create toyV uid now0 rnd4 ++ repeat 0 42) = Err EAead.
  Proof. vm_compute. reflexivity. Qed.
  Example reach_EShort : server_vdecode toyV now0 [uid2; uid] SInit (mk_req (repeat 0 10)) = Err EShort.
  Proof. vm_compute. reflexivity. Qed.
  Example reach_EBadCmd : server_vdecode toyV now0 [uid2; uid] SInit (mk_req (raw_hdr 9 (repeat 0 8))) = Err EBadCmd.
  Proof. vm_compute. reflexivity. Qed.
  Example reach_EBadAddrType : server_vdecode toyV now0 [uid2; uid] SInit (mk_req (raw_hdr 1 [1;187;9;0;0;0;0;0])) = Err EBadAddrType.
  Proof. vm_compute. reflexivity. Qed.
  Example reach_EUtf8 : server_vdecode toyV now0 [uid2; uid] SInit (mk_req (raw_hdr 1 [1;187;2;1;255;0;0;0;0])) = Err EUtf8.
  Proof. vm_compute. reflexivity. Qed.
  Example reach_EBadAuth : server_vdecode toyV now0 [uid2; uid] SInit (mk_req (raw_hdr 1 [1;187;1;10;0;0;1;0;0;0;0])) = Err EBadAuth.
  Proof. vm_compute. reflexivity. Qed.
  (* and the same header with the right checksum is accepted *)
  Example reach_Ok : server_vdecode toyV now0 [uid2; uid] SInit (mk_req (with_sum (raw_hdr 1 [1;187;1;10;0;0;1]))) =
    Ok (SReady {| rh_opt := 1; rh_sec := 3; rh_cmd := CmdTcp; rh_addr := AV4 [10;0;0;1] 443 |} sess
               (set_state (body_new toyV 1 3 req_key req_iv req_key req_iv) (BLength 0)),
        [], Some (ConnectTcp [] (AV4 [10;0;0;1] 443))).
  Proof. vm_compute. reflexivity. Qed.
End ToyVmess.

Print Assumptions ToyVmess.toy_laws.
Print Assumptions ToyVmess.toy_lens.
