(* Facts about Model/Socks5.v (protocol/socks5/codec.rs): the four handshake decoders and Socks5UdpCodec.

   1. Totality: none of the five decoders can return Panic, whatever the input          [..._total]
   2. s5_udp_decode never returns Err and always consumes the whole datagram             [s5_udp_decode_consumes_all]
   3. Round trips / exact consumption with an arbitrary tail                             [..._roundtrip]
   4. Incrementality: on every proper prefix of a complete valid message the decoder returns
      Ok (prefix, None) (waits, consumes nothing)                                        [..._waits]
      and, under the FramedRead contract (Lib/Framed.v), EVERY segmentation of a valid message yields exactly
      one item (the message), leftover [], status Waiting                               [..._any_segmentation]
      -- proved for all four decoders (nothing here is `_partial`).

   Not stated: a FramedRead run over `msg ++ tail` with a non-empty tail.  In the implementation the codec is
   replaced after each handshake message, so what happens to the tail is a property of the NEXT decoder; the
   `_roundtrip` lemmas (arbitrary tail is left untouched) are the facts needed for that composition.

   The command request and the command response decoder differ only in the test on the second byte and the
   error it raises; both are instances of `cmd_generic` below (by reflexivity). *)
From Coq Require Import NArith List Lia Bool Arith ZArith ZifyBool ZifyN ZifyNat.
From Octo Require Import Base.Bytes Model.Address Proofs.AddressFacts Model.Socks5 Lib.Framed Proofs.CodecLemmas.
Import ListNotations.
Open Scope N_scope.

(* ---------------- the shape shared by command request / response ---------------- *)
Definition cmd_generic (okb : N -> bool) (e : err) (src : bytes) : res (bytes * option (N * addr)) :=
  if lenN src <? 4 then Ok (src, None) else
  let* v := index src 0 in
  if negb (v =? S5_VERSION) then Err EBadVersion else
  let* c := index src 1 in
  if negb (okb c) then Err e else
  let* need := s5_try_decode_at src 3 in
  match need with
  | None => Ok (src, None)
  | Some al =>
    if lenN src <? 3 + al then Ok (src, None) else
    let* r := advance 3 src in
    let* (ad, r) := s5_decode r in
    Ok (r, Some (c, ad))
  end.
Definition reply_ok (st : N) : bool := (st =? 0) || (st =? 1).
Lemma command_request_generic src : s5_command_request src = cmd_generic command_ok EBadCmd src.
Proof. reflexivity. Qed.
Lemma command_response_generic src : s5_command_response src = cmd_generic reply_ok EOther src.
Proof. reflexivity. Qed.

Lemma try_at_3 (x0 x1 x2 : N) r : s5_try_decode_at (x0 :: x1 :: x2 :: r) 3 = s5_try_decode_at r 0.
Proof. rewrite try_at_shift. reflexivity. Qed.

Section Generic.
  Variables (okb : N -> bool) (e : err).

  Lemma cmd_generic_total src : cmd_generic okb e src <> Panic.
  Proof.
    unfold cmd_generic. destruct src as [|x0 [|x1 [|x2 r]]]; try (cbv; discriminate).
    destruct (N.ltb_spec (lenN (x0 :: x1 :: x2 :: r)) 4) as [|H4]; [discriminate|].
    rewrite index_0. cbn [bind]. destruct (negb (x0 =? S5_VERSION)); [discriminate|].
    rewrite index_1. cbn [bind]. destruct (negb (okb x1)); [discriminate|].
    rewrite try_at_3. destruct (s5_try_decode_at r 0) as [[al|]|e'|] eqn:E; cbn [bind]; try discriminate.
    - destruct (N.ltb_spec (lenN (x0 :: x1 :: x2 :: r)) (3 + al)) as [|Hl]; [discriminate|].
      rewrite advance_3_cons. cbn [bind]. rewrite !lenN_cons in Hl.
      destruct (s5_decode_of_need r al E ltac:(lia)) as (a & ->). discriminate.
    - exfalso. eapply s5_try_decode_at_total. exact E.
  Qed.

  (* the only errors *)
  Lemma cmd_generic_errors src e' : cmd_generic okb e src = Err e' -> e' = EBadVersion \/ e' = e \/ e' = EBadAddrType.
  Proof.
    unfold cmd_generic. destruct src as [|x0 [|x1 [|x2 r]]]; try (cbv; discriminate).
    destruct (N.ltb_spec (lenN (x0 :: x1 :: x2 :: r)) 4) as [|H4]; [discriminate|].
    rewrite index_0. cbn [bind]. destruct (negb (x0 =? S5_VERSION)); [intros [= <-]; auto|].
    rewrite index_1. cbn [bind]. destruct (negb (okb x1)); [intros [= <-]; auto|].
    rewrite try_at_3. destruct (s5_try_decode_at r 0) as [[al|]|e''|] eqn:E; cbn [bind]; try discriminate.
    - destruct (N.ltb_spec (lenN (x0 :: x1 :: x2 :: r)) (3 + al)) as [|Hl]; [discriminate|].
      rewrite advance_3_cons. cbn [bind]. rewrite !lenN_cons in Hl.
      destruct (s5_decode_of_need r al E ltac:(lia)) as (a & ->). discriminate.
    - intros [= <-]. right; right. eapply try_at_err. exact E.
  Qed.

  (* complete message followed by any tail: decoded, exactly the tail is left (the RSV byte is not inspected) *)
  Lemma cmd_generic_roundtrip c rsv a tail : okb c = true -> addr_wf a -> representable a ->
    cmd_generic okb e ([5; c; rsv] ++ s5_encode a ++ tail) = Ok (tail, Some (c, a)).
  Proof.
    intros Hc Hwf Hrep. unfold cmd_generic. cbn [app].
    pose proof (s5_encode_len_ge5 a Hwf Hrep) as H5.
    destruct (N.ltb_spec (lenN (5 :: c :: rsv :: s5_encode a ++ tail)) 4) as [Hl|_];
      [rewrite !lenN_cons, lenN_app in Hl; lia|].
    rewrite index_0. cbn [bind]. change (negb (5 =? S5_VERSION)) with false. cbv iota.
    rewrite index_1. cbn [bind]. rewrite Hc. cbn [negb].
    rewrite try_at_3. pose proof (s5_try_decode_at_ok [] a tail Hwf Hrep) as Ht. cbn [app] in Ht.
    rewrite lenN_nil in Ht. rewrite Ht. cbn [bind].
    destruct (N.ltb_spec (lenN (5 :: c :: rsv :: s5_encode a ++ tail)) (3 + lenN (s5_encode a))) as [Hl|_];
      [rewrite !lenN_cons, lenN_app in Hl; lia|].
    rewrite advance_3_cons. cbn [bind]. rewrite s5_roundtrip by assumption. reflexivity.
  Qed.

  (* proper prefix of a complete message: wait, consume nothing *)
  Lemma cmd_generic_waits c rsv a p q : okb c = true -> addr_wf a -> representable a ->
    p ++ q = [5; c; rsv] ++ s5_encode a -> q <> [] -> cmd_generic okb e p = Ok (p, None).
  Proof.
    intros Hc Hwf Hrep H Hq. destruct p as [|x0 [|x1 [|x2 p']]]; try reflexivity.
    cbn [app] in H. injection H as -> -> -> H. unfold cmd_generic.
    destruct (N.ltb_spec (lenN (5 :: c :: rsv :: p')) 4) as [|_]; [reflexivity|].
    rewrite index_0. cbn [bind]. change (negb (5 =? S5_VERSION)) with false. cbv iota.
    rewrite index_1. cbn [bind]. rewrite Hc. cbn [negb].
    rewrite try_at_3.
    assert (Hpq : p' ++ q = s5_encode a ++ []) by (rewrite app_nil_r; exact H).
    destruct (s5_prefix_undecided a p' q [] Hwf Hrep Hpq) as [-> | ->]; cbn [bind]; [reflexivity|].
    assert (Hlen : lenN (s5_encode a) = lenN p' + lenN q) by (rewrite <- H, lenN_app; reflexivity).
    assert (0 < lenN q) by (destruct q; [contradiction|rewrite lenN_cons; lia]).
    destruct (N.ltb_spec (lenN (5 :: c :: rsv :: p')) (3 + lenN (s5_encode a))) as [_|Hl];
      [reflexivity|rewrite !lenN_cons in Hl; lia].
  Qed.

  Lemma cmd_generic_nil : cmd_generic okb e [] = Ok ([], None).
  Proof. reflexivity. Qed.

  (* every segmentation of the message under FramedRead: exactly the one item *)
  Lemma cmd_generic_any_segmentation c rsv a segs : okb c = true -> addr_wf a -> representable a ->
    concat segs = [5; c; rsv] ++ s5_encode a ->
    Framed.run _ _ (lift_dec _ (cmd_generic okb e)) tt [] segs [] = (tt, [], [(c, a)], Waiting).
  Proof.
    intros Hc Hwf Hrep H.
    apply (one_message_any_segmentation _ (cmd_generic okb e) ([5; c; rsv] ++ s5_encode a) (c, a)).
    - apply cmd_generic_nil.
    - intros p q Hpq Hq. eapply cmd_generic_waits; eassumption.
    - pose proof (cmd_generic_roundtrip c rsv a [] Hc Hwf Hrep) as R. rewrite app_nil_r in R. exact R.
    - discriminate.
    - exact H.
  Qed.
End Generic.

(* =========================== 1. Totality =========================== *)
Theorem s5_initial_request_total : forall src, s5_initial_request src <> Panic.
Proof.
  intros src. unfold s5_initial_request. destruct src as [|x0 [|x1 r]]; try (cbv; discriminate).
  destruct (N.ltb_spec (lenN (x0 :: x1 :: r)) 2) as [|_]; [discriminate|].
  rewrite index_0. cbn [bind]. destruct (negb (x0 =? S5_VERSION)); [discriminate|].
  rewrite index_1. cbn [bind].
  destruct (N.ltb_spec (lenN (x0 :: x1 :: r)) (2 + x1)) as [|Hl]; [discriminate|].
  rewrite advance_2_cons. cbn [bind]. rewrite !lenN_cons in Hl. rewrite split_to_ok by lia. cbn [bind].
  destruct (forallb auth_method_ok (takeN x1 r)); discriminate.
Qed.

Theorem s5_command_request_total : forall src, s5_command_request src <> Panic.
Proof. intros src. rewrite command_request_generic. apply cmd_generic_total. Qed.

Theorem s5_initial_response_total : forall src, s5_initial_response src <> Panic.
Proof.
  intros src. unfold s5_initial_response. destruct src as [|x0 [|x1 r]]; try (cbv; discriminate).
  destruct (N.ltb_spec (lenN (x0 :: x1 :: r)) 2) as [|_]; [discriminate|].
  rewrite index_0. cbn [bind]. destruct (negb (x0 =? S5_VERSION)); [discriminate|].
  rewrite index_1. cbn [bind]. destruct (auth_method_ok x1); [|discriminate].
  rewrite advance_2_cons. discriminate.
Qed.

Theorem s5_command_response_total : forall src, s5_command_response src <> Panic.
Proof. intros src. rewrite command_response_generic. apply cmd_generic_total. Qed.

Theorem s5_udp_decode_total : forall src, s5_udp_decode src <> Panic.
Proof.
  intros src. unfold s5_udp_decode. destruct src as [|x0 [|x1 [|x2 r]]]; try (cbv; discriminate).
  destruct (N.ltb_spec (lenN (x0 :: x1 :: x2 :: r)) 5) as [|_]; [discriminate|].
  rewrite index_2. cbn [bind]. destruct (negb (x2 =? 0)); [discriminate|].
  rewrite advance_3_cons. cbn [bind].
  pose proof (s5_decode_total r) as HT. destruct (s5_decode r) as [[ad pl]|e|]; [discriminate|discriminate|contradiction].
Qed.

(* the possible errors of the two command decoders *)
Theorem s5_command_request_errors : forall src e, s5_command_request src = Err e ->
  e = EBadVersion \/ e = EBadCmd \/ e = EBadAddrType.
Proof. intros src e. rewrite command_request_generic. apply cmd_generic_errors. Qed.
Theorem s5_command_response_errors : forall src e, s5_command_response src = Err e ->
  e = EBadVersion \/ e = EOther \/ e = EBadAddrType.
Proof. intros src e. rewrite command_response_generic. apply cmd_generic_errors. Qed.

(* =========================== 2. the UDP codec cannot be wedged =========================== *)
(* whatever the datagram (empty, short, fragmented, bad address type, truncated address): no Err, no Panic, and
   the buffer is consumed completely, so UdpFramed always moves on to the next datagram *)
Theorem s5_udp_decode_consumes_all : forall src, exists it, s5_udp_decode src = Ok ([], it).
Proof.
  intros src. unfold s5_udp_decode. destruct src as [|x0 [|x1 [|x2 r]]]; try (cbv; eauto; fail).
  destruct (N.ltb_spec (lenN (x0 :: x1 :: x2 :: r)) 5) as [|_]; [eauto|].
  rewrite index_2. cbn [bind]. destruct (negb (x2 =? 0)); [eauto|].
  rewrite advance_3_cons. cbn [bind].
  pose proof (s5_decode_total r) as HT. destruct (s5_decode r) as [[ad pl]|e|]; [eauto|eauto|contradiction].
Qed.

Corollary s5_udp_decode_never_err : forall src e, s5_udp_decode src <> Err e.
Proof. intros src e. destruct (s5_udp_decode_consumes_all src) as (it & ->). discriminate. Qed.

(* an item is produced only for an unfragmented datagram whose address decodes, and then the payload is
   exactly what follows the address *)
Theorem s5_udp_decode_item : forall src pl a, s5_udp_decode src = Ok ([], Some (pl, a)) ->
  exists x0 x1 r, src = x0 :: x1 :: 0 :: r /\ s5_decode r = Ok (a, pl).
Proof.
  intros src pl a. unfold s5_udp_decode. destruct src as [|x0 [|x1 [|x2 r]]]; try (cbv; discriminate).
  destruct (N.ltb_spec (lenN (x0 :: x1 :: x2 :: r)) 5) as [|_]; [discriminate|].
  rewrite index_2. cbn [bind]. destruct (N.eqb_spec x2 0) as [->|]; cbn [negb]; [|discriminate].
  rewrite advance_3_cons. cbn [bind].
  destruct (s5_decode r) as [[ad pl']|e|] eqn:E; try discriminate.
  intros [= <- <-]. exists x0, x1, r. split; [reflexivity|exact E].
Qed.

(* =========================== 3. Round trips =========================== *)
Theorem s5_udp_roundtrip : forall pl a, addr_wf a -> representable a ->
  s5_udp_decode (s5_udp_encode pl a) = Ok ([], Some (pl, a)).
Proof.
  intros pl a Hwf Hrep. unfold s5_udp_decode, s5_udp_encode. cbn [app].
  pose proof (s5_encode_len_ge5 a Hwf Hrep) as H5.
  destruct (N.ltb_spec (lenN (0 :: 0 :: 0 :: s5_encode a ++ pl)) 5) as [Hl|_];
    [rewrite !lenN_cons, lenN_app in Hl; lia|].
  rewrite index_2. cbn [bind]. change (negb (0 =? 0)) with false. cbv iota.
  rewrite advance_3_cons. cbn [bind]. rewrite s5_roundtrip by assumption. reflexivity.
Qed.

(* (the RSV byte is not inspected by the decoder, so the statement holds for every value of it, in particular 0) *)
Theorem s5_command_request_roundtrip : forall c rsv a tail, command_ok c = true -> addr_wf a -> representable a ->
  s5_command_request ([5; c; rsv] ++ s5_encode a ++ tail) = Ok (tail, Some (c, a)).
Proof. intros. rewrite command_request_generic. apply cmd_generic_roundtrip; assumption. Qed.

Theorem s5_command_response_roundtrip : forall st rsv a tail, reply_ok st = true -> addr_wf a -> representable a ->
  s5_command_response ([5; st; rsv] ++ s5_encode a ++ tail) = Ok (tail, Some (st, a)).
Proof. intros. rewrite command_response_generic. apply cmd_generic_roundtrip; assumption. Qed.

(* (no bound on lenN ms is needed in the model: a byte is an N; on the wire lenN ms < 256) *)
Theorem s5_initial_request_roundtrip : forall ms tail, forallb auth_method_ok ms = true ->
  s5_initial_request ([5; lenN ms] ++ ms ++ tail) = Ok (tail, Some ms).
Proof.
  intros ms tail Hok. unfold s5_initial_request. cbn [app].
  destruct (N.ltb_spec (lenN (5 :: lenN ms :: ms ++ tail)) 2) as [Hl|_]; [rewrite !lenN_cons in Hl; lia|].
  rewrite index_0. cbn [bind]. change (negb (5 =? S5_VERSION)) with false. cbv iota.
  rewrite index_1. cbn [bind].
  destruct (N.ltb_spec (lenN (5 :: lenN ms :: ms ++ tail)) (2 + lenN ms)) as [Hl|_];
    [rewrite !lenN_cons, lenN_app in Hl; lia|].
  rewrite advance_2_cons. cbn [bind]. rewrite split_to_app. cbn [bind]. rewrite Hok. reflexivity.
Qed.

Theorem s5_initial_response_roundtrip : forall m tail, auth_method_ok m = true ->
  s5_initial_response ([5; m] ++ tail) = Ok (tail, Some m).
Proof.
  intros m tail Hok. unfold s5_initial_response. cbn [app].
  destruct (N.ltb_spec (lenN (5 :: m :: tail)) 2) as [Hl|_]; [rewrite !lenN_cons in Hl; lia|].
  rewrite index_0. cbn [bind]. change (negb (5 =? S5_VERSION)) with false. cbv iota.
  rewrite index_1. cbn [bind]. rewrite Hok. rewrite advance_2_cons. reflexivity.
Qed.

(* =========================== 4. Incrementality =========================== *)
Theorem s5_command_request_waits : forall c rsv a p q, command_ok c = true -> addr_wf a -> representable a ->
  p ++ q = [5; c; rsv] ++ s5_encode a -> q <> [] -> s5_command_request p = Ok (p, None).
Proof. intros. rewrite command_request_generic. eapply cmd_generic_waits; eassumption. Qed.

Theorem s5_command_response_waits : forall st rsv a p q, reply_ok st = true -> addr_wf a -> representable a ->
  p ++ q = [5; st; rsv] ++ s5_encode a -> q <> [] -> s5_command_response p = Ok (p, None).
Proof. intros. rewrite command_response_generic. eapply cmd_generic_waits; eassumption. Qed.

Theorem s5_initial_request_waits : forall ms p q,
  p ++ q = [5; lenN ms] ++ ms -> q <> [] -> s5_initial_request p = Ok (p, None).
Proof.
  intros ms p q H Hq. destruct p as [|x0 [|x1 p']]; try reflexivity.
  cbn [app] in H. injection H as -> -> H. unfold s5_initial_request.
  destruct (N.ltb_spec (lenN (5 :: lenN ms :: p')) 2) as [|_]; [reflexivity|].
  rewrite index_0. cbn [bind]. change (negb (5 =? S5_VERSION)) with false. cbv iota.
  rewrite index_1. cbn [bind].
  assert (Hlen : lenN ms = lenN p' + lenN q) by (rewrite <- H, lenN_app; reflexivity).
  assert (0 < lenN q) by (destruct q; [contradiction|rewrite lenN_cons; lia]).
  destruct (N.ltb_spec (lenN (5 :: lenN ms :: p')) (2 + lenN ms)) as [_|Hl];
    [reflexivity|rewrite !lenN_cons in Hl; lia].
Qed.

Theorem s5_initial_response_waits : forall m p q,
  p ++ q = [5; m] -> q <> [] -> s5_initial_response p = Ok (p, None).
Proof.
  intros m p q H Hq. destruct p as [|x0 [|x1 p']]; try reflexivity.
  cbn [app] in H. injection H as -> -> H. apply app_eq_nil in H. destruct H as [_ ->]. contradiction.
Qed.

(* FramedRead over any segmentation (segments may be empty) of one valid message *)
Theorem s5_command_request_any_segmentation : forall c rsv a segs,
  command_ok c = true -> addr_wf a -> representable a -> concat segs = [5; c; rsv] ++ s5_encode a ->
  Framed.run _ _ (lift_dec _ s5_command_request) tt [] segs [] = (tt, [], [(c, a)], Waiting).
Proof. intros. apply (cmd_generic_any_segmentation command_ok EBadCmd c rsv a segs); assumption. Qed.

Theorem s5_command_response_any_segmentation : forall st rsv a segs,
  reply_ok st = true -> addr_wf a -> representable a -> concat segs = [5; st; rsv] ++ s5_encode a ->
  Framed.run _ _ (lift_dec _ s5_command_response) tt [] segs [] = (tt, [], [(st, a)], Waiting).
Proof. intros. apply (cmd_generic_any_segmentation reply_ok EOther st rsv a segs); assumption. Qed.

Theorem s5_initial_request_any_segmentation : forall ms segs,
  forallb auth_method_ok ms = true -> concat segs = [5; lenN ms] ++ ms ->
  Framed.run _ _ (lift_dec _ s5_initial_request) tt [] segs [] = (tt, [], [ms], Waiting).
Proof.
  intros ms segs Hok H.
  apply (one_message_any_segmentation _ s5_initial_request ([5; lenN ms] ++ ms) ms).
  - reflexivity.
  - intros p q Hpq Hq. eapply s5_initial_request_waits; eassumption.
  - pose proof (s5_initial_request_roundtrip ms [] Hok) as R. rewrite app_nil_r in R. exact R.
  - discriminate.
  - exact H.
Qed.

Theorem s5_initial_response_any_segmentation : forall m segs,
  auth_method_ok m = true -> concat segs = [5; m] ->
  Framed.run _ _ (lift_dec _ s5_initial_response) tt [] segs [] = (tt, [], [m], Waiting).
Proof.
  intros m segs Hok H.
  apply (one_message_any_segmentation _ s5_initial_response [5; m] m).
  - reflexivity.
  - intros p q Hpq Hq. eapply s5_initial_response_waits; eassumption.
  - exact (s5_initial_response_roundtrip m [] Hok).
  - discriminate.
  - exact H.
Qed.

(* ---------------- concrete checks ---------------- *)
Example ex_cmd_req_domain :
  s5_command_request ([5; 1; 0] ++ s5_encode (ADom [97; 46; 98] 443) ++ [9; 9]) = Ok ([9; 9], Some (1, ADom [97; 46; 98] 443)).
Proof. vm_compute. reflexivity. Qed.
Example ex_cmd_req_prefix : s5_command_request [5; 1; 0; 3; 3; 97] = Ok ([5; 1; 0; 3; 3; 97], None).
Proof. vm_compute. reflexivity. Qed.
Example ex_udp_garbage : s5_udp_decode [0; 0; 0; 9; 1; 2; 3] = Ok ([], None).
Proof. vm_compute. reflexivity. Qed.
Example ex_udp_frag : s5_udp_decode [0; 0; 1; 1; 1; 2; 3; 4; 0; 80; 7] = Ok ([], None).
Proof. vm_compute. reflexivity. Qed.
Example ex_cmd_req_segs :
  Framed.run _ _ (lift_dec _ s5_command_request) tt [] [[5]; []; [1; 0; 1; 10]; [0; 0; 1; 0]; [80]] []
  = (tt, [], [(1, AV4 [10; 0; 0; 1] 80)], Waiting).
Proof. vm_compute. reflexivity. Qed.

Print Assumptions s5_initial_request_total.
Print Assumptions s5_command_request_total.
Print Assumptions s5_initial_response_total.
Print Assumptions s5_command_response_total.
Print Assumptions s5_udp_decode_total.
Print Assumptions s5_command_request_errors.
Print Assumptions s5_command_response_errors.
Print Assumptions s5_udp_decode_consumes_all.
Print Assumptions s5_udp_decode_never_err.
Print Assumptions s5_udp_decode_item.
Print Assumptions s5_udp_roundtrip.
Print Assumptions s5_command_request_roundtrip.
Print Assumptions s5_command_response_roundtrip.
Print Assumptions s5_initial_request_roundtrip.
Print Assumptions s5_initial_response_roundtrip.
Print Assumptions s5_command_request_waits.
Print Assumptions s5_command_response_waits.
Print Assumptions s5_initial_request_waits.
Print Assumptions s5_initial_response_waits.
Print Assumptions s5_command_request_any_segmentation.
Print Assumptions s5_command_response_any_segmentation.
Print Assumptions s5_initial_request_any_segmentation.
Print Assumptions s5_initial_response_any_segmentation.
