(* Facts about the per-protocol UDP adapter TABLES (Generated/UdpAdapters.v, read off the source by
   tools/gen_from_source.py gen_udp_adapters; judgements: Model/UdpAdapters.v).  Each is decided by evaluation over the
   generated tables, so a source change that alters a table is re-judged here first:

     target_reaches_wire_or_key   (a) for every protocol the address the server sends to is the datagram's own target:
                                  it travels with every datagram and the server uses that one, or the server uses the
                                  request header's, the outbound is made for the binding's target and the binding key
                                  contains the target (otherwise two targets of one application collide)
     label_is_replying_target     (b) the label of a reply is the source the server reported, or the binding's target in
                                  a protocol whose binding key contains the target (so it IS the replying target)
     assoc_key_parts_complete     (c) the server's association key names the client session, the user and the address
     R1_judged R2_judged R3_judged  the shapes of the seeded regressions are rejected by the same judgements

   What the judgements MEAN for histories of the binding / association tables: Proofs/UdpAdapterTableFacts.v. *)
From Coq Require Import List Bool.
From Octo Require Import Model.UdpAdapters.
Import ListNotations.

(* ---------------- (a) the target ---------------- *)
Lemma target_ok_spec s :
  target_ok s = true <->
  (s_out s = OutKeepsTarget /\ s_dest s = DestPerPacket) \/
  (s_key s = KSenderTarget /\ s_bound s = OutboundFixedTarget /\ s_dest s = DestRequestHeader).
Proof.
  unfold target_ok. destruct (s_dest s), (s_out s), (s_bound s), (s_key s); split; intros H; auto;
    try discriminate; destruct H as [[H1 H2]|(H1 & H2 & H3)]; discriminate.
Qed.

Theorem target_reaches_wire_or_key :
  forall p,
    (client_out_shape p = OutKeepsTarget /\ server_udp_dest p = DestPerPacket) \/
    (client_key_shape p = KSenderTarget /\ client_outbound_binding p = OutboundFixedTarget /\
     server_udp_dest p = DestRequestHeader).
Proof. intros p. apply (target_ok_spec (shape_of p)). destruct p; reflexivity. Qed.

Lemma target_ok_current p : target_ok (shape_of p) = true.
Proof. apply target_ok_spec, target_reaches_wire_or_key. Qed.

(* the weaker reading: carried per datagram, or part of the key *)
Corollary target_carried_or_in_key :
  forall p, client_out_shape p = OutKeepsTarget \/ client_key_shape p = KSenderTarget.
Proof. intros p. destruct (target_reaches_wire_or_key p) as [[H _]|[H _]]; auto. Qed.

(* ---------------- (b) the label ---------------- *)
Lemma label_ok_spec s :
  label_ok s = true <->
  s_label s = LabelFromServer \/ (s_label s = LabelBindingTarget /\ s_key s = KSenderTarget).
Proof.
  unfold label_ok. destruct (s_label s), (s_key s); split; intros H; auto; try discriminate;
    destruct H as [H|[H1 H2]]; discriminate.
Qed.

Theorem label_is_replying_target :
  forall p,
    client_label_src p = LabelFromServer \/
    (client_label_src p = LabelBindingTarget /\ client_key_shape p = KSenderTarget).
Proof. intros p. apply (label_ok_spec (shape_of p)). destruct p; reflexivity. Qed.

Lemma label_ok_current p : label_ok (shape_of p) = true.
Proof. apply label_ok_spec, label_is_replying_target. Qed.

(* ---------------- (c) the association key ---------------- *)
Theorem assoc_key_parts_complete : assoc_parts_ok server_assoc_key_parts = true.
Proof. reflexivity. Qed.

(* ---------------- the regressions ---------------- *)
Theorem R1_judged : target_ok R1_vmess = false /\ label_ok R1_vmess = false.
Proof. split; reflexivity. Qed.

Theorem R2_judged : label_ok R2_shadowsocks = false /\ target_ok R2_shadowsocks = true.
Proof. split; reflexivity. Qed.

Theorem R3_judged : assoc_parts_ok R3_parts = false.
Proof. reflexivity. Qed.

Print Assumptions target_reaches_wire_or_key.
Print Assumptions label_is_replying_target.
Print Assumptions assoc_key_parts_complete.
