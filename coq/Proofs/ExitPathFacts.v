(* Facts about the exit paths (Model/ExitPaths.v) of the CURRENT source (Generated/ExitPaths.v).

   The scenario spaces are finite (server: 5 transports x 5 first items x 8 environments x 6 pump endings x
   peer alive or not = 2400; client: 5 x 2 x 2 x 6 x 2 = 240); every universally quantified theorem is proved by
   evaluating the interpreter on every scenario (vm_compute over `current`, i.e. over the generated tables) and a
   completeness lemma of the enumeration.  A source change that alters a generated table is therefore re-judged
   on every path; the *_witness lemmas at the end show, on explicit tables, which changes the theorems reject. *)
From Coq Require Import List Bool Arith.
From Octo Require Import Model.Relay Proofs.RelayFacts.
From Octo Require Import Generated.ExitPaths Model.ExitPaths.
Import ListNotations.

(* ---------- the enumerations are complete ---------- *)
Lemma all_transports_complete t : In t all_transports.  Proof. destruct t; simpl; tauto. Qed.
Lemma all_first_items_complete k : In k all_first_items.  Proof. destruct k; simpl; tauto. Qed.
Lemma all_bools_complete b : In b all_bools.  Proof. destruct b; simpl; tauto. Qed.
Lemma all_endings_complete e : In e all_endings.
Proof. destruct e as [[[|]|] [|]]; simpl; tauto. Qed.

Lemma all_sscn_complete sc : In sc all_sscn.
Proof.
  destruct sc as [t k [r c b] e a]. unfold all_sscn.
  apply in_flat_map; exists t; split; [apply all_transports_complete|].
  apply in_flat_map; exists k; split; [apply all_first_items_complete|].
  apply in_flat_map; exists r; split; [apply all_bools_complete|].
  apply in_flat_map; exists c; split; [apply all_bools_complete|].
  apply in_flat_map; exists b; split; [apply all_bools_complete|].
  apply in_flat_map; exists e; split; [apply all_endings_complete|].
  apply in_map_iff; exists a; split; [reflexivity|apply all_bools_complete].
Qed.

Lemma all_cscn_complete sc : In sc all_cscn.
Proof.
  destruct sc as [t co tu e a]. unfold all_cscn.
  apply in_flat_map; exists t; split; [apply all_transports_complete|].
  apply in_flat_map; exists co; split; [apply all_bools_complete|].
  apply in_flat_map; exists tu; split; [apply all_bools_complete|].
  apply in_flat_map; exists e; split; [apply all_endings_complete|].
  apply in_map_iff; exists a; split; [reflexivity|apply all_bools_complete].
Qed.

Lemma every_sscn (P : sscn -> bool) : forallb P all_sscn = true -> forall sc, P sc = true.
Proof. intros H sc. rewrite forallb_forall in H. apply H, all_sscn_complete. Qed.
Lemma every_cscn (P : cscn -> bool) : forallb P all_cscn = true -> forall sc, P sc = true.
Proof. intros H sc. rewrite forallb_forall in H. apply H, all_cscn_complete. Qed.

Lemma on_trace_some o p : on_trace o p = true -> forall tr, o = Some tr -> p tr = true.
Proof. intros H tr ->. exact H. Qed.

(* ---------- the generated relay functions have the shape Model/Relay.v assumes ---------- *)
(* one send before the pumps whose failure returns; both outcomes of both pumps mapped to Err; try_join!;
   the server's pumps sit behind filter_map (FilteredErr events exist), the client's do not *)
Theorem relay_model_assumptions_hold :
  bidi_shape_ok server_bidi_steps = true /\ bidi_shape_ok client_relay_tcp_then_steps = true
  /\ In (FilterErrors PumpAB) server_bidi_steps /\ In (FilterErrors PumpBA) server_bidi_steps
  /\ (forall d, ~ In (FilterErrors d) client_relay_tcp_then_steps).
Proof.
  split; [vm_compute; reflexivity|]. split; [vm_compute; reflexivity|].
  split; [vm_compute; tauto|]. split; [vm_compute; tauto|].
  intros d H. vm_compute in H. repeat (destruct H as [H|H]; [discriminate H|]). exact H.
Qed.

(* the only pump ending that closes the sink towards A (server: the inbound link, client: the application) is
   "B->A returned first with Close"; towards B it is "A->B returned first with Close": this is what
   s_apply_ending / c_apply_ending read off the ending *)
Theorem pump_closed_sink_iff_ending : forall (first : bytes) (evs : list event) (d : option dir) (r : pres) (x : dir),
  ph (run (init first) evs) = Done d r ->
  (shut (lane_of x (run (init first) evs)) = true <-> (d, r) = (Some x, Closed)).
Proof.
  intros first evs d r x Hd. split.
  - intros Hs. pose proof (shut_only_by_close first evs x Hs) as H. cbv zeta in H. rewrite Hd in H.
    injection H as -> ->. reflexivity.
  - intros [= -> ->]. pose proof (eof_delivers_all first evs x Hd) as H. cbv zeta in H. tauto.
Qed.

(* ---------- server ---------- *)
Theorem server_exit_defined : forall sc, exists tr, server_trace current sc = Some tr.
Proof.
  intros sc.
  pose proof (every_sscn (fun sc => on_trace (server_trace current sc) (fun _ => true))) as H.
  specialize (H ltac:(vm_compute; reflexivity) sc). cbv beta in H. destruct (server_trace current sc) as [tr|]; [exists tr; reflexivity|discriminate H].
Qed.

(* every exit path of the server's task lets the proxy client observe end-of-stream before the task sits in any
   await that is not a single round trip *)
Theorem peer_sees_end_promptly : forall sc tr,
  server_trace current sc = Some tr -> prompt_before PeerSeesEnd tr = true.
Proof.
  intros sc. apply on_trace_some. revert sc.
  apply (every_sscn (chk_s_peer_sees_end current)). vm_compute; reflexivity.
Qed.

(* the target socket exists exactly on the paths that connected / bound, it is dropped again on every one of
   them, and before any slow await *)
Theorem outbound_released : forall sc tr,
  server_trace current sc = Some tr ->
  outbound_balanced false tr = true /\ occurs OutboundOpened tr = target_opened sc
  /\ (target_opened sc = true -> prompt_before OutboundDropped tr = true).
Proof.
  intros sc tr Htr.
  assert (H : chk_s_outbound current sc = true) by (revert sc Htr; intros sc _; apply every_sscn; vm_compute; reflexivity).
  unfold chk_s_outbound in H. rewrite Htr in H. cbn [on_trace] in H.
  apply andb_true_iff in H as [H H3]. apply andb_true_iff in H as [H1 H2].
  apply eqb_prop in H2. repeat split; [exact H1|exact H2|].
  intros Ho. rewrite H2, Ho in H3. exact H3.
Qed.

(* the task ends on every path, having dropped its end of the link (QUIC: and the connection handle) *)
Theorem task_finishes : forall sc tr,
  server_trace current sc = Some tr ->
  ends_with_task_finished tr = true /\ occurs LinkDropped tr = true
  /\ (s_t sc = Quic -> exists b, occurs (ConnClosed b) tr = true).
Proof.
  intros sc tr Htr.
  assert (H : chk_s_task current sc = true) by (revert sc Htr; intros sc _; apply every_sscn; vm_compute; reflexivity).
  unfold chk_s_task in H. rewrite Htr in H. cbn [on_trace] in H.
  apply andb_true_iff in H as [H _]. apply andb_true_iff in H as [H H3]. apply andb_true_iff in H as [H1 H2].
  repeat split; [exact H1|exact H2|].
  intros Hq. rewrite Hq in H3. cbn in H3. apply orb_true_iff in H3 as [H3|H3]; eauto.
Qed.

(* ... and without sitting in a slow await, unless the transport is QUIC and the peer does not answer any more *)
Theorem task_finishes_promptly : forall sc tr,
  server_trace current sc = Some tr -> s_acks sc = true \/ s_t sc <> Quic -> no_slow_wait tr = true.
Proof.
  intros sc tr Htr Hc.
  assert (H : chk_s_task current sc = true) by (revert sc Htr Hc; intros sc _ _; apply every_sscn; vm_compute; reflexivity).
  unfold chk_s_task in H. rewrite Htr in H. cbn [on_trace] in H.
  apply andb_true_iff in H as [_ H].
  destruct Hc as [Hc|Hc].
  - rewrite Hc in H. exact H.
  - destruct (s_t sc); try exact H; try (rewrite orb_true_r in H; exact H). contradiction Hc; reflexivity.
Qed.

(* QUIC: the connection handle is dropped only after the peer acknowledged the finished stream (no tail is cut) *)
Theorem quic_server_closes_gracefully : forall sc tr,
  server_trace current sc = Some tr -> s_t sc = Quic -> s_acks sc = true -> occurs (ConnClosed true) tr = true.
Proof.
  intros sc tr Htr Hq Ha.
  assert (H : chk_s_graceful current sc = true) by (revert sc Htr Hq Ha; intros sc _ _ _; apply every_sscn; vm_compute; reflexivity).
  unfold chk_s_graceful in H. rewrite Htr in H. cbn [on_trace] in H. rewrite Hq, Ha in H. exact H.
Qed.

(* observation (not a violation of a listed clause; QUIC has no other way to notice a silent peer): when the link
   is cut the QUIC server task stays in stopped() until the idle timeout; the target socket is long released *)
Definition link_cut_quic : sscn :=
  {| s_t := Quic; s_first := ConnectTcp; s_env := {| resolve_ok := true; connect_ok := true; bind_ok := true |};
     s_end := (Some AB, Failed); s_acks := false |}.
Lemma quic_server_link_cut_waits_for_idle_timeout_witness :
  server_trace current link_cut_quic
  = Some [OutboundOpened; OutboundDropped; PeerSeesEnd; Blocked DIdle; LinkDropped; ConnClosed false; TaskFinished].
Proof. vm_compute; reflexivity. Qed.

(* ---------- client ---------- *)
Theorem client_exit_defined : forall sc, exists tr, client_trace current sc = Some tr.
Proof.
  intros sc.
  pose proof (every_cscn (fun sc => on_trace (client_trace current sc) (fun _ => true))) as H.
  specialize (H ltac:(vm_compute; reflexivity) sc). cbv beta in H. destruct (client_trace current sc) as [tr|]; [exists tr; reflexivity|discriminate H].
Qed.

(* whoever ends the flow (the application, the server, the link, a tunnel that cannot be opened), the local
   application observes end-of-stream before the client's task waits for anything *)
Theorem app_sees_end_promptly : forall sc tr,
  client_trace current sc = Some tr -> prompt_before AppSeesEnd tr = true.
Proof.
  intros sc. apply on_trace_some. revert sc.
  apply (every_cscn (chk_c_app_sees_end current)). vm_compute; reflexivity.
Qed.

(* the tunnel exists exactly when codec and dial succeeded; it is always dropped again; and the server observes
   end-of-stream on it before the client's task waits for anything slow -- in particular when the application ends *)
Theorem tunnel_shut_promptly : forall sc tr,
  client_trace current sc = Some tr ->
  outbound_balanced false tr = true /\ occurs OutboundOpened tr = tunnel_opened sc
  /\ (tunnel_opened sc = true -> prompt_before PeerSeesEnd tr = true).
Proof.
  intros sc tr Htr.
  assert (H : chk_c_tunnel_shut current sc = true) by (revert sc Htr; intros sc _; apply every_cscn; vm_compute; reflexivity).
  unfold chk_c_tunnel_shut in H. rewrite Htr in H. cbn [on_trace] in H.
  apply andb_true_iff in H as [H H3]. apply andb_true_iff in H as [H1 H2].
  apply eqb_prop in H2. repeat split; [exact H1|exact H2|].
  intros Ho. rewrite Ho in H3. exact H3.
Qed.

(* the client's task ends on every path, the local socket is dropped, no await is longer than the 5 s timer, and
   none is slow at all while the server answers *)
Theorem client_task_finishes : forall sc tr,
  client_trace current sc = Some tr ->
  ends_with_task_finished tr = true /\ occurs LocalDropped tr = true /\ waits_bounded 5 tr = true
  /\ (c_acks sc = true -> no_slow_wait tr = true).
Proof.
  intros sc tr Htr.
  assert (H : chk_c_task current sc = true) by (revert sc Htr; intros sc _; apply every_cscn; vm_compute; reflexivity).
  unfold chk_c_task in H. rewrite Htr in H. cbn [on_trace] in H.
  apply andb_true_iff in H as [H H4]. apply andb_true_iff in H as [H H3]. apply andb_true_iff in H as [H1 H2].
  repeat split; [exact H1|exact H2|exact H3|].
  intros Ha. rewrite Ha in H4. exact H4.
Qed.

Theorem quic_client_closes_gracefully : forall sc tr,
  client_trace current sc = Some tr -> c_t sc = Quic -> c_acks sc = true -> tunnel_opened sc = true ->
  fst (c_end sc) <> None -> occurs (ConnClosed true) tr = true.
Proof.
  intros sc tr Htr Hq Ha Ho He.
  assert (H : chk_c_graceful current sc = true) by (revert sc Htr Hq Ha Ho He; intros sc _ _ _ _ _; apply every_cscn; vm_compute; reflexivity).
  unfold chk_c_graceful in H. rewrite Htr in H. cbn [on_trace] in H. rewrite Hq, Ha, Ho in H.
  destruct (c_end sc) as [[d|] r]; [exact H|contradiction He; reflexivity].
Qed.

(* every (ssl, ws) combination with a quic section selects the same arm (README: quic wins) *)
Lemma quic_section_wins : forall ssl ws, arm_of current (ssl, ws, true) = arm_of current (cfg_of Quic).
Proof. intros [|] [|]; vm_compute; reflexivity. Qed.

(* ---------- pumps + exit path together ---------- *)
(* the target closes first, any transport: everything read from the target has been delivered to the link and the
   link was shut by the pump (Model/Relay.v); the exit path then signals nothing twice and the proxy client has
   seen end-of-stream before the task waits *)
Theorem target_closes_first_delivered_then_peer_sees_end :
  forall (first : bytes) (evs : list event) t k env acks tr,
  let f := run (init first) evs in
  ph f = Done (Some BA) Closed ->
  server_trace current {| s_t := t; s_first := k; s_env := env; s_end := (Some BA, Closed); s_acks := acks |} = Some tr ->
  del (ba f) = rd (ba f) /\ inf (ba f) = [] /\ shut (ba f) = true /\ prompt_before PeerSeesEnd tr = true.
Proof.
  intros first evs t k env acks tr f Hd Htr.
  pose proof (eof_delivers_all first evs BA Hd) as H. cbv zeta in H. cbn [lane_of] in H.
  destruct H as (H1 & H2 & H3 & _). repeat split; try assumption.
  eapply peer_sees_end_promptly; eassumption.
Qed.

(* ============================================================================================= *)
(* Sensitivity: what the theorems above reject, and what they accept, on explicit tables            *)
(* ============================================================================================= *)
Definition refused_quic : sscn :=
  {| s_t := Quic; s_first := ConnectTcp; s_env := {| resolve_ok := true; connect_ok := false; bind_ok := true |};
     s_end := (None, Failed); s_acks := true |}.

(* 1. the seeded regression: `let _ = self.send.finish();` removed from QuicStream::close.  Target refused: no pump
      ran, nothing closed the sink; the server waits in stopped() (peer never stops, idle timeout) and only the
      drop after it finishes the stream *)
Lemma finish_removed_target_refused_witness :
  server_trace (with_close current [AwaitStopped]) refused_quic
  = Some [Blocked DIdle; PeerSeesEnd; LinkDropped; ConnClosed false; TaskFinished]
  /\ chk_s_peer_sees_end (with_close current [AwaitStopped]) refused_quic = false
  /\ chk_s_task (with_close current [AwaitStopped]) refused_quic = false.
Proof. vm_compute; repeat split; reflexivity. Qed.

Theorem finish_removed_breaks_peer_sees_end :
  ~ (forall sc tr, server_trace (with_close current [AwaitStopped]) sc = Some tr -> prompt_before PeerSeesEnd tr = true).
Proof.
  intros H. specialize (H refused_quic _ (proj1 finish_removed_target_refused_witness)). vm_compute in H. discriminate H.
Qed.

(* the same on every path where no pump closed the inbound sink: unresolvable, bind failure, wrong first item, ... *)
Lemma finish_removed_every_pumpless_path_is_slow : forall k r c b e,
  target_opened {| s_t := Quic; s_first := k; s_env := {| resolve_ok := r; connect_ok := c; bind_ok := b |}; s_end := e; s_acks := true |} = false ->
  chk_s_peer_sees_end (with_close current [AwaitStopped])
    {| s_t := Quic; s_first := k; s_env := {| resolve_ok := r; connect_ok := c; bind_ok := b |}; s_end := e; s_acks := true |} = false.
Proof. intros [] [] [] [] [[[]|] []]; vm_compute; intros H; try reflexivity; discriminate H. Qed.

(* ... finish moved behind the await is no better *)
Lemma finish_after_stopped_target_refused_witness :
  chk_s_peer_sees_end (with_close current [AwaitStopped; Finish]) refused_quic = false.
Proof. vm_compute; reflexivity. Qed.

(* ... and on the client the application resetting (pump A->B fails, sink not closed) lets the server wait 5 s *)
Definition app_resets_quic : cscn :=
  {| c_t := Quic; c_codec_ok := true; c_tunnel_ok := true; c_end := (Some AB, Failed); c_acks := true |}.
Lemma finish_removed_app_resets_witness :
  chk_c_app_sees_end (with_close current [AwaitStopped]) app_resets_quic = true
  /\ chk_c_tunnel_shut (with_close current [AwaitStopped]) app_resets_quic = false.
Proof. vm_compute; split; reflexivity. Qed.

(* 2. quic::relay no longer calls inbound.close() (or returns before it): dropping the halves finishes the stream
      implicitly, so the peer still sees the end at once -- but `connection` is dropped right after, before anything
      was acknowledged: the tail can be cut.  Rejected by quic_server_closes_gracefully only *)
Lemma quic_relay_without_close_witness :
  let T := with_quic_relay current [SplitFramed; CallRelayTo] in
  server_trace T refused_quic = Some [PeerSeesEnd; LinkDropped; ConnClosed false; TaskFinished]
  /\ chk_s_peer_sees_end T refused_quic = true /\ chk_s_graceful T refused_quic = false.
Proof. vm_compute; repeat split; reflexivity. Qed.
Lemma quic_relay_early_return_witness :
  let T := with_quic_relay current [SplitFramed; CallRelayTo; ReturnEarly; Reunite; CloseStream] in
  chk_s_graceful T refused_quic = false.
Proof. vm_compute; reflexivity. Qed.

(* 3. the client's QUIC arm drops the tunnel without close(): the connection is closed with unacknowledged data *)
Definition app_closes_quic : cscn :=
  {| c_t := Quic; c_codec_ok := true; c_tunnel_ok := true; c_end := (Some AB, Closed); c_acks := true |}.
Lemma client_quic_without_close_witness :
  let T := with_arms current [((PAny, PAny, PSome), [OpenTunnel Quic; CallRelayTcpThen; YieldResult])] in
  chk_c_tunnel_shut T app_closes_quic = true /\ chk_c_graceful T app_closes_quic = false.
Proof. vm_compute; split; reflexivity. Qed.

(* 4. join! instead of try_join!: not the relay of Model/Relay.v any more -- no trace, every theorem fails *)
Lemma join_instead_of_try_join_witness :
  let T := with_bidi current [FirstSend; FilterErrors PumpBA; FilterErrors PumpAB; DefinePump PumpBA true true;
                              DefinePump PumpAB true true; JoinPumps Join] in
  server_trace T {| s_t := Tcp; s_first := ConnectTcp; s_env := {| resolve_ok := true; connect_ok := true; bind_ok := true |};
                    s_end := (Some AB, Closed); s_acks := true |} = None.
Proof. vm_compute; reflexivity. Qed.

(* 5. harmless edits are accepted: a path of relay_to that returns early instead of logging, or logs more *)
Definition relay_to_edit (edit : list outcome -> list xstep -> list xstep) (T : tables) : tables :=
  with_relay_to T (map (fun r => (fst r, edit (fst r) (snd r))) (t_relay_to T)).
Definition on_connect_err (os : list outcome) : bool := existsb (fun o => match o with ConnectErr => true | _ => false end) os.
Lemma relay_to_early_return_on_connect_failure_harmless : forall sc,
  server_trace (relay_to_edit (fun os st => if on_connect_err os then [ReturnEarly] else st) current) sc = server_trace current sc.
Proof.
  intros sc.
  pose proof (every_sscn (fun sc => match server_trace (relay_to_edit (fun os st => if on_connect_err os then [ReturnEarly] else st) current) sc,
                               server_trace current sc with
                         | Some a, Some b => forallb (fun p => effect_eqb (fst p) (snd p)) (combine a b) && Nat.eqb (length a) (length b)
                         | _, _ => false end)) as H.
  specialize (H ltac:(vm_compute; reflexivity) sc). cbv beta in H.
  destruct (server_trace (relay_to_edit _ current) sc) as [a|]; [|discriminate H].
  destruct (server_trace current sc) as [b|]; [|discriminate H].
  apply andb_true_iff in H as [H1 H2]. apply Nat.eqb_eq in H2. f_equal.
  revert b H1 H2. induction a as [|x a IH]; intros [|y b] H1 H2; try discriminate H2; [reflexivity|].
  cbn in H1. apply andb_true_iff in H1 as [Hxy H1]. f_equal.
  - destruct x as [| |[]| | | | |[| |]|], y as [| |[]| | | | |[| |]|]; try discriminate Hxy; try reflexivity.
    cbn in Hxy. apply Nat.eqb_eq in Hxy. subst. reflexivity.
  - apply IH; [exact H1|]. cbn in H2. injection H2 as H2. exact H2.
Qed.
Lemma relay_to_extra_logging_harmless : forall sc,
  chk_s_peer_sees_end (relay_to_edit (fun _ st => Log :: st ++ [Log]) current) sc = true
  /\ chk_s_outbound (relay_to_edit (fun _ st => Log :: st ++ [Log]) current) sc = true
  /\ chk_s_task (relay_to_edit (fun _ st => Log :: st ++ [Log]) current) sc = true
  /\ chk_s_graceful (relay_to_edit (fun _ st => Log :: st ++ [Log]) current) sc = true.
Proof.
  intros sc. repeat split; revert sc; apply every_sscn; vm_compute; reflexivity.
Qed.
