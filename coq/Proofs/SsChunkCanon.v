(* The Shadowsocks chunk decoder (Model/SsChunk.v: decode_payload) against its wire format written as a
   unit machine (Lib/Canon.v), and segmentation independence of the established body phase under the
   FramedRead contract model (Lib/Framed.v).

   No cryptographic law is needed except the length law `open_len_ok` (a field of Crypto.Prims.prim_laws):
   `p_open` is otherwise an arbitrary function.  Without it the model can Panic (get_u16 on an opened
   length chunk whose plaintext has fewer than 2 bytes), so it is a premise of the main theorems.

   Full intended statement (all of it is proved below, nothing is `_partial`):
   for every wf decoder state s (DPay lengths are > 0; true of every reachable state, they are sz+16) and
   every list of segments segs (segments may be empty):
     (a) if the one-shot run  Framed.run body_dec s [] [concat segs] []  does not fail, the segmented run
         Framed.run body_dec s [] segs []  yields the same concatenated plaintext, the same final decoder
         state, the same leftover buffer, and both end `Waiting`; all three agree with the unit machine
         `crun s (concat segs) = Stop s' rest out`;
     (b) if the one-shot run fails, it fails with `Failed EAead` (releasing nothing), the unit machine says
         `Fail o` where o is the plaintext of the units before the failing one, and every segmentation also
         ends `Failed EAead`, having released a prefix of o;
     (c) `Livelock` and `Panicked` never occur (from any buffer, with any segments);
     (d) no stall: after any run that ends `Waiting`, feeding the empty segment again produces no item and
         changes nothing: everything whose last byte has arrived has been delivered. *)
From Coq Require Import List NArith Lia Arith Bool ZArith ZifyBool ZifyN ZifyNat.
From Octo Require Import Base.Bytes Crypto.Prims Model.NonceGen Model.SsChunk Lib.Framed Lib.Canon.
Import ListNotations.
Open Scope N_scope.

Section SsChunkCanon.
  Variable P : prims.

  (* the only law of the primitives that is used (prim_laws.open_len) *)
  Definition open_len_ok : Prop :=
    forall c k n a ct m, p_open P c k n a ct = Some m -> lenN ct = lenN m + TAG.

  Definition state := (auth * dstate)%type.

  (* ---- the wire format of the chunk stream as a unit machine (DESIGN.md H.1, Len/Pay) ---- *)
  Definition need (s : state) (c : bytes) : option nat :=
    match snd s with
    | DLen => Some (N.to_nat SIZE_BYTES)
    | DPay len => if len =? 0 then None else Some (N.to_nat len)
    end.
  Definition step (s : state) (u : bytes) : option (state * bytes) :=
    match auth_open P (fst s) u with
    | (None, _) => None
    | (Some pl, a') =>
      match snd s with
      | DLen => match get_u16 pl with
                | Ok (sz, _) => Some ((a', DPay (sz + TAG)), [])
                | _ => None            (* unreachable under open_len_ok: an opened 18-byte unit has 2 bytes *)
                end
      | DPay _ => Some ((a', DLen), pl)
      end
    end.

  Lemma need_pos s c n : need s c = Some n -> (0 < n)%nat.
  Proof.
    unfold need, SIZE_BYTES, TAG. destruct (snd s) as [|len]; [intros [= <-]; lia|].
    destruct (N.eqb_spec len 0) as [He|He]; [discriminate|intros [= <-]; lia].
  Qed.
  Lemma need_mono s c b n : need s c = Some n -> need s (c ++ b) = Some n.
  Proof. unfold need. destruct (snd s); auto. Qed.

  Notation C := (Canon.canon state bytes (@app N) [] need step).
  Definition crun : state -> bytes -> result state bytes := Canon.run state bytes (@app N) [] need step.
  Definition crun_segs : state -> bytes -> list bytes -> bytes -> result state bytes :=
    Canon.run_segs state bytes (@app N) [] need step.

  (* payload lengths are sz + 16 > 0 in every reachable state *)
  Definition wf (s : state) : Prop := match snd s with DLen => True | DPay len => 0 < len end.

  Lemma need_L a c : need (a, DLen) c = Some (N.to_nat SIZE_BYTES).
  Proof. reflexivity. Qed.
  Lemma need_P a len c : len <> 0 -> need (a, DPay len) c = Some (N.to_nat len).
  Proof. intros H. unfold need; cbn [snd]. destruct (N.eqb_spec len 0) as [He|He]; [contradiction|reflexivity]. Qed.
  Lemma step_L a u : step (a, DLen) u =
    match auth_open P a u with
    | (None, _) => None
    | (Some pl, a') => match get_u16 pl with Ok (sz, _) => Some ((a', DPay (sz + TAG)), []) | _ => None end
    end.
  Proof. reflexivity. Qed.
  Lemma step_P a len u : step (a, DPay len) u =
    match auth_open P a u with (None, _) => None | (Some pl, a') => Some ((a', DLen), pl) end.
  Proof. unfold step; cbn [fst snd]. destruct (auth_open P a u) as [[pl|] a']; reflexivity. Qed.

  (* ---- the loop of decode_payload is the unit machine ---- *)
  Lemma loop_is_canon : open_len_ok -> forall fuel a st src dst, wf (a, st) -> (length src < fuel)%nat ->
    match dec_loop P fuel a st src dst, C fuel (a, st) src with
    | Ok (a1, st1, r1, d1), Stop s2 r2 o2 => (a1, st1) = s2 /\ r1 = r2 /\ d1 = dst ++ o2
    | Err e, Fail _ => e = EAead
    | _, _ => False
    end.
  Proof.
    intros HL. induction fuel as [|f IH]; intros a st src dst Hwf Hlen; [lia|].
    cbn [dec_loop canon]. unfold wf in Hwf; cbn [snd] in Hwf.
    destruct st as [|len].
    - rewrite need_L, step_L.
      destruct (N.ltb_spec (lenN src) SIZE_BYTES) as [Hs|Hs].
      + assert ((N.to_nat SIZE_BYTES <=? length src)%nat = false) as ->
          by (apply Nat.leb_gt; rewrite lenN_spec in Hs; lia).
        rewrite app_nil_r. auto.
      + assert ((N.to_nat SIZE_BYTES <=? length src)%nat = true) as ->
          by (apply Nat.leb_le; rewrite lenN_spec in Hs; lia).
        unfold takeN, dropN.
        destruct (auth_open P a (firstn (N.to_nat SIZE_BYTES) src)) as [[pl|] a'] eqn:EO; [|reflexivity].
        assert (Hpl : lenN pl = 2).
        { pose proof (f_equal fst EO) as E1. unfold auth_open in E1. cbn [fst] in E1. apply HL in E1.
          pose proof (lenN_takeN SIZE_BYTES src Hs) as HT. unfold takeN in HT. rewrite HT in E1.
          unfold SIZE_BYTES in E1. lia. }
        unfold get_u16. rewrite get_be_ok by lia. cbn [bind].
        assert (Hw : wf (a', DPay (be (takeN 2 pl) + TAG))) by (unfold wf, TAG; cbn [snd]; lia).
        assert (Hl : (length (skipn (N.to_nat SIZE_BYTES) src) < f)%nat).
        { rewrite skipn_length. rewrite lenN_spec in Hs. unfold SIZE_BYTES, TAG in *. lia. }
        specialize (IH a' (DPay (be (takeN 2 pl) + TAG)) (skipn (N.to_nat SIZE_BYTES) src) dst Hw Hl).
        destruct (dec_loop P f a' (DPay (be (takeN 2 pl) + TAG)) (skipn (N.to_nat SIZE_BYTES) src) dst)
          as [[[[a1 st1] r1] d1]|e|];
        destruct (C f (a', DPay (be (takeN 2 pl) + TAG)) (skipn (N.to_nat SIZE_BYTES) src)) as [s2 r2 o2|o2];
        try contradiction; cbn [app]; auto.
    - rewrite need_P by lia. rewrite step_P.
      destruct (N.ltb_spec (lenN src) len) as [Hs|Hs].
      + assert ((N.to_nat len <=? length src)%nat = false) as ->
          by (apply Nat.leb_gt; rewrite lenN_spec in Hs; lia).
        rewrite app_nil_r. auto.
      + assert ((N.to_nat len <=? length src)%nat = true) as ->
          by (apply Nat.leb_le; rewrite lenN_spec in Hs; lia).
        unfold takeN, dropN.
        destruct (auth_open P a (firstn (N.to_nat len) src)) as [[p|] a'] eqn:EO; [|reflexivity].
        assert (Hl : (length (skipn (N.to_nat len) src) < f)%nat).
        { rewrite skipn_length. rewrite lenN_spec in Hs. lia. }
        specialize (IH a' DLen (skipn (N.to_nat len) src) (dst ++ p) I Hl).
        destruct (dec_loop P f a' DLen (skipn (N.to_nat len) src) (dst ++ p)) as [[[[a1 st1] r1] d1]|e|];
        destruct (C f (a', DLen) (skipn (N.to_nat len) src)) as [s2 r2 o2|o2];
        try contradiction; auto.
        destruct IH as (IH1 & IH2 & IH3). subst. rewrite app_assoc. auto.
  Qed.

  Lemma loop_wf : forall fuel a st src dst a1 st1 r1 d1,
    wf (a, st) -> dec_loop P fuel a st src dst = Ok (a1, st1, r1, d1) -> wf (a1, st1).
  Proof.
    induction fuel as [|f IH]; intros a st src dst a1 st1 r1 d1 Hwf H; cbn [dec_loop] in H.
    - injection H as <- <- _ _. exact Hwf.
    - destruct st as [|len].
      + destruct (lenN src <? SIZE_BYTES); [injection H as <- <- _ _; exact Hwf|].
        destruct (auth_open P a (takeN SIZE_BYTES src)) as [[pl|] a']; [|discriminate].
        destruct (get_u16 pl) as [[sz t]|e|]; cbn [bind] in H; try discriminate.
        eapply IH; [|exact H]. unfold wf, TAG; cbn [snd]; lia.
      + destruct (lenN src <? len); [injection H as <- <- _ _; exact Hwf|].
        destruct (auth_open P a (takeN len src)) as [[p|] a']; [|discriminate].
        eapply IH; [|exact H]. exact I.
  Qed.

  (* ---- 2. decode_payload = the unit machine ---- *)
  Theorem decode_payload_is_canon : open_len_ok -> forall a st src, wf (a, st) ->
    match decode_payload P a st src, crun (a, st) src with
    | Ok (a1, st1, r1, d1), Stop s2 r2 o2 => (a1, st1) = s2 /\ r1 = r2 /\ d1 = o2
    | Err e, Fail _ => e = EAead
    | _, _ => False          (* in particular: never Panic, never Ok against Fail or Err against Stop *)
    end.
  Proof.
    intros HL a st src Hwf. unfold decode_payload, crun, Canon.run.
    pose proof (loop_is_canon HL (S (length src)) a st src [] Hwf ltac:(lia)) as H.
    destruct (dec_loop P (S (length src)) a st src []) as [[[[a1 st1] r1] d1]|e|];
    destruct (C (S (length src)) (a, st) src) as [s2 r2 o2|o2]; try contradiction; auto.
  Qed.

  Theorem decode_payload_wf : forall a st src a1 st1 r1 d1,
    wf (a, st) -> decode_payload P a st src = Ok (a1, st1, r1, d1) -> wf (a1, st1).
  Proof. intros a st src a1 st1 r1 d1 Hwf H. unfold decode_payload in H. eapply loop_wf; eassumption. Qed.

  Corollary decode_payload_no_panic : open_len_ok -> forall a st src, wf (a, st) ->
    decode_payload P a st src <> Panic.
  Proof.
    intros HL a st src Hwf E. pose proof (decode_payload_is_canon HL a st src Hwf) as H.
    rewrite E in H. destruct (crun (a, st) src); exact H.
  Qed.

  (* ---- 3. the FramedRead-level decoder of the established body phase ---- *)
  Definition body_dec (s : auth * dstate) (src : bytes) : res ((auth * dstate) * bytes * option bytes) :=
    match src with
    | [] => Ok (s, src, None)
    | _ => let* (a', st', src', dst) := decode_payload P (fst s) (snd s) src in
           Ok ((a', st'), src', match dst with [] => None | _ => Some dst end)
    end.

  Definition prefix (a b : bytes) : Prop := exists t, b = a ++ t.

  Definition item_of (o : bytes) : option bytes := match o with [] => None | _ => Some o end.
  Definition items_of (o : bytes) : list bytes := match o with [] => [] | _ => [o] end.
  Lemma concat_items_of o : concat (items_of o) = o.
  Proof. destruct o as [|x t]; [reflexivity|]. unfold items_of. cbn [concat]. apply app_nil_r. Qed.

  Lemma crun_nil s : crun s [] = Stop s [] [].
  Proof. apply (Canon.run_nil state bytes (@app N) [] need step need_pos). Qed.

  Lemma crun_stable s c s' r o : crun s c = Stop s' r o -> crun s' r = Stop s' r [].
  Proof. apply (Canon.run_no_whole_unit state bytes (@app N) [] need step need_pos). Qed.

  (* one call of the decoder = one run of the unit machine *)
  Lemma body_dec_canon : open_len_ok -> forall s buf, wf s ->
    match crun s buf with
    | Stop s2 r2 o2 => body_dec s buf = Ok (s2, r2, item_of o2) /\ wf s2
    | Fail _ => body_dec s buf = Err EAead
    end.
  Proof.
    intros HL s buf Hwf. destruct buf as [|x xs].
    - rewrite crun_nil. split; [reflexivity|exact Hwf].
    - destruct s as [a st]. unfold body_dec. cbn [fst snd]. set (b := x :: xs).
      pose proof (decode_payload_is_canon HL a st b Hwf) as H.
      pose proof (decode_payload_wf a st b) as HW.
      destruct (decode_payload P a st b) as [[[[a1 st1] r1] d1]|e|];
      destruct (crun (a, st) b) as [s2 r2 o2|o2]; try contradiction.
      + destruct H as (H1 & H2 & H3). subst. cbn [bind]. split; [reflexivity|].
        eapply HW; [exact Hwf|reflexivity].
      + subst e. reflexivity.
  Qed.

  (* one poll of FramedRead (append the segment, call decode until None) = one run of the unit machine *)
  Lemma feed_canon : open_len_ok -> forall s buf seg, wf s ->
    match crun s (buf ++ seg) with
    | Stop s2 r2 o2 => Framed.feed _ _ body_dec s buf seg = (s2, r2, items_of o2, Waiting) /\ wf s2
    | Fail _ => Framed.feed _ _ body_dec s buf seg = (s, buf ++ seg, [], Failed EAead)
    end.
  Proof.
    intros HL s buf seg Hwf. unfold Framed.feed. cbn [Nat.add]. cbn [Framed.drain].
    pose proof (body_dec_canon HL s (buf ++ seg) Hwf) as H.
    destruct (crun s (buf ++ seg)) as [s2 r2 o2|o2] eqn:E.
    - destruct H as [H Hwf2]. rewrite H. split; [|exact Hwf2].
      destruct o2 as [|y ys]; [reflexivity|]. cbn [item_of items_of app].
      (* an item was produced: FramedRead calls decode again; nothing whole is there *)
      pose proof (body_dec_canon HL s2 r2 Hwf2) as H2.
      rewrite (crun_stable _ _ _ _ _ E) in H2. destruct H2 as [H2 _]. rewrite H2. reflexivity.
    - rewrite H. reflexivity.
  Qed.

  (* a whole FramedRead run over segments = run_segs of the unit machine *)
  Lemma frun_canon : open_len_ok -> forall segs s buf acc oacc, concat acc = oacc -> wf s ->
    match crun_segs s buf segs oacc with
    | Stop s2 r2 o2 =>
        exists items, Framed.run _ _ body_dec s buf segs acc = (s2, r2, items, Waiting) /\ concat items = o2 /\ wf s2
    | Fail o2 =>
        exists s' b' items, Framed.run _ _ body_dec s buf segs acc = (s', b', items, Failed EAead) /\
                            prefix (concat items) o2
    end.
  Proof.
    intros HL. induction segs as [|seg t IH]; intros s buf acc oacc Hacc Hwf.
    - unfold crun_segs. cbn [Canon.run_segs Framed.run]. exists acc. auto.
    - unfold crun_segs. cbn [Canon.run_segs Framed.run]. fold (crun s (buf ++ seg)).
      pose proof (feed_canon HL s buf seg Hwf) as HF.
      destruct (crun s (buf ++ seg)) as [s2 r2 o2|o2].
      + destruct HF as [HF Hwf2]. rewrite HF.
        apply (IH s2 r2 (acc ++ items_of o2) (oacc ++ o2)); [|exact Hwf2].
        rewrite concat_app, concat_items_of, Hacc. reflexivity.
      + rewrite HF. exists s, (buf ++ seg), (acc ++ []). split; [reflexivity|].
        rewrite app_nil_r, Hacc. exists o2. reflexivity.
  Qed.

  Lemma crun_segs_concat segs s : crun_segs s [] segs [] = crun s (concat segs).
  Proof.
    apply (Canon.run_segs_concat state bytes (@app N) [] (@app_assoc N) (@app_nil_l N) (@app_nil_r N)
             need step need_pos need_mono).
  Qed.

  (* ---- the segmentation theorem ---- *)
  Theorem ss_body_segmentation_independent : forall s segs, wf s -> open_len_ok ->
    match Framed.run _ _ body_dec s [] segs [],
          Framed.run _ _ body_dec s [] [concat segs] [],
          crun s (concat segs) with
    | (s1, buf1, items1, Waiting), (s2, buf2, items2, Waiting), Stop s3 r3 o3 =>
        (* (a) same state, same leftover, same plaintext, = the unit machine *)
        s1 = s2 /\ buf1 = buf2 /\ concat items1 = concat items2 /\
        s1 = s3 /\ buf1 = r3 /\ concat items1 = o3 /\ wf s1 /\
        (* (d) no stall *)
        Framed.feed _ _ body_dec s1 buf1 [] = (s1, buf1, [], Waiting)
    | (s1, buf1, items1, Failed EAead), (s2, buf2, items2, Failed EAead), Fail o3 =>
        (* (b) o3 = plaintext of the units before the failing one *)
        prefix (concat items1) o3 /\ items2 = [] /\ s2 = s /\ buf2 = concat segs
    | _, _, _ => False      (* (c) *)
    end.
  Proof.
    intros s segs Hwf HL.
    pose proof (frun_canon HL segs s [] (@nil bytes) [] eq_refl Hwf) as H1.
    rewrite crun_segs_concat in H1.
    pose proof (feed_canon HL s [] (concat segs) Hwf) as H2. cbn [app] in H2.
    cbn [Framed.run].
    destruct (crun s (concat segs)) as [s3 r3 o3|o3] eqn:E.
    - destruct H1 as (items & -> & Hc & Hwf3). destruct H2 as [-> _].
      cbn [app]. rewrite concat_items_of.
      repeat split; auto.
      pose proof (feed_canon HL s3 r3 [] Hwf3) as H3. rewrite app_nil_r in H3.
      rewrite (crun_stable _ _ _ _ _ E) in H3. destruct H3 as [H3 _]. exact H3.
    - destruct H1 as (s' & b' & items & -> & Hp). rewrite H2. cbn [app]. auto.
  Qed.

  (* ---- the same content as separate, directly usable statements ---- *)

  (* (a) *)
  Corollary ss_body_seg_ok : forall s segs s2 buf2 items2, wf s -> open_len_ok ->
    Framed.run _ _ body_dec s [] [concat segs] [] = (s2, buf2, items2, Waiting) ->
    exists items1, Framed.run _ _ body_dec s [] segs [] = (s2, buf2, items1, Waiting) /\
                   concat items1 = concat items2 /\
                   crun s (concat segs) = Stop s2 buf2 (concat items2) /\ wf s2.
  Proof.
    intros s segs s2 buf2 items2 Hwf HL E2.
    pose proof (ss_body_segmentation_independent s segs Hwf HL) as H. rewrite E2 in H.
    destruct (Framed.run _ _ body_dec s [] segs []) as [[[s1 buf1] items1] st1].
    destruct (crun s (concat segs)) as [s3 r3 o3|o3];
      destruct st1 as [|[]| |]; try solve [exfalso; exact H].
    destruct H as (H1 & H2 & Hc & H3 & H4 & Ho & Hw & _). subst s1 buf1 s3 r3.
    exists items1. rewrite <- Hc, Ho. auto.
  Qed.

  (* (b) *)
  Corollary ss_body_seg_fail : forall s segs s2 buf2 items2 st2, wf s -> open_len_ok ->
    Framed.run _ _ body_dec s [] [concat segs] [] = (s2, buf2, items2, st2) -> st2 <> Waiting ->
    st2 = Failed EAead /\ items2 = [] /\
    exists o3, crun s (concat segs) = Fail o3 /\
    exists s1 buf1 items1, Framed.run _ _ body_dec s [] segs [] = (s1, buf1, items1, Failed EAead) /\
                           prefix (concat items1) o3.
  Proof.
    intros s segs s2 buf2 items2 st2 Hwf HL E2 Hst.
    pose proof (ss_body_segmentation_independent s segs Hwf HL) as H. rewrite E2 in H.
    destruct (Framed.run _ _ body_dec s [] segs []) as [[[s1 buf1] items1] st1].
    destruct (crun s (concat segs)) as [s3 r3 o3|o3];
      destruct st1 as [|[]| |]; destruct st2 as [|[]| |];
      try solve [exfalso; exact H]; try solve [exfalso; apply Hst; reflexivity].
    destruct H as (Hp & Hi & _ & _). subst items2.
    split; [reflexivity|]. split; [reflexivity|]. exists o3. split; [reflexivity|].
    exists s1, buf1, items1. auto.
  Qed.

  (* (c) from any buffer and accumulator, with any segments *)
  Theorem ss_body_no_livelock_no_panic : forall s buf segs acc, wf s -> open_len_ok ->
    let '(_, _, _, st) := Framed.run _ _ body_dec s buf segs acc in st = Waiting \/ st = Failed EAead.
  Proof.
    intros s buf segs acc Hwf HL.
    pose proof (frun_canon HL segs s buf acc (concat acc) eq_refl Hwf) as H.
    destruct (crun_segs s buf segs (concat acc)) as [s2 r2 o2|o2].
    - destruct H as (items & E & _). rewrite E. left. reflexivity.
    - destruct H as (s' & b' & items & E & _). rewrite E. right. reflexivity.
  Qed.

  (* (d) *)
  Corollary ss_body_no_stall : forall s segs s1 buf1 items1, wf s -> open_len_ok ->
    Framed.run _ _ body_dec s [] segs [] = (s1, buf1, items1, Waiting) ->
    Framed.feed _ _ body_dec s1 buf1 [] = (s1, buf1, [], Waiting).
  Proof.
    intros s segs s1 buf1 items1 Hwf HL E1.
    pose proof (ss_body_segmentation_independent s segs Hwf HL) as H. rewrite E1 in H.
    destruct (Framed.run _ _ body_dec s [] [concat segs] []) as [[[s2 buf2] items2] st2].
    destruct (crun s (concat segs)) as [s3 r3 o3|o3];
      destruct st2 as [|[]| |]; try solve [exfalso; exact H].
    destruct H as (_ & _ & _ & _ & _ & _ & _ & H). exact H.
  Qed.

  (* any two segmentations of the same byte stream agree *)
  Corollary ss_body_two_segmentations : forall s segs segs', wf s -> open_len_ok ->
    concat segs = concat segs' ->
    match Framed.run _ _ body_dec s [] segs [], Framed.run _ _ body_dec s [] segs' [] with
    | (s1, buf1, items1, Waiting), (s2, buf2, items2, Waiting) =>
        s1 = s2 /\ buf1 = buf2 /\ concat items1 = concat items2
    | (_, _, _, Failed EAead), (_, _, _, Failed EAead) => True
    | _, _ => False
    end.
  Proof.
    intros s segs segs' Hwf HL Hc.
    pose proof (ss_body_segmentation_independent s segs Hwf HL) as H.
    pose proof (ss_body_segmentation_independent s segs' Hwf HL) as H'.
    rewrite <- Hc in H'.
    destruct (Framed.run _ _ body_dec s [] segs []) as [[[s1 buf1] items1] st1].
    destruct (Framed.run _ _ body_dec s [] segs' []) as [[[s1' buf1'] items1'] st1'].
    destruct (Framed.run _ _ body_dec s [] [concat segs] []) as [[[s2 buf2] items2] st2].
    destruct (crun s (concat segs)) as [s3 r3 o3|o3];
      destruct st1 as [|[]| |]; try solve [exfalso; exact H];
      destruct st1' as [|[]| |]; try solve [exfalso; exact H'];
      destruct st2 as [|[]| |]; try solve [exfalso; exact H]; try solve [exfalso; exact H'].
    - destruct H as (E1 & E2 & E3 & _). destruct H' as (E1' & E2' & E3' & _).
      subst. rewrite E3, E3'. auto.
    - exact I.
  Qed.
End SsChunkCanon.

Print Assumptions decode_payload_is_canon.
Print Assumptions decode_payload_wf.
Print Assumptions decode_payload_no_panic.
Print Assumptions ss_body_segmentation_independent.
Print Assumptions ss_body_seg_ok.
Print Assumptions ss_body_seg_fail.
Print Assumptions ss_body_no_livelock_no_panic.
Print Assumptions ss_body_no_stall.
Print Assumptions ss_body_two_segmentations.
