(* VMess AEAD body and request header under tampering (property C05, and the VMess part of C06).
   The Shadowsocks chunk stream is Proofs/SsChunkTamper.v; this file carries the same statements to Model/Vmess.v
   exactly as it is: the body in stream mode (decode_payload_v; every option mask -- ChunkMasking, GlobalPadding,
   AuthenticatedLength in any combination -- and both ciphers: all theorems are stated for ARBITRARY bodies), the
   body in packet mode (decode_packet_v), and the sealed request header (open_header / server_vdecode from SInit).

   THE SYMBOLIC HYPOTHESES ("the attacker does not hold the key"; hypotheses of theorems on the function p_open of
   the parameter record `prims`, restricted to the keys in question; never axioms, never laws of the primitives in
   general, never assumptions about the code):
     vm_forge_free P c key H      forall n ct m, p_open P c key n [] ct = Some m -> In (n, m, ct) H
                                  H = the units (nonce, plaintext, ciphertext) the legitimate sender of the direction
                                  sealed under the body key: a ciphertext opens under (key, nonce) only if it was
                                  produced by seal under that (key, nonce).   vm_stream_forge_free b0 ws: H = vm_honest.
     vm_ideal P c keys T          the same for the two body keys of a session at once (T = everything both ends sealed,
                                  tagged with the key); with KEY SEPARATION  sec_key (request key) <> sec_key (response
                                  key)  [response key = SHA-256(request key)[..16]; for ChaCha20 both go through MD5
                                  twice] it gives vm_forge_free per direction (vm_direction_separation).
     size-key forge-freeness      (AuthenticatedLength) forall n ct m, p_open P c k_authlen n [] ct = Some m -> In .. Hsize,
                                  Hsize = the size units of BOTH directions (they share key and nonces: F-12b).
     vm_hdr_forge_free P keys T   forall uid p1 p2 a ct m, In uid keys -> p_open P 0 (kdf16 uid p1) (kdf12 uid p2) a ct = Some m
                                  -> In (kdf16 uid p1, kdf12 uid p2, a, m, ct) T : under a (key, nonce) DERIVED FROM A
                                  REGISTERED USER ID (any KDF path: the attacker chooses auth id and connection nonce)
                                  a ciphertext opens only if it was sealed under that key, nonce and associated data.
   Nonce discipline: vm_lockstep_nonces (unit j was sealed with counter nonce m0 + j; PROVED for the honest encoder,
   vm_honest_lockstep) and N.of_nat (m0 + number of chunks) < 65536: the protocol's counter is 16 bits wide; beyond it a
   replayed chunk opens again (vm_replay_after_wrap_opens, recorded in C12 as pay_nonce_wraps).
   LAWS: vm_laws_on P Sl = seal_len, open_len and open_seal RESTRICTED to the seals in Sl (what the honest sender
   sealed, vm_seals).  `prim_laws P` (open_seal for EVERY plaintext) is jointly unsatisfiable with a forge-freeness
   hypothesis over a finite table, so NO theorem here assumes both.  Module VmessTamperExamples exhibits a concrete
   `prims` (an ideal table-lookup opener) satisfying forge-freeness, vm_laws_on, vm_lens and the XOF laws together
   and instantiates the theorems with ALL hypotheses discharged.

   STATEMENTS (all proved, nothing `_partial`; FramedRead level unless `crunS` = the unit machine is named)
   (a) vm_released_is_prefix        [vm_lens, forge-free, nonce bound] for ANY attacker stream w' and ANY segmentation the
                                    decoder releases a PREFIX of the concatenation of the sender's payloads and ends
                                    Waiting or Failed EAead (never Panicked / Livelock).   vm_crun_prefix: unit machine.
   (b) vm_nothing_after_failure     once failed, further segments change nothing.
   (c) vm_tampered_chunk_not_released   w' = honest wire up to chunk j ++ rest, the head of rest is not an intact chunk j
                                    (vm_intact: its size field decodes to a length under which the bytes at the place of
                                    the sealed payload are the honest ciphertext): EXACTLY the payload of the first j
                                    chunks is released, nothing of rest.
       vm_tampered_chunk_rejected   ... and when the chunk is complete by the decoder's own reckoning: Fail there, every
                                    segmentation Failed EAead.
       vm_tampered_ciphertext_rejected   plain reading: honest size field, ANY other bytes (same length) in place of the
                                    sealed payload, padding present -> Fail, Failed EAead.
       vm_tampered_auth_size_rejected    AuthenticatedLength: 18 bytes that are not an honest size unit for that nonce -> Fail.
       REFUTED for the padding: vm_padding_tamper_accepted -- the random padding of a chunk (GlobalPadding) is not
       authenticated; any bytes of the same length are accepted, with the SAME released bytes and decoder state.
       In the Plain / Shake size modes the 2-byte size is not authenticated either: a flipped size makes the decoder
       wait for a wrong length or fail at the payload, it never releases anything else (by (a); Examples flipped_plain_size_low, flipped_plain_size_high).
   (d) vm_direction_separation, vm_cross_direction_released_is_prefix  request decoder and response decoder, fed with ANY
                                    bytes (the other direction reflected, spliced chunks): prefix of THEIR sender's payloads.
       vm_opposite_unit_rejected    a unit sealed under the other body key opens only if byte-identical to an own unit.
       vm_reflection_rejected       a decoder under whose key nothing opens releases nothing.
       KNOWN FINDING F-12b from C05's side: vm_auth_len_size_reflected_accepted -- the SIZE FIELD of the opposite
       direction's chunk IS accepted when reflected (witness; Example reflected_size_field_accepted); the sealed payload
       behind it is refused, nothing is released (Example reflected_response).  No option mask makes a WHOLE reflected
       chunk acceptable under key separation.
   2.  vm_packet_accept_is_honest   a datagram is released only if it is EXACTLY the plaintext of honest unit j;
       vm_packet_tampered_dropped   otherwise Err EAead or (incomplete) no item: never a datagram;
       vm_packet_tampered_rejected / vm_packet_ciphertext_tampered_rejected   a complete tampered chunk is Err EAead.
   3.  vm_header_accept_is_honest   SInit -> SReady only if both sealed header parts are honest units under keys derived
                                    from a REGISTERED user id with src's auth id (also the associated data) and nonce;
       vm_header_tampered_refused / vm_header_tampered_no_target   general `not In` form: Err or wait, never a target;
       vm_header_tampered_refused_neq   one honest request: another auth id, or same auth id and connection nonce and any
                                    other byte of the sealed header changed -> refused.  (A changed connection nonce alone
                                    is covered by the general form: it needs "no unit under the keys derived with it".)
       vm_no_user_key_no_target     (C06) nothing opens under keys derived from registered ids -> never SReady.
       No ideal-AES assumption on the auth id is needed: the AEAD binds the auth id as associated data. *)
From Coq Require Import List NArith ZArith Lia Bool Arith ZifyBool ZifyN ZifyNat.
From Octo Require Import Base.Bytes Crypto.Prims Model.NonceGen Model.Utf8 Model.Address Model.SsTcp Model.Vmess
                         Lib.Framed Lib.Canon Proofs.NonceFacts Proofs.AddressFacts Proofs.VmessSafety Proofs.VmessFacts.
From Octo Require Proofs.SsChunkTamper.      (* only for the generic run_stops_after_failure *)
Import ListNotations.
Open Scope N_scope.
Ltac Zify.zify_post_hook ::= Z.div_mod_to_equations.
Set Warnings "-abstract-large-number".

(* ------------------------------------------------------------------------------------------------ *)
(* generic list facts                                                                                 *)
(* ------------------------------------------------------------------------------------------------ *)
Lemma lprefix_refl {A} (a : list A) : lprefix a a.
Proof. exists []. rewrite app_nil_r. reflexivity. Qed.
Lemma lprefix_nil {A} (a : list A) : lprefix [] a.
Proof. exists a. reflexivity. Qed.
Lemma lprefix_trans {A} (a b c : list A) : lprefix a b -> lprefix b c -> lprefix a c.
Proof. intros [t ->] [u ->]. exists (t ++ u). rewrite app_assoc. reflexivity. Qed.
Lemma lprefix_app_l {A} (a b c : list A) : lprefix b c -> lprefix (a ++ b) (a ++ c).
Proof. intros [t ->]. exists t. rewrite app_assoc. reflexivity. Qed.
Lemma lprefix_nil_inv {A} (a : list A) : lprefix a [] -> a = [].
Proof. intros [t Ht]. symmetry in Ht. apply app_eq_nil in Ht. tauto. Qed.

Lemma vskipn_nth_error {A} : forall (l : list A) i x, nth_error l i = Some x -> skipn i l = x :: skipn (S i) l.
Proof.
  induction l as [|y t IH]; intros i x H.
  - destruct i; discriminate H.
  - destruct i as [|i].
    + cbn [nth_error] in H. injection H as ->. reflexivity.
    + cbn [nth_error] in H. cbn [skipn]. apply IH. exact H.
Qed.

Lemma firstn_S_skipn {A} : forall (l : list A) i k x, nth_error l i = Some x ->
  firstn (S k) (skipn i l) = x :: firstn k (skipn (S i) l).
Proof. intros l i k x H. rewrite (vskipn_nth_error l i x H). reflexivity. Qed.

(* a sealed unit of one direction's payload authenticator: (nonce, plaintext, ciphertext) *)
Notation vunit := (bytes * bytes * bytes)%type (only parsing).
Definition vu_pt (u : vunit) : bytes := snd (fst u).
Definition vu_ct (u : vunit) : bytes := snd u.
Definition vu_nonce (u : vunit) : bytes := fst (fst u).

Definition vprepend {St} (o : bytes) (r : result St bytes) : result St bytes :=
  match r with Stop s2 r2 o2 => Stop s2 r2 (o ++ o2) | Fail o2 => Fail (o ++ o2) end.
Lemma vprepend_nil {St} (r : result St bytes) : vprepend [] r = r.
Proof. destruct r; reflexivity. Qed.
Lemma vprepend_vprepend {St} a b (r : result St bytes) : vprepend a (vprepend b r) = vprepend (a ++ b) r.
Proof. destruct r; cbn [vprepend]; rewrite app_assoc; reflexivity. Qed.

Section VmessDecoderSide.
  Variable P : prims.

  (* ---- the fields of a body that no decoder step changes, and the payload counter ---- *)
  Definition vm_dir (c : N) (key iv : bytes) (s : body) : Prop :=
    b_cipher s = c /\ b_key s = key /\ b_iv s = iv.

  Lemma decode_size_keeps b data len b' : decode_size P b data = Ok (len, b') ->
    b_cipher b' = b_cipher b /\ b_key b' = b_key b /\ b_iv b' = b_iv b /\ b_count b' = b_count b /\
    b_civ b' = b_civ b /\ b_state b' = b_state b /\ size_bytes b' = size_bytes b.
  Proof.
    unfold decode_size, shake_next, size_bytes. destruct (b_size b) as [| |k c] eqn:E.
    - intros H. assert (b' = b) by congruence. subst b'. rewrite E. auto 10.
    - intros H. assert (Hb : b' = {| b_cipher := b_cipher b; b_key := b_key b; b_iv := b_iv b; b_count := b_count b;
                                    b_size := b_size b; b_civ := b_civ b; b_pad := b_pad b; b_seed := b_seed b;
                                    b_pos := b_pos b + 1; b_state := b_state b |}) by congruence.
      subst b'. cbn [b_cipher b_key b_iv b_count b_civ b_state b_size]. rewrite E. auto 10.
    - destruct (p_open P (b_cipher b) k (vnonce c (b_civ b)) [] data) as [pl|]; [|discriminate].
      destruct (get_u16 pl) as [[v t]|e|]; cbn [bind]; try discriminate.
      intros H. assert (Hb : b' = set_size b (SAuth k (counting_next c))) by congruence.
      subst b'. cbn [set_size b_cipher b_key b_iv b_count b_civ b_state b_size]. auto 10.
  Qed.

  Lemma norm_keeps b :
    b_cipher (norm P b) = b_cipher b /\ b_key (norm P b) = b_key b /\ b_iv (norm P b) = b_iv b /\
    b_count (norm P b) = b_count b /\ b_civ (norm P b) = b_civ b /\ b_size (norm P b) = b_size b /\
    size_bytes (norm P b) = size_bytes b.
  Proof.
    unfold norm, size_bytes. destruct (b_state b) eqn:E; [|auto 10|auto 10].
    unfold next_padding, shake_next. destruct (b_pad b); cbn [fst snd set_state b_cipher b_key b_iv b_count b_civ b_size]; auto 10.
  Qed.

  Lemma vstep_pad {A} (wrap : bytes -> list A) s u : b_state s = BPadding -> step P A wrap s u = None.
  Proof. intros E. unfold step. rewrite E. reflexivity. Qed.
  Lemma vstep_len {A} (wrap : bytes -> list A) s p u : b_state s = BLength p ->
    step P A wrap s u = match decode_size P s u with
                        | Ok (len, b') => if len =? 0 then None else Some (set_state b' (BBody p len), [])
                        | _ => None
                        end.
  Proof. intros E. unfold step. rewrite E. reflexivity. Qed.
  Lemma vstep_body {A} (wrap : bytes -> list A) s p len u : b_state s = BBody p len ->
    step P A wrap s u = if len <? p + TAG then None else
                        match body_open P s (takeN (len - p) u) with
                        | (None, _) => None
                        | (Some pl, b') => Some (norm P (set_state b' BPadding), wrap pl)
                        end.
  Proof. intros E. unfold step. rewrite E. reflexivity. Qed.

  Notation Cn := (Canon.canon body (list N) (@app N) [] need (step P N (fun pl => pl))).

  Section Lockstep.
    Variables (c : N) (key iv : bytes).      (* cipher, key and iv of the direction *)
    Variable m0 : nat.                       (* payload seals made by this direction before the units of H *)
    Variable H : list vunit.                 (* the units the honest sender sealed, in order *)

    (* unit j was sealed with the counter nonce number m0 + j of this direction *)
    Definition vm_lockstep_nonces : Prop :=
      forall j u, nth_error H j = Some u -> vu_nonce u = vnonce (Nat.iter (m0 + j) counting_next 0) iv.
    (* only honest units open under the key of the direction, for ANY nonce and ciphertext presented *)
    Definition vm_forge_free : Prop :=
      forall n ct m, p_open P c key n [] ct = Some m -> In (n, m, ct) H.

    Definition vm_lock (s : body) (i : nat) : Prop :=
      b_cipher s = c /\ b_key s = key /\ b_iv s = iv /\ b_count s = Nat.iter (m0 + i) counting_next 0.

    Lemma vm_lock_norm s i : vm_lock s i -> vm_lock (norm P s) i.
    Proof. unfold vm_lock. destruct (norm_keeps s) as (E1 & E2 & E3 & E4 & _). rewrite E1, E2, E3, E4. auto. Qed.

    Hypothesis Hnonces : vm_lockstep_nonces.
    Hypothesis Hbound : N.of_nat (m0 + length H) < 65536.      (* the 16-bit counter of the protocol does not wrap *)
    Lemma vm_bound_nat : (m0 + length H < 65536)%nat.
    Proof. pose proof Hbound as Hb. rewrite <- nat65536 in Hb. lia. Qed.

    (* a successful payload open of a decoder in lockstep at position i opened honest unit i *)
    Lemma vm_open_is_honest : vm_forge_free -> forall s i ct m, vm_lock s i -> (i <= length H)%nat ->
      fst (body_open P s ct) = Some m ->
      nth_error H i = Some (vnonce (Nat.iter (m0 + i) counting_next 0) iv, m, ct) /\ (S i <= length H)%nat /\
      vm_lock (snd (body_open P s ct)) (S i).
    Proof.
      intros HF s i ct m (L1 & L2 & L3 & L4) Hi Ho. unfold body_open in *. cbn [fst snd] in *.
      rewrite L1, L2, L3, L4 in Ho. apply HF in Ho. apply In_nth_error in Ho. destruct Ho as [j Hj].
      assert (Hjl : (j < length H)%nat) by (apply nth_error_Some; rewrite Hj; discriminate).
      pose proof (Hnonces j _ Hj) as Hn. cbn [vu_nonce fst] in Hn. pose proof vm_bound_nat as Hb.
      apply vnonce_iter_inj in Hn; [|lia|lia].
      assert (i = j) by lia. subst j. split; [exact Hj|]. split; [lia|].
      unfold vm_lock, bump_count. cbn [b_cipher b_key b_iv b_count]. rewrite L4.
      replace (m0 + S i)%nat with (S (m0 + i)) by lia. rewrite iter_S. auto.
    Qed.

    (* invariant of the unit machine under forge-freeness, from ANY state in lockstep at position i and on ANY
       bytes: what has been released is the plaintext of k consecutive honest units starting at i *)
    Lemma vm_canon_forge_free : vm_forge_free -> forall fuel s buf i, vm_lock s i -> (i <= length H)%nat ->
      match Cn fuel s buf with
      | Stop s2 r o => exists k, (i + k <= length H)%nat /\ o = concat (map vu_pt (firstn k (skipn i H))) /\ vm_lock s2 (i + k)
      | Fail o => exists k, (i + k <= length H)%nat /\ o = concat (map vu_pt (firstn k (skipn i H)))
      end.
    Proof.
      intros HF. induction fuel as [|f IH]; intros s buf i HL Hi.
      - cbn [canon]. exists 0%nat. rewrite Nat.add_0_r. auto.
      - cbn [canon].
        assert (Hstop : exists k, (i + k <= length H)%nat /\ [] = concat (map vu_pt (firstn k (skipn i H))) /\ vm_lock s (i + k)).
        { exists 0%nat. rewrite Nat.add_0_r. auto. }
        assert (Hfail : exists k, (i + k <= length H)%nat /\ [] = concat (map vu_pt (firstn k (skipn i H)))).
        { exists 0%nat. rewrite Nat.add_0_r. auto. }
        destruct (need s buf) as [n|]; [|exact Hstop].
        destruct (n <=? length buf)%nat; [|exact Hstop].
        destruct (b_state s) as [|p|p len] eqn:ES; [rewrite (vstep_pad _ _ _ ES); exact Hfail| |].
        + rewrite (vstep_len _ _ _ _ ES). destruct (decode_size P s (firstn n buf)) as [[len b']|e|] eqn:ED; [|exact Hfail|exact Hfail].
          destruct (len =? 0); [exact Hfail|].
          destruct (decode_size_keeps _ _ _ _ ED) as (K1 & K2 & K3 & K4 & _).
          assert (HL' : vm_lock (set_state b' (BBody p len)) i).
          { destruct HL as (L1 & L2 & L3 & L4). unfold vm_lock. cbn [set_state b_cipher b_key b_iv b_count].
            rewrite K1, K2, K3, K4. auto. }
          specialize (IH (set_state b' (BBody p len)) (skipn n buf) i HL' Hi).
          destruct (Cn f (set_state b' (BBody p len)) (skipn n buf)) as [s2 r2 o2|o2]; cbn [app]; exact IH.
        + rewrite (vstep_body _ _ _ _ _ ES). destruct (len <? p + TAG); [exact Hfail|].
          destruct (body_open P s (takeN (len - p) (firstn n buf))) as [[pl|] b'] eqn:EO; [|exact Hfail].
          pose proof (vm_open_is_honest HF s i (takeN (len - p) (firstn n buf)) pl HL Hi) as HO.
          rewrite EO in HO. cbn [fst snd] in HO. destruct (HO eq_refl) as (Hnth & HSi & HL').
          assert (HL'' : vm_lock (norm P (set_state b' BPadding)) (S i)).
          { apply vm_lock_norm. destruct HL' as (L1 & L2 & L3 & L4). unfold vm_lock.
            cbn [set_state b_cipher b_key b_iv b_count]. auto. }
          specialize (IH (norm P (set_state b' BPadding)) (skipn n buf) (S i) HL'' HSi).
          destruct (Cn f (norm P (set_state b' BPadding)) (skipn n buf)) as [s2 r2 o2|o2].
          * destruct IH as (k & Hk & Ho & HLk). exists (S k). split; [lia|]. split.
            -- rewrite (firstn_S_skipn H i k _ Hnth). cbn [map concat vu_pt fst snd]. rewrite Ho. reflexivity.
            -- replace (i + S k)%nat with (S i + k)%nat by lia. exact HLk.
          * destruct IH as (k & Hk & Ho). exists (S k). split; [lia|].
            rewrite (firstn_S_skipn H i k _ Hnth). cbn [map concat vu_pt fst snd]. rewrite Ho. reflexivity.
    Qed.

    Lemma vm_firstn_prefix i k : lprefix (concat (map vu_pt (firstn k (skipn i H)))) (concat (map vu_pt (skipn i H))).
    Proof.
      exists (concat (map vu_pt (skipn k (skipn i H)))).
      rewrite <- concat_app, <- map_app, firstn_skipn. reflexivity.
    Qed.

    (* 1. the unit machine on ANY byte string, from any state in lockstep at position 0, releases a prefix of
          what the honest sender sealed *)
    Theorem vm_crun_released_is_prefix : vm_forge_free -> forall s w', vm_lock s 0 ->
      match crunS P s w' with
      | Stop _ _ o => lprefix o (concat (map vu_pt H))
      | Fail o => lprefix o (concat (map vu_pt H))
      end.
    Proof.
      intros HF s w' HL. unfold crunS, crun, gcrun, Canon.run.
      pose proof (vm_canon_forge_free HF (S (length w')) s w' 0 HL ltac:(lia)) as HC.
      destruct (Cn (S (length w')) s w') as [s2 r o|o].
      - destruct HC as (k & _ & -> & _). apply (vm_firstn_prefix 0 k).
      - destruct HC as (k & _ & ->). apply (vm_firstn_prefix 0 k).
    Qed.

    (* ---- a decoder in lockstep at position j, waiting for a size field, on ANY bytes `rest` ---- *)
    (* the chunk at the head of `rest` is intact when its size field decodes to a length `len` that is available and
       the `len - padding` bytes that follow are the honest ciphertext of unit j (size field and padding bytes
       themselves are not compared: in the Plain / Shake modes the size is not authenticated, the padding never is) *)
    Definition vm_intact (s : body) (p : N) (ct rest : bytes) : Prop :=
      exists len b', size_bytes s <= lenN rest /\ decode_size P s (takeN (size_bytes s) rest) = Ok (len, b') /\
                     len <= lenN (dropN (size_bytes s) rest) /\ takeN (len - p) (dropN (size_bytes s) rest) = ct.

    (* nothing is released from position j on unless the chunk is intact *)
    Lemma vm_crun_tampered_silent {A} (wrap : bytes -> list A) : vm_forge_free -> forall s p j u rest, vm_lock s j -> b_state s = BLength p ->
      nth_error H j = Some u -> ~ vm_intact s p (vu_ct u) rest ->
      match crun P A wrap s rest with Stop _ _ o => o = [] | Fail o => o = [] end.
    Proof.
      intros HF s p j u rest HL ES Hu Hnot.
      assert (Hj : (j <= length H)%nat).
      { assert (nth_error H j <> None) as Hne by (rewrite Hu; discriminate). apply nth_error_Some in Hne. lia. }
      destruct (N.ltb_spec (lenN rest) (size_bytes s)) as [Hs|Hs].
      { rewrite (crun_short_len P A wrap s p rest ES Hs). reflexivity. }
      rewrite (crun_len P A wrap s p rest ES Hs).
      destruct (decode_size P s (takeN (size_bytes s) rest)) as [[len b']|e|] eqn:ED; [|reflexivity|reflexivity].
      destruct (N.eqb_spec len 0) as [E0|Hlen]; [reflexivity|].
      destruct (decode_size_keeps _ _ _ _ ED) as (K1 & K2 & K3 & K4 & _).
      assert (HL' : vm_lock (set_state b' (BBody p len)) j).
      { destruct HL as (L1 & L2 & L3 & L4). unfold vm_lock. cbn [set_state b_cipher b_key b_iv b_count].
        rewrite K1, K2, K3, K4. auto. }
      set (s1 := set_state b' (BBody p len)) in *. set (r1 := dropN (size_bytes s) rest) in *.
      destruct (N.ltb_spec (lenN r1) len) as [Hr|Hr].
      { rewrite (crun_short_body P A wrap s1 p len r1 eq_refl Hr). reflexivity. }
      rewrite (crun_body P A wrap s1 p len r1 eq_refl ltac:(lia) Hr).
      destruct (len <? p + TAG); [reflexivity|].
      destruct (body_open P s1 (takeN (len - p) r1)) as [[pl|] b''] eqn:EO; [|reflexivity].
      exfalso. pose proof (vm_open_is_honest HF s1 j (takeN (len - p) r1) pl HL' Hj) as HO.
      rewrite EO in HO. destruct (HO eq_refl) as (Hnth & _). rewrite Hu in Hnth. injection Hnth as ->.
      apply Hnot. exists len, b'. cbn [vu_ct snd]. auto.
    Qed.

    (* ... and as soon as the chunk is complete by the decoder's own reckoning the run fails *)
    Lemma vm_crun_tampered_fails {A} (wrap : bytes -> list A) : vm_forge_free -> forall s p j u rest, vm_lock s j -> b_state s = BLength p ->
      nth_error H j = Some u -> ~ vm_intact s p (vu_ct u) rest ->
      size_bytes s <= lenN rest ->
      (forall len b', decode_size P s (takeN (size_bytes s) rest) = Ok (len, b') -> len <= lenN (dropN (size_bytes s) rest)) ->
      crun P A wrap s rest = Fail [].
    Proof.
      intros HF s p j u rest HL ES Hu Hnot Hs Hcomplete.
      assert (Hj : (j <= length H)%nat).
      { assert (nth_error H j <> None) as Hne by (rewrite Hu; discriminate). apply nth_error_Some in Hne. lia. }
      rewrite (crun_len P A wrap s p rest ES Hs).
      destruct (decode_size P s (takeN (size_bytes s) rest)) as [[len b']|e|] eqn:ED; [|reflexivity|reflexivity].
      destruct (N.eqb_spec len 0) as [E0|Hlen]; [reflexivity|].
      destruct (decode_size_keeps _ _ _ _ ED) as (K1 & K2 & K3 & K4 & _).
      assert (HL' : vm_lock (set_state b' (BBody p len)) j).
      { destruct HL as (L1 & L2 & L3 & L4). unfold vm_lock. cbn [set_state b_cipher b_key b_iv b_count].
        rewrite K1, K2, K3, K4. auto. }
      pose proof (Hcomplete len b' eq_refl) as Hr.
      set (s1 := set_state b' (BBody p len)) in *. set (r1 := dropN (size_bytes s) rest) in *.
      rewrite (crun_body P A wrap s1 p len r1 eq_refl ltac:(lia) Hr).
      destruct (len <? p + TAG); [reflexivity|].
      destruct (body_open P s1 (takeN (len - p) r1)) as [[pl|] b''] eqn:EO; [|reflexivity].
      exfalso. pose proof (vm_open_is_honest HF s1 j (takeN (len - p) r1) pl HL' Hj) as HO.
      rewrite EO in HO. destruct (HO eq_refl) as (Hnth & _). rewrite Hu in Hnth. injection Hnth as ->.
      apply Hnot. exists len, b'. cbn [vu_ct snd]. auto.
    Qed.

    (* ---- packet mode (UDP over the VMess tunnel: one chunk = one datagram) ---- *)
    Lemma next_padding_keeps b :
      b_cipher (snd (next_padding P b)) = b_cipher b /\ b_key (snd (next_padding P b)) = b_key b /\
      b_iv (snd (next_padding P b)) = b_iv b /\ b_count (snd (next_padding P b)) = b_count b.
    Proof. unfold next_padding, shake_next. destruct (b_pad b); cbn [fst snd b_cipher b_key b_iv b_count]; auto. Qed.

    Lemma vm_pkt_loop_accept : vm_forge_free -> forall fuel b src dst j b1 r1 d1, vm_lock b j -> (j <= length H)%nat ->
      vdec_loop P fuel true b src dst = Ok (b1, r1, d1, true) ->
      exists u, nth_error H j = Some u /\ d1 = vu_pt u /\ vm_lock b1 (S j) /\ exists pre post, src = pre ++ vu_ct u ++ post.
    Proof.
      intros HF. induction fuel as [|f IH]; intros b src dst j b1 r1 d1 HL Hj; cbn [vdec_loop]; [discriminate|].
      destruct (b_state b) as [|p|p len] eqn:ES.
      - destruct (next_padding P b) as [p b'] eqn:EN. apply IH; [|exact Hj].
        pose proof (next_padding_keeps b) as (K1 & K2 & K3 & K4). rewrite EN in K1, K2, K3, K4. cbn [snd] in *.
        destruct HL as (L1 & L2 & L3 & L4). unfold vm_lock. cbn [set_state b_cipher b_key b_iv b_count].
        rewrite K1, K2, K3, K4. auto.
      - destruct (lenN src <? size_bytes b); [discriminate|].
        destruct (decode_size P b (takeN (size_bytes b) src)) as [[len b']|e|] eqn:ED; cbn [bind]; [|discriminate|discriminate].
        intros HR. destruct (decode_size_keeps _ _ _ _ ED) as (K1 & K2 & K3 & K4 & _).
        assert (HL' : vm_lock (set_state b' (BBody p len)) j).
        { destruct HL as (L1 & L2 & L3 & L4). unfold vm_lock. cbn [set_state b_cipher b_key b_iv b_count].
          rewrite K1, K2, K3, K4. auto. }
        destruct (IH _ _ _ _ _ _ _ HL' Hj HR) as (u & Hu & Hd & HLb & pre & post & Hs).
        exists u. split; [exact Hu|]. split; [exact Hd|]. split; [exact HLb|].
        exists (takeN (size_bytes b) src ++ pre), post. rewrite <- app_assoc, <- Hs. symmetry. apply take_drop.
      - destruct (lenN src <? len); [discriminate|]. destruct (len <? p + TAG); [discriminate|].
        destruct (body_open P b (takeN (len - p) src)) as [[pl|] b'] eqn:EO; [|discriminate].
        intros HR. pose proof (vm_open_is_honest HF b j (takeN (len - p) src) pl HL Hj) as HO.
        rewrite EO in HO. cbn [fst snd] in HO. destruct (HO eq_refl) as (Hnth & _ & HL').
        assert (E : set_state b' BPadding = b1 /\ pl = d1) by (split; congruence). destruct E as [<- <-].
        eexists. split; [exact Hnth|]. cbn [vu_pt vu_ct fst snd]. split; [reflexivity|]. split.
        + destruct HL' as (L1 & L2 & L3 & L4). unfold vm_lock. cbn [set_state b_cipher b_key b_iv b_count]. auto.
        + exists [], (dropN (len - p) src). cbn [app]. symmetry. apply take_drop.
    Qed.

    (* 2. a datagram is only ever released by a decoder in lockstep at position j if it is EXACTLY the plaintext of
          honest unit j, and the honest ciphertext of unit j is found in the input *)
    Theorem vm_packet_accept_is_honest : vm_forge_free -> forall b src j b' r d, vm_lock b j -> (j <= length H)%nat ->
      decode_packet_v P b src = Ok (b', r, Some d) ->
      exists u, nth_error H j = Some u /\ d = vu_pt u /\ vm_lock b' (S j) /\ exists pre post, src = pre ++ vu_ct u ++ post.
    Proof.
      intros HF b src j b' r d HL Hj. unfold decode_packet_v.
      destruct (vdec_loop P (3 * S (length src)) true b src []) as [[[[b1 r1] d1] got]|e|] eqn:EV; cbn [bind]; try discriminate.
      destruct got; [|discriminate]. intros HR.
      destruct (vm_pkt_loop_accept HF _ _ _ _ _ _ _ _ HL Hj EV) as (u & Hu & Hd & HLb & Hsrc).
      assert (E : b1 = b' /\ d1 = d) by (split; congruence). destruct E as [<- <-]. eauto.
    Qed.

    (* a tampered datagram-carrying chunk is dropped entirely: error, or (incomplete) nothing yet -- never a datagram *)
    Theorem vm_packet_tampered_dropped : vm_lens P -> vm_forge_free -> forall b src j, vm_lock b j -> (j <= length H)%nat ->
      (forall u, nth_error H j = Some u -> forall pre post, src <> pre ++ vu_ct u ++ post) ->
      decode_packet_v P b src = Err EAead \/ exists b' r, decode_packet_v P b src = Ok (b', r, None).
    Proof.
      intros HLn HF b src j HL Hj Hnot.
      pose proof (decode_packet_v_cases P HLn b src) as HC.
      destruct (decode_packet_v P b src) as [[[b' r] [d|]]|e|] eqn:ED.
      - exfalso. destruct (vm_packet_accept_is_honest HF _ _ _ _ _ _ HL Hj ED) as (u & Hu & _ & _ & pre & post & Hs).
        exact (Hnot u Hu pre post Hs).
      - right. eauto.
      - left. rewrite HC. reflexivity.
      - contradiction.
    Qed.

    (* ... and a complete tampered chunk is an error *)
    Theorem vm_packet_tampered_rejected : vm_lens P -> vm_forge_free -> forall b p j u src, wf b -> vm_lock (norm P b) j ->
      b_state (norm P b) = BLength p -> nth_error H j = Some u -> ~ vm_intact (norm P b) p (vu_ct u) src ->
      size_bytes b <= lenN src ->
      (forall len b', decode_size P (norm P b) (takeN (size_bytes b) src) = Ok (len, b') -> len <= lenN (dropN (size_bytes b) src)) ->
      decode_packet_v P b src = Err EAead.
    Proof.
      intros HLn HF b p j u src Hwf HL ES Hu Hnot Hs Hcomplete.
      destruct (norm_keeps b) as (_ & _ & _ & _ & _ & _ & Esb).
      pose proof (vm_crun_tampered_fails (fun pl : bytes => [pl]) HF (norm P b) p j u src HL ES Hu Hnot
                    ltac:(rewrite Esb; exact Hs) ltac:(rewrite Esb; exact Hcomplete)) as HCr.
      unfold decode_packet_v.
      assert (Hf : (3 * length src + mu b <= 3 * S (length src))%nat) by (unfold mu; destruct (b_state b); lia).
      pose proof (pkt_loop_canon P HLn (3 * S (length src)) b src [] Hwf Hf) as HK.
      unfold crunP in HK. rewrite HCr in HK.
      destruct (vdec_loop P (3 * S (length src)) true b src []) as [[[[b1 r1] d1] [|]]|e|].
      - destruct HK as (_ & _ & HK). destruct (crun P bytes (fun pl : bytes => [pl]) (norm P b1) r1); discriminate HK.
      - destruct HK as (HK & _). discriminate HK.
      - destruct HK as (-> & _). reflexivity.
      - contradiction.
    Qed.

    (* ---- AuthenticatedLength: a tampered size field.  The size fields are sealed under ANOTHER key (derived from
            the request key) with the counter nonces over the REQUEST iv in BOTH directions (known finding F-12b,
            VmessFacts.auth_len_key_nonce_shared): the table of honest size units therefore contains the size units
            of both directions of the session ---- *)
    Lemma vm_crun_auth_size_rejected {A} (wrap : bytes -> list A) (Hsize : list vunit) : forall s p k cnt rest,
      b_state s = BLength p -> b_size s = SAuth k cnt ->
      (forall n ct m, p_open P (b_cipher s) k n [] ct = Some m -> In (n, m, ct) Hsize) ->
      2 + TAG <= lenN rest ->
      (forall m, ~ In (vnonce cnt (b_civ s), m, takeN (2 + TAG) rest) Hsize) ->
      crun P A wrap s rest = Fail [].
    Proof.
      intros s p k cnt rest ES Esz HFs Hlen Hnot.
      assert (Hsb : size_bytes s = 2 + TAG) by (unfold size_bytes; rewrite Esz; reflexivity).
      rewrite (crun_len P A wrap s p rest ES ltac:(rewrite Hsb; exact Hlen)). rewrite Hsb.
      unfold decode_size. rewrite Esz.
      destruct (p_open P (b_cipher s) k (vnonce cnt (b_civ s)) [] (takeN (2 + TAG) rest)) as [pl|] eqn:EO; [|reflexivity].
      exfalso. apply HFs in EO. exact (Hnot _ EO).
    Qed.

    (* the FramedRead run of the stream decoder against the unit machine on the concatenation *)
    Lemma vm_frun_crun : vm_lens P -> forall s0 segs, wf s0 ->
      match crunS P (norm P s0) (concat segs) with
      | Stop s2 r2 o2 => exists s2' items, Framed.run _ _ (vbody_dec P) s0 [] segs [] = (s2', r2, items, Waiting) /\
                                           norm P s2' = s2 /\ concat items = o2 /\ wf s2'
      | Fail o2 => exists s' b' items, Framed.run _ _ (vbody_dec P) s0 [] segs [] = (s', b', items, Failed EAead) /\
                                       lprefix (concat items) o2
      end.
    Proof.
      intros HLn s0 segs Hwf.
      pose proof (frun_canon body N bytes (vbody_dec P) need (step P N (fun pl => pl)) (norm P) wf (@concat N) (@concat_app N)
                             (feed_canonS P HLn) segs s0 [] [] [] eq_refl Hwf) as HR.
      rewrite (gcrun_segs_concat body N need (step P N (fun pl => pl)) (need_pos N (fun pl => pl)) need_mono) in HR.
      exact HR.
    Qed.

    (* 2. C05 at the FramedRead level: WHATEVER bytes arrive and however they are segmented *)
    Theorem vm_released_is_prefix_units : vm_lens P -> vm_forge_free -> forall s0, wf s0 -> vm_lock s0 0 ->
      forall w' segs, concat segs = w' ->
      let '(_, _, items, st) := Framed.run _ _ (vbody_dec P) s0 [] segs [] in
      lprefix (concat items) (concat (map vu_pt H)) /\ (st = Waiting \/ st = Failed EAead).
    Proof.
      intros HLn HF s0 Hwf HL w' segs _.
      pose proof (vm_frun_crun HLn s0 segs Hwf) as HR.
      pose proof (vm_crun_released_is_prefix HF (norm P s0) (concat segs) (vm_lock_norm _ _ HL)) as HP.
      destruct (crunS P (norm P s0) (concat segs)) as [s2 r2 o2|o2].
      - destruct HR as (s2' & items & -> & _ & -> & _). auto.
      - destruct HR as (s' & b' & items & -> & Hp). split; [|auto]. eapply lprefix_trans; eassumption.
    Qed.
  End Lockstep.

  (* why the bound is a premise (recorded, C12 `pay_nonce_wraps`): the protocol's counter is 16 bits wide; a decoder
     65536 chunks further on uses the nonce of this chunk again, so after 65536 chunks of one direction (128 MiB at
     2 KiB per chunk) a REPLAYED old chunk opens again.  Witness: *)
  Theorem vm_replay_after_wrap_opens : forall b b' ct,
    b_cipher b' = b_cipher b -> b_key b' = b_key b -> b_iv b' = b_iv b ->
    b_count b' = Nat.iter 65536 counting_next (b_count b) ->
    fst (body_open P b' ct) = fst (body_open P b ct).
  Proof.
    intros b b' ct E1 E2 E3 E4. unfold body_open. cbn [fst]. rewrite E1, E2, E3, E4, pay_nonce_wraps. reflexivity.
  Qed.
End VmessDecoderSide.

(* ================================================================================================ *)
(* PART 2: the legitimate sender, chunk by chunk                                                    *)
(* ================================================================================================ *)
(* one chunk written by the honest encoder: (encoder body at the start of the chunk, payload still to be sent by
   this write, padding source).  Everything the chunk contains is a function of these three. *)
Notation vchunk := (body * bytes * bytes)%type (only parsing).
Notation LIM := VMESS_PAYLOAD_LIMIT (only parsing).

Section VmessSender.
  Variable P : prims.

  Definition vc_body (x : vchunk) : body := fst (fst x).
  Definition vc_src (x : vchunk) : bytes := snd (fst x).
  Definition vc_padsrc (x : vchunk) : bytes := snd x.
  Definition vc_next (x : vchunk) : body := snd (fst (encode_chunk P (vc_body x) LIM (vc_src x) (vc_padsrc x))).
  Definition vc_rest (x : vchunk) : bytes := snd (encode_chunk P (vc_body x) LIM (vc_src x) (vc_padsrc x)).
  Definition vc_wire (x : vchunk) : bytes := fst (fst (encode_chunk P (vc_body x) LIM (vc_src x) (vc_padsrc x))).
  Definition vc_pt (x : vchunk) : bytes := takeN (ec_esize P (vc_body x) LIM (vc_src x)) (vc_src x).
  Definition vc_nonce (x : vchunk) : bytes := vnonce (b_count (vc_body x)) (b_iv (vc_body x)).
  Definition vc_ct (x : vchunk) : bytes := p_seal P (b_cipher (vc_body x)) (b_key (vc_body x)) (vc_nonce x) [] (vc_pt x).
  Definition vc_unit (x : vchunk) : vunit := (vc_nonce x, vc_pt x, vc_ct x).
  Definition vc_padlen (x : vchunk) : N := ec_pad P (vc_body x).
  Definition vc_size (x : vchunk) : N := ec_size P (vc_body x) LIM (vc_src x).       (* the value of the size field *)
  Definition vc_szf (x : vchunk) : bytes := fst (encode_size P (snd (next_padding P (vc_body x))) (vc_size x)).
  Definition vc_padding (x : vchunk) : bytes := takeN (vc_padlen x) (vc_padsrc x ++ repeat 0 (N.to_nat (vc_padlen x))).

  (* a chunk on the wire: size field (2 bytes plain / masked, or 18 bytes sealed), sealed payload, random padding *)
  Lemma vc_wire_eq x : vc_wire x = vc_szf x ++ vc_ct x ++ vc_padding x.
  Proof.
    destruct x as [[b src] pad]. unfold vc_wire, vc_szf, vc_ct, vc_padding, vc_nonce, vc_pt, vc_size, vc_padlen, vc_body, vc_src, vc_padsrc.
    cbn [fst snd]. destruct (encode_chunk_seals P b VMESS_PAYLOAD_LIMIT src pad) as (E & _ & _). exact E.
  Qed.
  Lemma vc_rest_eq x : vc_rest x = dropN (ec_esize P (vc_body x) LIM (vc_src x)) (vc_src x).
  Proof. unfold vc_rest. rewrite encode_chunk_eq. reflexivity. Qed.

  Lemma vc_esize_pos x : vc_src x <> [] -> 1 <= ec_esize P (vc_body x) LIM (vc_src x) <= lenN (vc_src x).
  Proof.
    intros Hne. unfold ec_esize, ec_pad, VMESS_PAYLOAD_LIMIT, TAG.
    pose proof (next_padding_lt P (vc_body x)) as Hp. pose proof (size_bytes_le (vc_body x)) as Hsb.
    assert (1 <= lenN (vc_src x)) by (destruct (vc_src x); [contradiction|rewrite lenN_cons; lia]). lia.
  Qed.
  Lemma vc_size_range x : vc_src x <> [] -> TAG < vc_size x < 65536.
  Proof.
    intros Hne. pose proof (vc_esize_pos x Hne) as He. unfold vc_size, ec_size.
    unfold ec_esize, ec_pad, VMESS_PAYLOAD_LIMIT, TAG in *.
    pose proof (next_padding_lt P (vc_body x)) as Hp. pose proof (size_bytes_le (vc_body x)) as Hsb. lia.
  Qed.
  Lemma vc_pt_len x : vc_src x <> [] -> 1 <= lenN (vc_pt x) /\ lenN (vc_pt x) = ec_esize P (vc_body x) LIM (vc_src x).
  Proof. intros Hne. pose proof (vc_esize_pos x Hne) as He. unfold vc_pt. rewrite lenN_takeN by lia. lia. Qed.
  Lemma vc_pt_rest x : vc_pt x ++ vc_rest x = vc_src x.
  Proof. rewrite vc_rest_eq. apply take_drop. Qed.
  Lemma vc_next_fields x :
    b_cipher (vc_next x) = b_cipher (vc_body x) /\ b_key (vc_next x) = b_key (vc_body x) /\ b_iv (vc_next x) = b_iv (vc_body x) /\
    b_civ (vc_next x) = b_civ (vc_body x) /\ b_count (vc_next x) = counting_next (b_count (vc_body x)) /\
    b_size (vc_next x) = next_size (b_size (vc_body x)) /\ b_state (vc_next x) = b_state (vc_body x).
  Proof.
    destruct (encode_chunk_fields P (vc_body x) VMESS_PAYLOAD_LIMIT (vc_src x) (vc_padsrc x)) as (F1 & F2 & F3 & F4 & F5 & F6).
    unfold vc_next. rewrite encode_chunk_state. auto 10.
  Qed.

  (* the chunks written one after the other, each from the body the previous one left *)
  Inductive vchain : body -> list vchunk -> body -> Prop :=
  | vchain_nil b : vchain b [] b
  | vchain_cons b src pad l b' : src <> [] -> vchain (vc_next (b, src, pad)) l b' -> vchain b ((b, src, pad) :: l) b'.

  Lemma vchain_app b l1 b1 l2 b2 : vchain b l1 b1 -> vchain b1 l2 b2 -> vchain b (l1 ++ l2) b2.
  Proof. intros H1 H2. induction H1 as [b|b src pad l b' Hne H1 IH]; [exact H2|]. cbn [app]. constructor; [exact Hne|auto]. Qed.

  Lemma vchain_firstn b l b' : vchain b l b' -> forall j, exists bj, vchain b (firstn j l) bj /\ vchain bj (skipn j l) b'.
  Proof.
    intros Hc. induction Hc as [b|b src pad l b' Hne Hc IH]; intros j.
    - exists b. rewrite firstn_nil, skipn_nil. split; constructor.
    - destruct j as [|j].
      + exists b. cbn [firstn skipn]. split; [constructor|constructor; assumption].
      + destruct (IH j) as (bj & H1 & H2). exists bj. cbn [firstn skipn]. split; [constructor; assumption|exact H2].
  Qed.

  Lemma vchain_nth b l b' : vchain b l b' -> forall j x, nth_error l j = Some x ->
    vc_src x <> [] /\
    b_cipher (vc_body x) = b_cipher b /\ b_key (vc_body x) = b_key b /\ b_iv (vc_body x) = b_iv b /\ b_civ (vc_body x) = b_civ b /\
    b_count (vc_body x) = Nat.iter j counting_next (b_count b) /\ b_size (vc_body x) = iter_size j (b_size b) /\
    b_state (vc_body x) = b_state b.
  Proof.
    intros Hc. induction Hc as [b|b src pad l b' Hne Hc IH]; intros j x Hj.
    - destruct j; discriminate Hj.
    - destruct j as [|j]; cbn [nth_error] in Hj.
      + injection Hj as <-. cbn [vc_src vc_body fst snd]. destruct (b_size b); cbn; auto 10.
      + destruct (IH j x Hj) as (I0 & I1 & I2 & I3 & I4 & I5 & I6 & I7).
        destruct (vc_next_fields (b, src, pad)) as (F1 & F2 & F3 & F4 & F5 & F6 & F7). cbn [vc_body fst] in *.
        rewrite I1, I2, I3, I4, I5, I6, I7, F1, F2, F3, F4, F5, F6, F7.
        rewrite iter_S, <- iter_shift', iter_size_S. auto 10.
  Qed.

  Lemma vchain_state b l b' : vchain b l b' -> b_state b' = b_state b.
  Proof.
    intros Hc. induction Hc as [b|b src pad l b' Hne Hc IH]; [reflexivity|].
    rewrite IH. destruct (vc_next_fields (b, src, pad)) as (_ & _ & _ & _ & _ & _ & F7). exact F7.
  Qed.

  (* the units sealed by the payload authenticator are in lockstep with its counter *)
  Lemma vchain_lockstep b l b' m0 : vchain b l b' -> b_count b = Nat.iter m0 counting_next 0 ->
    vm_lockstep_nonces (b_iv b) m0 (map vc_unit l).
  Proof.
    intros Hc Hm j u Hj. rewrite nth_error_map in Hj.
    destruct (nth_error l j) as [x|] eqn:Ex; [|discriminate]. cbn [option_map] in Hj. injection Hj as <-.
    destruct (vchain_nth _ _ _ Hc j x Ex) as (_ & _ & _ & E3 & _ & E5 & _).
    unfold vc_unit, vu_nonce, vc_nonce. cbn [fst]. rewrite E3, E5, Hm.
    rewrite (Nat.add_comm m0 j), iter_plus'. reflexivity.
  Qed.

  (* ---- one write = encode_payload_v ---- *)
  Fixpoint vm_write_chunks (fuel : nat) (b : body) (src pad : bytes) : list vchunk :=
    match fuel with
    | O => []
    | S f => match src with
             | [] => []
             | _ => (b, src, pad) :: vm_write_chunks f (vc_next (b, src, pad)) (vc_rest (b, src, pad)) pad
             end
    end.

  Lemma vm_encode_payload_step f b x t pad :
    encode_payload_v P (S f) b (x :: t) pad =
    (vc_wire (b, x :: t, pad) ++ fst (encode_payload_v P f (vc_next (b, x :: t, pad)) (vc_rest (b, x :: t, pad)) pad),
     snd (encode_payload_v P f (vc_next (b, x :: t, pad)) (vc_rest (b, x :: t, pad)) pad)).
  Proof.
    unfold vc_wire, vc_next, vc_rest. cbn [vc_body vc_src vc_padsrc fst snd encode_payload_v].
    destruct (encode_chunk P b VMESS_PAYLOAD_LIMIT (x :: t) pad) as [[out b1] rest]. cbn [fst snd].
    destruct (encode_payload_v P f b1 rest pad) as [out2 b2]. reflexivity.
  Qed.

  Lemma vm_write_chunks_spec : forall fuel b src pad,
    fst (encode_payload_v P fuel b src pad) = concat (map vc_wire (vm_write_chunks fuel b src pad)) /\
    vchain b (vm_write_chunks fuel b src pad) (snd (encode_payload_v P fuel b src pad)).
  Proof.
    induction fuel as [|f IH]; intros b src pad.
    - cbn. split; [reflexivity|constructor].
    - destruct src as [|x t]; [cbn; split; [reflexivity|constructor]|].
      rewrite vm_encode_payload_step. cbn [vm_write_chunks map concat fst snd].
      destruct (IH (vc_next (b, x :: t, pad)) (vc_rest (b, x :: t, pad)) pad) as [IH1 IH2]. split.
      + rewrite IH1. reflexivity.
      + constructor; [discriminate|exact IH2].
  Qed.

  Lemma vm_write_chunks_pt : forall fuel b src pad, (length src <= fuel)%nat ->
    concat (map vc_pt (vm_write_chunks fuel b src pad)) = src.
  Proof.
    induction fuel as [|f IH]; intros b src pad Hf.
    - destruct src; [reflexivity|cbn [length] in Hf; lia].
    - destruct src as [|x t]; [reflexivity|].
      cbn [vm_write_chunks map concat].
      match goal with |- vc_pt ?c0 ++ _ = _ => set (c := c0) end.
      pose proof (vc_pt_len c ltac:(discriminate)) as [Hp1 _]. pose proof (vc_pt_rest c) as Hpr.
      rewrite IH.
      + exact Hpr.
      + apply (f_equal (@length N)) in Hpr. rewrite app_length in Hpr. rewrite lenN_spec in Hp1.
        change (vc_src c) with (x :: t) in Hpr. cbn [length] in Hpr, Hf. lia.
  Qed.

  (* ---- the whole sender: a list of writes (payload, padding source) ---- *)
  Fixpoint vm_send (b : body) (ws : list (bytes * bytes)) : bytes * body :=
    match ws with
    | [] => ([], b)
    | w :: t => let r := encode_payload_v P (S (length (fst w))) b (fst w) (snd w) in
                let r2 := vm_send (snd r) t in (fst r ++ fst r2, snd r2)
    end.
  Fixpoint vm_chunks (b : body) (ws : list (bytes * bytes)) : list vchunk :=
    match ws with
    | [] => []
    | w :: t => vm_write_chunks (S (length (fst w))) b (fst w) (snd w)
                ++ vm_chunks (snd (encode_payload_v P (S (length (fst w))) b (fst w) (snd w))) t
    end.
  Definition vm_honest (b : body) (ws : list (bytes * bytes)) : list vunit := map vc_unit (vm_chunks b ws).
  Definition vm_wire (b : body) (ws : list (bytes * bytes)) : bytes := fst (vm_send b ws).
  Definition vm_payloads (ws : list (bytes * bytes)) : bytes := concat (map fst ws).

  Lemma vm_send_spec : forall ws b,
    vm_wire b ws = concat (map vc_wire (vm_chunks b ws)) /\
    vchain b (vm_chunks b ws) (snd (vm_send b ws)) /\
    concat (map vc_pt (vm_chunks b ws)) = vm_payloads ws.
  Proof.
    unfold vm_wire, vm_payloads. induction ws as [|w t IH]; intros b.
    - cbn. split; [reflexivity|]. split; [constructor|reflexivity].
    - cbn [vm_send vm_chunks map concat fst snd].
      destruct (vm_write_chunks_spec (S (length (fst w))) b (fst w) (snd w)) as [W1 W2].
      destruct (IH (snd (encode_payload_v P (S (length (fst w))) b (fst w) (snd w)))) as (I1 & I2 & I3).
      rewrite !map_app, !concat_app. rewrite W1, I1, I3. rewrite vm_write_chunks_pt by lia.
      split; [reflexivity|]. split; [|reflexivity]. eapply vchain_app; eassumption.
  Qed.

  Lemma vm_honest_pt b ws : concat (map vu_pt (vm_honest b ws)) = vm_payloads ws.
  Proof.
    unfold vm_honest. rewrite map_map. destruct (vm_send_spec ws b) as (_ & _ & E). rewrite <- E.
    reflexivity.
  Qed.

  (* ---- what the sender seals: (cipher, key, nonce, plaintext) of the payload seal of a chunk and, with
          AuthenticatedLength, of its size seal ---- *)
  Definition vc_size_seal (x : vchunk) : list (N * bytes * bytes * bytes) :=
    let b1 := snd (next_padding P (vc_body x)) in
    match b_size b1 with
    | SAuth k cnt => [(b_cipher b1, k, vnonce cnt (b_civ b1), put_u16 ((vc_size x - TAG) mod 65536))]
    | _ => []
    end.
  Definition vc_seals (x : vchunk) : list (N * bytes * bytes * bytes) :=
    (b_cipher (vc_body x), b_key (vc_body x), vc_nonce x, vc_pt x) :: vc_size_seal x.
  Definition vm_seals (b : body) (ws : list (bytes * bytes)) : list (N * bytes * bytes * bytes) :=
    flat_map vc_seals (vm_chunks b ws).

  (* The laws of the AEAD that the tamper theorems use.  They are the fields of Crypto.Prims.prim_laws with open_seal
     RESTRICTED to the seals in Sl (what the honest sender sealed): `prim_laws P` itself (open_seal for EVERY
     plaintext) can never hold together with a forge-freeness hypothesis over a finite table of honest units -- seal
     any other plaintext: it opens, yet is not in the table -- so a theorem assuming both would be vacuous.  An ideal
     AEAD (opens exactly what the honest parties sealed) satisfies vm_laws_on and forge-freeness together: Module
     VmessTamperExamples. *)
  Record vm_laws_on (Sl : list (N * bytes * bytes * bytes)) : Prop := {
    vo_seal_len : forall c k n a m, lenN (p_seal P c k n a m) = lenN m + TAG;
    vo_open_len : forall c k n a ct m, p_open P c k n a ct = Some m -> lenN ct = lenN m + TAG;
    vo_open_seal : forall c k n m, In (c, k, n, m) Sl -> p_open P c k n [] (p_seal P c k n [] m) = Some m
  }.
  Lemma prim_laws_on Sl : prim_laws P -> vm_laws_on Sl.
  Proof. intros HL. constructor; [apply (seal_len P HL)|apply (open_len P HL)|intros; apply (open_seal P HL)]. Qed.
  Lemma vm_laws_on_incl Sl Sl' : incl Sl' Sl -> vm_laws_on Sl -> vm_laws_on Sl'.
  Proof. intros Hi [H1 H2 H3]. constructor; [exact H1|exact H2|intros c k n m Hin; apply H3, Hi, Hin]. Qed.
  Lemma vm_laws_lens Sl : vm_laws_on Sl -> vm_lens P.
  Proof. intros [_ H2 _]. constructor. exact H2. Qed.
End VmessSender.

(* ================================================================================================ *)
(* PART 3: the body in stream mode                                                                  *)
(* ================================================================================================ *)
Section VmessStreamTamper.
  Variable P : prims.

  (* the decoder of a direction starts with the cipher, key, iv and payload counter of the sender's body
     (for both directions body_new gives the two sides the very same body) *)
  Definition vm_same_dir (s0 b0 : body) : Prop :=
    b_cipher s0 = b_cipher b0 /\ b_key s0 = b_key b0 /\ b_iv s0 = b_iv b0 /\ b_count s0 = b_count b0.
  Lemma vm_same_dir_refl b : vm_same_dir b b.
  Proof. unfold vm_same_dir. auto. Qed.

  Section Run.
    Variable b0 : body.                       (* the sender's body codec at the start *)
    Variable ws : list (bytes * bytes).       (* what the legitimate sender writes: (payload, padding source) per write *)
    Variable m0 : nat.                        (* payload seals already made in this direction (0 for body_new) *)

    (* only the units sealed by the sender open under the body key of the direction *)
    Definition vm_stream_forge_free : Prop := vm_forge_free P (b_cipher b0) (b_key b0) (vm_honest P b0 ws).

    Hypothesis Hcount : b_count b0 = Nat.iter m0 counting_next 0.
    Hypothesis Hbound : N.of_nat (m0 + length (vm_chunks P b0 ws)) < 65536.

    Lemma vm_honest_lockstep : vm_lockstep_nonces (b_iv b0) m0 (vm_honest P b0 ws).
    Proof. destruct (vm_send_spec P ws b0) as (_ & Hc & _). eapply vchain_lockstep; eassumption. Qed.
    Lemma vm_honest_length : length (vm_honest P b0 ws) = length (vm_chunks P b0 ws).
    Proof. apply map_length. Qed.
    Lemma vm_same_dir_lock s0 : vm_same_dir s0 b0 -> vm_lock (b_cipher b0) (b_key b0) (b_iv b0) m0 s0 0.
    Proof. intros (E1 & E2 & E3 & E4). unfold vm_lock. rewrite Nat.add_0_r, E4. auto. Qed.

    (* (a) C05 for the VMess body stream: WHATEVER bytes arrive (flipped, inserted, deleted, truncated, reordered,
       duplicated, spliced from the other direction or another session) and however they are segmented, what the
       decoder releases is a prefix of the concatenation of the sender's payloads, and the run ends Waiting or
       Failed EAead.  Every option mask and both ciphers: b0 and s0 are arbitrary bodies. *)
    Theorem vm_released_is_prefix : vm_lens P -> vm_stream_forge_free -> forall s0, wf s0 -> vm_same_dir s0 b0 ->
      forall w' segs, concat segs = w' ->
      let '(_, _, items, st) := Framed.run _ _ (vbody_dec P) s0 [] segs [] in
      lprefix (concat items) (vm_payloads ws) /\ (st = Waiting \/ st = Failed EAead).
    Proof.
      intros HLn HF s0 Hwf Hdir w' segs Hsegs.
      rewrite <- (vm_honest_pt P b0 ws).
      apply (vm_released_is_prefix_units P (b_cipher b0) (b_key b0) (b_iv b0) m0 (vm_honest P b0 ws)
               vm_honest_lockstep ltac:(rewrite vm_honest_length; exact Hbound) HLn HF s0 Hwf (vm_same_dir_lock s0 Hdir) w' segs Hsegs).
    Qed.

    (* the same for the unit machine itself *)
    Theorem vm_crun_prefix : vm_stream_forge_free -> forall s0, vm_same_dir s0 b0 -> forall w',
      match crunS P (norm P s0) w' with
      | Stop _ _ o => lprefix o (vm_payloads ws)
      | Fail o => lprefix o (vm_payloads ws)
      end.
    Proof.
      intros HF s0 Hdir w'. rewrite <- (vm_honest_pt P b0 ws).
      apply (vm_crun_released_is_prefix P (b_cipher b0) (b_key b0) (b_iv b0) m0 (vm_honest P b0 ws)
               vm_honest_lockstep ltac:(rewrite vm_honest_length; exact Hbound) HF).
      apply vm_lock_norm. apply vm_same_dir_lock. exact Hdir.
    Qed.
  End Run.

  (* (b) once a run has failed, whatever else the attacker sends is not looked at: same state, same buffer, same
     released items, same status *)
  Corollary vm_nothing_after_failure : forall s0 segs1 segs2 s b items e,
    Framed.run _ _ (vbody_dec P) s0 [] segs1 [] = (s, b, items, Failed e) ->
    Framed.run _ _ (vbody_dec P) s0 [] (segs1 ++ segs2) [] = (s, b, items, Failed e).
  Proof. intros s0 segs1 segs2 s b items e H. apply SsChunkTamper.run_stops_after_failure; [exact H|discriminate]. Qed.

  (* ---------------------------------------------------------------------------------------------- *)
  (* the unit machine on honestly written chunks (needs open_seal, seal_len and the XOF length laws)  *)
  (* ---------------------------------------------------------------------------------------------- *)
  Section Laws.
    Variable Sl : list (N * bytes * bytes * bytes).       (* seals on which the AEAD is required to be correct *)
    Hypothesis HL : vm_laws_on P Sl.
    Hypothesis shake_len : forall seed n, lenN (p_shake128 P seed n) = n.
    Hypothesis shake_wf : forall seed n, wf_bytes (p_shake128 P seed n).

    (* the size field round trip (VmessFacts.dec_enc_size with open_seal only where the size unit was sealed) *)
    Lemma vm_dec_enc_size b size : TAG <= size -> size < 65536 ->
      (forall k cnt, b_size b = SAuth k cnt -> In (b_cipher b, k, vnonce cnt (b_civ b), put_u16 ((size - TAG) mod 65536)) Sl) ->
      decode_size P b (fst (encode_size P b size)) = Ok (size, snd (encode_size P b size)) /\
      lenN (fst (encode_size P b size)) = size_bytes b.
    Proof.
      intros H16 Hs Hin. unfold decode_size, encode_size, size_bytes. destruct (b_size b) as [| |k c].
      - cbn [fst snd]. unfold put_u16. rewrite N.mod_small by lia. rewrite lenN_put_be.
        rewrite be_put_be by (change (256 ^ 2) with 65536; lia). auto.
      - pose proof (shake_mask_lt P shake_len shake_wf b) as Hm. destruct (shake_next P b) as [m b']. cbn [fst snd] in *.
        rewrite N.mod_small by lia. unfold put_u16. rewrite lenN_put_be.
        rewrite be_put_be by (change (256 ^ 2) with 65536; apply lxor_lt_65536; lia).
        rewrite <- N.lxor_assoc, N.lxor_nilpotent, N.lxor_0_l. auto.
      - cbn [fst snd]. rewrite (vo_open_seal P Sl HL) by (apply Hin; reflexivity). rewrite (vo_seal_len P Sl HL).
        unfold TAG in *. rewrite N.mod_small by lia.
        rewrite <- (app_nil_r (put_u16 (size - 16))). rewrite get_u16_put by lia. cbn [bind].
        rewrite app_nil_r, lenN_put_u16. replace (size - 16 + 16) with size by lia. auto.
    Qed.

    Lemma vc_szf_dec (x : vchunk) : vc_src x <> [] -> incl (vc_size_seal P x) Sl ->
      decode_size P (snd (next_padding P (vc_body x))) (vc_szf P x) =
        Ok (vc_size P x, snd (encode_size P (snd (next_padding P (vc_body x))) (vc_size P x))) /\
      lenN (vc_szf P x) = size_bytes (vc_body x).
    Proof.
      intros Hne Hincl. pose proof (vc_size_range P x Hne) as [H1 H2].
      destruct (vm_dec_enc_size (snd (next_padding P (vc_body x))) (vc_size P x) ltac:(lia) H2) as [HD HLn].
      { intros k cnt Hsz. apply Hincl. unfold vc_size_seal. cbn zeta. rewrite Hsz. left. reflexivity. }
      rewrite size_bytes_next_padding in HLn. auto.
    Qed.
    Lemma vc_ct_len (x : vchunk) : lenN (vc_ct P x) = lenN (vc_pt P x) + TAG.
    Proof. apply (vo_seal_len P Sl HL). Qed.
    Lemma vc_size_eq (x : vchunk) : vc_src x <> [] -> vc_size P x = lenN (vc_ct P x) + vc_padlen P x.
    Proof.
      intros Hne. rewrite vc_ct_len. destruct (vc_pt_len P x Hne) as [_ ->]. unfold vc_size, ec_size, vc_padlen. lia.
    Qed.

    (* one chunk: the decoder in the encoder's state consumes size field, sealed payload and `padlen` bytes of
       WHATEVER padding (the padding is random and not authenticated), releases the payload, and is in the
       encoder's next state *)
    Lemma vm_crun_chunk : forall (x : vchunk) padb rest, b_state (vc_body x) = BPadding -> vc_src x <> [] ->
      incl (vc_seals P x) Sl -> lenN padb = vc_padlen P x ->
      crunS P (norm P (vc_body x)) (vc_szf P x ++ vc_ct P x ++ padb ++ rest) =
      vprepend (vc_pt P x) (crunS P (norm P (vc_next P x)) rest).
    Proof.
      intros x padb rest Hst Hne Hincl Hpad.
      destruct (vc_szf_dec x Hne (fun u Hu => Hincl u (or_intror Hu))) as [HD HLn]. pose proof (vc_size_range P x Hne) as [HS1 HS2].
      pose proof (vc_size_eq x Hne) as HSe. pose proof (vc_ct_len x) as HCl.
      rewrite (norm_of_padding P (vc_body x) Hst).
      set (b1 := snd (next_padding P (vc_body x))) in *. set (p := fst (next_padding P (vc_body x))).
      assert (Hp : vc_padlen P x = p) by reflexivity.
      unfold crunS. rewrite (crun_len P N (fun pl => pl) (set_state b1 (BLength p)) p _ eq_refl).
      2:{ change (size_bytes (set_state b1 (BLength p))) with (size_bytes b1). unfold b1. rewrite size_bytes_next_padding.
          rewrite lenN_app. lia. }
      change (size_bytes (set_state b1 (BLength p))) with (size_bytes b1).
      assert (Hsb : size_bytes b1 = lenN (vc_szf P x)) by (unfold b1; rewrite size_bytes_next_padding; symmetry; exact HLn).
      rewrite Hsb, takeN_app_exact, dropN_app_exact. rewrite decode_size_set_state, HD.
      destruct (N.eqb_spec (vc_size P x) 0) as [E0|_]; [unfold TAG in HS1; lia|].
      set (b2 := snd (encode_size P b1 (vc_size P x))).
      change (set_state (set_state b2 (BLength p)) (BBody p (vc_size P x))) with (set_state b2 (BBody p (vc_size P x))).
      rewrite (crun_body P N (fun pl => pl) (set_state b2 (BBody p (vc_size P x))) p (vc_size P x) _ eq_refl).
      2:{ unfold TAG in HS1. lia. }
      2:{ rewrite !lenN_app. lia. }
      destruct (N.ltb_spec (vc_size P x) (p + TAG)) as [Hc|_].
      { exfalso. destruct (vc_pt_len P x Hne) as [Hp1 _]. lia. }
      replace (vc_size P x - p) with (lenN (vc_ct P x)) by lia. rewrite takeN_app_exact.
      assert (HF : b_cipher b2 = b_cipher (vc_body x) /\ b_key b2 = b_key (vc_body x) /\ b_iv b2 = b_iv (vc_body x) /\
                   b_count b2 = b_count (vc_body x) /\ b_state b2 = b_state (vc_body x)).
      { unfold b2, b1, encode_size, next_padding, shake_next.
        destruct (b_pad (vc_body x)); cbn [fst snd b_size];
          destruct (b_size (vc_body x)); cbn [fst snd set_size b_cipher b_key b_iv b_count b_state]; auto. }
      destruct HF as (F1 & F2 & F3 & F4 & F5).
      unfold body_open. cbn [set_state b_cipher b_key b_iv b_count]. rewrite F1, F2, F3, F4.
      fold (vc_nonce x). unfold vc_ct at 1. rewrite (vo_open_seal P Sl HL) by (apply Hincl; left; reflexivity).
      assert (HN : set_state (bump_count (set_state b2 (BBody p (vc_size P x)))) BPadding = vc_next P x).
      { unfold vc_next. rewrite encode_chunk_eq. cbn [fst snd]. unfold body_seal. cbn [snd].
        fold (vc_size P x). fold b1. fold b2. unfold ec_b2. fold (vc_size P x). fold b1. fold b2.
        rewrite Hst in F5. destruct b2; cbn in F5 |- *. rewrite F5. reflexivity. }
      rewrite HN.
      assert (HDr : dropN (vc_size P x) (vc_ct P x ++ padb ++ rest) = rest).
      { rewrite app_assoc. replace (vc_size P x) with (lenN (vc_ct P x ++ padb)) by (rewrite lenN_app; lia). apply dropN_app_exact. }
      rewrite HDr. fold (crunS P (norm P (vc_next P x)) rest).
      destruct (crunS P (norm P (vc_next P x)) rest); reflexivity.
    Qed.

    Lemma vc_padding_len (x : vchunk) : lenN (vc_padding P x) = vc_padlen P x.
    Proof. unfold vc_padding. apply lenN_takeN. rewrite lenN_app, lenN_repeat. lia. Qed.

    (* the chunks of a chain are consumed one after the other, their payload is released, and the decoder ends in the
       encoder's state (up to the eager padding draw `norm`) *)
    Lemma vm_crun_chain : forall b l b', vchain P b l b' -> b_state b = BPadding ->
      (forall x, In x l -> incl (vc_seals P x) Sl) -> forall rest,
      crunS P (norm P b) (concat (map (vc_wire P) l) ++ rest) =
      vprepend (concat (map (vc_pt P) l)) (crunS P (norm P b') rest).
    Proof.
      intros b l b' Hc. induction Hc as [b|b src pad l b' Hne Hc IH]; intros Hst Hincl rest.
      - cbn [map concat app]. rewrite vprepend_nil. reflexivity.
      - cbn [map concat]. rewrite vc_wire_eq. rewrite <- !app_assoc.
        rewrite (vm_crun_chunk (b, src, pad) (vc_padding P (b, src, pad)));
          [|exact Hst|exact Hne|apply Hincl; left; reflexivity|apply vc_padding_len].
        rewrite IH.
        + rewrite vprepend_vprepend. reflexivity.
        + destruct (vc_next_fields P (b, src, pad)) as (_ & _ & _ & _ & _ & _ & F7). rewrite F7. exact Hst.
        + intros x Hx. apply Hincl. right. exact Hx.
    Qed.

    Section Run2.
      Variable b0 : body.
      Variable ws : list (bytes * bytes).
      Variable m0 : nat.
      Hypothesis Hst0 : b_state b0 = BPadding.
      Hypothesis Hcount : b_count b0 = Nat.iter m0 counting_next 0.
      Hypothesis Hbound : N.of_nat (m0 + length (vm_chunks P b0 ws)) < 65536.
      Hypothesis HSl : incl (vm_seals P b0 ws) Sl.        (* the AEAD is correct on what this sender sealed *)

      Lemma vm_chunk_seals_incl x : In x (vm_chunks P b0 ws) -> incl (vc_seals P x) Sl.
      Proof. intros Hx u Hu. apply HSl. unfold vm_seals. apply in_flat_map. exists x. auto. Qed.
      Lemma vm_firstn_seals_incl j x : In x (firstn j (vm_chunks P b0 ws)) -> incl (vc_seals P x) Sl.
      Proof. intros Hx. apply vm_chunk_seals_incl. rewrite <- (firstn_skipn j (vm_chunks P b0 ws)). apply in_or_app. left. exact Hx. Qed.

      (* the honest wire up to (excluding) chunk j, and what it carries *)
      Definition vm_prefix_wire (j : nat) : bytes := concat (map (vc_wire P) (firstn j (vm_chunks P b0 ws))).
      Definition vm_prefix_pt (j : nat) : bytes := concat (map (vc_pt P) (firstn j (vm_chunks P b0 ws))).

      Lemma vm_wire_split j : vm_wire P b0 ws = vm_prefix_wire j ++ concat (map (vc_wire P) (skipn j (vm_chunks P b0 ws))).
      Proof.
        destruct (vm_send_spec P ws b0) as (E & _ & _). rewrite E. unfold vm_prefix_wire.
        rewrite <- concat_app, <- map_app, firstn_skipn. reflexivity.
      Qed.
      Lemma vm_prefix_pt_prefix j : lprefix (vm_prefix_pt j) (vm_payloads ws).
      Proof.
        destruct (vm_send_spec P ws b0) as (_ & _ & E). rewrite <- E. unfold vm_prefix_pt.
        exists (concat (map (vc_pt P) (skipn j (vm_chunks P b0 ws)))).
        rewrite <- concat_app, <- map_app, firstn_skipn. reflexivity.
      Qed.

      (* after the first j honest chunks the decoder is in the state of the encoder at the start of chunk j *)
      Lemma vm_crun_prefix_wire j x rest : nth_error (vm_chunks P b0 ws) j = Some x ->
        crunS P (norm P b0) (vm_prefix_wire j ++ rest) = vprepend (vm_prefix_pt j) (crunS P (norm P (vc_body x)) rest) /\
        b_state (vc_body x) = BPadding /\ vc_src x <> [].
      Proof.
        intros Hx. destruct (vm_send_spec P ws b0) as (_ & Hc & _).
        destruct (vchain_firstn P _ _ _ Hc j) as (bj & H1 & H2).
        rewrite (vskipn_nth_error _ _ _ Hx) in H2. inversion H2 as [|b src pad l b' Hne H2' E1 E2 E3]; subst.
        unfold vm_prefix_wire, vm_prefix_pt. rewrite (vm_crun_chain _ _ _ H1 Hst0 (vm_firstn_seals_incl j) rest).
        cbn [vc_body vc_src fst snd]. split; [reflexivity|]. split; [|exact Hne].
        rewrite (vchain_state P _ _ _ H1). exact Hst0.
      Qed.

      Lemma vm_chunk_unit j x : nth_error (vm_chunks P b0 ws) j = Some x -> nth_error (vm_honest P b0 ws) j = Some (vc_unit P x).
      Proof. intros Hx. unfold vm_honest. rewrite nth_error_map, Hx. reflexivity. Qed.

      Lemma vm_chunk_lock j x : nth_error (vm_chunks P b0 ws) j = Some x ->
        vm_lock (b_cipher b0) (b_key b0) (b_iv b0) m0 (norm P (vc_body x)) j.
      Proof.
        intros Hx. destruct (vm_send_spec P ws b0) as (_ & Hc & _).
        destruct (vchain_nth P _ _ _ Hc j x Hx) as (_ & E1 & E2 & E3 & _ & E5 & _).
        apply vm_lock_norm. unfold vm_lock. rewrite E1, E2, E3, E5, Hcount.
        rewrite (Nat.add_comm m0 j), iter_plus'. auto.
      Qed.

      (* (c) general form.  w' = the honest wire up to chunk j, then ANY bytes `rest` whose head is not an intact
         chunk j (its size field does not decode, or to a length under which the bytes at the place of the sealed
         payload are not the honest ciphertext of chunk j): exactly the payload of the first j chunks is released by
         the unit machine and nothing of `rest`; every segmentation releases a prefix of that. *)
      Theorem vm_tampered_chunk_not_released : vm_stream_forge_free b0 ws ->
        forall j x rest, nth_error (vm_chunks P b0 ws) j = Some x ->
        ~ vm_intact P (norm P (vc_body x)) (vc_padlen P x) (vc_ct P x) rest ->
        let w' := vm_prefix_wire j ++ rest in
        let o := vm_prefix_pt j in
        lprefix o (vm_payloads ws) /\
        match crunS P (norm P b0) w' with Stop _ _ o' => o' = o | Fail o' => o' = o end /\
        forall segs, concat segs = w' ->
          let '(_, _, items, st) := Framed.run _ _ (vbody_dec P) b0 [] segs [] in
          lprefix (concat items) o /\ (st = Waiting \/ st = Failed EAead).
      Proof.
        intros HF j x rest Hx Hnot w' o. pose proof (vm_laws_lens P Sl HL) as HLn.
        destruct (vm_crun_prefix_wire j x rest Hx) as (Hrun & Hstx & Hne).
        pose proof (vm_crun_tampered_silent P (b_cipher b0) (b_key b0) (b_iv b0) m0 (vm_honest P b0 ws)
                      (vm_honest_lockstep b0 ws m0 Hcount) ltac:(rewrite vm_honest_length; exact Hbound) (fun pl : bytes => pl) HF
                      (norm P (vc_body x)) (vc_padlen P x) j (vc_unit P x) rest (vm_chunk_lock j x Hx)) as HS.
        fold (crunS P (norm P (vc_body x)) rest) in HS.
        destruct (norm_fields P (vc_body x) Hstx) as (_ & _ & _ & _ & _ & _ & _ & _ & _ & ESn).
        specialize (HS ESn (vm_chunk_unit j x Hx) Hnot).
        assert (HC : match crunS P (norm P b0) w' with Stop _ _ o' => o' = o | Fail o' => o' = o end).
        { subst w'. rewrite Hrun. destruct (crunS P (norm P (vc_body x)) rest) as [s2 r2 o2|o2]; cbn [vprepend]; subst o2; apply app_nil_r. }
        split; [apply vm_prefix_pt_prefix|]. split; [exact HC|].
        intros segs Hsegs. pose proof (vm_frun_crun P HLn b0 segs (wf_padding b0 Hst0)) as HR. rewrite Hsegs in HR.
        destruct (crunS P (norm P b0) w') as [s2 r2 o2|o2]; subst o2.
        - destruct HR as (s2' & items & -> & _ & -> & _). split; [apply lprefix_refl|auto].
        - destruct HR as (s' & b' & items & -> & Hp). auto.
      Qed.

      (* ... and when the tampered chunk is complete by the decoder's own reckoning, the run FAILS there *)
      Theorem vm_tampered_chunk_rejected : vm_stream_forge_free b0 ws ->
        forall j x rest, nth_error (vm_chunks P b0 ws) j = Some x ->
        let s := norm P (vc_body x) in
        ~ vm_intact P s (vc_padlen P x) (vc_ct P x) rest ->
        size_bytes s <= lenN rest ->
        (forall len b', decode_size P s (takeN (size_bytes s) rest) = Ok (len, b') -> len <= lenN (dropN (size_bytes s) rest)) ->
        let w' := vm_prefix_wire j ++ rest in
        let o := vm_prefix_pt j in
        lprefix o (vm_payloads ws) /\
        crunS P (norm P b0) w' = Fail o /\
        forall segs, concat segs = w' ->
          exists s' b' items, Framed.run _ _ (vbody_dec P) b0 [] segs [] = (s', b', items, Failed EAead) /\
                              lprefix (concat items) o.
      Proof.
        intros HF j x rest Hx s Hnot Hsz Hcomplete w' o. pose proof (vm_laws_lens P Sl HL) as HLn.
        destruct (vm_crun_prefix_wire j x rest Hx) as (Hrun & Hstx & Hne).
        destruct (norm_fields P (vc_body x) Hstx) as (_ & _ & _ & _ & _ & _ & _ & _ & _ & ESn).
        pose proof (vm_crun_tampered_fails P (b_cipher b0) (b_key b0) (b_iv b0) m0 (vm_honest P b0 ws)
                      (vm_honest_lockstep b0 ws m0 Hcount) ltac:(rewrite vm_honest_length; exact Hbound) (fun pl : bytes => pl) HF
                      s (vc_padlen P x) j (vc_unit P x) rest (vm_chunk_lock j x Hx) ESn (vm_chunk_unit j x Hx) Hnot Hsz Hcomplete) as HS.
        fold (crunS P s rest) in HS.
        assert (HC : crunS P (norm P b0) w' = Fail o).
        { subst w'. rewrite Hrun. fold s. rewrite HS. cbn [vprepend]. rewrite app_nil_r. reflexivity. }
        split; [apply vm_prefix_pt_prefix|]. split; [exact HC|].
        intros segs Hsegs. pose proof (vm_frun_crun P HLn b0 segs (wf_padding b0 Hst0)) as HR. rewrite Hsegs, HC in HR.
        exact HR.
      Qed.

      (* (c) the plain reading of "altered": the size field of chunk j is the honest one, the bytes at the place of its
         sealed payload differ from the honest ciphertext (and the `padlen` padding bytes, whatever they are, are there) *)
      Corollary vm_tampered_ciphertext_rejected : vm_stream_forge_free b0 ws ->
        forall j x ct' tail, nth_error (vm_chunks P b0 ws) j = Some x ->
        lenN ct' = lenN (vc_ct P x) -> ct' <> vc_ct P x -> vc_padlen P x <= lenN tail ->
        let w' := vm_prefix_wire j ++ vc_szf P x ++ ct' ++ tail in
        let o := vm_prefix_pt j in
        lprefix o (vm_payloads ws) /\
        crunS P (norm P b0) w' = Fail o /\
        forall segs, concat segs = w' ->
          exists s' b' items, Framed.run _ _ (vbody_dec P) b0 [] segs [] = (s', b', items, Failed EAead) /\
                              lprefix (concat items) o.
      Proof.
        intros HF j x ct' tail Hx Hlen Hneq Hpad.
        destruct (vm_crun_prefix_wire j x [] Hx) as (_ & Hstx & Hne).
        assert (Hinx : In x (vm_chunks P b0 ws)) by (eapply nth_error_In; exact Hx).
        destruct (vc_szf_dec x Hne (fun u Hu => vm_chunk_seals_incl x Hinx u (or_intror Hu))) as [HD HLs]. pose proof (vc_size_eq x Hne) as HSe.
        set (s := norm P (vc_body x)).
        assert (Hsb : size_bytes s = lenN (vc_szf P x)).
        { unfold s. destruct (norm_keeps P (vc_body x)) as (_ & _ & _ & _ & _ & _ & E). rewrite E. symmetry. exact HLs. }
        assert (HDs : decode_size P s (takeN (size_bytes s) (vc_szf P x ++ ct' ++ tail)) =
                      Ok (vc_size P x, set_state (snd (encode_size P (snd (next_padding P (vc_body x))) (vc_size P x)))
                                                 (BLength (fst (next_padding P (vc_body x)))))).
        { rewrite Hsb, takeN_app_exact. unfold s. rewrite (norm_of_padding P (vc_body x) Hstx).
          rewrite decode_size_set_state, HD. reflexivity. }
        assert (HDr : dropN (size_bytes s) (vc_szf P x ++ ct' ++ tail) = ct' ++ tail) by (rewrite Hsb; apply dropN_app_exact).
        apply (vm_tampered_chunk_rejected HF j x (vc_szf P x ++ ct' ++ tail) Hx).
        - fold s. intros (len & b' & _ & Hd & _ & Hct). rewrite HDs in Hd.
          assert (len = vc_size P x) by congruence. subst len. rewrite HDr in Hct.
          replace (vc_size P x - vc_padlen P x) with (lenN ct') in Hct by lia. rewrite takeN_app_exact in Hct. contradiction.
        - fold s. rewrite Hsb, lenN_app. lia.
        - fold s. intros len b' Hd. rewrite HDs in Hd. assert (len = vc_size P x) by congruence. subst len.
          rewrite HDr, lenN_app. lia.
      Qed.

      (* REFUTED for the padding (witness): the padding bytes of a chunk are random and NOT authenticated -- replacing
         them by any bytes of the same length is not detected; the run is the honest one (same released bytes, same
         decoder state).  The released bytes are unaffected, so (a) is not touched. *)
      Theorem vm_padding_tamper_accepted : forall j x padb tail, nth_error (vm_chunks P b0 ws) j = Some x ->
        lenN padb = vc_padlen P x ->
        crunS P (norm P b0) (vm_prefix_wire j ++ (vc_szf P x ++ vc_ct P x ++ padb) ++ tail) =
        crunS P (norm P b0) (vm_prefix_wire j ++ vc_wire P x ++ tail) /\
        crunS P (norm P b0) (vm_prefix_wire j ++ (vc_szf P x ++ vc_ct P x ++ padb) ++ tail) =
        vprepend (vm_prefix_pt j ++ vc_pt P x) (crunS P (norm P (vc_next P x)) tail).
      Proof.
        intros j x padb tail Hx Hpad.
        destruct (vm_crun_prefix_wire j x ((vc_szf P x ++ vc_ct P x ++ padb) ++ tail) Hx) as (R1 & Hstx & Hne).
        destruct (vm_crun_prefix_wire j x (vc_wire P x ++ tail) Hx) as (R2 & _ & _).
        rewrite R1, R2. rewrite vc_wire_eq. rewrite <- !app_assoc.
        assert (Hinx : incl (vc_seals P x) Sl) by (apply vm_chunk_seals_incl; eapply nth_error_In; exact Hx).
        rewrite (vm_crun_chunk x padb tail Hstx Hne Hinx Hpad).
        rewrite (vm_crun_chunk x (vc_padding P x) tail Hstx Hne Hinx (vc_padding_len x)).
        split; [reflexivity|]. apply vprepend_vprepend.
      Qed.

      (* non-vacuity of (a): with no tampering everything is released, under every segmentation *)
      Theorem vm_honest_run_released_all : forall segs, concat segs = vm_wire P b0 ws ->
        exists s items, Framed.run _ _ (vbody_dec P) b0 [] segs [] = (s, [], items, Waiting) /\ concat items = vm_payloads ws.
      Proof.
        intros segs Hsegs. pose proof (vm_laws_lens P Sl HL) as HLn. pose proof (vm_frun_crun P HLn b0 segs (wf_padding b0 Hst0)) as HR. rewrite Hsegs in HR.
        destruct (vm_send_spec P ws b0) as (E & Hc & Ept). rewrite E in HR.
        rewrite <- (app_nil_r (concat (map (vc_wire P) (vm_chunks P b0 ws)))) in HR.
        rewrite (vm_crun_chain _ _ _ Hc Hst0 vm_chunk_seals_incl []) in HR. unfold crunS in HR at 1. rewrite crun_nil in HR. cbn [vprepend] in HR.
        destruct HR as (s2' & items & HR & _ & Hi & _). exists s2', items. split; [exact HR|].
        rewrite Hi, app_nil_r. exact Ept.
      Qed.

      (* (c) AuthenticatedLength: a tampered size field (18 bytes that are not an honest size unit for the counter
         nonce of chunk j -- of EITHER direction, see F-12b) fails at once *)
      Theorem vm_tampered_auth_size_rejected : forall k c0 Hsize, b_size b0 = SAuth k c0 ->
        (forall n ct m, p_open P (b_cipher b0) k n [] ct = Some m -> In (n, m, ct) Hsize) ->
        forall j x rest, nth_error (vm_chunks P b0 ws) j = Some x -> 2 + TAG <= lenN rest ->
        (forall m, ~ In (vnonce (Nat.iter j counting_next c0) (b_civ b0), m, takeN (2 + TAG) rest) Hsize) ->
        let w' := vm_prefix_wire j ++ rest in
        let o := vm_prefix_pt j in
        lprefix o (vm_payloads ws) /\
        crunS P (norm P b0) w' = Fail o /\
        forall segs, concat segs = w' ->
          exists s' b' items, Framed.run _ _ (vbody_dec P) b0 [] segs [] = (s', b', items, Failed EAead) /\
                              lprefix (concat items) o.
      Proof.
        intros k c0 Hsize Hsz HFs j x rest Hx Hlen Hnot w' o. pose proof (vm_laws_lens P Sl HL) as HLn.
        destruct (vm_crun_prefix_wire j x rest Hx) as (Hrun & Hstx & Hne).
        destruct (vm_send_spec P ws b0) as (_ & Hc & _).
        destruct (vchain_nth P _ _ _ Hc j x Hx) as (_ & E1 & _ & _ & E4 & _ & E6 & _).
        destruct (norm_keeps P (vc_body x)) as (N1 & _ & _ & _ & N5 & N6 & _).
        destruct (norm_fields P (vc_body x) Hstx) as (_ & _ & _ & _ & _ & _ & _ & _ & _ & ESn).
        assert (HS : crunS P (norm P (vc_body x)) rest = Fail []).
        { unfold crunS. apply (vm_crun_auth_size_rejected P (fun pl : bytes => pl) Hsize (norm P (vc_body x)) _ k
                                  (Nat.iter j counting_next c0) rest ESn).
          - rewrite N6, E6, Hsz. reflexivity.
          - rewrite N1, E1. exact HFs.
          - exact Hlen.
          - rewrite N5, E4. exact Hnot. }
        assert (HC : crunS P (norm P b0) w' = Fail o).
        { subst w'. rewrite Hrun, HS. cbn [vprepend]. rewrite app_nil_r. reflexivity. }
        split; [apply vm_prefix_pt_prefix|]. split; [exact HC|].
        intros segs Hsegs. pose proof (vm_frun_crun P HLn b0 segs (wf_padding b0 Hst0)) as HR. rewrite Hsegs, HC in HR.
        exact HR.
      Qed.
    End Run2.

    (* 2. packet mode, on what the honest encoder wrote: the datagram d sealed by encode_packet_v from body b
          (decoder in the same state, as after the header), H = the units of the direction with d at position j.
          The honest chunk is szf ++ ct ++ padding; the same size field followed by any OTHER bytes at the place of the
          sealed datagram is refused with an error: nothing is released, the datagram is dropped entirely *)
    Theorem vm_packet_ciphertext_tampered_rejected : forall c key iv m0 H,
      vm_lockstep_nonces iv m0 H -> N.of_nat (m0 + length H) < 65536 -> vm_forge_free P c key H ->
      forall b d pad j, b_state b = BPadding -> vm_lock c key iv m0 b j -> lenN d <= 65535 - TAG - VMESS_MAX_PADDING ->
      let szf := fst (encode_size P (snd (next_padding P b)) (ec_size P b (65535 + size_bytes b) d)) in
      let ct := p_seal P (b_cipher b) (b_key b) (vnonce (b_count b) (b_iv b)) [] d in
      nth_error H j = Some (vnonce (b_count b) (b_iv b), d, ct) ->
      (forall k cnt, b_size (snd (next_padding P b)) = SAuth k cnt ->       (* AuthenticatedLength: the size seal is in Sl *)
         In (b_cipher (snd (next_padding P b)), k, vnonce cnt (b_civ (snd (next_padding P b))),
             put_u16 ((ec_size P b (65535 + size_bytes b) d - TAG) mod 65536)) Sl) ->
      (exists b', encode_packet_v P b d pad = Ok (szf ++ ct ++ takeN (ec_pad P b) (pad ++ repeat 0 (N.to_nat (ec_pad P b))), b')) /\
      forall ct' tail, lenN ct' = lenN ct -> ct' <> ct -> ec_pad P b <= lenN tail ->
        decode_packet_v P b (szf ++ ct' ++ tail) = Err EAead.
    Proof.
      intros c key iv m0 H Hn Hb HF b d pad j Hst HLk Hd szf ct Hu HinS.
      destruct (packet_esize P shake_len shake_wf b d Hd) as [He Hsz].
      split.
      { rewrite (encode_packet_v_eq P shake_len shake_wf b d pad Hd).
        destruct (encode_chunk_seals P b (65535 + size_bytes b) d pad) as (E & _ & _).
        rewrite He, takeN_lenN in E. unfold pay_seal in E. cbn [fst snd] in E.
        eexists. rewrite E. reflexivity. }
      intros ct' tail Hlen Hneq Hpad.
      set (size := ec_size P b (65535 + size_bytes b) d) in *.
      assert (Hsize : size = lenN ct + ec_pad P b).
      { unfold size, ec_size. rewrite He. unfold ct. rewrite (vo_seal_len P Sl HL). lia. }
      assert (Hsize16 : TAG <= size) by (rewrite Hsize; unfold ct; rewrite (vo_seal_len P Sl HL); lia).
      destruct (vm_dec_enc_size (snd (next_padding P b)) size Hsize16 Hsz HinS) as [HD HLs].
      rewrite size_bytes_next_padding in HLs. fold szf in HD, HLs.
      assert (HDs : decode_size P (norm P b) (takeN (size_bytes b) (szf ++ ct' ++ tail)) =
                    Ok (size, set_state (snd (encode_size P (snd (next_padding P b)) size)) (BLength (fst (next_padding P b))))).
      { rewrite <- HLs, takeN_app_exact. rewrite (norm_of_padding P b Hst). rewrite decode_size_set_state, HD. reflexivity. }
      assert (HDr : dropN (size_bytes b) (szf ++ ct' ++ tail) = ct' ++ tail) by (rewrite <- HLs; apply dropN_app_exact).
      destruct (norm_fields P b Hst) as (_ & _ & _ & _ & _ & _ & _ & _ & _ & ESn).
      destruct (norm_keeps P b) as (_ & _ & _ & _ & _ & _ & Esb).
      apply (vm_packet_tampered_rejected P c key iv m0 H Hn Hb (vm_laws_lens P Sl HL) HF b _ j _ _
               (wf_padding b Hst) (vm_lock_norm P c key iv m0 b j HLk) ESn Hu).
      - intros (len & b' & _ & Hdd & _ & Hct). rewrite Esb, HDs in Hdd.
        assert (len = size) by congruence. subst len. rewrite Esb, HDr in Hct. cbn [vu_ct snd] in Hct.
        fold (ec_pad P b) in Hct. replace (size - ec_pad P b) with (lenN ct') in Hct by lia.
        rewrite takeN_app_exact in Hct. contradiction.
      - rewrite <- HLs, lenN_app. lia.
      - intros len b' Hdd. rewrite HDs in Hdd. assert (len = size) by congruence. subst len.
        rewrite HDr, lenN_app. lia.
    Qed.
  End Laws.
End VmessStreamTamper.

(* ================================================================================================ *)
(* PART 4: reflection and splicing from the opposite direction                                      *)
(* ================================================================================================ *)
Section VmessReflection.
  Variable P : prims.
  Notation Cn := (Canon.canon body (list N) (@app N) [] need (step P N (fun pl => pl))).

  (* a decoder under whose body key nothing opens (nothing was sealed under it: another session, the other
     direction, no credential) never releases a byte *)
  Lemma vm_canon_no_open c key : (forall n ct m, p_open P c key n [] ct = Some m -> False) ->
    forall fuel s buf, b_cipher s = c -> b_key s = key ->
    match Cn fuel s buf with Stop _ _ o => o = [] | Fail o => o = [] end.
  Proof.
    intros Hno. induction fuel as [|f IH]; intros s buf Hc Hk; cbn [canon]; [reflexivity|].
    destruct (need s buf) as [n|]; [|reflexivity].
    destruct (n <=? length buf)%nat; [|reflexivity].
    destruct (b_state s) as [|p|p len] eqn:ES.
    - rewrite (vstep_pad P _ _ _ ES). reflexivity.
    - rewrite (vstep_len P _ _ _ _ ES).
      destruct (decode_size P s (firstn n buf)) as [[len b']|e|] eqn:ED; [|reflexivity|reflexivity].
      destruct (len =? 0); [reflexivity|].
      destruct (decode_size_keeps P _ _ _ _ ED) as (K1 & K2 & _).
      specialize (IH (set_state b' (BBody p len)) (skipn n buf)). cbn [set_state b_cipher b_key] in IH.
      specialize (IH ltac:(congruence) ltac:(congruence)).
      destruct (Cn f (set_state b' (BBody p len)) (skipn n buf)); cbn [app]; exact IH.
    - rewrite (vstep_body P _ _ _ _ _ ES). destruct (len <? p + TAG); [reflexivity|].
      unfold body_open. rewrite Hc, Hk.
      destruct (p_open P c key (vnonce (b_count s) (b_iv s)) [] (takeN (len - p) (firstn n buf))) as [pl|] eqn:EO; [|reflexivity].
      exfalso. exact (Hno _ _ _ EO).
  Qed.

  Theorem vm_reflection_rejected : vm_lens P -> forall s0 segs, wf s0 ->
    (forall n ct m, p_open P (b_cipher s0) (b_key s0) n [] ct = Some m -> False) ->
    let '(_, _, items, st) := Framed.run _ _ (vbody_dec P) s0 [] segs [] in
    concat items = [] /\ (st = Waiting \/ st = Failed EAead).
  Proof.
    intros HLn s0 segs Hwf Hno.
    pose proof (vm_frun_crun P HLn s0 segs Hwf) as HR.
    destruct (norm_keeps P s0) as (E1 & E2 & _).
    pose proof (vm_canon_no_open _ _ Hno (S (length (concat segs))) (norm P s0) (concat segs) E1 E2) as HC.
    unfold crunS, crun, gcrun, Canon.run in HR.
    destruct (Cn (S (length (concat segs))) (norm P s0) (concat segs)) as [s2 r2 o2|o2]; subst o2.
    - destruct HR as (s2' & items & -> & _ & -> & _). auto.
    - destruct HR as (s' & b' & items & -> & Hp). apply lprefix_nil_inv in Hp. auto.
  Qed.

  (* ---- both directions of one session under an ideal AEAD: the table T of everything the two honest ends sealed
          under the two body keys, tagged with the key ---- *)
  Definition vm_ideal (c : N) (keys : list bytes) (T : list (bytes * vunit)) : Prop :=
    forall k n ct m, In k keys -> p_open P c k n [] ct = Some m -> In (k, (n, m, ct)) T.

  (* key separation: when the two body keys differ (response key = SHA-256(request key)[..16], for ChaCha20 both
     passed through MD5 twice), what opens under one direction's key was sealed by that direction's sender *)
  Lemma vm_direction_separation c k1 k2 H1 H2 : k1 <> k2 ->
    vm_ideal c [k1; k2] (map (pair k1) H1 ++ map (pair k2) H2) ->
    vm_forge_free P c k1 H1 /\ vm_forge_free P c k2 H2.
  Proof.
    intros Hne HI. split; intros n ct m Ho.
    - apply (HI k1) in Ho; [|left; reflexivity]. apply in_app_or in Ho. destruct Ho as [Ho|Ho]; apply in_map_iff in Ho;
        destruct Ho as (u & Hu & Hin).
      + injection Hu as <-. exact Hin.
      + injection Hu as E _. exfalso. apply Hne. symmetry. exact E.
    - apply (HI k2) in Ho; [|right; left; reflexivity]. apply in_app_or in Ho. destruct Ho as [Ho|Ho]; apply in_map_iff in Ho;
        destruct Ho as (u & Hu & Hin).
      + injection Hu as E _. exfalso. apply Hne. exact E.
      + injection Hu as <-. exact Hin.
  Qed.

  (* a unit sealed under the OTHER direction's key opens under this direction's key only if it is byte-identical to
     a ciphertext this direction's sender produced itself *)
  Theorem vm_opposite_unit_rejected c kreq kresp Hreq Hresp : kreq <> kresp ->
    vm_ideal c [kreq; kresp] (map (pair kreq) Hreq ++ map (pair kresp) Hresp) ->
    forall n n' m', let ct := p_seal P c kresp n' [] m' in
    (forall u, In u Hreq -> vu_ct u <> ct) ->
    p_open P c kreq n [] ct = None.
  Proof.
    intros Hne HI n n' m' ct Hnot. destruct (vm_direction_separation c kreq kresp Hreq Hresp Hne HI) as [HF _].
    destruct (p_open P c kreq n [] ct) as [m|] eqn:E; [|reflexivity].
    apply HF in E. exfalso. exact (Hnot _ E eq_refl).
  Qed.

  (* (d) the request decoder (server) and the response decoder (client) of one session, each fed with ANY bytes --
     the stream of the opposite direction reflected back, chunks spliced from it, in any order and segmentation --
     release a prefix of what the legitimate sender of THEIR direction wrote *)
  Theorem vm_cross_direction_released_is_prefix : vm_lens P -> forall opt sec s wsq wsp,
    let breq := body_new P opt sec (vs_key s) (vs_iv s) (vs_key s) (vs_iv s) in
    let bresp := body_new P opt sec (resp_key P s) (resp_iv P s) (vs_key s) (vs_iv s) in
    sec_key P sec (vs_key s) <> sec_key P sec (resp_key P s) ->
    N.of_nat (length (vm_chunks P breq wsq)) < 65536 -> N.of_nat (length (vm_chunks P bresp wsp)) < 65536 ->
    vm_ideal (sec_cipher sec) [sec_key P sec (vs_key s); sec_key P sec (resp_key P s)]
             (map (pair (sec_key P sec (vs_key s))) (vm_honest P breq wsq) ++
              map (pair (sec_key P sec (resp_key P s))) (vm_honest P bresp wsp)) ->
    forall segs,
      (let '(_, _, items, st) := Framed.run _ _ (vbody_dec P) breq [] segs [] in
       lprefix (concat items) (vm_payloads wsq) /\ (st = Waiting \/ st = Failed EAead)) /\
      (let '(_, _, items, st) := Framed.run _ _ (vbody_dec P) bresp [] segs [] in
       lprefix (concat items) (vm_payloads wsp) /\ (st = Waiting \/ st = Failed EAead)).
  Proof.
    intros HLn opt sec s wsq wsp breq bresp Hsep Hbq Hbp HI segs.
    destruct (vm_direction_separation _ _ _ _ _ Hsep HI) as [HFq HFp].
    split.
    - apply (vm_released_is_prefix P breq wsq 0 eq_refl Hbq HLn HFq breq (wf_body_new P _ _ _ _ _ _) (vm_same_dir_refl breq)
               (concat segs) segs eq_refl).
    - apply (vm_released_is_prefix P bresp wsp 0 eq_refl Hbp HLn HFp bresp (wf_body_new P _ _ _ _ _ _) (vm_same_dir_refl bresp)
               (concat segs) segs eq_refl).
  Qed.

  (* KNOWN FINDING F-12b seen from C05 (witness, not hidden): with AuthenticatedLength the SIZE FIELD of a chunk of the
     opposite direction IS accepted when reflected -- the server's request decoder opens the first size field its own
     response encoder writes (same key kdf16(request key,"auth_len"), same counter nonce over the request iv).
     Only the 2-byte length is accepted: the sealed payload that follows is under the other body key and is refused
     (vm_opposite_unit_rejected / vm_cross_direction_released_is_prefix), so nothing is released. *)
  Theorem vm_auth_len_size_reflected_accepted : prim_laws P -> forall opt sec s size, has_opt opt 16 = true ->
    TAG <= size -> size < 65536 ->
    let bd := norm P (body_new P opt sec (vs_key s) (vs_iv s) (vs_key s) (vs_iv s)) in                        (* server: request decoder *)
    let be := snd (next_padding P (body_new P opt sec (resp_key P s) (resp_iv P s) (vs_key s) (vs_iv s))) in   (* server: response encoder *)
    exists b', decode_size P bd (fst (encode_size P be size)) = Ok (size, b').
  Proof.
    intros HL opt sec s size Ho H16 Hs bd be.
    assert (Hd : b_size bd = SAuth (sec_key P sec (kdf16 P (vs_key s) [str_auth_len])) 0 /\ b_cipher bd = sec_cipher sec /\ b_civ bd = vs_iv s).
    { subst bd. destruct (norm_keeps P (body_new P opt sec (vs_key s) (vs_iv s) (vs_key s) (vs_iv s))) as (E1 & _ & _ & _ & E5 & E6 & _).
      rewrite E1, E5, E6. unfold body_new. cbn [b_size b_cipher b_civ]. rewrite Ho. auto. }
    assert (He : b_size be = SAuth (sec_key P sec (kdf16 P (vs_key s) [str_auth_len])) 0 /\ b_cipher be = sec_cipher sec /\ b_civ be = vs_iv s).
    { subst be. unfold next_padding, shake_next, body_new. cbn [b_pad]. destruct (has_opt opt 8); cbn [fst snd b_size b_cipher b_civ]; rewrite Ho; auto. }
    destruct Hd as (D1 & D2 & D3). destruct He as (E1 & E2 & E3).
    unfold decode_size, encode_size. rewrite D1, E1. cbn [fst]. rewrite D2, D3, E2, E3. rewrite (open_seal P HL).
    unfold TAG in *. rewrite N.mod_small by lia. rewrite <- (app_nil_r (put_u16 (size - 16))). rewrite get_u16_put by lia. cbn [bind].
    eexists. f_equal. f_equal. lia.
  Qed.
End VmessReflection.

(* ================================================================================================ *)
(* PART 5: the sealed request header                                                                *)
(* ================================================================================================ *)
Lemma takeN_add a b (l : bytes) : takeN (a + b) l = takeN a l ++ takeN b (dropN a l).
Proof.
  unfold takeN, dropN. rewrite N2Nat.inj_add. generalize (N.to_nat a) as n, (N.to_nat b) as m. clear a b.
  intros n; revert l. induction n as [|n IH]; intros l m; [reflexivity|].
  destruct l as [|x t]; [cbn [Nat.add firstn skipn app]; rewrite firstn_nil; reflexivity|].
  cbn [Nat.add firstn skipn app]. rewrite IH. reflexivity.
Qed.
Lemma dropN_add a b (l : bytes) : dropN (a + b) l = dropN b (dropN a l).
Proof.
  unfold dropN. rewrite N2Nat.inj_add. generalize (N.to_nat a) as n, (N.to_nat b) as m. clear a b.
  intros n; revert l. induction n as [|n IH]; intros l m; [reflexivity|].
  destruct l as [|x t]; [cbn [Nat.add skipn]; rewrite skipn_nil; reflexivity|].
  cbn [Nat.add skipn]. apply IH.
Qed.

(* a header seal: (key, nonce, associated data, plaintext, ciphertext) *)
Notation hunit := (bytes * bytes * bytes * bytes * bytes)%type (only parsing).

Section VmessHeaderTamper.
  Variable P : prims.

  (* ideal AEAD for the header layer: under a (key, nonce) DERIVED FROM A REGISTERED USER ID (by the KDF, whatever
     the path: the path contains the auth id and the connection nonce, which the attacker chooses) a ciphertext opens
     only if it was sealed under that key, nonce and associated data *)
  Definition vm_hdr_forge_free (keys : list bytes) (T : list hunit) : Prop :=
    forall uid p1 p2 a ct m, In uid keys ->
      p_open P 0 (kdf16 P uid p1) (kdf12 P uid p2) a ct = Some m -> In (kdf16 P uid p1, kdf12 P uid p2, a, m, ct) T.

  (* the two units of a request as the server derives them from the unauthenticated bytes of src
     (auth id = bytes 0..16, also the associated data; connection nonce = bytes 34..42) *)
  Definition hd_len_unit (uid src lb : bytes) : hunit :=
    (kdf16 P uid [str_len_key; takeN 16 src; takeN 8 (dropN 34 src)], kdf12 P uid [str_len_iv; takeN 16 src; takeN 8 (dropN 34 src)],
     takeN 16 src, lb, takeN 18 (dropN 16 src)).
  Definition hd_pay_unit (uid src lb hb : bytes) : hunit :=
    (kdf16 P uid [str_pay_key; takeN 16 src; takeN 8 (dropN 34 src)], kdf12 P uid [str_pay_iv; takeN 16 src; takeN 8 (dropN 34 src)],
     takeN 16 src, hb, takeN (be lb + 16) (dropN 42 src)).

  (* from SInit the server either waits (state and buffer untouched, no item), fails, or becomes SReady *)
  Lemma server_init_outcomes now keys src st' r it : server_vdecode P now keys SInit src = Ok (st', r, it) ->
    (st' = SInit /\ r = src /\ it = None) \/ exists h s b, st' = SReady h s b.
  Proof.
    unfold server_vdecode. destruct (lenN src <? 16); [intros H; left; repeat split; congruence|].
    destruct (auth_id_matching P now (takeN 16 src) keys) as [key|]; [|discriminate].
    destruct (open_header P key src) as [[[hb rest]|]|e|]; cbn [bind]; try discriminate.
    2:{ intros H; left; repeat split; congruence. }
    destruct (parse_header hb) as [[h s]|e|]; cbn [bind]; try discriminate.
    intros H. right. destruct (rh_cmd h).
    - destruct (decode_payload_v P _ rest) as [[[b' r'] it']|e|]; cbn [bind] in H; try discriminate.
      exists h, s, b'. congruence.
    - destruct (decode_packet_v P _ rest) as [[[b' r'] it']|e|]; cbn [bind] in H; try discriminate.
      exists h, s, b'. congruence.
  Qed.

  (* 3. whatever request the server accepts (SInit -> SReady: target known, body codec created), both sealed parts of
        its header are honest units under keys derived from a REGISTERED user id with the auth id and connection nonce
        that src carries, with the auth id as associated data *)
  Theorem vm_header_accept_is_honest : forall keys T, vm_hdr_forge_free keys T -> forall now src h s b r it,
    server_vdecode P now keys SInit src = Ok (SReady h s b, r, it) ->
    exists uid lb hb, In uid keys /\ auth_id_match1 P now (takeN 16 src) uid = true /\
      In (hd_len_unit uid src lb) T /\ In (hd_pay_unit uid src lb hb) T /\ parse_header hb = Ok (h, s).
  Proof.
    intros keys T HF now src h s b r it H.
    destruct (vmess_ready_requires_user P now keys src h s b r it H) as (uid & hb & rest & Hin & Hm & Ho & Hp).
    destruct (open_header_opened P uid src hb rest Ho) as (lb & O1 & O2 & _ & _).
    exists uid, lb, hb. split; [exact Hin|]. split; [exact Hm|].
    split; [exact (HF _ _ _ _ _ _ Hin O1)|]. split; [exact (HF _ _ _ _ _ _ Hin O2)|exact Hp].
  Qed.

  (* general form of "any modification is refused": if for no registered user both sealed parts of src are honest
     units (under the keys src's own auth id and connection nonce name), the server never leaves SInit: no target is
     dialled, nothing is released, no body codec exists *)
  Theorem vm_header_tampered_refused : forall keys T, vm_hdr_forge_free keys T -> forall now src,
    (forall uid lb, In uid keys -> In (hd_len_unit uid src lb) T -> forall hb, ~ In (hd_pay_unit uid src lb hb) T) ->
    forall h s b r it, server_vdecode P now keys SInit src <> Ok (SReady h s b, r, it).
  Proof.
    intros keys T HF now src Hnot h s b r it H.
    destruct (vm_header_accept_is_honest keys T HF now src h s b r it H) as (uid & lb & hb & Hin & _ & H1 & H2 & _).
    exact (Hnot uid lb Hin H1 hb H2).
  Qed.

  Corollary vm_header_tampered_no_target : vm_lens P -> forall keys T, vm_hdr_forge_free keys T -> forall now src,
    (forall uid lb, In uid keys -> In (hd_len_unit uid src lb) T -> forall hb, ~ In (hd_pay_unit uid src lb hb) T) ->
    (exists e, server_vdecode P now keys SInit src = Err e) \/ server_vdecode P now keys SInit src = Ok (SInit, src, None).
  Proof.
    intros HLn keys T HF now src Hnot.
    pose proof (vm_header_tampered_refused keys T HF now src Hnot) as HR.
    pose proof (server_vdecode_no_panic P HLn now keys SInit src) as HNP.
    destruct (server_vdecode P now keys SInit src) as [[[st' r] it]|e|] eqn:E; [|left; eauto|contradiction].
    destruct (server_init_outcomes now keys src st' r it E) as [(-> & -> & ->)|(h & s & b & ->)]; [right; reflexivity|].
    exfalso. exact (HR h s b r it eq_refl).
  Qed.

  (* C06: a peer that holds no registered user id (nothing it can produce opens under a key derived from one) is
     never served: the server does not leave SInit *)
  Corollary vm_no_user_key_no_target : forall keys,
    (forall uid p1 p2 a ct m, In uid keys -> p_open P 0 (kdf16 P uid p1) (kdf12 P uid p2) a ct = Some m -> False) ->
    forall now src h s b r it, server_vdecode P now keys SInit src <> Ok (SReady h s b, r, it).
  Proof.
    intros keys Hno now src. apply (vm_header_tampered_refused keys []).
    - intros uid p1 p2 a ct m Hin Ho. exfalso. exact (Hno _ _ _ _ _ _ Hin Ho).
    - intros uid lb _ [].
  Qed.

  (* ---- the plain reading, for one honest request: T = the two units of seal_header uid authid cnonce hb ---- *)
  Definition vm_header_units (uid authid cnonce hb : bytes) : list hunit :=
    let lk := kdf16 P uid [str_len_key; authid; cnonce] in let li := kdf12 P uid [str_len_iv; authid; cnonce] in
    let hk := kdf16 P uid [str_pay_key; authid; cnonce] in let hi := kdf12 P uid [str_pay_iv; authid; cnonce] in
    [ (lk, li, authid, put_u16 (lenN hb mod 65536), p_seal P 0 lk li authid (put_u16 (lenN hb mod 65536)));
      (hk, hi, authid, hb, p_seal P 0 hk hi authid hb) ].

  Lemma seal_header_parts uid authid cnonce hb :
    seal_header P uid authid cnonce hb =
    authid ++ snd (nth 0 (vm_header_units uid authid cnonce hb) ([], [], [], [], [])) ++ cnonce ++
    snd (nth 1 (vm_header_units uid authid cnonce hb) ([], [], [], [], [])).
  Proof. reflexivity. Qed.

  (* any request whose auth id differs from the honest one, or that keeps auth id and connection nonce but differs
     anywhere else in the sealed header (length part or payload part; same length or not, as long as the bytes are
     there), is refused: error or wait, never a target *)
  Theorem vm_header_tampered_refused_neq : vm_laws_on P [] -> forall keys uid authid cnonce hb,
    vm_hdr_forge_free keys (vm_header_units uid authid cnonce hb) ->
    lenN authid = 16 -> lenN cnonce = 8 -> 2 < lenN hb -> lenN hb < 65536 ->
    forall now src,
    (takeN 16 src <> authid \/
     (takeN 8 (dropN 34 src) = cnonce /\ lenN (seal_header P uid authid cnonce hb) <= lenN src /\
      takeN (lenN (seal_header P uid authid cnonce hb)) src <> seal_header P uid authid cnonce hb)) ->
    (exists e, server_vdecode P now keys SInit src = Err e) \/ server_vdecode P now keys SInit src = Ok (SInit, src, None).
  Proof.
    intros HL keys uid authid cnonce hb HF Ha Hc Hb2 Hb now src Htam.
    apply (vm_header_tampered_no_target (vm_laws_lens P [] HL) keys _ HF).
    intros uid' lb Hin H1 hb' H2.
    set (lk := kdf16 P uid [str_len_key; authid; cnonce]) in *. set (li := kdf12 P uid [str_len_iv; authid; cnonce]) in *.
    set (hk := kdf16 P uid [str_pay_key; authid; cnonce]) in *. set (hi := kdf12 P uid [str_pay_iv; authid; cnonce]) in *.
    set (L := p_seal P 0 lk li authid (put_u16 (lenN hb mod 65536))). set (Hc' := p_seal P 0 hk hi authid hb).
    assert (HLl : lenN L = 18) by (unfold L; rewrite (vo_seal_len P [] HL), lenN_put_u16; reflexivity).
    assert (HHl : lenN Hc' = lenN hb + 16) by (unfold Hc'; rewrite (vo_seal_len P [] HL); reflexivity).
    assert (Haad : takeN 16 src = authid).
    { unfold vm_header_units, hd_len_unit in H1. cbn [In] in H1. destruct H1 as [H1|[H1|[]]]; congruence. }
    destruct Htam as [Hne|(Hcn & Hlen & Hne)]; [contradiction|].
    assert (Hsl : lenN (seal_header P uid authid cnonce hb) = 16 + 18 + 8 + (lenN hb + 16)).
    { unfold seal_header. fold lk li hk hi L Hc'. rewrite !lenN_app, Ha, Hc, HLl, HHl. lia. }
    rewrite Hsl in Hlen, Hne.
    (* the length part *)
    assert (H18 : lenN (takeN 18 (dropN 16 src)) = 18) by (apply lenN_takeN; rewrite lenN_dropN; lia).
    assert (HL1 : takeN 18 (dropN 16 src) = L /\ lb = put_u16 (lenN hb mod 65536)).
    { unfold vm_header_units, hd_len_unit in H1. cbn [In] in H1. fold lk li hk hi L Hc' in H1.
      destruct H1 as [H1|[H1|[]]].
      - split; congruence.
      - exfalso. assert (E : takeN 18 (dropN 16 src) = Hc') by congruence. rewrite E in H18. lia. }
    destruct HL1 as [HL1 ->].
    assert (Hbe : be (put_u16 (lenN hb mod 65536)) = lenN hb).
    { unfold put_u16. rewrite be_put_be by (change (256 ^ 2) with 65536; apply N.mod_lt; lia). apply N.mod_small. exact Hb. }
    (* the payload part *)
    assert (HPl : lenN (takeN (lenN hb + 16) (dropN 42 src)) = lenN hb + 16) by (apply lenN_takeN; rewrite lenN_dropN; lia).
    assert (HP1 : takeN (lenN hb + 16) (dropN 42 src) = Hc').
    { unfold vm_header_units, hd_pay_unit in H2. rewrite Hbe in H2. cbn [In] in H2. fold lk li hk hi L Hc' in H2.
      destruct H2 as [H2|[H2|[]]].
      - exfalso. assert (E : takeN (lenN hb + 16) (dropN 42 src) = L) by congruence. rewrite E in HPl. lia.
      - congruence. }
    apply Hne. unfold seal_header. fold lk li hk hi L Hc'.
    replace (16 + 18 + 8 + (lenN hb + 16)) with (16 + (18 + (8 + (lenN hb + 16)))) by lia.
    rewrite takeN_add, Haad. f_equal.
    rewrite takeN_add, HL1. f_equal.
    rewrite <- dropN_add. change (16 + 18) with 34.
    rewrite takeN_add, Hcn. f_equal.
    rewrite <- dropN_add. change (34 + 8) with 42. exact HP1.
  Qed.
End VmessHeaderTamper.

Print Assumptions vm_released_is_prefix.
Print Assumptions vm_crun_prefix.
Print Assumptions vm_nothing_after_failure.
Print Assumptions vm_tampered_chunk_not_released.
Print Assumptions vm_tampered_chunk_rejected.
Print Assumptions vm_tampered_ciphertext_rejected.
Print Assumptions vm_tampered_auth_size_rejected.
Print Assumptions vm_padding_tamper_accepted.
Print Assumptions vm_honest_run_released_all.
Print Assumptions vm_replay_after_wrap_opens.
Print Assumptions vm_packet_accept_is_honest.
Print Assumptions vm_packet_tampered_dropped.
Print Assumptions vm_packet_tampered_rejected.
Print Assumptions vm_packet_ciphertext_tampered_rejected.
Print Assumptions vm_reflection_rejected.
Print Assumptions vm_direction_separation.
Print Assumptions vm_opposite_unit_rejected.
Print Assumptions vm_cross_direction_released_is_prefix.
Print Assumptions vm_auth_len_size_reflected_accepted.
Print Assumptions vm_header_accept_is_honest.
Print Assumptions vm_header_tampered_refused.
Print Assumptions vm_header_tampered_no_target.
Print Assumptions vm_no_user_key_no_target.
Print Assumptions vm_header_tampered_refused_neq.

(* ================================================================================================ *)
(* PART 6: non-vacuity -- a toy AEAD whose tag covers key, nonce, associated data AND message, an     *)
(* "ideal" opener for concrete runs (the hypotheses are jointly satisfiable, the theorems are applied *)
(* to it), and computed attacks                                                                       *)
(* ================================================================================================ *)
Module VmessTamperExamples.
  Import ToyVmess.

  Definition xtag (k n a m : bytes) : bytes := toy_hash16 (n ++ 300 :: k ++ 300 :: a ++ 300 :: m).
  Definition xseal (c : N) (k n a m : bytes) : bytes := m ++ xtag k n a m.
  Definition xopen (c : N) (k n a ct : bytes) : option bytes :=
    if (16 <=? lenN ct) && bytes_eqb (dropN (lenN ct - 16) ct) (xtag k n a (takeN (lenN ct - 16) ct))
    then Some (takeN (lenN ct - 16) ct) else None.
  (* everything but the AEAD is ToyVmess.toyV *)
  Definition mkP (op : N -> bytes -> bytes -> bytes -> bytes -> option bytes) : prims :=
    {| p_seal := xseal; p_open := op;
       p_hkdf_sha1 := p_hkdf_sha1 toyV; p_b3derive := p_b3derive toyV; p_b3hash := p_b3hash toyV;
       p_aes_enc := toy_xor; p_aes_dec := toy_xor; p_md5 := toy_hash16; p_sha224 := toy_hash32; p_sha256 := toy_hash32;
       p_shake128 := toy_shake; p_crc32 := p_crc32 toyV |}.
  Definition Ptoy : prims := mkP xopen.

  Lemma xtag_len k n a m : lenN (xtag k n a m) = 16.
  Proof. unfold xtag, toy_hash16. cbn zeta. rewrite lenN_app, lenN_put_be. reflexivity. Qed.
  Lemma xseal_len c k n a m : lenN (xseal c k n a m) = lenN m + TAG.
  Proof. unfold xseal. rewrite lenN_app, xtag_len. reflexivity. Qed.

  Lemma Ptoy_laws : prim_laws Ptoy.
  Proof.
    constructor; cbn [Ptoy mkP p_seal p_open p_aes_enc p_aes_dec].
    - intros c k n a m. unfold xopen, xseal.
      rewrite lenN_app, xtag_len. replace (lenN m + 16 - 16) with (lenN m) by lia.
      destruct (N.leb_spec 16 (lenN m + 16)); [|lia].
      rewrite dropN_app_exact, takeN_app_exact, bytes_eqb_refl. reflexivity.
    - intros c k n a m. apply xseal_len.
    - intros c k n a ct m. unfold xopen.
      destruct (N.leb_spec 16 (lenN ct)) as [Hle|]; [|discriminate].
      destruct (bytes_eqb _ _); [|discriminate]. cbn [andb]. intros [= <-].
      rewrite lenN_takeN by lia. unfold TAG. lia.
    - intros k b. apply toy_xor_invol.
    - intros k b. apply toy_xor_invol.
  Qed.

  (* ---- the concrete session: all options (ChunkStream | ChunkMasking | GlobalPadding | AuthenticatedLength),
          aes-128-gcm; the client writes "hello" then "world", the server answers "world" then "hello" ---- *)
  Definition opt0 : N := 29.
  Definition sec0 : N := 3.
  Definition hello : bytes := [104;101;108;108;111].
  Definition world : bytes := [119;111;114;108;100].
  Definition padsrc : bytes := [1;2;3;4;5;6;7;8;9;10;11;12;13;14;15;16;17;18;19;20;21;22;23;24;25;26;27;28;29;30;31;32;
                                33;34;35;36;37;38;39;40;41;42;43;44;45;46;47;48;49;50;51;52;53;54;55;56;57;58;59;60;61;62;63;64].
  Definition wsq : list (bytes * bytes) := [(hello, padsrc); (world, padsrc)].
  Definition wsp : list (bytes * bytes) := [(world, padsrc); (hello, padsrc)].
  Definition breq (P : prims) : body := body_new P opt0 sec0 req_key req_iv req_key req_iv.
  Definition bresp (P : prims) : body := body_new P opt0 sec0 (resp_key P sess) (resp_iv P sess) req_key req_iv.

  (* a table entry: (key, nonce, associated data, plaintext, ciphertext) *)
  Definition of_seal (u : N * bytes * bytes * bytes) : hunit :=
    let '(c, k, n, m) := u in (k, n, [], m, xseal c k n [] m).
  (* everything the two ends seal in the body phase: payload units and size units of both directions *)
  Definition body_table : list hunit := map of_seal (vm_seals Ptoy (breq Ptoy) wsq ++ vm_seals Ptoy (bresp Ptoy) wsp).

  Definition hunit_match (k n a ct : bytes) (u : hunit) : bool :=
    let '(k', n', a', _, ct') := u in bytes_eqb k k' && bytes_eqb n n' && bytes_eqb a a' && bytes_eqb ct ct'.
  (* an opener that opens exactly the entries of a table (what the forge-freeness hypotheses idealise) *)
  Definition table_open (T : list hunit) (c : N) (k n a ct : bytes) : option bytes :=
    match find (hunit_match k n a ct) T with
    | Some u => Some (snd (fst u))
    | None => None
    end.
  Definition Pideal : prims := mkP (table_open body_table).

  Lemma bytes_eqb_true a b : bytes_eqb a b = true -> a = b.
  Proof. unfold bytes_eqb. destruct (list_eq_dec N.eq_dec a b) as [E|E]; [auto|discriminate]. Qed.

  Lemma table_open_sound T c k n a ct m : table_open T c k n a ct = Some m -> In (k, n, a, m, ct) T.
  Proof.
    unfold table_open. destruct (find (hunit_match k n a ct) T) as [u|] eqn:Ef; [|discriminate].
    apply find_some in Ef. destruct Ef as [Hin Hm]. destruct u as [[[[k' n'] a'] m'] ct']. cbn [fst snd].
    unfold hunit_match in Hm. apply andb_prop in Hm. destruct Hm as [Hm H4]. apply andb_prop in Hm. destruct Hm as [Hm H3].
    apply andb_prop in Hm. destruct Hm as [H1 H2].
    apply bytes_eqb_true in H1. apply bytes_eqb_true in H2. apply bytes_eqb_true in H3. apply bytes_eqb_true in H4.
    intros [= <-]. subst. exact Hin.
  Qed.

  (* boolean membership, to decide facts about the concrete tables by computation *)
  Definition vunit_eqb (u v : bytes * bytes * bytes) : bool :=
    bytes_eqb (fst (fst u)) (fst (fst v)) && bytes_eqb (snd (fst u)) (snd (fst v)) && bytes_eqb (snd u) (snd v).
  Lemma vunit_eqb_true u v : vunit_eqb u v = true -> u = v.
  Proof.
    destruct u as [[a b] c], v as [[a' b'] c']. unfold vunit_eqb. cbn [fst snd]. intros H.
    apply andb_prop in H. destruct H as [H H3]. apply andb_prop in H. destruct H as [H1 H2].
    apply bytes_eqb_true in H1. apply bytes_eqb_true in H2. apply bytes_eqb_true in H3. subst. reflexivity.
  Qed.
  Lemma existsb_In (u : bytes * bytes * bytes) l : existsb (vunit_eqb u) l = true -> In u l.
  Proof. intros H. apply existsb_exists in H. destruct H as (v & Hin & He). apply vunit_eqb_true in He. subst. exact Hin. Qed.

  (* in the table, the entries under key k with empty associated data are units of H *)
  Definition table_key_in (T : list hunit) (k : bytes) (H : list (bytes * bytes * bytes)) : bool :=
    forallb (fun u : hunit => let '(k', n, a, m, ct) := u in
               implb (bytes_eqb k' k && bytes_eqb a []) (existsb (vunit_eqb (n, m, ct)) H)) T.
  Lemma table_key_in_spec T k H : table_key_in T k H = true -> forall n m ct, In (k, n, [], m, ct) T -> In (n, m, ct) H.
  Proof.
    unfold table_key_in. rewrite forallb_forall. intros HT n m ct Hin. specialize (HT _ Hin). cbn beta iota in HT.
    rewrite !bytes_eqb_refl in HT. cbn [andb implb] in HT. apply existsb_In. exact HT.
  Qed.

  Definition Kreq : bytes := sec_key Ptoy sec0 req_key.
  Definition Kresp : bytes := sec_key Ptoy sec0 (resp_key Ptoy sess).

  (* the honest units do not depend on the opener *)
  Lemma honest_req_ideal : vm_honest Pideal (breq Pideal) wsq = vm_honest Ptoy (breq Ptoy) wsq.
  Proof. vm_compute. reflexivity. Qed.
  Lemma honest_resp_ideal : vm_honest Pideal (bresp Pideal) wsp = vm_honest Ptoy (bresp Ptoy) wsp.
  Proof. vm_compute. reflexivity. Qed.

  Example ideal_forge_free_req : vm_stream_forge_free Pideal (breq Pideal) wsq.
  Proof.
    unfold vm_stream_forge_free, vm_forge_free. intros n ct m Ho. rewrite honest_req_ideal.
    change (table_open body_table (b_cipher (breq Pideal)) Kreq n [] ct = Some m) in Ho.
    apply table_open_sound in Ho. revert n m ct Ho. apply table_key_in_spec. vm_compute. reflexivity.
  Qed.
  Example ideal_forge_free_resp : vm_stream_forge_free Pideal (bresp Pideal) wsp.
  Proof.
    unfold vm_stream_forge_free, vm_forge_free. intros n ct m Ho. rewrite honest_resp_ideal.
    change (table_open body_table (b_cipher (bresp Pideal)) Kresp n [] ct = Some m) in Ho.
    apply table_open_sound in Ho. revert n m ct Ho. apply table_key_in_spec. vm_compute. reflexivity.
  Qed.

  (* length law of an opener over a table whose entries have |ct| = |m| + 16 *)
  Definition table_lens (T : list hunit) : bool :=
    forallb (fun u : hunit => let '(_, _, _, m, ct) := u in lenN ct =? lenN m + TAG) T.
  Lemma table_open_len T : table_lens T = true -> forall c k n a ct m, table_open T c k n a ct = Some m -> lenN ct = lenN m + TAG.
  Proof.
    unfold table_lens. rewrite forallb_forall. intros HT c k n a ct m Ho. apply table_open_sound in Ho.
    specialize (HT _ Ho). cbn beta iota in HT. apply N.eqb_eq. exact HT.
  Qed.
  Lemma body_table_lens : table_lens body_table = true.
  Proof. vm_compute. reflexivity. Qed.
  Example ideal_lens : vm_lens Pideal.
  Proof. constructor. exact (table_open_len body_table body_table_lens). Qed.

  (* the ideal opener is correct on everything the two senders sealed (and only opens that) *)
  Ltac solve_open_seal Hin :=
    vm_compute in Hin;
    repeat (destruct Hin as [Hin|Hin]; [injection Hin as <- <- <- <-; vm_compute; reflexivity|]);
    contradiction.
  Example ideal_laws_req : vm_laws_on Pideal (vm_seals Pideal (breq Pideal) wsq).
  Proof.
    constructor.
    - intros c k n a m. apply xseal_len.
    - exact (table_open_len body_table body_table_lens).
    - intros c k n m Hin. solve_open_seal Hin.
  Qed.
  Example ideal_laws_resp : vm_laws_on Pideal (vm_seals Pideal (bresp Pideal) wsp).
  Proof.
    constructor.
    - intros c k n a m. apply xseal_len.
    - exact (table_open_len body_table body_table_lens).
    - intros c k n m Hin. solve_open_seal Hin.
  Qed.

  Lemma ideal_shake_len : forall seed n, lenN (p_shake128 Pideal seed n) = n.
  Proof. exact toy_shake_len. Qed.
  Lemma ideal_shake_wf : forall seed n, wf_bytes (p_shake128 Pideal seed n).
  Proof. exact toy_shake_wf. Qed.
  Lemma bound_req : N.of_nat (0 + length (vm_chunks Pideal (breq Pideal) wsq)) < 65536.
  Proof. vm_compute. reflexivity. Qed.
  Lemma bound_resp : N.of_nat (0 + length (vm_chunks Pideal (bresp Pideal) wsp)) < 65536.
  Proof. vm_compute. reflexivity. Qed.

  (* (a) instantiated: whatever the attacker sends to the server's request decoder and however it is segmented *)
  Example ideal_released_is_prefix : forall w' segs, concat segs = w' ->
    let '(_, _, items, st) := Framed.run _ _ (vbody_dec Pideal) (breq Pideal) [] segs [] in
    lprefix (concat items) (hello ++ world) /\ (st = Waiting \/ st = Failed EAead).
  Proof.
    apply (vm_released_is_prefix Pideal (breq Pideal) wsq 0 eq_refl bound_req ideal_lens ideal_forge_free_req
             (breq Pideal) (wf_body_new Pideal _ _ _ _ _ _) (vm_same_dir_refl (breq Pideal))).
  Qed.

  (* (c) instantiated: the second chunk with its honest size field and ANY other bytes in place of its sealed payload *)
  Example ideal_tampered_ciphertext_rejected : forall x, nth_error (vm_chunks Pideal (breq Pideal) wsq) 1 = Some x ->
    forall ct' tail, lenN ct' = lenN (vc_ct Pideal x) -> ct' <> vc_ct Pideal x -> vc_padlen Pideal x <= lenN tail ->
    crunS Pideal (norm Pideal (breq Pideal))
          (vm_prefix_wire Pideal (breq Pideal) wsq 1 ++ vc_szf Pideal x ++ ct' ++ tail) = Fail hello /\
    forall segs, concat segs = vm_prefix_wire Pideal (breq Pideal) wsq 1 ++ vc_szf Pideal x ++ ct' ++ tail ->
      exists s' b' items, Framed.run _ _ (vbody_dec Pideal) (breq Pideal) [] segs [] = (s', b', items, Failed EAead) /\
                          lprefix (concat items) hello.
  Proof.
    intros x Hx ct' tail Hlen Hneq Hpad.
    pose proof (vm_tampered_ciphertext_rejected Pideal _ ideal_laws_req ideal_shake_len ideal_shake_wf (breq Pideal) wsq 0
                  eq_refl eq_refl bound_req (incl_refl _) ideal_forge_free_req 1%nat x ct' tail Hx Hlen Hneq Hpad) as (_ & H2 & H3).
    assert (E : vm_prefix_pt Pideal (breq Pideal) wsq 1 = hello) by (vm_compute; reflexivity).
    rewrite E in H2, H3. split; [exact H2|exact H3].
  Qed.

  (* the honest streams are released completely (so the prefix statements are not vacuous either) *)
  Example ideal_honest_released_all : forall segs, concat segs = vm_wire Pideal (breq Pideal) wsq ->
    exists s items, Framed.run _ _ (vbody_dec Pideal) (breq Pideal) [] segs [] = (s, [], items, Waiting) /\ concat items = hello ++ world.
  Proof.
    apply (vm_honest_run_released_all Pideal _ ideal_laws_req ideal_shake_len ideal_shake_wf (breq Pideal) wsq eq_refl (incl_refl _)).
  Qed.

  (* (d) instantiated: both decoders of the session, fed with anything (in particular with the other direction's stream) *)
  Example ideal_both_directions : vm_ideal Pideal (sec_cipher sec0) [Kreq; Kresp]
    (map (pair Kreq) (vm_honest Pideal (breq Pideal) wsq) ++ map (pair Kresp) (vm_honest Pideal (bresp Pideal) wsp)).
  Proof.
    intros k n ct m Hk Ho. apply in_or_app. destruct Hk as [<-|[<-|[]]].
    - left. apply in_map. exact (ideal_forge_free_req n ct m Ho).
    - right. apply in_map. exact (ideal_forge_free_resp n ct m Ho).
  Qed.
  Example ideal_keys_differ : Kreq <> Kresp.
  Proof. vm_compute. discriminate. Qed.
  Example ideal_cross_direction : forall segs,
    (let '(_, _, items, st) := Framed.run _ _ (vbody_dec Pideal) (breq Pideal) [] segs [] in
     lprefix (concat items) (hello ++ world) /\ (st = Waiting \/ st = Failed EAead)) /\
    (let '(_, _, items, st) := Framed.run _ _ (vbody_dec Pideal) (bresp Pideal) [] segs [] in
     lprefix (concat items) (world ++ hello) /\ (st = Waiting \/ st = Failed EAead)).
  Proof.
    exact (vm_cross_direction_released_is_prefix Pideal ideal_lens opt0 sec0 sess wsq wsp ideal_keys_differ
             bound_req bound_resp ideal_both_directions).
  Qed.

  (* AuthenticatedLength: the honest size units of BOTH directions (they share key and nonces: F-12b) *)
  Definition Kal : bytes := sec_key Ptoy sec0 (kdf16 Ptoy req_key [str_auth_len]).
  Definition size_units : list (bytes * bytes * bytes) :=
    map (fun u : hunit => let '(_, n, _, m, ct) := u in (n, m, ct))
        (filter (fun u : hunit => let '(k, _, _, _, _) := u in bytes_eqb k Kal) body_table).
  Example ideal_size_forge_free : forall n ct m, p_open Pideal (b_cipher (breq Pideal)) Kal n [] ct = Some m -> In (n, m, ct) size_units.
  Proof.
    intros n ct m Ho. change (table_open body_table (b_cipher (breq Pideal)) Kal n [] ct = Some m) in Ho.
    apply table_open_sound in Ho. revert n m ct Ho. apply table_key_in_spec. vm_compute. reflexivity.
  Qed.
  Example ideal_tampered_auth_size_rejected : forall x rest, nth_error (vm_chunks Pideal (breq Pideal) wsq) 1 = Some x ->
    2 + TAG <= lenN rest -> (forall m, ~ In (vnonce 1 req_iv, m, takeN (2 + TAG) rest) size_units) ->
    crunS Pideal (norm Pideal (breq Pideal)) (vm_prefix_wire Pideal (breq Pideal) wsq 1 ++ rest) = Fail hello.
  Proof.
    intros x rest Hx Hlen Hnot.
    pose proof (vm_tampered_auth_size_rejected Pideal _ ideal_laws_req ideal_shake_len ideal_shake_wf (breq Pideal) wsq
                  eq_refl (incl_refl _) Kal 0 size_units ltac:(vm_compute; reflexivity) ideal_size_forge_free 1%nat x rest Hx Hlen Hnot)
      as (_ & H2 & _).
    assert (E : vm_prefix_pt Pideal (breq Pideal) wsq 1 = hello) by (vm_compute; reflexivity).
    rewrite E in H2. exact H2.
  Qed.

  (* 2. packet mode instantiated: the datagram "hello" sealed from the fresh body; its size field followed by anything else *)
  Example ideal_packet_rejected : forall ct' tail,
    let b := breq Pideal in
    let szf := fst (encode_size Pideal (snd (next_padding Pideal b)) (ec_size Pideal b (65535 + size_bytes b) hello)) in
    let ct := p_seal Pideal (b_cipher b) (b_key b) (vnonce (b_count b) (b_iv b)) [] hello in
    lenN ct' = lenN ct -> ct' <> ct -> ec_pad Pideal b <= lenN tail ->
    decode_packet_v Pideal b (szf ++ ct' ++ tail) = Err EAead.
  Proof.
    intros ct' tail b szf ct.
    assert (Hb : N.of_nat (0 + length (vm_honest Pideal (breq Pideal) wsq)) < 65536) by (vm_compute; reflexivity).
    destruct (vm_packet_ciphertext_tampered_rejected Pideal _ ideal_laws_req ideal_shake_len ideal_shake_wf
                (b_cipher b) (b_key b) (b_iv b) 0 (vm_honest Pideal (breq Pideal) wsq)
                (vm_honest_lockstep Pideal (breq Pideal) wsq 0 eq_refl) Hb ideal_forge_free_req
                b hello padsrc 0%nat eq_refl (vm_same_dir_lock b 0 eq_refl b (vm_same_dir_refl b))
                ltac:(vm_compute; discriminate) ltac:(vm_compute; reflexivity)) as [_ HR].
    - intros k cnt E. vm_compute in E. injection E as <- <-. vm_compute. repeat first [left; reflexivity | right].
    - exact (HR ct' tail).
  Qed.

  (* 3. the request header: an ideal opener over the two units of ONE honest request *)
  Definition authid0 : bytes := auth_id_create Ptoy uid now0 rnd4.
  Definition hb0 : bytes :=
    match header_bytes {| rh_opt := opt0; rh_sec := sec0; rh_cmd := CmdTcp; rh_addr := target |} sess [9; 9; 9] with Ok hb => hb | _ => [] end.
  Definition hdr_table : list hunit := vm_header_units Ptoy uid authid0 cnonce hb0.
  Definition Pideal_h : prims := mkP (table_open hdr_table).
  Lemma hdr_units_ideal : vm_header_units Pideal_h uid authid0 cnonce hb0 = hdr_table.
  Proof. vm_compute. reflexivity. Qed.
  Example ideal_hdr_forge_free : vm_hdr_forge_free Pideal_h [uid2; uid] (vm_header_units Pideal_h uid authid0 cnonce hb0).
  Proof.
    intros u p1 p2 a ct m _ Ho. rewrite hdr_units_ideal.
    change (table_open hdr_table 0 (kdf16 Pideal_h u p1) (kdf12 Pideal_h u p2) a ct = Some m) in Ho.
    apply table_open_sound in Ho. exact Ho.
  Qed.
  Example ideal_hdr_laws : vm_laws_on Pideal_h [].
  Proof.
    constructor.
    - intros c k n a m. apply xseal_len.
    - apply table_open_len. vm_compute. reflexivity.
    - intros c k n m [].
  Qed.
  Example ideal_header_tampered_refused : forall now src,
    (takeN 16 src <> authid0 \/
     (takeN 8 (dropN 34 src) = cnonce /\ lenN (seal_header Pideal_h uid authid0 cnonce hb0) <= lenN src /\
      takeN (lenN (seal_header Pideal_h uid authid0 cnonce hb0)) src <> seal_header Pideal_h uid authid0 cnonce hb0)) ->
    (exists e, server_vdecode Pideal_h now [uid2; uid] SInit src = Err e) \/
    server_vdecode Pideal_h now [uid2; uid] SInit src = Ok (SInit, src, None).
  Proof.
    apply (vm_header_tampered_refused_neq Pideal_h ideal_hdr_laws [uid2; uid] uid authid0 cnonce hb0 ideal_hdr_forge_free);
      vm_compute; reflexivity.
  Qed.

  (* a decoder of another session (another body key): nothing opens under it, nothing is released *)
  Example ideal_reflection : forall segs,
    let s0 := body_new Pideal opt0 sec0 (repeat 9 16) req_iv req_key req_iv in
    let '(_, _, items, st) := Framed.run _ _ (vbody_dec Pideal) s0 [] segs [] in
    concat items = [] /\ (st = Waiting \/ st = Failed EAead).
  Proof.
    intros segs s0. apply (vm_reflection_rejected Pideal ideal_lens s0 segs (wf_body_new Pideal _ _ _ _ _ _)).
    intros n ct m Ho. change (table_open body_table 0 (repeat 9 16) n [] ct = Some m) in Ho.
    apply table_open_sound in Ho.
    assert (HT : table_key_in body_table (repeat 9 16) [] = true) by (vm_compute; reflexivity).
    exact (table_key_in_spec _ _ _ HT n m ct Ho).
  Qed.
  (* a server none of whose registered user ids the peer holds: an opener that opens nothing under any key *)
  Definition Pnone : prims := mkP (fun _ _ _ _ _ => None).
  Example none_no_user_key_no_target : forall now src h s b r it,
    server_vdecode Pnone now [uid2; uid] SInit src <> Ok (SReady h s b, r, it).
  Proof. apply (vm_no_user_key_no_target Pnone [uid2; uid]). intros u p1 p2 a ct m _ Ho. discriminate Ho. Qed.
  (* F-12b with the tag-checking AEAD *)
  Example toy_auth_len_size_reflected := vm_auth_len_size_reflected_accepted Ptoy Ptoy_laws opt0 sec0 sess.

  (* ---- computed runs with the tag-checking toy AEAD (prim_laws hold: its open really recomputes the tag) ---- *)
  Definition w0 : bytes := vm_wire Ptoy (breq Ptoy) wsq.       (* request stream: 18+21+53 | 18+21+7 = 138 bytes *)
  Definition r0 : bytes := vm_wire Ptoy (bresp Ptoy) wsp.      (* response stream *)
  Definition outcome (segs : list bytes) : bytes * fstatus :=
    let '(_, _, items, st) := Framed.run _ _ (vbody_dec Ptoy) (breq Ptoy) [] segs [] in (concat items, st).
  Definition flip (i : nat) (l : bytes) : bytes :=
    firstn i l ++ match skipn i l with x :: t => ((x + 1) mod 256) :: t | [] => [] end.
  Definition two (n : nat) (l : bytes) : list bytes := [firstn n l; skipn n l].

  Example wire_len : length w0 = 138%nat. Proof. vm_compute. reflexivity. Qed.
  Example honest_all : outcome (two 50 w0) = (hello ++ world, Waiting). Proof. vm_compute. reflexivity. Qed.
  (* one byte of the sealed payload of the second chunk; the first chunk arrived earlier and was released *)
  Example flipped_payload : outcome (two 95 (flip 115 w0)) = (hello, Failed EAead). Proof. vm_compute. reflexivity. Qed.
  (* the same in ONE segment: the failing decode call also discards what it had opened in that call *)
  Example flipped_payload_one_segment : outcome [flip 115 w0] = ([], Failed EAead). Proof. vm_compute. reflexivity. Qed.
  (* the tag of the second chunk, the sealed size field of the second chunk, the very first byte *)
  Example flipped_tag : outcome (two 95 (flip 130 w0)) = (hello, Failed EAead). Proof. vm_compute. reflexivity. Qed.
  Example flipped_size : outcome (two 92 (flip 95 w0)) = (hello, Failed EAead). Proof. vm_compute. reflexivity. Qed.
  Example flipped_first : outcome [flip 0 w0] = ([], Failed EAead). Proof. vm_compute. reflexivity. Qed.
  (* a padding byte of the first chunk: NOT detected (vm_padding_tamper_accepted), the released bytes are the honest ones *)
  Example flipped_padding : outcome (two 50 (flip 60 w0)) = (hello ++ world, Waiting). Proof. vm_compute. reflexivity. Qed.
  Example truncated : outcome (two 50 (firstn 120 w0)) = (hello, Waiting). Proof. vm_compute. reflexivity. Qed.
  Example deleted_first_chunk : outcome [skipn 92 w0] = ([], Failed EAead). Proof. vm_compute. reflexivity. Qed.
  Example reordered : outcome [skipn 92 w0 ++ firstn 92 w0] = ([], Failed EAead). Proof. vm_compute. reflexivity. Qed.
  Example duplicated : outcome (two 92 (firstn 92 w0 ++ w0)) = (hello, Failed EAead). Proof. vm_compute. reflexivity. Qed.
  Example inserted : outcome (two 92 (firstn 100 w0 ++ 0 :: skipn 100 w0)) = (hello, Failed EAead). Proof. vm_compute. reflexivity. Qed.
  Example nothing_after : outcome [firstn 95 (flip 115 w0); skipn 95 (flip 115 w0); w0] = (hello, Failed EAead).
  Proof. vm_compute. reflexivity. Qed.
  (* reflection: the server's own response stream fed to its request decoder releases nothing; with AuthenticatedLength
     its first SIZE FIELD is accepted (F-12b), the sealed payload behind it is not *)
  Example reflected_response : outcome [r0] = ([], Failed EAead). Proof. vm_compute. reflexivity. Qed.
  Example reflected_size_field_accepted :
    exists b', decode_size Ptoy (norm Ptoy (breq Ptoy)) (firstn 18 r0) = Ok (5 + 45 + 16, b').
  Proof. vm_compute. eexists. reflexivity. Qed.
  (* splice: the client's first chunk, then the server's second chunk *)
  Example spliced : outcome (two 92 (firstn 92 w0 ++ skipn 84 r0)) = (hello, Failed EAead). Proof. vm_compute. reflexivity. Qed.

  (* ChunkMasking | GlobalPadding without AuthenticatedLength, chacha20-poly1305: the size field is not authenticated;
     a flipped size makes the decoder wait for a wrong length or fail at the payload -- it never releases anything else *)
  Definition b13 : body := body_new Ptoy 13 4 req_key req_iv req_key req_iv.
  Definition w13 : bytes := vm_wire Ptoy b13 wsq.              (* 2+21+53 | 2+21+33 *)
  Definition outcome13 (segs : list bytes) : bytes * fstatus :=
    let '(_, _, items, st) := Framed.run _ _ (vbody_dec Ptoy) b13 [] segs [] in (concat items, st).
  Example honest13 : outcome13 (two 40 w13) = (hello ++ world, Waiting). Proof. vm_compute. reflexivity. Qed.
  Example flipped_plain_size_low : outcome13 (two 76 (flip 77 w13)) = (hello, Failed EAead). Proof. vm_compute. reflexivity. Qed.
  Example flipped_plain_size_high : outcome13 (two 76 (flip 76 w13)) = (hello, Waiting). Proof. vm_compute. reflexivity. Qed.
  Example flipped_payload13 : outcome13 (two 76 (flip 80 w13)) = (hello, Failed EAead). Proof. vm_compute. reflexivity. Qed.

  (* packet mode: a datagram chunk with one flipped byte is an error, nothing is released *)
  Definition pkt0 : bytes := match encode_packet_v Ptoy (breq Ptoy) hello padsrc with Ok (w, _) => w | _ => [] end.
  Example packet_honest : exists b', decode_packet_v Ptoy (breq Ptoy) pkt0 = Ok (b', [], Some hello).
  Proof. vm_compute. eexists. reflexivity. Qed.
  Example packet_flipped_payload : decode_packet_v Ptoy (breq Ptoy) (flip 20 pkt0) = Err EAead. Proof. vm_compute. reflexivity. Qed.
  Example packet_flipped_size : decode_packet_v Ptoy (breq Ptoy) (flip 3 pkt0) = Err EAead. Proof. vm_compute. reflexivity. Qed.
  Example packet_truncated : exists b' r, decode_packet_v Ptoy (breq Ptoy) (firstn 30 pkt0) = Ok (b', r, None).
  Proof. vm_compute. eexists. eexists. reflexivity. Qed.

  (* the request header: a flipped byte anywhere in the sealed header is refused *)
  Definition req0 : bytes := seal_header Ptoy uid authid0 cnonce hb0 ++ w0.
  Definition refused (src : bytes) : bool :=
    match server_vdecode Ptoy now0 [uid2; uid] SInit src with Err _ => true | _ => false end.
  Example header_honest : match server_vdecode Ptoy now0 [uid2; uid] SInit req0 with
                          | Ok (SReady _ _ _, [], Some (ConnectTcp d a)) => d = hello ++ world /\ a = target
                          | _ => False end.
  Proof. vm_compute. split; reflexivity. Qed.
  (* auth id (0..16), sealed length (16..34), connection nonce (34..42), sealed header (42..) *)
  Example header_flips : forallb (fun i => refused (flip i req0)) [0; 7; 15; 16; 20; 33; 34; 41; 42; 60; 90]%nat = true.
  Proof. vm_compute. reflexivity. Qed.
End VmessTamperExamples.

Print Assumptions VmessTamperExamples.Ptoy_laws.
Print Assumptions VmessTamperExamples.ideal_forge_free_req.
Print Assumptions VmessTamperExamples.ideal_laws_req.
Print Assumptions VmessTamperExamples.ideal_released_is_prefix.
Print Assumptions VmessTamperExamples.ideal_tampered_ciphertext_rejected.
Print Assumptions VmessTamperExamples.ideal_tampered_auth_size_rejected.
Print Assumptions VmessTamperExamples.ideal_honest_released_all.
Print Assumptions VmessTamperExamples.ideal_cross_direction.
Print Assumptions VmessTamperExamples.ideal_packet_rejected.
Print Assumptions VmessTamperExamples.ideal_hdr_forge_free.
Print Assumptions VmessTamperExamples.ideal_header_tampered_refused.
Print Assumptions VmessTamperExamples.ideal_reflection.
Print Assumptions VmessTamperExamples.none_no_user_key_no_target.
Print Assumptions VmessTamperExamples.flipped_payload.
Print Assumptions VmessTamperExamples.flipped_padding.
Print Assumptions VmessTamperExamples.reflected_response.
Print Assumptions VmessTamperExamples.header_flips.
