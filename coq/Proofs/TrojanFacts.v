(* Facts about Model/Trojan.v (server/trojan.rs ServerCodec, client/trojan.rs ClientCodec).
   NOTE on signatures: `trojan_server_decode` and `trojan_client_udp_decode` do not mention the section variable
   P of Model/Trojan.v, so after the section they take no `prims` argument:
     trojan_server_decode : bytes -> tstate -> bytes -> res (tstate * bytes * option inbound)
   Only `trojan_key P` and `trojan_client_head P` depend on P (through p_sha224).

   1. Totality             trojan_packet_total, trojan_server_decode_total, trojan_client_udp_decode_total
   2. Credential           trojan_requires_hash (+ _strong), hex_decode_encode, hex_decode_length, hex_decode_inj
   3. Round trips          trojan_packet_roundtrip, trojan_header_tcp_roundtrip, trojan_header_udp_roundtrip(_none)
   4. Segmentation         unit machine pk_need/pk_step, drain_canon, udp_segmentation_independent (generic),
                           trojan_server_udp_segmentation_independent, trojan_client_udp_segmentation_independent,
                           trojan_{server,client}_udp_stream_any_segmentation (valid datagram streams), trojan_tcp_passthrough,
                           trojan_header_waits, trojan_header_segmentation (cmd = 1, full statement) *)
From Coq Require Import NArith List Lia Bool Arith ZArith ZifyBool ZifyN ZifyNat.
From Octo Require Import Base.Bytes Crypto.Prims Model.Address Proofs.AddressFacts Model.SsTcp Model.Trojan
                         Lib.Framed Lib.Canon Proofs.CodecLemmas.
Import ListNotations.
Open Scope N_scope.

(* =========================== hex =========================== *)
Lemma hexval_hexdigit v : v < 16 -> hexval (hexdigit v) = Some v.
Proof.
  intros H. unfold hexval, hexdigit. destruct (N.ltb_spec v 10) as [H10|H10].
  - destruct (N.leb_spec 48 (48 + v)); [|lia]. destruct (N.leb_spec (48 + v) 57); [|lia]. cbn [andb]. f_equal. lia.
  - destruct (N.leb_spec 48 (87 + v)); [|lia]. destruct (N.leb_spec (87 + v) 57); [lia|]. cbn [andb].
    destruct (N.leb_spec 97 (87 + v)); [|lia]. destruct (N.leb_spec (87 + v) 102); [|lia]. cbn [andb]. f_equal. lia.
Qed.

Theorem hex_decode_encode : forall l, wf_bytes l -> hex_decode (hex_encode l) = Some l.
Proof.
  induction l as [|b t IH]; intros H; [reflexivity|].
  inversion H as [|b' t' Hb Ht]; subst. unfold hex_encode. cbn [flat_map app]. fold (hex_encode t).
  cbn [hex_decode]. rewrite !hexval_hexdigit.
  - rewrite (IH Ht). f_equal. f_equal. pose proof (N.div_mod b 16 ltac:(lia)) as D. lia.
  - apply N.mod_lt. lia.
  - apply N.div_lt_upper_bound; lia.
Qed.

Theorem hex_decode_length : forall b k, hex_decode k = Some b -> lenN k = 2 * lenN b.
Proof.
  induction b as [|v r IH]; intros k H.
  - destruct k as [|x [|y t]]; cbn [hex_decode] in H; [reflexivity|discriminate|].
    destruct (hexval x), (hexval y), (hex_decode t); discriminate.
  - destruct k as [|x [|y t]]; cbn [hex_decode] in H; [discriminate|discriminate|].
    destruct (hexval x), (hexval y); try discriminate. destruct (hex_decode t) as [r'|] eqn:E; [|discriminate].
    injection H as _ ->. rewrite !lenN_cons. rewrite (IH t E). lia.
Qed.

Lemma lenN_hex_encode l : lenN (hex_encode l) = 2 * lenN l.
Proof.
  induction l as [|b t IH]; [reflexivity|]. unfold hex_encode. cbn [flat_map app]. fold (hex_encode t).
  rewrite !lenN_cons, IH. lia.
Qed.

(* hex_decode is a function: the hex string determines the key *)
Theorem hex_decode_inj : forall k key key', hex_decode k = Some key -> hex_decode k = Some key' -> key = key'.
Proof. intros k key key' H H'. congruence. Qed.

Lemma bytes_eqb_true a b : bytes_eqb a b = true -> a = b.
Proof. unfold bytes_eqb. destruct (list_eq_dec N.eq_dec a b); [auto|discriminate]. Qed.
Lemma bytes_eqb_refl a : bytes_eqb a a = true.
Proof. unfold bytes_eqb. destruct (list_eq_dec N.eq_dec a a); [reflexivity|contradiction]. Qed.

(* =========================== trojan_packet =========================== *)
(* complete description of trojan_packet in terms of try_decode_at *)
Lemma trojan_packet_spec c :
  match s5_try_decode_at c 0 with
  | Ok None => trojan_packet c = Ok None
  | Ok (Some al) =>
      if lenN c <? al + 4 then trojan_packet c = Ok None else
      if lenN c <? al + 4 + be (takeN 2 (dropN al c)) then trojan_packet c = Ok None else
      exists ad, s5_decode c = Ok (ad, dropN al c) /\
        trojan_packet c = Ok (Some (takeN (be (takeN 2 (dropN al c))) (dropN (al + 4) c), ad,
                                    dropN (al + 4 + be (takeN 2 (dropN al c))) c))
  | Err e => e = EBadAddrType /\ trojan_packet c = Err EBadAddrType
  | Panic => False
  end.
Proof.
  unfold trojan_packet. destruct (s5_try_decode_at c 0) as [[al|]|e|] eqn:E; cbn [bind].
  - replace (al + 2 + 2) with (al + 4) by lia.
    destruct (N.ltb_spec (lenN c) (al + 4)) as [|H4]; [reflexivity|].
    set (len := be (takeN 2 (dropN al c))).
    destruct (N.ltb_spec (lenN c) (al + 4 + len)) as [|HL]; [reflexivity|].
    destruct (s5_decode_of_need c al E ltac:(lia)) as (ad & Hd). exists ad. split; [exact Hd|].
    rewrite Hd. cbn [bind]. rewrite get_u16_ok by (rewrite lenN_dropN; lia). cbn [bind]. fold len.
    rewrite advance_ok by (rewrite !lenN_dropN; lia). cbn [bind].
    rewrite split_to_ok by (rewrite !lenN_dropN; lia). cbn [bind].
    rewrite !dropN_dropN. replace (al + 2 + 2) with (al + 4) by lia. reflexivity.
  - reflexivity.
  - pose proof (try_at_err c 0 e E) as ->. split; reflexivity.
  - eapply s5_try_decode_at_total. exact E.
Qed.

Theorem trojan_packet_total : forall src, trojan_packet src <> Panic.
Proof.
  intros c. pose proof (trojan_packet_spec c) as S.
  destruct (s5_try_decode_at c 0) as [[al|]|e|].
  - destruct (lenN c <? al + 4); [rewrite S; discriminate|].
    destruct (lenN c <? al + 4 + be (takeN 2 (dropN al c))); [rewrite S; discriminate|].
    destruct S as (ad & _ & ->). discriminate.
  - rewrite S. discriminate.
  - destruct S as [_ ->]. discriminate.
  - contradiction.
Qed.

Theorem trojan_packet_errors : forall src e, trojan_packet src = Err e -> e = EBadAddrType.
Proof.
  intros c e0 H. pose proof (trojan_packet_spec c) as S.
  destruct (s5_try_decode_at c 0) as [[al|]|e|].
  - destruct (lenN c <? al + 4); [rewrite S in H; discriminate|].
    destruct (lenN c <? al + 4 + be (takeN 2 (dropN al c))); [rewrite S in H; discriminate|].
    destruct S as (ad & _ & S). rewrite S in H. discriminate.
  - rewrite S in H. discriminate.
  - destruct S as [_ S]. rewrite S in H. injection H as <-. reflexivity.
  - contradiction.
Qed.

Lemma trojan_packet_nil : trojan_packet [] = Ok None.
Proof. reflexivity. Qed.

(* exactness: one encoded packet followed by anything *)
Theorem trojan_packet_roundtrip : forall a pl tail, addr_wf a -> representable a -> lenN pl < 65536 ->
  trojan_packet (trojan_packet_encode a pl ++ tail) = Ok (Some (pl, a, tail)).
Proof.
  intros a pl tail Hwf Hrep Hpl. unfold trojan_packet, trojan_packet_encode.
  rewrite <- !app_assoc. set (rest := put_u16 (lenN pl mod 65536) ++ [CR; LF] ++ pl ++ tail).
  pose proof (s5_try_decode_at_ok [] a rest Hwf Hrep) as Ht. cbn [app] in Ht. rewrite lenN_nil in Ht.
  rewrite Ht. cbn [bind].
  assert (Hrest : lenN rest = 4 + lenN pl + lenN tail).
  { unfold rest. rewrite !lenN_app, lenN_put_u16, !lenN_cons, lenN_nil. lia. }
  rewrite lenN_app.
  destruct (N.ltb_spec (lenN (s5_encode a) + lenN rest) (lenN (s5_encode a) + 2 + 2)) as [|_]; [lia|].
  rewrite dropN_app_exact.
  assert (Hlen : be (takeN 2 rest) = lenN pl).
  { unfold rest. rewrite <- (lenN_put_u16 (lenN pl mod 65536)) at 1. rewrite takeN_app_exact.
    unfold put_u16. rewrite be_put_be by (apply N.mod_lt; lia). apply N.mod_small. exact Hpl. }
  rewrite Hlen.
  destruct (N.ltb_spec (lenN (s5_encode a) + lenN rest) (lenN (s5_encode a) + 4 + lenN pl)) as [|_]; [lia|].
  rewrite s5_roundtrip by assumption. cbn [bind]. unfold rest.
  rewrite N.mod_small by exact Hpl. rewrite get_u16_put by exact Hpl. cbn [bind app].
  rewrite advance_2_cons. cbn [bind]. rewrite split_to_app. reflexivity.
Qed.

(* a decoded packet is unchanged by bytes that arrive later *)
Theorem trojan_packet_app : forall u b pl ad r, trojan_packet u = Ok (Some (pl, ad, r)) ->
  trojan_packet (u ++ b) = Ok (Some (pl, ad, r ++ b)).
Proof.
  intros u b pl ad r H. pose proof (trojan_packet_spec u) as S. pose proof (trojan_packet_spec (u ++ b)) as S'.
  destruct (s5_try_decode_at u 0) as [[al|]|e|] eqn:E.
  - rewrite (try_at_mono u b 0 _ E ltac:(discriminate)) in S'.
    destruct (N.ltb_spec (lenN u) (al + 4)) as [|H4]; [rewrite S in H; discriminate|].
    destruct (N.ltb_spec (lenN u) (al + 4 + be (takeN 2 (dropN al u)))) as [|HL]; [rewrite S in H; discriminate|].
    destruct S as (ad0 & Hd & S). rewrite S in H. injection H as <- <- <-.
    rewrite lenN_app in S'. destruct (N.ltb_spec (lenN u + lenN b) (al + 4)) as [|_]; [lia|].
    rewrite (dropN_app_le al u b) in S' by lia.
    rewrite (takeN_app_le 2 (dropN al u) b) in S' by (rewrite lenN_dropN; lia).
    destruct (N.ltb_spec (lenN u + lenN b) (al + 4 + be (takeN 2 (dropN al u)))) as [|_]; [lia|].
    destruct S' as (ad1 & Hd1 & S'). rewrite (s5_decode_app u b _ _ Hd) in Hd1. injection Hd1 as <-.
    rewrite S'. rewrite !dropN_app_le by lia. rewrite takeN_app_le by (rewrite lenN_dropN; lia). reflexivity.
  - rewrite S in H. discriminate.
  - destruct S as [_ S]. rewrite S in H. discriminate.
  - contradiction.
Qed.

(* =========================== the header state =========================== *)
(* what the server decoder does on a buffer of at least 59 bytes, written over the decomposition
   src = k(56) ++ c56 :: c57 :: cmd :: r *)
Definition header_body (key k : bytes) (c56 cmd : N) (r src : bytes) : res (tstate * bytes * option inbound) :=
  let* need := s5_try_decode_at r 0 in
  match need with
  | None => Ok (THeader, src, None)
  | Some al =>
    if lenN r <? al + 2 then Ok (THeader, src, None) else
    if negb (c56 =? CR) then Err EBadPassword else
    match hex_decode k with
    | None => Err EBadPassword
    | Some kb =>
      if negb (bytes_eqb key kb) then Err EBadPassword else
      if negb ((cmd =? 1) || (cmd =? 2) || (cmd =? 3)) then Err EBadCmd else
      let* (ad, r1) := s5_decode r in
      let* r2 := advance 2 r1 in
      if cmd =? 1 then Ok (TTcp, [], Some (ConnectTcp r2 ad))
      else if cmd =? 3 then
        let* pk := trojan_packet r2 in
        match pk with
        | None => Ok (TUdp, r2, None)
        | Some (pl, pa, r') => Ok (TUdp, r', Some (RelayUdp pl pa))
        end
      else Err EBadCmd
    end
  end.

Lemma header_unfold key k c56 c57 cmd r : lenN k = 56 ->
  trojan_server_decode key THeader (k ++ c56 :: c57 :: cmd :: r) = header_body key k c56 cmd r (k ++ c56 :: c57 :: cmd :: r).
Proof.
  intros Hk. set (src := k ++ c56 :: c57 :: cmd :: r).
  assert (Hne : src <> []) by (unfold src; destruct k; discriminate).
  assert (Htry : s5_try_decode_at src 59 = s5_try_decode_at r 0).
  { unfold src. change (c56 :: c57 :: cmd :: r) with ([c56; c57; cmd] ++ r). rewrite app_assoc.
    replace 59 with (lenN (k ++ [c56; c57; cmd])) by (rewrite lenN_app, Hk; reflexivity).
    apply try_at_app_exact. }
  assert (Hlen : lenN src = 59 + lenN r) by (unfold src; rewrite lenN_app, !lenN_cons, Hk; lia).
  assert (Hidx : index src 56 = Ok c56) by (unfold src; rewrite <- Hk; apply index_at).
  assert (Hsplit : split_to 56 src = Ok (k, c56 :: c57 :: cmd :: r)) by (unfold src; rewrite <- Hk; apply split_to_app).
  assert (Hm : forall (A : Type) (a b : A), match src with [] => a | _ :: _ => b end = b)
    by (intros A a b; destruct src; [contradiction|reflexivity]).
  unfold trojan_server_decode, header_body. rewrite Hm.
  rewrite Htry. destruct (s5_try_decode_at r 0) as [[al|]|e|]; cbn [bind]; try reflexivity.
  rewrite Hlen.
  destruct (N.ltb_spec (59 + lenN r) (59 + al + 2)) as [H1|H1], (N.ltb_spec (lenN r) (al + 2)) as [H2|H2];
    try lia; [reflexivity|].
  rewrite Hidx. cbn [bind]. destruct (negb (c56 =? CR)); [reflexivity|].
  rewrite Hsplit. cbn [bind]. destruct (hex_decode k) as [kb|]; [|reflexivity].
  destruct (negb (bytes_eqb key kb)); [reflexivity|].
  rewrite advance_2_cons. cbn [bind]. rewrite get_u8_cons. cbn [bind]. reflexivity.
Qed.

(* fewer than 60 bytes: the address type byte has not arrived *)
Lemma header_short key src : lenN src <= 59 -> trojan_server_decode key THeader src = Ok (THeader, src, None).
Proof.
  intros H. unfold trojan_server_decode. destruct src as [|x xs]; [reflexivity|].
  rewrite try_at_short by exact H. reflexivity.
Qed.

(* every buffer of at least 59 bytes has the shape used by header_unfold *)
Lemma header_shape src : 59 <= lenN src -> exists k c56 c57 cmd r, src = k ++ c56 :: c57 :: cmd :: r /\ lenN k = 56.
Proof.
  intros H. destruct (split_at 56 src ltac:(lia)) as (k & b & -> & Hk). rewrite lenN_app, Hk in H.
  destruct b as [|c56 [|c57 [|cmd r]]]; rewrite ?lenN_cons, ?lenN_nil in H; try lia.
  exists k, c56, c57, cmd, r. split; [reflexivity|exact Hk].
Qed.

Lemma header_body_total key k c56 cmd r src : header_body key k c56 cmd r src <> Panic.
Proof.
  unfold header_body. destruct (s5_try_decode_at r 0) as [[al|]|e|] eqn:E; cbn [bind]; try discriminate.
  - destruct (N.ltb_spec (lenN r) (al + 2)) as [|Hl]; [discriminate|].
    destruct (negb (c56 =? CR)); [discriminate|]. destruct (hex_decode k) as [kb|]; [|discriminate].
    destruct (negb (bytes_eqb key kb)); [discriminate|].
    destruct (negb ((cmd =? 1) || (cmd =? 2) || (cmd =? 3))); [discriminate|].
    destruct (s5_decode_of_need r al E ltac:(lia)) as (ad & ->). cbn [bind].
    rewrite advance_ok by (rewrite lenN_dropN; lia). cbn [bind].
    destruct (cmd =? 1); [discriminate|]. destruct (cmd =? 3); [|discriminate].
    pose proof (trojan_packet_total (dropN 2 (dropN al r))) as HT.
    destruct (trojan_packet (dropN 2 (dropN al r))) as [[[[pl pa] r']|]|e|]; cbn [bind]; try discriminate. contradiction.
  - exfalso. eapply s5_try_decode_at_total. exact E.
Qed.

(* =========================== 1. Totality =========================== *)
Theorem trojan_server_decode_total : forall key st src, trojan_server_decode key st src <> Panic.
Proof.
  intros key st src. destruct st.
  - destruct (N.le_gt_cases (lenN src) 59) as [H|H]; [rewrite header_short by exact H; discriminate|].
    destruct (header_shape src ltac:(lia)) as (k & c56 & c57 & cmd & r & -> & Hk).
    rewrite header_unfold by exact Hk. apply header_body_total.
  - destruct src; discriminate.
  - unfold trojan_server_decode. destruct src as [|x xs]; [discriminate|].
    pose proof (trojan_packet_total (x :: xs)) as HT.
    destruct (trojan_packet (x :: xs)) as [[[[pl pa] r']|]|e|]; cbn [bind]; try discriminate. contradiction.
Qed.

Theorem trojan_client_udp_decode_total : forall src, trojan_client_udp_decode src <> Panic.
Proof.
  intros src. unfold trojan_client_udp_decode. destruct src as [|x xs]; [discriminate|].
  pose proof (trojan_packet_total (x :: xs)) as HT.
  destruct (trojan_packet (x :: xs)) as [[[[pl pa] r']|]|e|]; cbn [bind]; try discriminate. contradiction.
Qed.

(* =========================== 2. Credential =========================== *)
(* An item leaves the header state only if bytes 0..55 are hex digits decoding to the configured key, byte 56 is
   CR and the command is 1 or 3.  (The byte after CR is skipped without being compared with LF.) *)
Theorem trojan_requires_hash_strong : forall key src st' r it,
  trojan_server_decode key THeader src = Ok (st', r, Some it) ->
  hex_decode (takeN 56 src) = Some key /\ index src 56 = Ok CR /\
  exists cmd, index src 58 = Ok cmd /\ (cmd = 1 \/ cmd = 3).
Proof.
  intros key src st' r0 it H.
  destruct (N.le_gt_cases (lenN src) 59) as [Hs|Hs]; [rewrite header_short in H by exact Hs; discriminate|].
  destruct (header_shape src ltac:(lia)) as (k & c56 & c57 & cmd & r & -> & Hk).
  rewrite header_unfold in H by exact Hk. rewrite <- Hk at 1. rewrite takeN_app_exact.
  rewrite <- Hk at 1. rewrite index_at.
  assert (H58 : index (k ++ c56 :: c57 :: cmd :: r) 58 = Ok cmd).
  { change (c56 :: c57 :: cmd :: r) with ([c56; c57] ++ cmd :: r). rewrite app_assoc.
    replace 58 with (lenN (k ++ [c56; c57])) by (rewrite lenN_app, Hk; reflexivity). apply index_at. }
  rewrite H58. clear H58. unfold header_body in H.
  destruct (s5_try_decode_at r 0) as [[al|]|e|]; cbn [bind] in H; try discriminate.
  destruct (lenN r <? al + 2); [discriminate|].
  destruct (N.eqb_spec c56 CR) as [->|]; cbn [negb] in H; [|discriminate].
  destruct (hex_decode k) as [kb|]; [|discriminate].
  destruct (bytes_eqb key kb) eqn:Ek; cbn [negb] in H; [|discriminate]. apply bytes_eqb_true in Ek. subst kb.
  split; [reflexivity|]. split; [reflexivity|]. exists cmd. split; [reflexivity|].
  destruct (negb ((cmd =? 1) || (cmd =? 2) || (cmd =? 3))); [discriminate|].
  destruct (s5_decode r) as [[ad r1]|e|]; cbn [bind] in H; try discriminate.
  destruct (advance 2 r1) as [r2|e|]; cbn [bind] in H; try discriminate.
  destruct (N.eqb_spec cmd 1); [left; assumption|]. destruct (N.eqb_spec cmd 3); [right; assumption|discriminate].
Qed.

Theorem trojan_requires_hash : forall key src st' r it,
  trojan_server_decode key THeader src = Ok (st', r, Some it) -> hex_decode (takeN 56 src) = Some key.
Proof. intros key src st' r it H. apply (trojan_requires_hash_strong key src st' r it H). Qed.

(* consequently the key is 28 bytes iff ... : the length relation *)
Corollary trojan_requires_hash_len : forall key src st' r it,
  trojan_server_decode key THeader src = Ok (st', r, Some it) -> lenN key = 28.
Proof.
  intros key src st' r it H. pose proof (trojan_requires_hash _ _ _ _ _ H) as Hh.
  apply hex_decode_length in Hh.
  destruct (N.le_gt_cases (lenN src) 59) as [Hs|Hs]; [rewrite header_short in H by exact Hs; discriminate|].
  rewrite lenN_takeN in Hh by lia. lia.
Qed.

(* the possible errors of the server decoder *)
Theorem trojan_server_decode_errors : forall key st src e, trojan_server_decode key st src = Err e ->
  e = EBadPassword \/ e = EBadCmd \/ e = EBadAddrType.
Proof.
  intros key st src e H. destruct st.
  - destruct (N.le_gt_cases (lenN src) 59) as [Hs|Hs]; [rewrite header_short in H by exact Hs; discriminate|].
    destruct (header_shape src ltac:(lia)) as (k & c56 & c57 & cmd & r & -> & Hk).
    rewrite header_unfold in H by exact Hk. unfold header_body in H.
    destruct (s5_try_decode_at r 0) as [[al|]|e'|] eqn:E; cbn [bind] in H; try discriminate.
    + destruct (N.ltb_spec (lenN r) (al + 2)) as [|Hl]; [discriminate|].
      destruct (negb (c56 =? CR)); [injection H as <-; auto|]. destruct (hex_decode k) as [kb|]; [|injection H as <-; auto].
      destruct (negb (bytes_eqb key kb)); [injection H as <-; auto|].
      destruct (negb ((cmd =? 1) || (cmd =? 2) || (cmd =? 3))); [injection H as <-; auto|].
      destruct (s5_decode_of_need r al E ltac:(lia)) as (ad & Hd). rewrite Hd in H. cbn [bind] in H.
      rewrite advance_ok in H by (rewrite lenN_dropN; lia). cbn [bind] in H.
      destruct (cmd =? 1); [discriminate|]. destruct (cmd =? 3); [|injection H as <-; auto].
      destruct (trojan_packet (dropN 2 (dropN al r))) as [[[[pl pa] r']|]|e'|] eqn:Ep; cbn [bind] in H; try discriminate.
      injection H as <-. right; right. eapply trojan_packet_errors. exact Ep.
    + injection H as <-. right; right. eapply try_at_err. exact E.
  - destruct src; discriminate.
  - unfold trojan_server_decode in H. destruct src as [|x xs]; [discriminate|].
    destruct (trojan_packet (x :: xs)) as [[[[pl pa] r']|]|e'|] eqn:Ep; cbn [bind] in H; try discriminate.
    injection H as <-. right; right. eapply trojan_packet_errors. exact Ep.
Qed.

(* =========================== 3. Round trips of the request head =========================== *)
Section Head.
  Variable P : prims.
  Variable pw : bytes.
  Hypothesis sha_wf : wf_bytes (p_sha224 P pw).
  Hypothesis sha_len : lenN (p_sha224 P pw) = 28.

  Lemma head_key_len : lenN (hex_encode (trojan_key P pw)) = 56.
  Proof using sha_len. rewrite lenN_hex_encode. unfold trojan_key. rewrite sha_len. reflexivity. Qed.

  Lemma head_shape cmd a rest :
    trojan_client_head P pw cmd a ++ rest =
    hex_encode (trojan_key P pw) ++ CR :: LF :: cmd :: (s5_encode a ++ CR :: LF :: rest).
  Proof. unfold trojan_client_head. rewrite <- !app_assoc. reflexivity. Qed.

  Lemma lenN_head cmd a : lenN (trojan_client_head P pw cmd a) = 61 + lenN (s5_encode a).
  Proof using sha_len.
    unfold trojan_client_head. rewrite !lenN_app, head_key_len, !lenN_cons, lenN_nil. lia.
  Qed.

  (* the decoder on head ++ rest, up to the dispatch on the command *)
  Lemma head_decode cmd a rest : addr_wf a -> representable a ->
    trojan_server_decode (trojan_key P pw) THeader (trojan_client_head P pw cmd a ++ rest) =
    if negb ((cmd =? 1) || (cmd =? 2) || (cmd =? 3)) then Err EBadCmd else
    if cmd =? 1 then Ok (TTcp, [], Some (ConnectTcp rest a))
    else if cmd =? 3 then
      let* pk := trojan_packet rest in
      match pk with
      | None => Ok (TUdp, rest, None)
      | Some (pl, pa, r') => Ok (TUdp, r', Some (RelayUdp pl pa))
      end
    else Err EBadCmd.
  Proof using sha_wf sha_len.
    intros Hwf Hrep. rewrite head_shape. rewrite header_unfold by apply head_key_len. unfold header_body.
    pose proof (s5_try_decode_at_ok [] a (CR :: LF :: rest) Hwf Hrep) as Ht. cbn [app] in Ht. rewrite lenN_nil in Ht.
    rewrite Ht. cbn [bind].
    destruct (N.ltb_spec (lenN (s5_encode a ++ CR :: LF :: rest)) (lenN (s5_encode a) + 2)) as [Hl|_];
      [rewrite lenN_app, !lenN_cons in Hl; lia|].
    change (negb (CR =? CR)) with false. cbv iota.
    unfold trojan_key at 2. rewrite hex_decode_encode by exact sha_wf. fold (trojan_key P pw).
    rewrite bytes_eqb_refl. cbn [negb].
    destruct (negb ((cmd =? 1) || (cmd =? 2) || (cmd =? 3))); [reflexivity|].
    rewrite s5_roundtrip by assumption. cbn [bind]. rewrite advance_2_cons. cbn [bind]. reflexivity.
  Qed.

  (* TCP: the head followed by any first payload (possibly empty) *)
  Theorem trojan_header_tcp_roundtrip : forall a payload, addr_wf a -> representable a ->
    trojan_server_decode (trojan_key P pw) THeader (trojan_client_head P pw 1 a ++ payload)
    = Ok (TTcp, [], Some (ConnectTcp payload a)).
  Proof using sha_wf sha_len. intros a payload Hwf Hrep. rewrite head_decode by assumption. reflexivity. Qed.

  (* UDP: the head followed by one packet and anything: the packet is relayed, exactly `tail` is left *)
  Theorem trojan_header_udp_roundtrip : forall a a2 pl tail, addr_wf a -> representable a ->
    addr_wf a2 -> representable a2 -> lenN pl < 65536 ->
    trojan_server_decode (trojan_key P pw) THeader (trojan_client_head P pw 3 a ++ trojan_packet_encode a2 pl ++ tail)
    = Ok (TUdp, tail, Some (RelayUdp pl a2)).
  Proof using sha_wf sha_len.
    intros a a2 pl tail Hwf Hrep Hwf2 Hrep2 Hpl. rewrite head_decode by assumption.
    change (negb ((3 =? 1) || (3 =? 2) || (3 =? 3))) with false. change (3 =? 1) with false. change (3 =? 3) with true.
    cbv iota. rewrite trojan_packet_roundtrip by assumption. reflexivity.
  Qed.

  (* UDP: the head alone: the association is set up, nothing is relayed yet *)
  Theorem trojan_header_udp_roundtrip_none : forall a, addr_wf a -> representable a ->
    trojan_server_decode (trojan_key P pw) THeader (trojan_client_head P pw 3 a) = Ok (TUdp, [], None).
  Proof using sha_wf sha_len.
    intros a Hwf Hrep. rewrite <- (app_nil_r (trojan_client_head P pw 3 a)). rewrite head_decode by assumption.
    reflexivity.
  Qed.

  (* a wrong password is refused (the hex string of another hash does not decode to the configured key) *)
  Theorem trojan_wrong_key_refused : forall key cmd a rest, addr_wf a -> representable a ->
    key <> trojan_key P pw ->
    trojan_server_decode key THeader (trojan_client_head P pw cmd a ++ rest) = Err EBadPassword.
  Proof using sha_wf sha_len.
    intros key cmd a rest Hwf Hrep Hne. rewrite head_shape. rewrite header_unfold by apply head_key_len. unfold header_body.
    pose proof (s5_try_decode_at_ok [] a (CR :: LF :: rest) Hwf Hrep) as Ht. cbn [app] in Ht. rewrite lenN_nil in Ht.
    rewrite Ht. cbn [bind].
    destruct (N.ltb_spec (lenN (s5_encode a ++ CR :: LF :: rest)) (lenN (s5_encode a) + 2)) as [Hl|_];
      [rewrite lenN_app, !lenN_cons in Hl; lia|].
    change (negb (CR =? CR)) with false. cbv iota.
    unfold trojan_key at 1. rewrite hex_decode_encode by exact sha_wf. fold (trojan_key P pw).
    destruct (bytes_eqb key (trojan_key P pw)) eqn:E; [apply bytes_eqb_true in E; contradiction|reflexivity].
  Qed.
End Head.

(* =========================== 4a. the UDP packet stream as a unit machine =========================== *)
(* A unit is one whole packet  addr | len(2) | CRLF | payload ; its size is decided by the address-type byte,
   the host-length byte (type 3) and the two length bytes.  A first byte that is not an address type is a
   1-byte unit on which `pk_step` fails (that is exactly when the decoder returns Err EBadAddrType). *)
Definition dgram := (bytes * addr)%type.

Definition pk_need (_ : unit) (c : bytes) : option nat :=
  match s5_try_decode_at c 0 with
  | Ok (Some al) => if lenN c <? al + 4 then None else Some (N.to_nat (al + 4 + be (takeN 2 (dropN al c))))
  | Ok None => None
  | Err _ => Some 1%nat
  | Panic => None
  end.
Definition pk_step (_ : unit) (u : bytes) : option (unit * list dgram) :=
  match trojan_packet u with Ok (Some (pl, a, _)) => Some (tt, [(pl, a)]) | _ => None end.

Lemma pk_need_pos s c n : pk_need s c = Some n -> (0 < n)%nat.
Proof.
  unfold pk_need. destruct (s5_try_decode_at c 0) as [[al|]|e|]; try discriminate.
  - destruct (lenN c <? al + 4); [discriminate|]. intros [= <-]. lia.
  - intros [= <-]. lia.
Qed.
Lemma pk_need_mono s c b n : pk_need s c = Some n -> pk_need s (c ++ b) = Some n.
Proof.
  unfold pk_need. destruct (s5_try_decode_at c 0) as [[al|]|e|] eqn:E; try discriminate.
  - rewrite (try_at_mono c b 0 _ E ltac:(discriminate)).
    destruct (N.ltb_spec (lenN c) (al + 4)) as [|H4]; [discriminate|]. intros H.
    rewrite lenN_app. destruct (N.ltb_spec (lenN c + lenN b) (al + 4)) as [|_]; [lia|].
    rewrite dropN_app_le by lia. rewrite takeN_app_le by (rewrite lenN_dropN; lia). exact H.
  - rewrite (try_at_mono c b 0 _ E ltac:(discriminate)). auto.
Qed.

Notation PC := (Canon.canon unit (list dgram) (@app dgram) [] pk_need pk_step).
Definition pk_run : unit -> bytes -> result unit (list dgram) := Canon.run unit (list dgram) (@app dgram) [] pk_need pk_step.
Definition pk_run_segs : unit -> bytes -> list bytes -> list dgram -> result unit (list dgram) :=
  Canon.run_segs unit (list dgram) (@app dgram) [] pk_need pk_step.

Lemma lenN_firstn (n : nat) (c : bytes) : (n <= length c)%nat -> lenN (firstn n c) = N.of_nat n.
Proof. intros H. rewrite lenN_spec, firstn_length. lia. Qed.

(* trojan_packet against the unit machine: one call of the packet decoder = one step *)
Theorem trojan_packet_is_unit : forall c,
  match pk_need tt c with
  | None => trojan_packet c = Ok None
  | Some n =>
    if (n <=? length c)%nat then
      match pk_step tt (firstn n c) with
      | Some (_, o) => exists pl ad, o = [(pl, ad)] /\ trojan_packet c = Ok (Some (pl, ad, skipn n c))
      | None => trojan_packet c = Err EBadAddrType
      end
    else trojan_packet c = Ok None
  end.
Proof.
  intros c. pose proof (trojan_packet_spec c) as S. unfold pk_need.
  destruct (s5_try_decode_at c 0) as [[al|]|e|] eqn:E.
  - destruct (N.ltb_spec (lenN c) (al + 4)) as [|H4]; [exact S|].
    set (len := be (takeN 2 (dropN al c))) in *. set (n := N.to_nat (al + 4 + len)).
    destruct (N.ltb_spec (lenN c) (al + 4 + len)) as [HL|HL].
    + assert ((n <=? length c)%nat = false) as -> by (apply Nat.leb_gt; unfold n; rewrite lenN_spec in HL; lia).
      exact S.
    + assert (Hn : (n <= length c)%nat) by (unfold n; rewrite lenN_spec in HL; lia).
      assert ((n <=? length c)%nat = true) as -> by (apply Nat.leb_le; exact Hn).
      destruct S as (ad & Hd & S).
      (* the unit alone decodes to the same datagram *)
      set (u := firstn n c). set (d := skipn n c).
      assert (Hc : c = u ++ d) by (symmetry; apply firstn_skipn).
      assert (Hu : lenN u = al + 4 + len) by (unfold u; rewrite lenN_firstn by exact Hn; unfold n; lia).
      pose proof (trojan_packet_spec u) as Su.
      assert (Eu : s5_try_decode_at u 0 = Ok (Some al)).
      { destruct (s5_try_decode_at u 0) as [[al'|]|e'|] eqn:Eu'.
        - pose proof (try_at_mono u d 0 _ Eu' ltac:(discriminate)) as Hm. rewrite <- Hc, E in Hm. symmetry. exact Hm.
        - apply try_at_none_short in Eu'. lia.
        - pose proof (try_at_mono u d 0 _ Eu' ltac:(discriminate)) as Hm. rewrite <- Hc, E in Hm. discriminate.
        - contradiction. }
      rewrite Eu in Su.
      assert (Hlen : be (takeN 2 (dropN al u)) = len).
      { unfold len. rewrite Hc. rewrite dropN_app_le by lia. rewrite takeN_app_le by (rewrite lenN_dropN; lia). reflexivity. }
      rewrite Hlen in Su.
      destruct (N.ltb_spec (lenN u) (al + 4)) as [|_]; [lia|].
      destruct (N.ltb_spec (lenN u) (al + 4 + len)) as [|_]; [lia|].
      destruct Su as (adu & Hdu & Su).
      pose proof (trojan_packet_app u d _ _ _ Su) as Sc. rewrite <- Hc, S in Sc.
      unfold pk_step. rewrite Su.
      exists (takeN len (dropN (al + 4) u)), adu. split; [reflexivity|].
      rewrite S, Sc. do 3 f_equal. rewrite dropN_all by lia. reflexivity.
  - exact S.
  - destruct S as [_ S].
    destruct c as [|t r]; [rewrite try_at_nil in E; discriminate|].
    assert ((1 <=? length (t :: r))%nat = true) as -> by (apply Nat.leb_le; cbn [length]; lia).
    cbn [firstn]. unfold pk_step.
    assert (Et : s5_try_decode_at [t] 0 = Err e).
    { unfold s5_try_decode_at in *. cbn [N.to_nat nth_error] in *.
      destruct (t =? 1); [discriminate|]. destruct (t =? 3).
      - change (N.to_nat (0 + 1)) with 1%nat in E. destruct r; cbn [nth_error] in E; discriminate.
      - exact E. }
    pose proof (trojan_packet_spec [t]) as St. rewrite Et in St. destruct St as [_ ->]. exact S.
  - contradiction.
Qed.

Lemma pk_run_nil s : pk_run s [] = Stop s [] [].
Proof. apply (Canon.run_nil unit (list dgram) (@app dgram) [] pk_need pk_step pk_need_pos). Qed.
Lemma pk_run_stable s c s' r o : pk_run s c = Stop s' r o -> pk_run s' r = Stop s' r [].
Proof. apply (Canon.run_no_whole_unit unit (list dgram) (@app dgram) [] pk_need pk_step pk_need_pos). Qed.
Lemma pk_canon_fuel f1 f2 s c : (length c < f1)%nat -> (length c < f2)%nat -> PC f1 s c = PC f2 s c.
Proof. apply (Canon.canon_fuel unit (list dgram) (@app dgram) [] pk_need pk_step pk_need_pos). Qed.
Lemma pk_run_segs_concat segs s : pk_run_segs s [] segs [] = pk_run s (concat segs).
Proof.
  apply (Canon.run_segs_concat unit (list dgram) (@app dgram) [] (@app_assoc dgram) (@app_nil_l dgram) (@app_nil_r dgram)
           pk_need pk_step pk_need_pos pk_need_mono).
Qed.

(* =========================== 4b. FramedRead around a packet-stream decoder =========================== *)
(* Generic over the decoder: any `dec` that, in state s0, behaves as "decode one trojan_packet, stay in s0".
   Instantiated below with the server decoder in state TUdp and with the client UDP decoder. *)
Section PkStream.
  Variables (St Item : Type).
  Variable dec : St -> bytes -> res (St * bytes * option Item).
  Variable s0 : St.
  Variable mk : dgram -> Item.
  Hypothesis Hdec : forall src, dec s0 src =
    let* pk := trojan_packet src in
    match pk with
    | None => Ok (s0, src, None)
    | Some (pl, pa, r) => Ok (s0, r, Some (mk (pl, pa)))
    end.

  (* FramedRead's inner loop (call decode until None) = the unit machine *)
  Lemma drain_canon : forall fuel buf acc, (length buf < fuel)%nat ->
    match PC fuel tt buf with
    | Stop _ r o => Framed.drain _ _ dec fuel s0 buf acc = (s0, r, acc ++ map mk o, Waiting)
    | Fail o => exists b', Framed.drain _ _ dec fuel s0 buf acc = (s0, b', acc ++ map mk o, Failed EBadAddrType)
    end.
  Proof using Hdec.
    induction fuel as [|f IH]; intros buf acc Hf; [lia|].
    cbn [Canon.canon Framed.drain]. rewrite Hdec.
    pose proof (trojan_packet_is_unit buf) as U.
    destruct (pk_need tt buf) as [n|] eqn:En.
    - pose proof (pk_need_pos _ _ _ En) as Hp.
      destruct (n <=? length buf)%nat eqn:Hle.
      + destruct (pk_step tt (firstn n buf)) as [[[] o]|].
        * destruct U as (pl & ad & -> & ->). cbn [bind]. apply Nat.leb_le in Hle.
          assert (Hl : (length (skipn n buf) < f)%nat) by (rewrite skipn_length; lia).
          specialize (IH (skipn n buf) (acc ++ [mk (pl, ad)]) Hl).
          destruct (PC f tt (skipn n buf)) as [s2 r2 o2|o2].
          -- rewrite IH. cbn [app map]. rewrite <- app_assoc. reflexivity.
          -- destruct IH as (b' & ->). exists b'. cbn [app map]. rewrite <- app_assoc. reflexivity.
        * rewrite U. cbn [bind]. exists buf. cbn [map]. rewrite app_nil_r. reflexivity.
      + rewrite U. cbn [bind map]. rewrite app_nil_r. reflexivity.
    - rewrite U. cbn [bind map]. rewrite app_nil_r. reflexivity.
  Qed.

  (* one poll *)
  Lemma pk_feed_canon : forall buf seg,
    match pk_run tt (buf ++ seg) with
    | Stop _ r o => Framed.feed _ _ dec s0 buf seg = (s0, r, map mk o, Waiting)
    | Fail o => exists b', Framed.feed _ _ dec s0 buf seg = (s0, b', map mk o, Failed EBadAddrType)
    end.
  Proof using Hdec.
    intros buf seg. unfold Framed.feed, pk_run, Canon.run.
    rewrite (pk_canon_fuel (S (length (buf ++ seg))) (2 + length (buf ++ seg)) tt (buf ++ seg)) by lia.
    apply (drain_canon (2 + length (buf ++ seg)) (buf ++ seg) []). lia.
  Qed.

  (* a whole run over segments *)
  Lemma pk_frun_canon : forall segs buf oacc,
    match pk_run_segs tt buf segs oacc with
    | Stop _ r o => Framed.run _ _ dec s0 buf segs (map mk oacc) = (s0, r, map mk o, Waiting)
    | Fail o => exists b', Framed.run _ _ dec s0 buf segs (map mk oacc) = (s0, b', map mk o, Failed EBadAddrType)
    end.
  Proof using Hdec.
    induction segs as [|seg t IH]; intros buf oacc.
    - reflexivity.
    - unfold pk_run_segs. cbn [Canon.run_segs Framed.run]. fold (pk_run tt (buf ++ seg)).
      pose proof (pk_feed_canon buf seg) as HF.
      destruct (pk_run tt (buf ++ seg)) as [[] r o|o].
      + rewrite HF. rewrite <- map_app. apply IH.
      + destruct HF as (b' & ->). exists b'. rewrite map_app. reflexivity.
  Qed.

  (* ---- the segmentation theorem ----
     For EVERY list of segments (segments may be empty, cuts may fall anywhere, also inside a length field):
     (a) if the unit machine stops on the concatenated stream with datagram list o3 and leftover r3, then the
         segmented run and the one-shot run both end Waiting in state s0 with leftover r3 and with the SAME LIST of
         items `map mk o3` (same payloads, same addresses, same order, same number);
     (d) no stall: polling again with nothing new yields nothing and changes nothing;
     (b) if the stream contains a byte that is not an address type where a packet must start, both runs end
         Failed EBadAddrType, and both have delivered exactly the datagrams before that point (the same list);
     (c) no other outcome: never Panicked, never Livelock, no other error. *)
  Theorem udp_segmentation_independent : forall segs,
    match Framed.run _ _ dec s0 [] segs [],
          Framed.run _ _ dec s0 [] [concat segs] [],
          pk_run tt (concat segs) with
    | (s1, buf1, items1, Waiting), (s2, buf2, items2, Waiting), Stop _ r3 o3 =>
        s1 = s0 /\ s2 = s0 /\ buf1 = r3 /\ buf2 = r3 /\ items1 = map mk o3 /\ items2 = map mk o3 /\
        Framed.feed _ _ dec s1 buf1 [] = (s1, buf1, [], Waiting)
    | (s1, buf1, items1, Failed EBadAddrType), (s2, buf2, items2, Failed EBadAddrType), Fail o3 =>
        s1 = s0 /\ s2 = s0 /\ items1 = map mk o3 /\ items2 = map mk o3
    | _, _, _ => False
    end.
  Proof using Hdec.
    intros segs.
    pose proof (pk_frun_canon segs [] []) as H1. rewrite pk_run_segs_concat in H1. cbn [map] in H1.
    pose proof (pk_feed_canon [] (concat segs)) as H2. cbn [app] in H2.
    cbn [Framed.run].
    destruct (pk_run tt (concat segs)) as [[] r3 o3|o3] eqn:E.
    - rewrite H1, H2. cbn [app]. repeat split.
      pose proof (pk_feed_canon r3 []) as H3. rewrite app_nil_r in H3.
      rewrite (pk_run_stable _ _ _ _ _ E) in H3. exact H3.
    - destruct H1 as (b1 & ->). destruct H2 as (b2 & ->). cbn [app]. repeat split.
  Qed.

  (* any two segmentations of the same byte stream deliver the same list of items *)
  Corollary udp_two_segmentations : forall segs segs', concat segs = concat segs' ->
    match Framed.run _ _ dec s0 [] segs [], Framed.run _ _ dec s0 [] segs' [] with
    | (s1, buf1, items1, st1), (s2, buf2, items2, st2) =>
        s1 = s2 /\ items1 = items2 /\ st1 = st2 /\ (st1 = Waiting \/ st1 = Failed EBadAddrType) /\
        (st1 = Waiting -> buf1 = buf2)
    end.
  Proof using Hdec.
    intros segs segs' Hc.
    pose proof (udp_segmentation_independent segs) as H. pose proof (udp_segmentation_independent segs') as H'.
    rewrite <- Hc in H'.
    destruct (Framed.run _ _ dec s0 [] segs []) as [[[s1 b1] i1] st1].
    destruct (Framed.run _ _ dec s0 [] segs' []) as [[[s1' b1'] i1'] st1'].
    destruct (Framed.run _ _ dec s0 [] [concat segs] []) as [[[s2 b2] i2] st2].
    destruct (pk_run tt (concat segs)) as [[] r3 o3|o3];
      destruct st1 as [|[]| |]; try solve [exfalso; exact H];
      destruct st1' as [|[]| |]; try solve [exfalso; exact H'];
      destruct st2 as [|[]| |]; try solve [exfalso; exact H]; try solve [exfalso; exact H'].
    - destruct H as (-> & _ & -> & _ & -> & _). destruct H' as (-> & _ & -> & _ & -> & _). auto 10.
    - destruct H as (-> & _ & -> & _). destruct H' as (-> & _ & -> & _).
      repeat split; auto. intros; discriminate.
  Qed.

  (* no Livelock / Panic from any buffer *)
  Theorem udp_no_livelock_no_panic : forall buf segs,
    let '(_, _, _, st) := Framed.run _ _ dec s0 buf segs [] in st = Waiting \/ st = Failed EBadAddrType.
  Proof using Hdec.
    intros buf segs. pose proof (pk_frun_canon segs buf []) as H. cbn [map] in H.
    destruct (pk_run_segs tt buf segs []) as [[] r o|o].
    - rewrite H. left; reflexivity.
    - destruct H as (b' & ->). right; reflexivity.
  Qed.
End PkStream.

(* =========================== 4c. valid datagram streams on the unit machine =========================== *)
Definition dg_ok (d : dgram) : Prop := addr_wf (snd d) /\ representable (snd d) /\ lenN (fst d) < 65536.
Definition enc_dg (d : dgram) : bytes := trojan_packet_encode (snd d) (fst d).

Lemma pk_run_cons d rest : dg_ok d ->
  pk_run tt (enc_dg d ++ rest) =
  match pk_run tt rest with Stop s r o => Stop s r ([d] ++ o) | Fail o => Fail ([d] ++ o) end.
Proof.
  intros (Hwf & Hrep & Hpl). destruct d as [pl a]. cbn [fst snd] in *. unfold enc_dg. cbn [fst snd].
  pose proof (trojan_packet_roundtrip a pl rest Hwf Hrep Hpl) as R.
  set (c := trojan_packet_encode a pl ++ rest) in *.
  pose proof (trojan_packet_is_unit c) as U.
  unfold pk_run at 1. unfold Canon.run. cbn [Canon.canon].
  destruct (pk_need tt c) as [n|] eqn:En; [|rewrite R in U; discriminate].
  pose proof (pk_need_pos _ _ _ En) as Hp.
  destruct (n <=? length c)%nat eqn:Hle; [|rewrite R in U; discriminate].
  destruct (pk_step tt (firstn n c)) as [[[] o]|]; [|rewrite R in U; discriminate].
  destruct U as (pl' & ad' & -> & U). rewrite R in U. injection U as <- <- Hr.
  apply Nat.leb_le in Hle.
  assert (Hlr : (length rest < length c)%nat) by (rewrite Hr, skipn_length; lia).
  rewrite <- Hr. rewrite (pk_canon_fuel (length c) (S (length rest)) tt rest) by lia.
  change (PC (S (length rest)) tt rest) with (pk_run tt rest).
  destruct (pk_run tt rest); reflexivity.
Qed.

Theorem pk_run_stream_app : forall dgs rest, Forall dg_ok dgs ->
  pk_run tt (concat (map enc_dg dgs) ++ rest) =
  match pk_run tt rest with Stop s r o => Stop s r (dgs ++ o) | Fail o => Fail (dgs ++ o) end.
Proof.
  induction dgs as [|d t IH]; intros rest H.
  - cbn [map concat app]. destruct (pk_run tt rest); reflexivity.
  - inversion H as [|d' t' Hd Ht]; subst. cbn [map concat]. rewrite <- app_assoc.
    rewrite pk_run_cons by exact Hd. rewrite (IH rest Ht).
    destruct (pk_run tt rest); reflexivity.
Qed.

Corollary pk_run_stream : forall dgs, Forall dg_ok dgs -> pk_run tt (concat (map enc_dg dgs)) = Stop tt [] dgs.
Proof.
  intros dgs H. pose proof (pk_run_stream_app dgs [] H) as R. rewrite app_nil_r, pk_run_nil in R.
  rewrite R, app_nil_r. reflexivity.
Qed.

(* =========================== 4d. the two UDP decoders =========================== *)
Definition mk_relay (d : dgram) : inbound := RelayUdp (fst d) (snd d).

Lemma server_udp_dec key : forall src, trojan_server_decode key TUdp src =
  let* pk := trojan_packet src in
  match pk with
  | None => Ok (TUdp, src, None)
  | Some (pl, pa, r) => Ok (TUdp, r, Some (mk_relay (pl, pa)))
  end.
Proof. intros src. destruct src as [|x xs]; reflexivity. Qed.

Definition client_udp_dec := lift_dec _ trojan_client_udp_decode.
Lemma client_udp_dec_ok : forall src, client_udp_dec tt src =
  let* pk := trojan_packet src in
  match pk with
  | None => Ok (tt, src, None)
  | Some (pl, pa, r) => Ok (tt, r, Some ((fun d : dgram => d) (pl, pa)))
  end.
Proof.
  intros src. unfold client_udp_dec, lift_dec, trojan_client_udp_decode. destruct src as [|x xs]; [reflexivity|].
  destruct (trojan_packet (x :: xs)) as [[[[pl pa] r]|]|e|]; reflexivity.
Qed.

(* Server, state TUdp: every segmentation yields the same list of RelayUdp items (see udp_segmentation_independent
   for the reading of the four cases); the state stays TUdp *)
Theorem trojan_server_udp_segmentation_independent : forall key segs,
  match Framed.run _ _ (trojan_server_decode key) TUdp [] segs [],
        Framed.run _ _ (trojan_server_decode key) TUdp [] [concat segs] [],
        pk_run tt (concat segs) with
  | (s1, buf1, items1, Waiting), (s2, buf2, items2, Waiting), Stop _ r3 o3 =>
      s1 = TUdp /\ s2 = TUdp /\ buf1 = r3 /\ buf2 = r3 /\ items1 = map mk_relay o3 /\ items2 = map mk_relay o3 /\
      Framed.feed _ _ (trojan_server_decode key) s1 buf1 [] = (s1, buf1, [], Waiting)
  | (s1, buf1, items1, Failed EBadAddrType), (s2, buf2, items2, Failed EBadAddrType), Fail o3 =>
      s1 = TUdp /\ s2 = TUdp /\ items1 = map mk_relay o3 /\ items2 = map mk_relay o3
  | _, _, _ => False
  end.
Proof. intros key segs. apply (udp_segmentation_independent _ _ (trojan_server_decode key) TUdp mk_relay (server_udp_dec key)). Qed.

Theorem trojan_client_udp_segmentation_independent : forall segs,
  match Framed.run _ _ client_udp_dec tt [] segs [],
        Framed.run _ _ client_udp_dec tt [] [concat segs] [],
        pk_run tt (concat segs) with
  | (s1, buf1, items1, Waiting), (s2, buf2, items2, Waiting), Stop _ r3 o3 =>
      s1 = tt /\ s2 = tt /\ buf1 = r3 /\ buf2 = r3 /\ items1 = map (fun d => d) o3 /\ items2 = map (fun d => d) o3 /\
      Framed.feed _ _ client_udp_dec s1 buf1 [] = (s1, buf1, [], Waiting)
  | (s1, buf1, items1, Failed EBadAddrType), (s2, buf2, items2, Failed EBadAddrType), Fail o3 =>
      s1 = tt /\ s2 = tt /\ items1 = map (fun d => d) o3 /\ items2 = map (fun d => d) o3
  | _, _, _ => False
  end.
Proof. intros segs. apply (udp_segmentation_independent _ _ client_udp_dec tt (fun d => d) client_udp_dec_ok). Qed.

Theorem trojan_server_udp_two_segmentations : forall key segs segs', concat segs = concat segs' ->
  match Framed.run _ _ (trojan_server_decode key) TUdp [] segs [], Framed.run _ _ (trojan_server_decode key) TUdp [] segs' [] with
  | (s1, buf1, items1, st1), (s2, buf2, items2, st2) =>
      s1 = s2 /\ items1 = items2 /\ st1 = st2 /\ (st1 = Waiting \/ st1 = Failed EBadAddrType) /\
      (st1 = Waiting -> buf1 = buf2)
  end.
Proof. intros key. apply (udp_two_segmentations _ _ (trojan_server_decode key) TUdp mk_relay (server_udp_dec key)). Qed.

Theorem trojan_client_udp_two_segmentations : forall segs segs', concat segs = concat segs' ->
  match Framed.run _ _ client_udp_dec tt [] segs [], Framed.run _ _ client_udp_dec tt [] segs' [] with
  | (s1, buf1, items1, st1), (s2, buf2, items2, st2) =>
      s1 = s2 /\ items1 = items2 /\ st1 = st2 /\ (st1 = Waiting \/ st1 = Failed EBadAddrType) /\
      (st1 = Waiting -> buf1 = buf2)
  end.
Proof. apply (udp_two_segmentations _ _ client_udp_dec tt (fun d => d) client_udp_dec_ok). Qed.

(* A stream of valid datagrams, cut anywhere: exactly those datagrams come out, in order, nothing is left, and
   (with an incomplete packet `rest` behind them that is a proper prefix of a packet) nothing is lost either *)
Theorem trojan_server_udp_stream_any_segmentation : forall key dgs segs, Forall dg_ok dgs ->
  concat segs = concat (map enc_dg dgs) ->
  Framed.run _ _ (trojan_server_decode key) TUdp [] segs [] = (TUdp, [], map mk_relay dgs, Waiting).
Proof.
  intros key dgs segs Hok Hc.
  pose proof (pk_frun_canon _ _ (trojan_server_decode key) TUdp mk_relay (server_udp_dec key) segs [] []) as H.
  rewrite pk_run_segs_concat, Hc, pk_run_stream in H by exact Hok. exact H.
Qed.

Theorem trojan_client_udp_stream_any_segmentation : forall dgs segs, Forall dg_ok dgs ->
  concat segs = concat (map enc_dg dgs) ->
  Framed.run _ _ client_udp_dec tt [] segs [] = (tt, [], dgs, Waiting).
Proof.
  intros dgs segs Hok Hc.
  pose proof (pk_frun_canon _ _ client_udp_dec tt (fun d => d) client_udp_dec_ok segs [] []) as H.
  rewrite pk_run_segs_concat, Hc, pk_run_stream in H by exact Hok. rewrite !map_id in H. exact H.
Qed.

(* =========================== 4e. TCP body: pass-through =========================== *)
Definition nonnil (b : bytes) : bool := match b with [] => false | _ => true end.
Definition tcp_payload (it : inbound) : bytes :=
  match it with RelayTcp p => p | ConnectTcp p _ => p | RelayUdp _ _ => [] end.
Definition is_relay_tcp (it : inbound) : Prop := match it with RelayTcp _ => True | _ => False end.

Lemma concat_filter_nonnil segs : concat (filter nonnil segs) = concat segs.
Proof. induction segs as [|[|x xs] t IH]; cbn [filter nonnil concat app]; [reflexivity|exact IH|rewrite IH; reflexivity]. Qed.

Lemma tcp_run key : forall segs acc,
  Framed.run _ _ (trojan_server_decode key) TTcp [] segs acc = (TTcp, [], acc ++ map RelayTcp (filter nonnil segs), Waiting).
Proof.
  induction segs as [|seg t IH]; intros acc.
  - cbn [Framed.run filter map]. rewrite app_nil_r. reflexivity.
  - cbn [Framed.run]. unfold Framed.feed. cbn [app]. destruct seg as [|x xs].
    + cbn [length Nat.add Framed.drain trojan_server_decode]. rewrite app_nil_r. cbn [filter nonnil]. apply IH.
    + cbn [length Nat.add Framed.drain trojan_server_decode app]. rewrite IH. cbn [filter nonnil map].
      rewrite <- app_assoc. reflexivity.
Qed.

(* every non-empty segment is relayed as it is; the bytes relayed are exactly the bytes received *)
Theorem trojan_tcp_passthrough : forall key segs,
  exists items, Framed.run _ _ (trojan_server_decode key) TTcp [] segs [] = (TTcp, [], items, Waiting) /\
                items = map RelayTcp (filter nonnil segs) /\
                Forall is_relay_tcp items /\ concat (map tcp_payload items) = concat segs.
Proof.
  intros key segs. exists (map RelayTcp (filter nonnil segs)). split; [apply (tcp_run key segs [])|].
  split; [reflexivity|]. split.
  - apply Forall_forall. intros it Hin. apply in_map_iff in Hin. destruct Hin as (p & <- & _). exact I.
  - rewrite map_map. cbn [tcp_payload]. rewrite map_id. apply concat_filter_nonnil.
Qed.

(* =========================== 4f. the header under FramedRead =========================== *)
Section HeadSeg.
  Variable P : prims.
  Variable pw : bytes.
  Hypothesis sha_wf : wf_bytes (p_sha224 P pw).
  Hypothesis sha_len : lenN (p_sha224 P pw) = 28.

  (* On every buffer that is a prefix of head ++ body and shorter than the head, the decoder waits and leaves the
     buffer untouched -- whatever the configured key and the command (the check of the key comes later). *)
  Theorem trojan_header_waits : forall key cmd a body p q, addr_wf a -> representable a ->
    p ++ q = trojan_client_head P pw cmd a ++ body -> lenN p < lenN (trojan_client_head P pw cmd a) ->
    trojan_server_decode key THeader p = Ok (THeader, p, None).
  Proof using sha_len.
    intros key cmd a body p q Hwf Hrep H Hl. rewrite (lenN_head P pw sha_len) in Hl.
    destruct (N.le_gt_cases (lenN p) 59) as [Hs|Hs]; [apply header_short; exact Hs|].
    rewrite head_shape in H.
    change (CR :: LF :: cmd :: s5_encode a ++ CR :: LF :: body)
      with ([CR; LF; cmd] ++ (s5_encode a ++ CR :: LF :: body)) in H.
    rewrite app_assoc in H.
    assert (H59 : lenN (hex_encode (trojan_key P pw) ++ [CR; LF; cmd]) = 59)
      by (rewrite lenN_app, (head_key_len P pw sha_len); reflexivity).
    destruct (app_split_len _ _ _ _ H ltac:(lia)) as (m & -> & Hm).
    rewrite <- app_assoc. cbn [app].
    rewrite header_unfold by apply (head_key_len P pw sha_len). unfold header_body.
    rewrite lenN_app, H59 in Hl.
    destruct (s5_prefix_undecided a m q (CR :: LF :: body) Hwf Hrep (eq_sym Hm)) as [-> | ->]; cbn [bind]; [reflexivity|].
    destruct (N.ltb_spec (lenN m) (lenN (s5_encode a) + 2)) as [_|Hc]; [reflexivity|lia].
  Qed.

  Lemma header_run_general : forall a body, addr_wf a -> representable a ->
    forall segs buf acc, lenN buf < lenN (trojan_client_head P pw 1 a) ->
    buf ++ concat segs = trojan_client_head P pw 1 a ++ body ->
    exists first relays,
      Framed.run _ _ (trojan_server_decode (trojan_key P pw)) THeader buf segs acc
      = (TTcp, [], acc ++ ConnectTcp first a :: map RelayTcp relays, Waiting) /\
      first ++ concat relays = body.
  Proof using sha_wf sha_len.
    intros a body Hwf Hrep. induction segs as [|seg t IH]; intros buf acc Hl Heq.
    - cbn [concat] in Heq. rewrite app_nil_r in Heq. subst buf. rewrite lenN_app in Hl. lia.
    - cbn [concat] in Heq. rewrite app_assoc in Heq. cbn [Framed.run]. unfold Framed.feed. cbv zeta.
      destruct (N.lt_ge_cases (lenN (buf ++ seg)) (lenN (trojan_client_head P pw 1 a))) as [Hb|Hb].
      + cbn [Nat.add Framed.drain].
        rewrite (trojan_header_waits (trojan_key P pw) 1 a body (buf ++ seg) (concat t) Hwf Hrep Heq Hb).
        rewrite app_nil_r. apply IH; assumption.
      + destruct (app_split_len _ _ _ _ Heq Hb) as (first & Hf & Hbody). rewrite Hf.
        cbn [Nat.add Framed.drain].
        rewrite (trojan_header_tcp_roundtrip P pw sha_wf sha_len a first Hwf Hrep).
        cbn [trojan_server_decode app]. rewrite tcp_run.
        exists first, (filter nonnil t). split; [rewrite <- app_assoc; reflexivity|].
        rewrite concat_filter_nonnil. symmetry. exact Hbody.
  Qed.

  (* Full statement: the valid TCP request stream head(cmd = 1, a) ++ body, cut into segments in ANY way
     (also inside the hash, between CR and LF, inside the address; segments may be empty):
     exactly one ConnectTcp for the requested address, then only RelayTcp items, the payloads concatenated are
     exactly the body, final state TTcp, nothing buffered, never an error/panic/livelock. *)
  Theorem trojan_header_segmentation : forall a body segs, addr_wf a -> representable a ->
    concat segs = trojan_client_head P pw 1 a ++ body ->
    exists first relays,
      Framed.run _ _ (trojan_server_decode (trojan_key P pw)) THeader [] segs []
      = (TTcp, [], ConnectTcp first a :: map RelayTcp relays, Waiting) /\
      first ++ concat relays = body.
  Proof using sha_wf sha_len.
    intros a body segs Hwf Hrep H.
    apply (header_run_general a body Hwf Hrep segs [] []); [|exact H].
    rewrite (lenN_head P pw sha_len). rewrite lenN_nil. lia.
  Qed.

  (* the same with the bytes only *)
  Corollary trojan_header_segmentation_bytes : forall a body segs, addr_wf a -> representable a ->
    concat segs = trojan_client_head P pw 1 a ++ body ->
    exists items, Framed.run _ _ (trojan_server_decode (trojan_key P pw)) THeader [] segs [] = (TTcp, [], items, Waiting) /\
                  concat (map tcp_payload items) = body.
  Proof using sha_wf sha_len.
    intros a body segs Hwf Hrep H.
    destruct (trojan_header_segmentation a body segs Hwf Hrep H) as (first & relays & -> & Hb).
    eexists. split; [reflexivity|]. cbn [map tcp_payload concat]. rewrite map_map. cbn [tcp_payload]. rewrite map_id. exact Hb.
  Qed.
End HeadSeg.

(* =========================== concrete checks (dummy primitives) =========================== *)
Definition dummy_prims : prims :=
  {| p_seal := fun _ _ _ _ m => m; p_open := fun _ _ _ _ c => Some c; p_hkdf_sha1 := fun _ _ _ _ => [];
     p_b3derive := fun _ _ => []; p_b3hash := fun _ => []; p_aes_enc := fun _ b => b; p_aes_dec := fun _ b => b;
     p_md5 := fun _ => []; p_sha224 := fun _ => repeat 171 28; p_sha256 := fun _ => [];
     p_shake128 := fun _ _ => []; p_crc32 := fun _ => 0 |}.
Definition ex_addr : addr := ADom [97; 46; 98] 443.
Definition ex_head1 : bytes := trojan_client_head dummy_prims [1; 2] 1 ex_addr.

(* the header alone (empty first payload) already yields ConnectTcp [] a *)
Example ex_header_alone :
  trojan_server_decode (trojan_key dummy_prims [1; 2]) THeader ex_head1 = Ok (TTcp, [], Some (ConnectTcp [] ex_addr)).
Proof. vm_compute. reflexivity. Qed.
Example ex_header_prefix :
  trojan_server_decode (trojan_key dummy_prims [1; 2]) THeader (takeN 63 ex_head1) = Ok (THeader, takeN 63 ex_head1, None).
Proof. vm_compute. reflexivity. Qed.
Example ex_header_wrong_key :
  trojan_server_decode (repeat 170 28) THeader ex_head1 = Err EBadPassword.
Proof. vm_compute. reflexivity. Qed.
Example ex_header_segs :
  Framed.run _ _ (trojan_server_decode (trojan_key dummy_prims [1; 2])) THeader []
    [takeN 30 ex_head1; []; dropN 30 (takeN 57 ex_head1); dropN 57 ex_head1 ++ [7]; [8; 9]; []] []
  = (TTcp, [], [ConnectTcp [7] ex_addr; RelayTcp [8; 9]], Waiting).
Proof. vm_compute. reflexivity. Qed.
Example ex_udp_segs :
  let s := trojan_packet_encode ex_addr [1; 2; 3] ++ trojan_packet_encode (AV4 [10; 0; 0; 1] 53) [] ++ [1; 10] in
  Framed.run _ _ (trojan_server_decode []) TUdp [] [takeN 5 s; dropN 5 (takeN 9 s); dropN 9 s] []
  = (TUdp, [1; 10], [RelayUdp [1; 2; 3] ex_addr; RelayUdp [] (AV4 [10; 0; 0; 1] 53)], Waiting).
Proof. vm_compute. reflexivity. Qed.
Example ex_udp_bad_type :
  let s := trojan_packet_encode ex_addr [1; 2; 3] ++ [9; 9; 9] in
  Framed.run _ _ (trojan_server_decode []) TUdp [] [takeN 5 s; dropN 5 s] []
  = (TUdp, [9; 9; 9], [RelayUdp [1; 2; 3] ex_addr], Failed EBadAddrType).
Proof. vm_compute. reflexivity. Qed.
(* the byte after CR is not compared with LF *)
Example ex_header_no_lf_check :
  trojan_server_decode (trojan_key dummy_prims [1; 2]) THeader
    (hex_encode (trojan_key dummy_prims [1; 2]) ++ [CR; 0] ++ [1] ++ s5_encode ex_addr ++ [0; 0])
  = Ok (TTcp, [], Some (ConnectTcp [] ex_addr)).
Proof. vm_compute. reflexivity. Qed.

Print Assumptions hex_decode_encode.
Print Assumptions hex_decode_length.
Print Assumptions hex_decode_inj.
Print Assumptions trojan_packet_total.
Print Assumptions trojan_server_decode_total.
Print Assumptions trojan_client_udp_decode_total.
Print Assumptions trojan_packet_errors.
Print Assumptions trojan_server_decode_errors.
Print Assumptions trojan_requires_hash_strong.
Print Assumptions trojan_requires_hash.
Print Assumptions trojan_requires_hash_len.
Print Assumptions trojan_packet_roundtrip.
Print Assumptions trojan_packet_app.
Print Assumptions trojan_header_tcp_roundtrip.
Print Assumptions trojan_header_udp_roundtrip.
Print Assumptions trojan_header_udp_roundtrip_none.
Print Assumptions trojan_wrong_key_refused.
Print Assumptions trojan_packet_is_unit.
Print Assumptions udp_segmentation_independent.
Print Assumptions udp_two_segmentations.
Print Assumptions udp_no_livelock_no_panic.
Print Assumptions pk_run_stream_app.
Print Assumptions trojan_server_udp_segmentation_independent.
Print Assumptions trojan_client_udp_segmentation_independent.
Print Assumptions trojan_server_udp_two_segmentations.
Print Assumptions trojan_client_udp_two_segmentations.
Print Assumptions trojan_server_udp_stream_any_segmentation.
Print Assumptions trojan_client_udp_stream_any_segmentation.
Print Assumptions trojan_tcp_passthrough.
Print Assumptions trojan_header_waits.
Print Assumptions trojan_header_segmentation.
Print Assumptions trojan_header_segmentation_bytes.
