(* Shared lemmas for Proofs/Socks5Facts.v and Proofs/TrojanFacts.v:
   cursor operations on concrete cons cells, takeN/dropN over ++, and the facts about the SOCKS5-style
   address codec that every decoder built on it needs:
     try_at_shift      try_decode_at at offset k = try_decode_at at offset 0 of the buffer without its first k bytes
     try_at_mono       a decided answer (a length, or the bad-type error) never changes when more bytes arrive
     try_at_cases      the only answers are: undecided / a length >= 4 / Err EBadAddrType
     s5_decode_of_need once try_decode_at says n and n bytes are there, decode succeeds and consumes exactly n
     s5_decode_app     a successful decode is unchanged by appended bytes (they are appended to the remainder)
     s5_prefix_undecided   on a proper prefix of a valid encoding try_decode_at is undecided or says more than is there
   and a generic FramedRead fact for decoders of ONE handshake message (one_message_any_segmentation). *)
From Coq Require Import NArith List Lia Bool Arith ZArith ZifyBool ZifyN ZifyNat.
From Octo Require Import Base.Bytes Model.Address Proofs.AddressFacts Lib.Framed.
Import ListNotations.
Open Scope N_scope.

(* ---------------- cursor operations on explicit cells ---------------- *)
Lemma Ok_Some_inj {A} (a b : A) : @Ok (option A) (Some a) = Ok (Some b) -> a = b.
Proof. intros H. congruence. Qed.
Lemma index_0 x t : index (x :: t) 0 = Ok x. Proof. reflexivity. Qed.
Lemma index_1 x y t : index (x :: y :: t) 1 = Ok y. Proof. reflexivity. Qed.
Lemma index_2 x y z t : index (x :: y :: z :: t) 2 = Ok z. Proof. reflexivity. Qed.
Lemma index_at pre x t : index (pre ++ x :: t) (lenN pre) = Ok x.
Proof. unfold index. rewrite nth_error_at. reflexivity. Qed.
Lemma index_ok b i : i < lenN b -> exists x, index b i = Ok x.
Proof.
  intros H. unfold index. destruct (nth_error b (N.to_nat i)) as [x|] eqn:E; [eauto|].
  apply nth_error_None in E. rewrite lenN_spec in H. lia.
Qed.
Lemma index_total b i : index b i <> Panic -> i < lenN b.
Proof.
  unfold index. destruct (nth_error b (N.to_nat i)) as [x|] eqn:E; [|intros H; contradiction H; reflexivity].
  intros _. assert (nth_error b (N.to_nat i) <> None) as H by (rewrite E; discriminate).
  apply nth_error_Some in H. rewrite lenN_spec. lia.
Qed.

Lemma advance_2_cons (a b : N) t : advance 2 (a :: b :: t) = Ok t.
Proof. rewrite advance_ok by (rewrite !lenN_cons; lia). reflexivity. Qed.
Lemma advance_3_cons (a b c : N) t : advance 3 (a :: b :: c :: t) = Ok t.
Proof. rewrite advance_ok by (rewrite !lenN_cons; lia). reflexivity. Qed.

(* ---------------- takeN / dropN ---------------- *)
Lemma takeN_app_le n a b : n <= lenN a -> takeN n (a ++ b) = takeN n a.
Proof.
  intros H. unfold takeN. rewrite firstn_app. rewrite lenN_spec in H.
  replace (N.to_nat n - length a)%nat with 0%nat by lia. cbn [firstn]. apply app_nil_r.
Qed.
Lemma dropN_app_le n a b : n <= lenN a -> dropN n (a ++ b) = dropN n a ++ b.
Proof.
  intros H. unfold dropN. rewrite skipn_app. rewrite lenN_spec in H.
  replace (N.to_nat n - length a)%nat with 0%nat by lia. reflexivity.
Qed.
Lemma dropN_all n a : lenN a <= n -> dropN n a = [].
Proof. intros H. unfold dropN. apply skipn_all2. rewrite lenN_spec in H. lia. Qed.
Lemma takeN_all n a : lenN a <= n -> takeN n a = a.
Proof. intros H. unfold takeN. apply firstn_all2. rewrite lenN_spec in H. lia. Qed.
Lemma skipn_skipn_nat {A} (n m : nat) (l : list A) : skipn n (skipn m l) = skipn (m + n) l.
Proof.
  revert l; induction m as [|m IH]; intro l; [reflexivity|].
  destruct l as [|x t]; [destruct n; reflexivity|]. cbn [skipn Nat.add]. apply IH.
Qed.
Lemma dropN_dropN n m a : dropN n (dropN m a) = dropN (m + n) a.
Proof. unfold dropN. rewrite skipn_skipn_nat. f_equal. lia. Qed.
Lemma dropN_cons k (t : N) r : dropN (1 + k) (t :: r) = dropN k r.
Proof. unfold dropN. replace (N.to_nat (1 + k)) with (S (N.to_nat k)) by lia. reflexivity. Qed.
Lemma dropN_0 (a : bytes) : dropN 0 a = a. Proof. reflexivity. Qed.
Lemma lenN_0_nil (a : bytes) : lenN a = 0 -> a = [].
Proof. destruct a as [|x t]; [reflexivity|]. rewrite lenN_cons. lia. Qed.
Lemma lenN_pos_cons (a : bytes) : 0 < lenN a -> exists x t, a = x :: t.
Proof. destruct a as [|x t]; [rewrite lenN_nil; lia|eauto]. Qed.

Lemma split_at n (src : bytes) : n <= lenN src -> exists a b, src = a ++ b /\ lenN a = n.
Proof. intros H. exists (takeN n src), (dropN n src). split; [symmetry; apply take_drop|apply lenN_takeN; exact H]. Qed.

(* p ++ q = x ++ y and x is not longer than p: p starts with x *)
Lemma app_split_len (x y p q : bytes) : p ++ q = x ++ y -> lenN x <= lenN p -> exists m, p = x ++ m /\ y = m ++ q.
Proof.
  revert p; induction x as [|a x IH]; intros p H L.
  - exists p. split; [reflexivity|]. symmetry. exact H.
  - destruct p as [|a' p]; [rewrite lenN_cons, lenN_nil in L; lia|].
    cbn [app] in H. injection H as -> H. rewrite !lenN_cons in L.
    destruct (IH p H ltac:(lia)) as (m & -> & ->). exists m. split; reflexivity.
Qed.

Lemma split_to_app_le n a b : n <= lenN a -> split_to n (a ++ b) = Ok (takeN n a, dropN n a ++ b).
Proof.
  intros H. rewrite split_to_ok by (rewrite lenN_app; lia).
  rewrite takeN_app_le, dropN_app_le by exact H. reflexivity.
Qed.
Lemma get_u16_app_le a b : 2 <= lenN a -> get_u16 (a ++ b) = Ok (be (takeN 2 a), dropN 2 a ++ b).
Proof. intros H. unfold get_u16, get_be. rewrite split_to_app_le by exact H. reflexivity. Qed.
Lemma get_u16_ok a : 2 <= lenN a -> get_u16 a = Ok (be (takeN 2 a), dropN 2 a).
Proof. intros H. unfold get_u16. apply get_be_ok. exact H. Qed.

(* ---------------- try_decode_at ---------------- *)
Lemma nth_error_skipn_nat {A} (n k : nat) (l : list A) : nth_error (skipn n l) k = nth_error l (n + k).
Proof.
  revert l; induction n as [|n IH]; intro l; [reflexivity|].
  destruct l as [|x t]; [destruct k; reflexivity|]. cbn [skipn Nat.add nth_error]. apply IH.
Qed.

Lemma try_at_shift src k : s5_try_decode_at src k = s5_try_decode_at (dropN k src) 0.
Proof.
  unfold s5_try_decode_at, dropN. rewrite !nth_error_skipn_nat.
  replace (N.to_nat k + N.to_nat 0)%nat with (N.to_nat k) by lia.
  replace (N.to_nat k + N.to_nat (0 + 1))%nat with (N.to_nat (k + 1)) by lia. reflexivity.
Qed.

Lemma try_at_app_exact pre r : s5_try_decode_at (pre ++ r) (lenN pre) = s5_try_decode_at r 0.
Proof. rewrite try_at_shift, dropN_app_exact. reflexivity. Qed.

Lemma nth_error_app_some {A} (p q : list A) k x : nth_error p k = Some x -> nth_error (p ++ q) k = Some x.
Proof.
  intros H. rewrite nth_error_app1; [exact H|]. apply nth_error_Some. rewrite H. discriminate.
Qed.

(* a decided answer is stable under arrival of more bytes *)
Lemma try_at_mono p q k r : s5_try_decode_at p k = r -> r <> Ok None -> s5_try_decode_at (p ++ q) k = r.
Proof.
  unfold s5_try_decode_at. intros H Hr.
  destruct (nth_error p (N.to_nat k)) as [t|] eqn:E0; [|congruence].
  rewrite (nth_error_app_some p q _ _ E0).
  destruct (t =? 1); [exact H|]. destruct (t =? 3); [|exact H].
  destruct (nth_error p (N.to_nat (k + 1))) as [l|] eqn:E1; [|congruence].
  rewrite (nth_error_app_some p q _ _ E1). exact H.
Qed.

Lemma try_at_cases c k :
  s5_try_decode_at c k = Ok None \/ (exists n, 4 <= n /\ s5_try_decode_at c k = Ok (Some n)) \/
  s5_try_decode_at c k = Err EBadAddrType.
Proof.
  unfold s5_try_decode_at. destruct (nth_error c (N.to_nat k)) as [t|]; [|left; reflexivity].
  destruct (t =? 1); [right; left; exists (1 + 4 + 2); split; [lia|reflexivity]|].
  destruct (t =? 3).
  - destruct (nth_error c (N.to_nat (k + 1))) as [l|]; [|left; reflexivity].
    right; left; exists (1 + 1 + l + 2); split; [lia|reflexivity].
  - destruct (t =? 4); [right; left; exists (1 + 8 * 2 + 2); split; [lia|reflexivity]|right; right; reflexivity].
Qed.

Lemma try_at_some_ge4 c k n : s5_try_decode_at c k = Ok (Some n) -> 4 <= n.
Proof.
  intros H. destruct (try_at_cases c k) as [E|[(m & Hm & E)|E]]; rewrite E in H; try discriminate.
  apply Ok_Some_inj in H. subst n. exact Hm.
Qed.
Lemma try_at_err c k e : s5_try_decode_at c k = Err e -> e = EBadAddrType.
Proof.
  intros H. destruct (try_at_cases c k) as [E|[(m & Hm & E)|E]]; rewrite E in H; try discriminate.
  injection H as <-. reflexivity.
Qed.

(* undecided only while fewer than 2 bytes are there *)
Lemma try_at_none_short c : s5_try_decode_at c 0 = Ok None -> lenN c < 2.
Proof.
  unfold s5_try_decode_at. destruct c as [|t [|l r]]; try (intros _; rewrite ?lenN_cons, ?lenN_nil; lia).
  cbn [N.to_nat nth_error]. change (N.to_nat (0 + 1)) with 1%nat. cbn [nth_error].
  destruct (t =? 1); [discriminate|]. destruct (t =? 3); [discriminate|]. destruct (t =? 4); discriminate.
Qed.
Lemma try_at_nil k : s5_try_decode_at [] k = Ok None.
Proof. unfold s5_try_decode_at. destruct (N.to_nat k); reflexivity. Qed.
Lemma try_at_short c k : lenN c <= k -> s5_try_decode_at c k = Ok None.
Proof.
  intros H. unfold s5_try_decode_at.
  assert (nth_error c (N.to_nat k) = None) as -> by (apply nth_error_None; rewrite lenN_spec in H; lia).
  reflexivity.
Qed.

(* ---------------- decode ---------------- *)
Theorem s5_decode_of_need c n : s5_try_decode_at c 0 = Ok (Some n) -> n <= lenN c ->
  exists a, s5_decode c = Ok (a, dropN n c).
Proof.
  intros H Hn. unfold s5_decode. rewrite H. cbn [bind].
  destruct (N.ltb_spec (lenN c) n) as [|_]; [lia|].
  unfold s5_try_decode_at in H. destruct c as [|t r]; [discriminate|].
  cbn [N.to_nat nth_error] in H. rewrite get_u8_cons. cbn [bind]. rewrite lenN_cons in Hn.
  destruct (t =? 1) eqn:E1; [|destruct (t =? 3) eqn:E3; [|destruct (t =? 4) eqn:E4]].
  - apply Ok_Some_inj in H. subst n.
    rewrite split_to_ok by lia. cbn [bind]. rewrite get_u16_ok by (rewrite lenN_dropN; lia). cbn [bind].
    eexists. do 2 f_equal. change (1 + 4 + 2) with (1 + 6). rewrite dropN_cons, dropN_dropN. reflexivity.
  - change (N.to_nat (0 + 1)) with 1%nat in H. destruct r as [|l r']; cbn [nth_error] in H; [discriminate|].
    apply Ok_Some_inj in H. subst n. rewrite get_u8_cons. cbn [bind]. rewrite lenN_cons in Hn.
    rewrite split_to_ok by lia. cbn [bind]. rewrite get_u16_ok by (rewrite lenN_dropN; lia). cbn [bind].
    eexists. do 2 f_equal. replace (1 + 1 + l + 2) with (1 + (1 + (l + 2))) by lia.
    rewrite !dropN_cons, dropN_dropN. reflexivity.
  - apply Ok_Some_inj in H. subst n.
    rewrite split_to_ok by lia. cbn [bind]. rewrite get_u16_ok by (rewrite lenN_dropN; lia). cbn [bind].
    eexists. do 2 f_equal. change (1 + 8 * 2 + 2) with (1 + 18). rewrite dropN_cons, dropN_dropN. reflexivity.
  - discriminate.
Qed.

(* the converse: a successful decode consumed exactly what try_decode_at announced *)
Theorem s5_decode_ok_inv c a r : s5_decode c = Ok (a, r) ->
  exists n, s5_try_decode_at c 0 = Ok (Some n) /\ n <= lenN c /\ r = dropN n c.
Proof.
  intros H. pose proof H as H0. unfold s5_decode in H.
  destruct (s5_try_decode_at c 0) as [[n|]|e|] eqn:E; cbn [bind] in H; try discriminate.
  destruct (N.ltb_spec (lenN c) n) as [|Hn]; [discriminate|].
  exists n. split; [reflexivity|]. split; [exact Hn|].
  destruct (s5_decode_of_need c n E Hn) as (a' & E'). rewrite E' in H0. injection H0 as _ <-. reflexivity.
Qed.

Theorem s5_decode_err c e : s5_decode c = Err e -> e = EShort \/ e = EBadAddrType.
Proof.
  intros H. unfold s5_decode in H.
  destruct (s5_try_decode_at c 0) as [[n|]|e'|] eqn:E; cbn [bind] in H; try discriminate.
  - destruct (N.ltb_spec (lenN c) n) as [|Hn]; [injection H as <-; left; reflexivity|].
    destruct (s5_decode_of_need c n E Hn) as (a' & E'). unfold s5_decode in E'. rewrite E in E'. cbn [bind] in E'.
    destruct (N.ltb_spec (lenN c) n) as [|_]; [lia|]. rewrite E' in H. discriminate.
  - injection H as <-. left; reflexivity.
  - injection H as <-. right. eapply try_at_err. exact E.
Qed.

Theorem s5_decode_app c b a r : s5_decode c = Ok (a, r) -> s5_decode (c ++ b) = Ok (a, r ++ b).
Proof.
  intros H. unfold s5_decode in *.
  destruct (s5_try_decode_at c 0) as [[n|]|e|] eqn:E; cbn [bind] in H; try discriminate.
  rewrite (try_at_mono c b 0 _ E) by discriminate. cbn [bind].
  destruct (N.ltb_spec (lenN c) n) as [|Hn]; [discriminate|].
  rewrite lenN_app. destruct (N.ltb_spec (lenN c + lenN b) n) as [|_]; [lia|].
  unfold s5_try_decode_at in E. destruct c as [|t r0]; [discriminate|].
  cbn [N.to_nat nth_error] in E. cbn [app]. rewrite get_u8_cons in *. cbn [bind] in *. rewrite lenN_cons in Hn.
  destruct (t =? 1) eqn:E1; [|destruct (t =? 3) eqn:E3].
  - apply Ok_Some_inj in E. subst n.
    rewrite split_to_app_le by lia. rewrite split_to_ok in H by lia. cbn [bind] in *.
    rewrite get_u16_app_le by (rewrite lenN_dropN; lia). rewrite get_u16_ok in H by (rewrite lenN_dropN; lia).
    cbn [bind] in *. injection H as <- <-. reflexivity.
  - change (N.to_nat (0 + 1)) with 1%nat in E. destruct r0 as [|l r']; cbn [nth_error] in E; [discriminate|].
    apply Ok_Some_inj in E. subst n. cbn [app]. rewrite get_u8_cons in *. cbn [bind] in *. rewrite lenN_cons in Hn.
    rewrite split_to_app_le by lia. rewrite split_to_ok in H by lia. cbn [bind] in *.
    rewrite get_u16_app_le by (rewrite lenN_dropN; lia). rewrite get_u16_ok in H by (rewrite lenN_dropN; lia).
    cbn [bind] in *. injection H as <- <-. reflexivity.
  - destruct (t =? 4) eqn:E4; [|discriminate]. apply Ok_Some_inj in E. subst n.
    rewrite split_to_app_le by lia. rewrite split_to_ok in H by lia. cbn [bind] in *.
    rewrite get_u16_app_le by (rewrite lenN_dropN; lia). rewrite get_u16_ok in H by (rewrite lenN_dropN; lia).
    cbn [bind] in *. injection H as <- <-. reflexivity.
Qed.

(* the encoding of a representable well-formed address has at least 5 bytes *)
Lemma s5_encode_len_ge5 a : addr_wf a -> representable a -> 5 <= lenN (s5_encode a).
Proof. intros Hwf Hrep. rewrite s5_length_ok. destruct a; cbn [addr_wf representable] in *; lia. Qed.

(* on a proper prefix p of (encoding ++ anything): undecided, or the announced length is the full one *)
Theorem s5_prefix_undecided a p q tail : addr_wf a -> representable a -> p ++ q = s5_encode a ++ tail ->
  s5_try_decode_at p 0 = Ok None \/ s5_try_decode_at p 0 = Ok (Some (lenN (s5_encode a))).
Proof.
  intros Hwf Hrep Hpq.
  pose proof (s5_try_decode_at_ok [] a tail Hwf Hrep) as Hfull. cbn [app] in Hfull. rewrite lenN_nil in Hfull.
  destruct (s5_try_decode_at p 0) as [[n|]|e|] eqn:E.
  - right. pose proof (try_at_mono p q 0 _ E ltac:(discriminate)) as Hm. rewrite Hpq, Hfull in Hm. symmetry; exact Hm.
  - left; reflexivity.
  - exfalso. pose proof (try_at_mono p q 0 _ E ltac:(discriminate)) as Hm. rewrite Hpq, Hfull in Hm. discriminate.
  - exfalso. eapply s5_try_decode_at_total. exact E.
Qed.

(* ---------------- FramedRead around a decoder of one handshake message ---------------- *)
Section OneMessage.
  Variable Item : Type.
  Variable D : bytes -> res (bytes * option Item).
  (* the codec has no state of its own *)
  Definition lift_dec (_ : unit) (src : bytes) : res (unit * bytes * option Item) :=
    let* (r, it) := D src in Ok (tt, r, it).

  Variables (msg : bytes) (it : Item).
  Hypothesis D_nil : D [] = Ok ([], None).
  (* waits (consuming nothing) on every proper prefix of the message *)
  Hypothesis D_wait : forall p q, p ++ q = msg -> q <> [] -> D p = Ok (p, None).
  (* the complete message is decoded and consumed *)
  Hypothesis D_whole : D msg = Ok ([], Some it).
  Hypothesis msg_nonempty : msg <> [].

  Lemma run_empty_segs : forall segs acc, concat segs = [] ->
    Framed.run _ _ lift_dec tt [] segs acc = (tt, [], acc, Waiting).
  Proof using D_nil.
    induction segs as [|seg t IH]; intros acc H; [reflexivity|].
    cbn [concat] in H. apply app_eq_nil in H. destruct H as [-> Ht].
    cbn [Framed.run]. unfold Framed.feed. cbn [app length Nat.add Framed.drain]. unfold lift_dec at 1.
    rewrite D_nil. cbn [bind]. rewrite app_nil_r. apply IH. exact Ht.
  Qed.

  Lemma one_message_general : forall segs buf acc, buf ++ concat segs = msg -> buf <> msg ->
    Framed.run _ _ lift_dec tt buf segs acc = (tt, [], acc ++ [it], Waiting).
  Proof using D_nil D_wait D_whole.
    induction segs as [|seg t IH]; intros buf acc H Hne.
    - cbn [concat] in H. rewrite app_nil_r in H. contradiction.
    - cbn [concat] in H. rewrite app_assoc in H. cbn [Framed.run]. unfold Framed.feed.
      destruct (concat t) as [|y ys] eqn:Et.
      + rewrite app_nil_r in H. rewrite H.
        change (2 + length msg)%nat with (S (S (length msg))). cbn [Framed.drain].
        unfold lift_dec at 1. rewrite D_whole. cbn [bind]. unfold lift_dec at 1. rewrite D_nil. cbn [bind app].
        apply run_empty_segs. exact Et.
      + change (2 + length (buf ++ seg))%nat with (S (S (length (buf ++ seg)))). cbn [Framed.drain].
        unfold lift_dec at 1. rewrite (D_wait (buf ++ seg) (y :: ys) H ltac:(discriminate)). cbn [bind].
        rewrite app_nil_r. apply IH.
        * try rewrite Et; exact H.
        * intros Heq. rewrite Heq in H. rewrite <- (app_nil_r msg) in H at 2. apply app_inv_head in H. discriminate.
  Qed.

  (* every segmentation of the message (segments may be empty) yields exactly the one item, nothing is left,
     FramedRead is waiting for the next message; never an error / panic / livelock *)
  Theorem one_message_any_segmentation : forall segs, concat segs = msg ->
    Framed.run _ _ lift_dec tt [] segs [] = (tt, [], [it], Waiting).
  Proof using D_nil D_wait D_whole msg_nonempty.
    intros segs H. apply (one_message_general segs [] []); [exact H|]. intros E. apply msg_nonempty. symmetry. exact E.
  Qed.
End OneMessage.

Print Assumptions s5_decode_of_need.
Print Assumptions s5_decode_app.
Print Assumptions s5_prefix_undecided.
Print Assumptions one_message_any_segmentation.
