(* VMess AEAD RESPONSE header (client side) under tampering: properties C05 and C10.
   Proofs/VmessTamper.v covers the sealed REQUEST header and the body of both directions; this file carries the same
   statements to the response header of Model/Vmess.v `client_vdecode` exactly as it is, and composes them with
   vm_released_is_prefix into a statement about the WHOLE response direction.

   The response header is two AES-128-GCM units with EMPTY associated data under FIXED (key, nonce) pairs derived from
   the response body key / iv, which are SHA-256 of the request body key / iv (resp_key / resp_iv):
       length unit    key resp_len_key s = kdf16 (resp_key s) ["AEAD Resp Header Len Key"], nonce resp_len_iv s
       payload unit   key resp_pay_key s = kdf16 (resp_key s) ["AEAD Resp Header Key"],     nonce resp_pay_iv s
   and the client requires the first plaintext byte of the payload unit to be the response authentication byte vs_v s.

   THE SYMBOLIC HYPOTHESES (premises on p_open of the parameter record, restricted to the keys of THIS session):
     vm_resp_forge_free P s T     forall k n ct m, In (k, n) (vm_resp_kns P s) -> p_open P 0 k n [] ct = Some m ->
                                  In (k, n, [], m, ct) T:  under the two (key, nonce) pairs of the response header of
                                  session s (and only those; only the nonce and associated data the decoder uses) a
                                  ciphertext opens only if a holder of the key sealed it there; T = the table of
                                  everything sealed (key, nonce, associated data, plaintext, ciphertext).  Only the
                                  client and the server that opened THIS request can derive the keys.
     vm_resp_separate_from P s T' no unit of T' carries one of the two (key, nonce) pairs of session s: KEY SEPARATION,
                                  an inequality of derived keys.  T' = what was sealed under OTHER keys (another
                                  session's response header, the client's own request, the bodies): with it the
                                  forge-freeness hypothesis is stated over the table of EVERYTHING sealed,
                                  vm_resp_units P h s ++ T', and does not presuppose that foreign units are refused.
     vm_resp_keys_separate        the four inequalities between the response-header (key, nonce) pairs of two sessions.
   LAWS: vm_lens P (open_len) only; vm_laws_on P [] (seal_len, open_len) where the length of a foreign header matters.
   No theorem with a forge-freeness premise assumes prim_laws.  Part 3 (a malicious HOLDER of the keys) has no
   forge-freeness premise and assumes prim_laws.

   STATEMENTS
   1.  vm_resp_header_accept_is_honest   client leaves None on ANY bytes -> both sealed blocks at the front of the input
                                         are units of T under this session's pairs, the opened header starts with vs_v s
       vm_resp_header_accept_is_own      T = the honest server's two units ++ foreign units under other keys:
                                         src = resp_header P h s ++ out and the call IS the body call on out
       client_init_shape                 every call from None: wait (< 38 bytes) | Err EAead | own header then body
       vm_resp_header_tampered_refused   ~ lprefix (resp_header P h s) src -> Err EAead or still waiting, state None
       vm_resp_header_tampered_rejected  38 <= lenN src, takeN 38 src <> resp_header P h s -> Err EAead
       vm_resp_header_tampered_refused_general   the `not In` form for an arbitrary table
       vm_resp_from_other_session_refused   a genuine response to ANOTHER request (other derived keys) -> Err EAead
       vm_resp_reflected_request_refused    the client's own request bytes fed back -> Err EAead
   2.  vm_response_released_is_prefix    ANY bytes, ANY segmentation, from (None, []) under FramedRead: released bytes are
                                         a prefix of what the honest server wrote for THIS session; Waiting or Failed EAead
       vm_response_nothing_after_failure, vm_response_reflection_released_is_prefix (both body keys in one table)
       vm_response_first_datagram_is_honest  (UDP command) the datagram released with the header is honest unit 0
   3.  vm_resp_malformed_header_refused  sealed under the HONEST keys, header empty or with another first byte: Err EBadAuth
       vm_resp_truncated_header_waits    fewer bytes than the sealed length announces: wait, nothing released
       REFUTED: vm_resp_short_header_refused_refuted -- a header of ONE byte [vs_v s] (or any vs_v s :: t: option and
       command bytes are never looked at) sealed under the honest keys IS accepted (`header_bytes.first()` is the only check).
   4.  Module VmessRespTamperExamples: an ideal table-lookup opener instantiating every premise, and computed attacks
       with the tag-checking toy AEAD (every bit of the 38 header bytes, another session, the reflected request). *)
From Coq Require Import List NArith ZArith Lia Bool Arith ZifyBool ZifyN ZifyNat.
From Octo Require Import Base.Bytes Crypto.Prims Model.NonceGen Model.Utf8 Model.Address Model.SsTcp Model.Vmess
                         Lib.Framed Lib.Canon Proofs.NonceFacts Proofs.AddressFacts Proofs.VmessSafety Proofs.VmessFacts
                         Proofs.VmessRoundtrip Proofs.VmessTamper Proofs.VmessStream.
From Octo Require Proofs.SsChunkTamper.      (* only for the generic run_stops_after_failure *)
Import ListNotations.
Open Scope N_scope.
Set Warnings "-abstract-large-number".

(* ------------------------------------------------------------------------------------------------ *)
(* generic FramedRead facts                                                                          *)
(* ------------------------------------------------------------------------------------------------ *)
Lemma drain_S {St Item} (dec : St -> bytes -> res (St * bytes * option Item)) f s buf acc :
  Framed.drain St Item dec (S f) s buf acc =
  match dec s buf with
  | Ok (s', buf', Some it) => Framed.drain St Item dec f s' buf' (acc ++ [it])
  | Ok (s', buf', None) => (s', buf', acc, Waiting)
  | Err e => (s, buf, acc, Failed e)
  | Panic => (s, buf, acc, Panicked)
  end.
Proof. reflexivity. Qed.

(* more fuel does not change a drain that did not run out of fuel *)
Lemma drain_fuel_mono {St Item} (dec : St -> bytes -> res (St * bytes * option Item)) :
  forall f s buf acc r, Framed.drain St Item dec f s buf acc = r -> snd r <> Livelock ->
  forall k, Framed.drain St Item dec (f + k) s buf acc = r.
Proof.
  induction f as [|f IH]; intros s buf acc r H Hst k.
  - cbn [Framed.drain] in H. subst r. cbn [snd] in Hst. contradiction.
  - change (S f + k)%nat with (S (f + k)). rewrite drain_S in *.
    destruct (dec s buf) as [[[s' buf'] [it|]]|e|]; try exact H. apply IH; assumption.
Qed.

Lemma feed_first_none {St Item} (dec : St -> bytes -> res (St * bytes * option Item)) s buf seg s' b' :
  dec s (buf ++ seg) = Ok (s', b', None) -> Framed.feed St Item dec s buf seg = (s', b', [], Waiting).
Proof. intros H. unfold Framed.feed. cbv zeta. change (2 + length (buf ++ seg))%nat with (S (S (length (buf ++ seg)))). rewrite drain_S, H. reflexivity. Qed.
Lemma feed_first_err {St Item} (dec : St -> bytes -> res (St * bytes * option Item)) s buf seg e :
  dec s (buf ++ seg) = Err e -> Framed.feed St Item dec s buf seg = (s, buf ++ seg, [], Failed e).
Proof. intros H. unfold Framed.feed. cbv zeta. change (2 + length (buf ++ seg))%nat with (S (S (length (buf ++ seg)))). rewrite drain_S, H. reflexivity. Qed.

(* the (key, nonce) a table unit was sealed under *)
Definition hu_kn (u : hunit) : bytes * bytes := let '(k, n, _, _, _) := u in (k, n).

(* ================================================================================================ *)
(* PART 1: the sealed response header                                                               *)
(* ================================================================================================ *)
Section VmessRespHeader.
  Variable P : prims.

  (* the keys and nonces of the response header of a session, as client_vdecode / server_vencode derive them *)
  Definition resp_len_key (s : vsession) : bytes := kdf16 P (resp_key P s) [str_resp_len_key].
  Definition resp_len_iv (s : vsession) : bytes := kdf12 P (resp_iv P s) [str_resp_len_iv].
  Definition resp_pay_key (s : vsession) : bytes := kdf16 P (resp_key P s) [str_resp_pay_key].
  Definition resp_pay_iv (s : vsession) : bytes := kdf12 P (resp_iv P s) [str_resp_pay_iv].
  Definition vm_resp_kns (s : vsession) : list (bytes * bytes) :=
    [(resp_len_key s, resp_len_iv s); (resp_pay_key s, resp_pay_iv s)].

  (* forge-freeness for the two (key, nonce) pairs of the response header of session s *)
  Definition vm_resp_forge_free (s : vsession) (T : list hunit) : Prop :=
    forall k n ct m, In (k, n) (vm_resp_kns s) -> p_open P 0 k n [] ct = Some m -> In (k, n, [], m, ct) T.
  Lemma vm_resp_forge_free_weaken s T T2 : incl T T2 -> vm_resp_forge_free s T -> vm_resp_forge_free s T2.
  Proof. intros Hi HF k n ct m Hk Ho. apply Hi. exact (HF k n ct m Hk Ho). Qed.

  (* the two units at the front of src as the client reads them *)
  Definition vm_resp_len_unit (s : vsession) (src lb : bytes) : hunit :=
    (resp_len_key s, resp_len_iv s, [], lb, takeN 18 src).
  Definition vm_resp_pay_unit (s : vsession) (src lb hb : bytes) : hunit :=
    (resp_pay_key s, resp_pay_iv s, [], hb, takeN (be (takeN 2 lb) + 16) (dropN 18 src)).

  (* what the honest server of session s seals for its response header (server_vencode, first write) *)
  Definition resp_len_ct (s : vsession) : bytes := p_seal P 0 (resp_len_key s) (resp_len_iv s) [] (put_u16 4).
  Definition resp_pay_ct (h : req_header) (s : vsession) : bytes :=
    p_seal P 0 (resp_pay_key s) (resp_pay_iv s) [] [vs_v s; rh_opt h; 0; 0].
  Definition vm_resp_units (h : req_header) (s : vsession) : list hunit :=
    [ (resp_len_key s, resp_len_iv s, [], put_u16 4, resp_len_ct s);
      (resp_pay_key s, resp_pay_iv s, [], [vs_v s; rh_opt h; 0; 0], resp_pay_ct h s) ].
  Lemma resp_header_eq h s : resp_header P h s = resp_len_ct s ++ resp_pay_ct h s.
  Proof. reflexivity. Qed.

  (* key separation: no unit of T' was sealed under one of the two (key, nonce) pairs of session s *)
  Definition vm_resp_separate_from (s : vsession) (T' : list hunit) : Prop :=
    forall u, In u T' -> ~ In (hu_kn u) (vm_resp_kns s).
  Definition vm_resp_keys_separate (s s' : vsession) : Prop :=
    (resp_len_key s, resp_len_iv s) <> (resp_len_key s', resp_len_iv s') /\
    (resp_len_key s, resp_len_iv s) <> (resp_pay_key s', resp_pay_iv s') /\
    (resp_pay_key s, resp_pay_iv s) <> (resp_len_key s', resp_len_iv s') /\
    (resp_pay_key s, resp_pay_iv s) <> (resp_pay_key s', resp_pay_iv s').
  Lemma vm_resp_keys_separate_units s h' s' : vm_resp_keys_separate s s' -> vm_resp_separate_from s (vm_resp_units h' s').
  Proof.
    intros (N1 & N2 & N3 & N4) u Hu Hin. cbn [vm_resp_units In] in Hu. cbn [vm_resp_kns In] in Hin.
    destruct Hu as [<-|[<-|[]]]; cbn [hu_kn] in Hin; destruct Hin as [E|[E|[]]]; auto.
  Qed.
  Lemma vm_resp_separate_app s T1 T2 : vm_resp_separate_from s T1 -> vm_resp_separate_from s T2 -> vm_resp_separate_from s (T1 ++ T2).
  Proof. intros H1 H2 u Hu. apply in_app_or in Hu. destruct Hu; auto. Qed.
  (* forge-freeness over the table of everything + key separation = forge-freeness over this session's own units *)
  Lemma vm_resp_separation s T0 T' : vm_resp_separate_from s T' -> vm_resp_forge_free s (T0 ++ T') -> vm_resp_forge_free s T0.
  Proof.
    intros Hsep HF k n ct m Hk Ho. pose proof (HF k n ct m Hk Ho) as Hin. apply in_app_or in Hin.
    destruct Hin as [Hin|Hin]; [exact Hin|]. exfalso. exact (Hsep _ Hin Hk).
  Qed.

  (* from None the client either waits (state and buffer untouched, no item), fails, or creates the body decoder *)
  Lemma client_init_outcomes h s src st' r it : client_vdecode P h s None src = Ok (st', r, it) ->
    (st' = None /\ r = src /\ it = None) \/ exists b, st' = Some b.
  Proof.
    unfold client_vdecode. destruct src as [|x t]; [intros H; left; repeat split; congruence|]. set (src := x :: t).
    destruct (lenN src <? 2 + 16); [intros H; left; repeat split; congruence|].
    destruct (p_open P 0 _ _ [] (takeN 18 src)) as [lb|]; [|discriminate].
    destruct (get_u16 lb) as [[hl t']|e|]; cbn [bind]; try discriminate.
    destruct (lenN (dropN 18 src) <? hl + 16); [intros H; left; repeat split; congruence|].
    destruct (p_open P 0 _ _ [] (takeN (hl + 16) (dropN 18 src))) as [hb|]; [|discriminate].
    destruct hb as [|v hb']; [discriminate|]. destruct (v =? vs_v s); [|discriminate].
    destruct (dropN (hl + 16) (dropN 18 src)) as [|y r']; [intros H; destruct st' as [b1|]; [right; exists b1; reflexivity|discriminate H]|].
    destruct (rh_cmd h).
    - destruct (decode_payload_v P _ (y :: r')) as [[[b' r2] it2]|e|]; cbn [bind]; intros H; try discriminate; (destruct st' as [b1|]; [right; exists b1; reflexivity|discriminate H]).
    - destruct (decode_packet_v P _ (y :: r')) as [[[b' r2] it2]|e|]; cbn [bind]; intros H; try discriminate; (destruct st' as [b1|]; [right; exists b1; reflexivity|discriminate H]).
  Qed.

  (* the call from None, unfolded once: after the header it IS the call of the established phase on what follows *)
  Lemma client_vdecode_init_unfold h s src : src <> [] ->
    client_vdecode P h s None src =
    if lenN src <? 2 + 16 then Ok (None, src, None) else
    match p_open P 0 (resp_len_key s) (resp_len_iv s) [] (takeN 18 src) with
    | None => Err EAead
    | Some lb =>
      let* (hl, _) := get_u16 lb in
      if lenN (dropN 18 src) <? hl + 16 then Ok (None, src, None) else
      match p_open P 0 (resp_pay_key s) (resp_pay_iv s) [] (takeN (hl + 16) (dropN 18 src)) with
      | None => Err EAead
      | Some hb =>
        match hb with
        | v :: _ => if v =? vs_v s
                    then client_vdecode P h s (Some (body_new P (rh_opt h) (rh_sec h) (resp_key P s) (resp_iv P s) (vs_key s) (vs_iv s)))
                                        (dropN (hl + 16) (dropN 18 src))
                    else Err EBadAuth
        | [] => Err EBadAuth
        end
      end
    end.
  Proof.
    intros Hne. destruct src as [|x t]; [contradiction|]. set (src := x :: t).
    unfold resp_len_key, resp_len_iv, resp_pay_key, resp_pay_iv. unfold client_vdecode at 1. fold src. cbv zeta.
    destruct (lenN src <? 2 + 16); [reflexivity|].
    destruct (p_open P 0 _ _ [] (takeN 18 src)) as [lb|]; [|reflexivity].
    destruct (get_u16 lb) as [[hl t']|e|]; cbn [bind]; try reflexivity.
    destruct (lenN (dropN 18 src) <? hl + 16); [reflexivity|].
    destruct (p_open P 0 _ _ [] (takeN (hl + 16) (dropN 18 src))) as [hb|]; [|reflexivity].
    destruct hb as [|v hb']; [reflexivity|]. destruct (v =? vs_v s); [|reflexivity].
    destruct (dropN (hl + 16) (dropN 18 src)) as [|y r']; reflexivity.
  Qed.

  (* 1. whatever response the client accepts (None -> Some: body decoder created), both sealed parts of its header are
        units of the table under THIS session's response-header keys, and the opened header starts with the session's
        response authentication byte *)
  Theorem vm_resp_header_accept_is_honest : forall h s T, vm_resp_forge_free s T ->
    forall src b r it, client_vdecode P h s None src = Ok (Some b, r, it) ->
    exists lb hb, In (vm_resp_len_unit s src lb) T /\ In (vm_resp_pay_unit s src lb hb) T /\
                  2 <= lenN lb /\ exists t, hb = vs_v s :: t.
  Proof.
    intros h s T HF src b r it H.
    destruct (response_bound_to_request P h s src b r it H) as (lb & hb & O1 & O2 & Hlb & Ht).
    exists lb, hb.
    split; [exact (HF (resp_len_key s) (resp_len_iv s) _ _ (or_introl eq_refl) O1)|].
    split; [exact (HF (resp_pay_key s) (resp_pay_iv s) _ _ (or_intror (or_introl eq_refl)) O2)|]. auto.
  Qed.

  (* general form of "any modification is refused": if the two blocks at the front of src are not both units of the
     table, the client never leaves None: error, or still waiting with state and buffer untouched and no item *)
  Theorem vm_resp_header_tampered_refused_general : vm_lens P -> forall h s T, vm_resp_forge_free s T -> forall src,
    (forall lb, In (vm_resp_len_unit s src lb) T -> forall hb, ~ In (vm_resp_pay_unit s src lb hb) T) ->
    (exists e, client_vdecode P h s None src = Err e) \/ client_vdecode P h s None src = Ok (None, src, None).
  Proof.
    intros HLn h s T HF src Hnot.
    pose proof (client_vdecode_no_panic P HLn h s None src) as HNP.
    destruct (client_vdecode P h s None src) as [[[st' r] it]|e|] eqn:E; [|left; eauto|contradiction].
    destruct (client_init_outcomes h s src st' r it E) as [(-> & -> & ->)|(b & ->)]; [right; reflexivity|].
    exfalso. destruct (vm_resp_header_accept_is_honest h s T HF src b r it E) as (lb & hb & H1 & H2 & _).
    exact (Hnot lb H1 hb H2).
  Qed.
  (* ---- the honest server's two units, in a table that also contains whatever was sealed under OTHER keys ---- *)
  Section Own.
    Variables (h : req_header) (s : vsession) (T' : list hunit).
    Hypothesis HLn : vm_lens P.
    Hypothesis HF : vm_resp_forge_free s (vm_resp_units h s ++ T').
    Hypothesis Hsep : vm_resp_separate_from s T'.
    Local Notation b0 := (body_new P (rh_opt h) (rh_sec h) (resp_key P s) (resp_iv P s) (vs_key s) (vs_iv s)).

    Lemma resp_len_block_is_own ct lb : lenN ct = 18 -> p_open P 0 (resp_len_key s) (resp_len_iv s) [] ct = Some lb ->
      lb = put_u16 4 /\ ct = resp_len_ct s.
    Proof.
      intros Hl Ho. pose proof (HF _ _ _ _ (or_introl eq_refl) Ho) as Hin. apply in_app_or in Hin. destruct Hin as [Hin|Hin].
      - cbn [vm_resp_units In] in Hin. destruct Hin as [Hin|[Hin|[]]].
        + split; congruence.
        + exfalso. apply (vl_open_len P HLn) in Ho. assert (E : lb = [vs_v s; rh_opt h; 0; 0]) by congruence.
          rewrite E, Hl in Ho. change (lenN [vs_v s; rh_opt h; 0; 0]) with 4 in Ho. unfold TAG in Ho. lia.
      - exfalso. apply (Hsep _ Hin). cbn [hu_kn vm_resp_kns In]. left. reflexivity.
    Qed.
    Lemma resp_pay_block_is_own ct hb : lenN ct = 20 -> p_open P 0 (resp_pay_key s) (resp_pay_iv s) [] ct = Some hb ->
      hb = [vs_v s; rh_opt h; 0; 0] /\ ct = resp_pay_ct h s.
    Proof.
      intros Hl Ho. pose proof (HF _ _ _ _ (or_intror (or_introl eq_refl)) Ho) as Hin. apply in_app_or in Hin. destruct Hin as [Hin|Hin].
      - cbn [vm_resp_units In] in Hin. destruct Hin as [Hin|[Hin|[]]].
        + exfalso. apply (vl_open_len P HLn) in Ho. assert (E : hb = put_u16 4) by congruence.
          rewrite E, Hl, lenN_put_u16 in Ho. unfold TAG in Ho. lia.
        + split; congruence.
      - exfalso. apply (Hsep _ Hin). cbn [hu_kn vm_resp_kns In]. right. left. reflexivity.
    Qed.

    (* every call from None, on ANY bytes: still waiting (fewer than 38 bytes), or Err EAead, or the input starts with the
       38 bytes the honest server of THIS session sealed and the call IS the call of the established phase on the rest *)
    Lemma client_init_shape : forall src,
      (lenN src < 38 /\ client_vdecode P h s None src = Ok (None, src, None)) \/
      client_vdecode P h s None src = Err EAead \/
      exists out, src = resp_header P h s ++ out /\ lenN (resp_header P h s) = 38 /\
                  client_vdecode P h s None src = client_vdecode P h s (Some b0) out.
    Proof.
      intros src. destruct src as [|x t]; [left; split; [rewrite lenN_nil; lia|reflexivity]|]. set (src := x :: t).
      rewrite (client_vdecode_init_unfold h s src) by discriminate.
      destruct (N.ltb_spec (lenN src) (2 + 16)) as [Hs|Hs]; [left; split; [lia|reflexivity]|].
      assert (H18 : lenN (takeN 18 src) = 18) by (apply lenN_takeN; lia).
      destruct (p_open P 0 (resp_len_key s) (resp_len_iv s) [] (takeN 18 src)) as [lb|] eqn:E1; [|right; left; reflexivity].
      destruct (resp_len_block_is_own _ _ H18 E1) as [-> HcL].
      unfold get_u16, put_u16. rewrite get_be_put_be_nil by (change (256 ^ 2) with 65536; lia). cbn [bind].
      destruct (N.ltb_spec (lenN (dropN 18 src)) (4 + 16)) as [Hr|Hr].
      { left. rewrite lenN_dropN in Hr. split; [lia|reflexivity]. }
      assert (H20 : lenN (takeN (4 + 16) (dropN 18 src)) = 20) by (apply lenN_takeN; lia).
      destruct (p_open P 0 (resp_pay_key s) (resp_pay_iv s) [] (takeN (4 + 16) (dropN 18 src))) as [hb|] eqn:E2; [|right; left; reflexivity].
      destruct (resp_pay_block_is_own _ _ H20 E2) as [-> HcP]. cbv beta iota. rewrite N.eqb_refl.
      right. right. exists (dropN (4 + 16) (dropN 18 src)). split; [|split; [|reflexivity]].
      - rewrite resp_header_eq, <- app_assoc, <- HcL, <- HcP. rewrite take_drop, take_drop. reflexivity.
      - rewrite resp_header_eq, lenN_app, <- HcL, <- HcP, H18, H20. reflexivity.
    Qed.

    (* 1, plain reading: an accepted input starts with the header sealed by the server answering THIS request, and
       state, leftover and item are those of the body decoder of this session on the bytes behind it *)
    Theorem vm_resp_header_accept_is_own : forall src b r it, client_vdecode P h s None src = Ok (Some b, r, it) ->
      exists out, src = resp_header P h s ++ out /\ client_vdecode P h s (Some b0) out = Ok (Some b, r, it).
    Proof.
      intros src b r it H. destruct (client_init_shape src) as [[_ Hw]|[He|(out & Hsrc & _ & Heq)]].
      - rewrite Hw in H. discriminate H.
      - rewrite He in H. discriminate H.
      - exists out. split; [exact Hsrc|]. rewrite <- Heq. exact H.
    Qed.

    (* any other bytes: authentication error, or (fewer than 38 bytes) still waiting in state None with the buffer
       untouched and nothing released *)
    Theorem vm_resp_header_tampered_refused : forall src, ~ lprefix (resp_header P h s) src ->
      client_vdecode P h s None src = Err EAead \/ (lenN src < 38 /\ client_vdecode P h s None src = Ok (None, src, None)).
    Proof.
      intros src Hnot. destruct (client_init_shape src) as [Hw|[He|(out & Hsrc & _)]]; [right; exact Hw|left; exact He|].
      exfalso. apply Hnot. exists out. exact Hsrc.
    Qed.

    (* ... and once 38 bytes are there, an error *)
    Theorem vm_resp_header_tampered_rejected : forall src, 38 <= lenN src -> takeN 38 src <> resp_header P h s ->
      client_vdecode P h s None src = Err EAead.
    Proof.
      intros src Hlen Hne. destruct (client_init_shape src) as [[Hlt _]|[He|(out & Hsrc & H38 & _)]]; [lia|exact He|].
      exfalso. apply Hne. rewrite Hsrc. apply takeN_app_n. exact H38.
    Qed.
  End Own.

  (* C10, "request-derived keys": a genuine response of the server to ANOTHER request (session s': another request
     key / iv, hence other response keys -- the premise is the inequality of the derived (key, nonce) pairs), followed by
     anything, is refused by the client of session s.  The table contains the response-header units of BOTH sessions.
     (If the two 38-byte headers were the same byte string the "other" response would BE this session's genuine header.) *)
  Theorem vm_resp_from_other_session_refused : vm_laws_on P [] -> forall h s h' s',
    vm_resp_forge_free s (vm_resp_units h s ++ vm_resp_units h' s') ->
    vm_resp_keys_separate s s' ->
    resp_header P h' s' <> resp_header P h s ->
    forall out, client_vdecode P h s None (resp_header P h' s' ++ out) = Err EAead.
  Proof.
    intros HL h s h' s' HF Hks Hne out.
    assert (H38 : lenN (resp_header P h' s') = 38).
    { rewrite resp_header_eq, lenN_app. unfold resp_len_ct, resp_pay_ct. rewrite !(vo_seal_len P [] HL), lenN_put_u16. reflexivity. }
    apply (vm_resp_header_tampered_rejected h s (vm_resp_units h' s') (vm_laws_lens P [] HL) HF (vm_resp_keys_separate_units s h' s' Hks)).
    - rewrite lenN_app. lia.
    - rewrite (takeN_app_n 38 _ out H38). exact Hne.
  Qed.

  (* what the client seals for its request: the two units of the sealed request header (keys derived from the user id,
     associated data = auth id) and every unit of its body (payload units under the request body key, size units
     under the AuthenticatedLength key) *)
  Definition vm_seal_unit (u : N * bytes * bytes * bytes) : hunit :=
    let '(c, k, n, m) := u in (k, n, [], m, p_seal P c k n [] m).
  Definition vm_request_units (id authid cnonce hb : bytes) (breq : body) (wsq : list (bytes * bytes)) : list hunit :=
    vm_header_units P id authid cnonce hb ++ map vm_seal_unit (vm_seals P breq wsq).

  (* C05, reflection: the client's OWN request bytes (sealed header, then the body stream of all its writes), fed back
     to it followed by anything, are refused.  The table contains everything the client sealed for its request. *)
  Theorem vm_resp_reflected_request_refused : vm_laws_on P [] -> forall id h s authid cnonce hb wsq,
    let breq := body_new P (rh_opt h) (rh_sec h) (vs_key s) (vs_iv s) (vs_key s) (vs_iv s) in
    let req := seal_header P id authid cnonce hb ++ vm_wire P breq wsq in
    vm_resp_forge_free s (vm_resp_units h s ++ vm_request_units id authid cnonce hb breq wsq) ->
    vm_resp_separate_from s (vm_request_units id authid cnonce hb breq wsq) ->
    lenN authid = 16 ->
    forall out, takeN 38 (req ++ out) <> resp_header P h s ->
    client_vdecode P h s None (req ++ out) = Err EAead.
  Proof.
    intros HL id h s authid cnonce hb wsq breq req HF Hsep Ha out Hne.
    apply (vm_resp_header_tampered_rejected h s _ (vm_laws_lens P [] HL) HF Hsep); [|exact Hne].
    subst req. unfold seal_header. cbv zeta. rewrite !lenN_app, !(vo_seal_len P [] HL), lenN_put_u16, Ha. unfold TAG. lia.
  Qed.
End VmessRespHeader.

(* ================================================================================================ *)
(* PART 2: the whole response direction (TCP command) under FramedRead                              *)
(* ================================================================================================ *)
Section VmessRespStream.
  Variable P : prims.

  Lemma vbody_feed_outcome : vm_lens P -> forall b out, wf b ->
    snd (Framed.feed _ _ (vbody_dec P) b [] out) = Waiting \/ snd (Framed.feed _ _ (vbody_dec P) b [] out) = Failed EAead.
  Proof.
    intros HLn b out Hwf. pose proof (feed_canonS P HLn b [] out Hwf) as H.
    destruct (crunS P (norm P b) ([] ++ out)) as [s2 r2 o2|o2].
    - destruct H as (s2' & items & -> & _). left. reflexivity.
    - destruct H as (s' & b' & items & -> & _). right. reflexivity.
  Qed.

  Section Run.
    Variables (h : req_header) (s : vsession) (T' : list hunit).
    Hypothesis HLn : vm_lens P.
    Hypothesis Hcmd : rh_cmd h = CmdTcp.
    Hypothesis HF : vm_resp_forge_free P s (vm_resp_units P h s ++ T').
    Hypothesis Hsep : vm_resp_separate_from P s T'.
    Local Notation b0 := (body_new P (rh_opt h) (rh_sec h) (resp_key P s) (resp_iv P s) (vs_key s) (vs_iv s)).
    Local Notation cdec := (client_vdecode P h s).

    (* the poll that completes the header: either the body call fails at once (nothing released), or the poll IS the
       first poll of the body decoder of this session on the bytes behind the header *)
    Lemma resp_accepting_feed buf seg out : buf ++ seg = resp_header P h s ++ out ->
      cdec None (buf ++ seg) = cdec (Some b0) out ->
      Framed.feed _ _ cdec None buf seg = (None, buf ++ seg, [], Failed EAead) \/
      Framed.feed _ _ cdec None buf seg =
        let '(b', r, items, st) := Framed.feed _ _ (vbody_dec P) b0 [] out in (Some b', r, items, st).
    Proof.
      intros Hsrc Heq. pose proof (vbody_feed_outcome HLn b0 out (wf_body_new P _ _ _ _ _ _)) as Hout.
      unfold Framed.feed in *. cbv zeta in *. cbn [app] in Hout |- *. set (B := buf ++ seg) in *.
      change (2 + length B)%nat with (S (S (length B))). change (2 + length out)%nat with (S (S (length out))) in *.
      rewrite drain_S in Hout. rewrite !drain_S. rewrite Heq, (client_map P h s Hcmd b0 out).
      destruct (vbody_dec P b0 out) as [[[b1 r1] [d|]]|e|] eqn:EV; cbn [option_map].
      - right.
        pose proof (drain_map body (option body) bytes bytes (vbody_dec P) cdec (@Some body) (fun x : bytes => x)
                              (client_map P h s Hcmd) (S (length B)) b1 r1 ([] ++ [d]) []) as HM.
        cbn [app map] in HM |- *. rewrite HM.
        assert (HB : S (length B) = (S (length out) + length (resp_header P h s))%nat).
        { rewrite Hsrc, app_length. lia. }
        rewrite HB. cbn [app] in Hout.
        rewrite (drain_fuel_mono (vbody_dec P) (S (length out)) b1 r1 [d] _ eq_refl).
        + destruct (Framed.drain body bytes (vbody_dec P) (S (length out)) b1 r1 [d]) as [[[b2 r2] it2] st2]. rewrite map_id. reflexivity.
        + destruct Hout as [-> | ->]; discriminate.
      - right. reflexivity.
      - left. cbn [snd] in Hout. destruct Hout as [Ho|Ho]; [discriminate Ho|]. injection Ho as ->. reflexivity.
      - cbn [snd] in Hout. destruct Hout as [Ho|Ho]; discriminate Ho.
    Qed.

    (* the whole run from (None, buf): nothing released and Waiting / Failed EAead, or items and status of a run of the
       body decoder of THIS session from its initial state over some segmentation *)
    Lemma resp_run_attack : forall segs buf,
      let '(_, _, items, st) := Framed.run _ _ cdec None buf segs [] in
      (items = [] /\ (st = Waiting \/ st = Failed EAead)) \/
      exists segs', let '(_, _, items', st') := Framed.run _ _ (vbody_dec P) b0 [] segs' [] in items = items' /\ st = st'.
    Proof.
      induction segs as [|seg t IH]; intros buf.
      - cbn [Framed.run]. left. auto.
      - cbn [Framed.run].
        destruct (client_init_shape P h s T' HLn HF Hsep (buf ++ seg)) as [[_ Hw]|[He|(out & Hsrc & _ & Heq)]].
        + rewrite (feed_first_none cdec None buf seg None (buf ++ seg) Hw). cbn [app]. apply IH.
        + rewrite (feed_first_err cdec None buf seg EAead He). left. auto.
        + destruct (resp_accepting_feed buf seg out Hsrc Heq) as [Hf|Hf]; rewrite Hf; [left; auto|].
          destruct (Framed.feed _ _ (vbody_dec P) b0 [] out) as [[[b1 r1] it1] st1] eqn:EF.
          destruct st1 as [|e| |].
          * pose proof (run_map body (option body) bytes bytes (vbody_dec P) cdec (@Some body) (fun x : bytes => x)
                                (client_map P h s Hcmd) t b1 r1 it1 []) as HM.
            cbn [app] in HM |- *. rewrite map_id in HM. rewrite HM.
            destruct (Framed.run _ _ (vbody_dec P) b1 r1 t it1) as [[[b2 r2] it2] st2] eqn:ER.
            right. exists (out :: t). cbn [Framed.run]. rewrite EF. cbn [app]. rewrite ER, map_id. auto.
          * right. exists (out :: t). cbn [Framed.run]. rewrite EF. auto.
          * right. exists (out :: t). cbn [Framed.run]. rewrite EF. auto.
          * right. exists (out :: t). cbn [Framed.run]. rewrite EF. auto.
    Qed.

    (* 2. C05 for the whole response direction: the client has sent its request and waits in state None with an empty
       buffer; WHATEVER bytes arrive (a tampered, truncated, replayed or foreign response header, the client's own
       request reflected, chunks of any origin) and however they are segmented, what the client releases is a prefix of
       the concatenation of what the honest server wrote for THIS session, and the run ends Waiting or Failed EAead *)
    Theorem vm_response_released_is_prefix : forall ws,
      vm_stream_forge_free P b0 ws -> N.of_nat (length (vm_chunks P b0 ws)) < 65536 ->
      forall segs,
        let '(_, _, items, st) := Framed.run _ _ cdec None [] segs [] in
        lprefix (concat items) (vm_payloads ws) /\ (st = Waiting \/ st = Failed EAead).
    Proof.
      intros ws HFb Hb segs. pose proof (resp_run_attack segs []) as HR.
      destruct (Framed.run _ _ cdec None [] segs []) as [[[st1 r1] items] st].
      destruct HR as [(-> & Hst)|(segs' & HR)]; [split; [apply lprefix_nil|exact Hst]|].
      pose proof (vm_released_is_prefix P b0 ws 0 eq_refl Hb HLn HFb b0 (wf_body_new P _ _ _ _ _ _) (vm_same_dir_refl b0)
                    (concat segs') segs' eq_refl) as HP.
      destruct (Framed.run _ _ (vbody_dec P) b0 [] segs' []) as [[[b2 r2] items'] st']. destruct HR as [-> ->]. exact HP.
    Qed.
  End Run.

  (* once the run has failed, whatever else arrives is not looked at: same state, buffer, items and status *)
  Corollary vm_response_nothing_after_failure : forall h s segs1 segs2 st b items e,
    Framed.run _ _ (client_vdecode P h s) None [] segs1 [] = (st, b, items, Failed e) ->
    Framed.run _ _ (client_vdecode P h s) None [] (segs1 ++ segs2) [] = (st, b, items, Failed e).
  Proof. intros h s segs1 segs2 st b items e H. apply SsChunkTamper.run_stops_after_failure; [exact H|discriminate]. Qed.
  
  (* ... with the body keys of BOTH directions in one table (everything the two ends sealed, vm_ideal) and key
     separation between them: traffic of the opposite direction reflected or spliced in is covered explicitly *)
  Theorem vm_response_reflection_released_is_prefix : vm_lens P -> forall h s T' wsq wsp, rh_cmd h = CmdTcp ->
    let breq := body_new P (rh_opt h) (rh_sec h) (vs_key s) (vs_iv s) (vs_key s) (vs_iv s) in
    let bresp := body_new P (rh_opt h) (rh_sec h) (resp_key P s) (resp_iv P s) (vs_key s) (vs_iv s) in
    vm_resp_forge_free P s (vm_resp_units P h s ++ T') -> vm_resp_separate_from P s T' ->
    sec_key P (rh_sec h) (vs_key s) <> sec_key P (rh_sec h) (resp_key P s) ->
    vm_ideal P (sec_cipher (rh_sec h)) [sec_key P (rh_sec h) (vs_key s); sec_key P (rh_sec h) (resp_key P s)]
             (map (pair (sec_key P (rh_sec h) (vs_key s))) (vm_honest P breq wsq) ++
              map (pair (sec_key P (rh_sec h) (resp_key P s))) (vm_honest P bresp wsp)) ->
    N.of_nat (length (vm_chunks P bresp wsp)) < 65536 ->
    forall segs,
      let '(_, _, items, st) := Framed.run _ _ (client_vdecode P h s) None [] segs [] in
      lprefix (concat items) (vm_payloads wsp) /\ (st = Waiting \/ st = Failed EAead).
  Proof.
    intros HLn h s T' wsq wsp Hcmd breq bresp HF Hsep Hks HI Hb segs.
    destruct (vm_direction_separation P _ _ _ _ _ Hks HI) as [_ HFp].
    exact (vm_response_released_is_prefix h s T' HLn Hcmd HF Hsep wsp HFp Hb segs).
  Qed.

  (* UDP command (one chunk = one datagram): a datagram released by the call that accepts the header is EXACTLY the
     plaintext of the first unit the honest server of this session sealed, behind this session's genuine header *)
  Theorem vm_response_first_datagram_is_honest : vm_lens P -> forall h s T', rh_cmd h = CmdUdp ->
    vm_resp_forge_free P s (vm_resp_units P h s ++ T') -> vm_resp_separate_from P s T' ->
    forall H, vm_lockstep_nonces (resp_iv P s) 0 H -> N.of_nat (0 + length H) < 65536 ->
    vm_forge_free P (sec_cipher (rh_sec h)) (sec_key P (rh_sec h) (resp_key P s)) H ->
    forall src b r d, client_vdecode P h s None src = Ok (Some b, r, Some d) ->
    exists out u, src = resp_header P h s ++ out /\ nth_error H 0 = Some u /\ d = vu_pt u /\
                  exists pre post, out = pre ++ vu_ct u ++ post.
  Proof.
    intros HLn h s T' Hcmd HF Hsep H Hn Hb HFb src b r d Hacc.
    destruct (vm_resp_header_accept_is_own P h s T' HLn HF Hsep src b r (Some d) Hacc) as (out & Hsrc & Hbody).
    rewrite (client_ready_udp P h s _ out Hcmd) in Hbody. unfold vpkt_dec in Hbody.
    destruct out as [|y t]; [discriminate Hbody|].
    destruct (decode_packet_v P _ (y :: t)) as [[[b' r'] it']|e|] eqn:ED; try discriminate Hbody.
    assert (E : b' = b /\ r' = r /\ it' = Some d) by (repeat split; congruence). destruct E as (-> & -> & ->).
    assert (HLk : vm_lock (sec_cipher (rh_sec h)) (sec_key P (rh_sec h) (resp_key P s)) (resp_iv P s) 0
                          (body_new P (rh_opt h) (rh_sec h) (resp_key P s) (resp_iv P s) (vs_key s) (vs_iv s)) 0).
    { unfold vm_lock, body_new. cbn [b_cipher b_key b_iv b_count Nat.add Nat.iter nat_rect]. auto. }
    destruct (vm_packet_accept_is_honest P _ _ _ 0 H Hn Hb HFb _ _ 0%nat _ _ _ HLk ltac:(lia) ED) as (u & Hu & Hd & _ & Hpp).
    exists (y :: t), u. auto.
  Qed.
End VmessRespStream.

(* ================================================================================================ *)
(* PART 3: an authenticated but malformed header (a buggy or malicious HOLDER of the session keys)  *)
(* ================================================================================================ *)
(* No forge-freeness here: the sealer holds the keys.  The client reads exactly 18 bytes for the length unit, so under
   open_len its plaintext is 2 bytes whatever was sealed (get_u16 cannot run short: client_vdecode_no_panic); the
   announced header length is any u16; the header plaintext is whatever the sealer chose. *)
Section VmessRespMalformed.
  Variable P : prims.
  Hypothesis HL : prim_laws P.

  (* a response header with an arbitrary plaintext hb, sealed under the genuine keys of session s *)
  Definition vm_sealed_resp_header (s : vsession) (hb : bytes) : bytes :=
    p_seal P 0 (resp_len_key P s) (resp_len_iv P s) [] (put_u16 (lenN hb)) ++ p_seal P 0 (resp_pay_key P s) (resp_pay_iv P s) [] hb.
  Lemma vm_sealed_resp_header_honest h s : vm_sealed_resp_header s [vs_v s; rh_opt h; 0; 0] = resp_header P h s.
  Proof. reflexivity. Qed.

  Lemma client_vdecode_sealed_header : forall h s hb out, lenN hb < 65536 ->
    client_vdecode P h s None (vm_sealed_resp_header s hb ++ out) =
    match hb with
    | v :: _ => if v =? vs_v s
                then client_vdecode P h s (Some (body_new P (rh_opt h) (rh_sec h) (resp_key P s) (resp_iv P s) (vs_key s) (vs_iv s))) out
                else Err EBadAuth
    | [] => Err EBadAuth
    end.
  Proof.
    intros h s hb out Hhb. unfold vm_sealed_resp_header.
    set (sl := p_seal P 0 (resp_len_key P s) (resp_len_iv P s) [] (put_u16 (lenN hb))).
    set (sh := p_seal P 0 (resp_pay_key P s) (resp_pay_iv P s) [] hb).
    assert (Hsl : lenN sl = 18) by (subst sl; rewrite (seal_len P HL), lenN_put_u16; reflexivity).
    assert (Hsh : lenN sh = lenN hb + 16) by (subst sh; rewrite (seal_len P HL); reflexivity).
    assert (Ho1 : p_open P 0 (resp_len_key P s) (resp_len_iv P s) [] sl = Some (put_u16 (lenN hb))) by apply (open_seal P HL).
    assert (Ho2 : p_open P 0 (resp_pay_key P s) (resp_pay_iv P s) [] sh = Some hb) by apply (open_seal P HL).
    clearbody sl sh. rewrite <- app_assoc. set (src := sl ++ sh ++ out).
    assert (Hlen : lenN src = 18 + (lenN hb + 16) + lenN out) by (subst src; rewrite !lenN_app; lia).
    rewrite (client_vdecode_init_unfold P h s src).
    2:{ intros E. rewrite E, lenN_nil in Hlen. lia. }
    destruct (N.ltb_spec (lenN src) (2 + 16)) as [Hx|_]; [exfalso; lia|].
    assert (T18 : takeN 18 src = sl) by (apply takeN_app_n; exact Hsl).
    assert (D18 : dropN 18 src = sh ++ out) by (apply dropN_app_n; exact Hsl).
    rewrite T18, D18, Ho1. unfold get_u16, put_u16.
    rewrite get_be_put_be_nil by (change (256 ^ 2) with 65536; lia). cbn [bind].
    destruct (N.ltb_spec (lenN (sh ++ out)) (lenN hb + 16)) as [Hx|_]; [exfalso; rewrite lenN_app in Hx; lia|].
    rewrite (takeN_app_n (lenN hb + 16) sh) by exact Hsh. rewrite Ho2.
    rewrite (dropN_app_n (lenN hb + 16) sh) by exact Hsh. reflexivity.
  Qed.

  (* 3. sealed under the honest keys but EMPTY, or with another first byte: refused (no panic: `header_bytes.first()`
        of an empty header is None), whatever follows; nothing is released and no body decoder is created *)
  Theorem vm_resp_malformed_header_refused : forall h s hb out, lenN hb < 65536 -> (forall t, hb <> vs_v s :: t) ->
    client_vdecode P h s None (vm_sealed_resp_header s hb ++ out) = Err EBadAuth.
  Proof.
    intros h s hb out Hhb Hv. rewrite client_vdecode_sealed_header by exact Hhb.
    destruct hb as [|v t]; [reflexivity|]. destruct (N.eqb_spec v (vs_v s)) as [->|]; [|reflexivity].
    exfalso. exact (Hv t eq_refl).
  Qed.
  Corollary vm_resp_empty_header_refused : forall h s out,
    client_vdecode P h s None (vm_sealed_resp_header s [] ++ out) = Err EBadAuth.
  Proof. intros h s out. apply vm_resp_malformed_header_refused; [rewrite lenN_nil; lia|discriminate]. Qed.

  (* fewer bytes than the (authentic) length unit announces: the client waits, state and buffer untouched *)
  Theorem vm_resp_truncated_header_waits : forall h s hl q, hl < 65536 -> lenN q < hl + 16 ->
    let src := p_seal P 0 (resp_len_key P s) (resp_len_iv P s) [] (put_u16 hl) ++ q in
    client_vdecode P h s None src = Ok (None, src, None).
  Proof.
    intros h s hl q Hhl Hq. cbv zeta.
    set (sl := p_seal P 0 (resp_len_key P s) (resp_len_iv P s) [] (put_u16 hl)).
    assert (Hsl : lenN sl = 18) by (subst sl; rewrite (seal_len P HL), lenN_put_u16; reflexivity).
    assert (Ho1 : p_open P 0 (resp_len_key P s) (resp_len_iv P s) [] sl = Some (put_u16 hl)) by apply (open_seal P HL).
    clearbody sl. set (src := sl ++ q).
    assert (Hlen : lenN src = 18 + lenN q) by (subst src; rewrite lenN_app; lia).
    rewrite (client_vdecode_init_unfold P h s src).
    2:{ intros E. rewrite E, lenN_nil in Hlen. lia. }
    destruct (N.ltb_spec (lenN src) (2 + 16)) as [Hx|_]; [reflexivity|].
    assert (T18 : takeN 18 src = sl) by (apply takeN_app_n; exact Hsl).
    assert (D18 : dropN 18 src = q) by (apply dropN_app_n; exact Hsl).
    rewrite T18, D18, Ho1. unfold get_u16, put_u16.
    rewrite get_be_put_be_nil by (change (256 ^ 2) with 65536; lia). cbn [bind].
    destruct (N.ltb_spec (lenN q) (hl + 16)) as [_|Hx]; [reflexivity|lia].
  Qed.

  (* REFUTED: "a SHORT header is refused".  The only check on the opened header is its first byte: a header of ONE byte
     [vs_v s] -- and any vs_v s :: t, whatever option, command and length bytes follow or are missing -- sealed under
     the honest keys is accepted, and the call is the body call on what follows.  (Not a forgery: the sealer holds the
     session keys; recorded because the expectation "malformed => refused" is false for this shape.) *)
  Theorem vm_resp_short_header_refused_refuted : forall h s t out, lenN (vs_v s :: t) < 65536 ->
    client_vdecode P h s None (vm_sealed_resp_header s (vs_v s :: t) ++ out) =
    client_vdecode P h s (Some (body_new P (rh_opt h) (rh_sec h) (resp_key P s) (resp_iv P s) (vs_key s) (vs_iv s))) out.
  Proof. intros h s t out Hl. rewrite client_vdecode_sealed_header by exact Hl. rewrite N.eqb_refl. reflexivity. Qed.
  Corollary vm_resp_one_byte_header_accepted : forall h s,
    client_vdecode P h s None (vm_sealed_resp_header s [vs_v s]) =
    Ok (Some (body_new P (rh_opt h) (rh_sec h) (resp_key P s) (resp_iv P s) (vs_key s) (vs_iv s)), [], None).
  Proof.
    intros h s. rewrite <- (app_nil_r (vm_sealed_resp_header s [vs_v s])).
    rewrite vm_resp_short_header_refused_refuted by (rewrite lenN_cons, lenN_nil; lia). reflexivity.
  Qed.

  (* why key separation is a premise of vm_resp_from_other_session_refused: the client's checks depend on the request
     only through resp_key, resp_iv and the response byte -- a session whose derived keys and byte coincide accepts
     the other session's genuine header *)
  Theorem vm_resp_same_derived_keys_accepted : forall h s h' s' out,
    resp_key P s' = resp_key P s -> resp_iv P s' = resp_iv P s -> vs_v s' = vs_v s ->
    client_vdecode P h s None (resp_header P h' s' ++ out) =
    client_vdecode P h s (Some (body_new P (rh_opt h) (rh_sec h) (resp_key P s) (resp_iv P s) (vs_key s) (vs_iv s))) out.
  Proof.
    intros h s h' s' out Hk Hi Hv.
    assert (E : resp_header P h' s' = vm_sealed_resp_header s [vs_v s; rh_opt h'; 0; 0]).
    { unfold resp_header, vm_sealed_resp_header, resp_len_key, resp_len_iv, resp_pay_key, resp_pay_iv. rewrite Hk, Hi, Hv. reflexivity. }
    rewrite E. apply (vm_resp_short_header_refused_refuted h s [rh_opt h'; 0; 0] out). reflexivity.
  Qed.
End VmessRespMalformed.

Print Assumptions vm_resp_header_accept_is_honest.
Print Assumptions vm_resp_header_tampered_refused_general.
Print Assumptions client_init_shape.
Print Assumptions vm_resp_header_accept_is_own.
Print Assumptions vm_resp_header_tampered_refused.
Print Assumptions vm_resp_header_tampered_rejected.
Print Assumptions vm_resp_from_other_session_refused.
Print Assumptions vm_resp_reflected_request_refused.
Print Assumptions vm_response_released_is_prefix.
Print Assumptions vm_response_nothing_after_failure.
Print Assumptions vm_response_reflection_released_is_prefix.
Print Assumptions vm_response_first_datagram_is_honest.
Print Assumptions vm_resp_malformed_header_refused.
Print Assumptions vm_resp_empty_header_refused.
Print Assumptions vm_resp_truncated_header_waits.
Print Assumptions vm_resp_short_header_refused_refuted.
Print Assumptions vm_resp_one_byte_header_accepted.
Print Assumptions vm_resp_same_derived_keys_accepted.

(* ================================================================================================ *)
(* PART 4: non-vacuity -- an ideal table-lookup opener for the response header together with the     *)
(* bodies, another session and the client's own request; computed attacks with the tag-checking toy  *)
(* ================================================================================================ *)
Module VmessRespTamperExamples.
  Import ToyVmess VmessTamperExamples.

  (* the session of VmessTamperExamples: all options, aes-128-gcm, TCP; the server answers "world" then "hello" *)
  Definition h0 : req_header := {| rh_opt := opt0; rh_sec := sec0; rh_cmd := CmdTcp; rh_addr := target |}.
  (* another request of the same user: other body key / iv, the SAME response authentication byte *)
  Definition sess2 : vsession := {| vs_iv := repeat 7 16; vs_key := repeat 8 16; vs_v := 77 |}.

  (* the table of EVERYTHING sealed: this session's response header; foreign: the response header of the other
     session, the client's own sealed request header, every body unit (payload and size) of both directions *)
  Definition resp_tbl : list hunit := vm_resp_units Ptoy h0 sess.
  Definition foreign_tbl : list hunit := vm_resp_units Ptoy h0 sess2 ++ hdr_table ++ body_table.
  Definition Pideal_r : prims := mkP (table_open (resp_tbl ++ foreign_tbl)).

  Lemma resp_units_ideal : vm_resp_units Pideal_r h0 sess = resp_tbl.
  Proof. vm_compute. reflexivity. Qed.
  Lemma resp_units2_ideal : vm_resp_units Pideal_r h0 sess2 = vm_resp_units Ptoy h0 sess2.
  Proof. vm_compute. reflexivity. Qed.

  Lemma Pideal_r_open : p_open Pideal_r = table_open (resp_tbl ++ foreign_tbl).
  Proof. reflexivity. Qed.
  Example ideal_resp_forge_free : vm_resp_forge_free Pideal_r sess (vm_resp_units Pideal_r h0 sess ++ foreign_tbl).
  Proof.
    intros k n ct m _ Ho. rewrite resp_units_ideal. rewrite Pideal_r_open in Ho. apply table_open_sound in Ho. exact Ho.
  Qed.

  (* key separation, decided by computation *)
  Definition kn_eqb (a b : bytes * bytes) : bool := bytes_eqb (fst a) (fst b) && bytes_eqb (snd a) (snd b).
  Definition separate_b (kns : list (bytes * bytes)) (T : list hunit) : bool :=
    forallb (fun u => negb (existsb (kn_eqb (hu_kn u)) kns)) T.
  Lemma separate_b_spec kns T : separate_b kns T = true -> forall u, In u T -> ~ In (hu_kn u) kns.
  Proof.
    unfold separate_b. rewrite forallb_forall. intros H u Hu Hin. specialize (H u Hu). apply negb_true_iff in H.
    assert (E : existsb (kn_eqb (hu_kn u)) kns = true).
    { apply existsb_exists. exists (hu_kn u). split; [exact Hin|]. unfold kn_eqb. rewrite !bytes_eqb_refl. reflexivity. }
    congruence.
  Qed.
  Example ideal_resp_separate : vm_resp_separate_from Pideal_r sess foreign_tbl.
  Proof. refine (separate_b_spec (vm_resp_kns Pideal_r sess) foreign_tbl _). vm_compute. reflexivity. Qed.
  Lemma bytes_neq a b : bytes_eqb a b = false -> a <> b.
  Proof. intros H E. subst. rewrite bytes_eqb_refl in H. discriminate H. Qed.
  Lemma kn_neq (a b : bytes * bytes) : kn_eqb a b = false -> a <> b.
  Proof. intros H E. subst. unfold kn_eqb in H. rewrite !bytes_eqb_refl in H. discriminate H. Qed.
  Example ideal_keys_separate : vm_resp_keys_separate Pideal_r sess sess2.
  Proof. repeat split; apply kn_neq; vm_compute; reflexivity. Qed.

  Lemma ideal_r_table_lens : table_lens (resp_tbl ++ foreign_tbl) = true.
  Proof. vm_compute. reflexivity. Qed.
  Example ideal_r_lens : vm_lens Pideal_r.
  Proof. constructor. exact (table_open_len _ ideal_r_table_lens). Qed.
  Example ideal_r_laws : vm_laws_on Pideal_r [].
  Proof.
    constructor.
    - intros c k n a m. apply xseal_len.
    - exact (table_open_len _ ideal_r_table_lens).
    - intros c k n m [].
  Qed.
  
  (* the response body key under the same opener *)
  Lemma honest_resp_ideal_r : vm_honest Pideal_r (bresp Pideal_r) wsp = vm_honest Ptoy (bresp Ptoy) wsp.
  Proof. vm_compute. reflexivity. Qed.
  Example ideal_r_body_forge_free : vm_stream_forge_free Pideal_r (bresp Pideal_r) wsp.
  Proof.
    unfold vm_stream_forge_free, vm_forge_free. intros n ct m Ho. rewrite honest_resp_ideal_r.
    assert (Ek : b_key (bresp Pideal_r) = Kresp) by (vm_compute; reflexivity). rewrite Ek in Ho.
    rewrite Pideal_r_open in Ho. apply table_open_sound in Ho. revert n m ct Ho. apply table_key_in_spec. vm_compute. reflexivity.
  Qed.
  Lemma bound_resp_r : N.of_nat (length (vm_chunks Pideal_r (bresp Pideal_r) wsp)) < 65536.
  Proof. vm_compute. reflexivity. Qed.

  (* 1 instantiated: whatever the client accepts starts with the 38 bytes its own server sealed *)
  Example ideal_resp_accept_is_own : forall src b r it, client_vdecode Pideal_r h0 sess None src = Ok (Some b, r, it) ->
    exists out, src = resp_header Pideal_r h0 sess ++ out /\
                client_vdecode Pideal_r h0 sess (Some (bresp Pideal_r)) out = Ok (Some b, r, it).
  Proof. exact (vm_resp_header_accept_is_own Pideal_r h0 sess foreign_tbl ideal_r_lens ideal_resp_forge_free ideal_resp_separate). Qed.
  Example ideal_resp_tampered_refused : forall src, ~ lprefix (resp_header Pideal_r h0 sess) src ->
    client_vdecode Pideal_r h0 sess None src = Err EAead \/
    (lenN src < 38 /\ client_vdecode Pideal_r h0 sess None src = Ok (None, src, None)).
  Proof. exact (vm_resp_header_tampered_refused Pideal_r h0 sess foreign_tbl ideal_r_lens ideal_resp_forge_free ideal_resp_separate). Qed.
  Example ideal_resp_tampered_rejected : forall src, 38 <= lenN src -> takeN 38 src <> resp_header Pideal_r h0 sess ->
    client_vdecode Pideal_r h0 sess None src = Err EAead.
  Proof. exact (vm_resp_header_tampered_rejected Pideal_r h0 sess foreign_tbl ideal_r_lens ideal_resp_forge_free ideal_resp_separate). Qed.

  (* the response to the other request: forge-freeness over the units of both sessions follows from the table of
     everything by key separation (vm_resp_separation) and weakening *)
  Example ideal_resp_forge_free_two : vm_resp_forge_free Pideal_r sess (vm_resp_units Pideal_r h0 sess ++ vm_resp_units Pideal_r h0 sess2).
  Proof.
    apply (vm_resp_forge_free_weaken Pideal_r sess (vm_resp_units Pideal_r h0 sess)); [apply incl_appl, incl_refl|].
    exact (vm_resp_separation Pideal_r sess _ foreign_tbl ideal_resp_separate ideal_resp_forge_free).
  Qed.
  Example ideal_headers_differ : resp_header Pideal_r h0 sess2 <> resp_header Pideal_r h0 sess.
  Proof. apply bytes_neq. vm_compute. reflexivity. Qed.
  Example ideal_other_session_refused : forall out,
    client_vdecode Pideal_r h0 sess None (resp_header Pideal_r h0 sess2 ++ out) = Err EAead.
  Proof.
    exact (vm_resp_from_other_session_refused Pideal_r ideal_r_laws h0 sess h0 sess2 ideal_resp_forge_free_two
             ideal_keys_separate ideal_headers_differ).
  Qed.

  (* the client's own request reflected *)
  Definition req_units_r : list hunit := vm_request_units Pideal_r uid authid0 cnonce hb0 (breq Pideal_r) wsq.
  Example ideal_req_units_foreign : incl req_units_r foreign_tbl.
  Proof.
    assert (E : forallb (fun u => existsb (fun v => hunit_match (fst (fst (fst (fst u)))) (snd (fst (fst (fst u)))) (snd (fst (fst u))) (snd u) v
                                                   && bytes_eqb (snd (fst u)) (snd (fst v))) foreign_tbl) req_units_r = true)
      by (vm_compute; reflexivity).
    rewrite forallb_forall in E. intros u Hu. specialize (E u Hu). apply existsb_exists in E. destruct E as (v & Hv & Hm).
    apply andb_prop in Hm. destruct Hm as [Hm H5]. destruct u as [[[[k n] a] m] ct], v as [[[[k' n'] a'] m'] ct']. cbn [fst snd] in *.
    unfold hunit_match in Hm. apply andb_prop in Hm. destruct Hm as [Hm H4]. apply andb_prop in Hm. destruct Hm as [Hm H3].
    apply andb_prop in Hm. destruct Hm as [H1 H2].
    apply bytes_eqb_true in H1. apply bytes_eqb_true in H2. apply bytes_eqb_true in H3. apply bytes_eqb_true in H4. apply bytes_eqb_true in H5.
    subst. exact Hv.
  Qed.
  Example ideal_req_separate : vm_resp_separate_from Pideal_r sess req_units_r.
  Proof. intros u Hu. apply ideal_resp_separate. apply ideal_req_units_foreign. exact Hu. Qed.
  Example ideal_resp_forge_free_req : vm_resp_forge_free Pideal_r sess (vm_resp_units Pideal_r h0 sess ++ req_units_r).
  Proof.
    apply (vm_resp_forge_free_weaken Pideal_r sess (vm_resp_units Pideal_r h0 sess)); [apply incl_appl, incl_refl|].
    exact (vm_resp_separation Pideal_r sess _ foreign_tbl ideal_resp_separate ideal_resp_forge_free).
  Qed.
  Definition req_r : bytes := seal_header Pideal_r uid authid0 cnonce hb0 ++ vm_wire Pideal_r (breq Pideal_r) wsq.
  Example ideal_reflected_request_refused : forall out, takeN 38 (req_r ++ out) <> resp_header Pideal_r h0 sess ->
    client_vdecode Pideal_r h0 sess None (req_r ++ out) = Err EAead.
  Proof.
    refine (vm_resp_reflected_request_refused Pideal_r ideal_r_laws uid h0 sess authid0 cnonce hb0 wsq
              ideal_resp_forge_free_req ideal_req_separate _). vm_compute. reflexivity.
  Qed.
  Example ideal_reflected_request_refused_nil : client_vdecode Pideal_r h0 sess None req_r = Err EAead.
  Proof.
    rewrite <- (app_nil_r req_r). apply ideal_reflected_request_refused. rewrite app_nil_r. apply bytes_neq. vm_compute. reflexivity.
  Qed.

  (* 2 instantiated: whatever arrives at the client after its request, however segmented *)
  Example ideal_response_released_is_prefix : forall segs,
    let '(_, _, items, st) := Framed.run _ _ (client_vdecode Pideal_r h0 sess) None [] segs [] in
    lprefix (concat items) (world ++ hello) /\ (st = Waiting \/ st = Failed EAead).
  Proof.
    exact (vm_response_released_is_prefix Pideal_r h0 sess foreign_tbl ideal_r_lens eq_refl ideal_resp_forge_free ideal_resp_separate
             wsp ideal_r_body_forge_free bound_resp_r).
  Qed.
  (* ... and the untampered response is released completely by the SAME opener (the statement is not vacuous) *)
  Definition resp_r : bytes := resp_header Pideal_r h0 sess ++ vm_wire Pideal_r (bresp Pideal_r) wsp.
  Definition outcome_r (segs : list bytes) : bytes * fstatus :=
    let '(_, _, items, st) := Framed.run _ _ (client_vdecode Pideal_r h0 sess) None [] segs [] in (concat items, st).
  Example ideal_response_honest_all : outcome_r [firstn 20 resp_r; firstn 40 (skipn 20 resp_r); skipn 60 resp_r] = (world ++ hello, Waiting).
  Proof. vm_compute. reflexivity. Qed.
  Example ideal_response_honest_one_segment : outcome_r [resp_r] = (world ++ hello, Waiting).
  Proof. vm_compute. reflexivity. Qed.
  
  (* ---- computed runs with the tag-checking toy AEAD (prim_laws hold: its open really recomputes the tag) ---- *)
  Definition resp0 : bytes := resp_header Ptoy h0 sess ++ r0.          (* 18 + 20 header bytes, then the body stream r0 *)
  Definition bresp2 : body := body_new Ptoy opt0 sec0 (resp_key Ptoy sess2) (resp_iv Ptoy sess2) (vs_key sess2) (vs_iv sess2).
  Definition resp2 : bytes := resp_header Ptoy h0 sess2 ++ vm_wire Ptoy bresp2 wsp.     (* the genuine answer to the OTHER request *)
  Definition cdec0 (src : bytes) := client_vdecode Ptoy h0 sess None src.
  Definition is_eaead {A} (r : res A) : bool := match r with Err EAead => true | _ => false end.
  Definition flipbit (i : nat) (b : N) (l : bytes) : bytes :=
    firstn i l ++ match skipn i l with x :: t => N.lxor x (2 ^ b) :: t | [] => [] end.
  Definition routcome (segs : list bytes) : bytes * fstatus :=
    let '(_, _, items, st) := Framed.run _ _ (client_vdecode Ptoy h0 sess) None [] segs [] in (concat items, st).

  Example resp_header_len : length (resp_header Ptoy h0 sess) = 38%nat. Proof. vm_compute. reflexivity. Qed.
  Example resp_honest : match cdec0 resp0 with Ok (Some _, [], Some d) => d = world ++ hello | _ => False end.
  Proof. vm_compute. reflexivity. Qed.
  Example resp_honest_header_alone : cdec0 (resp_header Ptoy h0 sess) = Ok (Some (bresp Ptoy), [], None).
  Proof. vm_compute. reflexivity. Qed.
  Example resp_honest_run : routcome [firstn 20 resp0; firstn 40 (skipn 20 resp0); skipn 60 resp0] = (world ++ hello, Waiting).
  Proof. vm_compute. reflexivity. Qed.
  (* EVERY bit of EVERY one of the 38 header bytes (304 single-bit flips): authentication error, nothing released *)
  Example resp_header_every_bit_flip_refused :
    forallb (fun i => forallb (fun b => is_eaead (cdec0 (flipbit i b resp0))) [0; 1; 2; 3; 4; 5; 6; 7]) (seq 0 38) = true.
  Proof. vm_cast_no_check (eq_refl true). Qed.
  (* ... the same when only the (flipped) header has arrived (low bit of every byte), and under FramedRead in two segments *)
  Example resp_header_every_byte_flip_refused_alone :
    forallb (fun i => is_eaead (cdec0 (flipbit i 0 (resp_header Ptoy h0 sess)))) (seq 0 38) = true.
  Proof. vm_cast_no_check (eq_refl true). Qed.
  Example resp_flipped_run : routcome [firstn 30 (flipbit 25 3 resp0); skipn 30 (flipbit 25 3 resp0)] = ([], Failed EAead).
  Proof. vm_compute. reflexivity. Qed.
  (* truncated / one byte inserted in front / header duplicated / header missing *)
  Example resp_truncated_waits : cdec0 (firstn 37 resp0) = Ok (None, firstn 37 resp0, None). Proof. vm_compute. reflexivity. Qed.
  Example resp_inserted : cdec0 (0 :: resp0) = Err EAead. Proof. vm_compute. reflexivity. Qed.
  Example resp_header_twice : routcome [resp_header Ptoy h0 sess ++ resp0] = ([], Failed EAead). Proof. vm_compute. reflexivity. Qed.
  Example resp_header_missing : cdec0 r0 = Err EAead. Proof. vm_compute. reflexivity. Qed.
  (* the genuine response to ANOTHER request (same user, same response byte 77): refused; also its header spliced in
     front of this session's body, and this session's header in front of the other session's body *)
  Example resp_other_session : cdec0 resp2 = Err EAead. Proof. vm_compute. reflexivity. Qed.
  Example resp_other_session_self : match client_vdecode Ptoy h0 sess2 None resp2 with Ok (Some _, [], Some d) => d = world ++ hello | _ => False end.
  Proof. vm_compute. reflexivity. Qed.
  Example resp_other_header_own_body : cdec0 (resp_header Ptoy h0 sess2 ++ r0) = Err EAead. Proof. vm_compute. reflexivity. Qed.
  Example resp_own_header_other_body : routcome [resp_header Ptoy h0 sess ++ vm_wire Ptoy bresp2 wsp] = ([], Failed EAead).
  Proof. vm_compute. reflexivity. Qed.
  (* the client's own request reflected: exactly what client_vencode wrote (first write), and the whole request stream *)
  Definition reqc : bytes :=
    match client_vencode Ptoy uid h0 sess None now0 rnd4 cnonce [9; 9; 9] hello padsrc with Ok (_, w) => w | _ => [] end.
  Example reqc_is_request_prefix : reqc = firstn (length reqc) req0 /\ Nat.ltb 38 (length reqc) = true. Proof. vm_compute. split; reflexivity. Qed.
  Example resp_reflected_request : cdec0 reqc = Err EAead /\ cdec0 req0 = Err EAead. Proof. vm_compute. split; reflexivity. Qed.
  Example resp_reflected_request_run : routcome [firstn 17 req0; skipn 17 req0; resp0] = ([], Failed EAead). Proof. vm_compute. reflexivity. Qed.
  (* after the genuine header: a flipped byte in the second chunk, the first chunk arrived earlier and was released *)
  Example resp_body_flip : routcome [firstn 130 (flipbit 150 0 resp0); skipn 130 (flipbit 150 0 resp0)] = (world, Failed EAead).
  Proof. vm_compute. reflexivity. Qed.

  (* 3: sealed under the genuine keys but malformed *)
  Example resp_empty_header : cdec0 (vm_sealed_resp_header Ptoy sess [] ++ r0) = Err EBadAuth. Proof. vm_compute. reflexivity. Qed.
  Example resp_wrong_byte : cdec0 (vm_sealed_resp_header Ptoy sess [78; 29; 0; 0] ++ r0) = Err EBadAuth. Proof. vm_compute. reflexivity. Qed.
  Example resp_truncated_header : exists src, src = firstn 30 resp0 /\ cdec0 src = Ok (None, src, None). Proof. eexists. split; [reflexivity|]. vm_compute. reflexivity. Qed.
  (* REFUTED expectation: a ONE-byte header [77] is accepted and the body behind it released *)
  Example resp_one_byte_header_accepted :
    match cdec0 (vm_sealed_resp_header Ptoy sess [77] ++ r0) with Ok (Some _, [], Some d) => d = world ++ hello | _ => False end.
  Proof. vm_compute. reflexivity. Qed.
  Definition toy_malformed_refused := vm_resp_malformed_header_refused Ptoy Ptoy_laws.
  Definition toy_short_header_accepted := vm_resp_short_header_refused_refuted Ptoy Ptoy_laws.
End VmessRespTamperExamples.

Print Assumptions VmessRespTamperExamples.ideal_resp_forge_free.
Print Assumptions VmessRespTamperExamples.ideal_resp_separate.
Print Assumptions VmessRespTamperExamples.ideal_keys_separate.
Print Assumptions VmessRespTamperExamples.ideal_r_lens.
Print Assumptions VmessRespTamperExamples.ideal_r_body_forge_free.
Print Assumptions VmessRespTamperExamples.ideal_resp_accept_is_own.
Print Assumptions VmessRespTamperExamples.ideal_resp_tampered_refused.
Print Assumptions VmessRespTamperExamples.ideal_resp_tampered_rejected.
Print Assumptions VmessRespTamperExamples.ideal_other_session_refused.
Print Assumptions VmessRespTamperExamples.ideal_reflected_request_refused.
Print Assumptions VmessRespTamperExamples.ideal_reflected_request_refused_nil.
Print Assumptions VmessRespTamperExamples.ideal_response_released_is_prefix.
Print Assumptions VmessRespTamperExamples.ideal_response_honest_all.
Print Assumptions VmessRespTamperExamples.resp_header_every_bit_flip_refused.
Print Assumptions VmessRespTamperExamples.resp_other_session.
Print Assumptions VmessRespTamperExamples.resp_reflected_request.
Print Assumptions VmessRespTamperExamples.resp_one_byte_header_accepted.
