(* VMess AEAD TCP tunnel (stream mode), end to end over WHOLE streams: several writes through one encoder, the
   concatenated wire cut into ARBITRARY segments, decoded under FramedRead (Lib/Framed.run).

   vmess_request_stream    client writes ws (non-empty list; the first write may be empty: header alone) through
                           vm_client_enc -> one message per write -> any segmentation -> server_vdecode from SInit:
                           items = ConnectTcp first target :: map RelayTcp relays, first ++ concat relays = concat ws,
                           status Waiting, nothing buffered, final state SReady h s bf.
   vmess_response_stream   the target's reads ts (possibly [], elements possibly empty) through vm_server_enc h s ->
                           any segmentation -> client_vdecode from None: the items concatenate to concat ts,
                           status Waiting, nothing buffered.

   Premises on the primitives are Section hypotheses (never axioms): prim_laws P, lenN / wf_bytes of SHAKE128,
   the AES block length (the auth id is 16 bytes on the wire).

   Reusable lemmas:
     generic     vs_app_split, drain_map / feed_map / run_map (a decoder that is `map`-related to another one)
     body        crunS_app, crunS_segs_general, one_write_canon, enc_all / enc_all_canon (all chunks of all writes = one
                 run of the unit machine with EMPTY rest), first_decode, stable_poll, established_run
     request     open_header_short / open_header_wait (prefix version of seal_open_header_roundtrip), server_waits,
                 server_crosses, req_run_general, client_msgs_established, client_msgs_first
     response    resp_header_len, client_waits, client_run_empty, resp_run_general, server_msgs_established,
                 server_msgs_first *)
From Coq Require Import List NArith ZArith Lia Bool Arith ZifyBool ZifyN ZifyNat.
From Octo Require Import Base.Bytes Crypto.Prims Model.NonceGen Model.Utf8 Model.Address Model.SsTcp Model.Vmess Lib.Framed Lib.Canon Proofs.AddressFacts Proofs.VmessSafety Proofs.VmessFacts Proofs.VmessRoundtrip Model.EndToEnd.
Import ListNotations.  Open Scope N_scope.

(* ====================================================================================================== *)
(* 0. Generic helpers                                                                                      *)
(* ====================================================================================================== *)
Lemma vs_app_split {A} : forall (b a x y : list A), a ++ x = b ++ y -> (length b <= length a)%nat ->
  exists q, a = b ++ q /\ y = q ++ x.
Proof.
  induction b as [|e b IH]; intros a x y H Hl.
  - exists a. cbn [app] in *. auto.
  - destruct a as [|e' a]; [cbn [length] in Hl; lia|]. cbn [app] in H. injection H as -> H.
    destruct (IH a x y H) as (q & -> & ->); [cbn [length] in Hl; lia|]. exists q. auto.
Qed.

Lemma vs_app_split_N : forall (b a x y : bytes), a ++ x = b ++ y -> lenN b <= lenN a ->
  exists q, a = b ++ q /\ y = q ++ x.
Proof. intros b a x y H Hl. apply vs_app_split; [exact H|]. rewrite !lenN_spec in Hl. lia. Qed.

(* a decoder d2 that is d1 with states and items mapped: the same under FramedRead *)
Section FramedMap.
  Variables (St1 St2 I1 I2 : Type).
  Variable d1 : St1 -> bytes -> res (St1 * bytes * option I1).
  Variable d2 : St2 -> bytes -> res (St2 * bytes * option I2).
  Variable fs : St1 -> St2.
  Variable fi : I1 -> I2.
  Hypothesis Hmap : forall s buf, d2 (fs s) buf =
    match d1 s buf with Ok (s', r, it) => Ok (fs s', r, option_map fi it) | Err e => Err e | Panic => Panic end.

  Lemma drain_map : forall fuel s buf acc acc2,
    Framed.drain _ _ d2 fuel (fs s) buf (acc2 ++ map fi acc) =
    let '(s', r, items, st) := Framed.drain _ _ d1 fuel s buf acc in (fs s', r, acc2 ++ map fi items, st).
  Proof.
    induction fuel as [|f IH]; intros s buf acc acc2; cbn [Framed.drain]; [reflexivity|].
    rewrite Hmap. destruct (d1 s buf) as [[[s' r] [it|]]|e|]; cbn [option_map]; try reflexivity.
    rewrite <- app_assoc. change [fi it] with (map fi [it]). rewrite <- map_app. apply IH.
  Qed.

  Lemma feed_map s buf seg :
    Framed.feed _ _ d2 (fs s) buf seg =
    let '(s', r, items, st) := Framed.feed _ _ d1 s buf seg in (fs s', r, map fi items, st).
  Proof. unfold Framed.feed. cbv zeta. exact (drain_map _ s (buf ++ seg) [] []). Qed.

  Lemma run_map : forall segs s buf acc acc2,
    Framed.run _ _ d2 (fs s) buf segs (acc2 ++ map fi acc) =
    let '(s', r, items, st) := Framed.run _ _ d1 s buf segs acc in (fs s', r, acc2 ++ map fi items, st).
  Proof.
    induction segs as [|seg t IH]; intros s buf acc acc2; cbn [Framed.run]; [reflexivity|].
    rewrite feed_map. destruct (Framed.feed _ _ d1 s buf seg) as [[[s' r] items] st].
    destruct st; rewrite <- ?app_assoc, <- ?map_app; try reflexivity. apply IH.
  Qed.
End FramedMap.

(* ====================================================================================================== *)
(* 1. The VMess streams                                                                                    *)
(* ====================================================================================================== *)
Section VmessStream.
  Variable P : prims.
  Hypothesis HL : prim_laws P.
  Hypothesis shake_len : forall seed n, lenN (p_shake128 P seed n) = n.
  Hypothesis shake_wf : forall seed n, wf_bytes (p_shake128 P seed n).
  Hypothesis aes_block_len : forall k b, lenN b = 16 -> lenN (p_aes_enc P k b) = 16.

  Lemma HLens : vm_lens P.
  Proof. constructor. exact (open_len P HL). Qed.

  (* ---- the unit machine of the body (VmessFacts.crunS): Canon.run_app / run_segs_general instantiated ---- *)
  Lemma crunS_app c s b :
    crunS P s (c ++ b) =
    match crunS P s c with
    | Stop s1 r1 o1 =>
        match crunS P s1 (r1 ++ b) with
        | Stop s2 r2 o2 => Stop s2 r2 (o1 ++ o2)
        | Fail o2 => Fail (o1 ++ o2)
        end
    | Fail o1 => Fail o1
    end.
  Proof.
    exact (Canon.run_app body (list N) (@app N) [] (@app_assoc N) (@app_nil_l N) need (step P N (fun pl => pl))
                         (need_pos N (fun pl => pl)) need_mono c s b).
  Qed.

  Lemma crunS_segs_general segs s left acc : crunS P s left = Stop s left [] ->
    gcrun_segs body N need (step P N (fun pl => pl)) s left segs acc =
    match crunS P s (left ++ concat segs) with
    | Stop s2 r2 o2 => Stop s2 r2 (acc ++ o2)
    | Fail o2 => Fail (acc ++ o2)
    end.
  Proof.
    exact (Canon.run_segs_general body (list N) (@app N) [] (@app_assoc N) (@app_nil_l N) (@app_nil_r N) need
                                  (step P N (fun pl => pl)) (need_pos N (fun pl => pl)) need_mono segs s left acc).
  Qed.

  Lemma crunS_nil s : crunS P s [] = Stop s [] [].
  Proof. unfold crunS. apply crun_nil. Qed.
  Lemma crunS_stable s c s' r o : crunS P s c = Stop s' r o -> crunS P s' r = Stop s' r [].
  Proof. unfold crunS. apply crun_stable. Qed.

  Lemma item_of_inj a b : item_of a = item_of b -> a = b.
  Proof. destruct a, b; cbn [item_of]; congruence. Qed.
  Lemma item_of_get o : match item_of o with Some d => d | None => [] end = o.
  Proof. destruct o; reflexivity. Qed.

  (* ---- encoder side: all chunks of all writes, from one body ---- *)
  Lemma one_write_canon b w pad : b_state b = BPadding ->
    crunS P (norm P b) (fst (encode_payload_v P (S (length w)) b w pad)) =
      Stop (norm P (snd (encode_payload_v P (S (length w)) b w pad))) [] w /\
    b_state (snd (encode_payload_v P (S (length w)) b w pad)) = BPadding.
  Proof.
    intros Hst. pose proof (body_roundtrip_stream P HL shake_len shake_wf b w pad Hst) as HR.
    destruct (encode_payload_v P (S (length w)) b w pad) as [wire b']. cbn [fst snd].
    destruct HR as (HR & _ & Hst'). split; [|exact Hst'].
    pose proof (decode_payload_v_is_canon P HLens b wire (wf_padding b Hst)) as HC. rewrite HR in HC.
    destruct (crunS P (norm P b) wire) as [s2 r2 o2|o2]; [|contradiction].
    destruct HC as (H1 & H2 & H3 & _). change (item_of w = item_of o2) in H3. apply item_of_inj in H3.
    subst. reflexivity.
  Qed.

  (* the chunks of each write (one padding source per write) and the final body *)
  Fixpoint enc_all (b : body) (ws pads : list bytes) : list bytes * body :=
    match ws with
    | [] => ([], b)
    | w :: t =>
        (fst (encode_payload_v P (S (length w)) b w (fst (pop_pad pads))) ::
           fst (enc_all (snd (encode_payload_v P (S (length w)) b w (fst (pop_pad pads)))) t (snd (pop_pad pads))),
         snd (enc_all (snd (encode_payload_v P (S (length w)) b w (fst (pop_pad pads)))) t (snd (pop_pad pads))))
    end.

  Lemma enc_all_canon : forall ws b pads, b_state b = BPadding ->
    crunS P (norm P b) (concat (fst (enc_all b ws pads))) = Stop (norm P (snd (enc_all b ws pads))) [] (concat ws).
  Proof.
    induction ws as [|w t IH]; intros b pads Hst.
    - cbn [enc_all fst snd concat]. apply crunS_nil.
    - cbn [enc_all fst snd concat].
      destruct (one_write_canon b w (fst (pop_pad pads)) Hst) as [H1 H2].
      rewrite crunS_app, H1. cbn [app]. rewrite (IH _ _ H2). reflexivity.
  Qed.

  (* ---- decoder side ---- *)
  (* the poll that sees the first body bytes [out]; [tl] is what arrives later *)
  Lemma first_decode b out tl sF rF W : wf b ->
    crunS P (norm P b) (out ++ tl) = Stop sF rF W ->
    exists b1 r1 o1 o2,
      decode_payload_v P b out = Ok (b1, r1, item_of o1) /\ wf b1 /\ norm P b1 = b1 /\
      crunS P b1 r1 = Stop b1 r1 [] /\ crunS P b1 (r1 ++ tl) = Stop sF rF o2 /\ W = o1 ++ o2.
  Proof.
    intros Hw H. rewrite crunS_app in H.
    pose proof (decode_payload_v_is_canon P HLens b out Hw) as HC.
    destruct (crunS P (norm P b) out) as [s1 r1 o1|o1] eqn:E; [|discriminate].
    destruct (decode_payload_v P b out) as [[[b1 r1'] it]|e|]; try contradiction.
    destruct HC as (-> & -> & -> & Hw1 & Hn1).
    destruct (crunS P s1 (r1 ++ tl)) as [s2 r2 o2|o2] eqn:E2; [|discriminate].
    injection H as -> -> <-. exists s1, r1, o1, o2.
    split; [reflexivity|]. split; [exact Hw1|]. split; [apply norm_normal; exact Hn1|].
    split; [eapply crunS_stable; exact E|]. split; [exact E2|reflexivity].
  Qed.

  (* a FramedRead decoder that is vbody_dec with states and items mapped (server: SReady h s / RelayTcp;
     client: Some / identity) *)
  Section Mapped.
    Variables (St2 I2 : Type).
    Variable D : St2 -> bytes -> res (St2 * bytes * option I2).
    Variable fs : body -> St2.
    Variable fi : bytes -> I2.
    Hypothesis Hmap : forall b buf, D (fs b) buf =
      match vbody_dec P b buf with Ok (b', r, it) => Ok (fs b', r, option_map fi it) | Err e => Err e | Panic => Panic end.

    (* nothing whole is buffered: the poll releases nothing and keeps the buffer *)
    Lemma stable_poll b1 r1 : wf b1 -> crunS P (norm P b1) r1 = Stop (norm P b1) r1 [] ->
      exists b1', D (fs b1) r1 = Ok (fs b1', r1, None) /\ norm P b1' = norm P b1 /\ wf b1'.
    Proof.
      intros Hw Hs. pose proof (vbody_dec_canon P HLens b1 r1 Hw) as H. rewrite Hs in H.
      destruct H as (b1' & H & Hn & Hw'). exists b1'. rewrite Hmap, H. auto.
    Qed.

    Lemma established_run : forall t b1 r1 acc sF rF o2, wf b1 ->
      crunS P (norm P b1) r1 = Stop (norm P b1) r1 [] ->
      crunS P (norm P b1) (r1 ++ concat t) = Stop sF rF o2 ->
      exists sf items,
        Framed.run _ _ D (fs b1) r1 t acc = (fs sf, rF, acc ++ map fi items, Waiting) /\ concat items = o2.
    Proof.
      intros t b1 r1 acc sF rF o2 Hw Hst Hrun.
      pose proof (run_map body St2 bytes I2 (vbody_dec P) D fs fi Hmap t b1 r1 [] acc) as HM.
      cbn [map] in HM. rewrite app_nil_r in HM. rewrite HM. clear HM.
      pose proof (frun_canon body N bytes (vbody_dec P) need (step P N (fun pl => pl)) (norm P) wf (@concat N)
                             (@concat_app N) (feed_canonS P HLens) t b1 r1 [] [] eq_refl Hw) as HF.
      rewrite (crunS_segs_general t (norm P b1) r1 [] Hst) in HF. rewrite Hrun in HF. cbn [app] in HF.
      destruct HF as (s2' & items & HR & _ & Hc & _). rewrite HR. exists s2', items. split; [reflexivity|exact Hc].
    Qed.
  End Mapped.

  (* ====================================================================================================== *)
  (* 2. Request direction                                                                                  *)
  (* ====================================================================================================== *)
  (* the sealed header with fewer than lenN hb + 16 bytes of the sealed payload behind the connection nonce *)
  Lemma open_header_short key authid cnonce hb q :
    lenN authid = 16 -> lenN cnonce = 8 -> lenN hb < 65536 -> lenN q < lenN hb + 16 ->
    open_header P key
      (authid ++ p_seal P 0 (kdf16 P key [str_len_key; authid; cnonce]) (kdf12 P key [str_len_iv; authid; cnonce]) authid
                        (put_u16 (lenN hb mod 65536)) ++ cnonce ++ q) = Ok None.
  Proof.
    intros Ha Hc Hh Hq.
    set (lk := kdf16 P key [str_len_key; authid; cnonce]). set (li := kdf12 P key [str_len_iv; authid; cnonce]).
    set (sl := p_seal P 0 lk li authid (put_u16 (lenN hb mod 65536))).
    assert (Hsl : lenN sl = 18) by (subst sl; rewrite (seal_len P HL), lenN_put_u16; reflexivity).
    assert (Ho1 : p_open P 0 lk li authid sl = Some (put_u16 (lenN hb mod 65536))) by apply (open_seal P HL).
    clearbody sl. set (src := authid ++ sl ++ cnonce ++ q).
    assert (Hlen : lenN src = 16 + 18 + 8 + lenN q) by (subst src; rewrite !lenN_app; lia).
    unfold open_header. cbv zeta.
    destruct (N.ltb_spec (lenN src) (16 + 18 + 8 + 16)) as [_|Hx]; [reflexivity|].
    assert (T16 : takeN 16 src = authid) by (apply takeN_app_n; exact Ha).
    assert (D16 : dropN 16 src = sl ++ cnonce ++ q) by (apply dropN_app_n; exact Ha).
    assert (D34 : dropN 34 src = cnonce ++ q).
    { subst src. rewrite (app_assoc authid sl). apply dropN_app_n. rewrite lenN_app. lia. }
    assert (D42 : dropN 42 src = q).
    { subst src. rewrite (app_assoc authid sl), (app_assoc (authid ++ sl) cnonce). apply dropN_app_n. rewrite !lenN_app. lia. }
    rewrite T16, D16, D34, D42. rewrite (takeN_app_n 18 sl) by exact Hsl. rewrite (takeN_app_n 8 cnonce) by exact Hc.
    fold lk li. rewrite Ho1. rewrite lenN_put_u16. cbn [N.eqb Pos.eqb negb].
    rewrite N.mod_small by exact Hh. unfold put_u16. rewrite be_put_be by (change (256 ^ 2) with 65536; exact Hh).
    destruct (N.ltb_spec (lenN q) (lenN hb + 16)) as [_|Hx2]; [reflexivity|lia].
  Qed.

  Section Request.
    Variables (now : N) (keys : list bytes) (id : bytes) (h : req_header) (s : vsession) (authid cnonce hb : bytes).
    Hypothesis Hcmd : rh_cmd h = CmdTcp.
    Hypothesis Haid : lenN authid = 16.
    Hypothesis Hcn : lenN cnonce = 8.
    Hypothesis Hhl : lenN hb < 65536.
    Hypothesis Hmatch : auth_id_matching P now authid keys = Some id.
    Hypothesis Hparse : parse_header hb = Ok (h, s).
    Local Notation HDR := (seal_header P id authid cnonce hb).
    Local Notation b0 := (body_new P (rh_opt h) (rh_sec h) (vs_key s) (vs_iv s) (vs_key s) (vs_iv s)).

    (* prefix version of seal_open_header_roundtrip: a strict prefix of the sealed header makes open_header wait *)
    Lemma open_header_wait buf tail rest : buf ++ tail = HDR ++ rest -> lenN buf < lenN HDR ->
      open_header P id buf = Ok None.
    Proof.
      intros Heq Hlt. rewrite (seal_header_len P HL) in Hlt.
      destruct (N.lt_ge_cases (lenN buf) (16 + 18 + 8 + 16)) as [H58|H58].
      { unfold open_header. destruct (N.ltb_spec (lenN buf) (16 + 18 + 8 + 16)) as [_|Hx]; [reflexivity|lia]. }
      unfold seal_header in Heq. cbv zeta in Heq.
      set (sl := p_seal P 0 (kdf16 P id [str_len_key; authid; cnonce]) (kdf12 P id [str_len_iv; authid; cnonce]) authid
                        (put_u16 (lenN hb mod 65536))) in Heq |- *.
      assert (Hsl : lenN sl = 18) by (subst sl; rewrite (seal_len P HL), lenN_put_u16; reflexivity).
      set (sh := p_seal P 0 (kdf16 P id [str_pay_key; authid; cnonce]) (kdf12 P id [str_pay_iv; authid; cnonce]) authid hb) in Heq |- *.
      assert (Heq' : buf ++ tail = (authid ++ sl ++ cnonce) ++ (sh ++ rest)).
      { rewrite Heq, <- !app_assoc. reflexivity. }
      destruct (vs_app_split_N _ _ _ _ Heq') as (q & Hb & _).
      { rewrite !lenN_app. lia. }
      assert (Hq : lenN q < lenN hb + 16).
      { rewrite Hb, !lenN_app in Hlt. lia. }
      rewrite Hb, <- !app_assoc. subst sl. apply open_header_short; assumption.
    Qed.

    Lemma server_waits buf tail rest : buf ++ tail = HDR ++ rest -> lenN buf < lenN HDR ->
      server_vdecode P now keys SInit buf = Ok (SInit, buf, None).
    Proof.
      intros Heq Hlt. unfold server_vdecode.
      destruct (N.ltb_spec (lenN buf) 16) as [_|H16]; [reflexivity|].
      assert (T16 : takeN 16 buf = authid).
      { pose proof Heq as Heq'. unfold seal_header in Heq'. cbv zeta in Heq'. rewrite <- !app_assoc in Heq'.
        destruct (vs_app_split_N _ _ _ _ Heq') as (q & -> & _); [lia|]. apply takeN_app_n. exact Haid. }
      rewrite T16, Hmatch. rewrite (open_header_wait buf tail rest Heq Hlt). reflexivity.
    Qed.

    (* the poll that completes the header *)
    Lemma server_crosses out :
      server_vdecode P now keys SInit (HDR ++ out) =
      let* (b', rest', it) := decode_payload_v P b0 out in
      Ok (SReady h s b', rest', Some (ConnectTcp (match it with Some d => d | None => [] end) (rh_addr h))).
    Proof.
      unfold server_vdecode.
      destruct (N.ltb_spec (lenN (HDR ++ out)) 16) as [Hx|_].
      { exfalso. rewrite lenN_app, (seal_header_len P HL) in Hx. lia. }
      rewrite (seal_header_take16 P id authid cnonce hb out Haid). rewrite Hmatch.
      rewrite (seal_open_header_roundtrip P HL id authid cnonce hb out Haid Hcn Hhl). cbn [bind].
      rewrite Hparse. cbn [bind]. cbv zeta. rewrite Hcmd. reflexivity.
    Qed.

    Lemma server_map : forall b buf, server_vdecode P now keys (SReady h s b) buf =
      match vbody_dec P b buf with
      | Ok (b', r, it) => Ok (SReady h s b', r, option_map RelayTcp it) | Err e => Err e | Panic => Panic end.
    Proof. intros b buf. rewrite (server_ready_tcp P now keys h s b buf Hcmd). reflexivity. Qed.

    (* wait while the sealed header is incomplete, cross, then the body: any segmentation *)
    Lemma req_run_general : forall B sF W, crunS P (norm P b0) B = Stop sF [] W ->
      forall segs buf acc, lenN buf < lenN HDR -> buf ++ concat segs = HDR ++ B ->
      exists first relays bf,
        Framed.run _ _ (server_vdecode P now keys) SInit buf segs acc =
          (SReady h s bf, [], acc ++ ConnectTcp first (rh_addr h) :: map RelayTcp relays, Waiting) /\
        first ++ concat relays = W.
    Proof.
      intros B sF W HB. induction segs as [|seg t IH]; intros buf acc Hl Heq.
      - cbn [concat] in Heq. rewrite app_nil_r in Heq. subst buf. rewrite lenN_app in Hl. lia.
      - cbn [concat] in Heq. rewrite app_assoc in Heq. cbn [Framed.run]. unfold Framed.feed. cbv zeta.
        destruct (N.lt_ge_cases (lenN (buf ++ seg)) (lenN HDR)) as [Hb|Hb].
        + cbn [Nat.add Framed.drain].
          rewrite (server_waits (buf ++ seg) (concat t) B Heq Hb). rewrite app_nil_r. apply IH; assumption.
        + destruct (vs_app_split_N _ _ _ _ Heq Hb) as (out & Hf & HBeq). rewrite Hf.
          cbn [Nat.add Framed.drain]. rewrite server_crosses.
          rewrite HBeq in HB.
          destruct (first_decode b0 out (concat t) sF [] W (wf_body_new P _ _ _ _ _ _) HB)
            as (b1 & r1 & o1 & o2 & HD & Hw1 & Hn1 & Hst & Hrun & HW).
          rewrite HD. cbn [bind]. rewrite item_of_get.
          rewrite <- Hn1 in Hst, Hrun.
          destruct (stable_poll _ _ _ (SReady h s) RelayTcp server_map b1 r1 Hw1 Hst) as (b1' & HP & Hn' & Hw').
          rewrite HP. cbn [app].
          rewrite <- Hn' in Hst, Hrun.
          destruct (established_run _ _ _ (SReady h s) RelayTcp server_map t b1' r1 (acc ++ [ConnectTcp o1 (rh_addr h)])
                                    sF [] o2 Hw' Hst Hrun) as (sf & items & HR & Hc).
          rewrite HR. exists o1, items, sf. split.
          * rewrite <- app_assoc. reflexivity.
          * rewrite Hc. symmetry. exact HW.
    Qed.
  End Request.

  (* ---- the client's messages ---- *)
  Lemma client_msgs_established c target : forall ws b pads,
    exists e, encode_msgs (vm_client_enc P c target) (Some b, pads) ws = Ok (e, fst (enc_all b ws pads)).
  Proof.
    induction ws as [|w t IH]; intros b pads.
    - exists (Some b, pads). reflexivity.
    - cbn [encode_msgs enc_all fst snd]. unfold vm_client_enc at 1. cbn [fst snd].
      destruct (pop_pad pads) as [pad pads']. cbn [fst snd].
      unfold client_vencode. cbn [bind vm_header rh_cmd].
      destruct (encode_payload_v P (S (length w)) b w pad) as [out b']. cbn [bind app fst snd].
      destruct (IH b' pads') as (e & He). rewrite He. cbn [bind]. exists e. reflexivity.
  Qed.

  Lemma client_msgs_first c target hb w ws :
    header_bytes (vm_header c target) (vm_sess c) (vm_hpad c) = Ok hb ->
    let b0 := body_new P (vm_opt c) (vm_sec c) (vs_key (vm_sess c)) (vs_iv (vm_sess c)) (vs_key (vm_sess c)) (vs_iv (vm_sess c)) in
    exists e,
      encode_msgs (vm_client_enc P c target) (None, vm_cpads c) (w :: ws) =
      Ok (e, (seal_header P (vm_id c) (auth_id_create P (vm_id c) (vm_ts c) (vm_rnd4 c)) (vm_cnonce c) hb ++
              hd [] (fst (enc_all b0 (w :: ws) (vm_cpads c)))) :: tl (fst (enc_all b0 (w :: ws) (vm_cpads c)))).
  Proof.
    intros Hhb b0. cbn [encode_msgs enc_all fst snd hd tl]. unfold vm_client_enc at 1. cbn [fst snd].
    destruct (pop_pad (vm_cpads c)) as [pad pads']. cbn [fst snd].
    rewrite (client_vencode_first P (vm_id c) (vm_header c target) (vm_sess c) (vm_ts c) (vm_rnd4 c) (vm_cnonce c)
                                  (vm_hpad c) w pad hb Hhb).
    cbv zeta. cbn [vm_header rh_cmd rh_opt rh_sec bind]. fold b0.
    destruct (client_msgs_established c target ws (snd (encode_payload_v P (S (length w)) b0 w pad)) pads') as (e & He).
    rewrite He. cbn [bind]. exists e. reflexivity.
  Qed.

  Theorem vmess_request_stream : forall (c : vm_cfg) (target : addr) ws,
    let h := vm_header c target in
    hdr_ok h -> sess_ok (vm_sess c) -> lenN (vm_hpad c) < 16 -> lenN (vm_rnd4 c) = 4 -> lenN (vm_cnonce c) = 8 ->
    auth_id_matching P (vm_snow c) (auth_id_create P (vm_id c) (vm_ts c) (vm_rnd4 c)) (vm_keys c) = Some (vm_id c) ->
    ws <> [] ->
    exists e msgs,
      encode_msgs (vm_client_enc P c target) (None, vm_cpads c) ws = Ok (e, msgs) /\
      forall segs, concat segs = concat msgs ->
        exists first relays bf,
          Framed.run _ _ (server_vdecode P (vm_snow c) (vm_keys c)) SInit [] segs [] =
            (SReady h (vm_sess c) bf, [], ConnectTcp first target :: map RelayTcp relays, Waiting) /\
          first ++ concat relays = concat ws.
  Proof.
    intros c target ws h (Hwf & Hrep & Hutf & Hopt & Hsec) (Hiv & Hkey) Hpad Hr4 Hcn Hmatch Hne.
    destruct (header_parse_roundtrip h (vm_sess c) (vm_hpad c) Hwf Hrep Hutf Hopt Hsec Hiv Hkey Hpad)
      as (hb & Hhb & Hparse & Hhl).
    destruct ws as [|w ws']; [contradiction Hne; reflexivity|].
    destruct (client_msgs_first c target hb w ws' Hhb) as (e & He). cbv zeta in He.
    pose proof (auth_id_create_len P aes_block_len (vm_id c) (vm_ts c) (vm_rnd4 c) Hr4) as Haid.
    set (authid := auth_id_create P (vm_id c) (vm_ts c) (vm_rnd4 c)) in *.
    set (b0 := body_new P (vm_opt c) (vm_sec c) (vs_key (vm_sess c)) (vs_iv (vm_sess c)) (vs_key (vm_sess c)) (vs_iv (vm_sess c))) in *.
    set (hdr := seal_header P (vm_id c) authid (vm_cnonce c) hb) in *.
    exists e, ((hdr ++ hd [] (fst (enc_all b0 (w :: ws') (vm_cpads c)))) :: tl (fst (enc_all b0 (w :: ws') (vm_cpads c)))).
    split; [exact He|]. intros segs Hsegs.
    pose proof (enc_all_canon (w :: ws') b0 (vm_cpads c) eq_refl) as HB.
    assert (Hcat : [] ++ concat segs = hdr ++ concat (fst (enc_all b0 (w :: ws') (vm_cpads c)))).
    { cbn [app]. rewrite Hsegs. cbn [enc_all fst hd tl concat]. rewrite <- app_assoc. reflexivity. }
    assert (Hl0 : lenN [] < lenN hdr).
    { subst hdr. rewrite (seal_header_len P HL), lenN_nil. lia. }
    destruct (req_run_general (vm_snow c) (vm_keys c) (vm_id c) h (vm_sess c) authid (vm_cnonce c) hb
                              eq_refl Haid Hcn ltac:(lia) Hmatch Hparse _ _ _ HB segs [] [] Hl0 Hcat)
      as (first & relays & bf & HR & HW).
    exists first, relays, bf. split; [exact HR|exact HW].
  Qed.

  (* ====================================================================================================== *)
  (* 3. Answer direction                                                                                   *)
  (* ====================================================================================================== *)
  Section Response.
    Variables (h : req_header) (s : vsession).
    Hypothesis Hcmd : rh_cmd h = CmdTcp.
    Local Notation RH := (resp_header P h s).
    Local Notation b0 := (body_new P (rh_opt h) (rh_sec h) (resp_key P s) (resp_iv P s) (vs_key s) (vs_iv s)).

    Lemma resp_header_len : lenN RH = 38.
    Proof. unfold resp_header. rewrite lenN_app, !(seal_len P HL), lenN_put_u16. reflexivity. Qed.

    (* a strict prefix of the 38-byte response header makes the client wait *)
    Lemma client_waits buf tail rest : buf ++ tail = RH ++ rest -> lenN buf < 38 ->
      client_vdecode P h s None buf = Ok (None, buf, None).
    Proof.
      intros Heq Hlt. destruct buf as [|x t]; [reflexivity|].
      unfold client_vdecode. cbv zeta. set (src := x :: t) in Heq, Hlt |- *.
      destruct (N.ltb_spec (lenN src) (2 + 16)) as [_|H18]; [reflexivity|].
      unfold resp_header in Heq.
      set (lk := kdf16 P (resp_key P s) [str_resp_len_key]) in Heq |- *.
      set (li := kdf12 P (resp_iv P s) [str_resp_len_iv]) in Heq |- *.
      set (sl := p_seal P 0 lk li [] (put_u16 4)) in Heq.
      set (sh := p_seal P 0 (kdf16 P (resp_key P s) [str_resp_pay_key]) (kdf12 P (resp_iv P s) [str_resp_pay_iv]) []
                        [vs_v s; rh_opt h; 0; 0]) in Heq.
      assert (Hsl : lenN sl = 18) by (subst sl; rewrite (seal_len P HL), lenN_put_u16; reflexivity).
      assert (Ho1 : p_open P 0 lk li [] sl = Some (put_u16 4)) by apply (open_seal P HL).
      clearbody sl sh. rewrite <- app_assoc in Heq.
      destruct (vs_app_split_N _ _ _ _ Heq) as (q & Hb & _); [lia|].
      assert (Hq : lenN q < 20) by (rewrite Hb, lenN_app in Hlt; lia).
      rewrite Hb. rewrite (takeN_app_n 18 sl q Hsl), (dropN_app_n 18 sl q Hsl). rewrite Ho1.
      unfold get_u16, put_u16. rewrite get_be_put_be_nil by (change (256 ^ 2) with 65536; lia). cbn [bind].
      destruct (N.ltb_spec (lenN q) (4 + 16)) as [_|Hx]; [reflexivity|lia].
    Qed.

    Lemma client_map : forall b buf, client_vdecode P h s (Some b) buf =
      match vbody_dec P b buf with
      | Ok (b', r, it) => Ok (Some b', r, option_map (fun x : bytes => x) it) | Err e => Err e | Panic => Panic end.
    Proof.
      intros b buf. rewrite (client_ready_tcp P h s b buf Hcmd).
      destruct (vbody_dec P b buf) as [[[b' r] [it|]]|e|]; reflexivity.
    Qed.

    (* nothing was written: every segment is empty *)
    Lemma client_run_empty : forall segs acc, concat segs = [] ->
      Framed.run _ _ (client_vdecode P h s) None [] segs acc = (None, [], acc, Waiting).
    Proof.
      induction segs as [|seg t IH]; intros acc Hc; [reflexivity|].
      cbn [concat] in Hc. apply app_eq_nil in Hc. destruct Hc as [-> Hc].
      cbn [Framed.run]. unfold Framed.feed. cbn [app length Nat.add Framed.drain client_vdecode].
      rewrite app_nil_r. apply IH. exact Hc.
    Qed.

    Lemma resp_run_general : forall B sF W, crunS P (norm P b0) B = Stop sF [] W ->
      forall segs buf acc, lenN buf < 38 -> buf ++ concat segs = RH ++ B ->
      exists items stf,
        Framed.run _ _ (client_vdecode P h s) None buf segs acc = (stf, [], acc ++ items, Waiting) /\
        concat items = W.
    Proof.
      intros B sF W HB. induction segs as [|seg t IH]; intros buf acc Hl Heq.
      - cbn [concat] in Heq. rewrite app_nil_r in Heq. subst buf. rewrite lenN_app, resp_header_len in Hl. lia.
      - cbn [concat] in Heq. rewrite app_assoc in Heq. cbn [Framed.run]. unfold Framed.feed. cbv zeta.
        destruct (N.lt_ge_cases (lenN (buf ++ seg)) 38) as [Hb|Hb].
        + cbn [Nat.add Framed.drain].
          rewrite (client_waits (buf ++ seg) (concat t) B Heq Hb). rewrite app_nil_r. apply IH; assumption.
        + rewrite <- resp_header_len in Hb.
          destruct (vs_app_split_N _ _ _ _ Heq Hb) as (out & Hf & HBeq). rewrite Hf.
          cbn [Nat.add Framed.drain].
          rewrite (client_vdecode_resp_header P HL shake_len shake_wf h s out). cbv zeta.
          rewrite HBeq in HB.
          destruct out as [|y r].
          * (* the header alone: the decoder is the fresh body, nothing buffered *)
            cbn [app] in HB.
            destruct (established_run _ _ _ (@Some body) (fun x : bytes => x) client_map t b0 [] (acc ++ [])
                                      sF [] W (wf_body_new P _ _ _ _ _ _) (crunS_nil _) HB) as (sf & items & HR & Hc).
            rewrite HR. exists items, (Some sf). rewrite map_id, app_nil_r. auto.
          * rewrite Hcmd.
            destruct (first_decode b0 (y :: r) (concat t) sF [] W (wf_body_new P _ _ _ _ _ _) HB)
              as (b1 & r1 & o1 & o2 & HD & Hw1 & Hn1 & Hst & Hrun & HW).
            rewrite HD. cbn [bind].
            rewrite <- Hn1 in Hst, Hrun.
            destruct o1 as [|z zs]; cbn [item_of].
            -- destruct (established_run _ _ _ (@Some body) (fun x : bytes => x) client_map t b1 r1 (acc ++ [])
                                         sF [] o2 Hw1 Hst Hrun) as (sf & items & HR & Hc).
               rewrite HR. exists items, (Some sf). rewrite map_id, app_nil_r. split; [reflexivity|].
               rewrite Hc, HW. reflexivity.
            -- destruct (stable_poll _ _ _ (@Some body) (fun x : bytes => x) client_map b1 r1 Hw1 Hst)
                 as (b1' & HP & Hn' & Hw').
               rewrite HP. cbn [app].
               rewrite <- Hn' in Hst, Hrun.
               destruct (established_run _ _ _ (@Some body) (fun x : bytes => x) client_map t b1' r1 (acc ++ [z :: zs])
                                         sF [] o2 Hw' Hst Hrun) as (sf & items & HR & Hc).
               exists ((z :: zs) :: items), (Some sf). split.
               ++ etransitivity; [exact HR|]. rewrite map_id, <- app_assoc. reflexivity.
               ++ cbn [concat]. rewrite Hc, HW. reflexivity.
    Qed.
  End Response.

  (* ---- the server's messages ---- *)
  Lemma server_msgs_established h s : rh_cmd h = CmdTcp -> forall ws b pads,
    exists e, encode_msgs (vm_server_enc P h s) (Some b, pads) ws = Ok (e, fst (enc_all b ws pads)).
  Proof.
    intros Hcmd. induction ws as [|w t IH]; intros b pads.
    - exists (Some b, pads). reflexivity.
    - cbn [encode_msgs enc_all fst snd]. unfold vm_server_enc at 1. cbn [fst snd].
      destruct (pop_pad pads) as [pad pads']. cbn [fst snd].
      unfold server_vencode. cbv zeta. rewrite Hcmd.
      destruct (encode_payload_v P (S (length w)) b w pad) as [out b']. cbn [bind app fst snd].
      destruct (IH b' pads') as (e & He). rewrite He. cbn [bind]. exists e. reflexivity.
  Qed.

  Lemma server_msgs_first h s pads w ws : rh_cmd h = CmdTcp ->
    let b0 := body_new P (rh_opt h) (rh_sec h) (resp_key P s) (resp_iv P s) (vs_key s) (vs_iv s) in
    exists e,
      encode_msgs (vm_server_enc P h s) (None, pads) (w :: ws) =
      Ok (e, (resp_header P h s ++ hd [] (fst (enc_all b0 (w :: ws) pads))) :: tl (fst (enc_all b0 (w :: ws) pads))).
  Proof.
    intros Hcmd b0. cbn [encode_msgs enc_all fst snd hd tl]. unfold vm_server_enc at 1. cbn [fst snd].
    destruct (pop_pad pads) as [pad pads']. cbn [fst snd].
    rewrite (server_vencode_first P h s w pad). cbv zeta. rewrite Hcmd. cbn [bind]. fold b0.
    destruct (server_msgs_established h s Hcmd ws (snd (encode_payload_v P (S (length w)) b0 w pad)) pads') as (e & He).
    rewrite He. cbn [bind]. exists e. reflexivity.
  Qed.

  Theorem vmess_response_stream : forall (h : req_header) (s : vsession) (pads : list bytes) ts,
    rh_cmd h = CmdTcp ->
    exists e msgs,
      encode_msgs (vm_server_enc P h s) (None, pads) ts = Ok (e, msgs) /\
      forall segs, concat segs = concat msgs ->
        exists items stf,
          Framed.run _ _ (client_vdecode P h s) None [] segs [] = (stf, [], items, Waiting) /\
          concat items = concat ts.
  Proof.
    intros h s pads ts Hcmd. destruct ts as [|w ts'].
    - exists (None, pads), []. split; [reflexivity|]. intros segs Hsegs.
      exists [], None. rewrite (client_run_empty h s segs [] Hsegs). auto.
    - destruct (server_msgs_first h s pads w ts' Hcmd) as (e & He). cbv zeta in He.
      set (b0 := body_new P (rh_opt h) (rh_sec h) (resp_key P s) (resp_iv P s) (vs_key s) (vs_iv s)) in *.
      exists e, ((resp_header P h s ++ hd [] (fst (enc_all b0 (w :: ts') pads))) :: tl (fst (enc_all b0 (w :: ts') pads))).
      split; [exact He|]. intros segs Hsegs.
      pose proof (enc_all_canon (w :: ts') b0 pads eq_refl) as HB.
      assert (Hcat : [] ++ concat segs = resp_header P h s ++ concat (fst (enc_all b0 (w :: ts') pads))).
      { cbn [app]. rewrite Hsegs. cbn [enc_all fst hd tl concat]. rewrite <- app_assoc. reflexivity. }
      assert (Hl0 : lenN [] < 38) by (rewrite lenN_nil; lia).
      destruct (resp_run_general h s Hcmd _ _ _ HB segs [] [] Hl0 Hcat) as (items & stf & HR & HW).
      exists items, stf. split; [exact HR|exact HW].
  Qed.
End VmessStream.

Print Assumptions vmess_request_stream.
Print Assumptions vmess_response_stream.
Print Assumptions req_run_general.
Print Assumptions resp_run_general.
Print Assumptions enc_all_canon.
Print Assumptions open_header_wait.
