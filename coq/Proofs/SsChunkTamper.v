(* Shadowsocks chunk stream under tampering (property C05, and the Shadowsocks part of C06).

   Symbolic reading of "the attacker does not hold the key": a run is FORGE-FREE with respect to the honest
   sender when every successful `p_open c k n [] ct = Some m` under the stream's key is on a ciphertext the
   honest sender produced with `p_seal c k n [] m = ct` for that same nonce.  This is a hypothesis on the
   function `p_open` restricted to the key of the stream (a hypothesis of the theorems, not an axiom and not
   a law of the primitives in general).

   Intended statements (all proved below, nothing is `_partial`):
   1. honest / forge_free     the units (nonce, plaintext, ciphertext) sealed by the honest encoder run
                              `enc_chunks (S (length pt)) a0 limit pt`, in order; only they open under the key.
   2. released_is_prefix      for ANY attacker stream w' and ANY segmentation of it, the FramedRead run of the
                              decoder started in lockstep with the encoder releases a PREFIX of pt and ends
                              `Waiting` or `Failed EAead` (never Panicked / Livelock);
      nothing_after_failure   once a run has failed, further segments change nothing (no item is produced).
   3. tampered_unit_rejected  if w' = (wire of the first j honest units) ++ rest and the bytes at the place of
                              unit j are not the honest unit j, then as soon as unit j is complete the run is
                              `Failed EAead` and at most the payload of the chunks whose two units both precede
                              unit j (concat (firstn (j/2) chunks)) has been released.
   4. reflection_rejected     a decoder whose key opens nothing (no unit was sealed under it: the other
                              direction / another session) never releases a byte.
   5. honest_run_released_all with no tampering everything is released (non-vacuity of 2), and concrete
                              Examples: a toy AEAD for which forge_free and open_len_ok hold on a concrete
                              run (the hypotheses are jointly satisfiable) with the theorem applied to it, and
                              computed tampered / truncated / reordered streams.

   Note on `prefix (concat items) o` in 3 (instead of equality): a decode call that fails also discards what
   it had opened earlier in the SAME call (decode_payload returns Err, its dst is dropped), so how much of o
   was already released depends on the segmentation (Examples flipped_payload / flipped_payload_one_segment).

   Hypotheses actually needed: 2 and 4 need only the length law `open_len_ok` (field open_len of prim_laws),
   2 needs `0 < limit` (not `limit <= 65535`), the nonce of a0 = m0 generator steps after inc_init and
   m0 + (number of units) < 2^96.  3 needs 0 < limit <= 65535 and `laws_on honest_seals`: seal_len, open_len and
   open_seal RESTRICTED to what the honest sender sealed.  (It used to assume `prim_laws P`, whose open_seal -- for
   EVERY plaintext -- is jointly unsatisfiable with forge_free over a finite table, which made 3 vacuous; repaired.
   TamperExamples.ideal_laws / ideal_tampered_unit_rejected show that all hypotheses of 3 hold together.) *)
From Coq Require Import List NArith ZArith Lia Arith Bool ZifyBool ZifyN ZifyNat.
From Octo Require Import Base.Bytes Crypto.Prims Model.NonceGen Model.SsChunk Lib.Framed Lib.Canon
                         Proofs.NonceFacts Proofs.SsChunkRoundtrip Proofs.SsChunkCanon.
Import ListNotations.
Open Scope N_scope.

(* ------------------------------------------------------------------------------------------------ *)
(* generic list facts                                                                                 *)
(* ------------------------------------------------------------------------------------------------ *)
Lemma skipn_nth_error {A} : forall (l : list A) i x, nth_error l i = Some x -> skipn i l = x :: skipn (S i) l.
Proof.
  induction l as [|y t IH]; intros i x H.
  - destruct i; discriminate H.
  - destruct i as [|i].
    + cbn [nth_error] in H. injection H as ->. reflexivity.
    + cbn [nth_error] in H. cbn [skipn]. apply IH. exact H.
Qed.

Lemma prefix_trans a b c : prefix a b -> prefix b c -> prefix a c.
Proof. intros [t ->] [u ->]. exists (t ++ u). rewrite app_assoc. reflexivity. Qed.
Lemma prefix_refl a : prefix a a.
Proof. exists []. rewrite app_nil_r. reflexivity. Qed.
Lemma prefix_nil a : prefix [] a.
Proof. exists a. reflexivity. Qed.
Lemma prefix_app_l a b c : prefix b c -> prefix (a ++ b) (a ++ c).
Proof. intros [t ->]. exists t. rewrite app_assoc. reflexivity. Qed.

(* nothing_after_failure, generic in the decoder: Framed.run stops at the first status that is not
   Waiting; the segments after the failing one are never looked at and produce no item *)
Lemma run_stops_after_failure {St Item} (dec : St -> bytes -> res (St * bytes * option Item)) :
  forall segs1 segs2 s buf acc s' b' items st,
  Framed.run St Item dec s buf segs1 acc = (s', b', items, st) -> st <> Waiting ->
  Framed.run St Item dec s buf (segs1 ++ segs2) acc = (s', b', items, st).
Proof.
  induction segs1 as [|seg t IH]; intros segs2 s buf acc s' b' items st H Hst.
  - cbn [Framed.run] in H. apply pair_equal_spec in H. destruct H as [_ H]. exfalso. apply Hst. symmetry. exact H.
  - cbn [app Framed.run] in *.
    destruct (Framed.feed St Item dec s buf seg) as [[[s1 b1] it1] st1].
    destruct st1 as [|e| |]; [apply IH; assumption|exact H|exact H|exact H].
Qed.

Section SsChunkTamper.
  Variable P : prims.

  Notation C := (Canon.canon state bytes (@app N) [] need (step P)).
  Notation iterA := (fun n a => Nat.iter n auth_step a).

  (* the units sealed by an authenticator over a list of plaintexts: (nonce, plaintext, ciphertext) *)
  Fixpoint honest_units (a : auth) (pts : list bytes) : list (bytes * bytes * bytes) :=
    match pts with
    | [] => []
    | m :: r => (au_nonce (auth_step a), m, fst (auth_seal P a m)) :: honest_units (auth_step a) r
    end.

  (* it is the seal trace of SsChunkRoundtrip.v (key, nonce) extended by plaintext and ciphertext *)
  Lemma honest_units_trace : forall pts a,
    map (fun u => (au_key a, fst (fst u))) (honest_units a pts) = seal_trace a pts.
  Proof.
    induction pts as [|m r IH]; intros a; [reflexivity|].
    cbn [honest_units map seal_trace fst]. f_equal. apply (IH (auth_step a)).
  Qed.
  Lemma honest_units_length : forall pts a, length (honest_units a pts) = length pts.
  Proof. induction pts as [|m r IH]; intros a; [reflexivity|]. cbn [honest_units length]. rewrite IH. reflexivity. Qed.
  (* the wire is the concatenation of the ciphertexts *)
  Lemma honest_units_wire : forall pts a, fst (seal_all P a pts) = concat (map snd (honest_units a pts)).
  Proof.
    induction pts as [|m r IH]; intros a; [reflexivity|].
    cbn [seal_all honest_units map concat snd]. unfold auth_seal at 1. cbn beta iota zeta.
    specialize (IH (auth_step a)). destruct (seal_all P (auth_step a) r) as [cs a2]. cbn [fst] in *.
    rewrite IH. reflexivity.
  Qed.

  Lemma honest_units_nth : forall pts a i n m ct,
    nth_error (honest_units a pts) i = Some (n, m, ct) ->
    nth_error pts i = Some m /\ n = Nat.iter (S i) inc (au_nonce a) /\
    ct = p_seal P (au_cipher a) (au_key a) n [] m.
  Proof.
    induction pts as [|x r IH]; intros a i n m ct H.
    - destruct i; discriminate H.
    - destruct i as [|i]; cbn [honest_units nth_error] in H.
      + injection H as H1 H2 H3. subst x. subst n. subst ct.
        cbn [nth_error]. split; [reflexivity|]. split; reflexivity.
      + apply IH in H. destruct H as (H1 & H2 & H3). cbn [nth_error]. split; [exact H1|].
        cbn [auth_step au_nonce au_cipher au_key] in H2, H3. split; [|exact H3].
        rewrite H2. rewrite (iter_S (S i)). rewrite <- iter_shift. reflexivity.
  Qed.

  (* plaintext released by a list of consecutive units: the payload units (every second one) *)
  Fixpoint rel (pay : bool) (l : list bytes) : bytes :=
    match l with
    | [] => []
    | m :: r => if pay then m ++ rel false r else rel true r
    end.
  Definition is_pay (st : dstate) : bool := match st with DLen => false | DPay _ => true end.

  Notation szu := (fun c : bytes => [put_u16 (lenN c mod 65536); c]).

  Lemma rel_prefix_chunks : forall cs l rest, flat_map szu cs = l ++ rest -> prefix (rel false l) (concat cs).
  Proof.
    induction cs as [|c t IH]; intros l rest H.
    - cbn [flat_map] in H. symmetry in H. apply app_eq_nil in H. destruct H as [-> _]. apply prefix_nil.
    - cbn [flat_map app] in H. destruct l as [|x [|y l]].
      + apply prefix_nil.
      + apply prefix_nil.
      + cbn [app] in H. injection H as _ Hy Ht. subst y. cbn [rel concat].
        apply prefix_app_l. eapply IH. exact Ht.
  Qed.

  Lemma rel_firstn_chunks : forall cs j, rel false (firstn j (flat_map szu cs)) = concat (firstn (Nat.div2 j) cs).
  Proof.
    induction cs as [|c t IH]; intros j.
    - cbn [flat_map]. rewrite !firstn_nil. reflexivity.
    - destruct j as [|[|j]]; [reflexivity|reflexivity|].
      cbn [flat_map app firstn rel Nat.div2 concat]. rewrite IH. reflexivity.
  Qed.

  (* ---------------------------------------------------------------------------------------------- *)
  (* one step of the unit machine                                                                     *)
  (* ---------------------------------------------------------------------------------------------- *)
  Definition prepend (o : bytes) (r : result state bytes) : result state bytes :=
    match r with Stop s2 r2 o2 => Stop s2 r2 (o ++ o2) | Fail o2 => Fail (o ++ o2) end.

  Lemma crun_unfold s c n : need s c = Some n -> (n <= length c)%nat ->
    crun P s c = match step P s (firstn n c) with
                 | Some (s', o) => prepend o (crun P s' (skipn n c))
                 | None => Fail []
                 end.
  Proof.
    intros Hn Hle. unfold crun, Canon.run. cbn [canon]. rewrite Hn.
    assert ((n <=? length c)%nat = true) as -> by (apply Nat.leb_le; exact Hle).
    destruct (step P s (firstn n c)) as [[s' o]|]; [|reflexivity].
    pose proof (need_pos _ _ _ Hn) as Hp.
    rewrite (Canon.canon_fuel state bytes (@app N) [] need (step P) need_pos
               (length c) (S (length (skipn n c)))); [reflexivity| |lia].
    rewrite skipn_length. lia.
  Qed.

  Lemma crun_short s c n : need s c = Some n -> (length c < n)%nat -> crun P s c = Stop s c [].
  Proof.
    intros Hn Hlt. unfold crun, Canon.run. cbn [canon]. rewrite Hn.
    assert ((n <=? length c)%nat = false) as -> by (apply Nat.leb_gt; exact Hlt). reflexivity.
  Qed.

  Lemma crun_app s c b : crun P s (c ++ b) =
    match crun P s c with
    | Stop s1 r1 o1 => prepend o1 (crun P s1 (r1 ++ b))
    | Fail o1 => Fail o1
    end.
  Proof.
    unfold crun, prepend.
    apply (Canon.run_app state bytes (@app N) [] (@app_assoc N) (@app_nil_l N) need (step P) need_pos need_mono).
  Qed.

  (* ---------------------------------------------------------------------------------------------- *)
  (* 4. a key under which nothing opens releases nothing                                              *)
  (* ---------------------------------------------------------------------------------------------- *)
  Lemma canon_no_open fuel a st buf :
    (forall n ct m, p_open P (au_cipher a) (au_key a) n [] ct = Some m -> False) ->
    C fuel (a, st) buf = Stop (a, st) buf [] \/ C fuel (a, st) buf = Fail [].
  Proof.
    intros Hno. destruct fuel as [|f]; [left; reflexivity|]. cbn [canon].
    destruct (need (a, st) buf) as [n|]; [|left; reflexivity].
    destruct (n <=? length buf)%nat; [|left; reflexivity].
    unfold step. cbn [fst snd]. unfold auth_open. cbn beta zeta.
    destruct (p_open P (au_cipher a) (au_key a) (au_nonce (auth_step a)) [] (firstn n buf)) as [pl|] eqn:E.
    - exfalso. eapply Hno. exact E.
    - right. reflexivity.
  Qed.

  Theorem reflection_rejected : open_len_ok P -> forall a_dec segs,
    (forall n ct m, p_open P (au_cipher a_dec) (au_key a_dec) n [] ct = Some m -> False) ->
    let '(_, _, items, st) := Framed.run _ _ (body_dec P) (a_dec, DLen) [] segs [] in
    concat items = [] /\ (st = Waiting \/ st = Failed EAead).
  Proof.
    intros HL a_dec segs Hno.
    pose proof (frun_canon P HL segs (a_dec, DLen) [] (@nil bytes) [] eq_refl I) as H.
    rewrite crun_segs_concat in H.
    destruct (canon_no_open (S (length (concat segs))) a_dec DLen (concat segs) Hno) as [E|E];
      unfold crun, Canon.run in H; rewrite E in H.
    - destruct H as (items & -> & Hc & _). auto.
    - destruct H as (s' & b' & items & -> & [t Ht]). symmetry in Ht. apply app_eq_nil in Ht.
      destruct Ht as [-> _]. auto.
  Qed.

  (* ---------------------------------------------------------------------------------------------- *)
  (* the unit machine on honestly sealed units (needs open_seal and seal_len)                         *)
  (* ---------------------------------------------------------------------------------------------- *)
  Lemma prepend_nil r : prepend [] r = r.
  Proof. destruct r; reflexivity. Qed.
  Lemma prepend_prepend a b r : prepend a (prepend b r) = prepend (a ++ b) r.
  Proof. destruct r; cbn [prepend]; rewrite app_assoc; reflexivity. Qed.

  Definition st_at (l : list bytes) (j : nat) : dstate :=
    if Nat.even j then DLen else DPay (lenN (nth j l []) + TAG).
  Lemma st_at_SS x y l j : st_at (x :: y :: l) (S (S j)) = st_at l j.
  Proof. reflexivity. Qed.

  Lemma seal_all_cons_fst a m r :
    fst (seal_all P a (m :: r)) =
    p_seal P (au_cipher a) (au_key a) (inc (au_nonce a)) [] m ++ fst (seal_all P (auth_step a) r).
  Proof.
    cbn [seal_all]. unfold auth_seal. cbn beta iota zeta.
    destruct (seal_all P (auth_step a) r) as [cs a2]. reflexivity.
  Qed.

  Lemma honest_units_firstn : forall pts j a, honest_units a (firstn j pts) = firstn j (honest_units a pts).
  Proof.
    induction pts as [|m r IH]; intros j a.
    - rewrite !firstn_nil. reflexivity.
    - destruct j as [|j]; [reflexivity|]. cbn [firstn honest_units]. rewrite IH. reflexivity.
  Qed.

  Lemma even_unit_len : forall cs j m, nth_error (flat_map szu cs) j = Some m -> Nat.even j = true -> lenN m = 2.
  Proof.
    induction cs as [|c t IH]; intros j m H He.
    - destruct j; discriminate H.
    - destruct j as [|[|j]].
      + cbn [flat_map app nth_error] in H. injection H as <-. unfold put_u16. apply lenN_put_be.
      + discriminate He.
      + cbn [flat_map app nth_error] in H. eapply IH; [exact H|exact He].
  Qed.

  (* what an authenticator seals over a list of plaintexts: (cipher, key, nonce, plaintext) *)
  Definition seals_of (a : auth) (pts : list bytes) : list (N * bytes * bytes * bytes) :=
    map (fun u : bytes * bytes * bytes => (au_cipher a, au_key a, fst (fst u), snd (fst u))) (honest_units a pts).
  Lemma seals_of_cons a m r :
    seals_of a (m :: r) = (au_cipher a, au_key a, inc (au_nonce a), m) :: seals_of (auth_step a) r.
  Proof. reflexivity. Qed.
  Lemma seals_of_firstn_incl : forall pts j a, incl (seals_of a (firstn j pts)) (seals_of a pts).
  Proof.
    induction pts as [|m r IH]; intros j a.
    - rewrite firstn_nil. apply incl_refl.
    - destruct j as [|j]; [intros u []|]. cbn [firstn]. rewrite !seals_of_cons.
      intros u [<-|Hu]; [left; reflexivity|right; exact (IH j (auth_step a) u Hu)].
  Qed.

  (* The laws of the AEAD used by the tamper theorems: the fields seal_len / open_len of Crypto.Prims.prim_laws, and
     open_seal RESTRICTED to the seals in Sl (what the honest sender sealed).  `prim_laws P` itself -- open_seal for
     EVERY plaintext -- can never hold together with forge_free (a FINITE table of honest units): seal any other
     plaintext, it opens, yet is not in the table; a theorem assuming both would be vacuous.  An ideal AEAD (opens
     exactly what the honest sender sealed) satisfies laws_on and forge_free together: TamperExamples.ideal_laws,
     ideal_tampered_unit_rejected. *)
  Record laws_on (Sl : list (N * bytes * bytes * bytes)) : Prop := {
    lo_seal_len : forall c k n a m, lenN (p_seal P c k n a m) = lenN m + TAG;
    lo_open_len : open_len_ok P;
    lo_open_seal : forall c k n m, In (c, k, n, m) Sl -> p_open P c k n [] (p_seal P c k n [] m) = Some m
  }.
  Lemma prim_laws_on Sl : prim_laws P -> laws_on Sl.
  Proof. intros HL. constructor; [apply (seal_len P HL)|exact (open_len P HL)|intros; apply (open_seal P HL)]. Qed.
  Lemma laws_on_incl Sl Sl' : incl Sl' Sl -> laws_on Sl -> laws_on Sl'.
  Proof. intros Hi [H1 H2 H3]. constructor; [exact H1|exact H2|intros c k n m Hin; apply H3, Hi, Hin]. Qed.

  Section Laws.
    Variable Sl : list (N * bytes * bytes * bytes).
    Hypothesis HL : laws_on Sl.

    Lemma crun_step_len a v rest : v < 65536 -> In (au_cipher a, au_key a, inc (au_nonce a), put_u16 v) Sl ->
      crun P (a, DLen) (p_seal P (au_cipher a) (au_key a) (inc (au_nonce a)) [] (put_u16 v) ++ rest)
      = crun P (auth_step a, DPay (v + TAG)) rest.
    Proof.
      intros Hv Hin. set (c1 := p_seal P (au_cipher a) (au_key a) (inc (au_nonce a)) [] (put_u16 v)).
      assert (Hc1 : lenN c1 = SIZE_BYTES).
      { subst c1. rewrite (lo_seal_len Sl HL). unfold put_u16. rewrite lenN_put_be. reflexivity. }
      rewrite (crun_unfold _ _ (N.to_nat SIZE_BYTES)).
      2:{ apply need_L. }
      2:{ rewrite app_length. rewrite lenN_spec in Hc1. lia. }
      change (firstn (N.to_nat SIZE_BYTES) (c1 ++ rest)) with (takeN SIZE_BYTES (c1 ++ rest)).
      change (skipn (N.to_nat SIZE_BYTES) (c1 ++ rest)) with (dropN SIZE_BYTES (c1 ++ rest)).
      rewrite <- Hc1. rewrite takeN_app_exact, dropN_app_exact. rewrite step_L.
      unfold auth_open. cbn beta zeta. cbn [auth_step au_nonce].
      subst c1. rewrite (lo_open_seal Sl HL) by exact Hin.
      unfold get_u16, put_u16. rewrite <- (app_nil_r (put_be 2 v)).
      rewrite get_be_put_be by (change (256 ^ 2) with 65536; exact Hv).
      apply prepend_nil.
    Qed.

    Lemma crun_step_pay a n pt rest : n = lenN pt + TAG -> In (au_cipher a, au_key a, inc (au_nonce a), pt) Sl ->
      crun P (a, DPay n) (p_seal P (au_cipher a) (au_key a) (inc (au_nonce a)) [] pt ++ rest)
      = prepend pt (crun P (auth_step a, DLen) rest).
    Proof.
      intros Hn Hin. set (c2 := p_seal P (au_cipher a) (au_key a) (inc (au_nonce a)) [] pt).
      assert (Hc2 : lenN c2 = n).
      { subst c2. rewrite (lo_seal_len Sl HL). symmetry. exact Hn. }
      rewrite (crun_unfold _ _ (N.to_nat n)).
      2:{ apply need_P. unfold TAG in Hn. lia. }
      2:{ rewrite app_length. rewrite lenN_spec in Hc2. lia. }
      change (firstn (N.to_nat n) (c2 ++ rest)) with (takeN n (c2 ++ rest)).
      change (skipn (N.to_nat n) (c2 ++ rest)) with (dropN n (c2 ++ rest)).
      rewrite <- Hc2. rewrite takeN_app_exact, dropN_app_exact. rewrite step_P.
      unfold auth_open. cbn beta zeta. cbn [auth_step au_nonce].
      subst c2. rewrite (lo_open_seal Sl HL) by exact Hin. reflexivity.
    Qed.

    (* the first j honest units (j of either parity) are consumed, their payload is released, and the
       decoder is in lockstep: j generator steps, waiting for a length unit or for the announced payload *)
    Lemma run_honest_gen : forall cs, Forall (fun c => lenN c < 65536) cs ->
      forall j a rest, (j <= length (flat_map szu cs))%nat ->
      incl (seals_of a (firstn j (flat_map szu cs))) Sl ->
      crun P (a, DLen) (fst (seal_all P a (firstn j (flat_map szu cs))) ++ rest)
      = prepend (rel false (firstn j (flat_map szu cs)))
                (crun P (Nat.iter j auth_step a, st_at (flat_map szu cs) j) rest).
    Proof.
      induction cs as [|c t IH]; intros HF j a rest Hj Hincl.
      - cbn [flat_map length] in *. assert (j = 0)%nat as -> by lia.
        cbn [firstn seal_all fst app rel Nat.iter nat_rect]. rewrite prepend_nil. reflexivity.
      - inversion HF as [|c' t' Hc Ht]; subst c' t'.
        cbn [flat_map app length] in *.
        destruct j as [|[|j]].
        + cbn [firstn seal_all fst app rel Nat.iter nat_rect]. rewrite prepend_nil. reflexivity.
        + cbn [firstn] in *. rewrite seal_all_cons_fst. cbn [seal_all fst]. rewrite app_nil_r.
          rewrite seals_of_cons in Hincl.
          rewrite crun_step_len; [|apply N.mod_lt; lia|apply Hincl; left; reflexivity].
          cbn [rel]. rewrite prepend_nil. rewrite N.mod_small by exact Hc. reflexivity.
        + cbn [firstn] in *. rewrite !seal_all_cons_fst. rewrite <- !app_assoc.
          rewrite !seals_of_cons in Hincl.
          rewrite crun_step_len; [|apply N.mod_lt; lia|apply Hincl; left; reflexivity].
          change (inc (au_nonce a)) with (au_nonce (auth_step a)).
          change (au_cipher a) with (au_cipher (auth_step a)).
          change (au_key a) with (au_key (auth_step a)).
          rewrite crun_step_pay; [|rewrite N.mod_small by exact Hc; reflexivity|apply Hincl; right; left; reflexivity].
          rewrite (IH Ht j (auth_step (auth_step a)) rest) by (try lia; intros u Hu; apply Hincl; right; right; exact Hu).
          rewrite prepend_prepend. rewrite st_at_SS. cbn [rel].
          rewrite !iter_shift. reflexivity.
    Qed.
  End Laws.

  (* ---------------------------------------------------------------------------------------------- *)
  (* the honest run                                                                                   *)
  (* ---------------------------------------------------------------------------------------------- *)
  Section Run.
    Variable a0 : auth.          (* authenticator state of the encoder AND of the decoder at the start *)
    Variable limit : N.
    Variable pt : bytes.         (* what the legitimate sender writes *)
    Variable m0 : nat.           (* generator steps already taken by a0 (0 for a fresh authenticator) *)

    Definition chunks : list bytes := enc_plain (S (length pt)) limit pt.
    Definition pts : list bytes := enc_pts (S (length pt)) limit pt.          (* all sealed plaintexts *)
    Definition honest : list (bytes * bytes * bytes) := honest_units a0 pts.  (* (nonce, plaintext, ciphertext) *)
    Definition wire : bytes := fst (enc_chunks P (S (length pt)) a0 limit pt).

    (* only honest units open under the key of the stream, for ANY nonce and ciphertext presented *)
    Definition forge_free : Prop :=
      forall n ct m, p_open P (au_cipher a0) (au_key a0) n [] ct = Some m -> In (n, m, ct) honest.
    (* everything the honest sender sealed: (cipher, key, nonce, plaintext); the AEAD is required to be correct on these *)
    Definition honest_seals : list (N * bytes * bytes * bytes) := seals_of a0 pts.

    Lemma honest_trace : map (fun u => (au_key a0, fst (fst u))) honest = seal_trace a0 pts.
    Proof. apply honest_units_trace. Qed.
    Lemma wire_honest : wire = concat (map snd honest).
    Proof. unfold wire, honest, pts. rewrite enc_chunks_seal_all. apply honest_units_wire. Qed.
    Lemma pts_chunks : pts = flat_map szu chunks.
    Proof. apply enc_pts_plain. Qed.
    Lemma chunks_concat : 0 < limit -> concat chunks = pt.
    Proof. intros Hl. apply enc_chunks_concat; [exact Hl|lia]. Qed.

    Hypothesis Hnonce : au_nonce a0 = Nat.iter m0 inc inc_init.
    Hypothesis Hbound : N.of_nat (m0 + length pts) < 2 ^ 96.

    (* the i-th open of a decoder in lockstep uses nonce number i+1; if it succeeds it opened honest unit i *)
    Lemma open_is_honest : forge_free -> forall i u m a', (i <= length pts)%nat ->
      auth_open P (Nat.iter i auth_step a0) u = (Some m, a') ->
      nth_error pts i = Some m /\ a' = Nat.iter (S i) auth_step a0 /\
      nth_error honest i = Some (Nat.iter (S i) inc (au_nonce a0), m, u).
    Proof.
      intros HF i u m a' Hi H. unfold auth_open in H. cbn beta zeta in H.
      apply pair_equal_spec in H. destruct H as [H Ha'].
      cbn [auth_step au_nonce] in H.
      rewrite iter_auth_step_cipher, iter_auth_step_key, iter_auth_step_nonce in H.
      apply HF in H. apply In_nth_error in H. destruct H as [j Hj].
      assert (Hjl : (j < length pts)%nat).
      { rewrite <- (honest_units_length pts a0). apply nth_error_Some. unfold honest in Hj. rewrite Hj. discriminate. }
      pose proof Hj as Hj0.
      apply honest_units_nth in Hj. destruct Hj as (Hm & Hn & Hct).
      assert (E : i = j).
      { rewrite Hnonce in Hn. change (inc (Nat.iter i inc (Nat.iter m0 inc inc_init)))
          with (Nat.iter (S i) inc (Nat.iter m0 inc inc_init)) in Hn.
        rewrite <- !iter_plus in Hn. apply nonces_distinct in Hn; lia. }
      subst j. split; [exact Hm|]. split; [rewrite iter_S; symmetry; exact Ha'|].
      rewrite iter_S. exact Hj0.
    Qed.

    (* invariant of the unit machine under forge_free: what has been opened from honest position i on is a
       run l of consecutive honest plaintexts, and what was released is their payload part *)
    Lemma canon_forge_free : forge_free -> forall fuel i st buf, (i <= length pts)%nat ->
      match C fuel (Nat.iter i auth_step a0, st) buf with
      | Stop s2 r o => exists l rest, skipn i pts = l ++ rest /\ o = rel (is_pay st) l /\
                                      fst s2 = Nat.iter (i + length l) auth_step a0
      | Fail o => exists l rest, skipn i pts = l ++ rest /\ o = rel (is_pay st) l
      end.
    Proof.
      intros HF. induction fuel as [|f IH]; intros i st buf Hi.
      - cbn [canon]. exists [], (skipn i pts). cbn [app rel length fst]. rewrite Nat.add_0_r. auto.
      - cbn [canon].
        assert (Hstop : exists l rest, skipn i pts = l ++ rest /\ [] = rel (is_pay st) l /\
                          fst (Nat.iter i auth_step a0, st) = Nat.iter (i + length l) auth_step a0).
        { exists [], (skipn i pts). cbn [app rel length fst]. rewrite Nat.add_0_r. auto. }
        destruct (need (Nat.iter i auth_step a0, st) buf) as [n|]; [|exact Hstop].
        destruct (n <=? length buf)%nat; [|exact Hstop].
        assert (Hopen : forall pl a', auth_open P (Nat.iter i auth_step a0) (firstn n buf) = (Some pl, a') ->
                  a' = Nat.iter (S i) auth_step a0 /\ (S i <= length pts)%nat /\ skipn i pts = pl :: skipn (S i) pts).
        { intros pl a' EO. destruct (open_is_honest HF i _ _ _ Hi EO) as (Hm & Ha' & _).
          split; [exact Ha'|]. split; [|apply skipn_nth_error; exact Hm].
          assert (nth_error pts i <> None) as Hne by (rewrite Hm; discriminate). apply nth_error_Some in Hne. lia. }
        destruct st as [|len].
        + rewrite step_L.
          destruct (auth_open P (Nat.iter i auth_step a0) (firstn n buf)) as [[pl|] a'] eqn:EO.
          2:{ exists [], (skipn i pts). auto. }
          destruct (Hopen pl a' eq_refl) as (-> & Hil & Hsk).
          destruct (get_u16 pl) as [[sz t]|e|].
          2:{ exists [], (skipn i pts). auto. }
          2:{ exists [], (skipn i pts). auto. }
          specialize (IH (S i) (DPay (sz + TAG)) (skipn n buf) Hil).
          destruct (C f (Nat.iter (S i) auth_step a0, DPay (sz + TAG)) (skipn n buf)) as [s2 r2 o2|o2].
          * destruct IH as (l & rest & H1 & H2 & H3). exists (pl :: l), rest.
            rewrite Hsk, H1. cbn [app rel is_pay length] in *. rewrite H2. rewrite H3.
            split; [reflexivity|]. split; [reflexivity|]. f_equal. lia.
          * destruct IH as (l & rest & H1 & H2). exists (pl :: l), rest.
            rewrite Hsk, H1. cbn [app rel is_pay] in *. rewrite H2. auto.
        + rewrite step_P.
          destruct (auth_open P (Nat.iter i auth_step a0) (firstn n buf)) as [[pl|] a'] eqn:EO.
          2:{ exists [], (skipn i pts). auto. }
          destruct (Hopen pl a' eq_refl) as (-> & Hil & Hsk).
          specialize (IH (S i) DLen (skipn n buf) Hil).
          destruct (C f (Nat.iter (S i) auth_step a0, DLen) (skipn n buf)) as [s2 r2 o2|o2].
          * destruct IH as (l & rest & H1 & H2 & H3). exists (pl :: l), rest.
            rewrite Hsk, H1. cbn [app rel is_pay length] in *. rewrite H2. rewrite H3.
            split; [reflexivity|]. split; [reflexivity|]. f_equal. lia.
          * destruct IH as (l & rest & H1 & H2). exists (pl :: l), rest.
            rewrite Hsk, H1. cbn [app rel is_pay] in *. rewrite H2. auto.
    Qed.

    (* the unit machine on ANY byte string releases a prefix of pt *)
    Theorem crun_released_is_prefix : forge_free -> 0 < limit -> forall w',
      match crun P (a0, DLen) w' with
      | Stop _ _ o => prefix o pt
      | Fail o => prefix o pt
      end.
    Proof.
      intros HF Hl w'. unfold crun, Canon.run.
      pose proof (canon_forge_free HF (S (length w')) 0 DLen w' ltac:(lia)) as H.
      cbn [Nat.iter nat_rect] in H. rewrite <- (chunks_concat Hl).
      destruct (C (S (length w')) (a0, DLen) w') as [s2 r o|o].
      - destruct H as (l & rest & H1 & H2 & _). cbn [skipn is_pay] in *. subst o.
        eapply rel_prefix_chunks. rewrite <- pts_chunks. exact H1.
      - destruct H as (l & rest & H1 & H2). cbn [skipn is_pay] in *. subst o.
        eapply rel_prefix_chunks. rewrite <- pts_chunks. exact H1.
    Qed.

    (* 2. C05 at the FramedRead level *)
    Theorem released_is_prefix : open_len_ok P -> forge_free -> 0 < limit ->
      forall w' segs, concat segs = w' ->
      let '(_, _, items, st) := Framed.run _ _ (body_dec P) (a0, DLen) [] segs [] in
      prefix (concat items) pt /\ (st = Waiting \/ st = Failed EAead).
    Proof.
      intros HL HF Hl w' segs Hw.
      pose proof (frun_canon P HL segs (a0, DLen) [] (@nil bytes) [] eq_refl I) as H.
      rewrite crun_segs_concat in H. pose proof (crun_released_is_prefix HF Hl (concat segs)) as HP.
      destruct (crun P (a0, DLen) (concat segs)) as [s2 r2 o2|o2].
      - destruct H as (items & -> & Hc & _). rewrite Hc. auto.
      - destruct H as (s' & b' & items & -> & Hp). split; [|right; reflexivity].
        eapply prefix_trans; eassumption.
    Qed.

    (* nothing_after_failure for this decoder: once failed, whatever else the attacker sends (segs2) is not
       looked at: same state, same buffer, same released items, same status *)
    Corollary nothing_after_failure : forall segs1 segs2 s b items e,
      Framed.run _ _ (body_dec P) (a0, DLen) [] segs1 [] = (s, b, items, Failed e) ->
      Framed.run _ _ (body_dec P) (a0, DLen) [] (segs1 ++ segs2) [] = (s, b, items, Failed e).
    Proof. intros segs1 segs2 s b items e H. apply run_stops_after_failure; [exact H|discriminate]. Qed.

    (* ---------------------------------------------------------------------------------------------- *)
    (* 3. tampering inside unit j                                                                       *)
    (* ---------------------------------------------------------------------------------------------- *)
    (* the honest wire up to (excluding) unit j *)
    Definition prefix_wire (j : nat) : bytes := concat (map snd (firstn j honest)).

    Lemma prefix_wire_seal j : prefix_wire j = fst (seal_all P a0 (firstn j pts)).
    Proof. unfold prefix_wire, honest. rewrite <- honest_units_firstn. symmetry. apply honest_units_wire. Qed.
    Lemma wire_split j : wire = prefix_wire j ++ concat (map snd (skipn j honest)).
    Proof.
      rewrite wire_honest. unfold prefix_wire. rewrite <- concat_app, <- map_app, firstn_skipn. reflexivity.
    Qed.

    (* two honest units with the same nonce are the same unit *)
    Lemma honest_nonce_unique i j n m ct m' ct' :
      nth_error honest i = Some (n, m, ct) -> nth_error honest j = Some (n, m', ct') -> i = j.
    Proof.
      intros Hi Hj.
      assert (Hil : (i < length pts)%nat).
      { rewrite <- (honest_units_length pts a0). apply nth_error_Some. unfold honest in Hi. rewrite Hi. discriminate. }
      assert (Hjl : (j < length pts)%nat).
      { rewrite <- (honest_units_length pts a0). apply nth_error_Some. unfold honest in Hj. rewrite Hj. discriminate. }
      apply honest_units_nth in Hi. apply honest_units_nth in Hj.
      destruct Hi as (_ & Hi & _). destruct Hj as (_ & Hj & _). rewrite Hi in Hj.
      rewrite Hnonce in Hj. rewrite <- !iter_plus in Hj. apply nonces_distinct in Hj; lia.
    Qed.

    (* a decoder in lockstep at position j rejects whatever complete unit is not honest unit j *)
    Lemma crun_rejects_unit : forge_free -> forall j st rest n,
      need (Nat.iter j auth_step a0, st) rest = Some n -> (n <= length rest)%nat ->
      (forall m, ~ In (Nat.iter (S j) inc (au_nonce a0), m, firstn n rest) honest) ->
      crun P (Nat.iter j auth_step a0, st) rest = Fail [].
    Proof.
      intros HF j st rest n Hn Hle Hnot. rewrite (crun_unfold _ _ n Hn Hle).
      assert (Hopen : fst (auth_open P (Nat.iter j auth_step a0) (firstn n rest)) = None).
      { unfold auth_open. cbn beta zeta. cbn [fst auth_step au_nonce].
        rewrite iter_auth_step_cipher, iter_auth_step_key, iter_auth_step_nonce.
        destruct (p_open P (au_cipher a0) (au_key a0) (inc (Nat.iter j inc (au_nonce a0))) [] (firstn n rest))
          as [m|] eqn:E; [|reflexivity].
        apply HF in E. exfalso. eapply Hnot. rewrite iter_S. exact E. }
      destruct st as [|len].
      - rewrite step_L. destruct (auth_open P (Nat.iter j auth_step a0) (firstn n rest)) as [[pl|] a'];
          [discriminate Hopen|reflexivity].
      - rewrite step_P. destruct (auth_open P (Nat.iter j auth_step a0) (firstn n rest)) as [[pl|] a'];
          [discriminate Hopen|reflexivity].
    Qed.

    Lemma chunks_prefix k : 0 < limit -> prefix (concat (firstn k chunks)) pt.
    Proof.
      intros Hl. exists (concat (skipn k chunks)).
      rewrite <- concat_app, firstn_skipn. symmetry. apply chunks_concat. exact Hl.
    Qed.

    (* w' = honest wire up to unit j, then `rest` whose first |ct_j| bytes are not an honest unit for nonce j:
       the unit machine fails exactly there; every segmentation of w' ends Failed EAead having released at
       most the chunks whose length unit and payload unit both precede unit j.  As `rest` only has to be at
       least as long as unit j, this holds for every prefix of the attacker's stream that covers unit j:
       the failure happens as soon as unit j is complete, and by nothing_after_failure nothing follows. *)
    Theorem tampered_unit_rejected : laws_on honest_seals -> forge_free -> 0 < limit -> limit <= 65535 ->
      forall j nj mj ctj rest, nth_error honest j = Some (nj, mj, ctj) ->
      (length ctj <= length rest)%nat ->
      (forall m, ~ In (nj, m, firstn (length ctj) rest) honest) ->
      let w' := prefix_wire j ++ rest in
      let o := concat (firstn (Nat.div2 j) chunks) in
      prefix o pt /\
      crun P (a0, DLen) w' = Fail o /\
      forall segs, concat segs = w' ->
        exists s b items, Framed.run _ _ (body_dec P) (a0, DLen) [] segs [] = (s, b, items, Failed EAead) /\
                          prefix (concat items) o.
    Proof.
      clear Hnonce Hbound. (* not needed here: forge_free is used directly on the nonce of unit j *)
      intros HL HF Hl0 Hl1 j nj mj ctj rest Hj Hlen Hnot w' o.
      assert (Hjl : (j < length pts)%nat).
      { rewrite <- (honest_units_length pts a0). apply nth_error_Some. unfold honest in Hj. rewrite Hj. discriminate. }
      pose proof Hj as Hj'. apply honest_units_nth in Hj'. destruct Hj' as (Hm & Hnj & Hct).
      assert (HFc : Forall (fun c => lenN c < 65536) chunks).
      { eapply Forall_impl; [|apply (enc_chunks_lens (S (length pt)) limit pt Hl0)].
        cbn beta. intros c [_ Hc]. lia. }
      assert (Hcl : lenN ctj = lenN mj + TAG) by (rewrite Hct; apply (lo_seal_len _ HL)).
      assert (Hrun : crun P (a0, DLen) w' = Fail o).
      { subst w'. rewrite prefix_wire_seal. rewrite pts_chunks.
        rewrite (run_honest_gen honest_seals HL chunks HFc j a0 rest);
          [|rewrite <- pts_chunks; lia|rewrite <- pts_chunks; apply seals_of_firstn_incl].
        rewrite rel_firstn_chunks. rewrite <- pts_chunks. fold o.
        rewrite (crun_rejects_unit HF j (st_at pts j) rest (length ctj)).
        - cbn [prepend]. rewrite app_nil_r. reflexivity.
        - unfold st_at. destruct (Nat.even j) eqn:Ev.
          + rewrite need_L. f_equal.
            assert (lenN mj = 2) as Hm2 by (eapply even_unit_len; [rewrite <- pts_chunks; exact Hm|exact Ev]).
            rewrite lenN_spec in Hcl. unfold SIZE_BYTES. lia.
          + rewrite (nth_error_nth _ _ _ Hm). rewrite need_P by (unfold TAG; lia). f_equal.
            rewrite lenN_spec in Hcl. lia.
        - exact Hlen.
        - rewrite <- Hnj. exact Hnot. }
      split; [apply chunks_prefix; exact Hl0|]. split; [exact Hrun|].
      intros segs Hsegs.
      pose proof (frun_canon P (lo_open_len _ HL) segs (a0, DLen) [] (@nil bytes) [] eq_refl I) as H.
      rewrite crun_segs_concat, Hsegs, Hrun in H. exact H.
    Qed.

    (* the same with the plain reading of "altered": the bytes at the place of unit j differ from it *)
    Corollary tampered_unit_rejected_neq : laws_on honest_seals -> forge_free -> 0 < limit -> limit <= 65535 ->
      forall j nj mj ctj rest, nth_error honest j = Some (nj, mj, ctj) ->
      (length ctj <= length rest)%nat ->
      firstn (length ctj) rest <> ctj ->
      let w' := prefix_wire j ++ rest in
      let o := concat (firstn (Nat.div2 j) chunks) in
      prefix o pt /\
      crun P (a0, DLen) w' = Fail o /\
      forall segs, concat segs = w' ->
        exists s b items, Framed.run _ _ (body_dec P) (a0, DLen) [] segs [] = (s, b, items, Failed EAead) /\
                          prefix (concat items) o.
    Proof.
      intros HL HF Hl0 Hl1 j nj mj ctj rest Hj Hlen Hne.
      apply (tampered_unit_rejected HL HF Hl0 Hl1 j nj mj ctj rest Hj Hlen).
      intros m Hin. apply In_nth_error in Hin. destruct Hin as [j' Hj'].
      pose proof (honest_nonce_unique _ _ _ _ _ _ _ Hj' Hj) as E. subst j'.
      pose proof (eq_trans (eq_sym Hj) Hj') as E2. injection E2 as _ Hct. apply Hne. symmetry. exact Hct.
    Qed.

    (* 5a. no tampering: everything is released (so 2 is not vacuous and `prefix` cannot be improved) *)
    Theorem honest_run_released_all : prim_laws P -> 0 < limit -> limit <= 65535 ->
      forall segs, concat segs = wire ->
      exists s items, Framed.run _ _ (body_dec P) (a0, DLen) [] segs [] = (s, [], items, Waiting) /\
                      concat items = pt.
    Proof.
      intros HL Hl0 Hl1 segs Hsegs.
      pose proof (frun_canon P (open_len P HL) segs (a0, DLen) [] (@nil bytes) [] eq_refl I) as H.
      rewrite crun_segs_concat, Hsegs in H.
      pose proof (chunk_roundtrip P HL a0 limit pt Hl0 Hl1) as HR.
      pose proof (decode_payload_is_canon P (open_len P HL) a0 DLen wire I) as HC.
      unfold wire in *. destruct (enc_chunks P (S (length pt)) a0 limit pt) as [w a'] eqn:E. cbn [fst] in *.
      rewrite HR in HC.
      destruct (crun P (a0, DLen) w) as [s2 r2 o2|o2]; [|contradiction].
      destruct HC as (_ & <- & <-). destruct H as (items & H & Hc & _).
      exists s2, items. auto.
    Qed.
  End Run.
End SsChunkTamper.

Print Assumptions reflection_rejected.
Print Assumptions released_is_prefix.
Print Assumptions nothing_after_failure.
Print Assumptions tampered_unit_rejected.
Print Assumptions tampered_unit_rejected_neq.
Print Assumptions honest_run_released_all.

(* ------------------------------------------------------------------------------------------------ *)
(* 5. non-vacuity: a toy AEAD, an "ideal" opener for one concrete run, computed attacks               *)
(* ------------------------------------------------------------------------------------------------ *)
Module TamperExamples.
  (* toy AEAD: ciphertext = plaintext ++ 16-byte tag computed from key, nonce and plaintext *)
  Definition toy_tag (k n m : bytes) : bytes :=
    put_be 16 (fold_left (fun acc x => (acc * 1000003 + x + 1) mod 2 ^ 128) (k ++ 300 :: n ++ 300 :: m) 5).
  Definition toy_seal (c : N) (k n a m : bytes) : bytes := m ++ toy_tag k n m.
  Definition toy_open (c : N) (k n a ct : bytes) : option bytes :=
    if lenN ct <? 16 then None
    else let m := takeN (lenN ct - 16) ct in
         if bytes_eqb (dropN (lenN ct - 16) ct) (toy_tag k n m) then Some m else None.
  Definition mk (op : N -> bytes -> bytes -> bytes -> bytes -> option bytes) : prims :=
    {| p_seal := toy_seal; p_open := op;
       p_hkdf_sha1 := fun _ _ _ _ => []; p_b3derive := fun _ _ => []; p_b3hash := fun _ => [];
       p_aes_enc := fun _ b => b; p_aes_dec := fun _ b => b; p_md5 := fun _ => []; p_sha224 := fun _ => [];
       p_sha256 := fun _ => []; p_shake128 := fun _ _ => []; p_crc32 := fun _ => 0 |}.
  Definition Ptoy : prims := mk toy_open.

  (* the concrete honest run: 5 bytes, chunk limit 2: three chunks, six sealed units *)
  Definition key0 : bytes := repeat 7 32.
  Definition a0 : auth := {| au_cipher := 2; au_key := key0; au_nonce := inc_init |}.
  Definition lim : N := 2.
  Definition pt0 : bytes := [1; 2; 3; 4; 5].
  Definition w0 : bytes := wire Ptoy a0 lim pt0.
  Definition table : list (bytes * bytes * bytes) := honest Ptoy a0 lim pt0.

  (* an opener that, under key0, opens exactly the units of the table (what forge_free idealises) *)
  Definition ideal_open (c : N) (k n a ct : bytes) : option bytes :=
    if bytes_eqb k key0 then
      match find (fun u => bytes_eqb n (fst (fst u)) && bytes_eqb ct (snd u)) table with
      | Some u => Some (snd (fst u))
      | None => None
      end
    else None.
  Definition Pideal : prims := mk ideal_open.

  Lemma bytes_eqb_true a b : bytes_eqb a b = true -> a = b.
  Proof. unfold bytes_eqb. destruct (list_eq_dec N.eq_dec a b) as [E|E]; [auto|discriminate]. Qed.

  Lemma ideal_open_sound c k n a ct m : ideal_open c k n a ct = Some m -> k = key0 /\ In (n, m, ct) table.
  Proof.
    unfold ideal_open. intros H. destruct (bytes_eqb k key0) eqn:Ek; [|discriminate H].
    split; [apply bytes_eqb_true; exact Ek|].
    destruct (find (fun u => bytes_eqb n (fst (fst u)) && bytes_eqb ct (snd u)) table) as [u|] eqn:Ef; [|discriminate H].
    apply find_some in Ef. destruct Ef as [Hin Hc]. apply andb_prop in Hc. destruct Hc as [H1 H2].
    apply bytes_eqb_true in H1. apply bytes_eqb_true in H2.
    destruct u as [[n' m'] ct']. cbn [fst snd] in *. injection H as <-. subst n' ct'. exact Hin.
  Qed.

  Lemma table_is_honest : honest Pideal a0 lim pt0 = table.
  Proof. vm_compute. reflexivity. Qed.

  (* the hypotheses of released_is_prefix are jointly satisfiable *)
  Example ideal_forge_free : forge_free Pideal a0 lim pt0.
  Proof.
    unfold forge_free. intros n ct m H. rewrite table_is_honest.
    change (ideal_open 2 key0 n [] ct = Some m) in H. apply ideal_open_sound in H. apply H.
  Qed.

  Example ideal_open_len_ok : open_len_ok Pideal.
  Proof.
    unfold open_len_ok. intros c k n a ct m H. change (ideal_open c k n a ct = Some m) in H.
    apply ideal_open_sound in H. destruct H as [_ H].
    assert (HT : Forall (fun u => lenN (snd u) = lenN (snd (fst u)) + TAG) table).
    { vm_compute. repeat constructor. }
    rewrite Forall_forall in HT. apply (HT _ H).
  Qed.

  (* released_is_prefix instantiated: whatever the attacker sends and however it is segmented *)
  Example ideal_released_is_prefix : forall w' segs, concat segs = w' ->
    let '(_, _, items, st) := Framed.run _ _ (body_dec Pideal) (a0, DLen) [] segs [] in
    prefix (concat items) pt0 /\ (st = Waiting \/ st = Failed EAead).
  Proof.
    apply (released_is_prefix Pideal a0 lim pt0 0).
    - reflexivity.
    - vm_compute. reflexivity.
    - exact ideal_open_len_ok.
    - exact ideal_forge_free.
    - reflexivity.
  Qed.

  (* the restricted laws hold for the ideal opener: it is correct on every unit the honest sender sealed *)
  Lemma toy_seal_len c k n a m : lenN (toy_seal c k n a m) = lenN m + TAG.
  Proof. unfold toy_seal, toy_tag. rewrite lenN_app, lenN_put_be. reflexivity. Qed.
  Example ideal_laws : laws_on Pideal (honest_seals Pideal a0 lim pt0).
  Proof.
    constructor.
    - intros c k n a m. apply toy_seal_len.
    - exact ideal_open_len_ok.
    - intros c k n m Hin. vm_compute in Hin.
      repeat (destruct Hin as [Hin|Hin]; [injection Hin as <- <- <- <-; vm_compute; reflexivity|]). contradiction.
  Qed.
  Example honest_seals_nontrivial : length (honest_seals Pideal a0 lim pt0) = 6%nat.
  Proof. vm_compute. reflexivity. Qed.

  (* ALL hypotheses of tampered_unit_rejected / tampered_unit_rejected_neq hold together (laws_on + forge_free +
     nonce discipline) for the ideal AEAD on the three-chunk stream: whatever bytes differ from honest unit j at its
     place are rejected as soon as they are complete, under every segmentation *)
  Example ideal_tampered_unit_rejected : forall j nj mj ctj rest,
    nth_error (honest Pideal a0 lim pt0) j = Some (nj, mj, ctj) ->
    (length ctj <= length rest)%nat -> firstn (length ctj) rest <> ctj ->
    let w' := prefix_wire Pideal a0 lim pt0 j ++ rest in
    let o := concat (firstn (Nat.div2 j) (chunks lim pt0)) in
    prefix o pt0 /\
    crun Pideal (a0, DLen) w' = Fail o /\
    forall segs, concat segs = w' ->
      exists s b items, Framed.run _ _ (body_dec Pideal) (a0, DLen) [] segs [] = (s, b, items, Failed EAead) /\
                        prefix (concat items) o.
  Proof.
    apply (tampered_unit_rejected_neq Pideal a0 lim pt0 0).
    - reflexivity.
    - vm_compute. reflexivity.
    - exact ideal_laws.
    - exact ideal_forge_free.
    - reflexivity.
    - vm_compute. discriminate.
  Qed.

  (* reflection / other session: under another key the ideal opener opens nothing, nothing is released *)
  Example ideal_reflection : forall segs,
    let a_dec := {| au_cipher := 2; au_key := repeat 9 32; au_nonce := inc_init |} in
    let '(_, _, items, st) := Framed.run _ _ (body_dec Pideal) (a_dec, DLen) [] segs [] in
    concat items = [] /\ (st = Waiting \/ st = Failed EAead).
  Proof.
    intros segs a_dec. apply (reflection_rejected Pideal ideal_open_len_ok a_dec segs).
    intros n ct m H. change (ideal_open 2 (repeat 9 32) n [] ct = Some m) in H.
    apply ideal_open_sound in H. destruct H as [H _]. vm_compute in H. discriminate H.
  Qed.

  (* ---- computed runs with the toy AEAD (its open really recomputes and compares the tag) ---- *)
  Definition outcome (segs : list bytes) : bytes * fstatus :=
    let '(_, _, items, st) := Framed.run _ _ (body_dec Ptoy) (a0, DLen) [] segs [] in (concat items, st).
  Definition flip (i : nat) (l : bytes) : bytes :=
    firstn i l ++ match skipn i l with x :: t => ((x + 1) mod 256) :: t | [] => [] end.
  Definition two (n : nat) (l : bytes) : list bytes := [firstn n l; skipn n l].

  (* wire layout: units of 18,18 | 18,18 | 18,17 bytes = 107 bytes *)
  Example wire_len : length w0 = 107%nat. Proof. vm_compute. reflexivity. Qed.
  Example honest_all : outcome (two 30 w0) = (pt0, Waiting). Proof. vm_compute. reflexivity. Qed.
  (* flip one byte of unit 3 (payload of the second chunk); the first chunk arrived in an earlier segment
     and was released, nothing else is *)
  Example flipped_payload : outcome (two 40 (flip 54 w0)) = ([1; 2], Failed EAead). Proof. vm_compute. reflexivity. Qed.
  (* the same stream in ONE segment: a failing decode call also discards what it had opened in that call
     (this is why the theorems say `prefix (concat items) o` and not equality) *)
  Example flipped_payload_one_segment : outcome [flip 54 w0] = ([], Failed EAead). Proof. vm_compute. reflexivity. Qed.
  (* flip the last tag byte of unit 2 (a length unit) *)
  Example flipped_length : outcome (two 40 (flip 53 w0)) = ([1; 2], Failed EAead). Proof. vm_compute. reflexivity. Qed.
  (* flip the very first byte: nothing is released *)
  Example flipped_first : outcome [flip 0 w0] = ([], Failed EAead). Proof. vm_compute. reflexivity. Qed.
  (* truncation: a strict prefix, still Waiting *)
  Example truncated : outcome (two 30 (firstn 80 w0)) = ([1; 2; 3; 4], Waiting). Proof. vm_compute. reflexivity. Qed.
  (* deletion of the second chunk *)
  Example deleted : outcome (two 40 (firstn 36 w0 ++ skipn 72 w0)) = ([1; 2], Failed EAead).
  Proof. vm_compute. reflexivity. Qed.
  (* reordering: second chunk first *)
  Example reordered : outcome [firstn 36 (skipn 36 w0) ++ firstn 36 w0 ++ skipn 72 w0] = ([], Failed EAead).
  Proof. vm_compute. reflexivity. Qed.
  (* duplication (replay of the first chunk inside the stream) *)
  Example duplicated : outcome (two 36 (firstn 36 w0 ++ w0)) = ([1; 2], Failed EAead). Proof. vm_compute. reflexivity. Qed.
  (* insertion of a byte *)
  Example inserted : outcome (two 38 (firstn 40 w0 ++ 0 :: skipn 40 w0)) = ([1; 2], Failed EAead).
  Proof. vm_compute. reflexivity. Qed.
  (* nothing after the failure: the complete honest stream sent after a tampered one changes nothing *)
  Example nothing_after : outcome [firstn 40 (flip 54 w0); skipn 40 (flip 54 w0); w0] = ([1; 2], Failed EAead).
  Proof. vm_compute. reflexivity. Qed.
End TamperExamples.

Print Assumptions TamperExamples.ideal_laws.
Print Assumptions TamperExamples.ideal_tampered_unit_rejected.
Print Assumptions TamperExamples.ideal_forge_free.
Print Assumptions TamperExamples.ideal_released_is_prefix.
Print Assumptions TamperExamples.ideal_reflection.
Print Assumptions TamperExamples.flipped_payload.
