(* Facts about the nonce generators of Model/NonceGen.v:
   - IncreasingNonceGenerator (`inc`, started from twelve 0xFF): `inc` is +1 on the little-endian value
     modulo 256^len; the first generated nonce is all-zero; the k-th generated nonce is the little-endian
     encoding of k-1; the first 2^96 generated nonces are pairwise distinct.
   - CountingNonceGenerator (VMess): the u16 big-endian splice is injective in the counter and the counter
     after k steps is k mod 65536, hence the first 65536 nonces of one direction are pairwise distinct.
   Port of DESIGN.md Appendix I to the definitions of Model/NonceGen.v. *)
From Coq Require Import List NArith ZArith Lia ZifyBool ZifyN ZifyNat.
From Octo Require Import Base.Bytes Model.NonceGen.
Import ListNotations.
Open Scope N_scope.
Ltac Zify.zify_post_hook ::= Z.div_mod_to_equations.

Definition wfb (l : bytes) : Prop := Forall (fun b => b < 256) l.

Lemma wfb_wf_bytes l : wfb l <-> wf_bytes l.
Proof. unfold wfb, wf_bytes. tauto. Qed.

Lemma iter_S {A} (k : nat) (f : A -> A) (x : A) : Nat.iter (S k) f x = f (Nat.iter k f x).
Proof. reflexivity. Qed.
Lemma iter_O {A} (f : A -> A) (x : A) : Nat.iter 0 f x = x.
Proof. reflexivity. Qed.

(* ---------------- IncreasingNonceGenerator ---------------- *)

Lemma inc_length l : length (inc l) = length l.
Proof.
  induction l as [|b t IH]; cbn [inc]; [reflexivity|].
  destruct ((b + 1) mod 256 =? 0); cbn [length]; congruence.
Qed.

Lemma inc_wf l : wfb l -> wfb (inc l).
Proof.
  induction 1 as [|b t Hb Ht IH]; cbn [inc]; [constructor|].
  destruct ((b + 1) mod 256 =? 0) eqn:E; constructor; auto; lia.
Qed.

Lemma le_val_bound l : wfb l -> le_val l < 256 ^ N.of_nat (length l).
Proof.
  induction 1 as [|b t Hb Ht IH]; cbn [le_val length]; [cbn; lia|].
  rewrite Nat2N.inj_succ, N.pow_succ_r'. lia.
Qed.

Lemma inc_val l : wfb l -> le_val (inc l) = (le_val l + 1) mod 256 ^ N.of_nat (length l).
Proof.
  induction 1 as [|b t Hb Ht IH]; cbn [inc le_val length].
  - cbn. reflexivity.
  - rewrite Nat2N.inj_succ, N.pow_succ_r'.
    pose proof (le_val_bound t Ht) as Hbd. set (P := 256 ^ N.of_nat (length t)) in *.
    assert (HP : 0 < P) by (subst P; apply N.neq_0_lt_0, N.pow_nonzero; lia).
    destruct (N.eqb_spec ((b + 1) mod 256) 0) as [E|E]; cbn [le_val].
    + rewrite IH. assert (Hb255 : b = 255) by lia. subst b.
      replace (255 + 256 * le_val t + 1) with (256 * (le_val t + 1)) by lia.
      rewrite N.mul_mod_distr_l by lia. lia.
    + assert (Hlt : b < 255) by lia. rewrite (N.mod_small (b + 1) 256) by lia.
      rewrite N.mod_small; [lia|]. nia.
Qed.

Lemma le_val_inj : forall l1 l2, wfb l1 -> wfb l2 -> length l1 = length l2 -> le_val l1 = le_val l2 -> l1 = l2.
Proof.
  induction l1 as [|a t1 IH]; intros [|b t2] H1 H2 Hl Hv; try discriminate; [reflexivity|].
  inversion H1 as [|? ? Ha Ht1]; inversion H2 as [|? ? Hb Ht2]; subst. cbn [le_val length] in *.
  assert (Hab : a = b) by lia. subst b. f_equal. apply IH; auto; lia.
Qed.

Lemma iter_val k l : wfb l ->
  le_val (Nat.iter k inc l) = (le_val l + N.of_nat k) mod 256 ^ N.of_nat (length l)
  /\ wfb (Nat.iter k inc l) /\ length (Nat.iter k inc l) = length l.
Proof.
  intros Hw. induction k as [|k (IHv & IHw & IHl)].
  - rewrite iter_O. pose proof (le_val_bound l Hw) as Hb. rewrite N.add_0_r, N.mod_small by assumption. auto.
  - rewrite iter_S. split; [|split; [apply inc_wf; assumption|rewrite inc_length; assumption]].
    rewrite inc_val by assumption. rewrite IHl, IHv.
    assert (Hpos : 0 < 256 ^ N.of_nat (length l)) by (apply N.neq_0_lt_0, N.pow_nonzero; lia).
    rewrite N.add_mod_idemp_l by lia. f_equal. lia.
Qed.

Lemma inc_init_wf : wfb inc_init.
Proof. unfold inc_init. apply Forall_forall. intros x Hx. apply repeat_spec in Hx. subst. lia. Qed.

Lemma iter_inc_init_wf k : wfb (Nat.iter k inc inc_init).
Proof. destruct (iter_val k inc_init inc_init_wf) as (_ & H & _). exact H. Qed.

Lemma iter_inc_init_length k : length (Nat.iter k inc inc_init) = 12%nat.
Proof. destruct (iter_val k inc_init inc_init_wf) as (_ & _ & H). rewrite H. reflexivity. Qed.

Lemma le_val_inc_init : le_val inc_init = 2 ^ 96 - 1.
Proof. vm_compute. reflexivity. Qed.

(* the k-th generated nonce (k >= 1) is the little-endian encoding of k-1 *)
Theorem kth_nonce_value : forall k, (0 < k)%nat -> N.of_nat k <= 2 ^ 96 ->
  le_val (Nat.iter k inc inc_init) = N.of_nat k - 1.
Proof.
  intros k Hk Bk.
  destruct (iter_val k inc_init inc_init_wf) as (Vk & _ & _). rewrite Vk.
  rewrite le_val_inc_init. change (256 ^ N.of_nat (length inc_init)) with (2 ^ 96).
  set (M := 2 ^ 96) in *. assert (HM : 0 < M) by (subst M; lia).
  replace (M - 1 + N.of_nat k) with ((N.of_nat k - 1) + 1 * M) by lia.
  rewrite N.mod_add by lia. apply N.mod_small. lia.
Qed.
Print Assumptions kth_nonce_value.

Theorem nonces_distinct : forall i j, (0 < i)%nat -> (0 < j)%nat ->
  N.of_nat i <= 2 ^ 96 -> N.of_nat j <= 2 ^ 96 ->
  Nat.iter i inc inc_init = Nat.iter j inc inc_init -> i = j.
Proof.
  intros i j Hi Hj Bi Bj E.
  pose proof (kth_nonce_value i Hi Bi) as Vi. pose proof (kth_nonce_value j Hj Bj) as Vj.
  rewrite E in Vi. rewrite Vi in Vj. lia.
Qed.
Print Assumptions nonces_distinct.

Theorem first_nonce_is_zero : inc inc_init = repeat 0 12.
Proof. vm_compute. reflexivity. Qed.
Print Assumptions first_nonce_is_zero.

(* ---------------- CountingNonceGenerator (VMess) ---------------- *)

Theorem counting_splice_inj : forall c1 c2 iv, 2 <= lenN iv -> c1 < 65536 -> c2 < 65536 ->
  counting_splice c1 iv = counting_splice c2 iv -> c1 = c2.
Proof.
  intros c1 c2 iv _ H1 H2 E. unfold counting_splice in E.
  apply app_inv_tail in E.
  rewrite !N.mod_small in E by assumption.
  assert (Hb : be (put_u16 c1) = be (put_u16 c2)) by (rewrite E; reflexivity).
  unfold put_u16 in Hb. rewrite !be_put_be in Hb by (change (256 ^ 2) with 65536; assumption).
  exact Hb.
Qed.
Print Assumptions counting_splice_inj.

(* the spliced nonce keeps the length of the iv (so it is a valid nonce of the same size) *)
Lemma counting_splice_len c iv : 2 <= lenN iv -> lenN (counting_splice c iv) = lenN iv.
Proof.
  intros H. unfold counting_splice, put_u16. rewrite lenN_app, lenN_put_be, lenN_dropN. lia.
Qed.

Theorem counting_iter : forall k, Nat.iter k counting_next 0 = N.of_nat k mod 65536.
Proof.
  induction k as [|k IH].
  - reflexivity.
  - rewrite iter_S, IH. unfold counting_next. rewrite Nat2N.inj_succ. lia.
Qed.
Print Assumptions counting_iter.

Lemma nat65536 : N.of_nat 65536 = 65536.
Proof. vm_compute. reflexivity. Qed.
Lemma lt65536 i : (i < 65536)%nat -> N.of_nat i < 65536.
Proof. intros H. rewrite <- nat65536. lia. Qed.

Theorem counting_distinct : forall i j iv, 2 <= lenN iv -> (i < 65536)%nat -> (j < 65536)%nat ->
  counting_splice (Nat.iter i counting_next 0) iv = counting_splice (Nat.iter j counting_next 0) iv -> i = j.
Proof.
  intros i j iv Hiv Hi Hj E. rewrite !counting_iter in E.
  apply lt65536 in Hi. apply lt65536 in Hj.
  apply counting_splice_inj in E; [lia|assumption|lia|lia].
Qed.
Print Assumptions counting_distinct.
