(* Shadowsocks chunk codec (Model/SsChunk.v): seal trace of the encoder, nonce lockstep and uniqueness,
   chunk lengths, and the encoder/decoder round trip under the AEAD laws.

   Intended statements (all proved below, nothing partial):
   1. enc_chunks_lens      : every payload chunk sealed by `enc_chunks fuel a limit src` has 0 < length <= limit
                             (when 0 < limit) and the concatenation of the payload plaintexts is `src`
                             (when 0 < limit and length src <= fuel; in particular when length src < fuel).
   2. seal_nonces_lockstep : the i-th auth_seal (i from 1) performed from an authenticator whose nonce is
                             inc_init uses nonce `Nat.iter i inc inc_init` and the key of the authenticator;
      stream_nonces_unique : the (key, nonce) pairs of one encoder are pairwise distinct for <= 2^96 seals.
   3. chunk_roundtrip      : decode_payload P a DLen (fst (enc_chunks (S (length src)) a limit src))
                               = Ok (snd (enc_chunks ...), DLen, [], src)    for 0 < limit <= 65535
                             (and chunk_roundtrip_tail with < SIZE_BYTES trailing bytes left unconsumed).
   4. encode_payload_limit : payload_limit 16383 -> chunks <= 16349 = 16383-16-18, payload_limit 65535 ->
                             chunks <= 65501; the u16 length field never truncates. *)
From Coq Require Import List NArith ZArith Lia ZifyBool ZifyN ZifyNat.
From Octo Require Import Base.Bytes Crypto.Prims Model.NonceGen Model.SsChunk Proofs.NonceFacts.
Import ListNotations.
Open Scope N_scope.
Ltac Zify.zify_post_hook ::= Z.div_mod_to_equations.

Lemma iter_shift {A} (f : A -> A) n x : Nat.iter n f (f x) = f (Nat.iter n f x).
Proof. induction n as [|n IH]; [reflexivity|]. rewrite !iter_S, IH. reflexivity. Qed.
Lemma iter_plus {A} (f : A -> A) n m x : Nat.iter (n + m) f x = Nat.iter n f (Nat.iter m f x).
Proof. induction n as [|n IH]; [reflexivity|]. cbn [Nat.add]. rewrite !iter_S, IH. reflexivity. Qed.

Section SsChunkRoundtrip.
  Variable P : prims.

  (* ------------------------------------------------------------------------------------------ *)
  (* Instrumentation                                                                              *)
  (* ------------------------------------------------------------------------------------------ *)

  (* auth_seal that also reports the (key, nonce) it hands to p_seal *)
  Definition auth_seal_tr (a : auth) (pt : bytes) : bytes * auth * (bytes * bytes) :=
    (auth_seal P a pt, (au_key a, au_nonce (auth_step a))).

  (* the reported pair is exactly the key and the nonce passed to the AEAD primitive *)
  Lemma auth_seal_tr_sound a pt :
    let '(c, a', (k, n)) := auth_seal_tr a pt in
    c = p_seal P (au_cipher a) k n [] pt /\ (c, a') = auth_seal P a pt /\ a' = auth_step a.
  Proof. unfold auth_seal_tr, auth_seal. cbn beta iota zeta. auto. Qed.

  (* enc_chunks, mirrored line by line, collecting the (key, nonce) of every seal in order *)
  Fixpoint enc_chunks_tr (fuel : nat) (a : auth) (limit : N) (src : bytes) : bytes * auth * list (bytes * bytes) :=
    match fuel with
    | O => ([], a, [])
    | S f =>
      match src with
      | [] => ([], a, [])
      | _ =>
        let len := N.min (lenN src) limit in
        let '(c1, a1, l1) := auth_seal_tr a (put_u16 (len mod 65536)) in
        let '(c2, a2, l2) := auth_seal_tr a1 (takeN len src) in
        let '(rest, a3, tr) := enc_chunks_tr f a2 limit (dropN len src) in
        (c1 ++ c2 ++ rest, a3, l1 :: l2 :: tr)
      end
    end.
  Definition enc_trace (fuel : nat) (a : auth) (limit : N) (src : bytes) : list (bytes * bytes) :=
    snd (enc_chunks_tr fuel a limit src).

  (* the payload plaintext chunks, and all sealed plaintexts (length header, payload, ...) in order *)
  Fixpoint enc_plain (fuel : nat) (limit : N) (src : bytes) : list bytes :=
    match fuel with
    | O => []
    | S f =>
      match src with
      | [] => []
      | _ => let len := N.min (lenN src) limit in takeN len src :: enc_plain f limit (dropN len src)
      end
    end.
  Fixpoint enc_pts (fuel : nat) (limit : N) (src : bytes) : list bytes :=
    match fuel with
    | O => []
    | S f =>
      match src with
      | [] => []
      | _ => let len := N.min (lenN src) limit in
             put_u16 (len mod 65536) :: takeN len src :: enc_pts f limit (dropN len src)
      end
    end.

  (* sealing a list of plaintexts one after the other with one authenticator *)
  Fixpoint seal_all (a : auth) (pts : list bytes) : bytes * auth :=
    match pts with
    | [] => ([], a)
    | pt :: r => let (c, a1) := auth_seal P a pt in let (cs, a2) := seal_all a1 r in (c ++ cs, a2)
    end.
  Fixpoint seal_trace (a : auth) (pts : list bytes) : list (bytes * bytes) :=
    match pts with
    | [] => []
    | _ :: r => (au_key a, au_nonce (auth_step a)) :: seal_trace (auth_step a) r
    end.

  Lemma enc_chunks_tr_spec fuel : forall a limit src,
    enc_chunks_tr fuel a limit src = (enc_chunks P fuel a limit src, seal_trace a (enc_pts fuel limit src)).
  Proof.
    induction fuel as [|f IH]; intros a limit src; [reflexivity|].
    destruct src as [|x t]; [reflexivity|].
    cbn [enc_chunks_tr enc_chunks enc_pts seal_trace]. unfold auth_seal_tr, auth_seal. cbn beta iota zeta.
    rewrite IH. destruct (enc_chunks P f _ limit _) as [rest a3]. reflexivity.
  Qed.

  Lemma enc_chunks_tr_fst fuel a limit src : fst (enc_chunks_tr fuel a limit src) = enc_chunks P fuel a limit src.
  Proof. rewrite enc_chunks_tr_spec. reflexivity. Qed.
  Lemma enc_trace_eq fuel a limit src : enc_trace fuel a limit src = seal_trace a (enc_pts fuel limit src).
  Proof. unfold enc_trace. rewrite enc_chunks_tr_spec. reflexivity. Qed.

  Lemma enc_chunks_seal_all fuel : forall a limit src,
    enc_chunks P fuel a limit src = seal_all a (enc_pts fuel limit src).
  Proof.
    induction fuel as [|f IH]; intros a limit src; [reflexivity|].
    destruct src as [|x t]; [reflexivity|].
    cbn [enc_chunks enc_pts seal_all]. unfold auth_seal. cbn beta iota zeta.
    rewrite IH. destruct (seal_all _ _) as [rest a3]. reflexivity.
  Qed.

  Lemma seal_all_app : forall p1 a p2,
    seal_all a (p1 ++ p2) =
      (fst (seal_all a p1) ++ fst (seal_all (snd (seal_all a p1)) p2), snd (seal_all (snd (seal_all a p1)) p2)).
  Proof.
    induction p1 as [|pt r IH]; intros a p2.
    - cbn [app seal_all fst snd]. destruct (seal_all a p2); reflexivity.
    - cbn [app seal_all]. unfold auth_seal. cbn beta iota zeta. rewrite IH.
      destruct (seal_all (auth_step a) r) as [cs a2]. cbn [fst snd]. rewrite app_assoc. reflexivity.
  Qed.

  Lemma iter_auth_step_nonce n a : au_nonce (Nat.iter n auth_step a) = Nat.iter n inc (au_nonce a).
  Proof. induction n as [|n IH]; [reflexivity|]. rewrite !iter_S. cbn [auth_step au_nonce]. rewrite IH. reflexivity. Qed.
  Lemma iter_auth_step_key n a : au_key (Nat.iter n auth_step a) = au_key a.
  Proof. induction n as [|n IH]; [reflexivity|]. rewrite !iter_S. cbn [auth_step au_key]. exact IH. Qed.
  Lemma iter_auth_step_cipher n a : au_cipher (Nat.iter n auth_step a) = au_cipher a.
  Proof. induction n as [|n IH]; [reflexivity|]. rewrite !iter_S. cbn [auth_step au_cipher]. exact IH. Qed.

  (* every seal consumes exactly one generator step: final authenticator state *)
  Lemma seal_all_state : forall pts a, snd (seal_all a pts) = Nat.iter (length pts) auth_step a.
  Proof.
    induction pts as [|pt r IH]; intros a; [reflexivity|].
    cbn [seal_all length]. unfold auth_seal. cbn beta iota zeta.
    specialize (IH (auth_step a)). destruct (seal_all (auth_step a) r) as [cs a2]. cbn [snd] in *.
    rewrite IH. rewrite iter_S, iter_shift. reflexivity.
  Qed.

  Lemma seal_trace_app : forall p1 a p2,
    seal_trace a (p1 ++ p2) = seal_trace a p1 ++ seal_trace (Nat.iter (length p1) auth_step a) p2.
  Proof.
    induction p1 as [|pt r IH]; intros a p2; [reflexivity|].
    cbn [app seal_trace length]. rewrite IH. rewrite iter_S, iter_shift. reflexivity.
  Qed.

  Lemma seal_trace_length : forall pts a, length (seal_trace a pts) = length pts.
  Proof. induction pts as [|pt r IH]; intros a; [reflexivity|]. cbn [seal_trace length]. rewrite IH. reflexivity. Qed.

  Lemma seal_trace_nth : forall pts a i kn,
    nth_error (seal_trace a pts) i = Some kn -> kn = (au_key a, Nat.iter (S i) inc (au_nonce a)).
  Proof.
    induction pts as [|pt r IH]; intros a i kn H.
    - destruct i; discriminate H.
    - destruct i as [|i]; cbn [seal_trace nth_error] in H.
      + injection H as <-. reflexivity.
      + apply IH in H. cbn [auth_step au_key au_nonce] in H. rewrite H.
        rewrite (iter_S (S i)). rewrite <- iter_shift. reflexivity.
  Qed.

  (* ------------------------------------------------------------------------------------------ *)
  (* 1. chunk lengths and coverage                                                                *)
  (* ------------------------------------------------------------------------------------------ *)

  Lemma enc_pts_plain fuel : forall limit src,
    enc_pts fuel limit src = flat_map (fun c => [put_u16 (lenN c mod 65536); c]) (enc_plain fuel limit src).
  Proof.
    induction fuel as [|f IH]; intros limit src; [reflexivity|].
    destruct src as [|x t]; [reflexivity|].
    cbn [enc_pts enc_plain flat_map app]. cbn beta zeta. rewrite IH.
    rewrite lenN_takeN by lia. reflexivity.
  Qed.

  Theorem enc_chunks_lens : forall fuel limit src, 0 < limit ->
    Forall (fun c => 0 < lenN c /\ lenN c <= limit) (enc_plain fuel limit src)
    /\ ((length src <= fuel)%nat -> concat (enc_plain fuel limit src) = src).
  Proof.
    induction fuel as [|f IH]; intros limit src Hl.
    - split; [constructor|]. intros H. destruct src; [reflexivity|cbn [length] in H; lia].
    - destruct src as [|x t]; [split; [constructor|reflexivity]|].
      cbn [enc_plain]. cbn beta zeta. set (src := x :: t). set (len := N.min (lenN src) limit).
      assert (Hsrc : 1 <= lenN src) by (subst src; rewrite lenN_cons; lia).
      assert (Hlen : 1 <= len /\ len <= lenN src /\ len <= limit) by lia.
      destruct (IH limit (dropN len src) Hl) as [IHf IHc].
      split.
      + constructor; [|exact IHf]. rewrite lenN_takeN by lia. lia.
      + intros Hfuel. cbn [concat]. rewrite IHc.
        * apply take_drop.
        * pose proof (lenN_dropN len src) as Hd. rewrite !lenN_spec in Hd.
          rewrite lenN_spec in Hlen. lia.
  Qed.

  (* the form asked for: fuel strictly larger than the source (as in encode_payload) *)
  Corollary enc_chunks_concat fuel limit src : 0 < limit -> (length src < fuel)%nat ->
    concat (enc_plain fuel limit src) = src.
  Proof. intros Hl Hf. apply (enc_chunks_lens fuel limit src Hl). lia. Qed.

  (* ------------------------------------------------------------------------------------------ *)
  (* 2. nonce lockstep and uniqueness                                                             *)
  (* ------------------------------------------------------------------------------------------ *)

  (* the i-th seal (counted from 1, i.e. list index i-1) uses the authenticator key and i generator steps *)
  Theorem seal_nonces_lockstep : forall a pts i k n, au_nonce a = inc_init ->
    nth_error (seal_trace a pts) i = Some (k, n) -> k = au_key a /\ n = Nat.iter (S i) inc inc_init.
  Proof.
    intros a pts i k n Ha H. apply seal_trace_nth in H. rewrite Ha in H.
    apply pair_equal_spec in H. exact H.
  Qed.

  Corollary enc_nonces_lockstep : forall c key a fuel limit src i k n, auth_new c key = Ok a ->
    nth_error (enc_trace fuel a limit src) i = Some (k, n) ->
    k = takeN (cipher_key_size c) key /\ n = Nat.iter (S i) inc inc_init.
  Proof.
    intros c key a fuel limit src i k n Hn H. unfold auth_new in Hn.
    destruct (lenN key <? cipher_key_size c); [discriminate Hn|]. injection Hn as <-.
    rewrite enc_trace_eq in H. apply seal_nonces_lockstep in H; [|reflexivity]. exact H.
  Qed.

  Theorem stream_nonces_unique_gen : forall a pts m, au_nonce a = Nat.iter m inc inc_init ->
    N.of_nat (m + length pts) <= 2 ^ 96 -> NoDup (seal_trace a pts).
  Proof.
    intros a pts m Ha Hb. apply NoDup_nth_error. intros i j Hi E.
    rewrite seal_trace_length in Hi.
    destruct (nth_error (seal_trace a pts) i) as [kn|] eqn:Ei.
    2:{ apply nth_error_None in Ei. rewrite seal_trace_length in Ei. lia. }
    symmetry in E.
    assert (Hj : (j < length pts)%nat).
    { rewrite <- (seal_trace_length pts a). apply nth_error_Some. rewrite E. discriminate. }
    apply seal_trace_nth in Ei. apply seal_trace_nth in E. rewrite Ei in E.
    apply pair_equal_spec in E. destruct E as [_ E]. rewrite Ha in E.
    rewrite <- !iter_plus in E.
    apply nonces_distinct in E; lia.
  Qed.

  Theorem stream_nonces_unique : forall a pts, au_nonce a = inc_init ->
    N.of_nat (length pts) <= 2 ^ 96 -> NoDup (seal_trace a pts).
  Proof. intros a pts Ha Hb. apply (stream_nonces_unique_gen a pts 0); [exact Ha|exact Hb]. Qed.

  Corollary enc_nonces_unique : forall c key a fuel limit src, auth_new c key = Ok a ->
    N.of_nat (length (enc_trace fuel a limit src)) <= 2 ^ 96 -> NoDup (enc_trace fuel a limit src).
  Proof.
    intros c key a fuel limit src Hn Hb. unfold auth_new in Hn.
    destruct (lenN key <? cipher_key_size c); [discriminate Hn|]. injection Hn as <-.
    rewrite enc_trace_eq in *. rewrite seal_trace_length in Hb.
    apply stream_nonces_unique; [reflexivity|exact Hb].
  Qed.

  (* ------------------------------------------------------------------------------------------ *)
  (* 3. round trip                                                                                *)
  (* ------------------------------------------------------------------------------------------ *)

  Lemma enc_chunks_cons f a limit x t :
    enc_chunks P (S f) a limit (x :: t) =
      (p_seal P (au_cipher a) (au_key a) (inc (au_nonce a)) []
              (put_u16 (N.min (lenN (x :: t)) limit mod 65536)) ++
       p_seal P (au_cipher a) (au_key a) (inc (inc (au_nonce a))) [] (takeN (N.min (lenN (x :: t)) limit) (x :: t)) ++
       fst (enc_chunks P f (auth_step (auth_step a)) limit (dropN (N.min (lenN (x :: t)) limit) (x :: t))),
       snd (enc_chunks P f (auth_step (auth_step a)) limit (dropN (N.min (lenN (x :: t)) limit) (x :: t)))).
  Proof.
    cbn [enc_chunks]. unfold auth_seal. cbn beta iota zeta.
    destruct (enc_chunks P f _ limit _) as [rest a3]. reflexivity.
  Qed.

  Section Laws.
    Hypothesis HL : prim_laws P.

    Lemma dec_step_len f a v rest dst : v < 65536 ->
      dec_loop P (S f) a DLen (p_seal P (au_cipher a) (au_key a) (inc (au_nonce a)) [] (put_u16 v) ++ rest) dst
      = dec_loop P f (auth_step a) (DPay (v + TAG)) rest dst.
    Proof.
      intros Hv. cbn [dec_loop].
      set (c1 := p_seal P (au_cipher a) (au_key a) (inc (au_nonce a)) [] (put_u16 v)).
      assert (Hc1 : lenN c1 = SIZE_BYTES).
      { subst c1. rewrite (seal_len P HL). unfold put_u16. rewrite lenN_put_be. reflexivity. }
      destruct (N.ltb_spec (lenN (c1 ++ rest)) SIZE_BYTES) as [Hlt|Hge].
      { rewrite lenN_app in Hlt. lia. }
      rewrite <- Hc1. rewrite takeN_app_exact, dropN_app_exact.
      unfold auth_open. cbn beta zeta. cbn [auth_step au_nonce].
      subst c1. rewrite (open_seal P HL).
      unfold get_u16, put_u16. rewrite <- (app_nil_r (put_be 2 v)).
      rewrite get_be_put_be by (change (256 ^ 2) with 65536; exact Hv).
      cbn [bind]. reflexivity.
    Qed.

    Lemma dec_step_pay f a n pt rest dst : n = lenN pt + TAG ->
      dec_loop P (S f) a (DPay n) (p_seal P (au_cipher a) (au_key a) (inc (au_nonce a)) [] pt ++ rest) dst
      = dec_loop P f (auth_step a) DLen rest (dst ++ pt).
    Proof.
      intros Hn. cbn [dec_loop].
      set (c2 := p_seal P (au_cipher a) (au_key a) (inc (au_nonce a)) [] pt).
      assert (Hc2 : lenN c2 = n).
      { subst c2. rewrite (seal_len P HL). symmetry. exact Hn. }
      destruct (N.ltb_spec (lenN (c2 ++ rest)) n) as [Hlt|Hge].
      { rewrite lenN_app in Hlt. lia. }
      rewrite <- Hc2. rewrite takeN_app_exact, dropN_app_exact.
      unfold auth_open. cbn beta zeta. cbn [auth_step au_nonce].
      subst c2. rewrite (open_seal P HL). reflexivity.
    Qed.

    Lemma dec_stop fd a tail dst : lenN tail < SIZE_BYTES -> dec_loop P fd a DLen tail dst = Ok (a, DLen, tail, dst).
    Proof.
      intros Ht. destruct fd as [|fd]; [reflexivity|]. cbn [dec_loop].
      destruct (N.ltb_spec (lenN tail) SIZE_BYTES) as [_|Hge]; [reflexivity|lia].
    Qed.

    (* general form: arbitrary encoder fuel >= |src|, fewer than SIZE_BYTES trailing bytes, arbitrary
       already-decoded prefix dst, any decoder fuel >= |wire| *)
    Lemma dec_enc_gen limit : 0 < limit -> limit <= 65535 ->
      forall fe src a tail dst fd,
      (length src <= fe)%nat -> lenN tail < SIZE_BYTES ->
      (length (fst (enc_chunks P fe a limit src)) <= fd)%nat ->
      dec_loop P fd a DLen (fst (enc_chunks P fe a limit src) ++ tail) dst
      = Ok (snd (enc_chunks P fe a limit src), DLen, tail, dst ++ src).
    Proof.
      intros Hl0 Hl1. induction fe as [|f IH]; intros src a tail dst fd Hfe Ht Hfd.
      - destruct src as [|x t]; [|cbn [length] in Hfe; lia].
        cbn [enc_chunks fst snd app]. rewrite app_nil_r. apply dec_stop. exact Ht.
      - destruct src as [|x t].
        + cbn [enc_chunks fst snd app]. rewrite app_nil_r. apply dec_stop. exact Ht.
        + rewrite enc_chunks_cons in *. cbn [fst snd] in *.
          set (src := x :: t) in *. set (len := N.min (lenN src) limit) in *.
          assert (Hsrc : 1 <= lenN src) by (subst src; rewrite lenN_cons; lia).
          assert (Hlen : 1 <= len /\ len <= lenN src /\ len <= limit) by lia.
          rewrite (N.mod_small len 65536) in * by lia.
          set (c1 := p_seal P (au_cipher a) (au_key a) (inc (au_nonce a)) [] (put_u16 len)) in *.
          set (c2 := p_seal P (au_cipher a) (au_key a) (inc (inc (au_nonce a))) [] (takeN len src)) in *.
          set (rest := fst (enc_chunks P f (auth_step (auth_step a)) limit (dropN len src))) in *.
          rewrite !app_length in Hfd.
          assert (Hc1 : lenN c1 = 18).
          { subst c1. rewrite (seal_len P HL). unfold put_u16. rewrite lenN_put_be. reflexivity. }
          rewrite lenN_spec in Hc1.
          destruct fd as [|[|fd]]; [lia|lia|].
          rewrite <- !app_assoc.
          subst c1. rewrite dec_step_len by lia.
          subst c2. change (inc (inc (au_nonce a))) with (inc (au_nonce (auth_step a))).
          change (au_cipher a) with (au_cipher (auth_step a)).
          change (au_key a) with (au_key (auth_step a)).
          rewrite dec_step_pay by (rewrite lenN_takeN by lia; reflexivity).
          subst rest. rewrite IH.
          * rewrite <- app_assoc. rewrite take_drop. reflexivity.
          * pose proof (lenN_dropN len src) as Hd. rewrite !lenN_spec in Hd.
            rewrite lenN_spec in Hlen. subst src. cbn [length] in *. lia.
          * exact Ht.
          * lia.
    Qed.

    Theorem chunk_roundtrip_tail : forall a limit src tail, 0 < limit -> limit <= 65535 ->
      lenN tail < SIZE_BYTES ->
      let (wire, a') := enc_chunks P (S (length src)) a limit src in
      decode_payload P a DLen (wire ++ tail) = Ok (a', DLen, tail, src).
    Proof.
      intros a limit src tail Hl0 Hl1 Ht.
      pose proof (dec_enc_gen limit Hl0 Hl1 (S (length src)) src a tail []
                              (S (length (fst (enc_chunks P (S (length src)) a limit src) ++ tail)))) as H.
      destruct (enc_chunks P (S (length src)) a limit src) as [wire a'] eqn:E. cbn [fst snd] in H.
      unfold decode_payload. rewrite H; [reflexivity|lia|exact Ht|]. rewrite app_length. lia.
    Qed.

    Theorem chunk_roundtrip : forall a limit src, 0 < limit -> limit <= 65535 ->
      let (wire, a') := enc_chunks P (S (length src)) a limit src in
      decode_payload P a DLen wire = Ok (a', DLen, [], src).
    Proof.
      intros a limit src Hl0 Hl1.
      pose proof (chunk_roundtrip_tail a limit src [] Hl0 Hl1) as H.
      destruct (enc_chunks P (S (length src)) a limit src) as [wire a']. rewrite app_nil_r in H.
      apply H. reflexivity.
    Qed.

    (* the decoder ends in lockstep with the encoder: one generator step per seal / per open *)
    Corollary chunk_roundtrip_lockstep : forall a limit src, 0 < limit -> limit <= 65535 ->
      let n := length (enc_pts (S (length src)) limit src) in
      decode_payload P a DLen (fst (enc_chunks P (S (length src)) a limit src))
      = Ok (Nat.iter n auth_step a, DLen, [], src).
    Proof.
      intros a limit src Hl0 Hl1 n. pose proof (chunk_roundtrip a limit src Hl0 Hl1) as H.
      pose proof (seal_all_state (enc_pts (S (length src)) limit src) a) as Hs.
      rewrite <- enc_chunks_seal_all in Hs.
      destruct (enc_chunks P (S (length src)) a limit src) as [wire a']. cbn [fst snd] in *.
      rewrite H. subst a'. reflexivity.
    Qed.

    (* encode_payload / decode_payload with the two payload limits used by the implementation *)
    Corollary encode_decode_payload : forall a pl src, pl = 16383 \/ pl = 65535 ->
      let (wire, a') := encode_payload P a pl src in
      decode_payload P a DLen wire = Ok (a', DLen, [], src).
    Proof.
      intros a pl src Hpl. unfold encode_payload.
      apply chunk_roundtrip; destruct Hpl as [-> | ->]; vm_compute; congruence.
    Qed.
  End Laws.

  (* ------------------------------------------------------------------------------------------ *)
  (* 4. payload limits                                                                            *)
  (* ------------------------------------------------------------------------------------------ *)

  Lemma chunk_limit_16383 : chunk_limit 16383 = 16383 - 16 - 18. Proof. reflexivity. Qed.
  Lemma chunk_limit_65535 : chunk_limit 65535 = 65501. Proof. reflexivity. Qed.

  Theorem encode_payload_limit : forall a pl src, pl = 16383 \/ pl = 65535 ->
    encode_payload P a pl src = seal_all a (enc_pts (S (length src)) (chunk_limit pl) src)
    /\ enc_pts (S (length src)) (chunk_limit pl) src
       = flat_map (fun c => [put_u16 (lenN c mod 65536); c]) (enc_plain (S (length src)) (chunk_limit pl) src)
    /\ concat (enc_plain (S (length src)) (chunk_limit pl) src) = src
    /\ Forall (fun c => 0 < lenN c /\ lenN c <= pl - 16 - 18 /\ lenN c <= 65501 /\ lenN c mod 65536 = lenN c)
              (enc_plain (S (length src)) (chunk_limit pl) src).
  Proof.
    intros a pl src Hpl.
    assert (Hcl : chunk_limit pl = pl - 16 - 18 /\ 0 < chunk_limit pl /\ chunk_limit pl <= 65501).
    { destruct Hpl as [-> | ->]; vm_compute; repeat split; congruence. }
    destruct Hcl as (Hcl & Hpos & Hmax).
    destruct (enc_chunks_lens (S (length src)) (chunk_limit pl) src Hpos) as [HF HC].
    split; [apply enc_chunks_seal_all|]. split; [apply enc_pts_plain|]. split; [apply HC; lia|].
    eapply Forall_impl; [|exact HF]. cbn beta. intros c [H0 H1]. rewrite <- Hcl.
    repeat split; lia.
  Qed.
End SsChunkRoundtrip.

Print Assumptions enc_chunks_tr_spec.
Print Assumptions enc_chunks_lens.
Print Assumptions seal_nonces_lockstep.
Print Assumptions stream_nonces_unique_gen.
Print Assumptions stream_nonces_unique.
Print Assumptions enc_nonces_unique.
Print Assumptions chunk_roundtrip_tail.
Print Assumptions chunk_roundtrip.
Print Assumptions chunk_roundtrip_lockstep.
Print Assumptions encode_decode_payload.
Print Assumptions encode_payload_limit.
