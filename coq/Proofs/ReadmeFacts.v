(* C16: the hand transcription Spec/Readme.v agrees with /repo/README.md AS IT IS NOW.

   Generated/Readme.v is the README's markdown as plain data (table cells, list items, notes), rewritten from
   /repo/README.md by tools/gen_from_source.py on every run and not interpreted there.  This file states how that text is
   READ (the few definitions below: which column title is which protocol, which cell text is which transport, what a
   ticked Ciphers cell looks like) and proves that Spec/Readme.v is exactly that reading.  Every C16 theorem that
   mentions Spec.Readme is thereby a statement about the current README: a cipher row removed, a tick moved, a mode
   option added or a protocol renamed in README.md changes Generated/Readme.v and one of the proofs below stops.

   Two places where Spec/Readme.v is NOT the README's tables verbatim, both stated as such below:
     - the cipher name "chacha20-ietf-poly1305" is in no README table (it is the name used by the repository's own
       configuration examples): `readme_ciphers` = the README table + that one alias of the chacha20-poly1305 row;
     - the last row of the Transport table is spelled `ucp` in the README; it is read as `udp`
       (readme_ucp_row_is_udp_quic). *)
From Coq Require Import String List Bool NArith.
From Octo Require Import Model.Config Spec.Readme Generated.Readme.
Import ListNotations.
Open Scope string_scope.
Open Scope list_scope.

(* ---- how the README's text is read ------------------------------------------------------------------------ *)
(* column titles of the Transport and Ciphers tables *)
Definition readme_column_protocol (title : string) : option protocol :=
  assoc title [("Shadowsocks", PShadowsocks); ("VMess", PVMess); ("Trojan", PTrojan)].
(* the `code` texts of the Client-Server column *)
Definition readme_transport_name (s : string) : option transport :=
  assoc s [("tcp", TTcp); ("tls", TTls); ("ws", TWs); ("wss", TWss); ("quic", TQuic); ("udp", TUdp)].
(* the `code` texts of the Local-Peer column: what the application speaks to the client *)
Inductive local_peer := LocalTcp | LocalUdp.
Definition readme_transport_typo : string := "ucp".      (* the README's own spelling in the last Transport row *)
Definition readme_local_peer (s : string) : option local_peer :=
  if s =? "tcp" then Some LocalTcp
  else if s =? "udp" then Some LocalUdp
  else if s =? readme_transport_typo then Some LocalUdp   (* read as `udp`: readme_ucp_row_is_udp_quic *)
  else None.
Definition readme_transport (l : local_peer) : protocol -> transport -> bool :=
  match l with LocalTcp => readme_tcp_transport | LocalUdp => readme_udp_transport end.

(* a Ciphers cell: `C` `S` (client and server) or empty *)
Definition md_marks (ticked : bool) : list string := if ticked then ["C"; "S"] else [].
(* the README row a documented cipher stands for *)
Definition md_cipher_row_of (d : doc_cipher) : md_cipher_row :=
  {| mdc_name := dc_name d; mdc_cells := [md_marks (dc_shadowsocks d); md_marks (dc_vmess d)] |}.
(* the one name of readme_ciphers that no README table has *)
Definition readme_config_example_alias : string := "chacha20-ietf-poly1305".
Definition dc_with_name (n : string) (d : doc_cipher) : doc_cipher :=
  {| dc_name := n; dc_aead := dc_aead d; dc_2022 := dc_2022 d; dc_key_len := dc_key_len d;
     dc_shadowsocks := dc_shadowsocks d; dc_vmess := dc_vmess d |}.
Definition not_alias (d : doc_cipher) : bool := negb (dc_name d =? readme_config_example_alias).

(* the numbered list under `> mode:` *)
Definition md_mode_item_of (who : string) : option md_mode_item := find (fun i => mdm_who i =? who) md_mode_items.
Definition md_option_names (i : md_mode_item) : list string := map fst (mdm_options i).
Definition md_defaults (i : md_mode_item) : list string := map fst (filter snd (mdm_options i)).
Definition is_client_mode (nm : string * lmode) : bool :=
  match readme_client_listeners (snd nm) with Some _ => true | None => false end.

(* the `> key: text` notes *)
Definition md_optional (n : md_note) : bool := prefix "(OPTIONAL)" (mdn_text n).
Definition md_has_subkeys (n : md_note) : bool := match mdn_subkeys n with [] => false | _ => true end.

(* ---- tactics ---------------------------------------------------------------------------------------------- *)
(* H : In x [a; b; ..]  ->  one goal per element *)
Ltac in_cases H := cbn in H; repeat (destruct H as [H | H]; [subst | ]); try contradiction.
(* |- In x [a; b; ..] for some element that makes the rest of the proof go through *)
Ltac pick := (left; reflexivity) + (right; pick).

(* ---- Ciphers ---------------------------------------------------------------------------------------------- *)
Lemma readme_cipher_names_nodup : NoDup readme_cipher_names.
Proof.
  unfold readme_cipher_names. cbn.
  repeat (constructor; [cbn; intros H; repeat (destruct H as [H | H]; [discriminate H|]); exact H|]).
  constructor.
Qed.

Theorem generated_readme_ciphers_match_spec :
  md_cipher_columns = ["Shadowsocks"; "VMess"]
  /\ md_cipher_legend = [("C", "client"); ("S", "server")]
  (* the README table is readme_ciphers without the alias: row for row, in the README's order, same two columns *)
  /\ md_cipher_rows = map md_cipher_row_of (filter not_alias readme_ciphers)
  /\ length readme_ciphers = S (length md_cipher_rows)
  (* the alias is in no README row; in readme_ciphers it is the chacha20-poly1305 entry under a second name *)
  /\ ~ In readme_config_example_alias (map mdc_name md_cipher_rows)
  /\ (forall d, In d readme_ciphers -> dc_name d = readme_config_example_alias ->
        exists d0, In d0 readme_ciphers /\ dc_name d0 = "chacha20-poly1305" /\ In (md_cipher_row_of d0) md_cipher_rows
                   /\ d = dc_with_name readme_config_example_alias d0)
  (* every README row is the readme_ciphers entry of that name (there is one: the names are distinct), same columns *)
  /\ (forall r, In r md_cipher_rows -> exists d, In d readme_ciphers /\ dc_name d = mdc_name r /\ r = md_cipher_row_of d)
  (* and every other readme_ciphers entry is a README row *)
  /\ (forall d, In d readme_ciphers -> dc_name d <> readme_config_example_alias -> In (md_cipher_row_of d) md_cipher_rows)
  /\ NoDup readme_cipher_names.
Proof.
  assert (E : md_cipher_rows = map md_cipher_row_of (filter not_alias readme_ciphers)) by reflexivity.
  split; [reflexivity|]. split; [reflexivity|]. split; [exact E|]. split; [reflexivity|].
  split. { cbn. intros H. repeat (destruct H as [H | H]; [discriminate H|]). exact H. }
  split.
  { intros d Hd Hn. in_cases Hd; try discriminate Hn.
    eexists; (split; [cbn; pick|split; [reflexivity|split; [cbn; pick|reflexivity]]]). }
  split.
  { intros r Hr. rewrite E in Hr. apply in_map_iff in Hr as [d [<- Hd]]. apply filter_In in Hd as [Hd _].
    exists d. split; [exact Hd|]. split; reflexivity. }
  split; [|exact readme_cipher_names_nodup].
  intros d Hd Hn. rewrite E. apply in_map. apply filter_In. split; [exact Hd|].
  unfold not_alias. destruct (String.eqb_spec (dc_name d) readme_config_example_alias) as [e|_]; [contradiction|reflexivity].
Qed.

(* ---- protocol -------------------------------------------------------------------------------------------- *)
Theorem generated_readme_protocols_match_spec :
  md_protocol_options = readme_protocol_names
  /\ (forall n, In n md_protocol_options <-> exists p, In (n, p) readme_protocols)
  (* the protocol columns of the Transport table are these protocols, in this order; the Ciphers table has the first two *)
  /\ map readme_column_protocol md_transport_columns = map (fun n => assoc n readme_protocols) md_protocol_options
  /\ map readme_column_protocol md_transport_columns = map Some all_protocols
  /\ map readme_column_protocol md_cipher_columns = [Some PShadowsocks; Some PVMess].
Proof.
  split; [reflexivity|]. split; [|repeat split].
  intros n. split.
  - intros H. in_cases H; eexists; cbn; pick.
  - intros [p H]. in_cases H; inversion H; subst; cbn; pick.
Qed.

(* ---- mode -------------------------------------------------------------------------------------------------- *)
Theorem generated_readme_modes_match_spec :
  map mdm_who md_mode_items = ["client"; "shadowsocks server"; "shadowsocks quic server"]
  (* 1. client: the option names, in the README's order, are the client modes; "(default)" marks exactly readme_default_mode *)
  /\ (exists i, md_mode_item_of "client" = Some i
        /\ md_option_names i = readme_client_modes
        /\ md_option_names i = map fst (filter is_client_mode readme_modes)
        /\ md_defaults i = [readme_default_mode])
  (* 2. shadowsocks server: the option names are the server modes = every documented mode name *)
  /\ (exists i, md_mode_item_of "shadowsocks server" = Some i
        /\ md_option_names i = readme_server_modes
        /\ (forall s, In s (md_option_names i) <-> In s readme_mode_names)
        /\ NoDup (md_option_names i) /\ length (md_option_names i) = length readme_mode_names
        /\ md_defaults i = [readme_default_mode])
  (* 3. shadowsocks quic server: a remark, no further option *)
  /\ (exists i, md_mode_item_of "shadowsocks quic server" = Some i /\ mdm_options i = [])
  (* no mode name is documented anywhere else, and none of readme_modes is undocumented *)
  /\ (forall s, In s readme_mode_names <-> exists i, In i md_mode_items /\ In s (md_option_names i)).
Proof.
  split; [reflexivity|].
  split. { eexists. split; [reflexivity|]. repeat split. }
  split.
  { eexists. split; [reflexivity|]. split; [reflexivity|]. split.
    - intros s. split; intros H; in_cases H; cbn; pick.
    - split; [|split; reflexivity]. cbn.
      repeat (constructor; [cbn; intros H; repeat (destruct H as [H | H]; [discriminate H|]); exact H|]). constructor. }
  split. { eexists. split; reflexivity. }
  intros s. split.
  - intros H. in_cases H; (eexists; split; [cbn; right; left; reflexivity|cbn; pick]).
  - intros [i [Hi H]]. in_cases Hi; in_cases H; cbn; pick.
Qed.

(* ---- Transport --------------------------------------------------------------------------------------------- *)
Definition md_ucp_row : md_transport_row :=
  {| mdt_local := readme_transport_typo; mdt_peer := "quic"; mdt_ticks := [false; true; true] |}.

(* The README's Transport table has one row whose Local-Peer cell is neither `tcp` nor `udp`: its last row, spelled `ucp`,
   after the five `udp` rows.  Spec/Readme.v (and this file) READ it as `udp`: under that reading it is the
   udp-over-quic row of readme_udp_transport, and the table has no other udp/quic row. *)
Lemma readme_ucp_row_is_udp_quic :
  filter (fun r => negb (mdt_local r =? "tcp") && negb (mdt_local r =? "udp")) md_transport_rows = [md_ucp_row]
  /\ md_transport_rows = removelast md_transport_rows ++ [md_ucp_row]
  /\ Forall (fun r => mdt_local r = "tcp" \/ mdt_local r = "udp") (removelast md_transport_rows)
  /\ readme_local_peer (mdt_local md_ucp_row) = Some LocalUdp
  /\ readme_transport_name (mdt_peer md_ucp_row) = Some TQuic
  /\ mdt_ticks md_ucp_row = map (fun p => readme_udp_transport p TQuic) all_protocols
  /\ ~ In ("udp", "quic") (map (fun r => (mdt_local r, mdt_peer r)) md_transport_rows).
Proof.
  split; [reflexivity|]. split; [reflexivity|].
  split. { cbn. repeat (constructor; [first [left; reflexivity | right; reflexivity]|]). constructor. }
  split; [reflexivity|]. split; [reflexivity|]. split; [reflexivity|].
  cbn. intros H. repeat (destruct H as [H | H]; [discriminate H|]). exact H.
Qed.

Theorem generated_readme_transports_match_spec :
  md_transport_key_columns = ["Local-Peer"; "Client-Server"]
  /\ map readme_column_protocol md_transport_columns = map Some all_protocols
  (* every row of the README table is understood and carries exactly the ticks of readme_tcp_transport / readme_udp_transport *)
  /\ (forall r, In r md_transport_rows ->
        exists l t, readme_local_peer (mdt_local r) = Some l /\ readme_transport_name (mdt_peer r) = Some t
                    /\ mdt_ticks r = map (fun p => readme_transport l p t) all_protocols)
  (* vice versa: whatever readme_tcp_transport / readme_udp_transport allow is a row of the README table *)
  /\ (forall l p t, readme_transport l p t = true ->
        exists r, In r md_transport_rows /\ readme_local_peer (mdt_local r) = Some l /\ readme_transport_name (mdt_peer r) = Some t)
  (* one row per (Local-Peer, Client-Server) pair *)
  /\ NoDup (map (fun r => (readme_local_peer (mdt_local r), readme_transport_name (mdt_peer r))) md_transport_rows)
  (* the only cell text that needed a reading beyond its spelling *)
  /\ (forall r, In r md_transport_rows -> mdt_local r = "tcp" \/ mdt_local r = "udp" \/ r = md_ucp_row).
Proof.
  split; [reflexivity|]. split; [reflexivity|].
  split. { intros r H. in_cases H; (eexists; eexists; split; [reflexivity|split; reflexivity]). }
  split.
  { intros l p t H.
    destruct l, p, t; try discriminate H; (eexists; split; [unfold md_transport_rows; pick|split; reflexivity]). }
  split.
  { cbn. repeat (constructor; [cbn; intros H; repeat (destruct H as [H | H]; [discriminate H|]); exact H|]). constructor. }
  intros r H. in_cases H; first [left; reflexivity | right; left; reflexivity | right; right; reflexivity].
Qed.

(* ---- the optional sections --------------------------------------------------------------------------------- *)
(* readme_sections_transport has one argument per OPTIONAL section with documented keys (ssl, ws, quic), and what it
   can answer is exactly the Client-Server column of the `tcp` rows; `mode` is optional as well (hence a default) *)
Theorem generated_readme_sections_match_spec :
  map mdn_key (filter md_optional md_config_notes) = ["mode"; "ssl"; "ws"; "quic"]
  /\ map (fun n => (mdn_key n, map fst (mdn_subkeys n))) (filter md_has_subkeys md_config_notes)
     = [("ssl", ["certificateFile"; "serverName"]); ("ws", ["header"; "path"]); ("quic", ["certificateFile"; "keyFile"; "serverName"])]
  /\ (forall ssl ws quic, exists r, In r md_transport_rows /\ readme_local_peer (mdt_local r) = Some LocalTcp
        /\ readme_transport_name (mdt_peer r) = Some (readme_sections_transport ssl ws quic))
  /\ (forall r, In r md_transport_rows -> readme_local_peer (mdt_local r) = Some LocalTcp ->
        exists ssl ws quic, readme_transport_name (mdt_peer r) = Some (readme_sections_transport ssl ws quic)).
Proof.
  split; [reflexivity|]. split; [reflexivity|].
  split. { intros [] [] []; (eexists; split; [unfold md_transport_rows; pick|split; reflexivity]). }
  intros r H Hl. in_cases H; try discriminate Hl.
  - exists false, false, false. reflexivity.
  - exists true, false, false. reflexivity.
  - exists false, true, false. reflexivity.
  - exists true, true, false. reflexivity.
  - exists false, false, true. reflexivity.
Qed.
