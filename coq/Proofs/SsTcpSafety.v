(* Safety of the Shadowsocks TCP codec model (Model/SsTcp.v).

   A. No panic.  For ALL inputs, keys, caches, clocks and every reachable codec state (invariant
      `codec_wf`), `ss_decode` / `server_decode` never return `Panic`, and the invariant is preserved.
      Premises (facts about the real primitives, NOT axioms; bundled in `prim_lens`):
        b3_len      : blake3 derive_key yields 32 bytes
        hkdf_len    : HKDF-SHA1 expand yields the requested number of bytes
        pl_open_len : an AEAD open of ct that succeeds yields |ct| - 16 bytes (SsChunkCanon.open_len_ok)
      The opened plaintext of the 2022 fixed header therefore has exactly
      header_len - eih_len - 16 = 1 + 8 + req_salt_len + 2 bytes (`opened_fixed_header_len`), which is what makes
      get_u8 / get_u64 / split_to n / get_u16 on it safe (`parse_fixed_no_panic`).  The variable part is
      arbitrary authenticated bytes: the explicit length checks and `s5_decode_total` cover it
      (`open_var_no_panic`).

   B. Freshness / type / binding (C10).
      1. accept_implies_fresh_and_typed (+ open_fixed_type/_time/_fresh/_echo/_user, release_implies_accept)
      2. validate_timestamp_iff, boundary_exact
      3. replay_rejected, replay_never_releases, release_inserts_salt, mem_salt_mono, mem_salt_head,
         replay_after_release, cache_only_grows
      4. no_release_without_insert

   C. legacy_ignores_clock_and_cache, established_ignores_clock_and_cache.

   Non-vacuity: `toy` primitives satisfy `prim_lens`; concrete requests are accepted / replays and stale
   timestamps rejected (Examples at the end, by vm_compute).

   Everything stated here is proved in full; nothing is `_partial`. *)
From Coq Require Import List NArith Lia Arith Bool ZArith ZifyBool ZifyN ZifyNat.
From Octo Require Import Base.Bytes Crypto.Prims Model.NonceGen Model.SsChunk Model.Address Model.SsTcp.
From Octo Require Import Proofs.AddressFacts Proofs.SsChunkCanon.
Import ListNotations.
Open Scope N_scope.

(* ---------------- facts that do not mention the primitives ---------------- *)

Lemma bytes_eqb_eq a b : bytes_eqb a b = true -> a = b.
Proof. unfold bytes_eqb. destruct (list_eq_dec N.eq_dec a b) as [E|E]; [intros _; exact E|discriminate]. Qed.
Lemma bytes_eqb_refl a : bytes_eqb a a = true.
Proof. unfold bytes_eqb. destruct (list_eq_dec N.eq_dec a a) as [E|E]; [reflexivity|contradiction]. Qed.

Lemma mem_salt_head cache x : mem_salt (x :: cache) x = true.
Proof. unfold mem_salt. cbn [existsb]. rewrite bytes_eqb_refl. reflexivity. Qed.
Lemma mem_salt_mono cache x y : mem_salt cache x = true -> mem_salt (y :: cache) x = true.
Proof. unfold mem_salt. cbn [existsb]. intros ->. apply orb_true_r. Qed.

Lemma get_be_inv k b v t : get_be k b = Ok (v, t) -> k <= lenN b /\ v = be (takeN k b) /\ t = dropN k b.
Proof.
  unfold get_be, split_to. destruct (N.leb_spec k (lenN b)) as [Hk|Hk]; cbn [bind]; [|discriminate].
  intros [= <- <-]. auto.
Qed.
Lemma split_to_inv k b h t : split_to k b = Ok (h, t) -> k <= lenN b /\ h = takeN k b /\ t = dropN k b.
Proof.
  unfold split_to. destruct (N.leb_spec k (lenN b)) as [Hk|Hk]; [|discriminate].
  intros [= <- <-]. auto.
Qed.

(* B.2: the timestamp window *)
Theorem validate_timestamp_iff now ts :
  validate_timestamp now ts = true <-> (ts <= now + 30 /\ now <= ts + 30).
Proof.
  unfold validate_timestamp, abs_diff, TS_MAX_DIFF.
  destruct (N.ltb_spec now ts) as [H|H]; rewrite N.leb_le; lia.
Qed.
Lemma validate_timestamp_false_iff now ts :
  validate_timestamp now ts = false <-> (now + 30 < ts \/ ts + 30 < now).
Proof.
  destruct (validate_timestamp now ts) eqn:E.
  - apply validate_timestamp_iff in E. split; [discriminate|lia].
  - split; [intros _|reflexivity].
    destruct (N.le_gt_cases ts (now + 30)) as [H1|H1]; [|lia].
    destruct (N.le_gt_cases now (ts + 30)) as [H2|H2]; [|lia].
    assert (validate_timestamp now ts = true) as E' by (apply validate_timestamp_iff; lia).
    rewrite E in E'. discriminate.
Qed.
Theorem boundary_exact now :
  validate_timestamp now (now + 30) = true /\
  validate_timestamp now (now + 31) = false /\
  (30 <= now -> validate_timestamp now (now - 30) = true) /\
  (31 <= now -> validate_timestamp now (now - 31) = false).
Proof.
  split; [apply validate_timestamp_iff; lia|].
  split; [apply validate_timestamp_false_iff; lia|].
  split; intros H; [apply validate_timestamp_iff; lia|apply validate_timestamp_false_iff; lia].
Qed.

Lemma key_size_le_n k : cipher_key_size (kind_cipher k) <= kind_n k.
Proof. destruct k; cbv; congruence. Qed.
Lemma key_size_le_32 c : cipher_key_size c <= 32.
Proof. unfold cipher_key_size. destruct (c =? 0); lia. Qed.
Lemma kind_n_pos k : 0 < kind_n k.
Proof. destruct k; cbv; reflexivity. Qed.

Lemma auth_new_ok c key : cipher_key_size c <= lenN key -> exists a, auth_new c key = Ok a.
Proof.
  intros H. unfold auth_new. destruct (N.ltb_spec (lenN key) (cipher_key_size c)) as [Hc|Hc]; [lia|].
  eexists; reflexivity.
Qed.

(* the invariant of reachable codec states: a decoder in the payload state expects len = sz + 16 > 0 bytes *)
Definition codec_wf (cd : codec) : Prop :=
  match cd_dec cd with Some (a, st) => wf (a, st) | None => True end.

Lemma codec_wf_new : codec_wf codec_new.
Proof. exact I. Qed.

Section SsTcpSafety.
  Variable P : prims.

  (* length facts about the real primitives, premises of the no-panic theorems *)
  Record prim_lens : Prop := {
    b3_len : forall c m, lenN (p_b3derive P c m) = 32;
    hkdf_len : forall i s info n, lenN (p_hkdf_sha1 P i s info n) = n;
    pl_open_len : open_len_ok P
  }.

  Lemma new_auth_2022_ok (PL : prim_lens) k key salt : exists a, new_auth_2022 P k key salt = Ok a.
  Proof.
    unfold new_auth_2022, session_sub_key. apply auth_new_ok. rewrite (b3_len PL). apply key_size_le_32.
  Qed.
  Lemma new_auth_legacy_ok (PL : prim_lens) k key salt : lenN salt = kind_n k ->
    exists a, new_auth_legacy P k key salt = Ok a.
  Proof.
    intros H. unfold new_auth_legacy. apply auth_new_ok. rewrite (hkdf_len PL), H. apply key_size_le_n.
  Qed.

  (* the opened plaintext is 16 bytes shorter than the ciphertext *)
  Lemma auth_open_len (HL : open_len_ok P) a ct h a' : auth_open P a ct = (Some h, a') -> lenN ct = lenN h + TAG.
  Proof.
    intros E. pose proof (f_equal fst E) as E1. unfold auth_open in E1. cbn [fst] in E1.
    exact (HL _ _ _ _ _ _ E1).
  Qed.

  (* ================= the established-decoder arm ================= *)
  Lemma decode_body_no_panic (HL : open_len_ok P) s cd a st src :
    wf (a, st) -> decode_body P s cd a st src <> Panic.
  Proof.
    intros Hwf. unfold decode_body.
    pose proof (decode_payload_no_panic P HL a st src Hwf) as HP.
    destruct (decode_payload P a st src) as [[[[a' st'] src'] dst]|e|]; cbn [bind]; [|discriminate|contradiction].
    destruct (s_mode s); [discriminate|]. destruct (s_addr s); [discriminate|].
    pose proof (s5_try_decode_at_total (cd_pending cd ++ dst) 0) as HT.
    destruct (s5_try_decode_at (cd_pending cd ++ dst) 0) as [[n|]|e|]; cbn [bind]; try discriminate; [|contradiction].
    destruct (n <=? lenN (cd_pending cd ++ dst)); [|discriminate].
    pose proof (s5_decode_total (cd_pending cd ++ dst)) as HD.
    destruct (s5_decode (cd_pending cd ++ dst)) as [[ad rest]|e|]; cbn [bind]; try discriminate. contradiction.
  Qed.

  Lemma decode_body_wf s cd a st src s' cd' src' it :
    wf (a, st) -> decode_body P s cd a st src = Ok (s', cd', src', it) -> codec_wf cd'.
  Proof.
    intros Hwf. unfold decode_body.
    destruct (decode_payload P a st src) as [[[[a' st'] src1] dst]|e|] eqn:E; cbn [bind]; try discriminate.
    pose proof (decode_payload_wf P _ _ _ _ _ _ _ Hwf E) as W.
    destruct (s_mode s); [intros [= <- <- <- <-]; exact W|].
    destruct (s_addr s); [intros [= <- <- <- <-]; exact W|].
    destruct (s5_try_decode_at (cd_pending cd ++ dst) 0) as [[n|]|e|]; cbn [bind]; try discriminate;
      [|intros [= <- <- <- <-]; exact W].
    destruct (n <=? lenN (cd_pending cd ++ dst)); [|intros [= <- <- <- <-]; exact W].
    destruct (s5_decode (cd_pending cd ++ dst)) as [[ad rest]|e|]; cbn [bind]; try discriminate.
    intros [= <- <- <- <-]; exact W.
  Qed.

  (* ================= open_fixed, decomposed ================= *)
  Definition salt_of (cx : ctx) (src : bytes) : bytes := takeN (kind_n (c_kind cx)) src.
  Definition req_salt_len (cx : ctx) (s : session) : N :=
    match s_mode s with Server => 0 | Client => kind_n (c_kind cx) end.
  Definition require_eih (cx : ctx) (s : session) : bool :=
    match s_mode s with
    | Server => support_eih (c_kind cx) && (match c_users cx with Some (_ :: _) => true | _ => false end)
    | Client => false end.
  Definition eih_len (cx : ctx) (s : session) : N := if require_eih cx s then 16 else 0.
  Definition header_len (cx : ctx) (s : session) : N := eih_len cx s + 1 + 8 + req_salt_len cx s + 2 + TAG.
  (* the header_len bytes that follow the salt *)
  Definition hdr_bytes (cx : ctx) (s : session) (src : bytes) : bytes :=
    takeN (header_len cx s) (dropN (kind_n (c_kind cx)) src).
  (* the user hash carried by the identity header *)
  Definition eih_user_hash (cx : ctx) (s : session) (src : bytes) : bytes :=
    p_aes_dec P (aes_key (c_kind cx) (p_b3derive P IDENTITY_LABEL (c_key cx ++ salt_of cx src)))
              (takeN 16 (hdr_bytes cx s src)).
  Definition users_of (cx : ctx) : list user := match c_users cx with Some us => us | None => [] end.

  Definition select_auth (cx : ctx) (s : session) (src : bytes) : res (auth * session * bytes) :=
    let k := c_kind cx in
    let salt := takeN (kind_n k) src in
    let s1 := set_req_salt s (Some salt) in
    let header := hdr_bytes cx s src in
    if require_eih cx s then
      let eih := takeN 16 header in
      let isk := p_b3derive P IDENTITY_LABEL (c_key cx ++ salt) in
      let uh := p_aes_dec P (aes_key k isk) eih in
      match find_user (match c_users cx with Some us => us | None => [] end) uh with
      | Some u => let* a := new_auth_2022 P k (u_key u) salt in Ok (a, set_user s1 (Some u), dropN 16 header)
      | None => Err EBadUser
      end
    else let* a := new_auth_2022 P k (c_key cx) salt in Ok (a, s1, header).

  (* parsing of the opened fixed header, in continuation form *)
  Definition parse_fixed {A} (now : N) (s : session) (n : N) (h : bytes) (k : N -> res A) : res A :=
    let* (ty, h) := get_u8 h in
    if negb (ty =? mode_expect_u8 (s_mode s)) then Err EBadType else
    let* (ts, h) := get_u64 h in
    if negb (validate_timestamp now ts) then Err EBadTime else
    let* h := (match s_mode s with
               | Client => let* (rs, h) := split_to n h in
                           if bytes_eqb rs (s_salt s) then Ok h else Err EBadAuth
               | Server => Ok h end) in
    let* (len, _) := get_u16 h in
    k len.

  Lemma open_fixed_eq cx now cache s src :
    open_fixed P cx now cache s src =
    let n := kind_n (c_kind cx) in
    if lenN src <? n + header_len cx s then Err EShort else
    if mem_salt cache (takeN n src) then Err EReplay else
    let* (a0, s2, header) := select_auth cx s src in
    match auth_open P a0 header with
    | (None, _) => Err EAead
    | (Some h, a1) =>
      parse_fixed now s n h (fun len => Ok (a1, s2, len, takeN n src, dropN (n + header_len cx s) src))
    end.
  Proof. reflexivity. Qed.

  Lemma select_auth_no_panic (PL : prim_lens) cx s src : select_auth cx s src <> Panic.
  Proof.
    unfold select_auth. cbv zeta. destruct (require_eih cx s).
    - destruct (find_user _ _) as [u|]; [|discriminate].
      destruct (new_auth_2022_ok PL (c_kind cx) (u_key u) (takeN (kind_n (c_kind cx)) src)) as [a Ha].
      rewrite Ha. cbn [bind]. discriminate.
    - destruct (new_auth_2022_ok PL (c_kind cx) (c_key cx) (takeN (kind_n (c_kind cx)) src)) as [a Ha].
      rewrite Ha. cbn [bind]. discriminate.
  Qed.

  (* which key authenticates the header: the user's key when an identity header is required *)
  Definition auth_key (cx : ctx) (s s2 : session) : bytes :=
    if require_eih cx s then match s_user s2 with Some u => u_key u | None => c_key cx end else c_key cx.
  Definition user_bound (cx : ctx) (s : session) (src : bytes) (s2 : session) : Prop :=
    if require_eih cx s
    then exists u, s_user s2 = Some u /\ find_user (users_of cx) (eih_user_hash cx s src) = Some u
    else s_user s2 = s_user s.

  Lemma select_auth_inv cx s src a0 s2 hdr :
    select_auth cx s src = Ok (a0, s2, hdr) ->
    new_auth_2022 P (c_kind cx) (auth_key cx s s2) (salt_of cx src) = Ok a0 /\
    hdr = dropN (eih_len cx s) (hdr_bytes cx s src) /\
    s_req_salt s2 = Some (salt_of cx src) /\ s_mode s2 = s_mode s /\ s_salt s2 = s_salt s /\
    s_addr s2 = s_addr s /\ user_bound cx s src s2.
  Proof.
    unfold select_auth, auth_key, eih_len, user_bound, eih_user_hash, users_of, salt_of. cbv zeta.
    destruct (require_eih cx s).
    - destruct (find_user _ _) as [u|] eqn:EF; [|discriminate].
      destruct (new_auth_2022 P (c_kind cx) (u_key u) (takeN (kind_n (c_kind cx)) src)) as [a|e|] eqn:EA;
        cbn [bind]; try discriminate.
      intros [= <- <- <-]. cbn [set_user set_req_salt s_user s_mode s_salt s_addr s_req_salt].
      repeat split; try reflexivity; [exact EA|]. exists u. split; reflexivity.
    - destruct (new_auth_2022 P (c_kind cx) (c_key cx) (takeN (kind_n (c_kind cx)) src)) as [a|e|] eqn:EA;
        cbn [bind]; try discriminate.
      intros [= <- <- <-]. cbn [set_user set_req_salt s_user s_mode s_salt s_addr s_req_salt].
      repeat split; reflexivity.
  Qed.

  Lemma hdr_len cx s src : kind_n (c_kind cx) + header_len cx s <= lenN src ->
    lenN (dropN (eih_len cx s) (hdr_bytes cx s src)) = header_len cx s - eih_len cx s.
  Proof.
    intros H. rewrite lenN_dropN. unfold hdr_bytes. rewrite lenN_takeN by (rewrite lenN_dropN; lia). reflexivity.
  Qed.

  (* the explicit length argument: the opened fixed header has exactly 1 + 8 + req_salt_len + 2 bytes *)
  Theorem opened_fixed_header_len (HL : open_len_ok P) cx s src a0 h a1 :
    kind_n (c_kind cx) + header_len cx s <= lenN src ->
    auth_open P a0 (dropN (eih_len cx s) (hdr_bytes cx s src)) = (Some h, a1) ->
    lenN h = header_len cx s - eih_len cx s - TAG /\ lenN h = 1 + 8 + req_salt_len cx s + 2.
  Proof.
    intros Hl EO. apply (auth_open_len HL) in EO. rewrite hdr_len in EO by exact Hl.
    unfold header_len in *. lia.
  Qed.

  Lemma parse_fixed_no_panic A now s n h (k : N -> res A) :
    lenN h = 1 + 8 + (match s_mode s with Server => 0 | Client => n end) + 2 ->
    (forall len, k len <> Panic) -> parse_fixed now s n h k <> Panic.
  Proof.
    intros Hl Hk. unfold parse_fixed.
    (* get_u8: 1 <= |h| *)
    destruct h as [|ty h1]; [rewrite lenN_nil in Hl; lia|]. rewrite lenN_cons in Hl.
    cbn [get_u8 bind].
    destruct (negb (ty =? mode_expect_u8 (s_mode s))); [discriminate|].
    (* get_u64: 8 <= |h1| *)
    unfold get_u64. rewrite get_be_ok by lia. cbn [bind].
    destruct (negb (validate_timestamp now (be (takeN 8 h1)))); [discriminate|].
    pose proof (lenN_dropN 8 h1) as Hd.
    destruct (s_mode s).
    - (* split_to n: n <= |h1| - 8 *)
      rewrite split_to_ok by lia. cbn [bind].
      destruct (bytes_eqb (takeN n (dropN 8 h1)) (s_salt s)); cbn [bind]; [|discriminate].
      (* get_u16: 2 <= |h1| - 8 - n *)
      unfold get_u16. rewrite get_be_ok by (rewrite lenN_dropN; lia). cbn [bind]. apply Hk.
    - cbn [bind]. unfold get_u16. rewrite get_be_ok by lia. cbn [bind]. apply Hk.
  Qed.

  (* what an accepted fixed header looks like *)
  Definition fixed_plain (cx : ctx) (now : N) (s : session) (h : bytes) (len : N) : Prop :=
    exists h1, h = mode_expect_u8 (s_mode s) :: h1 /\ 8 <= lenN h1 /\
      abs_diff now (be (takeN 8 h1)) <= TS_MAX_DIFF /\
      match s_mode s with
      | Client => kind_n (c_kind cx) + 2 <= lenN (dropN 8 h1) /\
                  takeN (kind_n (c_kind cx)) (dropN 8 h1) = s_salt s /\
                  len = be (takeN 2 (dropN (kind_n (c_kind cx)) (dropN 8 h1)))
      | Server => 2 <= lenN (dropN 8 h1) /\ len = be (takeN 2 (dropN 8 h1))
      end.

  Lemma parse_fixed_inv A cx now s h (k : N -> res A) r :
    parse_fixed now s (kind_n (c_kind cx)) h k = Ok r ->
    exists len, fixed_plain cx now s h len /\ k len = Ok r.
  Proof.
    unfold parse_fixed, fixed_plain. set (n := kind_n (c_kind cx)).
    destruct h as [|ty h1]; cbn [get_u8 bind]; [discriminate|].
    destruct (N.eqb_spec ty (mode_expect_u8 (s_mode s))) as [Ety|Ety]; cbn [negb]; [|discriminate].
    destruct (get_u64 h1) as [[ts h2]|e|] eqn:E64; cbn [bind]; try discriminate.
    apply get_be_inv in E64. destruct E64 as (H8 & -> & ->).
    destruct (validate_timestamp now (be (takeN 8 h1))) eqn:EV; cbn [negb]; [|discriminate].
    assert (HT : abs_diff now (be (takeN 8 h1)) <= TS_MAX_DIFF).
    { unfold validate_timestamp in EV. apply N.leb_le in EV. exact EV. }
    destruct (s_mode s).
    - destruct (split_to n (dropN 8 h1)) as [[rs h3]|e|] eqn:ES; cbn [bind]; try discriminate.
      apply split_to_inv in ES. destruct ES as (Hn & -> & ->).
      destruct (bytes_eqb (takeN n (dropN 8 h1)) (s_salt s)) eqn:EB; cbn [bind]; [|discriminate].
      apply bytes_eqb_eq in EB.
      destruct (get_u16 (dropN n (dropN 8 h1))) as [[len h4]|e|] eqn:E16; cbn [bind]; try discriminate.
      apply get_be_inv in E16. destruct E16 as (H2 & -> & ->). rewrite lenN_dropN in H2.
      intros Hk. eexists. split; [|exact Hk]. exists h1. subst ty. repeat split; auto. lia.
    - cbn [bind].
      destruct (get_u16 (dropN 8 h1)) as [[len h4]|e|] eqn:E16; cbn [bind]; try discriminate.
      apply get_be_inv in E16. destruct E16 as (H2 & -> & ->).
      intros Hk. eexists. split; [|exact Hk]. exists h1. subst ty. repeat split; auto.
  Qed.

  Theorem open_fixed_no_panic (PL : prim_lens) cx now cache s src : open_fixed P cx now cache s src <> Panic.
  Proof.
    rewrite open_fixed_eq. cbv zeta.
    destruct (N.ltb_spec (lenN src) (kind_n (c_kind cx) + header_len cx s)) as [Hl|Hl]; [discriminate|].
    destruct (mem_salt cache (takeN (kind_n (c_kind cx)) src)); [discriminate|].
    pose proof (select_auth_no_panic PL cx s src) as HS.
    destruct (select_auth cx s src) as [[[a0 s2] hdr]|e|] eqn:ES; cbn [bind]; [|discriminate|contradiction].
    apply select_auth_inv in ES. destruct ES as (_ & -> & _).
    destruct (auth_open P a0 (dropN (eih_len cx s) (hdr_bytes cx s src))) as [[h|] a1] eqn:EO; [|discriminate].
    destruct (opened_fixed_header_len (pl_open_len PL) cx s src a0 h a1 Hl EO) as [_ Hh].
    apply parse_fixed_no_panic; [exact Hh|intros len; discriminate].
  Qed.

  (* B.1: the relational content of an accepted fixed header *)
  Definition fixed_accept (cx : ctx) (now : N) (cache : list bytes) (s : session) (src : bytes)
             (a1 : auth) (s2 : session) (len : N) (salt after : bytes) : Prop :=
    kind_n (c_kind cx) + header_len cx s <= lenN src /\
    salt = salt_of cx src /\
    after = dropN (kind_n (c_kind cx) + header_len cx s) src /\
    (* fresh: the salt is not in the cache *)
    mem_salt cache salt = false /\
    (* the session remembers the salt, nothing else of the identity changes *)
    s_req_salt s2 = Some salt /\ s_mode s2 = s_mode s /\ s_salt s2 = s_salt s /\ s_addr s2 = s_addr s /\
    (* user binding *)
    user_bound cx s src s2 /\
    exists a0 h,
      (* the key is derived from the (user's) key and this salt; the header authenticates under it *)
      new_auth_2022 P (c_kind cx) (auth_key cx s s2) salt = Ok a0 /\
      auth_open P a0 (dropN (eih_len cx s) (hdr_bytes cx s src)) = (Some h, a1) /\
      (* type, timestamp window, echoed request salt, length field *)
      fixed_plain cx now s h len.

  Theorem accept_implies_fresh_and_typed cx now cache s src a1 s2 len salt after :
    open_fixed P cx now cache s src = Ok (a1, s2, len, salt, after) ->
    fixed_accept cx now cache s src a1 s2 len salt after.
  Proof.
    rewrite open_fixed_eq. cbv zeta. unfold fixed_accept.
    destruct (N.ltb_spec (lenN src) (kind_n (c_kind cx) + header_len cx s)) as [Hl|Hl]; [discriminate|].
    destruct (mem_salt cache (takeN (kind_n (c_kind cx)) src)) eqn:EM; [discriminate|].
    destruct (select_auth cx s src) as [[[a0 s2'] hdr]|e|] eqn:ES; cbn [bind]; try discriminate.
    apply select_auth_inv in ES. destruct ES as (EA & -> & Hrs & Hm & Hs & Had & Hub).
    destruct (auth_open P a0 (dropN (eih_len cx s) (hdr_bytes cx s src))) as [[h|] a1'] eqn:EO; [|discriminate].
    intros H. apply (parse_fixed_inv _ cx) in H. destruct H as (len' & HP & H).
    injection H as <- <- <- <- <-.
    repeat split; auto. exists a0, h. auto.
  Qed.

  (* the same, property by property *)
  Corollary open_fixed_fresh cx now cache s src a1 s2 len salt after :
    open_fixed P cx now cache s src = Ok (a1, s2, len, salt, after) ->
    salt = takeN (kind_n (c_kind cx)) src /\ mem_salt cache salt = false /\ s_req_salt s2 = Some salt.
  Proof. intros H. apply accept_implies_fresh_and_typed in H. unfold fixed_accept, salt_of in H. tauto. Qed.

  Corollary open_fixed_type cx now cache s src a1 s2 len salt after :
    open_fixed P cx now cache s src = Ok (a1, s2, len, salt, after) ->
    exists a0 h, auth_open P a0 (dropN (eih_len cx s) (hdr_bytes cx s src)) = (Some h, a1) /\
                 nth_error h 0 = Some (mode_expect_u8 (s_mode s)).
  Proof.
    intros H. apply accept_implies_fresh_and_typed in H.
    destruct H as (_ & _ & _ & _ & _ & _ & _ & _ & _ & a0 & h & _ & EO & h1 & -> & _).
    exists a0, (mode_expect_u8 (s_mode s) :: h1). split; [exact EO|reflexivity].
  Qed.

  Corollary open_fixed_time cx now cache s src a1 s2 len salt after :
    open_fixed P cx now cache s src = Ok (a1, s2, len, salt, after) ->
    exists a0 h, auth_open P a0 (dropN (eih_len cx s) (hdr_bytes cx s src)) = (Some h, a1) /\
                 let ts := be (takeN 8 (dropN 1 h)) in
                 9 <= lenN h /\ abs_diff now ts <= 30 /\ ts <= now + 30 /\ now <= ts + 30.
  Proof.
    intros H. apply accept_implies_fresh_and_typed in H.
    destruct H as (_ & _ & _ & _ & _ & _ & _ & _ & _ & a0 & h & _ & EO & h1 & -> & H8 & HT & _).
    exists a0, (mode_expect_u8 (s_mode s) :: h1). split; [exact EO|].
    change (dropN 1 (mode_expect_u8 (s_mode s) :: h1)) with h1. cbv zeta. rewrite lenN_cons.
    unfold TS_MAX_DIFF in HT. split; [lia|]. split; [exact HT|].
    apply validate_timestamp_iff. unfold validate_timestamp, TS_MAX_DIFF. apply N.leb_le. exact HT.
  Qed.

  Corollary open_fixed_echo cx now cache s src a1 s2 len salt after :
    open_fixed P cx now cache s src = Ok (a1, s2, len, salt, after) -> s_mode s = Client ->
    exists a0 h, auth_open P a0 (dropN (eih_len cx s) (hdr_bytes cx s src)) = (Some h, a1) /\
                 takeN (kind_n (c_kind cx)) (dropN 9 h) = s_salt s.
  Proof.
    intros H HC. apply accept_implies_fresh_and_typed in H.
    destruct H as (_ & _ & _ & _ & _ & _ & _ & _ & _ & a0 & h & _ & EO & h1 & -> & H8 & HT & HM).
    exists a0, (mode_expect_u8 (s_mode s) :: h1). split; [exact EO|].
    rewrite HC in HM. destruct HM as (_ & HE & _).
    replace (dropN 9 (mode_expect_u8 (s_mode s) :: h1)) with (dropN 8 h1); [exact HE|].
    unfold dropN. change (N.to_nat 9) with (S (N.to_nat 8)). reflexivity.
  Qed.

  Corollary open_fixed_user cx now cache s src a1 s2 len salt after :
    open_fixed P cx now cache s src = Ok (a1, s2, len, salt, after) -> require_eih cx s = true ->
    exists u, s_user s2 = Some u /\ In u (users_of cx) /\ u_hash u = eih_user_hash cx s src /\
      exists a0, new_auth_2022 P (c_kind cx) (u_key u) salt = Ok a0 /\
                 fst (auth_open P a0 (dropN 16 (hdr_bytes cx s src))) <> None.
  Proof.
    intros H HR. apply accept_implies_fresh_and_typed in H.
    destruct H as (_ & _ & _ & _ & _ & _ & _ & _ & HU & a0 & h & EA & EO & _).
    unfold user_bound, auth_key, eih_len in *. rewrite HR in *.
    destruct HU as (u & Hu & HF). exists u. split; [exact Hu|].
    unfold find_user in HF. apply find_some in HF. destruct HF as [HIn HE]. apply bytes_eqb_eq in HE.
    split; [exact HIn|]. split; [exact HE|]. rewrite Hu in EA. exists a0. split; [exact EA|].
    rewrite EO. cbn [fst]. discriminate.
  Qed.

  (* ================= init_2022 ================= *)
  (* the variable-length part, after the salt has been inserted *)
  Definition open_var (s2 : session) (cd : codec) (a1 : auth) (len : N) (after : bytes) : res dres :=
    match auth_open P a1 (takeN (len + TAG) after) with
    | (None, _) => Err EAead
    | (Some via, a2) =>
      let src' := dropN (len + TAG) after in
      let cd' := {| cd_enc := cd_enc cd; cd_dec := Some (a2, DLen); cd_pending := cd_pending cd |} in
      match s_mode s2, s_addr s2 with
      | Server, None =>
        let* (ad, via) := s5_decode via in
        if lenN via <? 2 then Err EShort else
        let* (padlen, via) := get_u16 via in
        if lenN via <? padlen then Err EShort else
        let* via := advance padlen via in
        Ok (set_addr s2 (Some ad), cd', src', Some via)
      | _, _ => Ok (s2, cd', src', Some via)
      end
    end.

  Lemma init_2022_eq cx now cache s cd src :
    init_2022 P cx now cache s cd src =
    match open_fixed P cx now cache s src with
    | Err e => (cache, Err e)
    | Panic => (cache, Panic)
    | Ok (a1, s2, len, salt, after) =>
      if lenN after <? len + TAG then (cache, Ok (s2, cd, src, None))
      else if mem_salt cache salt then (cache, Err EReplay)
      else (salt :: cache, open_var s2 cd a1 len after)
    end.
  Proof. reflexivity. Qed.

  (* the variable part is arbitrary authenticated bytes: explicit checks + totality of s5_decode *)
  Lemma open_var_no_panic s2 cd a1 len after : open_var s2 cd a1 len after <> Panic.
  Proof.
    unfold open_var. destruct (auth_open P a1 (takeN (len + TAG) after)) as [[via|] a2]; [|discriminate].
    cbv zeta. destruct (s_mode s2); [discriminate|]. destruct (s_addr s2); [discriminate|].
    pose proof (s5_decode_total via) as HD.
    destruct (s5_decode via) as [[ad v1]|e|]; cbn [bind]; [|discriminate|contradiction].
    destruct (N.ltb_spec (lenN v1) 2) as [H2|H2]; [discriminate|].
    unfold get_u16. rewrite get_be_ok by lia. cbn [bind].
    destruct (N.ltb_spec (lenN (dropN 2 v1)) (be (takeN 2 v1))) as [Hp|Hp]; [discriminate|].
    rewrite advance_ok by lia. cbn [bind]. discriminate.
  Qed.

  Lemma open_var_inv s2 cd a1 len after s' cd' src' it :
    open_var s2 cd a1 len after = Ok (s', cd', src', it) ->
    exists via a2 v,
      auth_open P a1 (takeN (len + TAG) after) = (Some via, a2) /\
      cd' = {| cd_enc := cd_enc cd; cd_dec := Some (a2, DLen); cd_pending := cd_pending cd |} /\
      src' = dropN (len + TAG) after /\ it = Some v /\
      match s_mode s2, s_addr s2 with
      | Server, None =>
        exists ad r, s5_decode via = Ok (ad, r) /\ 2 <= lenN r /\ be (takeN 2 r) <= lenN (dropN 2 r) /\
                     v = dropN (be (takeN 2 r)) (dropN 2 r) /\ s' = set_addr s2 (Some ad)
      | _, _ => v = via /\ s' = s2
      end.
  Proof.
    unfold open_var. destruct (auth_open P a1 (takeN (len + TAG) after)) as [[via|] a2]; [|discriminate].
    cbv zeta. destruct (s_mode s2).
    { intros [= <- <- <- <-]. exists via, a2, via. auto 10. }
    destruct (s_addr s2).
    { intros [= <- <- <- <-]. exists via, a2, via. auto 10. }
    destruct (s5_decode via) as [[ad v1]|e|] eqn:E5; cbn [bind]; try discriminate.
    destruct (N.ltb_spec (lenN v1) 2) as [H2|H2]; [discriminate|].
    destruct (get_u16 v1) as [[padlen v2]|e|] eqn:E16; cbn [bind]; try discriminate.
    apply get_be_inv in E16. destruct E16 as (_ & -> & ->).
    destruct (N.ltb_spec (lenN (dropN 2 v1)) (be (takeN 2 v1))) as [Hp|Hp]; [discriminate|].
    rewrite advance_ok by lia. cbn [bind].
    intros [= <- <- <- <-]. exists via, a2, (dropN (be (takeN 2 v1)) (dropN 2 v1)).
    repeat split. exists ad, v1. repeat split; assumption.
  Qed.

  Lemma init_2022_no_panic (PL : prim_lens) cx now cache s cd src :
    snd (init_2022 P cx now cache s cd src) <> Panic.
  Proof.
    rewrite init_2022_eq. pose proof (open_fixed_no_panic PL cx now cache s src) as HF.
    destruct (open_fixed P cx now cache s src) as [[[[[a1 s2] len] salt] after]|e|];
      [|cbn [snd]; discriminate|contradiction].
    destruct (lenN after <? len + TAG); [cbn [snd]; discriminate|].
    destruct (mem_salt cache salt); [cbn [snd]; discriminate|].
    cbn [snd]. apply open_var_no_panic.
  Qed.

  (* every way init_2022 can return Ok *)
  Lemma init_2022_ok_inv cx now cache s cd src cache' s' cd' src' it :
    init_2022 P cx now cache s cd src = (cache', Ok (s', cd', src', it)) ->
    exists a1 s2 len after,
      open_fixed P cx now cache s src = Ok (a1, s2, len, salt_of cx src, after) /\
      ((lenN after < len + TAG /\ cache' = cache /\ s' = s2 /\ cd' = cd /\ src' = src /\ it = None) \/
       (len + TAG <= lenN after /\ mem_salt cache (salt_of cx src) = false /\
        cache' = salt_of cx src :: cache /\ open_var s2 cd a1 len after = Ok (s', cd', src', it))).
  Proof.
    rewrite init_2022_eq.
    destruct (open_fixed P cx now cache s src) as [[[[[a1 s2] len] salt] after]|e|] eqn:EF; try discriminate.
    pose proof (open_fixed_fresh _ _ _ _ _ _ _ _ _ _ EF) as (Hs & _). fold (salt_of cx src) in Hs. subst salt.
    intros H. exists a1, s2, len, after. split; [reflexivity|]. revert H.
    destruct (N.ltb_spec (lenN after) (len + TAG)) as [Hl|Hl].
    - intros [= <- <- <- <- <-]. left. auto 10.
    - destruct (mem_salt cache (salt_of cx src)) eqn:EM; [discriminate|].
      intros [= <- H]. right. auto.
  Qed.

  (* ================= ss_decode, by cases ================= *)
  Definition legacy_first (cx : ctx) (s : session) (cd : codec) (src : bytes) : res dres :=
    let n := kind_n (c_kind cx) in
    let salt := takeN n src in
    let* a := new_auth_legacy P (c_kind cx) (c_key cx) salt in
    let src' := dropN n src in
    let cd' := {| cd_enc := cd_enc cd; cd_dec := Some (a, DLen); cd_pending := cd_pending cd |} in
    match src' with
    | [] => Ok (s, cd', src', None)
    | _ => decode_body P s cd' a DLen src'
    end.

  Lemma ss_decode_established cx now cache s cd src a st : cd_dec cd = Some (a, st) ->
    ss_decode P cx now cache s cd src =
    (cache, match src with [] => Ok (s, cd, src, None) | _ => decode_body P s cd a st src end).
  Proof. intros H. destruct src as [|x t]; [reflexivity|]. unfold ss_decode. rewrite H. reflexivity. Qed.

  Lemma ss_decode_2022 cx now cache s cd src : cd_dec cd = None -> is_2022 (c_kind cx) = true ->
    ss_decode P cx now cache s cd src =
    if lenN src <? kind_n (c_kind cx) then (cache, Ok (s, cd, src, None)) else init_2022 P cx now cache s cd src.
  Proof.
    intros H H2. destruct src as [|x t]; [destruct (c_kind cx); reflexivity|].
    unfold ss_decode. rewrite H, H2. reflexivity.
  Qed.

  Lemma ss_decode_legacy cx now cache s cd src : cd_dec cd = None -> is_2022 (c_kind cx) = false ->
    ss_decode P cx now cache s cd src =
    (cache, if lenN src <? kind_n (c_kind cx) then Ok (s, cd, src, None) else legacy_first cx s cd src).
  Proof.
    intros H H2. destruct src as [|x t]; [destruct (c_kind cx); reflexivity|].
    unfold ss_decode. rewrite H, H2. unfold legacy_first.
    destruct (lenN (x :: t) <? kind_n (c_kind cx)); reflexivity.
  Qed.

  Lemma legacy_first_no_panic (PL : prim_lens) cx s cd src : kind_n (c_kind cx) <= lenN src ->
    legacy_first cx s cd src <> Panic.
  Proof.
    intros Hl. unfold legacy_first. cbv zeta.
    destruct (new_auth_legacy_ok PL (c_kind cx) (c_key cx) (takeN (kind_n (c_kind cx)) src)) as [a Ha];
      [apply lenN_takeN; exact Hl|].
    rewrite Ha. cbn [bind]. destruct (dropN (kind_n (c_kind cx)) src) as [|b l]; [discriminate|].
    apply decode_body_no_panic; [apply PL|exact I].
  Qed.

  Lemma legacy_first_wf cx s cd src s' cd' src' it :
    legacy_first cx s cd src = Ok (s', cd', src', it) -> codec_wf cd'.
  Proof.
    unfold legacy_first. cbv zeta.
    destruct (new_auth_legacy P (c_kind cx) (c_key cx) (takeN (kind_n (c_kind cx)) src)) as [a|e|];
      cbn [bind]; try discriminate.
    destruct (dropN (kind_n (c_kind cx)) src) as [|b l]; [intros [= <- <- <- <-]; exact I|].
    apply decode_body_wf. exact I.
  Qed.

  (* ================= A. no panic, invariant preserved ================= *)
  Theorem ss_decode_no_panic (PL : prim_lens) cx now cache s cd src :
    codec_wf cd -> snd (ss_decode P cx now cache s cd src) <> Panic.
  Proof.
    intros Hwf. unfold codec_wf in Hwf.
    destruct (cd_dec cd) as [[a st]|] eqn:ED.
    - rewrite (ss_decode_established _ _ _ _ _ _ _ _ ED). cbn [snd].
      destruct src as [|x t]; [discriminate|]. apply decode_body_no_panic; [apply PL|exact Hwf].
    - destruct (is_2022 (c_kind cx)) eqn:E22.
      + rewrite (ss_decode_2022 _ _ _ _ _ _ ED E22).
        destruct (lenN src <? kind_n (c_kind cx)); [cbn [snd]; discriminate|].
        apply init_2022_no_panic. exact PL.
      + rewrite (ss_decode_legacy _ _ _ _ _ _ ED E22). cbn [snd].
        destruct (N.ltb_spec (lenN src) (kind_n (c_kind cx))) as [Hl|Hl]; [discriminate|].
        apply legacy_first_no_panic; assumption.
  Qed.

  Theorem ss_decode_preserves_wf cx now cache s cd src s' cd' src' it :
    codec_wf cd -> snd (ss_decode P cx now cache s cd src) = Ok (s', cd', src', it) -> codec_wf cd'.
  Proof.
    intros Hwf. pose proof Hwf as Hwf0. unfold codec_wf in Hwf.
    destruct (cd_dec cd) as [[a st]|] eqn:ED.
    - rewrite (ss_decode_established _ _ _ _ _ _ _ _ ED). cbn [snd].
      destruct src as [|x t]; [intros [= <- <- <- <-]; exact Hwf0|]. apply decode_body_wf. exact Hwf.
    - destruct (is_2022 (c_kind cx)) eqn:E22.
      + rewrite (ss_decode_2022 _ _ _ _ _ _ ED E22).
        destruct (lenN src <? kind_n (c_kind cx)); [cbn [snd]; intros [= <- <- <- <-]; exact Hwf0|].
        destruct (init_2022 P cx now cache s cd src) as [cache' r] eqn:EI. cbn [snd]. intros ->.
        apply init_2022_ok_inv in EI. destruct EI as (a1 & s2 & len & after & _ & [H|H]).
        * destruct H as (_ & _ & _ & -> & _). exact Hwf0.
        * destruct H as (_ & _ & _ & H). apply open_var_inv in H.
          destruct H as (via & a2 & v & _ & -> & _). exact I.
      + rewrite (ss_decode_legacy _ _ _ _ _ _ ED E22). cbn [snd].
        destruct (lenN src <? kind_n (c_kind cx)); [intros [= <- <- <- <-]; exact Hwf0|].
        apply legacy_first_wf.
  Qed.

  Theorem server_decode_no_panic (PL : prim_lens) cx now cache s cd in_body src :
    codec_wf cd -> snd (server_decode P cx now cache s cd in_body src) <> Panic.
  Proof.
    intros Hwf. unfold server_decode. pose proof (ss_decode_no_panic PL cx now cache s cd src Hwf) as H.
    destruct (ss_decode P cx now cache s cd src) as [cache' r]. cbn [snd] in *.
    destruct r as [[[[s' cd'] src'] it]|e|]; cbn [bind]; [|discriminate|contradiction].
    destruct in_body; [discriminate|]. destruct it; [|discriminate]. destruct (s_addr s'); discriminate.
  Qed.

  Theorem server_decode_preserves_wf cx now cache s cd in_body src s' cd' b' src' it :
    codec_wf cd -> snd (server_decode P cx now cache s cd in_body src) = Ok (s', cd', b', src', it) -> codec_wf cd'.
  Proof.
    intros Hwf. unfold server_decode. pose proof (ss_decode_preserves_wf cx now cache s cd src) as H.
    destruct (ss_decode P cx now cache s cd src) as [cache' r]. cbn [snd] in *.
    destruct r as [[[[s1 cd1] src1] it1]|e|]; cbn [bind]; try discriminate.
    specialize (H s1 cd1 src1 it1 Hwf eq_refl).
    destruct in_body; [intros [= <- <- <- <- <-]; exact H|].
    destruct it1; [|intros [= <- <- <- <- <-]; exact H].
    destruct (s_addr s1); intros [= <- <- <- <- <-]; exact H.
  Qed.

  (* every state reachable from codec_new by successful decode calls satisfies the invariant *)
  Inductive reachable (cx : ctx) : codec -> Prop :=
  | reach_new : reachable cx codec_new
  | reach_step now cache s cd src s' cd' src' it :
      reachable cx cd -> snd (ss_decode P cx now cache s cd src) = Ok (s', cd', src', it) -> reachable cx cd'.

  Corollary reachable_wf cx cd : reachable cx cd -> codec_wf cd.
  Proof.
    induction 1 as [|now cache s cd src s' cd' src' it _ IH H]; [exact codec_wf_new|].
    eapply ss_decode_preserves_wf; eassumption.
  Qed.

  Corollary reachable_no_panic (PL : prim_lens) cx cd now cache s src :
    reachable cx cd -> snd (ss_decode P cx now cache s cd src) <> Panic.
  Proof. intros H. apply ss_decode_no_panic; [exact PL|]. eapply reachable_wf; exact H. Qed.

  (* ================= B.3 / B.4 replay ================= *)
  Theorem cache_only_grows cx now cache s cd src :
    fst (ss_decode P cx now cache s cd src) = cache \/
    fst (ss_decode P cx now cache s cd src) = takeN (kind_n (c_kind cx)) src :: cache.
  Proof.
    destruct (cd_dec cd) as [[a st]|] eqn:ED.
    - rewrite (ss_decode_established _ _ _ _ _ _ _ _ ED). left. reflexivity.
    - destruct (is_2022 (c_kind cx)) eqn:E22.
      + rewrite (ss_decode_2022 _ _ _ _ _ _ ED E22).
        destruct (lenN src <? kind_n (c_kind cx)); [left; reflexivity|].
        rewrite init_2022_eq.
        destruct (open_fixed P cx now cache s src) as [[[[[a1 s2] len] salt] after]|e|] eqn:EF;
          try (left; reflexivity).
        apply open_fixed_fresh in EF. destruct EF as (-> & _).
        destruct (lenN after <? len + TAG); [left; reflexivity|].
        destruct (mem_salt cache _); [left; reflexivity|]. right. reflexivity.
      + rewrite (ss_decode_legacy _ _ _ _ _ _ ED E22). left. reflexivity.
  Qed.

  (* a first payload is released only together with the insertion of the (so far unseen) salt *)
  Theorem release_inserts_salt cx now cache s cd src cache' s' cd' src' it :
    cd_dec cd = None -> is_2022 (c_kind cx) = true ->
    ss_decode P cx now cache s cd src = (cache', Ok (s', cd', src', Some it)) ->
    cache' = takeN (kind_n (c_kind cx)) src :: cache /\
    mem_salt cache (takeN (kind_n (c_kind cx)) src) = false /\
    mem_salt cache' (takeN (kind_n (c_kind cx)) src) = true.
  Proof.
    intros ED E22. rewrite (ss_decode_2022 _ _ _ _ _ _ ED E22).
    destruct (lenN src <? kind_n (c_kind cx)); [discriminate|].
    intros H. apply init_2022_ok_inv in H. destruct H as (a1 & s2 & len & after & _ & [H|H]).
    - destruct H as (_ & _ & _ & _ & _ & H). discriminate.
    - destruct H as (_ & HM & -> & _). unfold salt_of in *. split; [reflexivity|]. split; [exact HM|].
      apply mem_salt_head.
  Qed.

  (* B.4, as asked: from codec_new *)
  Corollary no_release_without_insert cx now cache s src s' cd' src' it :
    is_2022 (c_kind cx) = true ->
    snd (ss_decode P cx now cache s codec_new src) = Ok (s', cd', src', Some it) ->
    fst (ss_decode P cx now cache s codec_new src) = takeN (kind_n (c_kind cx)) src :: cache.
  Proof.
    intros E22 H. destruct (ss_decode P cx now cache s codec_new src) as [cache' r] eqn:E.
    cbn [fst snd] in *. subst r.
    apply (release_inserts_salt cx now cache s codec_new src _ _ _ _ _ (eq_refl : cd_dec codec_new = None) E22) in E. tauto.
  Qed.

  (* B.1 at the level of ss_decode: a released first payload went through an accepted fixed header *)
  Theorem release_implies_accept cx now cache s cd src cache' s' cd' src' it :
    cd_dec cd = None -> is_2022 (c_kind cx) = true ->
    ss_decode P cx now cache s cd src = (cache', Ok (s', cd', src', Some it)) ->
    exists a1 s2 len after,
      fixed_accept cx now cache s src a1 s2 len (salt_of cx src) after /\
      len + TAG <= lenN after /\
      exists via a2, auth_open P a1 (takeN (len + TAG) after) = (Some via, a2) /\
                     cd_dec cd' = Some (a2, DLen) /\ src' = dropN (len + TAG) after.
  Proof.
    intros ED E22. rewrite (ss_decode_2022 _ _ _ _ _ _ ED E22).
    destruct (lenN src <? kind_n (c_kind cx)); [discriminate|].
    intros H. apply init_2022_ok_inv in H. destruct H as (a1 & s2 & len & after & EF & [H|H]).
    - destruct H as (_ & _ & _ & _ & _ & H). discriminate.
    - destruct H as (Hl & _ & _ & HV). exists a1, s2, len, after.
      split; [apply accept_implies_fresh_and_typed; exact EF|]. split; [exact Hl|].
      apply open_var_inv in HV. destruct HV as (via & a2 & v & EO & -> & -> & _).
      exists via, a2. auto.
  Qed.

  (* B.3: a salt that is in the cache is refused before anything is decrypted *)
  Theorem replay_rejected cx now cache s cd src salt :
    cd_dec cd = None -> is_2022 (c_kind cx) = true ->
    mem_salt cache salt = true ->
    kind_n (c_kind cx) + header_len cx s <= lenN src ->
    takeN (kind_n (c_kind cx)) src = salt ->
    ss_decode P cx now cache s cd src = (cache, Err EReplay).
  Proof.
    intros ED E22 HM Hl <-. rewrite (ss_decode_2022 _ _ _ _ _ _ ED E22).
    destruct (N.ltb_spec (lenN src) (kind_n (c_kind cx))) as [Hc|_]; [lia|].
    rewrite init_2022_eq, open_fixed_eq. cbv zeta.
    destruct (N.ltb_spec (lenN src) (kind_n (c_kind cx) + header_len cx s)) as [Hc|_]; [lia|].
    rewrite HM. reflexivity.
  Qed.

  (* whatever the length of the input: with a remembered salt nothing is ever released, the session and the
     codec do not change, the cache does not change *)
  Theorem replay_never_releases cx now cache s cd src :
    cd_dec cd = None -> is_2022 (c_kind cx) = true ->
    mem_salt cache (takeN (kind_n (c_kind cx)) src) = true ->
    ss_decode P cx now cache s cd src = (cache, Ok (s, cd, src, None)) \/
    ss_decode P cx now cache s cd src = (cache, Err EShort) \/
    ss_decode P cx now cache s cd src = (cache, Err EReplay).
  Proof.
    intros ED E22 HM. rewrite (ss_decode_2022 _ _ _ _ _ _ ED E22).
    destruct (lenN src <? kind_n (c_kind cx)); [left; reflexivity|]. right.
    rewrite init_2022_eq, open_fixed_eq. cbv zeta.
    destruct (lenN src <? kind_n (c_kind cx) + header_len cx s); [left; reflexivity|].
    rewrite HM. right. reflexivity.
  Qed.

  (* end to end: once a first payload has been released for a salt, every later connection that presents the
     same salt is refused, as long as the cache has only grown in between *)
  Theorem replay_after_release cx now cache s cd src cache1 s' cd' src' it
          now2 cache2 s0 cd0 src2 :
    cd_dec cd = None -> is_2022 (c_kind cx) = true ->
    ss_decode P cx now cache s cd src = (cache1, Ok (s', cd', src', Some it)) ->
    (forall x, mem_salt cache1 x = true -> mem_salt cache2 x = true) ->
    cd_dec cd0 = None ->
    takeN (kind_n (c_kind cx)) src2 = takeN (kind_n (c_kind cx)) src ->
    kind_n (c_kind cx) + header_len cx s0 <= lenN src2 ->
    ss_decode P cx now2 cache2 s0 cd0 src2 = (cache2, Err EReplay).
  Proof.
    intros ED E22 H1 Hmono ED0 Hsalt Hl.
    apply (release_inserts_salt _ _ _ _ _ _ _ _ _ _ _ ED E22) in H1. destruct H1 as (_ & _ & HM).
    apply (replay_rejected _ _ _ _ _ _ (takeN (kind_n (c_kind cx)) src) ED0 E22); auto.
  Qed.

  (* ================= C. legacy / established: clock and cache are irrelevant ================= *)
  Theorem legacy_ignores_clock_and_cache cx now cache now' cache' s cd src :
    is_2022 (c_kind cx) = false ->
    fst (ss_decode P cx now cache s cd src) = cache /\
    snd (ss_decode P cx now cache s cd src) = snd (ss_decode P cx now' cache' s cd src).
  Proof.
    intros E22. destruct (cd_dec cd) as [[a st]|] eqn:ED.
    - rewrite !(ss_decode_established _ _ _ _ _ _ _ _ ED). split; reflexivity.
    - rewrite !(ss_decode_legacy _ _ _ _ _ _ ED E22). split; reflexivity.
  Qed.

  Theorem established_ignores_clock_and_cache cx now cache now' cache' s cd src a st :
    cd_dec cd = Some (a, st) ->
    fst (ss_decode P cx now cache s cd src) = cache /\
    snd (ss_decode P cx now cache s cd src) = snd (ss_decode P cx now' cache' s cd src).
  Proof. intros ED. rewrite !(ss_decode_established _ _ _ _ _ _ _ _ ED). split; reflexivity. Qed.
End SsTcpSafety.

Print Assumptions validate_timestamp_iff.
Print Assumptions boundary_exact.
Print Assumptions opened_fixed_header_len.
Print Assumptions open_fixed_no_panic.
Print Assumptions ss_decode_no_panic.
Print Assumptions ss_decode_preserves_wf.
Print Assumptions server_decode_no_panic.
Print Assumptions server_decode_preserves_wf.
Print Assumptions reachable_wf.
Print Assumptions reachable_no_panic.
Print Assumptions accept_implies_fresh_and_typed.
Print Assumptions open_fixed_fresh.
Print Assumptions open_fixed_type.
Print Assumptions open_fixed_time.
Print Assumptions open_fixed_echo.
Print Assumptions open_fixed_user.
Print Assumptions cache_only_grows.
Print Assumptions release_inserts_salt.
Print Assumptions no_release_without_insert.
Print Assumptions release_implies_accept.
Print Assumptions replay_rejected.
Print Assumptions replay_never_releases.
Print Assumptions replay_after_release.
Print Assumptions legacy_ignores_clock_and_cache.
Print Assumptions established_ignores_clock_and_cache.

(* ================= non-vacuity: toy primitives, concrete traffic ================= *)
(* seal appends a 16-byte zero tag, open checks and strips it; the KDFs return zero bytes of the right length *)
Definition toy : prims := {|
  p_seal := fun _ _ _ _ m => m ++ repeat 0 16%nat;
  p_open := fun _ _ _ _ ct =>
    if lenN ct <? 16 then None
    else if bytes_eqb (dropN (lenN ct - 16) ct) (repeat 0 16%nat) then Some (takeN (lenN ct - 16) ct) else None;
  p_hkdf_sha1 := fun _ _ _ n => repeat 0 (N.to_nat n);
  p_b3derive := fun _ _ => repeat 0 32%nat;
  p_b3hash := fun x => x;
  p_aes_enc := fun _ b => b;
  p_aes_dec := fun _ b => b;
  p_md5 := fun x => x;
  p_sha224 := fun x => x;
  p_sha256 := fun x => x;
  p_shake128 := fun _ n => repeat 0 (N.to_nat n);
  p_crc32 := fun _ => 0
|}.

(* the premises of the no-panic theorems are satisfiable *)
Lemma toy_prim_lens : prim_lens toy.
Proof.
  split.
  - intros c m. reflexivity.
  - intros i s info n. cbn [p_hkdf_sha1 toy]. rewrite lenN_spec, repeat_length. lia.
  - intros c k n a ct m H. cbn [p_open toy] in H.
    destruct (N.ltb_spec (lenN ct) 16) as [Hl|Hl]; [discriminate|].
    destruct (bytes_eqb (dropN (lenN ct - 16) ct) (repeat 0 16%nat)); [|discriminate].
    injection H as <-. rewrite lenN_takeN by lia. unfold TAG. lia.
Qed.

Corollary toy_ss_decode_no_panic cx now cache s cd src :
  codec_wf cd -> snd (ss_decode toy cx now cache s cd src) <> Panic.
Proof. apply ss_decode_no_panic. exact toy_prim_lens. Qed.

Definition tag0 : bytes := repeat 0 16%nat.
Definition salt1 : bytes := [1; 2; 3; 4; 5; 6; 7; 8; 9; 10; 11; 12; 13; 14; 15; 16].
Definition csalt : bytes := repeat 9 16%nat.
Definition cxS : ctx := {| c_kind := K22_A128; c_key := repeat 7 16%nat; c_ikeys := []; c_users := None |}.
Definition sS : session := {| s_mode := Server; s_salt := repeat 8 16%nat; s_req_salt := None; s_user := None; s_addr := None |}.
(* variable part: address 127.0.0.1:80, two bytes of padding, payload "hi" *)
Definition var1 : bytes := [1; 127; 0; 0; 1; 0; 80] ++ [0; 2] ++ [170; 187] ++ [104; 105].
(* a request: salt, sealed fixed header (type ty, timestamp ts, length 13), sealed variable part *)
Definition req (ty ts : N) : bytes := salt1 ++ ([ty] ++ put_u64 ts ++ put_u16 13) ++ tag0 ++ var1 ++ tag0.

(* B.1: the hypothesis of accept_implies_fresh_and_typed is satisfiable *)
Example toy_open_fixed_accepts :
  exists a1 s2 after, open_fixed toy cxS 1000 [] sS (req 0 1000) = Ok (a1, s2, 13, salt1, after).
Proof. vm_compute. do 3 eexists. reflexivity. Qed.

(* a whole first request: payload released, address extracted, salt remembered *)
Example toy_request_accepted :
  exists s' cd', ss_decode toy cxS 1000 [] sS codec_new (req 0 1000) = ([salt1], Ok (s', cd', [], Some [104; 105])) /\
                 s_addr s' = Some (AV4 [127; 0; 0; 1] 80) /\ s_req_salt s' = Some salt1.
Proof. vm_compute. do 2 eexists. split; [reflexivity|]. split; reflexivity. Qed.

(* B.3: the same bytes again, with the cache left by the first call *)
Example toy_replay_rejected :
  ss_decode toy cxS 1005 [salt1] sS codec_new (req 0 1000) = ([salt1], Err EReplay).
Proof. vm_compute. reflexivity. Qed.

(* B.2: the window is exactly +-30 s *)
Example toy_time_window :
  (exists r, ss_decode toy cxS 1030 [] sS codec_new (req 0 1000) = ([salt1], Ok r)) /\
  ss_decode toy cxS 1031 [] sS codec_new (req 0 1000) = ([], Err EBadTime) /\
  (exists r, ss_decode toy cxS 970 [] sS codec_new (req 0 1000) = ([salt1], Ok r)) /\
  ss_decode toy cxS 969 [] sS codec_new (req 0 1000) = ([], Err EBadTime).
Proof.
  split; [vm_compute; eexists; reflexivity|]. split; [vm_compute; reflexivity|].
  split; [vm_compute; eexists; reflexivity|]. vm_compute; reflexivity.
Qed.

(* a response-typed header sent to a server; a damaged tag; a truncated request (nothing inserted) *)
Example toy_wrong_type : ss_decode toy cxS 1000 [] sS codec_new (req 1 1000) = ([], Err EBadType).
Proof. vm_compute. reflexivity. Qed.
Example toy_bad_tag :
  ss_decode toy cxS 1000 [] sS codec_new (salt1 ++ ([0] ++ put_u64 1000 ++ put_u16 13) ++ repeat 1 16%nat ++ var1 ++ tag0)
  = ([], Err EAead).
Proof. vm_compute. reflexivity. Qed.
Example toy_short_waits :
  ss_decode toy cxS 1000 [] sS codec_new (takeN 50 (req 0 1000)) =
  ([], Ok (set_req_salt sS (Some salt1), codec_new, takeN 50 (req 0 1000), None)).
Proof. vm_compute. reflexivity. Qed.

(* client side: the response must echo the client's own salt *)
Definition sC : session :=
  {| s_mode := Client; s_salt := csalt; s_req_salt := None; s_user := None; s_addr := Some (AV4 [127; 0; 0; 1] 80) |}.
Definition resp (echo : bytes) : bytes := salt1 ++ ([1] ++ put_u64 1000 ++ echo ++ put_u16 2) ++ tag0 ++ [104; 105] ++ tag0.
Example toy_response_accepted :
  exists cd', ss_decode toy cxS 1000 [] sC codec_new (resp csalt) =
              ([salt1], Ok (set_req_salt sC (Some salt1), cd', [], Some [104; 105])).
Proof. vm_compute. eexists. reflexivity. Qed.
Example toy_response_wrong_echo :
  ss_decode toy cxS 1000 [] sC codec_new (resp (repeat 3 16%nat)) = ([], Err EBadAuth).
Proof. vm_compute. reflexivity. Qed.

(* identity header: the user is looked up by the decrypted hash and bound to the session *)
Definition alice : user := {| u_hash := repeat 5 16%nat; u_key := repeat 6 16%nat |}.
Definition cxU : ctx := {| c_kind := K22_A128; c_key := repeat 7 16%nat; c_ikeys := []; c_users := Some [alice] |}.
Definition req_eih (uh : bytes) : bytes := salt1 ++ uh ++ ([0] ++ put_u64 1000 ++ put_u16 13) ++ tag0 ++ var1 ++ tag0.
Example toy_eih_accepted :
  exists s' cd', ss_decode toy cxU 1000 [] sS codec_new (req_eih (repeat 5 16%nat)) =
                 ([salt1], Ok (s', cd', [], Some [104; 105])) /\ s_user s' = Some alice.
Proof. vm_compute. do 2 eexists. split; reflexivity. Qed.
Example toy_eih_unknown_user :
  ss_decode toy cxU 1000 [] sS codec_new (req_eih (repeat 4 16%nat)) = ([], Err EBadUser).
Proof. vm_compute. reflexivity. Qed.

(* legacy: salt, one length chunk, one payload chunk carrying the address and "hi"; no clock, no cache *)
Definition cxL : ctx := {| c_kind := K_A128; c_key := repeat 7 16%nat; c_ikeys := []; c_users := None |}.
Definition reqL : bytes := salt1 ++ put_u16 9 ++ tag0 ++ ([1; 127; 0; 0; 1; 0; 80] ++ [104; 105]) ++ tag0.
Example toy_legacy_accepted :
  exists s' cd', ss_decode toy cxL 0 [salt1] sS codec_new reqL = ([salt1], Ok (s', cd', [], Some [104; 105])) /\
                 s_addr s' = Some (AV4 [127; 0; 0; 1] 80).
Proof. vm_compute. do 2 eexists. split; reflexivity. Qed.

(* the length premise is needed: with an `open` that returns fewer bytes than |ct| - 16 the model does panic
   (get_u8 on an empty opened header) *)
Definition bad_open : prims := {|
  p_seal := p_seal toy; p_open := fun _ _ _ _ _ => Some [];
  p_hkdf_sha1 := p_hkdf_sha1 toy; p_b3derive := p_b3derive toy; p_b3hash := p_b3hash toy;
  p_aes_enc := p_aes_enc toy; p_aes_dec := p_aes_dec toy; p_md5 := p_md5 toy; p_sha224 := p_sha224 toy;
  p_sha256 := p_sha256 toy; p_shake128 := p_shake128 toy; p_crc32 := p_crc32 toy
|}.
Example open_len_premise_needed : ss_decode bad_open cxS 1000 [] sS codec_new (req 0 1000) = ([], Panic).
Proof. vm_compute. reflexivity. Qed.
(* and so is the key-length premise: a 2022 KDF that yields 8 bytes makes CipherMethod::new panic *)
Definition bad_kdf : prims := {|
  p_seal := p_seal toy; p_open := p_open toy;
  p_hkdf_sha1 := p_hkdf_sha1 toy; p_b3derive := fun _ _ => repeat 0 8%nat; p_b3hash := p_b3hash toy;
  p_aes_enc := p_aes_enc toy; p_aes_dec := p_aes_dec toy; p_md5 := p_md5 toy; p_sha224 := p_sha224 toy;
  p_sha256 := p_sha256 toy; p_shake128 := p_shake128 toy; p_crc32 := p_crc32 toy
|}.
Example b3_len_premise_needed : ss_decode bad_kdf cxS 1000 [] sS codec_new (req 0 1000) = ([], Panic).
Proof. vm_compute. reflexivity. Qed.

Print Assumptions toy_prim_lens.
Print Assumptions toy_ss_decode_no_panic.
Print Assumptions toy_request_accepted.
Print Assumptions toy_replay_rejected.
