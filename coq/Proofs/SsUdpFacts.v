(* Facts about the Shadowsocks UDP datagram codec model (Model/SsUdp.v): AEADCipherCodec::encode/decode and
   SessionCodec of codec/shadowsocks/udp.rs, the client's DatagramPacketCodec and the server's association task.

   Everything is proved for an ARBITRARY record of primitives P.  Premises on the primitives are explicit
   (never axioms): `prim_laws P` (Crypto/Prims.v) for the round trips, and the record `udp_lens P`:
       ul_b3     |blake3 derive_key| = 32          ul_hkdf   |hkdf_sha1 .. n| = n
       ul_open   a successful AEAD open of ct yields |ct| - 16 bytes (prim_laws.open_len)
       ul_aes_dec / ul_aes_enc   an AES block operation on 16 bytes yields 16 bytes
       ul_b3hash |blake3 hash| = 32
   Module ToyUdp shows they are jointly satisfiable and evaluates concrete exchanges by vm_compute.

   (i)   ssu_decode_no_panic, ssu_session_decode_no_panic
           for ALL datagrams, clocks, modes, user tables and keys: never Panic.  Key premise: for the kinds
           WITHOUT a separate AES header (legacy kinds, 2022 XChaCha kinds) kind_n k <= |key| (the Rust code
           slices key[..32] / the HKDF output [..KeySize] unchecked; configuration yields [u8; N]).  For the 2022
           AES kinds no premise on the key: a wrong length is an error return (EBadLen).
   (ii)  roundtrip_legacy (both directions), roundtrip_aes_client_plain, roundtrip_aes_client_eih (one identity
         key, user table containing the user: the decoded session names that user), roundtrip_aes_server (header and
         body under the user's key when the session has a user), roundtrip_xchacha_client, roundtrip_xchacha_server:
           ssu_encode succeeds with some wire w and the peer's ssu_decode of w returns EXACTLY
           (payload, address, session ids, packet id [, user]) -- for every payload (empty included), every padding
           shorter than 65536 bytes (the encoder draws <= 900), every well-formed representable address, ids and
           clock < 2^64, clock skew <= 30 s; and with a skew > 30 s the same wire is refused with EBadTime.
   (iii) accepted_2022_typed_and_fresh: whatever a 2022 decoder accepts, the authenticated plaintext starts with
         the type byte expected by the decoder's mode followed by a timestamp ts with abs_diff now ts <= 30;
         udp_parse_accept, udp_parse_wrong_type, udp_parse_reflected_client/_server (a body made by one's own side
         is EBadType), udp_time_boundary (now+30 / now-30 accepted, now+31 / now-31 refused),
         validate_timestamp_spec/_window.
   (iv)  udp_nonce_inj / udp_nonce_distinct: the AES-kind nonce is bytes 4..16 of sid ‖ pid; two packet ids < 2^64
         of one session give different nonces; client_aes_packet_nonce / server_aes_packet_nonce: that IS the
         nonce under which ssu_encode seals.
   (v)   session level (Rw = PacketWindowList.R, the filter invariant; it holds initially and is preserved).
         Client (DatagramPacketCodec::decode; ONE window PER SERVER SESSION, the MAX_SERVER_SESSIONS = 4 newest are held,
         repair 5185ac1; a datagram naming another client session id is dropped first, repair 642ebdf):
         (v-a, P-independent) filter_of / filters_validate_at: held (the first entry of id A carries window f, n newer entries
         behind it), windows_ok, client_validate_new, client_validate_keys (the retained ids are a FIFO of the ids seen),
         windows_session_exact;
         client_foreign_session_datagram_dropped / foreign_session_datagram_invisible_client (=> Ok (st, None));
         client_dgram_decode_spec (verdict = PacketWindow.spec_accept on the ids accepted IN THAT SERVER SESSION),
         refused_packet_keeps_session_client (refused id => no item; state identical when the server session's window is held,
         otherwise -- only with id >= 2^64-1 -- filter_of alone has run), refused_packet_invisible_client,
         client_new_server_session_accepted (the first packet of a server session not held is accepted from ANY state),
         client_trace (ghost observation: server session id, packet id, opened-a-window, delivered),
         client_trace_new_is_fifo, client_packet_id_at_most_once (from ANY state, every input sequence: from the datagram that
         opens A's window and while fewer than 4 further windows are opened, the verdicts on A's packets are EXACTLY those of
         the specification window on A's ids alone; delivered ids of A NoDup);
         client_dgram_decode_v0 (the client before both repairs) with the ToyUdp witnesses
         single_window_drops_new_session_witness, foreign_session_datagram_witness; client_window_eviction_witness (the
         stated limit: a 5th server session displaces the first one's window);
         server_assoc_step_spec, refused_packet_keeps_session_server (=> (st, [], true)),
         unresolved_packet_keeps_session, refused_packet_invisible_server, unresolved_packet_invisible_server,
         server_packet_id_at_most_once, server_packet_id_no_wrap;
         client_dgram_encode_step (at 2^64-1: (st, Err), no wrap; otherwise id+1 and the codec is called with it),
         packet_id_never_reused (ids of a run strictly increasing, in (0, 2^64), NoDup, and NoDup of the nonces).
   Nothing is `_partial`; every proof ends with Qed; Print Assumptions (end of file) are all closed. *)
From Coq Require Import List NArith ZArith Lia Bool Arith ZifyBool ZifyN ZifyNat Sorted.
From Octo Require Import Base.Bytes Crypto.Prims Model.NonceGen Model.SsChunk Model.Address Model.SsTcp
  Model.PacketWindow Model.SsUdp Proofs.AddressFacts Proofs.CodecLemmas Proofs.SsChunkCanon Proofs.PacketWindowList.
From Octo Require Proofs.SsTcpRoundtrip.     (* only for the toy primitives of the non-vacuity section *)
Import ListNotations.
Open Scope N_scope.

(* ---------------------------------------------------------------------------------------------- *)
(* P-independent helpers                                                                            *)
(* ---------------------------------------------------------------------------------------------- *)
Lemma bind_no_panic {A B} (r : res A) (f : A -> res B) :
  r <> Panic -> (forall a, r = Ok a -> f a <> Panic) -> bind r f <> Panic.
Proof. destruct r as [a|e|]; cbn [bind]; intros H1 H2; [apply H2; reflexivity|discriminate|contradiction]. Qed.

Lemma split_to_no_panic n b : n <= lenN b -> split_to n b <> Panic.
Proof. intros H. rewrite split_to_ok by assumption. discriminate. Qed.

Lemma get_u64_ok b : 8 <= lenN b -> get_u64 b = Ok (be (takeN 8 b), dropN 8 b).
Proof. apply get_be_ok. Qed.
Lemma get_be_inv k b v t : get_be k b = Ok (v, t) -> k <= lenN b /\ v = be (takeN k b) /\ t = dropN k b.
Proof.
  unfold get_be, split_to. destruct (N.leb_spec k (lenN b)) as [Hk|Hk]; cbn [bind]; [|discriminate].
  intros [= <- <-]. auto.
Qed.
Lemma get_u8_ok b : 1 <= lenN b -> exists x t, b = x :: t /\ get_u8 b = Ok (x, t).
Proof. destruct b as [|x t]; [rewrite lenN_nil; lia|]. intros _. exists x, t. split; reflexivity. Qed.
Lemma lenN_put_u64 v : lenN (put_u64 v) = 8. Proof. apply lenN_put_be. Qed.
Lemma get_u64_put v t : v < 2 ^ 64 -> get_u64 (put_u64 v ++ t) = Ok (v, t).
Proof. intros H. unfold get_u64, put_u64. apply get_be_put_be. exact H. Qed.

Lemma bytes_eqb_refl a : bytes_eqb a a = true.
Proof. unfold bytes_eqb. destruct (list_eq_dec N.eq_dec a a); [reflexivity|congruence]. Qed.

Lemma xor_into_length : forall a b, length (xor_into a b) = length a.
Proof. induction a as [|x a IH]; intros [|y b]; cbn [xor_into length]; auto. Qed.
Lemma lenN_xor_into a b : lenN (xor_into a b) = lenN a.
Proof. rewrite !lenN_spec, xor_into_length. reflexivity. Qed.
(* the server undoes the client's mask *)
Lemma xor_into_involutive : forall a b, xor_into (xor_into a b) b = a.
Proof.
  induction a as [|x a IH]; intros [|y b]; cbn [xor_into]; try reflexivity.
  rewrite IH. f_equal. rewrite N.lxor_assoc, N.lxor_nilpotent, N.lxor_0_r. reflexivity.
Qed.

Lemma key_size_le_32 c : cipher_key_size c <= 32.
Proof. unfold cipher_key_size. destruct (c =? 0); lia. Qed.
Lemma key_size_kind k : cipher_key_size (kind_cipher k) = kind_n k.
Proof. destruct k; reflexivity. Qed.

Lemma abs_diff_sym a b : abs_diff a b = abs_diff b a.
Proof. unfold abs_diff. destruct (N.ltb_spec a b), (N.ltb_spec b a); lia. Qed.

(* ---------------------------------------------------------------------------------------------- *)
(* (iv) nonce uniqueness (AES kinds): the nonce is bytes 4..16 of sid ‖ pid                           *)
(* ---------------------------------------------------------------------------------------------- *)
Definition udp_aes_nonce (sid pid : N) : bytes := dropN 4 (put_u64 sid ++ put_u64 pid).

Lemma udp_aes_nonce_split sid pid : udp_aes_nonce sid pid = dropN 4 (put_u64 sid) ++ put_u64 pid.
Proof. unfold udp_aes_nonce. apply dropN_app_le. rewrite lenN_put_u64. lia. Qed.
Lemma udp_aes_nonce_len sid pid : lenN (udp_aes_nonce sid pid) = 12.
Proof. rewrite udp_aes_nonce_split, lenN_app, lenN_dropN, !lenN_put_u64. reflexivity. Qed.

Lemma put_u64_inj a b : a < 2 ^ 64 -> b < 2 ^ 64 -> put_u64 a = put_u64 b -> a = b.
Proof.
  intros Ha Hb E. apply (f_equal be) in E. unfold put_u64 in E.
  rewrite !be_put_be in E by assumption. exact E.
Qed.

Theorem udp_nonce_inj sid p1 p2 : p1 < 2 ^ 64 -> p2 < 2 ^ 64 ->
  udp_aes_nonce sid p1 = udp_aes_nonce sid p2 -> p1 = p2.
Proof.
  intros H1 H2 E. rewrite !udp_aes_nonce_split in E. apply app_inv_head in E.
  apply put_u64_inj; assumption.
Qed.
Corollary udp_nonce_distinct sid p1 p2 : p1 < 2 ^ 64 -> p2 < 2 ^ 64 -> p1 <> p2 ->
  udp_aes_nonce sid p1 <> udp_aes_nonce sid p2.
Proof. intros H1 H2 Hne E. apply Hne. eapply udp_nonce_inj; eassumption. Qed.

(* ---------------------------------------------------------------------------------------------- *)
(* (iii) the time window (P-independent part)                                                        *)
(* ---------------------------------------------------------------------------------------------- *)
Lemma validate_timestamp_spec now ts : validate_timestamp now ts = true <-> abs_diff now ts <= 30.
Proof. unfold validate_timestamp, TS_MAX_DIFF. apply N.leb_le. Qed.
Lemma validate_timestamp_window now ts : validate_timestamp now ts = true <-> (ts <= now + 30 /\ now <= ts + 30).
Proof. rewrite validate_timestamp_spec. unfold abs_diff. destruct (N.ltb_spec now ts); lia. Qed.
Theorem udp_time_boundary now :
  validate_timestamp now (now + 30) = true /\ validate_timestamp now (now + 31) = false /\
  (30 <= now -> validate_timestamp now (now - 30) = true) /\
  (31 <= now -> validate_timestamp now (now - 31) = false).
Proof.
  repeat split.
  - apply validate_timestamp_window. lia.
  - destruct (validate_timestamp now (now + 31)) eqn:E; [|reflexivity]. apply validate_timestamp_window in E. lia.
  - intros H. apply validate_timestamp_window. lia.
  - intros H. destruct (validate_timestamp now (now - 31)) eqn:E; [|reflexivity]. apply validate_timestamp_window in E. lia.
Qed.

(* ---------------------------------------------------------------------------------------------- *)
(* (v-a) the client's vector of replay windows (P-independent): filter_of / filters_validate_at      *)
(* ---------------------------------------------------------------------------------------------- *)
Definition fkeys (fs : list (N * pw)) : list N := map fst fs.
(* every retained window is a reachable window (PacketWindowList.R: it represents a list of accepted ids) *)
Definition windows_ok (fs : list (N * pw)) : Prop := Forall (fun e => exists acc, R (snd e) acc) fs.

Lemma filters_find_none fs A : filters_find fs A = None <-> ~ In A (fkeys fs).
Proof.
  induction fs as [|[k g] t IH]; cbn [filters_find fkeys map In fst]; [tauto|].
  destruct (N.eqb_spec k A) as [->|Hne].
  - split; [discriminate|]. intros H. exfalso. apply H. left. reflexivity.
  - rewrite IH. unfold fkeys. tauto.
Qed.
Lemma filters_find_some fs A : In A (fkeys fs) -> exists f, filters_find fs A = Some f.
Proof.
  intros Hin. destruct (filters_find fs A) as [f|] eqn:E; [eauto|]. apply filters_find_none in E. contradiction.
Qed.
Lemma existsb_keys fs A : existsb (N.eqb A) (fkeys fs) = true <-> In A (fkeys fs).
Proof.
  rewrite existsb_exists. split.
  - intros (x & Hx & E). apply N.eqb_eq in E. subst x. exact Hx.
  - intros H. exists A. split; [exact H|apply N.eqb_refl].
Qed.

Lemma filter_of_retained fs A : In A (fkeys fs) -> filter_of fs A = fs.
Proof. intros H. unfold filter_of. destruct (filters_find_some fs A H) as (f & ->). reflexivity. Qed.
Lemma filter_of_new fs A : ~ In A (fkeys fs) ->
  filter_of fs A = (if N.of_nat (length fs) =? MAX_SERVER_SESSIONS then tl fs else fs) ++ [(A, pw_new)].
Proof. intros H. unfold filter_of. apply filters_find_none in H. rewrite H. reflexivity. Qed.

Lemma validate_at_length : forall fs A q, length (fst (filters_validate_at fs A q)) = length fs.
Proof.
  induction fs as [|[k g] t IH]; intros A q; cbn [filters_validate_at]; [reflexivity|].
  destruct (k =? A).
  - destruct (pw_validate g q U64_MAX). reflexivity.
  - specialize (IH A q). destruct (filters_validate_at t A q). cbn [fst length] in *. congruence.
Qed.
Lemma validate_at_keys : forall fs A q, fkeys (fst (filters_validate_at fs A q)) = fkeys fs.
Proof.
  induction fs as [|[k g] t IH]; intros A q; cbn [filters_validate_at]; [reflexivity|].
  destruct (k =? A).
  - destruct (pw_validate g q U64_MAX). reflexivity.
  - specialize (IH A q). destruct (filters_validate_at t A q). cbn [fst fkeys map] in *. unfold fkeys in IH. congruence.
Qed.

(* the window of A is held: the first entry of id A carries f and has n newer entries behind it *)
Definition held (A : N) (f : pw) (n : nat) (fs : list (N * pw)) : Prop :=
  exists older newer, fs = older ++ (A, f) :: newer /\ ~ In A (fkeys older) /\ length newer = n.

Lemma held_in A f n fs : held A f n fs -> In A (fkeys fs).
Proof. intros (o & w & -> & _ & _). unfold fkeys. rewrite map_app. apply in_or_app. right. left. reflexivity. Qed.

Lemma validate_at_split : forall older A f newer q, ~ In A (fkeys older) ->
  filters_validate_at (older ++ (A, f) :: newer) A q
  = (older ++ (A, fst (pw_validate f q U64_MAX)) :: newer, snd (pw_validate f q U64_MAX)).
Proof.
  induction older as [|[k g] t IH]; intros A f newer q Hni; cbn [app filters_validate_at].
  - rewrite N.eqb_refl. destruct (pw_validate f q U64_MAX). reflexivity.
  - destruct (N.eqb_spec k A) as [->|Hne]; [exfalso; apply Hni; left; reflexivity|].
    rewrite IH by (intros H; apply Hni; right; exact H). reflexivity.
Qed.

Lemma held_validate_same A f n fs q : held A f n fs ->
  snd (filters_validate_at fs A q) = snd (pw_validate f q U64_MAX) /\
  held A (fst (pw_validate f q U64_MAX)) n (fst (filters_validate_at fs A q)).
Proof.
  intros (o & w & -> & Hni & Hn). rewrite validate_at_split by exact Hni. cbn [fst snd]. split; [reflexivity|].
  exists o, w. auto.
Qed.

Lemma held_validate_other A f n X q : X <> A -> forall fs, held A f n fs -> held A f n (fst (filters_validate_at fs X q)).
Proof.
  intros Hne fs (o & w & -> & Hni & Hn). revert Hni. induction o as [|[k g] t IH]; intros Hni; cbn [app filters_validate_at].
  - destruct (N.eqb_spec A X) as [E|_]; [congruence|].
    pose proof (validate_at_length w X q) as Hl. destruct (filters_validate_at w X q) as [w' b]. cbn [fst] in *.
    exists [], w'. repeat split; [exact Hni|congruence].
  - destruct (N.eqb_spec k X) as [->|Hk].
    + destruct (pw_validate g q U64_MAX) as [g' b]. cbn [fst]. exists ((X, g') :: t), w. repeat split; assumption.
    + assert (Hni' : ~ In A (fkeys t)) by (intros H; apply Hni; right; exact H).
      specialize (IH Hni'). destruct (filters_validate_at (t ++ (A, f) :: w) X q) as [r b]. cbn [fst] in *.
      destruct IH as (o' & w' & -> & Hni2 & Hn2). exists ((k, g) :: o'), w'. repeat split; [|exact Hn2].
      intros [E|H]; [apply Hni; left; exact E|contradiction].
Qed.

Lemma held_filter_of_new A f n fs X : ~ In X (fkeys fs) -> held A f n fs -> (n < 3)%nat ->
  held A f (S n) (filter_of fs X).
Proof.
  intros HX (o & w & -> & Hni & Hn) Hlt. rewrite filter_of_new by exact HX.
  destruct (N.eqb_spec (N.of_nat (length (o ++ (A, f) :: w))) MAX_SERVER_SESSIONS) as [E|_].
  - destruct o as [|e o'].
    + exfalso. cbn [app length] in E. unfold MAX_SERVER_SESSIONS in E. lia.
    + cbn [app tl]. exists o', (w ++ [(X, pw_new)]). repeat split.
      * rewrite <- app_assoc. reflexivity.
      * intros H. apply Hni. right. exact H.
      * rewrite app_length. cbn [length]. lia.
  - exists o, (w ++ [(X, pw_new)]). repeat split.
    + rewrite <- app_assoc. reflexivity.
    + exact Hni.
    + rewrite app_length. cbn [length]. lia.
Qed.

(* a new server session: its window is appended (the oldest evicted when four are held) and judged from scratch *)
Lemma client_validate_new fs A q : ~ In A (fkeys fs) ->
  client_validate fs A q
  = ((if N.of_nat (length fs) =? MAX_SERVER_SESSIONS then tl fs else fs) ++ [(A, fst (pw_validate pw_new q U64_MAX))],
     snd (pw_validate pw_new q U64_MAX)).
Proof.
  intros H. unfold client_validate. rewrite filter_of_new by exact H.
  apply validate_at_split. intros Hin. apply H. unfold fkeys in *.
  destruct (N.of_nat (length fs) =? MAX_SERVER_SESSIONS); [|exact Hin].
  destruct fs as [|e t]; [exact Hin|]. right. exact Hin.
Qed.
Lemma held_after_new fs A q : ~ In A (fkeys fs) ->
  held A (fst (pw_validate pw_new q U64_MAX)) 0 (fst (client_validate fs A q)).
Proof.
  intros H. rewrite client_validate_new by exact H. cbn [fst].
  exists (if N.of_nat (length fs) =? MAX_SERVER_SESSIONS then tl fs else fs), []. repeat split.
  intros Hin. apply H. unfold fkeys in *.
  destruct (N.of_nat (length fs) =? MAX_SERVER_SESSIONS); [|exact Hin].
  destruct fs as [|e t]; [exact Hin|]. right. exact Hin.
Qed.

Lemma pw_new_verdict q : snd (pw_validate pw_new q U64_MAX) = (q <? U64_MAX) /\
  R (fst (pw_validate pw_new q U64_MAX)) (if q <? U64_MAX then [q] else []).
Proof.
  destruct (pw_validate pw_new q U64_MAX) as [f b] eqn:E.
  destruct (pw_validate_refines _ _ _ _ _ _ R_init E) as (Hb & HR & _). cbn [fst snd].
  assert (Hv : b = (q <? U64_MAX)).
  { rewrite Hb. unfold spec_accept. cbn [existsb forallb negb]. rewrite !andb_true_r. reflexivity. }
  split; [exact Hv|]. rewrite <- Hv. exact HR.
Qed.

(* the invariant "every window is reachable" travels *)
Lemma windows_ok_filter_of fs A : windows_ok fs -> windows_ok (filter_of fs A).
Proof.
  intros H. unfold filter_of. destruct (filters_find fs A); [exact H|].
  apply Forall_app. split.
  - destruct (N.of_nat (length fs) =? MAX_SERVER_SESSIONS); [|exact H]. destruct fs; [exact H|]. inversion H; assumption.
  - constructor; [|constructor]. exists []. exact R_init.
Qed.
Lemma windows_ok_validate_at : forall fs A q, windows_ok fs -> windows_ok (fst (filters_validate_at fs A q)).
Proof.
  induction fs as [|[k g] t IH]; intros A q H; cbn [filters_validate_at]; [exact H|].
  inversion H as [|? ? (acc & Hg) Ht]; subst. destruct (k =? A).
  - destruct (pw_validate g q U64_MAX) as [g' b] eqn:E. cbn [fst].
    destruct (pw_validate_refines _ _ _ _ _ _ Hg E) as (_ & HR & _). constructor; [eexists; exact HR|exact Ht].
  - specialize (IH A q Ht). destruct (filters_validate_at t A q). cbn [fst] in *. constructor; [eexists; exact Hg|exact IH].
Qed.
Lemma windows_ok_client_validate fs A q : windows_ok fs -> windows_ok (fst (client_validate fs A q)).
Proof. intros H. apply windows_ok_validate_at, windows_ok_filter_of, H. Qed.
(* a refusal leaves every window as it was *)
Lemma validate_at_refused_same : forall fs A q, windows_ok fs -> snd (filters_validate_at fs A q) = false ->
  fst (filters_validate_at fs A q) = fs.
Proof.
  induction fs as [|[k g] t IH]; intros A q H; cbn [filters_validate_at]; [reflexivity|].
  inversion H as [|? ? (acc & Hg) Ht]; subst. destruct (k =? A).
  - destruct (pw_validate g q U64_MAX) as [g' b] eqn:E. cbn [fst snd]. intros ->.
    destruct (pw_validate_refines _ _ _ _ _ _ Hg E) as (_ & _ & Hs). rewrite (Hs eq_refl). reflexivity.
  - specialize (IH A q Ht). destruct (filters_validate_at t A q). cbn [fst snd] in *. intros Hb. rewrite (IH Hb). reflexivity.
Qed.
Lemma client_validate_refused fs A q : windows_ok fs -> snd (client_validate fs A q) = false ->
  fst (client_validate fs A q) = filter_of fs A.
Proof. intros H. apply validate_at_refused_same, windows_ok_filter_of, H. Qed.
Lemma refused_unretained_over_limit fs A q : ~ In A (fkeys fs) -> snd (client_validate fs A q) = false -> U64_MAX <= q.
Proof.
  intros H. rewrite client_validate_new by exact H. cbn [snd]. rewrite (proj1 (pw_new_verdict q)).
  intros Hlt. apply N.ltb_ge. exact Hlt.
Qed.

(* the retained server session ids follow a FIFO of MAX_SERVER_SESSIONS entries: a function of the ids seen alone *)
Definition fifo_push (l : list N) (x : N) : list N :=
  if existsb (N.eqb x) l then l else (if N.of_nat (length l) =? MAX_SERVER_SESSIONS then tl l else l) ++ [x].
Lemma client_validate_keys fs A q : fkeys (fst (client_validate fs A q)) = fifo_push (fkeys fs) A.
Proof.
  unfold client_validate. rewrite validate_at_keys. unfold fifo_push.
  destruct (existsb (N.eqb A) (fkeys fs)) eqn:E.
  - apply existsb_keys in E. rewrite filter_of_retained by exact E. reflexivity.
  - assert (Hni : ~ In A (fkeys fs)) by (intros H; apply existsb_keys in H; congruence).
    rewrite filter_of_new by exact Hni. unfold fkeys. rewrite map_app, map_length. cbn [map fst].
    destruct (N.of_nat (length fs) =? MAX_SERVER_SESSIONS); [|reflexivity]. destruct fs; reflexivity.
Qed.

(* ---- traces: what happens to the authenticated datagrams of this client session, in order ---- *)
Record cevent := { ev_ssid : N; ev_pid : N; ev_new : bool; ev_ok : bool }.
Definition ev_of (A : N) (e : cevent) : bool := ev_ssid e =? A.

Fixpoint windows_trace (fs : list (N * pw)) (ids : list (N * N)) : list cevent :=
  match ids with
  | [] => []
  | (ssid, pid) :: t =>
    {| ev_ssid := ssid; ev_pid := pid; ev_new := negb (existsb (N.eqb ssid) (fkeys fs));
       ev_ok := snd (client_validate fs ssid pid) |} :: windows_trace (fst (client_validate fs ssid pid)) t
  end.
Fixpoint fifo_news (l : list N) (xs : list N) : list bool :=
  match xs with [] => [] | x :: t => negb (existsb (N.eqb x) l) :: fifo_news (fifo_push l x) t end.
Lemma windows_trace_new_is_fifo : forall ids fs,
  map ev_new (windows_trace fs ids) = fifo_news (fkeys fs) (map fst ids) /\
  map ev_ssid (windows_trace fs ids) = map fst ids /\ map ev_pid (windows_trace fs ids) = map snd ids.
Proof.
  induction ids as [|[A q] t IH]; intros fs; cbn [windows_trace map fifo_news fst snd ev_new ev_ssid ev_pid]; [auto|].
  destruct (IH (fst (client_validate fs A q))) as (H1 & H2 & H3). rewrite H1, H2, H3, client_validate_keys. auto.
Qed.

Lemma windows_trace_app_inv : forall t1 t2 fs ids, windows_trace fs ids = t1 ++ t2 ->
  exists ids1 ids2 fs', ids = ids1 ++ ids2 /\ windows_trace fs ids1 = t1 /\ windows_trace fs' ids2 = t2.
Proof.
  induction t1 as [|e t1 IH]; intros t2 fs ids H.
  - exists [], ids, fs. auto.
  - destruct ids as [|[A q] ids]; [discriminate|]. cbn [windows_trace app] in H. injection H as He Ht.
    destruct (IH _ _ _ Ht) as (i1 & i2 & fs' & -> & H1 & H2).
    exists ((A, q) :: i1), i2, fs'. cbn [windows_trace app]. rewrite H1, He. auto.
Qed.

Lemma snd_spec_run_cons acc id t limit :
  snd (spec_run acc (id :: t) limit)
  = spec_accept acc id limit :: snd (spec_run (if spec_accept acc id limit then id :: acc else acc) t limit).
Proof. cbn [spec_run]. destruct (spec_run _ t limit). reflexivity. Qed.

Lemma filter_ev_of_cons A e t :
  filter (ev_of A) (e :: t) = if ev_ssid e =? A then e :: filter (ev_of A) t else filter (ev_of A) t.
Proof. reflexivity. Qed.

(* while the window of A is held, the verdicts on A's packets are those of ONE window on A's ids alone *)
Lemma held_session_run A : forall ids fs f n acc,
  held A f n fs -> R f acc -> (n + length (filter ev_new (windows_trace fs ids)) < 4)%nat ->
  let mine := filter (ev_of A) (windows_trace fs ids) in
  map ev_ok mine = snd (spec_run acc (map ev_pid mine) U64_MAX).
Proof.
  induction ids as [|[X q] t IH]; intros fs f n acc Hh HR Hc; [reflexivity|].
  cbn [windows_trace] in *. cbn [filter ev_new] in Hc. cbn zeta. rewrite filter_ev_of_cons. cbn [ev_ssid].
  destruct (N.eqb_spec X A) as [->|Hne].
  - (* a packet of A *)
    pose proof (held_in _ _ _ _ Hh) as Hin.
    assert (En : negb (existsb (N.eqb A) (fkeys fs)) = false).
    { apply negb_false_iff, existsb_keys, Hin. }
    rewrite En in Hc. unfold client_validate in *. rewrite (filter_of_retained _ _ Hin) in *.
    destruct (held_validate_same A f n fs q Hh) as (Hb & Hh').
    destruct (pw_validate f q U64_MAX) as [f' b] eqn:Ev. cbn [fst snd] in *.
    destruct (pw_validate_refines _ _ _ _ _ _ HR Ev) as (Hspec & HR' & _).
    cbn [map ev_ok ev_pid]. rewrite snd_spec_run_cons, <- Hspec, Hb. f_equal.
    apply (IH _ f' n _ Hh' HR'). exact Hc.
  - (* a packet of another server session *)
    destruct (existsb (N.eqb X) (fkeys fs)) eqn:EX; cbn [negb] in Hc.
    + apply existsb_keys in EX. unfold client_validate in *. rewrite (filter_of_retained _ _ EX) in *.
      apply (IH _ f n acc); [apply held_validate_other; assumption|exact HR|exact Hc].
    + assert (HX : ~ In X (fkeys fs)) by (intros H; apply existsb_keys in H; congruence).
      cbn [length] in Hc. unfold client_validate in *.
      apply (IH _ f (S n) acc); [|exact HR|lia].
      apply held_validate_other; [exact Hne|]. apply held_filter_of_new; [exact HX|exact Hh|lia].
Qed.

(* accepted ids of one window are pairwise distinct (and new) *)
Lemma spec_accept_fresh acc id limit : spec_accept acc id limit = true -> ~ In id acc.
Proof.
  unfold spec_accept. rewrite !andb_true_iff, negb_true_iff. intros [[_ H] _] Hin.
  assert (existsb (N.eqb id) acc = true) by (apply existsb_exists; exists id; split; [assumption|apply N.eqb_refl]).
  congruence.
Qed.
Lemma spec_verdicts_nodup limit : forall (mine : list cevent) acc,
  map ev_ok mine = snd (spec_run acc (map ev_pid mine) limit) ->
  NoDup (map ev_pid (filter ev_ok mine)) /\ forall id, In id (map ev_pid (filter ev_ok mine)) -> ~ In id acc.
Proof.
  induction mine as [|e t IH]; intros acc H; cbn [filter map]; [split; [constructor|intros ? []]|].
  cbn [map] in H. rewrite snd_spec_run_cons in H. injection H as Hb Ht.
  destruct (IH _ Ht) as (Hnd & Hfresh). rewrite Hb. destruct (spec_accept acc (ev_pid e) limit) eqn:Ea.
  - cbn [map]. split.
    + constructor; [|exact Hnd]. intros Hin. apply (Hfresh _ Hin). left. reflexivity.
    + intros id [<-|Hin]; [apply (spec_accept_fresh _ _ _ Ea)|]. intros Hacc. apply (Hfresh _ Hin). right. exact Hacc.
  - split; [exact Hnd|exact Hfresh].
Qed.

(* C11 for the vector of windows: from ANY vector, for EVERY sequence of (server session id, packet id):
   from the packet that opens the window of A, and as long as fewer than 4 further windows have been opened,
   the verdicts on A's packets are exactly those of the specification window run on A's ids from scratch *)
Theorem windows_session_exact fs ids pre A p0 b0 rest post :
  windows_trace fs ids = pre ++ {| ev_ssid := A; ev_pid := p0; ev_new := true; ev_ok := b0 |} :: rest ++ post ->
  (length (filter ev_new rest) < N.to_nat MAX_SERVER_SESSIONS)%nat ->
  let mine := filter (ev_of A) ({| ev_ssid := A; ev_pid := p0; ev_new := true; ev_ok := b0 |} :: rest) in
  map ev_ok mine = snd (spec_run [] (map ev_pid mine) U64_MAX) /\
  NoDup (map ev_pid (filter ev_ok mine)).
Proof.
  change (N.to_nat MAX_SERVER_SESSIONS) with 4%nat. intros H Hc. cbn zeta.
  assert (Hmain : map ev_ok (filter (ev_of A) ({| ev_ssid := A; ev_pid := p0; ev_new := true; ev_ok := b0 |} :: rest))
                  = snd (spec_run [] (map ev_pid (filter (ev_of A) ({| ev_ssid := A; ev_pid := p0; ev_new := true; ev_ok := b0 |} :: rest))) U64_MAX)).
  2:{ split; [exact Hmain|]. exact (proj1 (spec_verdicts_nodup _ _ _ Hmain)). }
  destruct (windows_trace_app_inv _ _ _ _ H) as (i1 & i2 & fs1 & -> & _ & H2).
  destruct i2 as [|[A' q] i2]; [discriminate|]. cbn [windows_trace] in H2. injection H2 as HA Hq Hnew Hok Hrest.
  subst A' q. apply negb_true_iff in Hnew.
  assert (HA : ~ In A (fkeys fs1)) by (intros Hin; apply existsb_keys in Hin; congruence).
  destruct (windows_trace_app_inv _ _ _ _ Hrest) as (i3 & i4 & fs3 & -> & H3 & _).
  rewrite filter_ev_of_cons. cbn [ev_ssid]. rewrite N.eqb_refl. cbn [map ev_ok ev_pid]. rewrite snd_spec_run_cons.
  pose proof (held_after_new fs1 A p0 HA) as Hh.
  destruct (pw_new_verdict p0) as (Hv & HR).
  assert (Hb0 : b0 = spec_accept [] p0 U64_MAX).
  { rewrite <- Hok, client_validate_new by exact HA. cbn [snd]. rewrite Hv. unfold spec_accept. cbn [existsb forallb negb].
    rewrite !andb_true_r. reflexivity. }
  rewrite <- Hb0. f_equal.
  assert (Hacc : (if b0 then [p0] else []) = (if p0 <? U64_MAX then [p0] else [])).
  { rewrite Hb0. unfold spec_accept. cbn [existsb forallb negb]. rewrite !andb_true_r. reflexivity. }
  rewrite Hacc, <- H3.
  apply (held_session_run A i3 _ _ 0%nat _ Hh HR). rewrite H3. exact Hc.
Qed.

Section SsUdpFacts.
  Variable P : prims.

  (* length facts about the real primitives: premises, never axioms *)
  Record udp_lens : Prop := {
    ul_b3 : forall c m, lenN (p_b3derive P c m) = 32;
    ul_hkdf : forall i s info n, lenN (p_hkdf_sha1 P i s info n) = n;
    ul_open : open_len_ok P;
    ul_aes_dec : forall k b, lenN b = 16 -> lenN (p_aes_dec P k b) = 16;
    ul_aes_enc : forall k b, lenN b = 16 -> lenN (p_aes_enc P k b) = 16;
    ul_b3hash : forall m, lenN (p_b3hash P m) = 32
  }.

  (* ============================================================================================ *)
  (* (i) no panic                                                                                  *)
  (* ============================================================================================ *)
  Definition parse_min (m : mode) : N := match m with Client => 19 | Server => 11 end.

  Lemma udp_parse_no_panic m now sid pid u pt : parse_min m <= lenN pt -> udp_parse m now sid pid u pt <> Panic.
  Proof.
    intros Hlen. unfold udp_parse.
    assert (H1 : 1 <= lenN pt) by (destruct m; cbn [parse_min] in Hlen; lia).
    destruct (get_u8_ok pt H1) as (ty & p1 & -> & ->). cbn [bind]. rewrite lenN_cons in Hlen.
    destruct (negb (ty =? mode_expect_u8 m)); [discriminate|].
    rewrite get_u64_ok by (destruct m; cbn [parse_min] in Hlen; lia). cbn [bind].
    destruct (negb (validate_timestamp now (be (takeN 8 p1)))); [discriminate|].
    set (p2 := dropN 8 p1). assert (Hp2 : lenN p2 = lenN p1 - 8) by apply lenN_dropN.
    assert (exists csid p3, (match m with Client => get_u64 p2 | Server => Ok (sid, p2) end) = Ok (csid, p3) /\ 2 <= lenN p3)
      as (csid & p3 & -> & Hp3).
    { destruct m; cbn [parse_min] in Hlen.
      - rewrite get_u64_ok by lia. do 2 eexists. split; [reflexivity|]. rewrite lenN_dropN. lia.
      - do 2 eexists. split; [reflexivity|]. lia. }
    cbn [bind]. unfold get_u16. rewrite get_be_ok by assumption. cbn [bind].
    destruct (N.ltb_spec (lenN (dropN 2 p3)) (be (takeN 2 p3))) as [|Hpad]; [discriminate|].
    rewrite advance_ok by assumption. cbn [bind].
    apply bind_no_panic; [apply s5_decode_total|]. intros [a r] _. discriminate.
  Qed.

  Lemma aes_block_dec_16 (UL : udp_lens) k key b d : lenN b = 16 -> aes_block_dec P k key b = Ok d -> lenN d = 16.
  Proof.
    intros Hb. unfold aes_block_dec. destruct (negb (lenN key =? aes_keylen k)); [discriminate|].
    rewrite Hb. cbn [N.eqb Pos.eqb negb]. intros [= <-]. apply (ul_aes_dec UL). exact Hb.
  Qed.
  Lemma aes_block_dec_no_panic k key b : lenN b = 16 -> aes_block_dec P k key b <> Panic.
  Proof.
    intros Hb. unfold aes_block_dec. destruct (negb (lenN key =? aes_keylen k)); [discriminate|].
    rewrite Hb. cbn [N.eqb Pos.eqb negb]. discriminate.
  Qed.

  Lemma udp_cipher_key_aes_ok (UL : udp_lens) k key sid : support_eih k = true ->
    exists ck, udp_cipher_key P k key sid = Ok ck.
  Proof.
    intros Hk. unfold udp_cipher_key. rewrite Hk. unfold session_sub_key. rewrite (ul_b3 UL).
    pose proof (key_size_le_32 (kind_cipher k)).
    destruct (N.ltb_spec 32 (cipher_key_size (kind_cipher k))); [lia|]. eexists; reflexivity.
  Qed.
  Lemma udp_cipher_key_xc_ok k key sid : support_eih k = false -> 32 <= lenN key ->
    udp_cipher_key P k key sid = Ok (takeN 32 key).
  Proof.
    intros Hk Hl. unfold udp_cipher_key. rewrite Hk. destruct (N.ltb_spec (lenN key) 32); [lia|]. reflexivity.
  Qed.

  Lemma udp_header_length_ge cx : udp_nonce_len (uc_kind cx) + 16 + 16 + (if udp_require_eih cx then 16 else 0) + parse_min (uc_mode cx)
                                  = udp_header_length cx.
  Proof. unfold udp_header_length, TAG, parse_min. destruct (uc_mode cx), (udp_require_eih cx); lia. Qed.

  Lemma udp_open_aes_no_panic (UL : udp_lens) cx src :
    support_eih (uc_kind cx) = true -> udp_header_length cx <= lenN src ->
    match udp_open_aes P cx (udp_require_eih cx) src with
    | Panic => False
    | Err _ => True
    | Ok (_, _, _, pt) => parse_min (uc_mode cx) <= lenN pt
    end.
  Proof.
    intros Hk Hlen. rewrite <- udp_header_length_ge in Hlen. unfold udp_nonce_len in Hlen. rewrite Hk in Hlen.
    unfold udp_open_aes.
    rewrite split_to_ok by lia. cbn [bind].
    assert (Hh : lenN (takeN 16 src) = 16) by (apply lenN_takeN; lia).
    destruct (aes_block_dec P (uc_kind cx) (uc_key cx) (takeN 16 src)) as [dec|e|] eqn:Edec; cbn [bind]; [|exact I|].
    2:{ exact (aes_block_dec_no_panic _ _ _ Hh Edec). }
    pose proof (aes_block_dec_16 UL _ _ _ _ Hh Edec) as Hd.
    rewrite Hd. cbn [N.ltb N.compare Pos.compare Pos.compare_cont bind].
    rewrite get_u64_ok by lia. cbn [bind]. rewrite get_u64_ok by (rewrite lenN_dropN; lia). cbn [bind].
    set (rest := dropN 16 src). assert (Hrest : lenN rest = lenN src - 16) by apply lenN_dropN.
    destruct (udp_require_eih cx) eqn:Ereq.
    - rewrite split_to_ok by lia. cbn [bind].
      assert (He : lenN (takeN 16 rest) = 16) by (apply lenN_takeN; lia).
      destruct (aes_block_dec P (uc_kind cx) (uc_key cx) (takeN 16 rest)) as [e|e|] eqn:Ee; cbn [bind]; [|exact I|].
      2:{ exact (aes_block_dec_no_panic _ _ _ He Ee). }
      destruct (find_user _ _) as [u|]; cbn [bind]; [|exact I].
      destruct (udp_cipher_key_aes_ok UL (uc_kind cx) (u_key u) (be (takeN 8 dec)) Hk) as [ck ->]. cbn [bind].
      destruct (p_open P _ ck _ [] (dropN 16 rest)) as [pt|] eqn:Eo; [|exact I].
      apply (ul_open UL) in Eo. rewrite lenN_dropN in Eo. unfold TAG in Eo. lia.
    - cbn [bind].
      destruct (udp_cipher_key_aes_ok UL (uc_kind cx) (uc_key cx) (be (takeN 8 dec)) Hk) as [ck ->]. cbn [bind].
      destruct (p_open P _ ck _ [] rest) as [pt|] eqn:Eo; [|exact I].
      apply (ul_open UL) in Eo. unfold TAG in Eo. lia.
  Qed.

  Lemma udp_open_xc_no_panic (UL : udp_lens) cx src :
    support_eih (uc_kind cx) = false -> 32 <= lenN (uc_key cx) -> udp_header_length cx <= lenN src ->
    match udp_open_xc P cx src with
    | Panic => False
    | Err _ => True
    | Ok (_, _, _, pt) => parse_min (uc_mode cx) <= lenN pt
    end.
  Proof.
    intros Hk Hkey Hlen. rewrite <- udp_header_length_ge in Hlen. unfold udp_nonce_len in Hlen. rewrite Hk in Hlen.
    assert (Hreq : udp_require_eih cx = false).
    { unfold udp_require_eih. rewrite Hk. destruct (uc_mode cx); reflexivity. }
    rewrite Hreq in Hlen.
    unfold udp_open_xc. rewrite split_to_ok by lia. cbn [bind].
    set (text := dropN 24 src). assert (Ht : lenN text = lenN src - 24) by apply lenN_dropN.
    destruct (N.ltb_spec (lenN text) 8); [lia|].
    rewrite udp_cipher_key_xc_ok by assumption. cbn [bind].
    destruct (p_open P _ _ _ [] text) as [pt|] eqn:Eo; [|exact I].
    apply (ul_open UL) in Eo. unfold TAG in Eo.
    rewrite get_u64_ok by lia. cbn [bind]. rewrite get_u64_ok by (rewrite lenN_dropN; lia). cbn [bind].
    rewrite !lenN_dropN. lia.
  Qed.

  (* The key-length premise is what the configuration layer guarantees (keys are [u8; N]); the Rust code
     slices `key[..32]` (XChaCha kinds) / the HKDF output `[..KeySize]` (legacy kinds) without a check.
     For the 2022 AES kinds NO premise on the key is needed: a wrong length is an error return. *)
  Theorem ssu_decode_no_panic (UL : udp_lens) cx now src :
    (support_eih (uc_kind cx) = false -> kind_n (uc_kind cx) <= lenN (uc_key cx)) ->
    ssu_decode P cx now src <> Panic.
  Proof.
    intros Hkey. unfold ssu_decode. destruct (is_2022 (uc_kind cx)) eqn:E22.
    - unfold ssu_decode_2022. destruct (N.ltb_spec (lenN src) (udp_header_length cx)) as [|Hlen]; [discriminate|].
      destruct (support_eih (uc_kind cx)) eqn:Ek.
      + pose proof (udp_open_aes_no_panic UL cx src Ek Hlen) as H.
        destruct (udp_open_aes P cx (udp_require_eih cx) src) as [[[[sid pid] u] pt]|e|]; cbn [bind]; [|discriminate|contradiction].
        apply udp_parse_no_panic. exact H.
      + assert (Hk32 : 32 <= lenN (uc_key cx)).
        { specialize (Hkey eq_refl). destruct (uc_kind cx); cbn [is_2022 support_eih kind_n] in *; try discriminate; exact Hkey. }
        pose proof (udp_open_xc_no_panic UL cx src Ek Hk32 Hlen) as H.
        destruct (udp_open_xc P cx src) as [[[[sid pid] u] pt]|e|]; cbn [bind]; [|discriminate|contradiction].
        apply udp_parse_no_panic. exact H.
    - unfold ssu_decode_legacy.
      destruct (N.ltb_spec (lenN src) (lenN (uc_key cx))) as [|Hlen]; [discriminate|].
      rewrite split_to_ok by assumption. cbn [bind].
      destruct (HKDF_SHA1_MAX <? lenN (uc_key cx)); [discriminate|].
      assert (Ek : support_eih (uc_kind cx) = false) by (destruct (uc_kind cx); cbn in *; congruence).
      specialize (Hkey Ek).
      unfold new_auth_legacy, auth_new. rewrite (ul_hkdf UL), lenN_takeN by assumption.
      rewrite key_size_kind. destruct (N.ltb_spec (lenN (uc_key cx)) (kind_n (uc_kind cx))); [lia|]. cbn [bind].
      unfold decode_packet. destruct (fst (auth_open P _ _)); cbn [bind]; [|discriminate].
      apply bind_no_panic; [apply s5_decode_total|]. intros [a r] _. discriminate.
  Qed.

  Corollary ssu_session_decode_no_panic (UL : udp_lens) cx now src :
    (support_eih (uc_kind cx) = false -> kind_n (uc_kind cx) <= lenN (uc_key cx)) ->
    ssu_session_decode P cx now src <> Panic.
  Proof.
    intros Hkey. unfold ssu_session_decode. destruct src as [|x t]; [discriminate|].
    apply bind_no_panic; [apply ssu_decode_no_panic; assumption|]. intros r _. discriminate.
  Qed.

  (* ============================================================================================ *)
  (* (ii) round trips and (iii) type / time rules                                                  *)
  (* ============================================================================================ *)
  Hypothesis PL : prim_laws P.

  Lemma split_to_app_len n (a b : bytes) : lenN a = n -> split_to n (a ++ b) = Ok (a, b).
  Proof. intros <-. apply split_to_app. Qed.
  Lemma advance_app (a b : bytes) : advance (lenN a) (a ++ b) = Ok b.
  Proof. rewrite advance_ok by (rewrite lenN_app; lia). rewrite dropN_app_exact. reflexivity. Qed.
  Lemma get_u64_put_nil v : v < 2 ^ 64 -> get_u64 (put_u64 v) = Ok (v, []).
  Proof. intros H. rewrite <- (app_nil_r (put_u64 v)). apply get_u64_put. exact H. Qed.
  Lemma lenN_sidpid sid pid : lenN (put_u64 sid ++ put_u64 pid) = 16.
  Proof. rewrite lenN_app, !lenN_put_u64. reflexivity. Qed.

  (* ---- the common tail ---- *)
  Definition client_body (now : N) (pad : bytes) (a : addr) (item : bytes) : bytes :=
    [mode_to_u8 Client] ++ put_u64 now ++ put_u16 (lenN pad) ++ pad ++ s5_encode a ++ item.
  Definition server_body (now csid : N) (pad : bytes) (a : addr) (item : bytes) : bytes :=
    [mode_to_u8 Server] ++ put_u64 now ++ put_u64 csid ++ put_u16 (lenN pad) ++ pad ++ s5_encode a ++ item.

  Lemma pad_tail_ok pad a item : lenN pad < 65536 -> addr_wf a -> representable a ->
    forall (K : bytes * addr -> res (bytes * addr * usess)),
    (let* (padlen, p) := get_u16 (put_u16 (lenN pad) ++ pad ++ s5_encode a ++ item) in
     if lenN p <? padlen then Err EShort else
     let* p := advance padlen p in
     let* (a', p) := s5_decode p in K (p, a')) = K (item, a).
  Proof.
    intros Hp Hw Hr K. rewrite get_u16_put by assumption. cbn [bind].
    rewrite lenN_app. destruct (N.ltb_spec (lenN pad + lenN (s5_encode a ++ item)) (lenN pad)); [lia|].
    rewrite advance_app. cbn [bind]. rewrite s5_roundtrip by assumption. reflexivity.
  Qed.

  (* a client packet's body read by a server *)
  Lemma udp_parse_server_fresh now' now pad a item sid pid u :
    now < 2 ^ 64 -> lenN pad < 65536 -> addr_wf a -> representable a -> abs_diff now' now <= 30 ->
    udp_parse Server now' sid pid u (client_body now pad a item)
    = Ok (item, a, {| us_csid := sid; us_ssid := 0; us_pid := pid; us_user := u |}).
  Proof.
    intros Hn Hp Hw Hr Ht. unfold udp_parse, client_body. cbn [mode_to_u8 app get_u8 bind mode_expect_u8 N.eqb negb].
    rewrite get_u64_put by assumption. cbn [bind].
    rewrite (proj2 (validate_timestamp_spec now' now) Ht). cbn [negb].
    apply (pad_tail_ok pad a item Hp Hw Hr (fun '(p, a') => Ok (p, a', _))).
  Qed.
  Lemma udp_parse_server_stale now' now pad a item sid pid u :
    now < 2 ^ 64 -> 30 < abs_diff now' now ->
    udp_parse Server now' sid pid u (client_body now pad a item) = Err EBadTime.
  Proof.
    intros Hn Ht. unfold udp_parse, client_body. cbn [mode_to_u8 app get_u8 bind mode_expect_u8 N.eqb negb].
    rewrite get_u64_put by assumption. cbn [bind].
    destruct (validate_timestamp now' now) eqn:E; [apply validate_timestamp_spec in E; lia|]. reflexivity.
  Qed.
  (* a server packet's body read by a client *)
  Lemma udp_parse_client_fresh now' now csid pad a item sid pid u :
    now < 2 ^ 64 -> csid < 2 ^ 64 -> lenN pad < 65536 -> addr_wf a -> representable a -> abs_diff now' now <= 30 ->
    udp_parse Client now' sid pid u (server_body now csid pad a item)
    = Ok (item, a, {| us_csid := csid; us_ssid := sid; us_pid := pid; us_user := None |}).
  Proof.
    intros Hn Hc Hp Hw Hr Ht. unfold udp_parse, server_body. cbn [mode_to_u8 app get_u8 bind mode_expect_u8 N.eqb Pos.eqb negb].
    rewrite get_u64_put by assumption. cbn [bind].
    rewrite (proj2 (validate_timestamp_spec now' now) Ht). cbn [negb].
    rewrite get_u64_put by assumption. cbn [bind].
    apply (pad_tail_ok pad a item Hp Hw Hr (fun '(p, a') => Ok (p, a', _))).
  Qed.
  Lemma udp_parse_client_stale now' now csid pad a item sid pid u :
    now < 2 ^ 64 -> 30 < abs_diff now' now ->
    udp_parse Client now' sid pid u (server_body now csid pad a item) = Err EBadTime.
  Proof.
    intros Hn Ht. unfold udp_parse, server_body. cbn [mode_to_u8 app get_u8 bind mode_expect_u8 N.eqb Pos.eqb negb].
    rewrite get_u64_put by assumption. cbn [bind].
    destruct (validate_timestamp now' now) eqn:E; [apply validate_timestamp_spec in E; lia|]. reflexivity.
  Qed.

  (* (iii) whatever is accepted carries the expected type byte and a timestamp inside the window *)
  Theorem udp_parse_accept m now sid pid u pt r : udp_parse m now sid pid u pt = Ok r ->
    exists tl, pt = mode_expect_u8 m :: tl /\ 8 <= lenN tl /\ abs_diff now (be (takeN 8 tl)) <= 30.
  Proof.
    unfold udp_parse. destruct pt as [|ty tl]; [discriminate|]. cbn [get_u8 bind].
    destruct (N.eqb_spec ty (mode_expect_u8 m)) as [->|]; cbn [negb]; [|discriminate].
    intros H. exists tl. split; [reflexivity|].
    destruct (get_u64 tl) as [[ts p]|e|] eqn:Eg; cbn [bind] in H; try discriminate.
    apply get_be_inv in Eg. destruct Eg as (Hl & -> & ->).
    destruct (validate_timestamp now (be (takeN 8 tl))) eqn:Ev; cbn [negb] in H; [|discriminate].
    apply validate_timestamp_spec in Ev. auto.
  Qed.
  Theorem udp_parse_wrong_type m now sid pid u ty tl : ty <> mode_expect_u8 m ->
    udp_parse m now sid pid u (ty :: tl) = Err EBadType.
  Proof.
    intros H. unfold udp_parse. cbn [get_u8 bind]. destruct (N.eqb_spec ty (mode_expect_u8 m)); [contradiction|]. reflexivity.
  Qed.
  (* reflection at the level of the authenticated plaintext: a body made by a client is refused by a client, etc. *)
  Corollary udp_parse_reflected_client now' now pad a item sid pid u :
    udp_parse Client now' sid pid u (client_body now pad a item) = Err EBadType.
  Proof. apply udp_parse_wrong_type. cbn. discriminate. Qed.
  Corollary udp_parse_reflected_server now' now csid pad a item sid pid u :
    udp_parse Server now' sid pid u (server_body now csid pad a item) = Err EBadType.
  Proof. apply udp_parse_wrong_type. cbn. discriminate. Qed.

  (* the plaintext the decoder authenticates: what `decrypt_message` / the match in decode_client_packet returns *)
  Definition udp_opened (cx : uctx) (src : bytes) : res (N * N * option user * bytes) :=
    if support_eih (uc_kind cx) then udp_open_aes P cx (udp_require_eih cx) src else udp_open_xc P cx src.

  Theorem accepted_2022_typed_and_fresh cx now src r :
    is_2022 (uc_kind cx) = true -> ssu_decode P cx now src = Ok r ->
    exists sid pid u tl,
      udp_opened cx src = Ok (sid, pid, u, mode_expect_u8 (uc_mode cx) :: tl) /\
      8 <= lenN tl /\ abs_diff now (be (takeN 8 tl)) <= 30.
  Proof.
    intros E22 H. unfold ssu_decode in H. rewrite E22 in H. unfold ssu_decode_2022 in H.
    destruct (lenN src <? udp_header_length cx); [discriminate|].
    fold (udp_opened cx src) in H.
    destruct (udp_opened cx src) as [[[[sid pid] u] pt]|e|]; cbn [bind] in H; try discriminate.
    destruct (udp_parse_accept _ _ _ _ _ _ _ H) as (tl & -> & H1 & H2).
    exists sid, pid, u, tl. auto.
  Qed.

  (* ---- opening what was sealed: AES kinds ---- *)
  Lemma aes_block_enc_ok k key b : lenN key = aes_keylen k -> lenN b = 16 -> aes_block_enc P k key b = Ok (p_aes_enc P key b).
  Proof. intros Hk Hb. unfold aes_block_enc. rewrite Hk, Hb, N.eqb_refl. reflexivity. Qed.
  Lemma aes_block_dec_enc (UL : udp_lens) k key b : lenN key = aes_keylen k -> lenN b = 16 ->
    aes_block_dec P k key (p_aes_enc P key b) = Ok b.
  Proof.
    intros Hk Hb. unfold aes_block_dec. rewrite Hk, N.eqb_refl, (ul_aes_enc UL) by assumption.
    cbn [N.eqb Pos.eqb negb]. rewrite (aes_dec_enc P PL). reflexivity.
  Qed.

  Lemma nonce_of_sidpid sid pid : takeN 12 (dropN 4 (put_u64 sid ++ put_u64 pid)) = udp_aes_nonce sid pid.
  Proof. apply takeN_all. fold (udp_aes_nonce sid pid). rewrite udp_aes_nonce_len. lia. Qed.

  Lemma udp_open_aes_plain (UL : udp_lens) cx sid pid ck body :
    lenN (uc_key cx) = aes_keylen (uc_kind cx) -> sid < 2 ^ 64 -> pid < 2 ^ 64 ->
    udp_cipher_key P (uc_kind cx) (uc_key cx) sid = Ok ck ->
    udp_open_aes P cx false
      (p_aes_enc P (uc_key cx) (put_u64 sid ++ put_u64 pid) ++
       p_seal P (udp_cipher_id (uc_kind cx)) ck (udp_aes_nonce sid pid) [] body)
    = Ok (sid, pid, None, body).
  Proof.
    intros Hk Hs Hp Hck. unfold udp_open_aes.
    rewrite split_to_app_len by (apply (ul_aes_enc UL), lenN_sidpid). cbn [bind].
    rewrite aes_block_dec_enc by (assumption || apply lenN_sidpid). cbn [bind].
    rewrite lenN_sidpid. cbn [N.ltb N.compare Pos.compare Pos.compare_cont bind].
    rewrite get_u64_put by assumption. cbn [bind]. rewrite get_u64_put_nil by assumption. cbn [bind].
    rewrite Hck. cbn [bind]. rewrite nonce_of_sidpid, (open_seal P PL). reflexivity.
  Qed.

  Lemma udp_open_aes_eih (UL : udp_lens) cx us u h16 sid pid ck body :
    lenN (uc_key cx) = aes_keylen (uc_kind cx) -> sid < 2 ^ 64 -> pid < 2 ^ 64 ->
    uc_users cx = Some us -> find_user us h16 = Some u -> lenN h16 = 16 ->
    udp_cipher_key P (uc_kind cx) (u_key u) sid = Ok ck ->
    udp_open_aes P cx true
      (p_aes_enc P (uc_key cx) (put_u64 sid ++ put_u64 pid) ++
       p_aes_enc P (uc_key cx) (xor_into h16 (put_u64 sid ++ put_u64 pid)) ++
       p_seal P (udp_cipher_id (uc_kind cx)) ck (udp_aes_nonce sid pid) [] body)
    = Ok (sid, pid, Some u, body).
  Proof.
    intros Hk Hs Hp Hus Hf Hh Hck. unfold udp_open_aes.
    rewrite split_to_app_len by (apply (ul_aes_enc UL), lenN_sidpid). cbn [bind].
    rewrite aes_block_dec_enc by (assumption || apply lenN_sidpid). cbn [bind].
    rewrite lenN_sidpid. cbn [N.ltb N.compare Pos.compare Pos.compare_cont bind].
    rewrite get_u64_put by assumption. cbn [bind]. rewrite get_u64_put_nil by assumption. cbn [bind].
    assert (Hx : lenN (xor_into h16 (put_u64 sid ++ put_u64 pid)) = 16) by (rewrite lenN_xor_into; exact Hh).
    rewrite split_to_app_len by (apply (ul_aes_enc UL), Hx). cbn [bind].
    rewrite aes_block_dec_enc by assumption. cbn [bind].
    rewrite xor_into_involutive, Hus, Hf. cbn [bind]. rewrite Hck. cbn [bind].
    rewrite nonce_of_sidpid, (open_seal P PL). reflexivity.
  Qed.

  (* ---- opening what was sealed: XChaCha kinds ---- *)
  Lemma udp_open_xc_sealed cx rnd sid pid body :
    support_eih (uc_kind cx) = false -> 32 <= lenN (uc_key cx) -> lenN rnd = 24 -> sid < 2 ^ 64 -> pid < 2 ^ 64 ->
    udp_open_xc P cx (rnd ++ p_seal P (udp_cipher_id (uc_kind cx)) (takeN 32 (uc_key cx)) rnd [] ((put_u64 sid ++ put_u64 pid) ++ body))
    = Ok (sid, pid, None, body).
  Proof.
    intros Hk Hkey Hr Hs Hp. unfold udp_open_xc. rewrite split_to_app_len by assumption. cbn [bind].
    rewrite (seal_len P PL), !lenN_app, !lenN_put_u64. unfold TAG.
    destruct (N.ltb_spec (8 + 8 + lenN body + 16) 8); [lia|].
    rewrite udp_cipher_key_xc_ok by assumption. cbn [bind]. rewrite (open_seal P PL).
    rewrite <- !app_assoc. rewrite get_u64_put by assumption. cbn [bind]. rewrite get_u64_put by assumption. reflexivity.
  Qed.

  Lemma header_check_passes cx (w : bytes) : udp_header_length cx <= lenN w -> (lenN w <? udp_header_length cx) = false.
  Proof. intros H. apply N.ltb_ge. exact H. Qed.

  Lemma lenN_client_body now pad a item : lenN (client_body now pad a item) = 1 + 8 + 2 + lenN pad + lenN (s5_encode a) + lenN item.
  Proof. unfold client_body. rewrite !lenN_app, lenN_put_u64, lenN_put_u16. cbn [lenN lenN_acc mode_to_u8]. lia. Qed.
  Lemma lenN_server_body now csid pad a item : lenN (server_body now csid pad a item) = 1 + 8 + 8 + 2 + lenN pad + lenN (s5_encode a) + lenN item.
  Proof. unfold server_body. rewrite !lenN_app, !lenN_put_u64, lenN_put_u16. cbn [lenN lenN_acc mode_to_u8]. lia. Qed.

  Lemma aes_is_2022 k : support_eih k = true -> is_2022 k = true.
  Proof. destruct k; cbn; congruence. Qed.

  (* ---------------- the wire of each case, and what the peer's decoder makes of it ---------------- *)

  (* 2022 AES, client -> server, no identity keys *)
  Lemma wire_aes_client_plain (UL : udp_lens) cx dcx now now' rnd pad s a item :
    support_eih (uc_kind cx) = true -> uc_mode cx = Client -> uc_ikeys cx = [] ->
    uc_kind dcx = uc_kind cx -> uc_mode dcx = Server -> uc_key dcx = uc_key cx ->
    (uc_users dcx = None \/ uc_users dcx = Some []) ->
    lenN (uc_key cx) = aes_keylen (uc_kind cx) -> us_csid s < 2 ^ 64 -> us_pid s < 2 ^ 64 ->
    exists w, ssu_encode P cx now rnd pad s a item = Ok w /\
              ssu_decode P dcx now' w = udp_parse Server now' (us_csid s) (us_pid s) None (client_body now pad a item).
  Proof.
    intros Hk Hm Hik Hdk Hdm Hdkey Hus Hkl Hc Hp.
    destruct (udp_cipher_key_aes_ok UL (uc_kind cx) (uc_key cx) (us_csid s) Hk) as [ck Hck].
    unfold ssu_encode. rewrite (aes_is_2022 _ Hk), Hm. unfold ssu_encode_client. rewrite Hk, Hik. cbn [andb bind].
    rewrite aes_block_enc_ok by (assumption || apply lenN_sidpid). cbn [bind]. rewrite Hck. cbn [bind].
    change (takeN 0 []) with (@nil N). change (dropN 0 [] ++ ?x) with x. change (@nil N ++ ?x) with x.
    fold (client_body now pad a item). fold (udp_aes_nonce (us_csid s) (us_pid s)).
    eexists. split; [reflexivity|].
    unfold ssu_decode. rewrite Hdk, (aes_is_2022 _ Hk). unfold ssu_decode_2022.
    assert (Hreq : udp_require_eih dcx = false).
    { unfold udp_require_eih. rewrite Hdm. destruct Hus as [-> | ->]; apply andb_false_r. }
    rewrite header_check_passes.
    2:{ unfold udp_header_length, udp_nonce_len. rewrite Hreq, Hdm, Hdk, Hk. rewrite lenN_app, (ul_aes_enc UL) by apply lenN_sidpid.
        rewrite (seal_len P PL). rewrite lenN_client_body. unfold TAG. lia. }
    rewrite Hdk, Hk, Hreq.
    rewrite <- Hdkey, <- Hdk. rewrite udp_open_aes_plain; try assumption.
    - cbn [bind]. rewrite Hdm. reflexivity.
    - rewrite Hdk, Hdkey. exact Hkl.
    - rewrite Hdk, Hdkey. exact Hck.
  Qed.

  (* 2022 AES, client -> server, one identity key; the server's table contains the client's user *)
  Lemma wire_aes_client_eih (UL : udp_lens) cx dcx ik us u now now' rnd pad s a item :
    support_eih (uc_kind cx) = true -> uc_mode cx = Client -> uc_ikeys cx = [ik] ->
    uc_kind dcx = uc_kind cx -> uc_mode dcx = Server -> uc_key dcx = ik -> uc_users dcx = Some us ->
    find_user us (takeN 16 (p_b3hash P (uc_key cx))) = Some u -> u_key u = uc_key cx ->
    lenN ik = aes_keylen (uc_kind cx) -> us_csid s < 2 ^ 64 -> us_pid s < 2 ^ 64 ->
    exists w, ssu_encode P cx now rnd pad s a item = Ok w /\
              ssu_decode P dcx now' w = udp_parse Server now' (us_csid s) (us_pid s) (Some u) (client_body now pad a item).
  Proof.
    intros Hk Hm Hik Hdk Hdm Hdkey Hus Hf Hu Hkl Hc Hp.
    destruct (udp_cipher_key_aes_ok UL (uc_kind cx) (uc_key cx) (us_csid s) Hk) as [ck Hck].
    set (sidpid := put_u64 (us_csid s) ++ put_u64 (us_pid s)).
    set (h16 := takeN 16 (p_b3hash P (uc_key cx))).
    assert (Hh : lenN h16 = 16) by (apply lenN_takeN; rewrite (ul_b3hash UL); lia).
    assert (Hx : lenN (xor_into h16 sidpid) = 16) by (rewrite lenN_xor_into; exact Hh).
    unfold ssu_encode. rewrite (aes_is_2022 _ Hk), Hm. unfold ssu_encode_client. rewrite Hk, Hik. cbn [andb udp_with_eih bind].
    unfold lenN_ikeys. cbn [List.length]. change (16 * N.of_nat 1) with 16.
    unfold udp_make_eih. rewrite (ul_b3hash UL). cbn [N.ltb N.compare Pos.compare Pos.compare_cont].
    fold h16. fold sidpid.
    rewrite aes_block_enc_ok by assumption. cbn [bind]. rewrite app_nil_r.
    rewrite aes_block_enc_ok by (assumption || apply lenN_sidpid). cbn [bind]. rewrite Hck. cbn [bind].
    assert (He1 : lenN (p_aes_enc P ik (xor_into h16 sidpid)) = 16) by (apply (ul_aes_enc UL); exact Hx).
    rewrite (takeN_all 16 (p_aes_enc P ik (xor_into h16 sidpid))) by lia.
    rewrite (dropN_all 16 (p_aes_enc P ik (xor_into h16 sidpid))) by lia.
    change (@nil N ++ ?x) with x.
    fold (client_body now pad a item). unfold sidpid at 3. fold (udp_aes_nonce (us_csid s) (us_pid s)).
    eexists. split; [reflexivity|].
    unfold ssu_decode. rewrite Hdk, (aes_is_2022 _ Hk). unfold ssu_decode_2022.
    assert (Hne : exists u0 t, us = u0 :: t).
    { destruct us as [|u0 t]; [discriminate Hf|]. eauto. }
    assert (Hreq : udp_require_eih dcx = true).
    { unfold udp_require_eih. rewrite Hdm, Hdk, Hk, Hus. destruct Hne as (u0 & t & ->). reflexivity. }
    rewrite header_check_passes.
    2:{ unfold udp_header_length, udp_nonce_len. rewrite Hreq, Hdm, Hdk, Hk. rewrite !lenN_app, !(ul_aes_enc UL) by (assumption || apply lenN_sidpid).
        rewrite (seal_len P PL). rewrite lenN_client_body. unfold TAG. lia. }
    rewrite Hdk, Hk, Hreq. rewrite <- Hdkey, <- Hdk. unfold sidpid.
    rewrite (udp_open_aes_eih UL dcx us u h16); try assumption.
    - cbn [bind]. rewrite Hdm. reflexivity.
    - rewrite Hdk, Hdkey. exact Hkl.
    - rewrite Hdk, Hu. exact Hck.
  Qed.

  (* 2022 AES, server -> client: the header key and the body key are the user's key when the session has a user *)
  Lemma wire_aes_server (UL : udp_lens) cx dcx now now' rnd pad s a item :
    support_eih (uc_kind cx) = true -> uc_mode cx = Server ->
    uc_kind dcx = uc_kind cx -> uc_mode dcx = Client ->
    uc_key dcx = (match us_user s with Some u => u_key u | None => uc_key cx end) ->
    lenN (uc_key dcx) = aes_keylen (uc_kind cx) -> us_ssid s < 2 ^ 64 -> us_pid s < 2 ^ 64 ->
    exists w, ssu_encode P cx now rnd pad s a item = Ok w /\
              ssu_decode P dcx now' w = udp_parse Client now' (us_ssid s) (us_pid s) None (server_body now (us_csid s) pad a item).
  Proof.
    intros Hk Hm Hdk Hdm Hdkey Hkl Hc Hp.
    destruct (udp_cipher_key_aes_ok UL (uc_kind cx) (uc_key dcx) (us_ssid s) Hk) as [ck Hck].
    unfold ssu_encode. rewrite (aes_is_2022 _ Hk), Hm. unfold ssu_encode_server. rewrite Hk, <- Hdkey.
    rewrite aes_block_enc_ok by (assumption || apply lenN_sidpid). cbn [bind]. rewrite Hck. cbn [bind].
    fold (server_body now (us_csid s) pad a item). fold (udp_aes_nonce (us_ssid s) (us_pid s)).
    eexists. split; [reflexivity|].
    unfold ssu_decode. rewrite Hdk, (aes_is_2022 _ Hk). unfold ssu_decode_2022.
    assert (Hreq : udp_require_eih dcx = false) by (unfold udp_require_eih; rewrite Hdm; reflexivity).
    rewrite header_check_passes.
    2:{ unfold udp_header_length, udp_nonce_len. rewrite Hreq, Hdm, Hdk, Hk. rewrite lenN_app, (ul_aes_enc UL) by apply lenN_sidpid.
        rewrite (seal_len P PL). rewrite lenN_server_body. unfold TAG. lia. }
    rewrite Hdk, Hk, Hreq. rewrite <- Hdk. rewrite udp_open_aes_plain; try assumption.
    - cbn [bind]. rewrite Hdm. reflexivity.
    - rewrite Hdk. exact Hkl.
    - rewrite Hdk. exact Hck.
  Qed.

  Lemma xc_is_not_aes k : is_2022 k = true -> support_eih k = false -> k = K22_CC8 \/ k = K22_CC20.
  Proof. destruct k; cbn; intros; try discriminate; auto. Qed.

  (* 2022 XChaCha, client -> server *)
  Lemma wire_xc_client cx dcx now now' rnd pad s a item :
    is_2022 (uc_kind cx) = true -> support_eih (uc_kind cx) = false -> uc_mode cx = Client ->
    uc_kind dcx = uc_kind cx -> uc_mode dcx = Server -> uc_key dcx = uc_key cx ->
    32 <= lenN (uc_key cx) -> lenN rnd = 24 -> us_csid s < 2 ^ 64 -> us_pid s < 2 ^ 64 ->
    exists w, ssu_encode P cx now rnd pad s a item = Ok w /\
              ssu_decode P dcx now' w = udp_parse Server now' (us_csid s) (us_pid s) None (client_body now pad a item).
  Proof.
    intros E22 Hk Hm Hdk Hdm Hdkey Hkl Hr Hc Hp.
    unfold ssu_encode. rewrite E22, Hm. unfold ssu_encode_client. rewrite Hk. cbn [andb bind].
    rewrite udp_cipher_key_xc_ok by assumption. cbn [bind].
    fold (client_body now pad a item).
    eexists. split; [reflexivity|].
    unfold ssu_decode. rewrite Hdk, E22. unfold ssu_decode_2022.
    assert (Hreq : udp_require_eih dcx = false) by (unfold udp_require_eih; rewrite Hdm, Hdk, Hk; reflexivity).
    rewrite header_check_passes.
    2:{ unfold udp_header_length, udp_nonce_len. rewrite Hreq, Hdm, Hdk, Hk. rewrite lenN_app, Hr.
        rewrite (seal_len P PL). rewrite lenN_app, lenN_sidpid, lenN_client_body. unfold TAG. lia. }
    rewrite Hdk, Hk. rewrite <- Hdk, <- Hdkey. rewrite udp_open_xc_sealed; try assumption.
    - cbn [bind]. rewrite Hdm. reflexivity.
    - rewrite Hdk. exact Hk.
    - rewrite Hdkey. exact Hkl.
  Qed.

  (* 2022 XChaCha, server -> client (the session's user plays no role for these kinds) *)
  Lemma wire_xc_server cx dcx now now' rnd pad s a item :
    is_2022 (uc_kind cx) = true -> support_eih (uc_kind cx) = false -> uc_mode cx = Server ->
    uc_kind dcx = uc_kind cx -> uc_mode dcx = Client -> uc_key dcx = uc_key cx ->
    32 <= lenN (uc_key cx) -> lenN rnd = 24 -> us_ssid s < 2 ^ 64 -> us_pid s < 2 ^ 64 ->
    exists w, ssu_encode P cx now rnd pad s a item = Ok w /\
              ssu_decode P dcx now' w = udp_parse Client now' (us_ssid s) (us_pid s) None (server_body now (us_csid s) pad a item).
  Proof.
    intros E22 Hk Hm Hdk Hdm Hdkey Hkl Hr Hc Hp.
    unfold ssu_encode. rewrite E22, Hm. unfold ssu_encode_server. rewrite Hk.
    rewrite udp_cipher_key_xc_ok by assumption. cbn [bind].
    fold (server_body now (us_csid s) pad a item).
    eexists. split; [reflexivity|].
    unfold ssu_decode. rewrite Hdk, E22. unfold ssu_decode_2022.
    assert (Hreq : udp_require_eih dcx = false) by (unfold udp_require_eih; rewrite Hdm; reflexivity).
    rewrite header_check_passes.
    2:{ unfold udp_header_length, udp_nonce_len. rewrite Hreq, Hdm, Hdk, Hk. rewrite lenN_app, Hr.
        rewrite (seal_len P PL). rewrite lenN_app, lenN_sidpid, lenN_server_body. unfold TAG. lia. }
    rewrite Hdk, Hk. rewrite <- Hdk, <- Hdkey. rewrite udp_open_xc_sealed; try assumption.
    - cbn [bind]. rewrite Hdm. reflexivity.
    - rewrite Hdk. exact Hk.
    - rewrite Hdkey. exact Hkl.
  Qed.

  (* ---------------- (ii) the round-trip theorems ---------------- *)

  (* legacy kinds, either direction: salt ‖ seal(hkdf(key, salt), nonce 0, addr ‖ payload) *)
  Theorem roundtrip_legacy (UL : udp_lens) cx dcx now now' rnd pad s a item :
    is_2022 (uc_kind cx) = false -> uc_kind dcx = uc_kind cx -> uc_key dcx = uc_key cx ->
    lenN rnd = lenN (uc_key cx) -> kind_n (uc_kind cx) <= lenN rnd -> lenN rnd <= 5100 ->
    addr_wf a -> representable a ->
    exists w, ssu_encode P cx now rnd pad s a item = Ok w /\
              ssu_decode P dcx now' w = Ok (item, a, usess_default).
  Proof.
    intros E22 Hdk Hdkey Hr Hn Hmax Hw Hrep.
    assert (Hau : exists au, new_auth_legacy P (uc_kind cx) (uc_key cx) rnd = Ok au).
    { unfold new_auth_legacy, auth_new. rewrite (ul_hkdf UL), key_size_kind.
      destruct (N.ltb_spec (lenN rnd) (kind_n (uc_kind cx))); [lia|]. eexists; reflexivity. }
    destruct Hau as [au Hau].
    unfold ssu_encode. rewrite E22. unfold ssu_encode_legacy.
    change HKDF_SHA1_MAX with 5100. destruct (N.ltb_spec 5100 (lenN rnd)); [lia|].
    rewrite Hau. cbn [bind]. eexists. split; [reflexivity|].
    unfold ssu_decode. rewrite Hdk, E22. unfold ssu_decode_legacy. rewrite Hdkey, <- Hr.
    rewrite lenN_app. destruct (N.ltb_spec (lenN rnd + lenN (encode_packet P au (s5_encode a ++ item))) (lenN rnd)); [lia|].
    rewrite split_to_app. cbn [bind].
    change HKDF_SHA1_MAX with 5100. destruct (N.ltb_spec 5100 (lenN rnd)); [lia|].
    rewrite Hdk, Hau. cbn [bind].
    unfold decode_packet, encode_packet, auth_open, auth_seal. cbn [fst]. rewrite (open_seal P PL). cbn [bind].
    rewrite s5_roundtrip by assumption. reflexivity.
  Qed.

  Section Fresh.
    Variables (now now' : N) (pad : bytes) (a : addr) (item : bytes).
    Hypothesis Hnow : now < 2 ^ 64.
    Hypothesis Hpad : lenN pad < 65536.          (* the encoder draws at most 900 bytes *)
    Hypothesis Hwf : addr_wf a.
    Hypothesis Hrep : representable a.

    Theorem roundtrip_aes_client_plain (UL : udp_lens) cx dcx rnd s :
      support_eih (uc_kind cx) = true -> uc_mode cx = Client -> uc_ikeys cx = [] ->
      uc_kind dcx = uc_kind cx -> uc_mode dcx = Server -> uc_key dcx = uc_key cx ->
      (uc_users dcx = None \/ uc_users dcx = Some []) ->
      lenN (uc_key cx) = aes_keylen (uc_kind cx) -> us_csid s < 2 ^ 64 -> us_pid s < 2 ^ 64 ->
      exists w, ssu_encode P cx now rnd pad s a item = Ok w /\
        (abs_diff now' now <= 30 ->
         ssu_decode P dcx now' w = Ok (item, a, {| us_csid := us_csid s; us_ssid := 0; us_pid := us_pid s; us_user := None |})) /\
        (30 < abs_diff now' now -> ssu_decode P dcx now' w = Err EBadTime).
    Proof.
      intros. destruct (wire_aes_client_plain UL cx dcx now now' rnd pad s a item) as (w & He & Hd); try assumption.
      exists w. split; [exact He|]. rewrite Hd. split; intros Ht.
      - apply udp_parse_server_fresh; assumption.
      - apply udp_parse_server_stale; assumption.
    Qed.

    Theorem roundtrip_aes_client_eih (UL : udp_lens) cx dcx ik us u rnd s :
      support_eih (uc_kind cx) = true -> uc_mode cx = Client -> uc_ikeys cx = [ik] ->
      uc_kind dcx = uc_kind cx -> uc_mode dcx = Server -> uc_key dcx = ik -> uc_users dcx = Some us ->
      find_user us (takeN 16 (p_b3hash P (uc_key cx))) = Some u -> u_key u = uc_key cx ->
      lenN ik = aes_keylen (uc_kind cx) -> us_csid s < 2 ^ 64 -> us_pid s < 2 ^ 64 ->
      exists w, ssu_encode P cx now rnd pad s a item = Ok w /\
        (abs_diff now' now <= 30 ->
         ssu_decode P dcx now' w = Ok (item, a, {| us_csid := us_csid s; us_ssid := 0; us_pid := us_pid s; us_user := Some u |})) /\
        (30 < abs_diff now' now -> ssu_decode P dcx now' w = Err EBadTime).
    Proof.
      intros. destruct (wire_aes_client_eih UL cx dcx ik us u now now' rnd pad s a item) as (w & He & Hd); try assumption.
      exists w. split; [exact He|]. rewrite Hd. split; intros Ht.
      - apply udp_parse_server_fresh; assumption.
      - apply udp_parse_server_stale; assumption.
    Qed.

    Theorem roundtrip_aes_server (UL : udp_lens) cx dcx rnd s :
      support_eih (uc_kind cx) = true -> uc_mode cx = Server ->
      uc_kind dcx = uc_kind cx -> uc_mode dcx = Client ->
      uc_key dcx = (match us_user s with Some u => u_key u | None => uc_key cx end) ->
      lenN (uc_key dcx) = aes_keylen (uc_kind cx) -> us_csid s < 2 ^ 64 -> us_ssid s < 2 ^ 64 -> us_pid s < 2 ^ 64 ->
      exists w, ssu_encode P cx now rnd pad s a item = Ok w /\
        (abs_diff now' now <= 30 ->
         ssu_decode P dcx now' w = Ok (item, a, {| us_csid := us_csid s; us_ssid := us_ssid s; us_pid := us_pid s; us_user := None |})) /\
        (30 < abs_diff now' now -> ssu_decode P dcx now' w = Err EBadTime).
    Proof.
      intros. destruct (wire_aes_server UL cx dcx now now' rnd pad s a item) as (w & He & Hd); try assumption.
      exists w. split; [exact He|]. rewrite Hd. split; intros Ht.
      - apply udp_parse_client_fresh; assumption.
      - apply udp_parse_client_stale; assumption.
    Qed.

    Theorem roundtrip_xchacha_client cx dcx rnd s :
      is_2022 (uc_kind cx) = true -> support_eih (uc_kind cx) = false -> uc_mode cx = Client ->
      uc_kind dcx = uc_kind cx -> uc_mode dcx = Server -> uc_key dcx = uc_key cx ->
      32 <= lenN (uc_key cx) -> lenN rnd = 24 -> us_csid s < 2 ^ 64 -> us_pid s < 2 ^ 64 ->
      exists w, ssu_encode P cx now rnd pad s a item = Ok w /\
        (abs_diff now' now <= 30 ->
         ssu_decode P dcx now' w = Ok (item, a, {| us_csid := us_csid s; us_ssid := 0; us_pid := us_pid s; us_user := None |})) /\
        (30 < abs_diff now' now -> ssu_decode P dcx now' w = Err EBadTime).
    Proof.
      intros. destruct (wire_xc_client cx dcx now now' rnd pad s a item) as (w & He & Hd); try assumption.
      exists w. split; [exact He|]. rewrite Hd. split; intros Ht.
      - apply udp_parse_server_fresh; assumption.
      - apply udp_parse_server_stale; assumption.
    Qed.

    Theorem roundtrip_xchacha_server cx dcx rnd s :
      is_2022 (uc_kind cx) = true -> support_eih (uc_kind cx) = false -> uc_mode cx = Server ->
      uc_kind dcx = uc_kind cx -> uc_mode dcx = Client -> uc_key dcx = uc_key cx ->
      32 <= lenN (uc_key cx) -> lenN rnd = 24 -> us_csid s < 2 ^ 64 -> us_ssid s < 2 ^ 64 -> us_pid s < 2 ^ 64 ->
      exists w, ssu_encode P cx now rnd pad s a item = Ok w /\
        (abs_diff now' now <= 30 ->
         ssu_decode P dcx now' w = Ok (item, a, {| us_csid := us_csid s; us_ssid := us_ssid s; us_pid := us_pid s; us_user := None |})) /\
        (30 < abs_diff now' now -> ssu_decode P dcx now' w = Err EBadTime).
    Proof.
      intros. destruct (wire_xc_server cx dcx now now' rnd pad s a item) as (w & He & Hd); try assumption.
      exists w. split; [exact He|]. rewrite Hd. split; intros Ht.
      - apply udp_parse_client_fresh; assumption.
      - apply udp_parse_client_stale; assumption.
    Qed.
  End Fresh.

  (* ============================================================================================ *)
  (* (v) session level: a refused packet is simply dropped; a packet id is accepted at most once;   *)
  (*     the client never reuses a packet id                                                        *)
  (* ============================================================================================ *)
  Notation Rw := PacketWindowList.R.
  Notation accept := PacketWindow.spec_accept.

  Lemma cstate_eta st : {| cs_sess := cs_sess st; cs_filters := cs_filters st |} = st.
  Proof. destruct st; reflexivity. Qed.
  Lemma astate_eta st : set_afilter st (as_filter st) = st.
  Proof. destruct st; reflexivity. Qed.

  (* ---------------- client: DatagramPacketCodec::decode ---------------- *)
  Lemma client_dgram_decode_of_session cx rp now st src :
    client_dgram_decode P cx rp now st src =
    match ssu_session_decode P cx now src with
    | Ok (Some (content, a, s)) =>
      if rp && negb (us_csid s =? us_csid (cs_sess st)) then Ok (st, None) else
      let '(fs', ok) := (if rp then client_validate (cs_filters st) (us_ssid s) (us_pid s) else (cs_filters st, true)) in
      if ok then Ok ({| cs_sess := set_ssid (cs_sess st) (us_ssid s); cs_filters := fs' |}, Some (content, a))
      else Ok ({| cs_sess := cs_sess st; cs_filters := fs' |}, None)
    | Ok None => Ok (st, None)
    | Err e => Err e
    | Panic => Panic
    end.
  Proof.
    unfold client_dgram_decode. destruct src as [|x t]; [reflexivity|].
    destruct (ssu_session_decode P cx now (x :: t)) as [[[[c a] s]|]|e|]; reflexivity.
  Qed.

  (* a well-formed, authenticated server datagram that names ANOTHER client session id is not delivered and leaves the
     state unchanged: no window is consulted, so it cannot use up a packet id of this session *)
  Theorem client_foreign_session_datagram_dropped cx now st src content a s :
    ssu_session_decode P cx now src = Ok (Some (content, a, s)) ->
    us_csid s <> us_csid (cs_sess st) ->
    client_dgram_decode P cx true now st src = Ok (st, None).
  Proof.
    intros Hd Hne. rewrite client_dgram_decode_of_session, Hd.
    destruct (N.eqb_spec (us_csid s) (us_csid (cs_sess st))) as [E|_]; [contradiction|]. reflexivity.
  Qed.

  (* the datagrams of this client session: one step in terms of the vector of windows *)
  Lemma client_dgram_decode_own cx now st src content a s :
    ssu_session_decode P cx now src = Ok (Some (content, a, s)) ->
    us_csid s = us_csid (cs_sess st) ->
    client_dgram_decode P cx true now st src =
    if snd (client_validate (cs_filters st) (us_ssid s) (us_pid s))
    then Ok ({| cs_sess := set_ssid (cs_sess st) (us_ssid s);
                cs_filters := fst (client_validate (cs_filters st) (us_ssid s) (us_pid s)) |}, Some (content, a))
    else Ok ({| cs_sess := cs_sess st; cs_filters := fst (client_validate (cs_filters st) (us_ssid s) (us_pid s)) |}, None).
  Proof.
    intros Hd E. rewrite client_dgram_decode_of_session, Hd, E, N.eqb_refl. cbn [andb negb].
    destruct (client_validate (cs_filters st) (us_ssid s) (us_pid s)) as [fs' b]. reflexivity.
  Qed.

  (* the verdict is the specification's (set of accepted ids + window) for the window of THAT server session,
     whatever the arrival order and whatever the other server sessions' windows hold *)
  Theorem client_dgram_decode_spec cx now st n f acc src content a s :
    held (us_ssid s) f n (cs_filters st) -> Rw f acc ->
    ssu_session_decode P cx now src = Ok (Some (content, a, s)) ->
    us_csid s = us_csid (cs_sess st) ->
    exists st' f',
      client_dgram_decode P cx true now st src
        = Ok (st', if accept acc (us_pid s) U64_MAX then Some (content, a) else None) /\
      held (us_ssid s) f' n (cs_filters st') /\
      Rw f' (if accept acc (us_pid s) U64_MAX then us_pid s :: acc else acc) /\
      (accept acc (us_pid s) U64_MAX = true -> cs_sess st' = set_ssid (cs_sess st) (us_ssid s)) /\
      (accept acc (us_pid s) U64_MAX = false -> cs_sess st' = cs_sess st /\ f' = f).
  Proof.
    intros Hh HR Hd E. rewrite (client_dgram_decode_own cx now st src content a s Hd E).
    unfold client_validate. rewrite (filter_of_retained _ _ (held_in _ _ _ _ Hh)).
    destruct (held_validate_same _ _ _ _ (us_pid s) Hh) as (Hb & Hh').
    destruct (pw_validate f (us_pid s) U64_MAX) as [f' b] eqn:Hv. cbn [fst snd] in *.
    destruct (pw_validate_refines _ _ _ _ _ _ HR Hv) as (Hspec & HR' & Hsame). rewrite <- Hspec, Hb.
    destruct b; eexists; exists f'; (split; [reflexivity|]); cbn [cs_filters cs_sess]; (split; [exact Hh'|]); (split; [exact HR'|]); split;
      try discriminate; try reflexivity.
    intros _. split; [reflexivity|]. apply Hsame. reflexivity.
  Qed.

  (* a refused (duplicate / stale / over-limit) packet id yields no item and keeps the session: the state differs at most by
     filter_of having opened an (empty) window for a server session seen for the first time -- which, by
     refused_unretained_over_limit, needs a packet id >= 2^64 - 1; for a server session whose window is held the state is
     IDENTICAL *)
  Theorem refused_packet_keeps_session_client cx now st src content a s :
    windows_ok (cs_filters st) ->
    ssu_session_decode P cx now src = Ok (Some (content, a, s)) ->
    us_csid s = us_csid (cs_sess st) ->
    snd (client_validate (cs_filters st) (us_ssid s) (us_pid s)) = false ->
    client_dgram_decode P cx true now st src
      = Ok ({| cs_sess := cs_sess st; cs_filters := filter_of (cs_filters st) (us_ssid s) |}, None) /\
    (In (us_ssid s) (fkeys (cs_filters st)) -> client_dgram_decode P cx true now st src = Ok (st, None)) /\
    (~ In (us_ssid s) (fkeys (cs_filters st)) -> U64_MAX <= us_pid s).
  Proof.
    intros Hok Hd E Hrej. rewrite (client_dgram_decode_own cx now st src content a s Hd E), Hrej.
    rewrite (client_validate_refused _ _ _ Hok Hrej). split; [reflexivity|]. split.
    - intros Hin. rewrite (filter_of_retained _ _ Hin), cstate_eta. reflexivity.
    - intros Hni. exact (refused_unretained_over_limit _ _ _ Hni Hrej).
  Qed.

  (* UdpFramed: a decode error is reported and the codec (unchanged) goes on with the next datagram *)
  Fixpoint client_dgram_run (cx : uctx) (rp : bool) (now : N) (st : cstate) (srcs : list bytes)
    : cstate * list (res (option (bytes * addr))) :=
    match srcs with
    | [] => (st, [])
    | src :: t =>
      match client_dgram_decode P cx rp now st src with
      | Ok (st', o) => let '(st2, l) := client_dgram_run cx rp now st' t in (st2, Ok o :: l)
      | Err e => let '(st2, l) := client_dgram_run cx rp now st t in (st2, Err e :: l)
      | Panic => let '(st2, l) := client_dgram_run cx rp now st t in (st2, Panic :: l)
      end
    end.

  (* the following packets are judged as if the refused one had not arrived (server session whose window is held);
     in general: as if filter_of alone had run *)
  Corollary refused_packet_invisible_client cx now st src content a s rest :
    windows_ok (cs_filters st) ->
    ssu_session_decode P cx now src = Ok (Some (content, a, s)) ->
    us_csid s = us_csid (cs_sess st) ->
    snd (client_validate (cs_filters st) (us_ssid s) (us_pid s)) = false ->
    (In (us_ssid s) (fkeys (cs_filters st)) ->
     client_dgram_run cx true now st (src :: rest)
     = (fst (client_dgram_run cx true now st rest), Ok None :: snd (client_dgram_run cx true now st rest))) /\
    (let st1 := {| cs_sess := cs_sess st; cs_filters := filter_of (cs_filters st) (us_ssid s) |} in
     client_dgram_run cx true now st (src :: rest)
     = (fst (client_dgram_run cx true now st1 rest), Ok None :: snd (client_dgram_run cx true now st1 rest))).
  Proof.
    intros Hok Hd E Hrej.
    destruct (refused_packet_keeps_session_client cx now st src content a s Hok Hd E Hrej) as (Hg & Hin & _). split.
    - intros H. cbn [client_dgram_run]. rewrite (Hin H). destruct (client_dgram_run cx true now st rest). reflexivity.
    - cbn zeta. cbn [client_dgram_run]. rewrite Hg. destruct (client_dgram_run cx true now _ rest). reflexivity.
  Qed.
  Corollary foreign_session_datagram_invisible_client cx now st src content a s rest :
    ssu_session_decode P cx now src = Ok (Some (content, a, s)) ->
    us_csid s <> us_csid (cs_sess st) ->
    client_dgram_run cx true now st (src :: rest)
    = (fst (client_dgram_run cx true now st rest), Ok None :: snd (client_dgram_run cx true now st rest)).
  Proof.
    intros Hd Hne. cbn [client_dgram_run]. rewrite (client_foreign_session_datagram_dropped cx now st src content a s Hd Hne).
    destruct (client_dgram_run cx true now st rest). reflexivity.
  Qed.

  (* the repaired behaviour: the FIRST packet (any id below the limit) of a server session whose window is not held is
     accepted -- from ANY state, i.e. whatever was accepted in other server sessions; its window is appended (the oldest
     one evicted when MAX_SERVER_SESSIONS are held) and holds exactly that id *)
  Theorem client_new_server_session_accepted cx now st src content a s :
    ssu_session_decode P cx now src = Ok (Some (content, a, s)) ->
    us_csid s = us_csid (cs_sess st) ->
    ~ In (us_ssid s) (fkeys (cs_filters st)) ->
    us_pid s < U64_MAX ->
    exists f',
      client_dgram_decode P cx true now st src
      = Ok ({| cs_sess := set_ssid (cs_sess st) (us_ssid s);
               cs_filters := (if N.of_nat (length (cs_filters st)) =? MAX_SERVER_SESSIONS then tl (cs_filters st) else cs_filters st)
                             ++ [(us_ssid s, f')] |}, Some (content, a)) /\
      Rw f' [us_pid s].
  Proof.
    intros Hd E Hni Hlt. rewrite (client_dgram_decode_own cx now st src content a s Hd E).
    rewrite (client_validate_new _ _ (us_pid s) Hni). cbn [fst snd].
    destruct (pw_new_verdict (us_pid s)) as (Hv & HR). apply N.ltb_lt in Hlt. rewrite Hlt in *. rewrite Hv.
    eexists. split; [reflexivity|exact HR].
  Qed.

  (* ---- the run of a client session seen as a trace (ghost observation) ----
     one event per authenticated datagram addressed to this client session: the server session id and packet id it
     carries, whether it opened a window (its server session id was not held: first seen, or evicted since) and
     whether it was delivered *)
  Fixpoint client_trace (cx : uctx) (now : N) (st : cstate) (srcs : list bytes) : list cevent :=
    match srcs with
    | [] => []
    | src :: t =>
      match client_dgram_decode P cx true now st src, ssu_session_decode P cx now src with
      | Ok (st', o), Ok (Some (_, _, s)) =>
        if us_csid s =? us_csid (cs_sess st) then
          {| ev_ssid := us_ssid s; ev_pid := us_pid s;
             ev_new := negb (existsb (N.eqb (us_ssid s)) (fkeys (cs_filters st)));
             ev_ok := match o with Some _ => true | None => false end |} :: client_trace cx now st' t
        else client_trace cx now st' t
      | Ok (st', _), _ => client_trace cx now st' t
      | _, _ => client_trace cx now st t
      end
    end.
  (* the (server session id, packet id) of those datagrams *)
  Fixpoint client_auth_ids (cx : uctx) (now csid : N) (srcs : list bytes) : list (N * N) :=
    match srcs with
    | [] => []
    | src :: t =>
      match ssu_session_decode P cx now src with
      | Ok (Some (_, _, s)) => if us_csid s =? csid then (us_ssid s, us_pid s) :: client_auth_ids cx now csid t
                               else client_auth_ids cx now csid t
      | _ => client_auth_ids cx now csid t
      end
    end.

  Lemma client_trace_windows cx now : forall srcs st,
    client_trace cx now st srcs = windows_trace (cs_filters st) (client_auth_ids cx now (us_csid (cs_sess st)) srcs).
  Proof.
    induction srcs as [|src t IH]; intros st; cbn [client_trace client_auth_ids]; [reflexivity|].
    destruct (ssu_session_decode P cx now src) as [[[[c a] s]|]|e|] eqn:Hd.
    - destruct (N.eqb_spec (us_csid s) (us_csid (cs_sess st))) as [E|Hne].
      + rewrite (client_dgram_decode_own cx now st src c a s Hd E). cbn [windows_trace].
        destruct (snd (client_validate (cs_filters st) (us_ssid s) (us_pid s))); rewrite IH; reflexivity.
      + rewrite (client_foreign_session_datagram_dropped cx now st src c a s Hd Hne). apply IH.
    - rewrite client_dgram_decode_of_session, Hd. apply IH.
    - rewrite client_dgram_decode_of_session, Hd. apply IH.
    - rewrite client_dgram_decode_of_session, Hd. apply IH.
  Qed.

  (* "opened a window" is a function of the server session ids seen alone: a FIFO of MAX_SERVER_SESSIONS entries *)
  Theorem client_trace_new_is_fifo cx now st srcs :
    map ev_new (client_trace cx now st srcs)
    = fifo_news (fkeys (cs_filters st)) (map ev_ssid (client_trace cx now st srcs)).
  Proof.
    rewrite client_trace_windows.
    destruct (windows_trace_new_is_fifo (client_auth_ids cx now (us_csid (cs_sess st)) srcs) (cs_filters st)) as (H1 & H2 & _).
    rewrite H1, H2. reflexivity.
  Qed.

  (* C11 on the client, full strength: from ANY state and for EVERY sequence of datagrams (any arrival order, any mix of
     server sessions, garbage, foreign and empty datagrams in between): take the datagram that opens the window of
     server session A and the events [rest] that follow it; as long as fewer than MAX_SERVER_SESSIONS = 4 further windows are
     opened in [rest] (i.e. fewer than 4 OTHER server session ids are first seen -- or seen again after their own
     eviction -- since A's window was created), the packets of A are delivered exactly as the specification window
     (PacketWindow.spec_run: id < 2^64-1, not accepted before IN SERVER SESSION A, not more than 8128 behind the highest
     id accepted IN A) decides on A's ids alone: in particular every packet id of A is delivered at most once.
     The bound is tight: client_window_eviction_witness (with a 4th new window A's is forgotten). *)
  Theorem client_packet_id_at_most_once cx now st srcs pre A p0 b0 rest post :
    client_trace cx now st srcs = pre ++ {| ev_ssid := A; ev_pid := p0; ev_new := true; ev_ok := b0 |} :: rest ++ post ->
    (length (filter ev_new rest) < N.to_nat MAX_SERVER_SESSIONS)%nat ->
    let mine := filter (ev_of A) ({| ev_ssid := A; ev_pid := p0; ev_new := true; ev_ok := b0 |} :: rest) in
    map ev_ok mine = snd (spec_run [] (map ev_pid mine) U64_MAX) /\
    NoDup (map ev_pid (filter ev_ok mine)).
  Proof. rewrite client_trace_windows. apply windows_session_exact. Qed.

  (* the (server session id, packet id) of the datagrams that were delivered, in order *)
  Definition client_delivered_ids (cx : uctx) (now : N) (st : cstate) (srcs : list bytes) : list (N * N) :=
    map (fun e => (ev_ssid e, ev_pid e)) (filter ev_ok (client_trace cx now st srcs)).

  (* ---- regression reference: the client BEFORE the repairs 5185ac1 / 642ebdf: ONE window for the client session,
     no comparison of the client session id (never extracted; only the witnesses below use it) ---- *)
  Record cstate_v0 := { cs0_sess : usess; cs0_filter : pw }.
  Definition cstate_v0_new (csid : N) : cstate_v0 :=
    {| cs0_sess := {| us_csid := csid; us_ssid := 0; us_pid := 0; us_user := None |}; cs0_filter := pw_new |}.
  Definition client_dgram_decode_v0 (cx : uctx) (replay_protected : bool) (now : N) (st : cstate_v0) (src : bytes)
    : res (cstate_v0 * option (bytes * addr)) :=
    match src with
    | [] => Ok (st, None)
    | _ =>
      let* r := ssu_session_decode P cx now src in
      match r with
      | None => Ok (st, None)
      | Some (content, a, s) =>
        let '(f', ok) := (if replay_protected then pw_validate (cs0_filter st) (us_pid s) U64_MAX
                          else (cs0_filter st, true)) in
        if ok then Ok ({| cs0_sess := set_ssid (cs0_sess st) (us_ssid s); cs0_filter := f' |}, Some (content, a))
        else Ok ({| cs0_sess := cs0_sess st; cs0_filter := f' |}, None)
      end
    end.
  Fixpoint client_dgram_run_v0 (cx : uctx) (rp : bool) (now : N) (st : cstate_v0) (srcs : list bytes)
    : cstate_v0 * list (res (option (bytes * addr))) :=
    match srcs with
    | [] => (st, [])
    | src :: t =>
      match client_dgram_decode_v0 cx rp now st src with
      | Ok (st', o) => let '(st2, l) := client_dgram_run_v0 cx rp now st' t in (st2, Ok o :: l)
      | Err e => let '(st2, l) := client_dgram_run_v0 cx rp now st t in (st2, Err e :: l)
      | Panic => let '(st2, l) := client_dgram_run_v0 cx rp now st t in (st2, Panic :: l)
      end
    end.

  (* ---------------- server: one turn of the association task ---------------- *)
  Theorem unresolved_packet_keeps_session st content peer s :
    server_assoc_step st (EvClient content peer s None) = (st, [], true).
  Proof. reflexivity. Qed.

  Theorem server_assoc_step_spec st acc content peer s r :
    as_rp st = true -> Rw (as_filter st) acc ->
    exists st',
      server_assoc_step st (EvClient content peer s (Some r))
        = (st', if accept acc (us_pid s) U64_MAX then [ASendPeer content r] else [], true) /\
      Rw (as_filter st') (if accept acc (us_pid s) U64_MAX then us_pid s :: acc else acc) /\
      as_rp st' = true /\
      (accept acc (us_pid s) U64_MAX = false -> st' = st).
  Proof.
    intros Hrp HR. cbn [server_assoc_step]. rewrite Hrp.
    destruct (pw_validate (as_filter st) (us_pid s) U64_MAX) as [f' b] eqn:Hv.
    destruct (pw_validate_refines _ _ _ _ _ _ HR Hv) as (Hb & HR' & Hsame). rewrite <- Hb.
    destruct b; eexists; (split; [reflexivity|]); cbn [as_filter as_rp set_afilter]; (split; [exact HR'|]); (split; [exact Hrp|]).
    - discriminate.
    - intros _. rewrite (Hsame eq_refl). apply astate_eta.
  Qed.

  Theorem refused_packet_keeps_session_server st acc content peer s r :
    as_rp st = true -> Rw (as_filter st) acc ->
    snd (pw_validate (as_filter st) (us_pid s) U64_MAX) = false ->
    server_assoc_step st (EvClient content peer s (Some r)) = (st, [], true).
  Proof.
    intros Hrp HR Hrej. cbn [server_assoc_step]. rewrite Hrp.
    destruct (pw_validate (as_filter st) (us_pid s) U64_MAX) as [f' b] eqn:Hv. cbn [snd] in Hrej. subst b.
    destruct (pw_validate_refines _ _ _ _ _ _ HR Hv) as (_ & _ & Hsame).
    rewrite (Hsame eq_refl), astate_eta. reflexivity.
  Qed.

  (* a dropped client message (refused id, or unresolvable target) is invisible to the rest of the run *)
  Corollary refused_packet_invisible_server st acc content peer s r evs :
    as_rp st = true -> Rw (as_filter st) acc ->
    snd (pw_validate (as_filter st) (us_pid s) U64_MAX) = false ->
    server_assoc_run st (EvClient content peer s (Some r) :: evs) = server_assoc_run st evs.
  Proof.
    intros Hrp HR Hrej. cbn [server_assoc_run].
    rewrite (refused_packet_keeps_session_server st acc content peer s r Hrp HR Hrej).
    destruct (server_assoc_run st evs) as [[st2 acts2] go2]. reflexivity.
  Qed.
  Corollary unresolved_packet_invisible_server st content peer s evs :
    server_assoc_run st (EvClient content peer s None :: evs) = server_assoc_run st evs.
  Proof. cbn [server_assoc_run server_assoc_step]. destruct (server_assoc_run st evs) as [[st2 acts2] go2]. reflexivity. Qed.

  (* every step keeps the filter invariant and the replay flag; only a client message touches the filter *)
  Lemma server_assoc_step_R st acc ev st' acts go :
    as_rp st = true -> Rw (as_filter st) acc -> server_assoc_step st ev = (st', acts, go) ->
    as_rp st' = true /\ exists acc', Rw (as_filter st') acc'.
  Proof.
    intros Hrp HR. destruct ev as [content peer s [r|]| |content peer|].
    - destruct (server_assoc_step_spec st acc content peer s r Hrp HR) as (st1 & -> & HR' & Hrp' & _).
      intros [= <- <- <-]. eauto.
    - cbn [server_assoc_step]. intros [= <- <- <-]. eauto.
    - cbn [server_assoc_step]. intros [= <- <- <-]. eauto.
    - cbn [server_assoc_step]. destruct (as_spid st =? U64_MAX); intros [= <- <- <-]; cbn [as_rp as_filter set_spid]; eauto.
    - cbn [server_assoc_step]. intros [= <- <- <-]. eauto.
  Qed.

  (* the packet ids of the client messages that were forwarded to their target (ghost observation) *)
  Fixpoint server_forwarded_ids (st : astate) (evs : list aevent) : list N :=
    match evs with
    | [] => []
    | ev :: t =>
      let '(st', acts, go) := server_assoc_step st ev in
      let rest := if go then server_forwarded_ids st' t else [] in
      match ev, acts with
      | EvClient _ _ s _, _ :: _ => us_pid s :: rest
      | _, _ => rest
      end
    end.

  Lemma server_forwarded_ids_fresh : forall evs st acc, as_rp st = true -> Rw (as_filter st) acc ->
    NoDup (server_forwarded_ids st evs) /\ (forall id, In id (server_forwarded_ids st evs) -> ~ In id acc).
  Proof.
    induction evs as [|ev t IH]; intros st acc Hrp HR; cbn [server_forwarded_ids].
    { split; [constructor|intros id []]. }
    destruct ev as [content peer s [r|]| |content peer|].
    - destruct (server_assoc_step_spec st acc content peer s r Hrp HR) as (st1 & -> & HR' & Hrp' & _).
      destruct (accept acc (us_pid s) U64_MAX) eqn:Eok.
      + destruct (IH st1 _ Hrp' HR') as (Hnd & Hfresh). split.
        * constructor; [|exact Hnd]. intros Hin. apply (Hfresh _ Hin). left. reflexivity.
        * intros id [<-|Hin]; [apply (spec_accept_fresh _ _ _ Eok)|].
          intros Hacc. apply (Hfresh _ Hin). right. exact Hacc.
      + apply IH; assumption.
    - cbn [server_assoc_step]. apply IH; assumption.
    - cbn [server_assoc_step]. split; [constructor|intros id []].
    - cbn [server_assoc_step]. destruct (as_spid st =? U64_MAX).
      + split; [constructor|intros id []].
      + apply IH; assumption.
    - cbn [server_assoc_step]. split; [constructor|intros id []].
  Qed.

  Theorem server_packet_id_at_most_once client ssid evs :
    NoDup (server_forwarded_ids (astate_new client ssid true) evs).
  Proof. apply (server_forwarded_ids_fresh evs (astate_new client ssid true) []); [reflexivity|apply R_init]. Qed.

  (* the ids the server gives to its own packets never wrap either: the task ends instead *)
  Theorem server_packet_id_no_wrap st content peer :
    (as_spid st = U64_MAX -> server_assoc_step st (EvPeer content peer) = (st, [], false)) /\
    (as_spid st < U64_MAX ->
     exists st', server_assoc_step st (EvPeer content peer)
                 = (st', [AToClient content peer {| us_csid := as_csid st; us_ssid := as_ssid st; us_pid := as_spid st + 1; us_user := as_user st |}], true) /\
                 as_spid st' = as_spid st + 1 /\ as_spid st' <= U64_MAX).
  Proof.
    cbn [server_assoc_step]. split.
    - intros ->. rewrite N.eqb_refl. reflexivity.
    - intros H. destruct (N.eqb_spec (as_spid st) U64_MAX); [lia|]. eexists. split; [reflexivity|]. cbn [as_spid set_spid]. lia.
  Qed.

  (* ---------------- client: DatagramPacketCodec::encode ---------------- *)
  Theorem client_dgram_encode_step cx now rnd pad st a content :
    us_pid (cs_sess st) <= U64_MAX ->
    (us_pid (cs_sess st) = U64_MAX ->
       client_dgram_encode P cx now rnd pad st a content = (st, Err EOther)) /\
    (us_pid (cs_sess st) < U64_MAX ->
       exists st', client_dgram_encode P cx now rnd pad st a content = (st', ssu_encode P cx now rnd pad (cs_sess st') a content) /\
                   us_pid (cs_sess st') = us_pid (cs_sess st) + 1 /\ us_pid (cs_sess st') <= U64_MAX /\
                   us_csid (cs_sess st') = us_csid (cs_sess st) /\ cs_filters st' = cs_filters st).
  Proof.
    intros Hle. unfold client_dgram_encode. split.
    - intros ->. rewrite N.eqb_refl. reflexivity.
    - intros Hlt. destruct (N.eqb_spec (us_pid (cs_sess st)) U64_MAX); [lia|].
      exists {| cs_sess := set_pid (cs_sess st) ((us_pid (cs_sess st) + 1) mod 2 ^ 64); cs_filters := cs_filters st |}.
      split; [reflexivity|]. cbn [cs_sess cs_filters set_pid us_pid us_csid].
      unfold U64_MAX in *. rewrite N.mod_small by lia. repeat split; lia.
  Qed.

  (* the packet ids put on the wire by a run of encode calls (an exhausted session emits nothing) *)
  Fixpoint client_encode_ids (cx : uctx) (now : N) (st : cstate) (items : list (bytes * bytes * addr * bytes)) : list N :=
    match items with
    | [] => []
    | (rnd, pad, a, content) :: t =>
      let st' := fst (client_dgram_encode P cx now rnd pad st a content) in
      if us_pid (cs_sess st) =? U64_MAX then client_encode_ids cx now st' t
      else us_pid (cs_sess st') :: client_encode_ids cx now st' t
    end.

  Lemma client_encode_ids_increasing cx now : forall items st, us_pid (cs_sess st) <= U64_MAX ->
    StronglySorted N.lt (client_encode_ids cx now st items) /\
    Forall (fun id => us_pid (cs_sess st) < id <= U64_MAX) (client_encode_ids cx now st items).
  Proof.
    induction items as [|[[[rnd pad] a] content] t IH]; intros st Hle; cbn [client_encode_ids].
    { split; constructor. }
    destruct (client_dgram_encode_step cx now rnd pad st a content Hle) as [Hmax Hstep].
    destruct (N.eqb_spec (us_pid (cs_sess st)) U64_MAX) as [E|NE].
    - rewrite (Hmax E). cbn [fst]. apply IH. exact Hle.
    - assert (Hlt : us_pid (cs_sess st) < U64_MAX) by lia.
      destruct (Hstep Hlt) as (st' & -> & Hpid & Hle' & _). cbn [fst].
      destruct (IH st' Hle') as (Hs & Hf). split.
      + constructor; [exact Hs|]. eapply Forall_impl; [|exact Hf]. cbn beta. intros id Hid. lia.
      + constructor; [lia|]. eapply Forall_impl; [|exact Hf]. cbn beta. intros id Hid. lia.
  Qed.

  (* packet ids are strictly increasing, never wrap, and therefore (AES kinds) no nonce is used twice in a session *)
  Theorem packet_id_never_reused cx now csid items :
    let ids := client_encode_ids cx now (cstate_new csid) items in
    StronglySorted N.lt ids /\ Forall (fun id => 0 < id < 2 ^ 64) ids /\ NoDup ids /\
    NoDup (map (udp_aes_nonce csid) ids).
  Proof.
    cbn zeta.
    destruct (client_encode_ids_increasing cx now items (cstate_new csid)) as (Hs & Hf).
    { cbn. discriminate. }
    set (ids := client_encode_ids cx now (cstate_new csid) items) in *.
    assert (Hrange : Forall (fun id => 0 < id < 2 ^ 64) ids).
    { eapply Forall_impl; [|exact Hf]. cbn [cstate_new cs_sess us_pid]. unfold U64_MAX. intros id Hid. lia. }
    assert (Hnd : NoDup ids).
    { clear Hf Hrange. induction Hs as [|x l Hl IHl Hx]; constructor; [|exact IHl].
      intros Hin. rewrite Forall_forall in Hx. specialize (Hx _ Hin). lia. }
    repeat split; try assumption.
    clear Hs Hf. induction Hnd as [|x l Hx Hl IHl]; cbn [map]; constructor.
    - intros Hin. apply in_map_iff in Hin. destruct Hin as (y & Hy & Hyin).
      inversion Hrange as [|? ? Hxr Hlr]; subst. rewrite Forall_forall in Hlr. specialize (Hlr _ Hyin).
      apply udp_nonce_inj in Hy; [|lia|lia]. subst y. contradiction.
    - apply IHl. inversion Hrange; assumption.
  Qed.

  (* (iv) continued: the AEAD nonce of every AES-kind packet really is bytes 4..16 of sid ‖ pid *)
  Theorem client_aes_packet_nonce cx now rnd pad s a item w :
    support_eih (uc_kind cx) = true -> uc_mode cx = Client -> ssu_encode P cx now rnd pad s a item = Ok w ->
    exists pre ck pt, w = pre ++ p_seal P (udp_cipher_id (uc_kind cx)) ck (udp_aes_nonce (us_csid s) (us_pid s)) [] pt.
  Proof.
    intros Hk Hm. unfold ssu_encode. rewrite (aes_is_2022 _ Hk), Hm. unfold ssu_encode_client. rewrite Hk.
    set (sidpid := put_u64 (us_csid s) ++ put_u64 (us_pid s)).
    match goal with |- bind ?x _ = _ -> _ => destruct x as [eihs|e|] end; cbn [bind]; try discriminate.
    destruct (aes_block_enc P _ _ _) as [hdr|e|]; cbn [bind]; try discriminate.
    destruct (udp_cipher_key P _ _ _) as [ck|e|]; cbn [bind]; try discriminate.
    intros [= <-]. unfold sidpid. fold (udp_aes_nonce (us_csid s) (us_pid s)). rewrite app_assoc. eauto.
  Qed.
  Theorem server_aes_packet_nonce cx now rnd pad s a item w :
    support_eih (uc_kind cx) = true -> uc_mode cx = Server -> ssu_encode P cx now rnd pad s a item = Ok w ->
    exists pre ck pt, w = pre ++ p_seal P (udp_cipher_id (uc_kind cx)) ck (udp_aes_nonce (us_ssid s) (us_pid s)) [] pt.
  Proof.
    intros Hk Hm. unfold ssu_encode. rewrite (aes_is_2022 _ Hk), Hm. unfold ssu_encode_server. rewrite Hk.
    destruct (aes_block_enc P _ _ _) as [hdr|e|]; cbn [bind]; try discriminate.
    destruct (udp_cipher_key P _ _ _) as [ck|e|]; cbn [bind]; try discriminate.
    intros [= <-]. fold (udp_aes_nonce (us_ssid s) (us_pid s)). eauto.
  Qed.
End SsUdpFacts.

(* ---------------------------------------------------------------------------------------------- *)
(* Non-vacuity: the premises on the primitives are jointly satisfiable (toy primitives of            *)
(* SsTcpRoundtrip.ToyPrims), and concrete exchanges evaluate as the theorems say.                    *)
(* ---------------------------------------------------------------------------------------------- *)
Module ToyUdp.
  Import SsTcpRoundtrip.ToyPrims.

  Lemma toy_udp_lens : udp_lens toyP.
  Proof.
    constructor.
    - exact toy_b3_len.
    - exact toy_hkdf_len.
    - exact (open_len toyP toy_laws).
    - intros k b H. exact H.
    - intros k b H. exact H.
    - intros m. cbn [toyP p_b3hash]. apply lenN_takeN. rewrite lenN_app, lenN_repeat. lia.
  Qed.

  Definition toy_no_panic := ssu_decode_no_panic toyP toy_udp_lens.
  Definition toy_roundtrip_legacy := roundtrip_legacy toyP toy_laws toy_udp_lens.
  Definition toy_roundtrip_aes_client_plain := roundtrip_aes_client_plain toyP toy_laws.
  Definition toy_roundtrip_aes_client_eih := roundtrip_aes_client_eih toyP toy_laws.
  Definition toy_roundtrip_aes_server := roundtrip_aes_server toyP toy_laws.
  Definition toy_roundtrip_xchacha_client := roundtrip_xchacha_client toyP toy_laws.
  Definition toy_roundtrip_xchacha_server := roundtrip_xchacha_server toyP toy_laws.

  Definition ukey : bytes := repeat 9 16.            (* the user's key *)
  Definition ikey : bytes := repeat 5 16.            (* the server's key = the client's identity key *)
  Definition usr : user := {| u_hash := takeN 16 (p_b3hash toyP ukey); u_key := ukey |}.
  Definition other : user := {| u_hash := repeat 1 16; u_key := repeat 8 16 |}.
  Definition ccx : uctx := {| uc_kind := K22_A128; uc_mode := Client; uc_key := ukey; uc_ikeys := [ikey]; uc_users := None |}.
  Definition scx : uctx := {| uc_kind := K22_A128; uc_mode := Server; uc_key := ikey; uc_ikeys := []; uc_users := Some [other; usr] |}.
  Definition tgt : addr := ADom [101; 120] 443.
  Definition csess : usess := {| us_csid := 77; us_ssid := 0; us_pid := 5; us_user := None |}.

  (* client -> server with an identity header, padding of 2 bytes, clock skew 10 s; then 31 s *)
  Example ex_eih_roundtrip :
    (let* w := ssu_encode toyP ccx 1000 [] [7; 7] csess tgt [1; 2; 3] in ssu_decode toyP scx 1010 w)
    = Ok ([1; 2; 3], tgt, {| us_csid := 77; us_ssid := 0; us_pid := 5; us_user := Some usr |}).
  Proof. vm_compute. reflexivity. Qed.
  Example ex_eih_stale :
    (let* w := ssu_encode toyP ccx 1000 [] [7; 7] csess tgt [1; 2; 3] in ssu_decode toyP scx 1031 w) = Err EBadTime.
  Proof. vm_compute. reflexivity. Qed.
  (* an empty payload survives as an empty payload *)
  Example ex_empty_payload :
    (let* w := ssu_encode toyP ccx 1000 [] [7; 7; 7] csess tgt [] in ssu_decode toyP scx 1000 w)
    = Ok ([], tgt, {| us_csid := 77; us_ssid := 0; us_pid := 5; us_user := Some usr |}).
  Proof. vm_compute. reflexivity. Qed.
  (* reflection: the client's own packet comes back to it *)
  Example ex_reflection :
    (let* w := ssu_encode toyP {| uc_kind := K22_A128; uc_mode := Client; uc_key := ukey; uc_ikeys := []; uc_users := None |}
                 1000 [] [] csess tgt [1] in
     ssu_decode toyP {| uc_kind := K22_A128; uc_mode := Client; uc_key := ukey; uc_ikeys := []; uc_users := None |} 1000 w)
    = Err EShort.     (* 16 + 16 + 11 + addr(5) + 1 = 49 < 51: a client packet this small is below the server-packet minimum *)
  Proof. vm_compute. reflexivity. Qed.
  Example ex_reflection_long :
    (let* w := ssu_encode toyP {| uc_kind := K22_A128; uc_mode := Client; uc_key := ukey; uc_ikeys := []; uc_users := None |}
                 1000 [] [] csess tgt [1; 2; 3; 4; 5; 6; 7; 8; 9] in
     ssu_decode toyP {| uc_kind := K22_A128; uc_mode := Client; uc_key := ukey; uc_ikeys := []; uc_users := None |} 1000 w)
    = Err EBadType.
  Proof. vm_compute. reflexivity. Qed.

  (* session level: the server answers with packet ids 1, 2, 1 (a replay), 3 *)
  Definition srv : uctx := {| uc_kind := K22_A128; uc_mode := Server; uc_key := ukey; uc_ikeys := []; uc_users := None |}.
  Definition cli : uctx := {| uc_kind := K22_A128; uc_mode := Client; uc_key := ukey; uc_ikeys := []; uc_users := None |}.
  Definition reply_for (csid ssid pid : N) (payload : bytes) : bytes :=
    match ssu_encode toyP srv 1000 [] [] {| us_csid := csid; us_ssid := ssid; us_pid := pid; us_user := None |} tgt payload with
    | Ok w => w | _ => [] end.
  Definition reply_of (ssid pid : N) (payload : bytes) : bytes := reply_for 77 ssid pid payload.
  Definition reply (pid : N) (payload : bytes) : bytes := reply_of 900 pid payload.
  Example ex_replay_dropped :
    snd (client_dgram_run toyP cli true 1000 (cstate_new 77) [reply 1 [11]; reply 2 [22]; reply 1 [11]; reply 3 [33]])
    = [Ok (Some ([11], tgt)); Ok (Some ([22], tgt)); Ok None; Ok (Some ([33], tgt))].
  Proof. vm_compute. reflexivity. Qed.
  Example ex_replay_ids :
    client_delivered_ids toyP cli 1000 (cstate_new 77) [reply 1 [11]; reply 2 [22]; reply 1 [11]; reply 3 [33]]
    = [(900, 1); (900, 2); (900, 3)].
  Proof. vm_compute. reflexivity. Qed.
  (* the trace of a run with two server sessions, a duplicate in each, garbage and a foreign datagram in between *)
  Example ex_trace :
    client_trace toyP cli 1000 (cstate_new 77)
      [reply_of 900 1 [11]; [1; 2; 3]; reply_of 901 1 [12]; reply_for 78 900 2 [13]; reply_of 900 1 [11]; reply_of 901 1 [12]; reply_of 900 2 [14]]
    = [{| ev_ssid := 900; ev_pid := 1; ev_new := true; ev_ok := true |};
       {| ev_ssid := 901; ev_pid := 1; ev_new := true; ev_ok := true |};
       {| ev_ssid := 900; ev_pid := 1; ev_new := false; ev_ok := false |};
       {| ev_ssid := 901; ev_pid := 1; ev_new := false; ev_ok := false |};
       {| ev_ssid := 900; ev_pid := 2; ev_new := false; ev_ok := true |}].
  Proof. vm_compute. reflexivity. Qed.

  (* regression sensitivity (repair 5185ac1): ids 1..5 are accepted in server session 900, then the server starts session 901
     and numbers from 1 again.  The single-window client refuses 901:1 as a duplicate; the repaired client delivers it. *)
  Definition new_session_script : list bytes :=
    [reply_of 900 1 [1]; reply_of 900 2 [2]; reply_of 900 3 [3]; reply_of 900 4 [4]; reply_of 900 5 [5]; reply_of 901 1 [6]].
  Theorem single_window_drops_new_session_witness :
    snd (client_dgram_run_v0 toyP cli true 1000 (cstate_v0_new 77) new_session_script)
    = [Ok (Some ([1], tgt)); Ok (Some ([2], tgt)); Ok (Some ([3], tgt)); Ok (Some ([4], tgt)); Ok (Some ([5], tgt)); Ok None] /\
    snd (client_dgram_run toyP cli true 1000 (cstate_new 77) new_session_script)
    = [Ok (Some ([1], tgt)); Ok (Some ([2], tgt)); Ok (Some ([3], tgt)); Ok (Some ([4], tgt)); Ok (Some ([5], tgt)); Ok (Some ([6], tgt))].
  Proof. split; vm_compute; reflexivity. Qed.
  (* ... and late packets of the old server session are still judged by the old session's window *)
  Example ex_old_session_late :
    snd (client_dgram_run toyP cli true 1000 (cstate_new 77)
           (new_session_script ++ [reply_of 900 5 [5]; reply_of 900 6 [7]; reply_of 901 1 [6]; reply_of 901 2 [8]]))
    = [Ok (Some ([1], tgt)); Ok (Some ([2], tgt)); Ok (Some ([3], tgt)); Ok (Some ([4], tgt)); Ok (Some ([5], tgt)); Ok (Some ([6], tgt));
       Ok None; Ok (Some ([7], tgt)); Ok None; Ok (Some ([8], tgt))].
  Proof. vm_compute. reflexivity. Qed.

  (* a stated limit of the design: MAX_SERVER_SESSIONS = 4 windows are kept.  With four server sessions a replay of the first
     one's packet is refused; once a FIFTH distinct server session has been seen the first one's window is forgotten and its
     packet id 1 is delivered again.  (Such a replay additionally needs a time stamp within 30 s of the client's clock --
     ssu_decode checks it before the window is consulted: udp_parse / EBadTime, see ex_evicted_replay_stale -- so the
     exposure is a 30 s old datagram of a server session that four newer server sessions have displaced.) *)
  Theorem client_window_eviction_witness :
    snd (client_dgram_run toyP cli true 1000 (cstate_new 77)
           [reply_of 901 1 [1]; reply_of 902 1 [2]; reply_of 903 1 [3]; reply_of 904 1 [4]; reply_of 901 1 [1]])
    = [Ok (Some ([1], tgt)); Ok (Some ([2], tgt)); Ok (Some ([3], tgt)); Ok (Some ([4], tgt)); Ok None] /\
    snd (client_dgram_run toyP cli true 1000 (cstate_new 77)
           [reply_of 901 1 [1]; reply_of 902 1 [2]; reply_of 903 1 [3]; reply_of 904 1 [4]; reply_of 905 1 [5]; reply_of 901 1 [1]])
    = [Ok (Some ([1], tgt)); Ok (Some ([2], tgt)); Ok (Some ([3], tgt)); Ok (Some ([4], tgt)); Ok (Some ([5], tgt)); Ok (Some ([1], tgt))] /\
    map ev_new (client_trace toyP cli 1000 (cstate_new 77)
           [reply_of 901 1 [1]; reply_of 902 1 [2]; reply_of 903 1 [3]; reply_of 904 1 [4]; reply_of 905 1 [5]; reply_of 901 1 [1]])
    = [true; true; true; true; true; true].
  Proof. repeat split; vm_compute; reflexivity. Qed.
  Example ex_evicted_replay_stale :
    snd (client_dgram_run toyP cli true 1031 (cstate_new 77) [reply_of 901 1 [1]]) = [Err EBadTime].
  Proof. vm_compute. reflexivity. Qed.
  (* the at-most-once theorem applies to the first run (three further windows opened after 901's) *)
  Example ex_at_most_once_applies :
    let tr := client_trace toyP cli 1000 (cstate_new 77)
                [reply_of 901 1 [1]; reply_of 902 1 [2]; reply_of 903 1 [3]; reply_of 904 1 [4]; reply_of 901 1 [1]; reply_of 901 2 [9]] in
    map ev_ok (filter (ev_of 901) tr) = [true; false; true] /\
    map ev_ok (filter (ev_of 901) tr) = snd (spec_run [] (map ev_pid (filter (ev_of 901) tr)) U64_MAX).
  Proof. split; vm_compute; reflexivity. Qed.

  (* regression sensitivity (repair 642ebdf): a well-formed server datagram for client session 78 reaches the codec of client
     session 77.  The old client delivers it and its packet id 2 is used up: the genuine packet 2 is then dropped.  The
     repaired client drops the foreign datagram and delivers its own. *)
  Theorem foreign_session_datagram_witness :
    snd (client_dgram_run_v0 toyP cli true 1000 (cstate_v0_new 77) [reply 1 [11]; reply_for 78 900 2 [99]; reply 2 [22]])
    = [Ok (Some ([11], tgt)); Ok (Some ([99], tgt)); Ok None] /\
    snd (client_dgram_run toyP cli true 1000 (cstate_new 77) [reply 1 [11]; reply_for 78 900 2 [99]; reply 2 [22]])
    = [Ok (Some ([11], tgt)); Ok None; Ok (Some ([22], tgt))].
  Proof. split; vm_compute; reflexivity. Qed.
  (* the association task: a replayed client packet is dropped, the task goes on and forwards the next one *)
  Example ex_server_assoc :
    let m pid := EvClient [pid] tgt {| us_csid := 77; us_ssid := 0; us_pid := pid; us_user := None |} (Some (AV4 [1; 2; 3; 4] 53)) in
    let '(_, acts, go) := server_assoc_run (astate_new csess 900 true)
                            [m 1; m 1; EvClient [9] tgt csess None; m 2; EvPeer [42] tgt] in
    (acts, go) = ([ASendPeer [1] (AV4 [1; 2; 3; 4] 53); ASendPeer [2] (AV4 [1; 2; 3; 4] 53);
                   AToClient [42] tgt {| us_csid := 77; us_ssid := 900; us_pid := 1; us_user := None |}], true).
  Proof. vm_compute. reflexivity. Qed.
  (* exhaustion: at packet id 2^64 - 1 the client refuses to encode and keeps its state *)
  Example ex_exhausted :
    let st := {| cs_sess := {| us_csid := 77; us_ssid := 0; us_pid := U64_MAX; us_user := None |}; cs_filters := [] |} in
    client_dgram_encode toyP cli 1000 [] [] st tgt [1] = (st, Err EOther).
  Proof. reflexivity. Qed.
End ToyUdp.

Print Assumptions ssu_decode_no_panic.
Print Assumptions ssu_session_decode_no_panic.
Print Assumptions roundtrip_legacy.
Print Assumptions roundtrip_aes_client_plain.
Print Assumptions roundtrip_aes_client_eih.
Print Assumptions roundtrip_aes_server.
Print Assumptions roundtrip_xchacha_client.
Print Assumptions roundtrip_xchacha_server.
Print Assumptions accepted_2022_typed_and_fresh.
Print Assumptions udp_parse_accept.
Print Assumptions udp_time_boundary.
Print Assumptions udp_nonce_inj.
Print Assumptions client_aes_packet_nonce.
Print Assumptions server_aes_packet_nonce.
Print Assumptions refused_packet_keeps_session_client.
Print Assumptions refused_packet_invisible_client.
Print Assumptions client_packet_id_at_most_once.
Print Assumptions client_new_server_session_accepted.
Print Assumptions client_foreign_session_datagram_dropped.
Print Assumptions foreign_session_datagram_invisible_client.
Print Assumptions client_trace_new_is_fifo.
Print Assumptions client_dgram_decode_spec.
Print Assumptions ToyUdp.single_window_drops_new_session_witness.
Print Assumptions ToyUdp.client_window_eviction_witness.
Print Assumptions ToyUdp.foreign_session_datagram_witness.
Print Assumptions refused_packet_keeps_session_server.
Print Assumptions refused_packet_invisible_server.
Print Assumptions unresolved_packet_invisible_server.
Print Assumptions server_packet_id_at_most_once.
Print Assumptions server_packet_id_no_wrap.
Print Assumptions client_dgram_encode_step.
Print Assumptions packet_id_never_reused.
Print Assumptions ToyUdp.ex_eih_roundtrip.
Print Assumptions ToyUdp.toy_udp_lens.
