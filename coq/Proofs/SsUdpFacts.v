(* Facts about the Shadowsocks UDP datagram codec model (Model/SsUdp.v): AEADCipherCodec::encode/decode and
   SessionCodec of codec/shadowsocks/udp.rs, the client's DatagramPacketCodec and the server's association task.

   Everything is proved for an ARBITRARY record of primitives P.  Premises on the primitives are explicit
   (never axioms): `prim_laws P` (Crypto/Prims.v) for the round trips, and the record `udp_lens P`:
       ul_b3     |blake3 derive_key| = 32          ul_hkdf   |hkdf_sha1 .. n| = n
       ul_open   a successful AEAD open of ct yields |ct| - 16 bytes (prim_laws.open_len)
       ul_aes_dec / ul_aes_enc   an AES block operation on 16 bytes yields 16 bytes
       ul_b3hash |blake3 hash| = 32
   Module ToyUdp shows they are jointly satisfiable and evaluates concrete exchanges by vm_compute.

   (i)   ssu_decode_no_panic, ssu_session_decode_no_panic
           for ALL datagrams, clocks, modes, user tables and keys: never Panic.  Key premise: for the kinds
           WITHOUT a separate AES header (legacy kinds, 2022 XChaCha kinds) kind_n k <= |key| (the Rust code
           slices key[..32] / the HKDF output [..KeySize] unchecked; configuration yields [u8; N]).  For the 2022
           AES kinds no premise on the key: a wrong length is an error return (EBadLen).
   (ii)  roundtrip_legacy (both directions), roundtrip_aes_client_plain, roundtrip_aes_client_eih (one identity
         key, user table containing the user: the decoded session names that user), roundtrip_aes_server (header and
         body under the user's key when the session has a user), roundtrip_xchacha_client, roundtrip_xchacha_server:
           ssu_encode succeeds with some wire w and the peer's ssu_decode of w returns EXACTLY
           (payload, address, session ids, packet id [, user]) -- for every payload (empty included), every padding
           shorter than 65536 bytes (the encoder draws <= 900), every well-formed representable address, ids and
           clock < 2^64, clock skew <= 30 s; and with a skew > 30 s the same wire is refused with EBadTime.
   (iii) accepted_2022_typed_and_fresh: whatever a 2022 decoder accepts, the authenticated plaintext starts with
         the type byte expected by the decoder's mode followed by a timestamp ts with abs_diff now ts <= 30;
         udp_parse_accept, udp_parse_wrong_type, udp_parse_reflected_client/_server (a body made by one's own side
         is EBadType), udp_time_boundary (now+30 / now-30 accepted, now+31 / now-31 refused),
         validate_timestamp_spec/_window.
   (iv)  udp_nonce_inj / udp_nonce_distinct: the AES-kind nonce is bytes 4..16 of sid ‖ pid; two packet ids < 2^64
         of one session give different nonces; client_aes_packet_nonce / server_aes_packet_nonce: that IS the
         nonce under which ssu_encode seals.
   (v)   session level (Rw = PacketWindowList.R, the filter invariant; it holds initially and is preserved):
         client_dgram_decode_spec (verdict = PacketWindow.spec_accept on the set of accepted ids),
         refused_packet_keeps_session_client (refused id => Ok (st, None): no item, state unchanged),
         refused_packet_invisible_client (the rest of the run is as if the datagram had not arrived),
         client_packet_id_at_most_once (NoDup of the delivered ids, every input sequence, any order);
         server_assoc_step_spec, refused_packet_keeps_session_server (=> (st, [], true)),
         unresolved_packet_keeps_session, refused_packet_invisible_server, unresolved_packet_invisible_server,
         server_packet_id_at_most_once, server_packet_id_no_wrap;
         client_dgram_encode_step (at 2^64-1: (st, Err), no wrap; otherwise id+1 and the codec is called with it),
         packet_id_never_reused (ids of a run strictly increasing, in (0, 2^64), NoDup, and NoDup of the nonces).
   Nothing is `_partial`; every proof ends with Qed; Print Assumptions (end of file) are all closed. *)
From Coq Require Import List NArith ZArith Lia Bool Arith ZifyBool ZifyN ZifyNat Sorted.
From Octo Require Import Base.Bytes Crypto.Prims Model.NonceGen Model.SsChunk Model.Address Model.SsTcp
  Model.PacketWindow Model.SsUdp Proofs.AddressFacts Proofs.CodecLemmas Proofs.SsChunkCanon Proofs.PacketWindowList.
From Octo Require Proofs.SsTcpRoundtrip.     (* only for the toy primitives of the non-vacuity section *)
Import ListNotations.
Open Scope N_scope.

(* ---------------------------------------------------------------------------------------------- *)
(* P-independent helpers                                                                            *)
(* ---------------------------------------------------------------------------------------------- *)
Lemma bind_no_panic {A B} (r : res A) (f : A -> res B) :
  r <> Panic -> (forall a, r = Ok a -> f a <> Panic) -> bind r f <> Panic.
Proof. destruct r as [a|e|]; cbn [bind]; intros H1 H2; [apply H2; reflexivity|discriminate|contradiction]. Qed.

Lemma split_to_no_panic n b : n <= lenN b -> split_to n b <> Panic.
Proof. intros H. rewrite split_to_ok by assumption. discriminate. Qed.

Lemma get_u64_ok b : 8 <= lenN b -> get_u64 b = Ok (be (takeN 8 b), dropN 8 b).
Proof. apply get_be_ok. Qed.
Lemma get_be_inv k b v t : get_be k b = Ok (v, t) -> k <= lenN b /\ v = be (takeN k b) /\ t = dropN k b.
Proof.
  unfold get_be, split_to. destruct (N.leb_spec k (lenN b)) as [Hk|Hk]; cbn [bind]; [|discriminate].
  intros [= <- <-]. auto.
Qed.
Lemma get_u8_ok b : 1 <= lenN b -> exists x t, b = x :: t /\ get_u8 b = Ok (x, t).
Proof. destruct b as [|x t]; [rewrite lenN_nil; lia|]. intros _. exists x, t. split; reflexivity. Qed.
Lemma lenN_put_u64 v : lenN (put_u64 v) = 8. Proof. apply lenN_put_be. Qed.
Lemma get_u64_put v t : v < 2 ^ 64 -> get_u64 (put_u64 v ++ t) = Ok (v, t).
Proof. intros H. unfold get_u64, put_u64. apply get_be_put_be. exact H. Qed.

Lemma bytes_eqb_refl a : bytes_eqb a a = true.
Proof. unfold bytes_eqb. destruct (list_eq_dec N.eq_dec a a); [reflexivity|congruence]. Qed.

Lemma xor_into_length : forall a b, length (xor_into a b) = length a.
Proof. induction a as [|x a IH]; intros [|y b]; cbn [xor_into length]; auto. Qed.
Lemma lenN_xor_into a b : lenN (xor_into a b) = lenN a.
Proof. rewrite !lenN_spec, xor_into_length. reflexivity. Qed.
(* the server undoes the client's mask *)
Lemma xor_into_involutive : forall a b, xor_into (xor_into a b) b = a.
Proof.
  induction a as [|x a IH]; intros [|y b]; cbn [xor_into]; try reflexivity.
  rewrite IH. f_equal. rewrite N.lxor_assoc, N.lxor_nilpotent, N.lxor_0_r. reflexivity.
Qed.

Lemma key_size_le_32 c : cipher_key_size c <= 32.
Proof. unfold cipher_key_size. destruct (c =? 0); lia. Qed.
Lemma key_size_kind k : cipher_key_size (kind_cipher k) = kind_n k.
Proof. destruct k; reflexivity. Qed.

Lemma abs_diff_sym a b : abs_diff a b = abs_diff b a.
Proof. unfold abs_diff. destruct (N.ltb_spec a b), (N.ltb_spec b a); lia. Qed.

(* ---------------------------------------------------------------------------------------------- *)
(* (iv) nonce uniqueness (AES kinds): the nonce is bytes 4..16 of sid ‖ pid                           *)
(* ---------------------------------------------------------------------------------------------- *)
Definition udp_aes_nonce (sid pid : N) : bytes := dropN 4 (put_u64 sid ++ put_u64 pid).

Lemma udp_aes_nonce_split sid pid : udp_aes_nonce sid pid = dropN 4 (put_u64 sid) ++ put_u64 pid.
Proof. unfold udp_aes_nonce. apply dropN_app_le. rewrite lenN_put_u64. lia. Qed.
Lemma udp_aes_nonce_len sid pid : lenN (udp_aes_nonce sid pid) = 12.
Proof. rewrite udp_aes_nonce_split, lenN_app, lenN_dropN, !lenN_put_u64. reflexivity. Qed.

Lemma put_u64_inj a b : a < 2 ^ 64 -> b < 2 ^ 64 -> put_u64 a = put_u64 b -> a = b.
Proof.
  intros Ha Hb E. apply (f_equal be) in E. unfold put_u64 in E.
  rewrite !be_put_be in E by assumption. exact E.
Qed.

Theorem udp_nonce_inj sid p1 p2 : p1 < 2 ^ 64 -> p2 < 2 ^ 64 ->
  udp_aes_nonce sid p1 = udp_aes_nonce sid p2 -> p1 = p2.
Proof.
  intros H1 H2 E. rewrite !udp_aes_nonce_split in E. apply app_inv_head in E.
  apply put_u64_inj; assumption.
Qed.
Corollary udp_nonce_distinct sid p1 p2 : p1 < 2 ^ 64 -> p2 < 2 ^ 64 -> p1 <> p2 ->
  udp_aes_nonce sid p1 <> udp_aes_nonce sid p2.
Proof. intros H1 H2 Hne E. apply Hne. eapply udp_nonce_inj; eassumption. Qed.

(* ---------------------------------------------------------------------------------------------- *)
(* (iii) the time window (P-independent part)                                                        *)
(* ---------------------------------------------------------------------------------------------- *)
Lemma validate_timestamp_spec now ts : validate_timestamp now ts = true <-> abs_diff now ts <= 30.
Proof. unfold validate_timestamp, TS_MAX_DIFF. apply N.leb_le. Qed.
Lemma validate_timestamp_window now ts : validate_timestamp now ts = true <-> (ts <= now + 30 /\ now <= ts + 30).
Proof. rewrite validate_timestamp_spec. unfold abs_diff. destruct (N.ltb_spec now ts); lia. Qed.
Theorem udp_time_boundary now :
  validate_timestamp now (now + 30) = true /\ validate_timestamp now (now + 31) = false /\
  (30 <= now -> validate_timestamp now (now - 30) = true) /\
  (31 <= now -> validate_timestamp now (now - 31) = false).
Proof.
  repeat split.
  - apply validate_timestamp_window. lia.
  - destruct (validate_timestamp now (now + 31)) eqn:E; [|reflexivity]. apply validate_timestamp_window in E. lia.
  - intros H. apply validate_timestamp_window. lia.
  - intros H. destruct (validate_timestamp now (now - 31)) eqn:E; [|reflexivity]. apply validate_timestamp_window in E. lia.
Qed.

Section SsUdpFacts.
  Variable P : prims.

  (* length facts about the real primitives: premises, never axioms *)
  Record udp_lens : Prop := {
    ul_b3 : forall c m, lenN (p_b3derive P c m) = 32;
    ul_hkdf : forall i s info n, lenN (p_hkdf_sha1 P i s info n) = n;
    ul_open : open_len_ok P;
    ul_aes_dec : forall k b, lenN b = 16 -> lenN (p_aes_dec P k b) = 16;
    ul_aes_enc : forall k b, lenN b = 16 -> lenN (p_aes_enc P k b) = 16;
    ul_b3hash : forall m, lenN (p_b3hash P m) = 32
  }.

  (* ============================================================================================ *)
  (* (i) no panic                                                                                  *)
  (* ============================================================================================ *)
  Definition parse_min (m : mode) : N := match m with Client => 19 | Server => 11 end.

  Lemma udp_parse_no_panic m now sid pid u pt : parse_min m <= lenN pt -> udp_parse m now sid pid u pt <> Panic.
  Proof.
    intros Hlen. unfold udp_parse.
    assert (H1 : 1 <= lenN pt) by (destruct m; cbn [parse_min] in Hlen; lia).
    destruct (get_u8_ok pt H1) as (ty & p1 & -> & ->). cbn [bind]. rewrite lenN_cons in Hlen.
    destruct (negb (ty =? mode_expect_u8 m)); [discriminate|].
    rewrite get_u64_ok by (destruct m; cbn [parse_min] in Hlen; lia). cbn [bind].
    destruct (negb (validate_timestamp now (be (takeN 8 p1)))); [discriminate|].
    set (p2 := dropN 8 p1). assert (Hp2 : lenN p2 = lenN p1 - 8) by apply lenN_dropN.
    assert (exists csid p3, (match m with Client => get_u64 p2 | Server => Ok (sid, p2) end) = Ok (csid, p3) /\ 2 <= lenN p3)
      as (csid & p3 & -> & Hp3).
    { destruct m; cbn [parse_min] in Hlen.
      - rewrite get_u64_ok by lia. do 2 eexists. split; [reflexivity|]. rewrite lenN_dropN. lia.
      - do 2 eexists. split; [reflexivity|]. lia. }
    cbn [bind]. unfold get_u16. rewrite get_be_ok by assumption. cbn [bind].
    destruct (N.ltb_spec (lenN (dropN 2 p3)) (be (takeN 2 p3))) as [|Hpad]; [discriminate|].
    rewrite advance_ok by assumption. cbn [bind].
    apply bind_no_panic; [apply s5_decode_total|]. intros [a r] _. discriminate.
  Qed.

  Lemma aes_block_dec_16 (UL : udp_lens) k key b d : lenN b = 16 -> aes_block_dec P k key b = Ok d -> lenN d = 16.
  Proof.
    intros Hb. unfold aes_block_dec. destruct (negb (lenN key =? aes_keylen k)); [discriminate|].
    rewrite Hb. cbn [N.eqb Pos.eqb negb]. intros [= <-]. apply (ul_aes_dec UL). exact Hb.
  Qed.
  Lemma aes_block_dec_no_panic k key b : lenN b = 16 -> aes_block_dec P k key b <> Panic.
  Proof.
    intros Hb. unfold aes_block_dec. destruct (negb (lenN key =? aes_keylen k)); [discriminate|].
    rewrite Hb. cbn [N.eqb Pos.eqb negb]. discriminate.
  Qed.

  Lemma udp_cipher_key_aes_ok (UL : udp_lens) k key sid : support_eih k = true ->
    exists ck, udp_cipher_key P k key sid = Ok ck.
  Proof.
    intros Hk. unfold udp_cipher_key. rewrite Hk. unfold session_sub_key. rewrite (ul_b3 UL).
    pose proof (key_size_le_32 (kind_cipher k)).
    destruct (N.ltb_spec 32 (cipher_key_size (kind_cipher k))); [lia|]. eexists; reflexivity.
  Qed.
  Lemma udp_cipher_key_xc_ok k key sid : support_eih k = false -> 32 <= lenN key ->
    udp_cipher_key P k key sid = Ok (takeN 32 key).
  Proof.
    intros Hk Hl. unfold udp_cipher_key. rewrite Hk. destruct (N.ltb_spec (lenN key) 32); [lia|]. reflexivity.
  Qed.

  Lemma udp_header_length_ge cx : udp_nonce_len (uc_kind cx) + 16 + 16 + (if udp_require_eih cx then 16 else 0) + parse_min (uc_mode cx)
                                  = udp_header_length cx.
  Proof. unfold udp_header_length, TAG, parse_min. destruct (uc_mode cx), (udp_require_eih cx); lia. Qed.

  Lemma udp_open_aes_no_panic (UL : udp_lens) cx src :
    support_eih (uc_kind cx) = true -> udp_header_length cx <= lenN src ->
    match udp_open_aes P cx (udp_require_eih cx) src with
    | Panic => False
    | Err _ => True
    | Ok (_, _, _, pt) => parse_min (uc_mode cx) <= lenN pt
    end.
  Proof.
    intros Hk Hlen. rewrite <- udp_header_length_ge in Hlen. unfold udp_nonce_len in Hlen. rewrite Hk in Hlen.
    unfold udp_open_aes.
    rewrite split_to_ok by lia. cbn [bind].
    assert (Hh : lenN (takeN 16 src) = 16) by (apply lenN_takeN; lia).
    destruct (aes_block_dec P (uc_kind cx) (uc_key cx) (takeN 16 src)) as [dec|e|] eqn:Edec; cbn [bind]; [|exact I|].
    2:{ exact (aes_block_dec_no_panic _ _ _ Hh Edec). }
    pose proof (aes_block_dec_16 UL _ _ _ _ Hh Edec) as Hd.
    rewrite Hd. cbn [N.ltb N.compare Pos.compare Pos.compare_cont bind].
    rewrite get_u64_ok by lia. cbn [bind]. rewrite get_u64_ok by (rewrite lenN_dropN; lia). cbn [bind].
    set (rest := dropN 16 src). assert (Hrest : lenN rest = lenN src - 16) by apply lenN_dropN.
    destruct (udp_require_eih cx) eqn:Ereq.
    - rewrite split_to_ok by lia. cbn [bind].
      assert (He : lenN (takeN 16 rest) = 16) by (apply lenN_takeN; lia).
      destruct (aes_block_dec P (uc_kind cx) (uc_key cx) (takeN 16 rest)) as [e|e|] eqn:Ee; cbn [bind]; [|exact I|].
      2:{ exact (aes_block_dec_no_panic _ _ _ He Ee). }
      destruct (find_user _ _) as [u|]; cbn [bind]; [|exact I].
      destruct (udp_cipher_key_aes_ok UL (uc_kind cx) (u_key u) (be (takeN 8 dec)) Hk) as [ck ->]. cbn [bind].
      destruct (p_open P _ ck _ [] (dropN 16 rest)) as [pt|] eqn:Eo; [|exact I].
      apply (ul_open UL) in Eo. rewrite lenN_dropN in Eo. unfold TAG in Eo. lia.
    - cbn [bind].
      destruct (udp_cipher_key_aes_ok UL (uc_kind cx) (uc_key cx) (be (takeN 8 dec)) Hk) as [ck ->]. cbn [bind].
      destruct (p_open P _ ck _ [] rest) as [pt|] eqn:Eo; [|exact I].
      apply (ul_open UL) in Eo. unfold TAG in Eo. lia.
  Qed.

  Lemma udp_open_xc_no_panic (UL : udp_lens) cx src :
    support_eih (uc_kind cx) = false -> 32 <= lenN (uc_key cx) -> udp_header_length cx <= lenN src ->
    match udp_open_xc P cx src with
    | Panic => False
    | Err _ => True
    | Ok (_, _, _, pt) => parse_min (uc_mode cx) <= lenN pt
    end.
  Proof.
    intros Hk Hkey Hlen. rewrite <- udp_header_length_ge in Hlen. unfold udp_nonce_len in Hlen. rewrite Hk in Hlen.
    assert (Hreq : udp_require_eih cx = false).
    { unfold udp_require_eih. rewrite Hk. destruct (uc_mode cx); reflexivity. }
    rewrite Hreq in Hlen.
    unfold udp_open_xc. rewrite split_to_ok by lia. cbn [bind].
    set (text := dropN 24 src). assert (Ht : lenN text = lenN src - 24) by apply lenN_dropN.
    destruct (N.ltb_spec (lenN text) 8); [lia|].
    rewrite udp_cipher_key_xc_ok by assumption. cbn [bind].
    destruct (p_open P _ _ _ [] text) as [pt|] eqn:Eo; [|exact I].
    apply (ul_open UL) in Eo. unfold TAG in Eo.
    rewrite get_u64_ok by lia. cbn [bind]. rewrite get_u64_ok by (rewrite lenN_dropN; lia). cbn [bind].
    rewrite !lenN_dropN. lia.
  Qed.

  (* The key-length premise is what the configuration layer guarantees (keys are [u8; N]); the Rust code
     slices `key[..32]` (XChaCha kinds) / the HKDF output `[..KeySize]` (legacy kinds) without a check.
     For the 2022 AES kinds NO premise on the key is needed: a wrong length is an error return. *)
  Theorem ssu_decode_no_panic (UL : udp_lens) cx now src :
    (support_eih (uc_kind cx) = false -> kind_n (uc_kind cx) <= lenN (uc_key cx)) ->
    ssu_decode P cx now src <> Panic.
  Proof.
    intros Hkey. unfold ssu_decode. destruct (is_2022 (uc_kind cx)) eqn:E22.
    - unfold ssu_decode_2022. destruct (N.ltb_spec (lenN src) (udp_header_length cx)) as [|Hlen]; [discriminate|].
      destruct (support_eih (uc_kind cx)) eqn:Ek.
      + pose proof (udp_open_aes_no_panic UL cx src Ek Hlen) as H.
        destruct (udp_open_aes P cx (udp_require_eih cx) src) as [[[[sid pid] u] pt]|e|]; cbn [bind]; [|discriminate|contradiction].
        apply udp_parse_no_panic. exact H.
      + assert (Hk32 : 32 <= lenN (uc_key cx)).
        { specialize (Hkey eq_refl). destruct (uc_kind cx); cbn [is_2022 support_eih kind_n] in *; try discriminate; exact Hkey. }
        pose proof (udp_open_xc_no_panic UL cx src Ek Hk32 Hlen) as H.
        destruct (udp_open_xc P cx src) as [[[[sid pid] u] pt]|e|]; cbn [bind]; [|discriminate|contradiction].
        apply udp_parse_no_panic. exact H.
    - unfold ssu_decode_legacy.
      destruct (N.ltb_spec (lenN src) (lenN (uc_key cx))) as [|Hlen]; [discriminate|].
      rewrite split_to_ok by assumption. cbn [bind].
      destruct (HKDF_SHA1_MAX <? lenN (uc_key cx)); [discriminate|].
      assert (Ek : support_eih (uc_kind cx) = false) by (destruct (uc_kind cx); cbn in *; congruence).
      specialize (Hkey Ek).
      unfold new_auth_legacy, auth_new. rewrite (ul_hkdf UL), lenN_takeN by assumption.
      rewrite key_size_kind. destruct (N.ltb_spec (lenN (uc_key cx)) (kind_n (uc_kind cx))); [lia|]. cbn [bind].
      unfold decode_packet. destruct (fst (auth_open P _ _)); cbn [bind]; [|discriminate].
      apply bind_no_panic; [apply s5_decode_total|]. intros [a r] _. discriminate.
  Qed.

  Corollary ssu_session_decode_no_panic (UL : udp_lens) cx now src :
    (support_eih (uc_kind cx) = false -> kind_n (uc_kind cx) <= lenN (uc_key cx)) ->
    ssu_session_decode P cx now src <> Panic.
  Proof.
    intros Hkey. unfold ssu_session_decode. destruct src as [|x t]; [discriminate|].
    apply bind_no_panic; [apply ssu_decode_no_panic; assumption|]. intros r _. discriminate.
  Qed.

  (* ============================================================================================ *)
  (* (ii) round trips and (iii) type / time rules                                                  *)
  (* ============================================================================================ *)
  Hypothesis PL : prim_laws P.

  Lemma split_to_app_len n (a b : bytes) : lenN a = n -> split_to n (a ++ b) = Ok (a, b).
  Proof. intros <-. apply split_to_app. Qed.
  Lemma advance_app (a b : bytes) : advance (lenN a) (a ++ b) = Ok b.
  Proof. rewrite advance_ok by (rewrite lenN_app; lia). rewrite dropN_app_exact. reflexivity. Qed.
  Lemma get_u64_put_nil v : v < 2 ^ 64 -> get_u64 (put_u64 v) = Ok (v, []).
  Proof. intros H. rewrite <- (app_nil_r (put_u64 v)). apply get_u64_put. exact H. Qed.
  Lemma lenN_sidpid sid pid : lenN (put_u64 sid ++ put_u64 pid) = 16.
  Proof. rewrite lenN_app, !lenN_put_u64. reflexivity. Qed.

  (* ---- the common tail ---- *)
  Definition client_body (now : N) (pad : bytes) (a : addr) (item : bytes) : bytes :=
    [mode_to_u8 Client] ++ put_u64 now ++ put_u16 (lenN pad) ++ pad ++ s5_encode a ++ item.
  Definition server_body (now csid : N) (pad : bytes) (a : addr) (item : bytes) : bytes :=
    [mode_to_u8 Server] ++ put_u64 now ++ put_u64 csid ++ put_u16 (lenN pad) ++ pad ++ s5_encode a ++ item.

  Lemma pad_tail_ok pad a item : lenN pad < 65536 -> addr_wf a -> representable a ->
    forall (K : bytes * addr -> res (bytes * addr * usess)),
    (let* (padlen, p) := get_u16 (put_u16 (lenN pad) ++ pad ++ s5_encode a ++ item) in
     if lenN p <? padlen then Err EShort else
     let* p := advance padlen p in
     let* (a', p) := s5_decode p in K (p, a')) = K (item, a).
  Proof.
    intros Hp Hw Hr K. rewrite get_u16_put by assumption. cbn [bind].
    rewrite lenN_app. destruct (N.ltb_spec (lenN pad + lenN (s5_encode a ++ item)) (lenN pad)); [lia|].
    rewrite advance_app. cbn [bind]. rewrite s5_roundtrip by assumption. reflexivity.
  Qed.

  (* a client packet's body read by a server *)
  Lemma udp_parse_server_fresh now' now pad a item sid pid u :
    now < 2 ^ 64 -> lenN pad < 65536 -> addr_wf a -> representable a -> abs_diff now' now <= 30 ->
    udp_parse Server now' sid pid u (client_body now pad a item)
    = Ok (item, a, {| us_csid := sid; us_ssid := 0; us_pid := pid; us_user := u |}).
  Proof.
    intros Hn Hp Hw Hr Ht. unfold udp_parse, client_body. cbn [mode_to_u8 app get_u8 bind mode_expect_u8 N.eqb negb].
    rewrite get_u64_put by assumption. cbn [bind].
    rewrite (proj2 (validate_timestamp_spec now' now) Ht). cbn [negb].
    apply (pad_tail_ok pad a item Hp Hw Hr (fun '(p, a') => Ok (p, a', _))).
  Qed.
  Lemma udp_parse_server_stale now' now pad a item sid pid u :
    now < 2 ^ 64 -> 30 < abs_diff now' now ->
    udp_parse Server now' sid pid u (client_body now pad a item) = Err EBadTime.
  Proof.
    intros Hn Ht. unfold udp_parse, client_body. cbn [mode_to_u8 app get_u8 bind mode_expect_u8 N.eqb negb].
    rewrite get_u64_put by assumption. cbn [bind].
    destruct (validate_timestamp now' now) eqn:E; [apply validate_timestamp_spec in E; lia|]. reflexivity.
  Qed.
  (* a server packet's body read by a client *)
  Lemma udp_parse_client_fresh now' now csid pad a item sid pid u :
    now < 2 ^ 64 -> csid < 2 ^ 64 -> lenN pad < 65536 -> addr_wf a -> representable a -> abs_diff now' now <= 30 ->
    udp_parse Client now' sid pid u (server_body now csid pad a item)
    = Ok (item, a, {| us_csid := csid; us_ssid := sid; us_pid := pid; us_user := None |}).
  Proof.
    intros Hn Hc Hp Hw Hr Ht. unfold udp_parse, server_body. cbn [mode_to_u8 app get_u8 bind mode_expect_u8 N.eqb Pos.eqb negb].
    rewrite get_u64_put by assumption. cbn [bind].
    rewrite (proj2 (validate_timestamp_spec now' now) Ht). cbn [negb].
    rewrite get_u64_put by assumption. cbn [bind].
    apply (pad_tail_ok pad a item Hp Hw Hr (fun '(p, a') => Ok (p, a', _))).
  Qed.
  Lemma udp_parse_client_stale now' now csid pad a item sid pid u :
    now < 2 ^ 64 -> 30 < abs_diff now' now ->
    udp_parse Client now' sid pid u (server_body now csid pad a item) = Err EBadTime.
  Proof.
    intros Hn Ht. unfold udp_parse, server_body. cbn [mode_to_u8 app get_u8 bind mode_expect_u8 N.eqb Pos.eqb negb].
    rewrite get_u64_put by assumption. cbn [bind].
    destruct (validate_timestamp now' now) eqn:E; [apply validate_timestamp_spec in E; lia|]. reflexivity.
  Qed.

  (* (iii) whatever is accepted carries the expected type byte and a timestamp inside the window *)
  Theorem udp_parse_accept m now sid pid u pt r : udp_parse m now sid pid u pt = Ok r ->
    exists tl, pt = mode_expect_u8 m :: tl /\ 8 <= lenN tl /\ abs_diff now (be (takeN 8 tl)) <= 30.
  Proof.
    unfold udp_parse. destruct pt as [|ty tl]; [discriminate|]. cbn [get_u8 bind].
    destruct (N.eqb_spec ty (mode_expect_u8 m)) as [->|]; cbn [negb]; [|discriminate].
    intros H. exists tl. split; [reflexivity|].
    destruct (get_u64 tl) as [[ts p]|e|] eqn:Eg; cbn [bind] in H; try discriminate.
    apply get_be_inv in Eg. destruct Eg as (Hl & -> & ->).
    destruct (validate_timestamp now (be (takeN 8 tl))) eqn:Ev; cbn [negb] in H; [|discriminate].
    apply validate_timestamp_spec in Ev. auto.
  Qed.
  Theorem udp_parse_wrong_type m now sid pid u ty tl : ty <> mode_expect_u8 m ->
    udp_parse m now sid pid u (ty :: tl) = Err EBadType.
  Proof.
    intros H. unfold udp_parse. cbn [get_u8 bind]. destruct (N.eqb_spec ty (mode_expect_u8 m)); [contradiction|]. reflexivity.
  Qed.
  (* reflection at the level of the authenticated plaintext: a body made by a client is refused by a client, etc. *)
  Corollary udp_parse_reflected_client now' now pad a item sid pid u :
    udp_parse Client now' sid pid u (client_body now pad a item) = Err EBadType.
  Proof. apply udp_parse_wrong_type. cbn. discriminate. Qed.
  Corollary udp_parse_reflected_server now' now csid pad a item sid pid u :
    udp_parse Server now' sid pid u (server_body now csid pad a item) = Err EBadType.
  Proof. apply udp_parse_wrong_type. cbn. discriminate. Qed.

  (* the plaintext the decoder authenticates: what `decrypt_message` / the match in decode_client_packet returns *)
  Definition udp_opened (cx : uctx) (src : bytes) : res (N * N * option user * bytes) :=
    if support_eih (uc_kind cx) then udp_open_aes P cx (udp_require_eih cx) src else udp_open_xc P cx src.

  Theorem accepted_2022_typed_and_fresh cx now src r :
    is_2022 (uc_kind cx) = true -> ssu_decode P cx now src = Ok r ->
    exists sid pid u tl,
      udp_opened cx src = Ok (sid, pid, u, mode_expect_u8 (uc_mode cx) :: tl) /\
      8 <= lenN tl /\ abs_diff now (be (takeN 8 tl)) <= 30.
  Proof.
    intros E22 H. unfold ssu_decode in H. rewrite E22 in H. unfold ssu_decode_2022 in H.
    destruct (lenN src <? udp_header_length cx); [discriminate|].
    fold (udp_opened cx src) in H.
    destruct (udp_opened cx src) as [[[[sid pid] u] pt]|e|]; cbn [bind] in H; try discriminate.
    destruct (udp_parse_accept _ _ _ _ _ _ _ H) as (tl & -> & H1 & H2).
    exists sid, pid, u, tl. auto.
  Qed.

  (* ---- opening what was sealed: AES kinds ---- *)
  Lemma aes_block_enc_ok k key b : lenN key = aes_keylen k -> lenN b = 16 -> aes_block_enc P k key b = Ok (p_aes_enc P key b).
  Proof. intros Hk Hb. unfold aes_block_enc. rewrite Hk, Hb, N.eqb_refl. reflexivity. Qed.
  Lemma aes_block_dec_enc (UL : udp_lens) k key b : lenN key = aes_keylen k -> lenN b = 16 ->
    aes_block_dec P k key (p_aes_enc P key b) = Ok b.
  Proof.
    intros Hk Hb. unfold aes_block_dec. rewrite Hk, N.eqb_refl, (ul_aes_enc UL) by assumption.
    cbn [N.eqb Pos.eqb negb]. rewrite (aes_dec_enc P PL). reflexivity.
  Qed.

  Lemma nonce_of_sidpid sid pid : takeN 12 (dropN 4 (put_u64 sid ++ put_u64 pid)) = udp_aes_nonce sid pid.
  Proof. apply takeN_all. fold (udp_aes_nonce sid pid). rewrite udp_aes_nonce_len. lia. Qed.

  Lemma udp_open_aes_plain (UL : udp_lens) cx sid pid ck body :
    lenN (uc_key cx) = aes_keylen (uc_kind cx) -> sid < 2 ^ 64 -> pid < 2 ^ 64 ->
    udp_cipher_key P (uc_kind cx) (uc_key cx) sid = Ok ck ->
    udp_open_aes P cx false
      (p_aes_enc P (uc_key cx) (put_u64 sid ++ put_u64 pid) ++
       p_seal P (udp_cipher_id (uc_kind cx)) ck (udp_aes_nonce sid pid) [] body)
    = Ok (sid, pid, None, body).
  Proof.
    intros Hk Hs Hp Hck. unfold udp_open_aes.
    rewrite split_to_app_len by (apply (ul_aes_enc UL), lenN_sidpid). cbn [bind].
    rewrite aes_block_dec_enc by (assumption || apply lenN_sidpid). cbn [bind].
    rewrite lenN_sidpid. cbn [N.ltb N.compare Pos.compare Pos.compare_cont bind].
    rewrite get_u64_put by assumption. cbn [bind]. rewrite get_u64_put_nil by assumption. cbn [bind].
    rewrite Hck. cbn [bind]. rewrite nonce_of_sidpid, (open_seal P PL). reflexivity.
  Qed.

  Lemma udp_open_aes_eih (UL : udp_lens) cx us u h16 sid pid ck body :
    lenN (uc_key cx) = aes_keylen (uc_kind cx) -> sid < 2 ^ 64 -> pid < 2 ^ 64 ->
    uc_users cx = Some us -> find_user us h16 = Some u -> lenN h16 = 16 ->
    udp_cipher_key P (uc_kind cx) (u_key u) sid = Ok ck ->
    udp_open_aes P cx true
      (p_aes_enc P (uc_key cx) (put_u64 sid ++ put_u64 pid) ++
       p_aes_enc P (uc_key cx) (xor_into h16 (put_u64 sid ++ put_u64 pid)) ++
       p_seal P (udp_cipher_id (uc_kind cx)) ck (udp_aes_nonce sid pid) [] body)
    = Ok (sid, pid, Some u, body).
  Proof.
    intros Hk Hs Hp Hus Hf Hh Hck. unfold udp_open_aes.
    rewrite split_to_app_len by (apply (ul_aes_enc UL), lenN_sidpid). cbn [bind].
    rewrite aes_block_dec_enc by (assumption || apply lenN_sidpid). cbn [bind].
    rewrite lenN_sidpid. cbn [N.ltb N.compare Pos.compare Pos.compare_cont bind].
    rewrite get_u64_put by assumption. cbn [bind]. rewrite get_u64_put_nil by assumption. cbn [bind].
    assert (Hx : lenN (xor_into h16 (put_u64 sid ++ put_u64 pid)) = 16) by (rewrite lenN_xor_into; exact Hh).
    rewrite split_to_app_len by (apply (ul_aes_enc UL), Hx). cbn [bind].
    rewrite aes_block_dec_enc by assumption. cbn [bind].
    rewrite xor_into_involutive, Hus, Hf. cbn [bind]. rewrite Hck. cbn [bind].
    rewrite nonce_of_sidpid, (open_seal P PL). reflexivity.
  Qed.

  (* ---- opening what was sealed: XChaCha kinds ---- *)
  Lemma udp_open_xc_sealed cx rnd sid pid body :
    support_eih (uc_kind cx) = false -> 32 <= lenN (uc_key cx) -> lenN rnd = 24 -> sid < 2 ^ 64 -> pid < 2 ^ 64 ->
    udp_open_xc P cx (rnd ++ p_seal P (udp_cipher_id (uc_kind cx)) (takeN 32 (uc_key cx)) rnd [] ((put_u64 sid ++ put_u64 pid) ++ body))
    = Ok (sid, pid, None, body).
  Proof.
    intros Hk Hkey Hr Hs Hp. unfold udp_open_xc. rewrite split_to_app_len by assumption. cbn [bind].
    rewrite (seal_len P PL), !lenN_app, !lenN_put_u64. unfold TAG.
    destruct (N.ltb_spec (8 + 8 + lenN body + 16) 8); [lia|].
    rewrite udp_cipher_key_xc_ok by assumption. cbn [bind]. rewrite (open_seal P PL).
    rewrite <- !app_assoc. rewrite get_u64_put by assumption. cbn [bind]. rewrite get_u64_put by assumption. reflexivity.
  Qed.

  Lemma header_check_passes cx (w : bytes) : udp_header_length cx <= lenN w -> (lenN w <? udp_header_length cx) = false.
  Proof. intros H. apply N.ltb_ge. exact H. Qed.

  Lemma lenN_client_body now pad a item : lenN (client_body now pad a item) = 1 + 8 + 2 + lenN pad + lenN (s5_encode a) + lenN item.
  Proof. unfold client_body. rewrite !lenN_app, lenN_put_u64, lenN_put_u16. cbn [lenN lenN_acc mode_to_u8]. lia. Qed.
  Lemma lenN_server_body now csid pad a item : lenN (server_body now csid pad a item) = 1 + 8 + 8 + 2 + lenN pad + lenN (s5_encode a) + lenN item.
  Proof. unfold server_body. rewrite !lenN_app, !lenN_put_u64, lenN_put_u16. cbn [lenN lenN_acc mode_to_u8]. lia. Qed.

  Lemma aes_is_2022 k : support_eih k = true -> is_2022 k = true.
  Proof. destruct k; cbn; congruence. Qed.

  (* ---------------- the wire of each case, and what the peer's decoder makes of it ---------------- *)

  (* 2022 AES, client -> server, no identity keys *)
  Lemma wire_aes_client_plain (UL : udp_lens) cx dcx now now' rnd pad s a item :
    support_eih (uc_kind cx) = true -> uc_mode cx = Client -> uc_ikeys cx = [] ->
    uc_kind dcx = uc_kind cx -> uc_mode dcx = Server -> uc_key dcx = uc_key cx ->
    (uc_users dcx = None \/ uc_users dcx = Some []) ->
    lenN (uc_key cx) = aes_keylen (uc_kind cx) -> us_csid s < 2 ^ 64 -> us_pid s < 2 ^ 64 ->
    exists w, ssu_encode P cx now rnd pad s a item = Ok w /\
              ssu_decode P dcx now' w = udp_parse Server now' (us_csid s) (us_pid s) None (client_body now pad a item).
  Proof.
    intros Hk Hm Hik Hdk Hdm Hdkey Hus Hkl Hc Hp.
    destruct (udp_cipher_key_aes_ok UL (uc_kind cx) (uc_key cx) (us_csid s) Hk) as [ck Hck].
    unfold ssu_encode. rewrite (aes_is_2022 _ Hk), Hm. unfold ssu_encode_client. rewrite Hk, Hik. cbn [andb bind].
    rewrite aes_block_enc_ok by (assumption || apply lenN_sidpid). cbn [bind]. rewrite Hck. cbn [bind].
    change (takeN 0 []) with (@nil N). change (dropN 0 [] ++ ?x) with x. change (@nil N ++ ?x) with x.
    fold (client_body now pad a item). fold (udp_aes_nonce (us_csid s) (us_pid s)).
    eexists. split; [reflexivity|].
    unfold ssu_decode. rewrite Hdk, (aes_is_2022 _ Hk). unfold ssu_decode_2022.
    assert (Hreq : udp_require_eih dcx = false).
    { unfold udp_require_eih. rewrite Hdm. destruct Hus as [-> | ->]; apply andb_false_r. }
    rewrite header_check_passes.
    2:{ unfold udp_header_length, udp_nonce_len. rewrite Hreq, Hdm, Hdk, Hk. rewrite lenN_app, (ul_aes_enc UL) by apply lenN_sidpid.
        rewrite (seal_len P PL). rewrite lenN_client_body. unfold TAG. lia. }
    rewrite Hdk, Hk, Hreq.
    rewrite <- Hdkey, <- Hdk. rewrite udp_open_aes_plain; try assumption.
    - cbn [bind]. rewrite Hdm. reflexivity.
    - rewrite Hdk, Hdkey. exact Hkl.
    - rewrite Hdk, Hdkey. exact Hck.
  Qed.

  (* 2022 AES, client -> server, one identity key; the server's table contains the client's user *)
  Lemma wire_aes_client_eih (UL : udp_lens) cx dcx ik us u now now' rnd pad s a item :
    support_eih (uc_kind cx) = true -> uc_mode cx = Client -> uc_ikeys cx = [ik] ->
    uc_kind dcx = uc_kind cx -> uc_mode dcx = Server -> uc_key dcx = ik -> uc_users dcx = Some us ->
    find_user us (takeN 16 (p_b3hash P (uc_key cx))) = Some u -> u_key u = uc_key cx ->
    lenN ik = aes_keylen (uc_kind cx) -> us_csid s < 2 ^ 64 -> us_pid s < 2 ^ 64 ->
    exists w, ssu_encode P cx now rnd pad s a item = Ok w /\
              ssu_decode P dcx now' w = udp_parse Server now' (us_csid s) (us_pid s) (Some u) (client_body now pad a item).
  Proof.
    intros Hk Hm Hik Hdk Hdm Hdkey Hus Hf Hu Hkl Hc Hp.
    destruct (udp_cipher_key_aes_ok UL (uc_kind cx) (uc_key cx) (us_csid s) Hk) as [ck Hck].
    set (sidpid := put_u64 (us_csid s) ++ put_u64 (us_pid s)).
    set (h16 := takeN 16 (p_b3hash P (uc_key cx))).
    assert (Hh : lenN h16 = 16) by (apply lenN_takeN; rewrite (ul_b3hash UL); lia).
    assert (Hx : lenN (xor_into h16 sidpid) = 16) by (rewrite lenN_xor_into; exact Hh).
    unfold ssu_encode. rewrite (aes_is_2022 _ Hk), Hm. unfold ssu_encode_client. rewrite Hk, Hik. cbn [andb udp_with_eih bind].
    unfold lenN_ikeys. cbn [List.length]. change (16 * N.of_nat 1) with 16.
    unfold udp_make_eih. rewrite (ul_b3hash UL). cbn [N.ltb N.compare Pos.compare Pos.compare_cont].
    fold h16. fold sidpid.
    rewrite aes_block_enc_ok by assumption. cbn [bind]. rewrite app_nil_r.
    rewrite aes_block_enc_ok by (assumption || apply lenN_sidpid). cbn [bind]. rewrite Hck. cbn [bind].
    assert (He1 : lenN (p_aes_enc P ik (xor_into h16 sidpid)) = 16) by (apply (ul_aes_enc UL); exact Hx).
    rewrite (takeN_all 16 (p_aes_enc P ik (xor_into h16 sidpid))) by lia.
    rewrite (dropN_all 16 (p_aes_enc P ik (xor_into h16 sidpid))) by lia.
    change (@nil N ++ ?x) with x.
    fold (client_body now pad a item). unfold sidpid at 3. fold (udp_aes_nonce (us_csid s) (us_pid s)).
    eexists. split; [reflexivity|].
    unfold ssu_decode. rewrite Hdk, (aes_is_2022 _ Hk). unfold ssu_decode_2022.
    assert (Hne : exists u0 t, us = u0 :: t).
    { destruct us as [|u0 t]; [discriminate Hf|]. eauto. }
    assert (Hreq : udp_require_eih dcx = true).
    { unfold udp_require_eih. rewrite Hdm, Hdk, Hk, Hus. destruct Hne as (u0 & t & ->). reflexivity. }
    rewrite header_check_passes.
    2:{ unfold udp_header_length, udp_nonce_len. rewrite Hreq, Hdm, Hdk, Hk. rewrite !lenN_app, !(ul_aes_enc UL) by (assumption || apply lenN_sidpid).
        rewrite (seal_len P PL). rewrite lenN_client_body. unfold TAG. lia. }
    rewrite Hdk, Hk, Hreq. rewrite <- Hdkey, <- Hdk. unfold sidpid.
    rewrite (udp_open_aes_eih UL dcx us u h16); try assumption.
    - cbn [bind]. rewrite Hdm. reflexivity.
    - rewrite Hdk, Hdkey. exact Hkl.
    - rewrite Hdk, Hu. exact Hck.
  Qed.

  (* 2022 AES, server -> client: the header key and the body key are the user's key when the session has a user *)
  Lemma wire_aes_server (UL : udp_lens) cx dcx now now' rnd pad s a item :
    support_eih (uc_kind cx) = true -> uc_mode cx = Server ->
    uc_kind dcx = uc_kind cx -> uc_mode dcx = Client ->
    uc_key dcx = (match us_user s with Some u => u_key u | None => uc_key cx end) ->
    lenN (uc_key dcx) = aes_keylen (uc_kind cx) -> us_ssid s < 2 ^ 64 -> us_pid s < 2 ^ 64 ->
    exists w, ssu_encode P cx now rnd pad s a item = Ok w /\
              ssu_decode P dcx now' w = udp_parse Client now' (us_ssid s) (us_pid s) None (server_body now (us_csid s) pad a item).
  Proof.
    intros Hk Hm Hdk Hdm Hdkey Hkl Hc Hp.
    destruct (udp_cipher_key_aes_ok UL (uc_kind cx) (uc_key dcx) (us_ssid s) Hk) as [ck Hck].
    unfold ssu_encode. rewrite (aes_is_2022 _ Hk), Hm. unfold ssu_encode_server. rewrite Hk, <- Hdkey.
    rewrite aes_block_enc_ok by (assumption || apply lenN_sidpid). cbn [bind]. rewrite Hck. cbn [bind].
    fold (server_body now (us_csid s) pad a item). fold (udp_aes_nonce (us_ssid s) (us_pid s)).
    eexists. split; [reflexivity|].
    unfold ssu_decode. rewrite Hdk, (aes_is_2022 _ Hk). unfold ssu_decode_2022.
    assert (Hreq : udp_require_eih dcx = false) by (unfold udp_require_eih; rewrite Hdm; reflexivity).
    rewrite header_check_passes.
    2:{ unfold udp_header_length, udp_nonce_len. rewrite Hreq, Hdm, Hdk, Hk. rewrite lenN_app, (ul_aes_enc UL) by apply lenN_sidpid.
        rewrite (seal_len P PL). rewrite lenN_server_body. unfold TAG. lia. }
    rewrite Hdk, Hk, Hreq. rewrite <- Hdk. rewrite udp_open_aes_plain; try assumption.
    - cbn [bind]. rewrite Hdm. reflexivity.
    - rewrite Hdk. exact Hkl.
    - rewrite Hdk. exact Hck.
  Qed.

  Lemma xc_is_not_aes k : is_2022 k = true -> support_eih k = false -> k = K22_CC8 \/ k = K22_CC20.
  Proof. destruct k; cbn; intros; try discriminate; auto. Qed.

  (* 2022 XChaCha, client -> server *)
  Lemma wire_xc_client cx dcx now now' rnd pad s a item :
    is_2022 (uc_kind cx) = true -> support_eih (uc_kind cx) = false -> uc_mode cx = Client ->
    uc_kind dcx = uc_kind cx -> uc_mode dcx = Server -> uc_key dcx = uc_key cx ->
    32 <= lenN (uc_key cx) -> lenN rnd = 24 -> us_csid s < 2 ^ 64 -> us_pid s < 2 ^ 64 ->
    exists w, ssu_encode P cx now rnd pad s a item = Ok w /\
              ssu_decode P dcx now' w = udp_parse Server now' (us_csid s) (us_pid s) None (client_body now pad a item).
  Proof.
    intros E22 Hk Hm Hdk Hdm Hdkey Hkl Hr Hc Hp.
    unfold ssu_encode. rewrite E22, Hm. unfold ssu_encode_client. rewrite Hk. cbn [andb bind].
    rewrite udp_cipher_key_xc_ok by assumption. cbn [bind].
    fold (client_body now pad a item).
    eexists. split; [reflexivity|].
    unfold ssu_decode. rewrite Hdk, E22. unfold ssu_decode_2022.
    assert (Hreq : udp_require_eih dcx = false) by (unfold udp_require_eih; rewrite Hdm, Hdk, Hk; reflexivity).
    rewrite header_check_passes.
    2:{ unfold udp_header_length, udp_nonce_len. rewrite Hreq, Hdm, Hdk, Hk. rewrite lenN_app, Hr.
        rewrite (seal_len P PL). rewrite lenN_app, lenN_sidpid, lenN_client_body. unfold TAG. lia. }
    rewrite Hdk, Hk. rewrite <- Hdk, <- Hdkey. rewrite udp_open_xc_sealed; try assumption.
    - cbn [bind]. rewrite Hdm. reflexivity.
    - rewrite Hdk. exact Hk.
    - rewrite Hdkey. exact Hkl.
  Qed.

  (* 2022 XChaCha, server -> client (the session's user plays no role for these kinds) *)
  Lemma wire_xc_server cx dcx now now' rnd pad s a item :
    is_2022 (uc_kind cx) = true -> support_eih (uc_kind cx) = false -> uc_mode cx = Server ->
    uc_kind dcx = uc_kind cx -> uc_mode dcx = Client -> uc_key dcx = uc_key cx ->
    32 <= lenN (uc_key cx) -> lenN rnd = 24 -> us_ssid s < 2 ^ 64 -> us_pid s < 2 ^ 64 ->
    exists w, ssu_encode P cx now rnd pad s a item = Ok w /\
              ssu_decode P dcx now' w = udp_parse Client now' (us_ssid s) (us_pid s) None (server_body now (us_csid s) pad a item).
  Proof.
    intros E22 Hk Hm Hdk Hdm Hdkey Hkl Hr Hc Hp.
    unfold ssu_encode. rewrite E22, Hm. unfold ssu_encode_server. rewrite Hk.
    rewrite udp_cipher_key_xc_ok by assumption. cbn [bind].
    fold (server_body now (us_csid s) pad a item).
    eexists. split; [reflexivity|].
    unfold ssu_decode. rewrite Hdk, E22. unfold ssu_decode_2022.
    assert (Hreq : udp_require_eih dcx = false) by (unfold udp_require_eih; rewrite Hdm; reflexivity).
    rewrite header_check_passes.
    2:{ unfold udp_header_length, udp_nonce_len. rewrite Hreq, Hdm, Hdk, Hk. rewrite lenN_app, Hr.
        rewrite (seal_len P PL). rewrite lenN_app, lenN_sidpid, lenN_server_body. unfold TAG. lia. }
    rewrite Hdk, Hk. rewrite <- Hdk, <- Hdkey. rewrite udp_open_xc_sealed; try assumption.
    - cbn [bind]. rewrite Hdm. reflexivity.
    - rewrite Hdk. exact Hk.
    - rewrite Hdkey. exact Hkl.
  Qed.

  (* ---------------- (ii) the round-trip theorems ---------------- *)

  (* legacy kinds, either direction: salt ‖ seal(hkdf(key, salt), nonce 0, addr ‖ payload) *)
  Theorem roundtrip_legacy (UL : udp_lens) cx dcx now now' rnd pad s a item :
    is_2022 (uc_kind cx) = false -> uc_kind dcx = uc_kind cx -> uc_key dcx = uc_key cx ->
    lenN rnd = lenN (uc_key cx) -> kind_n (uc_kind cx) <= lenN rnd -> lenN rnd <= 5100 ->
    addr_wf a -> representable a ->
    exists w, ssu_encode P cx now rnd pad s a item = Ok w /\
              ssu_decode P dcx now' w = Ok (item, a, usess_default).
  Proof.
    intros E22 Hdk Hdkey Hr Hn Hmax Hw Hrep.
    assert (Hau : exists au, new_auth_legacy P (uc_kind cx) (uc_key cx) rnd = Ok au).
    { unfold new_auth_legacy, auth_new. rewrite (ul_hkdf UL), key_size_kind.
      destruct (N.ltb_spec (lenN rnd) (kind_n (uc_kind cx))); [lia|]. eexists; reflexivity. }
    destruct Hau as [au Hau].
    unfold ssu_encode. rewrite E22. unfold ssu_encode_legacy.
    change HKDF_SHA1_MAX with 5100. destruct (N.ltb_spec 5100 (lenN rnd)); [lia|].
    rewrite Hau. cbn [bind]. eexists. split; [reflexivity|].
    unfold ssu_decode. rewrite Hdk, E22. unfold ssu_decode_legacy. rewrite Hdkey, <- Hr.
    rewrite lenN_app. destruct (N.ltb_spec (lenN rnd + lenN (encode_packet P au (s5_encode a ++ item))) (lenN rnd)); [lia|].
    rewrite split_to_app. cbn [bind].
    change HKDF_SHA1_MAX with 5100. destruct (N.ltb_spec 5100 (lenN rnd)); [lia|].
    rewrite Hdk, Hau. cbn [bind].
    unfold decode_packet, encode_packet, auth_open, auth_seal. cbn [fst]. rewrite (open_seal P PL). cbn [bind].
    rewrite s5_roundtrip by assumption. reflexivity.
  Qed.

  Section Fresh.
    Variables (now now' : N) (pad : bytes) (a : addr) (item : bytes).
    Hypothesis Hnow : now < 2 ^ 64.
    Hypothesis Hpad : lenN pad < 65536.          (* the encoder draws at most 900 bytes *)
    Hypothesis Hwf : addr_wf a.
    Hypothesis Hrep : representable a.

    Theorem roundtrip_aes_client_plain (UL : udp_lens) cx dcx rnd s :
      support_eih (uc_kind cx) = true -> uc_mode cx = Client -> uc_ikeys cx = [] ->
      uc_kind dcx = uc_kind cx -> uc_mode dcx = Server -> uc_key dcx = uc_key cx ->
      (uc_users dcx = None \/ uc_users dcx = Some []) ->
      lenN (uc_key cx) = aes_keylen (uc_kind cx) -> us_csid s < 2 ^ 64 -> us_pid s < 2 ^ 64 ->
      exists w, ssu_encode P cx now rnd pad s a item = Ok w /\
        (abs_diff now' now <= 30 ->
         ssu_decode P dcx now' w = Ok (item, a, {| us_csid := us_csid s; us_ssid := 0; us_pid := us_pid s; us_user := None |})) /\
        (30 < abs_diff now' now -> ssu_decode P dcx now' w = Err EBadTime).
    Proof.
      intros. destruct (wire_aes_client_plain UL cx dcx now now' rnd pad s a item) as (w & He & Hd); try assumption.
      exists w. split; [exact He|]. rewrite Hd. split; intros Ht.
      - apply udp_parse_server_fresh; assumption.
      - apply udp_parse_server_stale; assumption.
    Qed.

    Theorem roundtrip_aes_client_eih (UL : udp_lens) cx dcx ik us u rnd s :
      support_eih (uc_kind cx) = true -> uc_mode cx = Client -> uc_ikeys cx = [ik] ->
      uc_kind dcx = uc_kind cx -> uc_mode dcx = Server -> uc_key dcx = ik -> uc_users dcx = Some us ->
      find_user us (takeN 16 (p_b3hash P (uc_key cx))) = Some u -> u_key u = uc_key cx ->
      lenN ik = aes_keylen (uc_kind cx) -> us_csid s < 2 ^ 64 -> us_pid s < 2 ^ 64 ->
      exists w, ssu_encode P cx now rnd pad s a item = Ok w /\
        (abs_diff now' now <= 30 ->
         ssu_decode P dcx now' w = Ok (item, a, {| us_csid := us_csid s; us_ssid := 0; us_pid := us_pid s; us_user := Some u |})) /\
        (30 < abs_diff now' now -> ssu_decode P dcx now' w = Err EBadTime).
    Proof.
      intros. destruct (wire_aes_client_eih UL cx dcx ik us u now now' rnd pad s a item) as (w & He & Hd); try assumption.
      exists w. split; [exact He|]. rewrite Hd. split; intros Ht.
      - apply udp_parse_server_fresh; assumption.
      - apply udp_parse_server_stale; assumption.
    Qed.

    Theorem roundtrip_aes_server (UL : udp_lens) cx dcx rnd s :
      support_eih (uc_kind cx) = true -> uc_mode cx = Server ->
      uc_kind dcx = uc_kind cx -> uc_mode dcx = Client ->
      uc_key dcx = (match us_user s with Some u => u_key u | None => uc_key cx end) ->
      lenN (uc_key dcx) = aes_keylen (uc_kind cx) -> us_csid s < 2 ^ 64 -> us_ssid s < 2 ^ 64 -> us_pid s < 2 ^ 64 ->
      exists w, ssu_encode P cx now rnd pad s a item = Ok w /\
        (abs_diff now' now <= 30 ->
         ssu_decode P dcx now' w = Ok (item, a, {| us_csid := us_csid s; us_ssid := us_ssid s; us_pid := us_pid s; us_user := None |})) /\
        (30 < abs_diff now' now -> ssu_decode P dcx now' w = Err EBadTime).
    Proof.
      intros. destruct (wire_aes_server UL cx dcx now now' rnd pad s a item) as (w & He & Hd); try assumption.
      exists w. split; [exact He|]. rewrite Hd. split; intros Ht.
      - apply udp_parse_client_fresh; assumption.
      - apply udp_parse_client_stale; assumption.
    Qed.

    Theorem roundtrip_xchacha_client cx dcx rnd s :
      is_2022 (uc_kind cx) = true -> support_eih (uc_kind cx) = false -> uc_mode cx = Client ->
      uc_kind dcx = uc_kind cx -> uc_mode dcx = Server -> uc_key dcx = uc_key cx ->
      32 <= lenN (uc_key cx) -> lenN rnd = 24 -> us_csid s < 2 ^ 64 -> us_pid s < 2 ^ 64 ->
      exists w, ssu_encode P cx now rnd pad s a item = Ok w /\
        (abs_diff now' now <= 30 ->
         ssu_decode P dcx now' w = Ok (item, a, {| us_csid := us_csid s; us_ssid := 0; us_pid := us_pid s; us_user := None |})) /\
        (30 < abs_diff now' now -> ssu_decode P dcx now' w = Err EBadTime).
    Proof.
      intros. destruct (wire_xc_client cx dcx now now' rnd pad s a item) as (w & He & Hd); try assumption.
      exists w. split; [exact He|]. rewrite Hd. split; intros Ht.
      - apply udp_parse_server_fresh; assumption.
      - apply udp_parse_server_stale; assumption.
    Qed.

    Theorem roundtrip_xchacha_server cx dcx rnd s :
      is_2022 (uc_kind cx) = true -> support_eih (uc_kind cx) = false -> uc_mode cx = Server ->
      uc_kind dcx = uc_kind cx -> uc_mode dcx = Client -> uc_key dcx = uc_key cx ->
      32 <= lenN (uc_key cx) -> lenN rnd = 24 -> us_csid s < 2 ^ 64 -> us_ssid s < 2 ^ 64 -> us_pid s < 2 ^ 64 ->
      exists w, ssu_encode P cx now rnd pad s a item = Ok w /\
        (abs_diff now' now <= 30 ->
         ssu_decode P dcx now' w = Ok (item, a, {| us_csid := us_csid s; us_ssid := us_ssid s; us_pid := us_pid s; us_user := None |})) /\
        (30 < abs_diff now' now -> ssu_decode P dcx now' w = Err EBadTime).
    Proof.
      intros. destruct (wire_xc_server cx dcx now now' rnd pad s a item) as (w & He & Hd); try assumption.
      exists w. split; [exact He|]. rewrite Hd. split; intros Ht.
      - apply udp_parse_client_fresh; assumption.
      - apply udp_parse_client_stale; assumption.
    Qed.
  End Fresh.

  (* ============================================================================================ *)
  (* (v) session level: a refused packet is simply dropped; a packet id is accepted at most once;   *)
  (*     the client never reuses a packet id                                                        *)
  (* ============================================================================================ *)
  Notation Rw := PacketWindowList.R.
  Notation accept := PacketWindow.spec_accept.

  Lemma spec_accept_fresh acc id limit : accept acc id limit = true -> ~ In id acc.
  Proof.
    unfold PacketWindow.spec_accept. rewrite !andb_true_iff, negb_true_iff. intros [[_ H] _] Hin.
    assert (existsb (N.eqb id) acc = true) by (apply existsb_exists; exists id; split; [assumption|apply N.eqb_refl]).
    congruence.
  Qed.

  Lemma cstate_eta st : {| cs_sess := cs_sess st; cs_filter := cs_filter st |} = st.
  Proof. destruct st; reflexivity. Qed.
  Lemma astate_eta st : set_afilter st (as_filter st) = st.
  Proof. destruct st; reflexivity. Qed.

  (* ---------------- client: DatagramPacketCodec::decode ---------------- *)
  Lemma client_dgram_decode_of_session cx rp now st src :
    client_dgram_decode P cx rp now st src =
    match ssu_session_decode P cx now src with
    | Ok (Some (content, a, s)) =>
      let '(f', ok) := (if rp then pw_validate (cs_filter st) (us_pid s) U64_MAX else (cs_filter st, true)) in
      if ok then Ok ({| cs_sess := set_ssid (cs_sess st) (us_ssid s); cs_filter := f' |}, Some (content, a))
      else Ok ({| cs_sess := cs_sess st; cs_filter := f' |}, None)
    | Ok None => Ok (st, None)
    | Err e => Err e
    | Panic => Panic
    end.
  Proof.
    unfold client_dgram_decode. destruct src as [|x t]; [reflexivity|].
    destruct (ssu_session_decode P cx now (x :: t)) as [[[[c a] s]|]|e|]; reflexivity.
  Qed.

  (* the verdict is the specification's (set of accepted ids + window), whatever the arrival order *)
  Theorem client_dgram_decode_spec cx now st acc src content a s :
    Rw (cs_filter st) acc ->
    ssu_session_decode P cx now src = Ok (Some (content, a, s)) ->
    exists st',
      client_dgram_decode P cx true now st src
        = Ok (st', if accept acc (us_pid s) U64_MAX then Some (content, a) else None) /\
      Rw (cs_filter st') (if accept acc (us_pid s) U64_MAX then us_pid s :: acc else acc) /\
      (accept acc (us_pid s) U64_MAX = false -> st' = st) /\
      (accept acc (us_pid s) U64_MAX = true -> cs_sess st' = set_ssid (cs_sess st) (us_ssid s)).
  Proof.
    intros HR Hd. rewrite client_dgram_decode_of_session, Hd.
    destruct (pw_validate (cs_filter st) (us_pid s) U64_MAX) as [f' b] eqn:Hv.
    destruct (pw_validate_refines _ _ _ _ _ _ HR Hv) as (Hb & HR' & Hsame). rewrite <- Hb.
    destruct b.
    - eexists. split; [reflexivity|]. cbn [cs_filter cs_sess]. split; [exact HR'|]. split; [discriminate|reflexivity].
    - eexists. split; [reflexivity|]. cbn [cs_filter]. split; [exact HR'|]. split; [|discriminate].
      intros _. rewrite (Hsame eq_refl). apply cstate_eta.
  Qed.

  Theorem refused_packet_keeps_session_client cx now st acc src content a s :
    Rw (cs_filter st) acc ->
    ssu_session_decode P cx now src = Ok (Some (content, a, s)) ->
    snd (pw_validate (cs_filter st) (us_pid s) U64_MAX) = false ->
    client_dgram_decode P cx true now st src = Ok (st, None).
  Proof.
    intros HR Hd Hrej. rewrite client_dgram_decode_of_session, Hd.
    destruct (pw_validate (cs_filter st) (us_pid s) U64_MAX) as [f' b] eqn:Hv. cbn [snd] in Hrej. subst b.
    destruct (pw_validate_refines _ _ _ _ _ _ HR Hv) as (_ & _ & Hsame).
    rewrite (Hsame eq_refl). rewrite cstate_eta. reflexivity.
  Qed.

  (* UdpFramed: a decode error is reported and the codec (unchanged) goes on with the next datagram *)
  Fixpoint client_dgram_run (cx : uctx) (rp : bool) (now : N) (st : cstate) (srcs : list bytes)
    : cstate * list (res (option (bytes * addr))) :=
    match srcs with
    | [] => (st, [])
    | src :: t =>
      match client_dgram_decode P cx rp now st src with
      | Ok (st', o) => let '(st2, l) := client_dgram_run cx rp now st' t in (st2, Ok o :: l)
      | Err e => let '(st2, l) := client_dgram_run cx rp now st t in (st2, Err e :: l)
      | Panic => let '(st2, l) := client_dgram_run cx rp now st t in (st2, Panic :: l)
      end
    end.

  (* the following packets are judged as if the refused one had not arrived *)
  Corollary refused_packet_invisible_client cx now st acc src content a s rest :
    Rw (cs_filter st) acc ->
    ssu_session_decode P cx now src = Ok (Some (content, a, s)) ->
    snd (pw_validate (cs_filter st) (us_pid s) U64_MAX) = false ->
    client_dgram_run cx true now st (src :: rest)
    = (fst (client_dgram_run cx true now st rest), Ok None :: snd (client_dgram_run cx true now st rest)).
  Proof.
    intros HR Hd Hrej. cbn [client_dgram_run].
    rewrite (refused_packet_keeps_session_client cx now st acc src content a s HR Hd Hrej).
    destruct (client_dgram_run cx true now st rest). reflexivity.
  Qed.

  (* the invariant travels along every run *)
  Lemma client_dgram_decode_R cx now st acc src st' o :
    Rw (cs_filter st) acc -> client_dgram_decode P cx true now st src = Ok (st', o) -> exists acc', Rw (cs_filter st') acc'.
  Proof.
    intros HR. rewrite client_dgram_decode_of_session.
    destruct (ssu_session_decode P cx now src) as [[[[c a] s]|]|e|] eqn:Hd; try discriminate.
    - destruct (pw_validate (cs_filter st) (us_pid s) U64_MAX) as [f' b] eqn:Hv.
      destruct (pw_validate_refines _ _ _ _ _ _ HR Hv) as (_ & HR' & _).
      destruct b; intros [= <- <-]; cbn [cs_filter]; eauto.
    - intros [= <- <-]. eauto.
  Qed.

  (* the packet ids of the datagrams that were delivered, in order (ghost observation of a run) *)
  Fixpoint client_delivered_ids (cx : uctx) (now : N) (st : cstate) (srcs : list bytes) : list N :=
    match srcs with
    | [] => []
    | src :: t =>
      match client_dgram_decode P cx true now st src, ssu_session_decode P cx now src with
      | Ok (st', Some _), Ok (Some (_, _, s)) => us_pid s :: client_delivered_ids cx now st' t
      | Ok (st', _), _ => client_delivered_ids cx now st' t
      | _, _ => client_delivered_ids cx now st t
      end
    end.

  Lemma client_delivered_ids_fresh cx now : forall srcs st acc, Rw (cs_filter st) acc ->
    NoDup (client_delivered_ids cx now st srcs) /\
    (forall id, In id (client_delivered_ids cx now st srcs) -> ~ In id acc /\ id < U64_MAX).
  Proof.
    induction srcs as [|src t IH]; intros st acc HR; cbn [client_delivered_ids].
    { split; [constructor|intros id []]. }
    destruct (ssu_session_decode P cx now src) as [[[[c a] s]|]|e|] eqn:Hd.
    - destruct (client_dgram_decode_spec cx now st acc src c a s HR Hd) as (st' & Hdec & HR' & _ & _).
      rewrite Hdec. destruct (accept acc (us_pid s) U64_MAX) eqn:Eok.
      + destruct (IH st' _ HR') as (Hnd & Hfresh). split.
        * constructor; [|exact Hnd]. intros Hin. apply Hfresh in Hin. apply (proj1 Hin). left. reflexivity.
        * intros id [<-|Hin].
          -- split; [apply (spec_accept_fresh _ _ _ Eok)|].
             unfold PacketWindow.spec_accept in Eok. rewrite !andb_true_iff in Eok. destruct Eok as [[H _] _].
             apply N.ltb_lt in H. exact H.
          -- destruct (Hfresh id Hin) as [H1 H2]. split; [|exact H2]. intros Hacc. apply H1. right. exact Hacc.
      + apply IH. exact HR'.
    - rewrite client_dgram_decode_of_session, Hd. apply IH. exact HR.
    - rewrite client_dgram_decode_of_session, Hd. apply IH. exact HR.
    - rewrite client_dgram_decode_of_session, Hd. apply IH. exact HR.
  Qed.

  (* each UDP packet id is accepted at most once, in any arrival order, for every input sequence *)
  Theorem client_packet_id_at_most_once cx now csid srcs :
    NoDup (client_delivered_ids cx now (cstate_new csid) srcs).
  Proof. apply (client_delivered_ids_fresh cx now srcs (cstate_new csid) []). apply R_init. Qed.

  (* ---------------- server: one turn of the association task ---------------- *)
  Theorem unresolved_packet_keeps_session st content peer s :
    server_assoc_step st (EvClient content peer s None) = (st, [], true).
  Proof. reflexivity. Qed.

  Theorem server_assoc_step_spec st acc content peer s r :
    as_rp st = true -> Rw (as_filter st) acc ->
    exists st',
      server_assoc_step st (EvClient content peer s (Some r))
        = (st', if accept acc (us_pid s) U64_MAX then [ASendPeer content r] else [], true) /\
      Rw (as_filter st') (if accept acc (us_pid s) U64_MAX then us_pid s :: acc else acc) /\
      as_rp st' = true /\
      (accept acc (us_pid s) U64_MAX = false -> st' = st).
  Proof.
    intros Hrp HR. cbn [server_assoc_step]. rewrite Hrp.
    destruct (pw_validate (as_filter st) (us_pid s) U64_MAX) as [f' b] eqn:Hv.
    destruct (pw_validate_refines _ _ _ _ _ _ HR Hv) as (Hb & HR' & Hsame). rewrite <- Hb.
    destruct b; eexists; (split; [reflexivity|]); cbn [as_filter as_rp set_afilter]; (split; [exact HR'|]); (split; [exact Hrp|]).
    - discriminate.
    - intros _. rewrite (Hsame eq_refl). apply astate_eta.
  Qed.

  Theorem refused_packet_keeps_session_server st acc content peer s r :
    as_rp st = true -> Rw (as_filter st) acc ->
    snd (pw_validate (as_filter st) (us_pid s) U64_MAX) = false ->
    server_assoc_step st (EvClient content peer s (Some r)) = (st, [], true).
  Proof.
    intros Hrp HR Hrej. cbn [server_assoc_step]. rewrite Hrp.
    destruct (pw_validate (as_filter st) (us_pid s) U64_MAX) as [f' b] eqn:Hv. cbn [snd] in Hrej. subst b.
    destruct (pw_validate_refines _ _ _ _ _ _ HR Hv) as (_ & _ & Hsame).
    rewrite (Hsame eq_refl), astate_eta. reflexivity.
  Qed.

  (* a dropped client message (refused id, or unresolvable target) is invisible to the rest of the run *)
  Corollary refused_packet_invisible_server st acc content peer s r evs :
    as_rp st = true -> Rw (as_filter st) acc ->
    snd (pw_validate (as_filter st) (us_pid s) U64_MAX) = false ->
    server_assoc_run st (EvClient content peer s (Some r) :: evs) = server_assoc_run st evs.
  Proof.
    intros Hrp HR Hrej. cbn [server_assoc_run].
    rewrite (refused_packet_keeps_session_server st acc content peer s r Hrp HR Hrej).
    destruct (server_assoc_run st evs) as [[st2 acts2] go2]. reflexivity.
  Qed.
  Corollary unresolved_packet_invisible_server st content peer s evs :
    server_assoc_run st (EvClient content peer s None :: evs) = server_assoc_run st evs.
  Proof. cbn [server_assoc_run server_assoc_step]. destruct (server_assoc_run st evs) as [[st2 acts2] go2]. reflexivity. Qed.

  (* every step keeps the filter invariant and the replay flag; only a client message touches the filter *)
  Lemma server_assoc_step_R st acc ev st' acts go :
    as_rp st = true -> Rw (as_filter st) acc -> server_assoc_step st ev = (st', acts, go) ->
    as_rp st' = true /\ exists acc', Rw (as_filter st') acc'.
  Proof.
    intros Hrp HR. destruct ev as [content peer s [r|]| |content peer|].
    - destruct (server_assoc_step_spec st acc content peer s r Hrp HR) as (st1 & -> & HR' & Hrp' & _).
      intros [= <- <- <-]. eauto.
    - cbn [server_assoc_step]. intros [= <- <- <-]. eauto.
    - cbn [server_assoc_step]. intros [= <- <- <-]. eauto.
    - cbn [server_assoc_step]. destruct (as_spid st =? U64_MAX); intros [= <- <- <-]; cbn [as_rp as_filter set_spid]; eauto.
    - cbn [server_assoc_step]. intros [= <- <- <-]. eauto.
  Qed.

  (* the packet ids of the client messages that were forwarded to their target (ghost observation) *)
  Fixpoint server_forwarded_ids (st : astate) (evs : list aevent) : list N :=
    match evs with
    | [] => []
    | ev :: t =>
      let '(st', acts, go) := server_assoc_step st ev in
      let rest := if go then server_forwarded_ids st' t else [] in
      match ev, acts with
      | EvClient _ _ s _, _ :: _ => us_pid s :: rest
      | _, _ => rest
      end
    end.

  Lemma server_forwarded_ids_fresh : forall evs st acc, as_rp st = true -> Rw (as_filter st) acc ->
    NoDup (server_forwarded_ids st evs) /\ (forall id, In id (server_forwarded_ids st evs) -> ~ In id acc).
  Proof.
    induction evs as [|ev t IH]; intros st acc Hrp HR; cbn [server_forwarded_ids].
    { split; [constructor|intros id []]. }
    destruct ev as [content peer s [r|]| |content peer|].
    - destruct (server_assoc_step_spec st acc content peer s r Hrp HR) as (st1 & -> & HR' & Hrp' & _).
      destruct (accept acc (us_pid s) U64_MAX) eqn:Eok.
      + destruct (IH st1 _ Hrp' HR') as (Hnd & Hfresh). split.
        * constructor; [|exact Hnd]. intros Hin. apply (Hfresh _ Hin). left. reflexivity.
        * intros id [<-|Hin]; [apply (spec_accept_fresh _ _ _ Eok)|].
          intros Hacc. apply (Hfresh _ Hin). right. exact Hacc.
      + apply IH; assumption.
    - cbn [server_assoc_step]. apply IH; assumption.
    - cbn [server_assoc_step]. split; [constructor|intros id []].
    - cbn [server_assoc_step]. destruct (as_spid st =? U64_MAX).
      + split; [constructor|intros id []].
      + apply IH; assumption.
    - cbn [server_assoc_step]. split; [constructor|intros id []].
  Qed.

  Theorem server_packet_id_at_most_once client ssid evs :
    NoDup (server_forwarded_ids (astate_new client ssid true) evs).
  Proof. apply (server_forwarded_ids_fresh evs (astate_new client ssid true) []); [reflexivity|apply R_init]. Qed.

  (* the ids the server gives to its own packets never wrap either: the task ends instead *)
  Theorem server_packet_id_no_wrap st content peer :
    (as_spid st = U64_MAX -> server_assoc_step st (EvPeer content peer) = (st, [], false)) /\
    (as_spid st < U64_MAX ->
     exists st', server_assoc_step st (EvPeer content peer)
                 = (st', [AToClient content peer {| us_csid := as_csid st; us_ssid := as_ssid st; us_pid := as_spid st + 1; us_user := as_user st |}], true) /\
                 as_spid st' = as_spid st + 1 /\ as_spid st' <= U64_MAX).
  Proof.
    cbn [server_assoc_step]. split.
    - intros ->. rewrite N.eqb_refl. reflexivity.
    - intros H. destruct (N.eqb_spec (as_spid st) U64_MAX); [lia|]. eexists. split; [reflexivity|]. cbn [as_spid set_spid]. lia.
  Qed.

  (* ---------------- client: DatagramPacketCodec::encode ---------------- *)
  Theorem client_dgram_encode_step cx now rnd pad st a content :
    us_pid (cs_sess st) <= U64_MAX ->
    (us_pid (cs_sess st) = U64_MAX ->
       client_dgram_encode P cx now rnd pad st a content = (st, Err EOther)) /\
    (us_pid (cs_sess st) < U64_MAX ->
       exists st', client_dgram_encode P cx now rnd pad st a content = (st', ssu_encode P cx now rnd pad (cs_sess st') a content) /\
                   us_pid (cs_sess st') = us_pid (cs_sess st) + 1 /\ us_pid (cs_sess st') <= U64_MAX /\
                   us_csid (cs_sess st') = us_csid (cs_sess st) /\ cs_filter st' = cs_filter st).
  Proof.
    intros Hle. unfold client_dgram_encode. split.
    - intros ->. rewrite N.eqb_refl. reflexivity.
    - intros Hlt. destruct (N.eqb_spec (us_pid (cs_sess st)) U64_MAX); [lia|].
      exists {| cs_sess := set_pid (cs_sess st) ((us_pid (cs_sess st) + 1) mod 2 ^ 64); cs_filter := cs_filter st |}.
      split; [reflexivity|]. cbn [cs_sess cs_filter set_pid us_pid us_csid].
      unfold U64_MAX in *. rewrite N.mod_small by lia. repeat split; lia.
  Qed.

  (* the packet ids put on the wire by a run of encode calls (an exhausted session emits nothing) *)
  Fixpoint client_encode_ids (cx : uctx) (now : N) (st : cstate) (items : list (bytes * bytes * addr * bytes)) : list N :=
    match items with
    | [] => []
    | (rnd, pad, a, content) :: t =>
      let st' := fst (client_dgram_encode P cx now rnd pad st a content) in
      if us_pid (cs_sess st) =? U64_MAX then client_encode_ids cx now st' t
      else us_pid (cs_sess st') :: client_encode_ids cx now st' t
    end.

  Lemma client_encode_ids_increasing cx now : forall items st, us_pid (cs_sess st) <= U64_MAX ->
    StronglySorted N.lt (client_encode_ids cx now st items) /\
    Forall (fun id => us_pid (cs_sess st) < id <= U64_MAX) (client_encode_ids cx now st items).
  Proof.
    induction items as [|[[[rnd pad] a] content] t IH]; intros st Hle; cbn [client_encode_ids].
    { split; constructor. }
    destruct (client_dgram_encode_step cx now rnd pad st a content Hle) as [Hmax Hstep].
    destruct (N.eqb_spec (us_pid (cs_sess st)) U64_MAX) as [E|NE].
    - rewrite (Hmax E). cbn [fst]. apply IH. exact Hle.
    - assert (Hlt : us_pid (cs_sess st) < U64_MAX) by lia.
      destruct (Hstep Hlt) as (st' & -> & Hpid & Hle' & _). cbn [fst].
      destruct (IH st' Hle') as (Hs & Hf). split.
      + constructor; [exact Hs|]. eapply Forall_impl; [|exact Hf]. cbn beta. intros id Hid. lia.
      + constructor; [lia|]. eapply Forall_impl; [|exact Hf]. cbn beta. intros id Hid. lia.
  Qed.

  (* packet ids are strictly increasing, never wrap, and therefore (AES kinds) no nonce is used twice in a session *)
  Theorem packet_id_never_reused cx now csid items :
    let ids := client_encode_ids cx now (cstate_new csid) items in
    StronglySorted N.lt ids /\ Forall (fun id => 0 < id < 2 ^ 64) ids /\ NoDup ids /\
    NoDup (map (udp_aes_nonce csid) ids).
  Proof.
    cbn zeta.
    destruct (client_encode_ids_increasing cx now items (cstate_new csid)) as (Hs & Hf).
    { cbn. discriminate. }
    set (ids := client_encode_ids cx now (cstate_new csid) items) in *.
    assert (Hrange : Forall (fun id => 0 < id < 2 ^ 64) ids).
    { eapply Forall_impl; [|exact Hf]. cbn [cstate_new cs_sess us_pid]. unfold U64_MAX. intros id Hid. lia. }
    assert (Hnd : NoDup ids).
    { clear Hf Hrange. induction Hs as [|x l Hl IHl Hx]; constructor; [|exact IHl].
      intros Hin. rewrite Forall_forall in Hx. specialize (Hx _ Hin). lia. }
    repeat split; try assumption.
    clear Hs Hf. induction Hnd as [|x l Hx Hl IHl]; cbn [map]; constructor.
    - intros Hin. apply in_map_iff in Hin. destruct Hin as (y & Hy & Hyin).
      inversion Hrange as [|? ? Hxr Hlr]; subst. rewrite Forall_forall in Hlr. specialize (Hlr _ Hyin).
      apply udp_nonce_inj in Hy; [|lia|lia]. subst y. contradiction.
    - apply IHl. inversion Hrange; assumption.
  Qed.

  (* (iv) continued: the AEAD nonce of every AES-kind packet really is bytes 4..16 of sid ‖ pid *)
  Theorem client_aes_packet_nonce cx now rnd pad s a item w :
    support_eih (uc_kind cx) = true -> uc_mode cx = Client -> ssu_encode P cx now rnd pad s a item = Ok w ->
    exists pre ck pt, w = pre ++ p_seal P (udp_cipher_id (uc_kind cx)) ck (udp_aes_nonce (us_csid s) (us_pid s)) [] pt.
  Proof.
    intros Hk Hm. unfold ssu_encode. rewrite (aes_is_2022 _ Hk), Hm. unfold ssu_encode_client. rewrite Hk.
    set (sidpid := put_u64 (us_csid s) ++ put_u64 (us_pid s)).
    match goal with |- bind ?x _ = _ -> _ => destruct x as [eihs|e|] end; cbn [bind]; try discriminate.
    destruct (aes_block_enc P _ _ _) as [hdr|e|]; cbn [bind]; try discriminate.
    destruct (udp_cipher_key P _ _ _) as [ck|e|]; cbn [bind]; try discriminate.
    intros [= <-]. unfold sidpid. fold (udp_aes_nonce (us_csid s) (us_pid s)). rewrite app_assoc. eauto.
  Qed.
  Theorem server_aes_packet_nonce cx now rnd pad s a item w :
    support_eih (uc_kind cx) = true -> uc_mode cx = Server -> ssu_encode P cx now rnd pad s a item = Ok w ->
    exists pre ck pt, w = pre ++ p_seal P (udp_cipher_id (uc_kind cx)) ck (udp_aes_nonce (us_ssid s) (us_pid s)) [] pt.
  Proof.
    intros Hk Hm. unfold ssu_encode. rewrite (aes_is_2022 _ Hk), Hm. unfold ssu_encode_server. rewrite Hk.
    destruct (aes_block_enc P _ _ _) as [hdr|e|]; cbn [bind]; try discriminate.
    destruct (udp_cipher_key P _ _ _) as [ck|e|]; cbn [bind]; try discriminate.
    intros [= <-]. fold (udp_aes_nonce (us_ssid s) (us_pid s)). eauto.
  Qed.
End SsUdpFacts.

(* ---------------------------------------------------------------------------------------------- *)
(* Non-vacuity: the premises on the primitives are jointly satisfiable (toy primitives of            *)
(* SsTcpRoundtrip.ToyPrims), and concrete exchanges evaluate as the theorems say.                    *)
(* ---------------------------------------------------------------------------------------------- *)
Module ToyUdp.
  Import SsTcpRoundtrip.ToyPrims.

  Lemma toy_udp_lens : udp_lens toyP.
  Proof.
    constructor.
    - exact toy_b3_len.
    - exact toy_hkdf_len.
    - exact (open_len toyP toy_laws).
    - intros k b H. exact H.
    - intros k b H. exact H.
    - intros m. cbn [toyP p_b3hash]. apply lenN_takeN. rewrite lenN_app, lenN_repeat. lia.
  Qed.

  Definition toy_no_panic := ssu_decode_no_panic toyP toy_udp_lens.
  Definition toy_roundtrip_legacy := roundtrip_legacy toyP toy_laws toy_udp_lens.
  Definition toy_roundtrip_aes_client_plain := roundtrip_aes_client_plain toyP toy_laws.
  Definition toy_roundtrip_aes_client_eih := roundtrip_aes_client_eih toyP toy_laws.
  Definition toy_roundtrip_aes_server := roundtrip_aes_server toyP toy_laws.
  Definition toy_roundtrip_xchacha_client := roundtrip_xchacha_client toyP toy_laws.
  Definition toy_roundtrip_xchacha_server := roundtrip_xchacha_server toyP toy_laws.

  Definition ukey : bytes := repeat 9 16.            (* the user's key *)
  Definition ikey : bytes := repeat 5 16.            (* the server's key = the client's identity key *)
  Definition usr : user := {| u_hash := takeN 16 (p_b3hash toyP ukey); u_key := ukey |}.
  Definition other : user := {| u_hash := repeat 1 16; u_key := repeat 8 16 |}.
  Definition ccx : uctx := {| uc_kind := K22_A128; uc_mode := Client; uc_key := ukey; uc_ikeys := [ikey]; uc_users := None |}.
  Definition scx : uctx := {| uc_kind := K22_A128; uc_mode := Server; uc_key := ikey; uc_ikeys := []; uc_users := Some [other; usr] |}.
  Definition tgt : addr := ADom [101; 120] 443.
  Definition csess : usess := {| us_csid := 77; us_ssid := 0; us_pid := 5; us_user := None |}.

  (* client -> server with an identity header, padding of 2 bytes, clock skew 10 s; then 31 s *)
  Example ex_eih_roundtrip :
    (let* w := ssu_encode toyP ccx 1000 [] [7; 7] csess tgt [1; 2; 3] in ssu_decode toyP scx 1010 w)
    = Ok ([1; 2; 3], tgt, {| us_csid := 77; us_ssid := 0; us_pid := 5; us_user := Some usr |}).
  Proof. vm_compute. reflexivity. Qed.
  Example ex_eih_stale :
    (let* w := ssu_encode toyP ccx 1000 [] [7; 7] csess tgt [1; 2; 3] in ssu_decode toyP scx 1031 w) = Err EBadTime.
  Proof. vm_compute. reflexivity. Qed.
  (* an empty payload survives as an empty payload *)
  Example ex_empty_payload :
    (let* w := ssu_encode toyP ccx 1000 [] [7; 7; 7] csess tgt [] in ssu_decode toyP scx 1000 w)
    = Ok ([], tgt, {| us_csid := 77; us_ssid := 0; us_pid := 5; us_user := Some usr |}).
  Proof. vm_compute. reflexivity. Qed.
  (* reflection: the client's own packet comes back to it *)
  Example ex_reflection :
    (let* w := ssu_encode toyP {| uc_kind := K22_A128; uc_mode := Client; uc_key := ukey; uc_ikeys := []; uc_users := None |}
                 1000 [] [] csess tgt [1] in
     ssu_decode toyP {| uc_kind := K22_A128; uc_mode := Client; uc_key := ukey; uc_ikeys := []; uc_users := None |} 1000 w)
    = Err EShort.     (* 16 + 16 + 11 + addr(5) + 1 = 49 < 51: a client packet this small is below the server-packet minimum *)
  Proof. vm_compute. reflexivity. Qed.
  Example ex_reflection_long :
    (let* w := ssu_encode toyP {| uc_kind := K22_A128; uc_mode := Client; uc_key := ukey; uc_ikeys := []; uc_users := None |}
                 1000 [] [] csess tgt [1; 2; 3; 4; 5; 6; 7; 8; 9] in
     ssu_decode toyP {| uc_kind := K22_A128; uc_mode := Client; uc_key := ukey; uc_ikeys := []; uc_users := None |} 1000 w)
    = Err EBadType.
  Proof. vm_compute. reflexivity. Qed.

  (* session level: the server answers with packet ids 1, 2, 1 (a replay), 3 *)
  Definition srv : uctx := {| uc_kind := K22_A128; uc_mode := Server; uc_key := ukey; uc_ikeys := []; uc_users := None |}.
  Definition cli : uctx := {| uc_kind := K22_A128; uc_mode := Client; uc_key := ukey; uc_ikeys := []; uc_users := None |}.
  Definition reply (pid : N) (payload : bytes) : bytes :=
    match ssu_encode toyP srv 1000 [] [] {| us_csid := 77; us_ssid := 900; us_pid := pid; us_user := None |} tgt payload with
    | Ok w => w | _ => [] end.
  Example ex_replay_dropped :
    snd (client_dgram_run toyP cli true 1000 (cstate_new 77) [reply 1 [11]; reply 2 [22]; reply 1 [11]; reply 3 [33]])
    = [Ok (Some ([11], tgt)); Ok (Some ([22], tgt)); Ok None; Ok (Some ([33], tgt))].
  Proof. vm_compute. reflexivity. Qed.
  Example ex_replay_ids :
    client_delivered_ids toyP cli 1000 (cstate_new 77) [reply 1 [11]; reply 2 [22]; reply 1 [11]; reply 3 [33]] = [1; 2; 3].
  Proof. vm_compute. reflexivity. Qed.
  (* the association task: a replayed client packet is dropped, the task goes on and forwards the next one *)
  Example ex_server_assoc :
    let m pid := EvClient [pid] tgt {| us_csid := 77; us_ssid := 0; us_pid := pid; us_user := None |} (Some (AV4 [1; 2; 3; 4] 53)) in
    let '(_, acts, go) := server_assoc_run (astate_new csess 900 true)
                            [m 1; m 1; EvClient [9] tgt csess None; m 2; EvPeer [42] tgt] in
    (acts, go) = ([ASendPeer [1] (AV4 [1; 2; 3; 4] 53); ASendPeer [2] (AV4 [1; 2; 3; 4] 53);
                   AToClient [42] tgt {| us_csid := 77; us_ssid := 900; us_pid := 1; us_user := None |}], true).
  Proof. vm_compute. reflexivity. Qed.
  (* exhaustion: at packet id 2^64 - 1 the client refuses to encode and keeps its state *)
  Example ex_exhausted :
    let st := {| cs_sess := {| us_csid := 77; us_ssid := 0; us_pid := U64_MAX; us_user := None |}; cs_filter := pw_new |} in
    client_dgram_encode toyP cli 1000 [] [] st tgt [1] = (st, Err EOther).
  Proof. reflexivity. Qed.
End ToyUdp.

Print Assumptions ssu_decode_no_panic.
Print Assumptions ssu_session_decode_no_panic.
Print Assumptions roundtrip_legacy.
Print Assumptions roundtrip_aes_client_plain.
Print Assumptions roundtrip_aes_client_eih.
Print Assumptions roundtrip_aes_server.
Print Assumptions roundtrip_xchacha_client.
Print Assumptions roundtrip_xchacha_server.
Print Assumptions accepted_2022_typed_and_fresh.
Print Assumptions udp_parse_accept.
Print Assumptions udp_time_boundary.
Print Assumptions udp_nonce_inj.
Print Assumptions client_aes_packet_nonce.
Print Assumptions server_aes_packet_nonce.
Print Assumptions refused_packet_keeps_session_client.
Print Assumptions refused_packet_invisible_client.
Print Assumptions client_packet_id_at_most_once.
Print Assumptions refused_packet_keeps_session_server.
Print Assumptions refused_packet_invisible_server.
Print Assumptions unresolved_packet_invisible_server.
Print Assumptions server_packet_id_at_most_once.
Print Assumptions server_packet_id_no_wrap.
Print Assumptions client_dgram_encode_step.
Print Assumptions packet_id_never_reused.
Print Assumptions ToyUdp.ex_eih_roundtrip.
Print Assumptions ToyUdp.toy_udp_lens.
