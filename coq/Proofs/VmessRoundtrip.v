(* VMess AEAD (Model/Vmess.v): the END-TO-END round trips of the first write of each direction
   ("wire format round-trips / the TCP relay is byte-transparent", for VMess).
   Companion of Proofs/VmessFacts.v (body round trip, auth-id window) and Proofs/AddressFacts.v (vm_roundtrip).
   Nothing here is `_partial`; premises on the primitives are Section hypotheses (never axioms) and are jointly
   satisfiable (Module ToyRoundtrip instantiates every theorem with ToyVmess.toyV and checks concrete exchanges).

   Premises on the primitives (Section VmessE2E):
     HL         : prim_laws P                                  (open_seal, seal_len, aes_dec_enc are used)
     shake_len  : forall seed n, lenN (p_shake128 P seed n) = n
     shake_wf   : forall seed n, wf_bytes (p_shake128 P seed n)
     crc_lt     : forall b, p_crc32 P b < 2 ^ 32               (only for the corollaries that DERIVE the auth-id match)
     aes_block_len : forall k b, lenN b = 16 -> lenN (p_aes_enc P k b) = 16     (the auth id is 16 bytes on the wire)
   No length fact about p_sha256 / p_md5 is needed: both sides compute the same kdf / resp_key / chacha_key values
   and open_seal holds for every key and nonce.

   0. No premise:
      fnv1a32_lt                 fnv1a32 data < 2 ^ 32
      known_opt_mask_small       m < 32 -> known_opt_mask m = m          known_opt_mask_idem
   1. header_parse_roundtrip_masked / header_parse_roundtrip   (no premise on the primitives: no primitive involved)
        addr_wf (rh_addr h) -> representable (rh_addr h) -> (domain host is valid UTF-8) -> rh_sec h < 16 ->
        lenN (vs_iv s) = 16 -> lenN (vs_key s) = 16 -> lenN hpad < 16 ->
        exists hb, header_bytes h s hpad = Ok hb /\ parse_header hb = Ok (hdr_masked h, s) /\ lenN hb <= 316
        and hdr_masked h = h when rh_opt h < 32.
      (vs_v s < 256 and wf_bytes of iv / key / padding are NOT needed: the parser returns the list elements as they are.)
   2. seal_open_header_roundtrip   [HL]
        lenN authid = 16 -> lenN cnonce = 8 -> lenN hb < 65536 ->
        open_header P key (seal_header P key authid cnonce hb ++ rest) = Ok (Some (hb, rest))
   3. request_roundtrip_vmess   [HL, shake_len, shake_wf, aes_block_len]
        hdr_ok h -> sess_ok s -> lenN hpad < 16 -> lenN rnd4 = 4 -> lenN cnonce = 8 ->
        auth_id_matching P now (auth_id_create P id ts rnd4) keys = Some id ->
        client_vencode P id h s None ts rnd4 cnonce hpad item padsrc = Ok (b_enc, wire) ->
        server_vdecode P now keys SInit wire =
          match rh_cmd h with
          | CmdTcp => Ok (SReady h s (norm P b_enc), [], Some (ConnectTcp item (rh_addr h)))
          | CmdUdp => Ok (SReady h s b_enc, [], Some (RelayUdp item (rh_addr h)))
          end
      (one call, nothing left over, the very header and session, the very payload (also the empty one), the decoder
       in lockstep with the client's encoder: equal up to the eager padding draw `norm` in stream mode (norm_fields),
       EQUAL in packet mode).
      request_roundtrip_vmess_keys   [+ crc_lt]  the match premise derived: keys = pre ++ id :: post, no key of pre
        matches the auth id, ts < 2^63, |ts - now| <= 120.
      request_roundtrip_vmess_single [+ crc_lt]  keys = [id].
      client_vencode_ok              the client's first write succeeds (TCP: always; UDP: lenN item <= 65535-16-63),
      request_roundtrip_vmess_ex     existence form (write succeeds AND is decoded), so the theorem is not vacuous;
      client_vencode_udp_too_big     a UDP item above 65456 bytes is refused by the client (Err EAead), never truncated.
   4. response_roundtrip_vmess   [HL, shake_len, shake_wf]   (no premise on h, s at all)
        server_vencode P h s None item padsrc = Ok (b_enc, wire) ->
        match rh_cmd h with
        | CmdTcp => client_vdecode P h s None wire =
                      Ok (Some (match item with [] => b_enc | _ => norm P b_enc end), [], item_of item)
        | CmdUdp => client_vdecode P h s None wire = Ok (Some b_enc, [], Some item)
        end
      response_decoder_lockstep: in both cases the client's decoder bd satisfies norm P bd = norm P b_enc.
   5. vmess_first_exchange: request and response chained (the server answers with the header and session it parsed). *)
From Coq Require Import List NArith ZArith Lia Bool Arith ZifyBool ZifyN ZifyNat.
From Octo Require Import Base.Bytes Crypto.Prims Model.NonceGen Model.Utf8 Model.Address Model.SsTcp Model.Vmess
                         Proofs.AddressFacts Proofs.VmessSafety Proofs.VmessFacts.
Import ListNotations.
Open Scope N_scope.
Ltac Zify.zify_post_hook ::= Z.div_mod_to_equations.
Set Warnings "-abstract-large-number".

(* ====================================================================================================== *)
(* 0. Helpers                                                                                              *)
(* ====================================================================================================== *)
Ltac ltb_no := match goal with |- context [?a <? ?b] =>
  destruct (N.ltb_spec a b) as [?Hc|_]; [exfalso; lia|] end.

Lemma takeN_app_n n (a b : bytes) : lenN a = n -> takeN n (a ++ b) = a.
Proof. intros <-. apply takeN_app_exact. Qed.
Lemma dropN_app_n n (a b : bytes) : lenN a = n -> dropN n (a ++ b) = b.
Proof. intros <-. apply dropN_app_exact. Qed.
Lemma split_to_app_n n (a b : bytes) : lenN a = n -> split_to n (a ++ b) = Ok (a, b).
Proof. intros <-. apply split_to_app. Qed.
Lemma advance_app_n n (a b : bytes) : lenN a = n -> advance n (a ++ b) = Ok b.
Proof. intros H. rewrite advance_ok by (rewrite lenN_app; lia). rewrite (dropN_app_n n a b H). reflexivity. Qed.
Lemma advance_1_cons x (r : bytes) : advance 1 (x :: r) = Ok r.
Proof. rewrite advance_ok by (rewrite lenN_cons; lia). reflexivity. Qed.
Lemma get_be_put_be_nil k v : v < 256 ^ k -> get_be k (put_be k v) = Ok (v, []).
Proof. intros H. rewrite <- (app_nil_r (put_be k v)). apply get_be_put_be. exact H. Qed.
Lemma nonempty_cons (l : bytes) : 1 <= lenN l -> exists x t, l = x :: t.
Proof. destruct l as [|x t]; [rewrite lenN_nil; lia|]. intros _. exists x, t. reflexivity. Qed.

(* util::fnv::fnv1a32 is a u32 *)
Lemma fnv1a32_lt data : fnv1a32 data < 2 ^ 32.
Proof.
  unfold fnv1a32.
  assert (H : forall l h0, h0 < 2 ^ 32 -> fold_left (fun h b => (N.lxor h b * 16777619) mod 2 ^ 32) l h0 < 2 ^ 32).
  { induction l as [|x t IH]; intros h0 H0; cbn [fold_left]; [exact H0|]. apply IH. apply N.mod_lt. lia. }
  apply H. lia.
Qed.

(* RequestOption::from_mask on a mask made of known bits is the identity *)
Lemma known_opt_mask_small m : m < 32 -> known_opt_mask m = m.
Proof.
  intros H. unfold known_opt_mask. change 31 with (N.ones 5). rewrite N.land_ones. apply N.mod_small. exact H.
Qed.
Lemma known_opt_mask_idem m : known_opt_mask (known_opt_mask m) = known_opt_mask m.
Proof. unfold known_opt_mask. rewrite <- N.land_assoc. reflexivity. Qed.

Lemma vm_write_len a w : addr_wf a -> vm_write a = Ok w -> lenN w <= 259.
Proof.
  destruct a as [ip p|ip p|host p]; cbn [vm_write addr_wf].
  - intros (Hl & _) [= <-]. rewrite ?lenN_app, ?lenN_put_u16, ?lenN_cons, ?lenN_nil. lia.
  - intros (Hl & _) [= <-]. rewrite ?lenN_app, ?lenN_put_u16, ?lenN_cons, ?lenN_nil. lia.
  - intros _. destruct (N.eqb_spec (lenN host) 0) as [|_]; [discriminate|].
    destruct (N.ltb_spec 255 (lenN host)) as [|Hh]; [discriminate|]. cbn [orb]. intros [= <-].
    rewrite ?lenN_app, ?lenN_put_u16, ?lenN_cons, ?lenN_nil. lia.
Qed.

(* vm_roundtrip with the written bytes independent of what follows them *)
Lemma vm_roundtrip_all a : addr_wf a -> representable a ->
  (forall host p, a = ADom host p -> utf8_valid host = true) ->
  exists w, vm_write a = Ok w /\ forall tail, vm_read utf8_valid (w ++ tail) = Ok (a, tail).
Proof.
  intros Hwf Hrep Hutf. destruct (vm_roundtrip utf8_valid a [] Hwf Hrep Hutf) as (w & Hw & _).
  exists w. split; [exact Hw|]. intros tail.
  destruct (vm_roundtrip utf8_valid a tail Hwf Hrep Hutf) as (w' & Hw' & Hr).
  rewrite Hw in Hw'. injection Hw' as <-. exact Hr.
Qed.

(* ====================================================================================================== *)
(* 1. Request header: header_bytes / parse_header                                                         *)
(* ====================================================================================================== *)
(* the header as the server sees it: the option mask restricted to the five known bits *)
Definition hdr_masked (h : req_header) : req_header :=
  {| rh_opt := known_opt_mask (rh_opt h); rh_sec := rh_sec h; rh_cmd := rh_cmd h; rh_addr := rh_addr h |}.

Lemma hdr_masked_id h : rh_opt h < 32 -> hdr_masked h = h.
Proof. intros H. unfold hdr_masked. rewrite (known_opt_mask_small _ H). destruct h; reflexivity. Qed.

Theorem header_parse_roundtrip_masked : forall h s hpad,
  addr_wf (rh_addr h) -> representable (rh_addr h) ->
  (forall host p, rh_addr h = ADom host p -> utf8_valid host = true) ->
  rh_sec h < 16 -> lenN (vs_iv s) = 16 -> lenN (vs_key s) = 16 -> lenN hpad < 16 ->
  exists hb, header_bytes h s hpad = Ok hb /\ parse_header hb = Ok (hdr_masked h, s) /\ lenN hb <= 316.
Proof.
  intros [opt sec cmd ad] s hpad. unfold hdr_masked. cbn [rh_opt rh_sec rh_cmd rh_addr].
  intros Hwf Hrep Hutf Hsec Hiv Hkey Hpad.
  destruct (vm_roundtrip_all ad Hwf Hrep Hutf) as (w & Hw & Hr).
  pose proof (vm_write_len ad w Hwf Hw) as Hwl.
  unfold header_bytes. cbn [rh_opt rh_sec rh_cmd rh_addr]. rewrite Hw. cbn [bind].
  set (secb := (lenN hpad * 16 + sec) mod 256).
  set (cmdb := match cmd with CmdTcp => 1 | CmdUdp => 2 end).
  assert (Hs1 : secb / 16 = lenN hpad) by (subst secb; lia).
  assert (Hs2 : secb mod 16 = sec) by (subst secb; lia).
  set (body := [1] ++ vs_iv s ++ vs_key s ++ [vs_v s; known_opt_mask opt; secb; 0; cmdb] ++ w ++ hpad).
  assert (Hbl : lenN body = 38 + lenN w + lenN hpad).
  { subst body. rewrite !lenN_app, !lenN_cons, lenN_nil, Hiv, Hkey. lia. }
  eexists. split; [reflexivity|]. split.
  2:{ rewrite lenN_app, lenN_put_u32. lia. }
  set (sum := fnv1a32 body).
  assert (Hsum : sum < 2 ^ 32) by apply fnv1a32_lt.
  assert (Hhl : lenN (body ++ put_u32 sum) = lenN body + 4) by (rewrite lenN_app, lenN_put_u32; reflexivity).
  assert (Htake : takeN (lenN (body ++ put_u32 sum) - 4) (body ++ put_u32 sum) = body).
  { apply takeN_app_n. lia. }
  unfold parse_header. cbv zeta. rewrite Htake. fold sum.
  destruct (N.ltb_spec (lenN (body ++ put_u32 sum)) (1 + 16 + 16 + 1 + 1 + 1 + 1 + 1 + 4)) as [Hc|_]; [exfalso; lia|].
  clearbody sum. clear Htake Hhl Hbl. subst body.
  rewrite <- !app_assoc. cbn [app get_u8 bind].
  rewrite (split_to_app_n 16 (vs_iv s)) by exact Hiv. cbn [bind].
  rewrite (split_to_app_n 16 (vs_key s)) by exact Hkey. cbn [bind get_u8].
  rewrite advance_1_cons. cbn [bind get_u8].
  assert (Hcmd : negb ((cmdb =? 1) || (cmdb =? 2)) = false) by (subst cmdb; destruct cmd; reflexivity).
  rewrite Hcmd. rewrite Hr. cbn [bind]. rewrite Hs1.
  destruct (N.ltb_spec (lenN (hpad ++ put_u32 sum)) (lenN hpad + 4)) as [Hc|_].
  { exfalso. rewrite lenN_app, lenN_put_u32 in Hc. lia. }
  rewrite (advance_app_n (lenN hpad) hpad) by reflexivity. cbn [bind].
  unfold get_u32, put_u32. rewrite get_be_put_be_nil by (change (256 ^ 4) with (2 ^ 32); exact Hsum). cbn [bind].
  rewrite N.eqb_refl. cbn [negb]. rewrite known_opt_mask_idem, Hs2.
  assert (Hc2 : (if cmdb =? 1 then CmdTcp else CmdUdp) = cmd) by (subst cmdb; destruct cmd; reflexivity).
  rewrite Hc2. destruct s; reflexivity.
Qed.

Theorem header_parse_roundtrip : forall h s hpad,
  addr_wf (rh_addr h) -> representable (rh_addr h) ->
  (forall host p, rh_addr h = ADom host p -> utf8_valid host = true) ->
  rh_opt h < 32 -> rh_sec h < 16 -> lenN (vs_iv s) = 16 -> lenN (vs_key s) = 16 -> lenN hpad < 16 ->
  exists hb, header_bytes h s hpad = Ok hb /\ parse_header hb = Ok (h, s) /\ lenN hb <= 316.
Proof.
  intros h s hpad Hwf Hrep Hutf Hopt Hsec Hiv Hkey Hpad.
  destruct (header_parse_roundtrip_masked h s hpad Hwf Hrep Hutf Hsec Hiv Hkey Hpad) as (hb & H1 & H2 & H3).
  rewrite (hdr_masked_id h Hopt) in H2. exists hb. auto.
Qed.

Print Assumptions fnv1a32_lt.
Print Assumptions header_parse_roundtrip_masked.
Print Assumptions header_parse_roundtrip.

(* ====================================================================================================== *)
(* 2.-5. With the primitives                                                                               *)
(* ====================================================================================================== *)
(* what the client codec is given: a target address that passed the guard, known option bits, a security nibble *)
Definition hdr_ok (h : req_header) : Prop :=
  addr_wf (rh_addr h) /\ representable (rh_addr h) /\
  (forall host p, rh_addr h = ADom host p -> utf8_valid host = true) /\ rh_opt h < 32 /\ rh_sec h < 16.
Definition sess_ok (s : vsession) : Prop := lenN (vs_iv s) = 16 /\ lenN (vs_key s) = 16.

Section VmessE2E.
  Variable P : prims.
  Hypothesis HL : prim_laws P.

  (* ---- 2. seal_header / open_header ---- *)
  Lemma seal_header_len key authid cnonce hb :
    lenN (seal_header P key authid cnonce hb) = lenN authid + 18 + lenN cnonce + (lenN hb + 16).
  Proof.
    unfold seal_header. cbv zeta. rewrite !lenN_app, !(seal_len P HL), lenN_put_u16. unfold TAG. lia.
  Qed.
  Lemma seal_header_take16 key authid cnonce hb rest : lenN authid = 16 ->
    takeN 16 (seal_header P key authid cnonce hb ++ rest) = authid.
  Proof. intros H. unfold seal_header. cbv zeta. rewrite <- !app_assoc. apply takeN_app_n. exact H. Qed.

  Theorem seal_open_header_roundtrip : forall key authid cnonce hb rest,
    lenN authid = 16 -> lenN cnonce = 8 -> lenN hb < 65536 ->
    open_header P key (seal_header P key authid cnonce hb ++ rest) = Ok (Some (hb, rest)).
  Proof.
    intros key authid cnonce hb rest Ha Hc Hh. unfold seal_header. cbv zeta.
    set (lk := kdf16 P key [str_len_key; authid; cnonce]). set (li := kdf12 P key [str_len_iv; authid; cnonce]).
    set (hk := kdf16 P key [str_pay_key; authid; cnonce]). set (hi := kdf12 P key [str_pay_iv; authid; cnonce]).
    set (sl := p_seal P 0 lk li authid (put_u16 (lenN hb mod 65536))).
    set (sh := p_seal P 0 hk hi authid hb).
    assert (Hsl : lenN sl = 18) by (subst sl; rewrite (seal_len P HL), lenN_put_u16; reflexivity).
    assert (Hsh : lenN sh = lenN hb + 16) by (subst sh; rewrite (seal_len P HL); reflexivity).
    assert (Ho1 : p_open P 0 lk li authid sl = Some (put_u16 (lenN hb mod 65536))) by apply (open_seal P HL).
    assert (Ho2 : p_open P 0 hk hi authid sh = Some hb) by apply (open_seal P HL).
    clearbody sl sh.
    rewrite <- !app_assoc. set (src := authid ++ sl ++ cnonce ++ sh ++ rest).
    assert (Hlen : lenN src = 16 + 18 + 8 + (lenN hb + 16) + lenN rest) by (subst src; rewrite !lenN_app; lia).
    assert (T16 : takeN 16 src = authid) by (apply takeN_app_n; exact Ha).
    assert (D16 : dropN 16 src = sl ++ cnonce ++ sh ++ rest) by (apply dropN_app_n; exact Ha).
    assert (D34 : dropN 34 src = cnonce ++ sh ++ rest).
    { subst src. rewrite (app_assoc authid sl). apply dropN_app_n. rewrite lenN_app. lia. }
    assert (D42 : dropN 42 src = sh ++ rest).
    { subst src. rewrite (app_assoc authid sl), (app_assoc (authid ++ sl) cnonce). apply dropN_app_n. rewrite !lenN_app. lia. }
    unfold open_header. cbv zeta.
    destruct (N.ltb_spec (lenN src) (16 + 18 + 8 + 16)) as [Hx|_]; [exfalso; lia|].
    rewrite T16, D16, D34, D42. rewrite (takeN_app_n 18 sl) by exact Hsl. rewrite (takeN_app_n 8 cnonce) by exact Hc.
    fold lk li hk hi. rewrite Ho1. rewrite lenN_put_u16. cbn [N.eqb Pos.eqb negb].
    rewrite N.mod_small by exact Hh. unfold put_u16. rewrite be_put_be by (change (256 ^ 2) with 65536; exact Hh).
    destruct (N.ltb_spec (lenN (sh ++ rest)) (lenN hb + 16)) as [Hx|_]; [exfalso; rewrite lenN_app in Hx; lia|].
    rewrite (takeN_app_n (lenN hb + 16) sh) by exact Hsh. rewrite Ho2.
    rewrite (dropN_app_n (lenN hb + 16) sh) by exact Hsh. reflexivity.
  Qed.

  (* ---- the first client / server writes with their lets made explicit ---- *)
  Lemma client_vencode_first : forall id h s ts rnd4 cnonce hpad item padsrc hb,
    header_bytes h s hpad = Ok hb ->
    client_vencode P id h s None ts rnd4 cnonce hpad item padsrc =
    let hdr := seal_header P id (auth_id_create P id ts rnd4) cnonce hb in
    let b := body_new P (rh_opt h) (rh_sec h) (vs_key s) (vs_iv s) (vs_key s) (vs_iv s) in
    match rh_cmd h with
    | CmdTcp => Ok (snd (encode_payload_v P (S (length item)) b item padsrc),
                    hdr ++ fst (encode_payload_v P (S (length item)) b item padsrc))
    | CmdUdp => match encode_packet_v P b item padsrc with
                | Ok (out, b') => Ok (b', hdr ++ out)
                | Err e => Err e
                | Panic => Panic
                end
    end.
  Proof.
    intros id h s ts rnd4 cnonce hpad item padsrc hb Hhb. unfold client_vencode. rewrite Hhb. cbn [bind]. cbv zeta.
    destruct (rh_cmd h).
    - destruct (encode_payload_v P (S (length item)) _ item padsrc) as [out b']. reflexivity.
    - destruct (encode_packet_v P _ item padsrc) as [[out b']|e|]; reflexivity.
  Qed.

  Definition resp_header (h : req_header) (s : vsession) : bytes :=
    p_seal P 0 (kdf16 P (resp_key P s) [str_resp_len_key]) (kdf12 P (resp_iv P s) [str_resp_len_iv]) [] (put_u16 4)
    ++ p_seal P 0 (kdf16 P (resp_key P s) [str_resp_pay_key]) (kdf12 P (resp_iv P s) [str_resp_pay_iv]) []
              [vs_v s; rh_opt h; 0; 0].

  Lemma server_vencode_first : forall h s item padsrc,
    server_vencode P h s None item padsrc =
    let b := body_new P (rh_opt h) (rh_sec h) (resp_key P s) (resp_iv P s) (vs_key s) (vs_iv s) in
    match rh_cmd h with
    | CmdTcp => Ok (snd (encode_payload_v P (S (length item)) b item padsrc),
                    resp_header h s ++ fst (encode_payload_v P (S (length item)) b item padsrc))
    | CmdUdp => match encode_packet_v P b item padsrc with
                | Ok (out, b') => Ok (b', resp_header h s ++ out)
                | Err e => Err e
                | Panic => Panic
                end
    end.
  Proof.
    intros h s item padsrc. unfold server_vencode, resp_header. cbv zeta.
    destruct (rh_cmd h).
    - destruct (encode_payload_v P (S (length item)) _ item padsrc) as [out b']. reflexivity.
    - destruct (encode_packet_v P _ item padsrc) as [[out b']|e|]; reflexivity.
  Qed.

  (* the first configured key that matches wins: [id] is chosen when no EARLIER key matches the same 16 bytes *)
  Lemma auth_id_matching_first : forall now authid pre id post,
    (forall k, In k pre -> auth_id_match1 P now authid k = false) -> auth_id_match1 P now authid id = true ->
    auth_id_matching P now authid (pre ++ id :: post) = Some id.
  Proof.
    intros now authid pre id post. unfold auth_id_matching. induction pre as [|k pre IH]; intros Hpre Hid.
    - cbn [app find]. rewrite Hid. reflexivity.
    - cbn [app find]. rewrite (Hpre k (or_introl eq_refl)). apply IH; [|exact Hid].
      intros k' Hk'. apply Hpre. right. exact Hk'.
  Qed.

  Section Laws.
    Hypothesis shake_len : forall seed n, lenN (p_shake128 P seed n) = n.
    Hypothesis shake_wf : forall seed n, wf_bytes (p_shake128 P seed n).

    (* every chunk starts with a size field: what the encoder writes for a non-empty item is not empty *)
    Lemma encode_chunk_out_len b limit src padsrc : ec_size P b limit src < 65536 ->
      2 <= lenN (fst (fst (encode_chunk P b limit src padsrc))).
    Proof.
      intros Hs. rewrite encode_chunk_eq. cbn [fst]. rewrite lenN_app.
      assert (H16 : TAG <= ec_size P b limit src) by (unfold ec_size, TAG; lia).
      destruct (dec_enc_size P HL shake_len shake_wf (snd (next_padding P b)) (ec_size P b limit src) H16 Hs) as [_ Hl].
      rewrite Hl, size_bytes_next_padding. pose proof (size_bytes_ge b). lia.
    Qed.
    Lemma encode_payload_v_out_len f b x t padsrc :
      2 <= lenN (fst (encode_payload_v P (S f) b (x :: t) padsrc)).
    Proof.
      rewrite encode_payload_v_cons. cbn [fst]. rewrite lenN_app.
      destruct (stream_esize P shake_len shake_wf b (x :: t) ltac:(discriminate)) as [_ Hs].
      pose proof (encode_chunk_out_len b VMESS_PAYLOAD_LIMIT (x :: t) padsrc Hs). lia.
    Qed.
    Lemma encode_packet_v_out_len b src padsrc out b' : encode_packet_v P b src padsrc = Ok (out, b') -> 2 <= lenN out.
    Proof.
      intros E. destruct (N.le_gt_cases (lenN src) (65535 - TAG - VMESS_MAX_PADDING)) as [Hs|Hs].
      - rewrite (encode_packet_v_eq P shake_len shake_wf b src padsrc Hs) in E.
        apply (f_equal (fun r => match r with Ok (o, _) => o | _ => out end)) in E. cbv beta iota in E. rewrite <- E.
        apply encode_chunk_out_len. apply (packet_esize P shake_len shake_wf b src Hs).
      - rewrite (encode_packet_v_too_big P shake_len shake_wf b src padsrc Hs) in E. discriminate.
    Qed.

    (* ---- 3. the request ---- *)
    Section Request.
      Hypothesis aes_block_len : forall k b, lenN b = 16 -> lenN (p_aes_enc P k b) = 16.

      Lemma auth_id_create_len id ts rnd4 : lenN rnd4 = 4 -> lenN (auth_id_create P id ts rnd4) = 16.
      Proof.
        intros Hr. unfold auth_id_create. cbv zeta. apply aes_block_len.
        rewrite !lenN_app, lenN_put_u64, lenN_put_u32, Hr. reflexivity.
      Qed.

      Theorem request_roundtrip_vmess : forall id h s ts rnd4 cnonce hpad item padsrc now keys b_enc wire,
        hdr_ok h -> sess_ok s -> lenN hpad < 16 -> lenN rnd4 = 4 -> lenN cnonce = 8 ->
        auth_id_matching P now (auth_id_create P id ts rnd4) keys = Some id ->
        client_vencode P id h s None ts rnd4 cnonce hpad item padsrc = Ok (b_enc, wire) ->
        server_vdecode P now keys SInit wire =
          match rh_cmd h with
          | CmdTcp => Ok (SReady h s (norm P b_enc), [], Some (ConnectTcp item (rh_addr h)))
          | CmdUdp => Ok (SReady h s b_enc, [], Some (RelayUdp item (rh_addr h)))
          end.
      Proof.
        intros id h s ts rnd4 cnonce hpad item padsrc now keys b_enc wire
               (Hwf & Hrep & Hutf & Hopt & Hsec) (Hiv & Hkey) Hpad Hr4 Hcn Hmatch.
        destruct (header_parse_roundtrip h s hpad Hwf Hrep Hutf Hopt Hsec Hiv Hkey Hpad) as (hb & Hhb & Hparse & Hhl).
        rewrite (client_vencode_first id h s ts rnd4 cnonce hpad item padsrc hb Hhb). cbv zeta.
        pose proof (auth_id_create_len id ts rnd4 Hr4) as Haid.
        set (authid := auth_id_create P id ts rnd4) in *.
        set (b := body_new P (rh_opt h) (rh_sec h) (vs_key s) (vs_iv s) (vs_key s) (vs_iv s)).
        assert (Hsrv : forall out, server_vdecode P now keys SInit (seal_header P id authid cnonce hb ++ out) =
                  match rh_cmd h with
                  | CmdTcp => let* (b', rest', it) := decode_payload_v P b out in
                              Ok (SReady h s b', rest', Some (ConnectTcp (match it with Some d => d | None => [] end) (rh_addr h)))
                  | CmdUdp => let* (b', rest', it) := decode_packet_v P b out in
                              Ok (SReady h s b', rest', match it with Some d => Some (RelayUdp d (rh_addr h)) | None => None end)
                  end).
        { intros out. unfold server_vdecode.
          destruct (N.ltb_spec (lenN (seal_header P id authid cnonce hb ++ out)) 16) as [Hx|_].
          { exfalso. rewrite lenN_app, seal_header_len in Hx. lia. }
          rewrite (seal_header_take16 id authid cnonce hb out Haid). rewrite Hmatch.
          rewrite (seal_open_header_roundtrip id authid cnonce hb out Haid Hcn) by lia. cbn [bind].
          rewrite Hparse. cbn [bind]. cbv zeta. fold b. reflexivity. }
        destruct (rh_cmd h).
        - (* TCP *)
          pose proof (body_roundtrip_stream P HL shake_len shake_wf b item padsrc eq_refl) as HR.
          destruct (encode_payload_v P (S (length item)) b item padsrc) as [out b']. cbn [fst snd].
          intros [= <- <-]. rewrite Hsrv. destruct HR as (HR & _). rewrite HR. cbn [bind].
          destruct item; reflexivity.
        - (* UDP *)
          destruct (encode_packet_v P b item padsrc) as [[out b']|e|] eqn:E; try discriminate.
          intros [= <- <-]. rewrite Hsrv.
          destruct (N.le_gt_cases (lenN item) (65535 - TAG - VMESS_MAX_PADDING)) as [Hs|Hs].
          + destruct (body_roundtrip_packet P HL shake_len shake_wf b item padsrc eq_refl Hs) as (w2 & b2 & E2 & HD & _).
            rewrite E in E2. injection E2 as <- <-. rewrite HD. reflexivity.
          + rewrite (encode_packet_v_too_big P shake_len shake_wf b item padsrc Hs) in E. discriminate.
      Qed.

      (* the client's first write succeeds *)
      Lemma client_vencode_ok : forall id h s ts rnd4 cnonce hpad item padsrc,
        hdr_ok h -> sess_ok s -> lenN hpad < 16 ->
        (rh_cmd h = CmdUdp -> lenN item <= 65535 - 16 - 63) ->
        exists b_enc wire, client_vencode P id h s None ts rnd4 cnonce hpad item padsrc = Ok (b_enc, wire).
      Proof.
        intros id h s ts rnd4 cnonce hpad item padsrc (Hwf & Hrep & Hutf & Hopt & Hsec) (Hiv & Hkey) Hpad Hudp.
        destruct (header_parse_roundtrip h s hpad Hwf Hrep Hutf Hopt Hsec Hiv Hkey Hpad) as (hb & Hhb & _).
        rewrite (client_vencode_first id h s ts rnd4 cnonce hpad item padsrc hb Hhb). cbv zeta.
        destruct (rh_cmd h).
        - eexists; eexists; reflexivity.
        - set (b := body_new P (rh_opt h) (rh_sec h) (vs_key s) (vs_iv s) (vs_key s) (vs_iv s)).
          destruct (body_roundtrip_packet P HL shake_len shake_wf b item padsrc eq_refl (Hudp eq_refl)) as (w2 & b2 & E2 & _).
          rewrite E2. eexists; eexists; reflexivity.
      Qed.

      (* whole datagram or error: an oversized UDP item is refused by the client, never truncated *)
      Lemma client_vencode_udp_too_big : forall id h s ts rnd4 cnonce hpad item padsrc,
        hdr_ok h -> sess_ok s -> lenN hpad < 16 -> rh_cmd h = CmdUdp -> 65535 - 16 - 63 < lenN item ->
        client_vencode P id h s None ts rnd4 cnonce hpad item padsrc = Err EAead.
      Proof.
        intros id h s ts rnd4 cnonce hpad item padsrc (Hwf & Hrep & Hutf & Hopt & Hsec) (Hiv & Hkey) Hpad Hcmd Hbig.
        destruct (header_parse_roundtrip h s hpad Hwf Hrep Hutf Hopt Hsec Hiv Hkey Hpad) as (hb & Hhb & _).
        rewrite (client_vencode_first id h s ts rnd4 cnonce hpad item padsrc hb Hhb). cbv zeta. rewrite Hcmd.
        rewrite (encode_packet_v_too_big P shake_len shake_wf _ item padsrc Hbig). reflexivity.
      Qed.

      (* existence form: the write succeeds and is decoded *)
      Corollary request_roundtrip_vmess_ex : forall id h s ts rnd4 cnonce hpad item padsrc now keys,
        hdr_ok h -> sess_ok s -> lenN hpad < 16 -> lenN rnd4 = 4 -> lenN cnonce = 8 ->
        (rh_cmd h = CmdUdp -> lenN item <= 65535 - 16 - 63) ->
        auth_id_matching P now (auth_id_create P id ts rnd4) keys = Some id ->
        exists b_enc wire,
          client_vencode P id h s None ts rnd4 cnonce hpad item padsrc = Ok (b_enc, wire) /\
          server_vdecode P now keys SInit wire =
            match rh_cmd h with
            | CmdTcp => Ok (SReady h s (norm P b_enc), [], Some (ConnectTcp item (rh_addr h)))
            | CmdUdp => Ok (SReady h s b_enc, [], Some (RelayUdp item (rh_addr h)))
            end.
      Proof.
        intros id h s ts rnd4 cnonce hpad item padsrc now keys Hh Hs Hpad Hr4 Hcn Hudp Hmatch.
        destruct (client_vencode_ok id h s ts rnd4 cnonce hpad item padsrc Hh Hs Hpad Hudp) as (b_enc & wire & E).
        exists b_enc, wire. split; [exact E|].
        exact (request_roundtrip_vmess id h s ts rnd4 cnonce hpad item padsrc now keys b_enc wire Hh Hs Hpad Hr4 Hcn Hmatch E).
      Qed.

      Section Window.
        Hypothesis crc_lt : forall b, p_crc32 P b < 2 ^ 32.

        (* the match premise derived: the user's key is configured, no EARLIER configured key matches the same
           auth id, and the server clock is within 120 s of the client's timestamp *)
        Theorem request_roundtrip_vmess_keys : forall id h s ts rnd4 cnonce hpad item padsrc now pre post b_enc wire,
          hdr_ok h -> sess_ok s -> lenN hpad < 16 -> lenN rnd4 = 4 -> lenN cnonce = 8 ->
          ts < 2 ^ 63 -> (Z.abs (Z.of_N ts - Z.of_N now) <= 120)%Z ->
          (forall k, In k pre -> auth_id_match1 P now (auth_id_create P id ts rnd4) k = false) ->
          client_vencode P id h s None ts rnd4 cnonce hpad item padsrc = Ok (b_enc, wire) ->
          server_vdecode P now (pre ++ id :: post) SInit wire =
            match rh_cmd h with
            | CmdTcp => Ok (SReady h s (norm P b_enc), [], Some (ConnectTcp item (rh_addr h)))
            | CmdUdp => Ok (SReady h s b_enc, [], Some (RelayUdp item (rh_addr h)))
            end.
        Proof.
          intros id h s ts rnd4 cnonce hpad item padsrc now pre post b_enc wire Hh Hs Hpad Hr4 Hcn Hts Hwin Hpre E.
          apply (request_roundtrip_vmess id h s ts rnd4 cnonce hpad item padsrc now (pre ++ id :: post) b_enc wire
                                         Hh Hs Hpad Hr4 Hcn); [|exact E].
          apply auth_id_matching_first; [exact Hpre|].
          rewrite (auth_id_created_match P (aes_dec_enc P HL) crc_lt id ts rnd4 now Hr4 Hts).
          apply Z.leb_le. exact Hwin.
        Qed.

        Corollary request_roundtrip_vmess_single : forall id h s ts rnd4 cnonce hpad item padsrc now b_enc wire,
          hdr_ok h -> sess_ok s -> lenN hpad < 16 -> lenN rnd4 = 4 -> lenN cnonce = 8 ->
          ts < 2 ^ 63 -> (Z.abs (Z.of_N ts - Z.of_N now) <= 120)%Z ->
          client_vencode P id h s None ts rnd4 cnonce hpad item padsrc = Ok (b_enc, wire) ->
          server_vdecode P now [id] SInit wire =
            match rh_cmd h with
            | CmdTcp => Ok (SReady h s (norm P b_enc), [], Some (ConnectTcp item (rh_addr h)))
            | CmdUdp => Ok (SReady h s b_enc, [], Some (RelayUdp item (rh_addr h)))
            end.
        Proof.
          intros id h s ts rnd4 cnonce hpad item padsrc now b_enc wire Hh Hs Hpad Hr4 Hcn Hts Hwin E.
          apply (request_roundtrip_vmess_keys id h s ts rnd4 cnonce hpad item padsrc now [] [] b_enc wire
                                              Hh Hs Hpad Hr4 Hcn Hts Hwin); [|exact E].
          intros k [].
        Qed.
      End Window.
    End Request.

    (* ---- 4. the response ---- *)
    Lemma client_vdecode_resp_header : forall h s out,
      client_vdecode P h s None (resp_header h s ++ out) =
      let b := body_new P (rh_opt h) (rh_sec h) (resp_key P s) (resp_iv P s) (vs_key s) (vs_iv s) in
      match out with
      | [] => Ok (Some b, [], None)
      | _ => match rh_cmd h with
             | CmdTcp => let* (b', r, it) := decode_payload_v P b out in Ok (Some b', r, it)
             | CmdUdp => let* (b', r, it) := decode_packet_v P b out in Ok (Some b', r, it)
             end
      end.
    Proof.
      intros h s out. unfold resp_header.
      set (lk := kdf16 P (resp_key P s) [str_resp_len_key]). set (li := kdf12 P (resp_iv P s) [str_resp_len_iv]).
      set (hk := kdf16 P (resp_key P s) [str_resp_pay_key]). set (hi := kdf12 P (resp_iv P s) [str_resp_pay_iv]).
      set (sl := p_seal P 0 lk li [] (put_u16 4)).
      set (sh := p_seal P 0 hk hi [] [vs_v s; rh_opt h; 0; 0]).
      assert (Hsl : lenN sl = 18) by (subst sl; rewrite (seal_len P HL), lenN_put_u16; reflexivity).
      assert (Hsh : lenN sh = 20) by (subst sh; rewrite (seal_len P HL); reflexivity).
      assert (Ho1 : p_open P 0 lk li [] sl = Some (put_u16 4)) by apply (open_seal P HL).
      assert (Ho2 : p_open P 0 hk hi [] sh = Some [vs_v s; rh_opt h; 0; 0]) by apply (open_seal P HL).
      clearbody sl sh. rewrite <- app_assoc. set (src := sl ++ sh ++ out).
      assert (Hlen : lenN src = 18 + 20 + lenN out) by (subst src; rewrite !lenN_app; lia).
      destruct (nonempty_cons src ltac:(lia)) as (x & t & Ex).
      rewrite Ex. unfold client_vdecode. rewrite <- Ex. cbv zeta. fold lk li hk hi.
      destruct (N.ltb_spec (lenN src) (2 + 16)) as [Hx|_]; [exfalso; lia|].
      assert (T18 : takeN 18 src = sl) by (apply takeN_app_n; exact Hsl).
      assert (D18 : dropN 18 src = sh ++ out) by (apply dropN_app_n; exact Hsl).
      rewrite T18, D18, Ho1. unfold get_u16, put_u16.
      rewrite get_be_put_be_nil by (change (256 ^ 2) with 65536; lia). cbn [bind].
      destruct (N.ltb_spec (lenN (sh ++ out)) (4 + 16)) as [Hx|_]; [exfalso; rewrite lenN_app in Hx; lia|].
      rewrite (takeN_app_n (4 + 16) sh) by exact Hsh. rewrite Ho2. rewrite N.eqb_refl.
      rewrite (dropN_app_n (4 + 16) sh) by exact Hsh.
      destruct out as [|y r]; [reflexivity|]. destruct (rh_cmd h); reflexivity.
    Qed.

    Theorem response_roundtrip_vmess : forall h s item padsrc b_enc wire,
      server_vencode P h s None item padsrc = Ok (b_enc, wire) ->
      match rh_cmd h with
      | CmdTcp => client_vdecode P h s None wire =
                    Ok (Some (match item with [] => b_enc | _ => norm P b_enc end), [], item_of item)
      | CmdUdp => client_vdecode P h s None wire = Ok (Some b_enc, [], Some item)
      end.
    Proof.
      intros h s item padsrc b_enc wire. rewrite server_vencode_first. cbv zeta.
      set (b := body_new P (rh_opt h) (rh_sec h) (resp_key P s) (resp_iv P s) (vs_key s) (vs_iv s)).
      pose proof (client_vdecode_resp_header h s) as HC. cbv zeta in HC. fold b in HC.
      destruct (rh_cmd h).
      - (* TCP *)
        destruct item as [|x t].
        + cbn [encode_payload_v fst snd length]. intros [= <- <-]. rewrite HC. reflexivity.
        + pose proof (body_roundtrip_stream P HL shake_len shake_wf b (x :: t) padsrc eq_refl) as HR.
          pose proof (encode_payload_v_out_len (length (x :: t)) b x t padsrc) as Hne.
          destruct (encode_payload_v P (S (length (x :: t))) b (x :: t) padsrc) as [out b']. cbn [fst snd] in *.
          intros [= <- <-]. rewrite HC. destruct HR as (HR & _).
          destruct out as [|y r]; [rewrite lenN_nil in Hne; lia|]. rewrite HR. reflexivity.
      - (* UDP *)
        destruct (encode_packet_v P b item padsrc) as [[out b']|e|] eqn:E; try discriminate.
        intros [= <- <-]. rewrite HC.
        pose proof (encode_packet_v_out_len b item padsrc out b' E) as Hne.
        destruct out as [|y r]; [rewrite lenN_nil in Hne; lia|].
        destruct (N.le_gt_cases (lenN item) (65535 - TAG - VMESS_MAX_PADDING)) as [Hs|Hs].
        + destruct (body_roundtrip_packet P HL shake_len shake_wf b item padsrc eq_refl Hs) as (w2 & b2 & E2 & HD & _).
          rewrite E in E2. injection E2 as <- <-. rewrite HD. reflexivity.
        + rewrite (encode_packet_v_too_big P shake_len shake_wf b item padsrc Hs) in E. discriminate.
    Qed.

    (* in every case the client's response decoder is the server's encoder up to the eager padding draw *)
    Corollary response_decoder_lockstep : forall h s item padsrc b_enc wire,
      server_vencode P h s None item padsrc = Ok (b_enc, wire) ->
      exists bd it, client_vdecode P h s None wire = Ok (Some bd, [], it) /\ norm P bd = norm P b_enc /\
                    it = match rh_cmd h with CmdTcp => item_of item | CmdUdp => Some item end.
    Proof.
      intros h s item padsrc b_enc wire E. pose proof (response_roundtrip_vmess h s item padsrc b_enc wire E) as H.
      destruct (rh_cmd h).
      - eexists; eexists. split; [exact H|]. split; [|reflexivity].
        destruct item; [reflexivity|apply norm_idem].
      - eexists; eexists. split; [exact H|]. split; reflexivity.
    Qed.

    Lemma server_vencode_ok : forall h s item padsrc,
      (rh_cmd h = CmdUdp -> lenN item <= 65535 - 16 - 63) ->
      exists b_enc wire, server_vencode P h s None item padsrc = Ok (b_enc, wire).
    Proof.
      intros h s item padsrc Hudp. rewrite server_vencode_first. cbv zeta. destruct (rh_cmd h).
      - eexists; eexists; reflexivity.
      - set (b := body_new P (rh_opt h) (rh_sec h) (resp_key P s) (resp_iv P s) (vs_key s) (vs_iv s)).
        destruct (body_roundtrip_packet P HL shake_len shake_wf b item padsrc eq_refl (Hudp eq_refl)) as (w2 & b2 & E2 & _).
        rewrite E2. eexists; eexists; reflexivity.
    Qed.

    (* ---- 5. request and response chained (TCP): the server answers with the header and session it parsed ---- *)
    Theorem vmess_first_exchange : forall (aes_block_len : forall k b, lenN b = 16 -> lenN (p_aes_enc P k b) = 16)
      id h s ts rnd4 cnonce hpad req resp padc pads now keys,
      hdr_ok h -> sess_ok s -> rh_cmd h = CmdTcp -> lenN hpad < 16 -> lenN rnd4 = 4 -> lenN cnonce = 8 ->
      auth_id_matching P now (auth_id_create P id ts rnd4) keys = Some id ->
      exists bc wire h' s' bd bs rwire bcd,
        client_vencode P id h s None ts rnd4 cnonce hpad req padc = Ok (bc, wire) /\
        server_vdecode P now keys SInit wire = Ok (SReady h' s' bd, [], Some (ConnectTcp req (rh_addr h))) /\
        h' = h /\ s' = s /\ bd = norm P bc /\
        server_vencode P h' s' None resp pads = Ok (bs, rwire) /\
        client_vdecode P h s None rwire = Ok (Some bcd, [], item_of resp) /\ norm P bcd = norm P bs.
    Proof.
      intros aes_block_len id h s ts rnd4 cnonce hpad req resp padc pads now keys Hh Hs Hcmd Hpad Hr4 Hcn Hmatch.
      destruct (request_roundtrip_vmess_ex aes_block_len id h s ts rnd4 cnonce hpad req padc now keys Hh Hs Hpad Hr4 Hcn
                  ltac:(rewrite Hcmd; discriminate) Hmatch) as (bc & wire & E1 & E2).
      rewrite Hcmd in E2.
      destruct (server_vencode_ok h s resp pads ltac:(rewrite Hcmd; discriminate)) as (bs & rwire & E3).
      destruct (response_decoder_lockstep h s resp pads bs rwire E3) as (bcd & it & E4 & E5 & E6).
      rewrite Hcmd in E6. subst it.
      exists bc, wire, h, s, (norm P bc), bs, rwire, bcd. repeat split; assumption.
    Qed.
  End Laws.
End VmessE2E.

Print Assumptions seal_open_header_roundtrip.
Print Assumptions request_roundtrip_vmess.
Print Assumptions request_roundtrip_vmess_ex.
Print Assumptions request_roundtrip_vmess_keys.
Print Assumptions request_roundtrip_vmess_single.
Print Assumptions client_vencode_udp_too_big.
Print Assumptions response_roundtrip_vmess.
Print Assumptions response_decoder_lockstep.
Print Assumptions vmess_first_exchange.

(* ====================================================================================================== *)
(* 6. Non-vacuity: the premises are jointly satisfiable (ToyVmess.toyV); concrete exchanges                *)
(* ====================================================================================================== *)
Module ToyRoundtrip.
  Import ToyVmess.

  Lemma toy_xor_len : forall b k, lenN (toy_xor k b) = lenN b.
  Proof.
    induction b as [|x t IH]; intros k; [reflexivity|]. destruct k as [|y k']; cbn [toy_xor]; rewrite !lenN_cons, IH; reflexivity.
  Qed.
  Lemma toy_aes_block_len : forall k b, lenN b = 16 -> lenN (p_aes_enc toyV k b) = 16.
  Proof. intros k b H. cbn [toyV p_aes_enc]. rewrite toy_xor_len. exact H. Qed.

  Definition toy_seal_open_header_roundtrip := seal_open_header_roundtrip toyV toy_laws.
  Definition toy_request_roundtrip := request_roundtrip_vmess toyV toy_laws toy_shake_len toy_shake_wf toy_aes_block_len.
  Definition toy_request_roundtrip_ex := request_roundtrip_vmess_ex toyV toy_laws toy_shake_len toy_shake_wf toy_aes_block_len.
  Definition toy_request_roundtrip_keys :=
    request_roundtrip_vmess_keys toyV toy_laws toy_shake_len toy_shake_wf toy_aes_block_len toy_crc_lt.
  Definition toy_response_roundtrip := response_roundtrip_vmess toyV toy_laws toy_shake_len toy_shake_wf.
  Definition toy_first_exchange := vmess_first_exchange toyV toy_laws toy_shake_len toy_shake_wf toy_aes_block_len.

  Definition hello : bytes := [104;101;108;108;111].
  Definition hdr (opt sec : N) (cmd : command) : req_header := {| rh_opt := opt; rh_sec := sec; rh_cmd := cmd; rh_addr := target |}.

  (* the premises of the request theorem hold for a concrete request *)
  Lemma toy_hdr_ok opt sec cmd : opt < 32 -> sec < 16 -> hdr_ok (hdr opt sec cmd).
  Proof.
    intros Ho Hs. unfold hdr_ok, hdr, target. cbn [rh_addr rh_opt rh_sec addr_wf representable].
    split; [split; [unfold wf_bytes; repeat constructor|reflexivity]|].
    split; [vm_compute; split; discriminate|].
    split; [intros host p [= <- _]; vm_compute; reflexivity|].
    split; assumption.
  Qed.
  Lemma toy_sess_ok : sess_ok sess.
  Proof. split; reflexivity. Qed.

  (* the theorem applied (not computed): a second configured user in front of the real one, 100 s of clock skew,
     all five option bits, chacha20-poly1305, TCP *)
  Example toy_request_tcp_by_theorem : forall b_enc wire,
    client_vencode toyV uid (hdr 29 4 CmdTcp) sess None now0 rnd4 cnonce [9;9;9] hello [1;2;3] = Ok (b_enc, wire) ->
    server_vdecode toyV (now0 + 100) [uid2; uid] SInit wire =
      Ok (SReady (hdr 29 4 CmdTcp) sess (norm toyV b_enc), [], Some (ConnectTcp hello target)).
  Proof.
    intros b_enc wire E.
    apply (toy_request_roundtrip_keys uid (hdr 29 4 CmdTcp) sess now0 rnd4 cnonce [9;9;9] hello [1;2;3] (now0 + 100)
                                      [uid2] [] b_enc wire); try reflexivity; try exact E.
    - apply toy_hdr_ok; lia.
    - exact toy_sess_ok.
    - unfold now0. lia.
    - intros k [<-|[]]. vm_compute. reflexivity.
  Qed.

  (* and UDP, through the existence form *)
  Example toy_request_udp_by_theorem : exists b_enc wire,
    client_vencode toyV uid (hdr 13 3 CmdUdp) sess None now0 rnd4 cnonce [] hello [] = Ok (b_enc, wire) /\
    server_vdecode toyV now0 [uid] SInit wire =
      Ok (SReady (hdr 13 3 CmdUdp) sess b_enc, [], Some (RelayUdp hello target)).
  Proof.
    apply (toy_request_roundtrip_ex uid (hdr 13 3 CmdUdp) sess now0 rnd4 cnonce [] hello [] now0 [uid]); try reflexivity.
    - apply toy_hdr_ok; lia.
    - exact toy_sess_ok.
    - intros _. vm_compute. discriminate.
  Qed.

  (* the same statements checked by computation, incl. the empty first payload and the response direction *)
  Example toy_request_empty_item_computed :
    match client_vencode toyV uid (hdr 29 3 CmdTcp) sess None now0 rnd4 cnonce [7] [] [] with
    | Ok (bc, wire) => server_vdecode toyV now0 [uid] SInit wire =
                       Ok (SReady (hdr 29 3 CmdTcp) sess (norm toyV bc), [], Some (ConnectTcp [] target))
    | _ => False
    end.
  Proof. vm_compute. reflexivity. Qed.

  Example toy_response_computed :
    match server_vencode toyV (hdr 29 3 CmdTcp) sess None hello [1;2;3] with
    | Ok (bs, rwire) => client_vdecode toyV (hdr 29 3 CmdTcp) sess None rwire = Ok (Some (norm toyV bs), [], Some hello)
    | _ => False
    end /\
    match server_vencode toyV (hdr 29 3 CmdTcp) sess None [] [] with
    | Ok (bs, rwire) => client_vdecode toyV (hdr 29 3 CmdTcp) sess None rwire = Ok (Some bs, [], None)
    | _ => False
    end /\
    match server_vencode toyV (hdr 29 4 CmdUdp) sess None [] [] with
    | Ok (bs, rwire) => client_vdecode toyV (hdr 29 4 CmdUdp) sess None rwire = Ok (Some bs, [], Some [])
    | _ => False
    end.
  Proof. vm_compute. repeat split. Qed.
End ToyRoundtrip.

Print Assumptions ToyRoundtrip.toy_request_roundtrip.
Print Assumptions ToyRoundtrip.toy_first_exchange.
Print Assumptions ToyRoundtrip.toy_request_tcp_by_theorem.
Print Assumptions ToyRoundtrip.toy_request_udp_by_theorem.
Print Assumptions ToyRoundtrip.toy_response_computed.
